(* C09, soundness of the capture exit of IsCheckmate:

     attacker := the single checker;  defenders := Attackers(attacker, occ, me) &^ king
     for each defender { nocc := occ &^ defender; opp &= ^attacker
                         if no enemy bishop/rook/queen (other than the attacker) hits kingSq in nocc { return false } }

   If the loop returns, the capture of the checker by that defender is a legal move. *)
From Coq Require Import NArith ZArith List Bool Lia.
From Chess3 Require Import Base.Bits Model.Types Spec.Geometry Model.Att Model.BoardDef Model.Board
     Model.Movegen Model.Mate Spec.Chess Spec.Rep Proofs.MateGeom Proofs.MateAbs Proofs.MateKing
     Proofs.MateMove.
Import ListNotations.
Open Scope N_scope.

(* ------------------------------------------------------------------------------------------ *)
(* a word with at most one bit *)

Lemma bit_succ k : bit (N.succ k) = N.double (bit k).
Proof. unfold bit. apply N.shiftl_succ_r. Qed.

Lemma popcount_p_pos p : 1 <= popcount_p p.
Proof. induction p; cbn [popcount_p]; lia. Qed.

Lemma pop1_pos p : popcount_p p <= 1 -> Npos p = bit (ctzp p).
Proof.
  induction p as [q IH|q IH|]; cbn [popcount_p ctzp]; intros H.
  - pose proof (popcount_p_pos q). lia.
  - rewrite bit_succ, <- (IH H). reflexivity.
  - reflexivity.
Qed.

Lemma popcount_le1_bit x : x <> 0 -> (1 <? popcount x) = false -> x = bit (lsb x).
Proof.
  intros Hx H. apply N.ltb_ge in H. destruct x as [|p]; [congruence|]. cbn [popcount lsb] in *. apply pop1_pos. exact H.
Qed.

(* ------------------------------------------------------------------------------------------ *)
(* Attackers of one square *)

Ltac bool_blast :=
  repeat match goal with |- context [N.testbit ?x ?y] => generalize (N.testbit x y); intro end;
  repeat match goal with v : bool |- _ => destruct v end; reflexivity.

Lemma attackers_zero b occ c : attackers b 0 occ c = 0.
Proof. unfold attackers. cbn [bits_of fold_left]. destruct c; reflexivity. Qed.

Lemma attackers_testbit b q occ c u : q < 64 ->
  N.testbit (attackers b (bit q) occ c) u =
  N.testbit (colors b c) u &&
  ( (N.testbit (king_moves q) u && N.testbit (pieces b King) u)
    || (N.testbit (knight_moves q) u && N.testbit (pieces b Knight) u)
    || (N.testbit (bishop_moves q occ) u && (N.testbit (pieces b Bishop) u || N.testbit (pieces b Queen) u))
    || (N.testbit (rook_moves q occ) u && (N.testbit (pieces b Rook) u || N.testbit (pieces b Queen) u))
    || (N.testbit (pawn_capture_moves (bit q) (flip c)) u && N.testbit (pieces b Pawn) u) ).
Proof.
  intros Hq. unfold attackers. rewrite (bits_of_bit q Hq). cbn [fold_left]. unfold diag_sliders, line_sliders, bor, band.
  rewrite !N.lor_spec, !N.land_spec, !N.lor_spec, !N.land_spec, !N.lor_spec, N.bits_0.
  repeat match goal with |- context [N.testbit ?x u] => generalize (N.testbit x u); intro end.
  repeat match goal with v : bool |- _ => destruct v end; reflexivity.
Qed.

Definition pawn_sym_check (c : color) (q u : N) : bool :=
  Bool.eqb (N.testbit (pawn_capture_moves (bit q) (flip c)) u) (N.testbit (pawn_attacks c u) q).
Lemma pawn_sym c q u : q < 64 -> u < 64 ->
  N.testbit (pawn_capture_moves (bit q) (flip c)) u = N.testbit (pawn_attacks c u) q.
Proof.
  intros Hq Hu. apply eqb_prop. revert q u Hq Hu. destruct c.
  - apply (forall_sq2 (pawn_sym_check White)). vm_compute. reflexivity.
  - apply (forall_sq2 (pawn_sym_check Black)). vm_compute. reflexivity.
Qed.

(* every man of colour c that attacks q by the rules is in Attackers({q}, occ, c) *)
Lemma attackers_complete b c k u q occ :
  Rep b -> u < 64 -> q < 64 -> who (abs b) u = Some (c, k) ->
  mem (attacks_from c k u occ) q = true ->
  N.testbit (attackers b (bit q) occ c) u = true.
Proof.
  intros HR Hu Hq Hw Hm. destruct (who_abs_inv b HR u c k Hu Hw) as (Hk & Hp & Hc & _).
  rewrite attackers_testbit by exact Hq. rewrite Hc. cbn [andb]. unfold mem in Hm.
  assert (k = 1 \/ k = 2 \/ k = 3 \/ k = 4 \/ k = 5 \/ k = 6) as [->|[->|[->|[->|[->| ->]]]]] by lia.
  - change (attacks_from c 1 u occ) with (pawn_attacks c u) in Hm.
    rewrite (pawn_sym c q u Hq Hu), Hm. change Pawn with 1. rewrite Hp. bool_blast.
  - change (attacks_from c 2 u occ) with (knight_attacks u) in Hm. rewrite knight_sym in Hm by assumption.
    unfold knight_moves. rewrite Hm. change Knight with 2. rewrite Hp. bool_blast.
  - change (attacks_from c 3 u occ) with (bishop_attacks u occ) in Hm. apply bishop_sym in Hm; try assumption.
    unfold bishop_moves. rewrite Hm. change Bishop with 3. rewrite Hp. bool_blast.
  - change (attacks_from c 4 u occ) with (rook_attacks u occ) in Hm. apply rook_sym in Hm; try assumption.
    unfold rook_moves. rewrite Hm. change Rook with 4. rewrite Hp. bool_blast.
  - change (attacks_from c 5 u occ) with (N.lor (rook_attacks u occ) (bishop_attacks u occ)) in Hm.
    rewrite N.lor_spec in Hm. apply orb_true_iff in Hm. destruct Hm as [Hm|Hm].
    + apply rook_sym in Hm; try assumption. unfold rook_moves. rewrite Hm. change Queen with 5. rewrite Hp. bool_blast.
    + apply bishop_sym in Hm; try assumption. unfold bishop_moves. rewrite Hm. change Queen with 5. rewrite Hp. bool_blast.
  - change (attacks_from c 6 u occ) with (king_attacks u) in Hm. rewrite king_sym in Hm by assumption.
    unfold king_moves. rewrite Hm. change King with 6. rewrite Hp. bool_blast.
Qed.

(* ------------------------------------------------------------------------------------------ *)
(* the loop: the mutation of [opp] across iterations is idempotent *)

Lemma band_idem x y : band (band x y) y = band x y.
Proof. unfold band. rewrite <- N.land_assoc, N.land_diag. reflexivity. Qed.

Lemma capture_loop_spec b k occ a opp defs :
  mate_capture_loop b k occ a opp defs =
  existsb (fun d => negb (slider_hits b k (band occ (bnot (bit d))) (band opp (bnot a)))) defs.
Proof.
  revert opp. induction defs as [|d r IH]; intros opp; cbn [mate_capture_loop existsb]; [reflexivity|].
  rewrite IH, band_idem. destruct (negb _); reflexivity.
Qed.

(* slider_hits = false: no enemy slider of the right kind is seen from the king *)
Lemma slider_hits_false b k nocc opp u :
  slider_hits b k nocc opp = false -> N.testbit opp u = true ->
  (N.testbit (bishop_moves k nocc) u = true -> N.testbit (pieces b Bishop) u || N.testbit (pieces b Queen) u = true -> False) /\
  (N.testbit (rook_moves k nocc) u = true -> N.testbit (pieces b Rook) u || N.testbit (pieces b Queen) u = true -> False).
Proof.
  unfold slider_hits. intros H Ho. apply orb_false_elim in H. destruct H as [H1 H2].
  apply negb_false_iff in H1, H2. split; intros Hm Hp.
  - apply (band_zero_testbit _ _ u) in H1; [congruence|]. unfold band, diag_sliders, bor.
    rewrite N.land_spec, N.lor_spec, Hm, Hp. reflexivity.
  - apply (band_zero_testbit _ _ u) in H2; [congruence|]. unfold band, line_sliders, bor.
    rewrite N.land_spec, N.lor_spec, Hm, Hp. reflexivity.
Qed.

(* ------------------------------------------------------------------------------------------ *)
(* pseudo-legality of a capture *)

Lemma colors_disjoint b : Rep b -> forall c s, s < 64 ->
  N.testbit (colors b (flip c)) s = true -> N.testbit (colors b c) s = false.
Proof.
  intros HR c s Hs H. destruct (sq_facts b HR s Hs) as (_ & _ & _ & H2).
  destruct c; cbn [flip] in H; rewrite H in H2.
  - rewrite andb_true_r in H2. exact H2.
  - cbn [andb] in H2. exact H2.
Qed.

Lemma occupancy_of_color b c s : N.testbit (colors b c) s = true -> N.testbit (occupancy b) s = true.
Proof. intros H. rewrite occupancy_testbit. destruct c; rewrite H; [reflexivity|apply orb_true_r]. Qed.

Section Capture.
Variable b : board.
Hypothesis HR : Rep b.
Hypothesis HV : valid (abs b) = true.
Let me := stm b.
Let them := flip me.

Lemma disjoint_colors s : s < 64 -> N.testbit (colors b them) s = true -> N.testbit (colors b me) s = false.
Proof. intros Hs H. exact (colors_disjoint b HR me s Hs H). Qed.

Lemma pseudo_piece d a kd : d < 64 -> a < 64 -> who (abs b) d = Some (me, kd) ->
  kd <> Pawn -> kd <> King -> N.testbit (colors b me) a = false ->
  mem (attacks_from me kd d (occupancy b)) a = true ->
  pseudo_spec (abs b) (mk_move d a 0) = true.
Proof.
  intros Hd Ha Hw Hnp Hnk Hown Hm. destruct (mk_move_fields d a Hd Ha) as (Ef & Et & Ep).
  unfold pseudo_spec. rewrite Ef, Et, Ep. cbv zeta. rewrite Hw. change (turn (abs b)) with me.
  rewrite color_eqb_refl, (owned_abs b HR a me Ha), Hown. cbn [negb andb].
  destruct (N.eqb_spec kd Pawn); [contradiction|]. destruct (N.eqb_spec kd King); [contradiction|].
  rewrite (occ_of_abs b HR), Hm. reflexivity.
Qed.

Definition promo_for (a : N) : N := if rank_n a =? last_rank me then Queen else 0.

Lemma promo_for_in a : In (promo_for a) [0; Knight; Bishop; Rook; Queen].
Proof. unfold promo_for. destruct (rank_n a =? last_rank me); cbn; tauto. Qed.

Lemma pseudo_pawn_capture d a : d < 64 -> a < 64 -> who (abs b) d = Some (me, Pawn) ->
  N.testbit (colors b them) a = true -> N.testbit (pawn_attacks me d) a = true ->
  pseudo_spec (abs b) (mk_move d a (promo_for a)) = true.
Proof.
  intros Hd Ha Hw Hopp Hm.
  destruct (mk_move_fields_pr d a (promo_for a) Hd Ha (promo_for_in a)) as (Ef & Et & Ep).
  unfold pseudo_spec. rewrite Ef, Et, Ep. cbv zeta. rewrite Hw. change (turn (abs b)) with me.
  rewrite color_eqb_refl, (owned_abs b HR a me Ha), (disjoint_colors a Ha Hopp). cbn [negb andb].
  change (Pawn =? Pawn) with true. cbv iota.
  assert ((if rank_n a =? last_rank me then is_promo_piece (promo_for a) else promo_for a =? 0) = true) as ->.
  { unfold promo_for. destruct (rank_n a =? last_rank me); reflexivity. }
  unfold mem. rewrite Hm. rewrite (owned_abs b HR a (flip me) Ha). fold them. rewrite Hopp.
  cbn [andb orb]. rewrite !orb_true_r. reflexivity.
Qed.

(* ------------------------------------------------------------------------------------------ *)
(* the capture of the single checker by an unpinned defender is legal *)

Variables k0 a d : N.
Hypothesis Hk0 : k0 < 64.
Hypothesis Hking : forall s, s < 64 -> holds (abs b) s me King = (s =? k0).
Hypothesis Ha : a < 64.
Hypothesis Hd : d < 64.
Hypothesis Haopp : N.testbit (colors b them) a = true.
(* a is the only man that gives check *)
Hypothesis Hsingle : forall u, N.testbit (attackers b (bit k0) (occupancy b) them) u = true -> u = a.
(* the pin test of the loop *)
Hypothesis Hpin : slider_hits b k0 (band (occupancy b) (bnot (bit d))) (band (colors b them) (bnot (bit a))) = false.

Lemma capture_safe kd pr :
  who (abs b) d = Some (me, kd) -> kd <> King -> In pr [0; Knight; Bishop; Rook; Queen] ->
  is_ep_capture (abs b) (mk_move d a pr) = false ->
  pseudo_spec (abs b) (mk_move d a pr) = true ->
  legal_spec (abs b) (mk_move d a pr) = true.
Proof.
  intros Hwd Hkd Hpr Hnep Hps.
  assert (Hda : d <> a).
  { intros E. subst d. destruct (who_abs_inv b HR a me kd Ha Hwd) as (_ & _ & Hc & _).
    rewrite (disjoint_colors a Ha Haopp) in Hc. discriminate. }
  assert (Hak : a <> k0).
  { intros E. subst a. pose proof (Hking k0 Hk0) as H. rewrite N.eqb_refl in H.
    rewrite (holds_abs b HR k0 me King Hk0) in H by (unfold King; lia). apply andb_prop in H. destruct H as [_ H].
    rewrite (disjoint_colors k0 Hk0 Haopp) in H. discriminate. }
  apply (move_legal b d a kd pr k0 Hd Ha Hk0 Hking Hwd Hkd Hpr Hda Hak Hnep Hps).
  intros u ku Hu Hua Hwu Hmem. fold me in Hwu. fold them in Hwu, Hmem.
  destruct (who_abs_inv b HR u them ku Hu Hwu) as (Hku & Hpu & Hcu & _).
  set (occ' := occ_of _) in Hmem.
  assert (Hocc' : forall i, N.testbit occ' i = N.testbit (band (occupancy b) (bnot (bit d))) i).
  { intros i. unfold occ'. rewrite (move_occ b HR d a kd pr k0 Hd Ha Hk0 Hwd Hkd Hpr Hda Hak Hnep i).
    unfold band. rewrite N.land_spec, bnot_testbit, bit_testbit.
    destruct (N.ltb_spec i 64) as [L|L]; [|rewrite andb_false_r; reflexivity]. cbn [andb].
    destruct (N.eqb_spec a i) as [<-|E].
    - destruct (N.eqb_spec d a); [contradiction|]. cbn [orb negb]. rewrite (occupancy_of_color b them a Haopp). reflexivity.
    - cbn [orb]. rewrite andb_comm. reflexivity. }
  assert (Huopp : N.testbit (band (colors b them) (bnot (bit a))) u = true).
  { unfold band. rewrite N.land_spec, Hcu, bnot_testbit, bit_testbit.
    destruct (N.eqb_spec a u); [congruence|]. destruct (N.ltb_spec u 64); [reflexivity|lia]. }
  destruct (slider_hits_false b k0 _ _ u Hpin Huopp) as [Hdiag Hline].
  unfold mem in Hmem.
  assert (Hleap : N.testbit (attackers b (bit k0) (occupancy b) them) u = true -> False).
  { intros H. apply Hsingle in H. congruence. }
  assert (ku = 1 \/ ku = 2 \/ ku = 3 \/ ku = 4 \/ ku = 5 \/ ku = 6) as [->|[->|[->|[->|[->| ->]]]]] by lia.
  - apply Hleap. apply (attackers_complete b them 1 u k0 _ HR Hu Hk0 Hwu). exact Hmem.
  - apply Hleap. apply (attackers_complete b them 2 u k0 _ HR Hu Hk0 Hwu). exact Hmem.
  - change (attacks_from them 3 u occ') with (bishop_attacks u occ') in Hmem.
    apply bishop_sym in Hmem; try assumption.
    rewrite (bishop_ext k0 u occ' _ Hk0 Hu (fun i _ _ => Hocc' i)) in Hmem.
    apply (Hdiag Hmem). change Bishop with 3. rewrite Hpu. reflexivity.
  - change (attacks_from them 4 u occ') with (rook_attacks u occ') in Hmem.
    apply rook_sym in Hmem; try assumption.
    rewrite (rook_ext k0 u occ' _ Hk0 Hu (fun i _ _ => Hocc' i)) in Hmem.
    apply (Hline Hmem). change Rook with 4. rewrite Hpu. reflexivity.
  - assert (Hq : N.testbit (N.lor (rook_attacks u occ') (bishop_attacks u occ')) k0 = true) by exact Hmem.
    clear Hmem. rename Hq into Hmem. rewrite N.lor_spec in Hmem. apply orb_true_iff in Hmem. destruct Hmem as [Hmem|Hmem].
    + apply rook_sym in Hmem; try assumption.
      rewrite (rook_ext k0 u occ' _ Hk0 Hu (fun i _ _ => Hocc' i)) in Hmem.
      apply (Hline Hmem). change Queen with 5. rewrite Hpu. apply orb_true_r.
    + apply bishop_sym in Hmem; try assumption.
      rewrite (bishop_ext k0 u occ' _ Hk0 Hu (fun i _ _ => Hocc' i)) in Hmem.
      apply (Hdiag Hmem). change Queen with 5. rewrite Hpu. apply orb_true_r.
  - apply Hleap. apply (attackers_complete b them 6 u k0 _ HR Hu Hk0 Hwu). exact Hmem.
Qed.

End Capture.

(* ------------------------------------------------------------------------------------------ *)
(* assembling the exit *)

Lemma not_ep_piece b d a kd pr : d < 64 -> a < 64 -> In pr [0; Knight; Bishop; Rook; Queen] ->
  who (abs b) d = Some (stm b, kd) -> kd <> Pawn -> is_ep_capture (abs b) (mk_move d a pr) = false.
Proof.
  intros Hd Ha Hpr Hw Hk. destruct (mk_move_fields_pr d a pr Hd Ha Hpr) as (Ef & _ & _).
  unfold is_ep_capture. rewrite Ef. unfold holds. rewrite Hw.
  destruct (N.eqb_spec Pawn kd); [congruence|]. rewrite andb_false_r. reflexivity.
Qed.

Lemma not_ep_occupied b d a pr : Rep b -> valid (abs b) = true -> d < 64 -> a < 64 ->
  In pr [0; Knight; Bishop; Rook; Queen] -> N.testbit (occupancy b) a = true ->
  is_ep_capture (abs b) (mk_move d a pr) = false.
Proof.
  intros HR HV Hd Ha Hpr Hocc. destruct (mk_move_fields_pr d a pr Hd Ha Hpr) as (_ & Et & _).
  unfold is_ep_capture. rewrite Et. destruct (epsq (abs b)) as [e|] eqn:He; [|apply andb_false_r].
  pose proof (ep_ok_empty _ e (valid_ep_ok _ HV) He) as Hemp.
  destruct (N.eqb_spec e a) as [->|]; [|apply andb_false_r].
  rewrite (empty_abs b HR a Ha), Hocc in Hemp. discriminate.
Qed.

Theorem capture_exit_sound b : Rep b -> valid (abs b) = true ->
  let me := stm b in
  let king := band (pieces b King) (colors b me) in
  let occ := bor (colors b White) (colors b Black) in
  let atk := attackers b king occ (flip me) in
  (1 <? popcount atk) = false ->
  mate_capture_loop b (lsb king) occ atk (colors b (flip me))
                    (bits_of (band (attackers b atk occ me) (bnot king))) = true ->
  legal_moves (abs b) <> [].
Proof.
  intros HR HV me king occ atk Hpop Hloop.
  destruct (king_is_bit b HR HV me) as [k0 [Hk0 [Hking [Hholds Hwho]]]].
  fold king in Hking. subst atk. rewrite Hking in *. rewrite (lsb_bit k0 Hk0) in Hloop.
  set (atk := attackers b (bit k0) occ (flip me)) in *.
  rewrite capture_loop_spec in Hloop. apply existsb_exists in Hloop. destruct Hloop as [d [Hdin Hpin]].
  apply negb_true_iff in Hpin.
  apply bits_of_spec in Hdin. unfold band in Hdin at 1. rewrite N.land_spec, bnot_testbit, bit_testbit in Hdin.
  apply andb_prop in Hdin. destruct Hdin as [Hdatt Hd]. apply andb_prop in Hd. destruct Hd as [Hd Hdk].
  apply N.ltb_lt in Hd. apply negb_true_iff, N.eqb_neq in Hdk.
  assert (Hatk0 : atk <> 0).
  { intros E. rewrite E, attackers_zero, N.bits_0 in Hdatt. discriminate. }
  pose proof (popcount_le1_bit atk Hatk0 Hpop) as Hbit. set (a := lsb atk) in *.
  assert (Haatk : N.testbit atk a = true) by (apply lsb_testbit; exact Hatk0).
  assert (Haopp : N.testbit (colors b (flip me)) a = true).
  { unfold atk in Haatk. rewrite attackers_testbit in Haatk by exact Hk0. apply andb_prop in Haatk. tauto. }
  assert (Ha : a < 64).
  { destruct (N.lt_ge_cases a 64) as [L|L]; [exact L|]. rewrite (colors_high b HR _ a L) in Haopp. discriminate. }
  assert (Hsingle : forall u, N.testbit (attackers b (bit k0) (occupancy b) (flip me)) u = true -> u = a).
  { intros u Hu. change (attackers b (bit k0) (occupancy b) (flip me)) with atk in Hu.
    rewrite Hbit, bit_testbit in Hu. apply N.eqb_eq in Hu. congruence. }
  rewrite Hbit in Hdatt, Hpin. change occ with (occupancy b) in Hdatt, Hpin.
  rewrite attackers_testbit in Hdatt by exact Ha. apply andb_prop in Hdatt. destruct Hdatt as [Hdown Hcases].
  assert (Hown_a : N.testbit (colors b me) a = false) by (apply (colors_disjoint b HR me a Ha Haopp)).
  assert (Hocc_a : N.testbit (occupancy b) a = true) by (apply (occupancy_of_color b (flip me) a Haopp)).
  (* one lemma for all piece kinds *)
  assert (Hfin : forall kd pr, who (abs b) d = Some (me, kd) -> kd <> King -> In pr [0; Knight; Bishop; Rook; Queen] ->
                 pseudo_spec (abs b) (mk_move d a pr) = true -> legal_moves (abs b) <> []).
  { intros kd pr Hw Hkd Hpr Hps. apply (legal_moves_nonempty _ d a pr Hd Ha Hpr).
    apply (capture_safe b HR k0 a d Hk0 Hholds Ha Hd Haopp Hsingle Hpin kd pr Hw Hkd Hpr); [|exact Hps].
    apply not_ep_occupied; assumption. }
  assert (Hpiece : forall kd, 1 <= kd <= 6 -> kd <> Pawn -> kd <> King -> N.testbit (pieces b kd) d = true ->
                   mem (attacks_from me kd d (occupancy b)) a = true -> legal_moves (abs b) <> []).
  { intros kd Hr Hnp Hnk Hp Hm. assert (Hw : who (abs b) d = Some (me, kd)) by (apply (who_abs_intro b HR); assumption).
    apply (Hfin kd 0 Hw Hnk); [left; reflexivity|]. apply (pseudo_piece b HR d a kd Hd Ha Hw Hnp Hnk Hown_a Hm). }
  repeat (apply orb_true_iff in Hcases; destruct Hcases as [Hcases|Hcases]);
    apply andb_prop in Hcases; destruct Hcases as [Hatt Hpc].
  - (* the own king: excluded *)
    exfalso. apply Hdk. assert (N.testbit (bit k0) d = true) as Hb.
    { rewrite <- Hking. unfold king, band. rewrite N.land_spec, Hpc, Hdown. reflexivity. }
    rewrite bit_testbit in Hb. apply N.eqb_eq in Hb. congruence.
  - (* knight *)
    apply (Hpiece Knight); try (unfold Knight, Pawn, King; lia); [exact Hpc|].
    unfold mem. change (attacks_from me Knight d (occupancy b)) with (knight_attacks d).
    rewrite knight_sym by assumption. exact Hatt.
  - (* bishop or queen on a diagonal *)
    apply bishop_sym in Hatt; try assumption. apply orb_true_iff in Hpc. destruct Hpc as [Hpc|Hpc].
    + apply (Hpiece Bishop); try (unfold Bishop, Pawn, King; lia); [exact Hpc|exact Hatt].
    + apply (Hpiece Queen); try (unfold Queen, Pawn, King; lia); [exact Hpc|].
      unfold mem. change (attacks_from me Queen d (occupancy b)) with (N.lor (rook_attacks d (occupancy b)) (bishop_attacks d (occupancy b))).
      rewrite N.lor_spec. unfold bishop_moves in Hatt. rewrite Hatt. apply orb_true_r.
  - (* rook or queen on a line *)
    apply rook_sym in Hatt; try assumption. apply orb_true_iff in Hpc. destruct Hpc as [Hpc|Hpc].
    + apply (Hpiece Rook); try (unfold Rook, Pawn, King; lia); [exact Hpc|exact Hatt].
    + apply (Hpiece Queen); try (unfold Queen, Pawn, King; lia); [exact Hpc|].
      unfold mem. change (attacks_from me Queen d (occupancy b)) with (N.lor (rook_attacks d (occupancy b)) (bishop_attacks d (occupancy b))).
      rewrite N.lor_spec. unfold rook_moves in Hatt. rewrite Hatt. reflexivity.
  - (* pawn, possibly promoting *)
    rewrite (pawn_sym me a d Ha Hd) in Hatt.
    assert (Hw : who (abs b) d = Some (me, Pawn)) by (apply (who_abs_intro b HR); try assumption; unfold Pawn; lia).
    apply (Hfin Pawn (promo_for b a) Hw); [unfold Pawn, King; lia|apply promo_for_in|].
    apply (pseudo_pawn_capture b HR d a Hd Ha Hw Haopp Hatt).
Qed.
