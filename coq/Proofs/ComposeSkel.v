(* Composition, part 7: the control skeleton of search.go (C06 layer A) run on the BOARD MODEL.

   Proofs/SkelTheorems.skel_board_untouched is stated for an arbitrary machine (B, M, T, make, undo)
   whose undo is inverse to make for ALL positions and moves.  The board model satisfies this only
   under Rep b and applicable b m (C03).  The skeleton abstracts which moves are made (the move
   variables are havoc'ed: any values), so on the bare board model the hypothesis cannot hold.

   The instance below is the board model with the precondition of C03 made part of the operation:
       gmake z m b  =  MakeMove on (b, m) with its token          when rep_ok b and applicable b m
                       b unchanged, token None                    otherwise
       gundo z m t b = UndoMove with the token / identity for None
   For this machine undo-after-make is the identity unconditionally (by C03), so the skeleton
   theorems apply to every execution.  The guard is transparent - gmake IS MakeMove - on every
   representable valid position for every move that is generated or accepted by IsPseudoLegal
   (ComposeValid), and those positions are closed under legal moves (ComposeReach).  What is NOT
   proved here is that an execution of the real search only makes such moves: that is a fact about
   the move variables of search.go (every m passed to MakeMove comes out of the picker or is the
   IsPseudoLegal-checked hash move), which the skeleton abstracts away; the closed search model of
   Model/IterDeepen.v (layer B) is where it is visible. *)
From Coq Require Import String List NArith ZArith Bool.
From Chess3 Require Import Proofs.LayoutNow.
From Chess3 Require Import Model.Skel Model.SkelCheck Gen.SearchSkel Proofs.SkelInstances Proofs.SkelTheorems.
From Chess3 Require Import Base.Bits Model.Types Model.BoardDef Model.Board Model.Movegen Spec.Chess Spec.Rep
  Spec.Applicable.
From Chess3 Require Import Proofs.BoardInv Proofs.UndoMove Proofs.Statements Proofs.ComposeValid.
Import ListNotations.

Section Engine.
Variable z : zobrist.

Definition gmake (m : N) (b : BoardDef.board) : BoardDef.board * option N :=
  if rep_ok b && applicable b m then let '(b', t) := make z b m in (b', Some t) else (b, None).
Definition gundo (m : N) (t : option N) (b : BoardDef.board) : BoardDef.board :=
  match t with Some t => undo z b m t | None => b end.
Definition gmake_null (b : BoardDef.board) : BoardDef.board * option N :=
  if rep_ok b then let '(b', t) := make_null z b in (b', Some t) else (b, None).
Definition gundo_null (t : option N) (b : BoardDef.board) : BoardDef.board :=
  match t with Some t => undo_null b t | None => b end.

Lemma gundo_make_id : forall m b b' t, gmake m b = (b', t) -> gundo m t b' = b.
Proof.
  intros m b b' t. unfold gmake. destruct (rep_ok b && applicable b m) eqn:G.
  - apply andb_true_iff in G. destruct G as [HR HA].
    pose proof (C03_move_now_l z b m HR HA) as H. destruct (make z b m) as [b1 t1].
    intros E. inversion E. subst b' t. exact H.
  - intros E. inversion E. reflexivity.
Qed.

Lemma gundo_null_id : forall b b' t, gmake_null b = (b', t) -> gundo_null t b' = b.
Proof.
  intros b b' t. unfold gmake_null. destruct (rep_ok b) eqn:G.
  - pose proof (C03_null_now_l z b G) as H. destruct (make_null z b) as [b1 t1].
    intros E. inversion E. subst b' t. exact H.
  - intros E. inversion E. reflexivity.
Qed.

(* the guard is transparent where the search operates *)
Lemma gmake_is_make b m : Rep b -> valid (abs b) = true ->
  In m (gen_all b) \/ is_pseudo_legal b m = true ->
  gmake m b = (fst (make z b m), Some (snd (make z b m))).
Proof.
  intros HR HV Hm. unfold gmake.
  assert (HA : applicable b m = true).
  { destruct Hm as [Hg|Hi]; [apply gen_applicable_valid|apply pseudo_legal_applicable_valid]; assumption. }
  unfold Rep in HR. rewrite HR, HA. cbn [andb]. destruct (make z b m); reflexivity.
Qed.

Lemma gmake_null_is_make_null b : Rep b ->
  gmake_null b = (fst (make_null z b), Some (snd (make_null z b))).
Proof. intros HR. unfold gmake_null. unfold Rep in HR. rewrite HR. destruct (make_null z b); reflexivity. Qed.

Notation eexec := (exec BoardDef.board N (option N) gmake gundo gmake_null gundo_null ftable).

Theorem engine_board_untouched f p c c' :
  SkelCheck.mem f resetters = false -> eexec (Call f p) c ONormal c' ->
  Skel.board BoardDef.board N (fst c') = Skel.board BoardDef.board N (fst c)
  /\ ms_alloc BoardDef.board N (fst c') = ms_alloc BoardDef.board N (fst c) /\ ms_frames BoardDef.board N (fst c') = ms_frames BoardDef.board N (fst c)
  /\ hdepth BoardDef.board N (fst c') = hdepth BoardDef.board N (fst c).
Proof.
  apply (skel_board_untouched BoardDef.board N (option N) gmake gundo gmake_null gundo_null gundo_make_id gundo_null_id).
Qed.

Theorem engine_go_board_untouched f p c c' :
  SkelCheck.mem f resetters = true -> eexec (Call f p) c ONormal c' ->
  Skel.board BoardDef.board N (fst c') = Skel.board BoardDef.board N (fst c)
  /\ ms_alloc BoardDef.board N (fst c') = 0%nat /\ ms_frames BoardDef.board N (fst c') = [] /\ hdepth BoardDef.board N (fst c') = 0%nat.
Proof.
  apply (skel_go_board_untouched BoardDef.board N (option N) gmake gundo gmake_null gundo_null gundo_make_id gundo_null_id).
Qed.

End Engine.
