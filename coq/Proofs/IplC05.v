(* C05 closed: the engine half (Proofs/IplSpec.v) composed with the generator half
   (Proofs/GenSpec.v, property C01). *)
From Coq Require Import NArith ZArith List Bool Lia.
From Chess3 Require Import Base.Bits Model.Types Model.BoardDef Model.Board Model.Movegen Model.C05Streams
  Spec.Chess Spec.Rep Proofs.GenBase Proofs.GenNoDup Proofs.GenSpec Proofs.IplSpec.
Import ListNotations.
Open Scope N_scope.

Theorem C05_closed : C05_statement.
Proof. exact (C05_from_gen gen_iff_spec). Qed.

(* the transposition-table gate: a move generated for ANY other board (hence a 15-bit word) passes
   IsPseudoLegal on this board only if it is generated here too *)
Theorem hash_move_from_other_position b b' m : Rep b -> valid (abs b) = true ->
  In m (gen_all b') -> is_pseudo_legal b m = true -> In m (gen_all b).
Proof.
  intros HR HV Hgen H. apply (C05_closed b HR HV m); [|exact H]. apply (gen_all_lt b'). exact Hgen.
Qed.

(* the GUI gate *)
Theorem uci_move_is_generated b s m : Rep b -> valid (abs b) = true ->
  parse_uci_move b s = Some m -> In m (gen_all b).
Proof. exact (uci_move_gate gen_iff_spec b s m). Qed.

(* and conversely every generated move passes the gate (the picker can yield the hash move first
   without losing or duplicating anything: that is C16's use of this theorem) *)
Theorem generated_is_accepted b m : Rep b -> valid (abs b) = true -> In m (gen_all b) -> is_pseudo_legal b m = true.
Proof.
  intros HR HV H. apply (C05_closed b HR HV m); [|exact H]. apply (gen_all_lt b). exact H.
Qed.
