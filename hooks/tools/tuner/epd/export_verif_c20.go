//go:build verif

package epd

// Verification hook for C20 (build tag verif). Add-only.

// VerifSetBacking replaces the refill buffer of the window c by one of n bytes (Open allocates
// backingBytes), so that refills can be observed on small files. Everything else is untouched.
func (c *Chunk) VerifSetBacking(n int) {
	c.mapBytes = make([]byte, n)
	c.mapStart, c.mapEnd = 0, 0
}
