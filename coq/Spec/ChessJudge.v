(* Spec-level oracles (judges) for the board-level streams: they look only at what the implementation
   produced and at Spec/Chess.v, never at the engine model. *)
From Coq Require Import NArith ZArith List Bool.
From Chess3 Require Import Base.Bits Model.Types Spec.Geometry Model.BoardDef Spec.Chess.
Import ListNotations.
Open Scope Z_scope.

Fixpoint take_counted (l : list Z) : list Z * list Z :=
  match l with
  | [] => ([], [])
  | n :: r => (firstn (Z.to_nat n) r, skipn (Z.to_nat n) r)
  end.

Definition subset (a b : list N) : bool := forallb (fun x => existsb (N.eqb x) b) a.
Fixpoint nodup_b (l : list N) : bool :=
  match l with [] => true | x :: r => negb (existsb (N.eqb x) r) && nodup_b r end.

(* judge for stream "gen": input = board-in ++ [#noisy noisy.. #quiet quiet.. #playable playable..]
   [1] when the position is not valid (outside the property's domain) or the playable moves are
   exactly the legal moves, without repetition; [0; clause] otherwise
   (clause 1: a playable move is not legal, 2: a legal move is not playable, 3: duplicate) *)
Definition judge_c01 (l : list Z) : list Z :=
  match decode_board l with
  | Some (b, rest) =>
      let p := abs b in
      if negb (valid p) then [1] else
      let '(_, r1) := take_counted rest in
      let '(_, r2) := take_counted r1 in
      let '(pl, _) := take_counted r2 in
      let pl := map Z.to_N pl in
      let lg := legal_moves p in
      if negb (subset pl lg) then [0; 1]
      else if negb (subset lg pl) then [0; 2]
      else if negb (nodup_b pl) then [0; 3]
      else [1]
  | None => [0; 9]
  end.

(* stream "valid": board-in -> [valid; normal_ep]  (the harness-side filter posgen.Valid must agree) *)
Definition run_valid (l : list Z) : list Z :=
  match decode_board l with
  | Some (b, _) => let p := abs b in [if valid p then 1 else 0; if normal_ep p then 1 else 0]
  | None => []
  end.
