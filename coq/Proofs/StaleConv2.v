(* C09, converse direction of IsStalemate, part 3: no castling when the king-step loop finds no
   square (the square next to the king is attacked - also by the rules, because the king is not in check
   and therefore shields nothing). *)
From Coq Require Import NArith ZArith List Bool Lia.
From Chess3 Require Import Base.Bits Model.Types Spec.Geometry Model.Att Model.BoardDef Model.Board
     Model.Movegen Model.Mate Spec.Chess Spec.Rep Proofs.MateGeom Proofs.MateAbs Proofs.MateKing
     Proofs.MateMove Proofs.MateCapture Proofs.MateBlockGeom Proofs.MateBlock Proofs.MateStale
     Proofs.MatePinGeom Proofs.MatePin Proofs.MateConv Proofs.MateConvMove Proofs.MateConv2 Proofs.MateConv3
     Proofs.StaleConvGeom Proofs.StaleConv.
Import ListNotations.
Open Scope N_scope.

Lemma bandn_band_bnot x k : x < two64 -> bandn x (bit k) = band x (bnot (bit k)).
Proof.
  intros Hx. apply N.bits_inj. intro i. unfold bandn, band. rewrite N.ldiff_spec, N.land_spec, bnot_testbit.
  destruct (N.ltb_spec i 64) as [L|L]; [reflexivity|]. rewrite (lt_two64_testbit x Hx i L). reflexivity.
Qed.

(* a slider that sees s1 through the (lifted) king sees s1 directly or sees the king *)
Lemma xray_through dirs s1 k0 occ u : good_dirs dirs -> s1 < 64 -> k0 < 64 -> u < 64 ->
  (forall x, 64 <= x -> N.testbit occ x = false) ->
  hit dirs s1 (band occ (bnot (bit k0))) u = true ->
  hit dirs s1 occ u = true \/ hit dirs k0 occ u = true.
Proof.
  intros G Hs Hk Hu Hhigh H. destruct (hit_pfx dirs s1 _ u Hs Hu G H) as [pre [Hp [Hc _]]].
  assert (Hx : forall x, In x pre -> x <> k0 -> N.testbit occ x = false).
  { intros x Hx Hne. pose proof (all_clear_in _ pre x Hc Hx) as F. unfold band in F.
    rewrite N.land_spec, bnot_testbit, bit_testbit in F.
    destruct (N.testbit occ x) eqn:E; [|reflexivity]. cbn [andb] in F.
    destruct (N.eqb_spec k0 x); [congruence|]. rewrite andb_true_r in F.
    destruct (N.ltb_spec x 64) as [L|L]; [discriminate|]. rewrite (Hhigh x L) in E. discriminate. }
  destruct (in_dec N.eq_dec k0 pre) as [Hin|Hnin].
  - right. pose proof (gd_suffix _ G s1 u Hs Hu) as S. unfold suffix_check in S. rewrite Hp in S.
    rewrite forallb_forall in S. specialize (S k0 Hin). destruct (pfx dirs k0 u) as [post|] eqn:Epost; [|discriminate].
    apply (pfx_hit dirs k0 occ u post Epost). unfold all_clear. apply forallb_forall. intros x Hx1. apply negb_true_iff.
    rewrite forallb_forall in S. specialize (S x Hx1). apply andb_prop in S. destruct S as [S1 S2].
    apply memb_In in S1. apply negb_true_iff, N.eqb_neq in S2. apply Hx; assumption.
  - left. apply (pfx_hit dirs s1 occ u pre Hp). unfold all_clear. apply forallb_forall. intros x Hx1. apply negb_true_iff.
    apply Hx; [exact Hx1|]. intros ->. contradiction.
Qed.

(* the squares next to the king's home square *)
Definition castle_sq (c : color) (long : bool) : N := if long then king_home c - 1 else king_home c + 1.
Lemma castle_sq_facts c long :
  castle_sq c long < 64 /\ In (castle_sq c long) (between (king_home c) (rook_home c long)) /\
  N.testbit (king_attacks (king_home c)) (castle_sq c long) = true /\
  In (castle_sq c long) (if long then [king_home c; king_home c - 1; king_home c - 2] else [king_home c; king_home c + 1; king_home c + 2]).
Proof. destruct c, long; vm_compute; repeat split; try reflexivity; tauto. Qed.

Section Castle.
Variable b : board.
Hypothesis HR : Rep b.
Hypothesis HV : valid (abs b) = true.
Hypothesis Hchk : in_check b (stm b) = false.
Let me := stm b.
Let them := flip me.
Let own := colors b me.
Let occ := occupancy b.
Variable k0 : N.
Hypothesis Hk0 : k0 < 64.
Hypothesis Hkbit : band (pieces b King) own = bit k0.
Hypothesis Hholds : forall s, s < 64 -> holds (abs b) s me King = (s =? k0).
Hypothesis Hno : king_can_step b k0 (bit k0) occ own = false.

Lemma occ_lt : occ < two64.
Proof.
  apply testbit_lt_two64. intros i Hi. unfold occ. apply (occ_high b HR i Hi).
Qed.

Lemma attacked_with_king s1 : s1 < 64 -> s1 <> k0 ->
  is_attacked b them (bandn occ (bit k0)) (bit s1) = true -> is_attacked b them occ (bit s1) = true.
Proof.
  intros Hs Hsk H. rewrite (bandn_band_bnot occ k0 occ_lt) in H.
  rewrite is_attacked_single in * by exact Hs. cbv zeta in *.
  apply orb_true_iff in H. destruct H as [H|H]; [rewrite H; reflexivity|].
  apply orb_true_iff. right.
  assert (Hxr : forall dirs u, good_dirs dirs -> N.testbit (colors b them) u = true ->
            hit dirs s1 (band occ (bnot (bit k0))) u = true ->
            (forall occ2, hit dirs u occ2 k0 = true ->
               exists ku, who (abs b) u = Some (them, ku) /\ mem (attacks_from them ku u occ2) k0 = true) ->
            hit dirs s1 occ u = true).
  { intros dirs u G Hc Hh Hatt.
    assert (Hu : u < 64) by (destruct (N.lt_ge_cases u 64) as [L|L]; [exact L|rewrite (colors_high b HR _ u L) in Hc; discriminate]).
    destruct (xray_through dirs s1 k0 occ u G Hs Hk0 Hu (occ_high b HR) Hh) as [X|X]; [exact X|]. exfalso.
    apply (hit_sym_gen dirs (gd_sym _ G) k0 u occ Hk0 Hu) in X. destruct (Hatt _ X) as [ku [Hwu Hm]].
    apply (not_attacked b HR Hchk k0 Hk0 Hkbit u ku occ Hu Hwu Hm). intros; reflexivity. }
  repeat (apply orb_true_iff in H; destruct H as [H|H]).
  - rewrite H. reflexivity.
  - rewrite H. rewrite !orb_true_r. reflexivity.
  - apply band3_some in H. destruct H as [u [H1 [H2 H3]]].
    assert (Hd : N.testbit (diag_sliders b) u = true) by (unfold diag_sliders, bor in *; rewrite N.lor_spec in *; rewrite orb_comm; exact H2).
    assert (Hu : u < 64) by (destruct (N.lt_ge_cases u 64) as [L|L]; [exact L|rewrite (colors_high b HR _ u L) in H3; discriminate]).
    unfold bishop_moves in H1. rewrite bishop_testbit in H1.
    pose proof (Hxr bishop_dirs u good_bishop H3 H1 (fun occ2 Hh => diag_attacker b HR k0 Hk0 Hkbit u occ2 Hu H3 Hd Hh)) as X.
    rewrite <- bishop_testbit in X. unfold bishop_moves.
    rewrite (band3_nonzero _ _ _ u X H2 H3). rewrite !orb_true_r. reflexivity.
  - apply band3_some in H. destruct H as [u [H1 [H2 H3]]].
    assert (Hu : u < 64) by (destruct (N.lt_ge_cases u 64) as [L|L]; [exact L|rewrite (colors_high b HR _ u L) in H3; discriminate]).
    unfold rook_moves in H1. rewrite rook_testbit in H1.
    pose proof (Hxr rook_dirs u good_rook H3 H1 (fun occ2 Hh => line_attacker b HR k0 Hk0 Hkbit u occ2 Hu H3 H2 Hh)) as X.
    rewrite <- rook_testbit in X. unfold rook_moves.
    rewrite (band3_nonzero _ _ _ u X H2 H3). rewrite !orb_true_r. reflexivity.
Qed.

Lemma no_castling_stale long : castle_ok (abs b) long = false.
Proof.
  destruct (castle_ok (abs b) long) eqn:E; [|reflexivity]. exfalso.
  unfold castle_ok in E. change (turn (abs b)) with me in E.
  apply andb_prop in E. destruct E as [E E5]. apply andb_prop in E. destruct E as [E E4].
  apply andb_prop in E. destruct E as [E _]. apply andb_prop in E. destruct E as [_ E2].
  destruct (castle_sq_facts me long) as (Ls & Hbetw & Hkatt & Hlist).
  assert (Ekh : king_home me = k0).
  { assert (L : king_home me < 64) by (unfold king_home, sqfr, home_rank; destruct me; cbn; lia).
    rewrite (Hholds _ L) in E2. apply N.eqb_eq in E2. exact E2. }
  set (s1 := castle_sq me long) in *.
  rewrite forallb_forall in E4. pose proof (E4 s1 Hbetw) as Hemp.
  rewrite forallb_forall in E5. pose proof (E5 s1 Hlist) as Hsafe. apply negb_true_iff in Hsafe.
  rewrite (empty_abs b HR s1 Ls) in Hemp. apply negb_true_iff in Hemp.
  assert (Hnown : N.testbit own s1 = false).
  { destruct (N.testbit own s1) eqn:X; [|reflexivity]. unfold own in X. rewrite (occupancy_of_color b me s1 X) in Hemp. discriminate. }
  assert (Hsk : s1 <> k0).
  { intros X. rewrite X in Hnown. assert (N.testbit (bit k0) k0 = true) as Hb by (rewrite bit_testbit; apply N.eqb_refl).
    rewrite <- Hkbit in Hb. unfold band in Hb. rewrite N.land_spec in Hb. apply andb_prop in Hb. destruct Hb as [_ Hb]. congruence. }
  rewrite Ekh in Hkatt.
  assert (Hin : In s1 (bits_of (band (king_moves k0) (bnot own)))).
  { apply bits_of_spec. unfold band. rewrite N.land_spec, bnot_testbit. unfold king_moves. rewrite Hkatt, Hnown.
    rewrite (proj2 (N.ltb_lt s1 64) Ls). reflexivity. }
  unfold king_can_step in Hno. pose proof (existsb_false_in _ _ s1 Hno Hin) as F. apply negb_false_iff in F.
  apply (attacked_with_king s1 Ls Hsk) in F.
  destruct (is_attacked_sound b them s1 occ HR Ls F) as (u & ku & Hu & Hus & Hw & Hatt).
  assert (Hab : attacked_by (abs b) them s1 = true); [|exact (Bool.diff_true_false (eq_trans (eq_sym Hab) Hsafe))].
  unfold attacked_by. apply existsb_exists. exists u. split; [apply squares64_spec; exact Hu|].
  rewrite Hw, color_eqb_refl. cbn [andb]. apply Hatt. intros x _ _. rewrite (occ_of_abs b HR). reflexivity.
Qed.

End Castle.
