(* C09, converse direction of IsCheckmate for positions without an en-passant target:
   in check and IsCheckmate answers true  ->  no move is legal.  Every candidate move is refuted:
   king moves by the king-step loop (Proofs/MateConv.v), any other move because a checker survives it,
   or - when it captures or blocks the single checker - because the loops found the mover pinned. *)
From Coq Require Import NArith ZArith List Bool Lia.
From Chess3 Require Import Base.Bits Model.Types Spec.Geometry Model.Att Model.BoardDef Model.Board
     Model.Movegen Model.Mate Spec.Chess Spec.Rep Proofs.MateGeom Proofs.MateAbs Proofs.MateKing
     Proofs.MateMove Proofs.MateCapture Proofs.MateBlockGeom Proofs.MateBlock Proofs.MateStale
     Proofs.MatePinGeom Proofs.MatePin Proofs.MateConv Proofs.MateConvMove Proofs.MateConv2 Proofs.MateConv3.
Import ListNotations.
Open Scope N_scope.

Lemma pseudo_mover p m : pseudo_spec p m = true ->
  exists k, who p (mv_from m) = Some (turn p, k) /\ owned_by p (mv_to m) (turn p) = false.
Proof.
  unfold pseudo_spec. destruct (who p (mv_from m)) as [[c' k]|]; [|discriminate]. intros H.
  apply andb_prop in H. destruct H as [H _]. apply andb_prop in H. destruct H as [H1 H2].
  apply color_eqb_eq in H1. subst c'. apply negb_true_iff in H2. exists k. tauto.
Qed.

Lemma in_candidates_inv m : In m candidates ->
  exists from to pr, from < 64 /\ to < 64 /\ In pr [0; Knight; Bishop; Rook; Queen] /\ m = mk_move from to pr.
Proof.
  unfold candidates. intros H. apply in_flat_map in H. destruct H as [from [Hf H]].
  apply in_flat_map in H. destruct H as [to [Ht H]]. apply in_map_iff in H. destruct H as [pr [E Hp]].
  exists from, to, pr. apply squares64_spec in Hf, Ht. repeat split; try assumption. symmetry. exact E.
Qed.

Lemma share_dirs d1 d2 : (d1 = bishop_dirs \/ d1 = rook_dirs) -> (d2 = bishop_dirs \/ d2 = rook_dirs) ->
  share_all d1 d2 = true.
Proof. intros [->| ->] [->| ->]; [exact share_bb|exact share_br|exact share_rb|exact share_rr]. Qed.

Section MateConverse.
Variable b : board.
Hypothesis HR : Rep b.
Hypothesis HV : valid (abs b) = true.
Hypothesis Hnoep : ep b = 0.
Hypothesis Hchk : in_check b (stm b) = true.
Hypothesis Hmate : is_checkmate b = true.

Let me := stm b.
Let them := flip me.
Let occ := occupancy b.

Lemma epsq_none : epsq (abs b) = None.
Proof. unfold abs. cbn [epsq]. rewrite Hnoep. reflexivity. Qed.

Lemma no_ep_capture m : is_ep_capture (abs b) m = false.
Proof. unfold is_ep_capture. rewrite epsq_none. apply andb_false_r. Qed.

Theorem mate_converse_noep : legal_moves (abs b) = [].
Proof.
  destruct (king_is_bit b HR HV me) as [k0 [Hk0 [Hkbit [Hholds Hwho]]]].
  (* what IsCheckmate = true says *)
  pose proof Hmate as HM. unfold is_checkmate in HM. cbv zeta in HM. fold me in HM. rewrite Hkbit, (lsb_bit k0 Hk0) in HM.
  change (bor (colors b White) (colors b Black)) with occ in HM.
  destruct (king_can_step b k0 (bit k0) occ (colors b me)) eqn:Hno; [discriminate|].
  set (atk := attackers b (bit k0) occ (flip me)) in *.
  assert (Hatk0 : atk <> 0) by (apply (in_check_attackers b k0 HR Hk0 Hkbit Hchk)).
  unfold legal_moves. apply filter_nil. intros m Hm.
  destruct (in_candidates_inv m Hm) as (d & t & pr & Hd & Ht & Hpr & ->).
  destruct (legal_spec (abs b) (mk_move d t pr)) eqn:Hl; [exfalso|reflexivity].
  destruct (mk_move_fields_pr d t pr Hd Ht Hpr) as (Ef & Et & Ep).
  pose proof Hl as Hl2. unfold legal_spec in Hl2. apply andb_prop in Hl2. destruct Hl2 as [Hps Hsafe].
  apply negb_true_iff in Hsafe. change (turn (abs b)) with me in Hsafe.
  destruct (pseudo_mover _ _ Hps) as [kd [Hwd Hnown]]. rewrite Ef in Hwd. rewrite Et in Hnown.
  change (turn (abs b)) with me in Hwd, Hnown. rewrite (owned_abs b HR t me Ht) in Hnown.
  destruct (who_abs_inv b HR d me kd Hd Hwd) as (Hkdr & Hpcd & Hdown & _).
  destruct (N.eq_dec kd King) as [->|Hkd].
  { (* a king move *)
    assert (d = k0) as ->.
    { pose proof (Hholds d Hd) as H. unfold holds in H. rewrite Hwd, color_eqb_refl, N.eqb_refl in H. cbn in H.
      symmetry in H. apply N.eqb_eq in H. exact H. }
    rewrite (king_move_illegal b HR k0 Hk0 Hkbit Hholds Hwho Hno (no_castling_in_check b HR HV Hchk) t pr Ht Hpr) in Hl. discriminate. }
  (* any other man *)
  assert (Hdt : d <> t) by (intros ->; congruence).
  assert (Hkown : N.testbit (colors b me) k0 = true).
  { assert (N.testbit (bit k0) k0 = true) as Hb by (rewrite bit_testbit; apply N.eqb_refl).
    rewrite <- Hkbit in Hb. unfold band in Hb. rewrite N.land_spec in Hb. apply andb_prop in Hb. tauto. }
  assert (Htk : t <> k0) by (intros ->; congruence).
  assert (Hepf : is_ep_capture (abs b) (mk_move d t pr) = false) by apply no_ep_capture.
  assert (Hcsq : is_ep_capture (abs b) (mk_move d t pr) = true ->
                 sqfr (file_n t) (rank_n d) <> t /\ sqfr (file_n t) (rank_n d) <> d /\ sqfr (file_n t) (rank_n d) <> k0)
    by (intros E; congruence).
  (* every checker is captured or has t on its line *)
  assert (Hchecker : forall a, N.testbit atk a = true ->
            a < 64 /\ N.testbit (colors b them) a = true /\ (a = t \/ N.testbit (blocked_of k0 a) t = true)).
  { intros a Ha. destruct (attackers_sound b (flip me) k0 occ a HR Hk0 Ha) as (La & Hak & ka & Hwa & Hma).
    destruct (who_abs_inv b HR a _ ka La Hwa) as (_ & _ & Hca & _).
    split; [exact La|]. split; [exact Hca|].
    destruct (N.eq_dec a t) as [E|E]; [left; exact E|right].
    destruct (N.testbit (blocked_of k0 a) t) eqn:Hb; [reflexivity|]. exfalso.
    assert (Hac : is_ep_capture (abs b) (mk_move d t pr) = true -> a <> sqfr (file_n t) (rank_n d)) by (intros X; congruence).
    exact (Bool.diff_true_false (eq_trans (eq_sym (nk_check_survives b HR k0 Hk0 Hholds d t kd pr Hd Ht Hwd Hkd Hpr Hdt Htk Hcsq a ka La Hwa E Hac Hma Hb)) Hsafe)). }
  assert (Hoccupied : forall a, N.testbit (colors b them) a = true -> N.testbit occ a = true)
    by (intros a Ha; apply (occupancy_of_color b them a Ha)).
  destruct (1 <? popcount atk) eqn:Hpop.
  - (* double check: one move cannot answer both checkers *)
    destruct (two_bits atk Hpop) as (a1 & a2 & Hne & H1 & H2).
    destruct (Hchecker a1 H1) as (L1 & C1 & T1). destruct (Hchecker a2 H2) as (L2 & C2 & T2).
    pose proof (blocked_clear b k0 a1 Hk0 L1 H1) as Hcl1. pose proof (blocked_clear b k0 a2 Hk0 L2 H2) as Hcl2.
    destruct T1 as [T1|T1]; destruct T2 as [T2|T2].
    + congruence.
    + subst t. pose proof (Hcl2 a1 T2) as F. pose proof (Hoccupied a1 C1) as G. unfold occ in G. congruence.
    + subst t. pose proof (Hcl1 a2 T1) as F. pose proof (Hoccupied a2 C2) as G. unfold occ in G. congruence.
    + destruct (blocked_line_pfx b k0 a1 HR Hk0 L1 H1) as [Z|(dirs1 & pre1 & Hd1 & Hp1 & Hb1 & Hc1)];
        [rewrite Z, N.bits_0 in T1; discriminate|].
      destruct (blocked_line_pfx b k0 a2 HR Hk0 L2 H2) as [Z|(dirs2 & pre2 & Hd2 & Hp2 & Hb2 & Hc2)];
        [rewrite Z, N.bits_0 in T2; discriminate|].
      rewrite Hb1 in T1. rewrite Hb2 in T2. apply set_of_in in T1, T2.
      pose proof (share_lift dirs1 dirs2 (share_dirs dirs1 dirs2 Hd1 Hd2) k0 a1 a2 Hk0 L1 L2) as S.
      unfold share_check in S. rewrite Hp1, Hp2 in S.
      assert (existsb (fun x => memb x pre2) pre1 = true) as Hex
        by (apply existsb_exists; exists t; split; [exact T1|apply memb_In; exact T2]).
      rewrite Hex in S. apply orb_true_iff in S. destruct S as [S|S]; [apply orb_true_iff in S; destruct S as [S|S]|].
      * apply memb_In in S. pose proof (all_clear_in _ pre2 a1 Hc2 S) as F. pose proof (Hoccupied a1 C1) as G. unfold occ in G. congruence.
      * apply memb_In in S. pose proof (all_clear_in _ pre1 a2 Hc1 S) as F. pose proof (Hoccupied a2 C2) as G. unfold occ in G. congruence.
      * apply N.eqb_eq in S. congruence.
  - (* a single checker: capturing it or interposing was found impossible by the loops *)
    pose proof (popcount_le1_bit atk Hatk0 Hpop) as Hbit. set (a := lsb atk) in *.
    assert (Haatk : N.testbit atk a = true) by (apply lsb_testbit; exact Hatk0).
    destruct (Hchecker a Haatk) as (La & Ca & Ta).
    rewrite Hbit in HM.
    destruct (mate_capture_loop b k0 occ (bit a) (colors b (flip me)) _) eqn:Hcap; [discriminate|].
    rewrite Hnoep in HM. cbn [N.eqb negb andb] in HM.
    change (band (in_between k0 a) (bnot (bor (bit k0) (bit a)))) with (blocked_of k0 a) in HM.
    destruct (mate_block_loop b k0 occ (blocked_of k0 a) _) eqn:Hblk; [discriminate|]. clear HM.
    destruct (pseudo_nonking_noep b d t kd pr HR Hd Ht Hpr epsq_none Hwd Hkd Hps) as [_ Hkind].
    destruct Ta as [Ta|Ta].
    + (* the move takes the checker *)
      subst t.
      assert (Hmem : mem (attacks_from me kd d occ) a = true).
      { destruct Hkind as [[_ Hatt]|[-> [(_ & _ & He)|[(_ & _ & _ & He)|(Hatt & _)]]]]; try exact Hatt;
          fold occ in He; rewrite (Hoccupied a Ca) in He; discriminate. }
      pose proof (attackers_complete b me kd d a occ HR Hd La Hwd Hmem) as Hdef.
      assert (Hdk : d <> k0) by (intros ->; rewrite Hwho in Hwd; injection Hwd as Ek; congruence).
      assert (Hin : In d (bits_of (band (attackers b (bit a) occ me) (bnot (bit k0))))).
      { apply bits_of_spec. unfold band. rewrite N.land_spec, Hdef, bnot_testbit, bit_testbit.
        rewrite (proj2 (N.ltb_lt d 64) Hd). destruct (N.eqb_spec k0 d); [congruence|reflexivity]. }
      rewrite capture_loop_spec in Hcap. pose proof (existsb_false_in _ _ d Hcap Hin) as Hpin. apply negb_false_iff in Hpin.
      refine (Bool.diff_true_false (eq_trans (eq_sym (nk_pinned b HR k0 Hk0 Hholds d a kd pr Hd La Hwd Hkd Hpr Hdt Htk Hcsq _ _ Hpin _ _)) Hsafe)).
      * intros u Hu. unfold band in Hu. rewrite N.land_spec, bnot_testbit, bit_testbit in Hu.
        apply andb_prop in Hu. destruct Hu as [Hu1 Hu2]. apply andb_prop in Hu2. destruct Hu2 as [_ Hu2].
        apply negb_true_iff, N.eqb_neq in Hu2. split; [exact Hu1|]. split; [congruence|]. intros E; congruence.
      * intros x Hx. rewrite (nk_occ_exact b HR k0 Hk0 d a kd pr Hd La Hwd Hkd Hpr Hdt Htk Hcsq x Hepf) in Hx.
        apply andb_prop in Hx. destruct Hx as [Lx Hx]. unfold band. rewrite N.land_spec, bnot_testbit, bit_testbit, Lx.
        apply orb_true_iff in Hx. destruct Hx as [Hx|Hx].
        -- apply N.eqb_eq in Hx. subst x. pose proof (Hoccupied a Ca) as G. unfold occ in *. rewrite G. destruct (N.eqb_spec d a); [congruence|reflexivity].
        -- apply andb_prop in Hx. destruct Hx as [Hx1 Hx2]. unfold occ in *. rewrite Hx1, Hx2. reflexivity.
    + (* the move interposes on an empty square between king and checker *)
      pose proof (blocked_clear b k0 a Hk0 La Haatk t Ta) as Hemp.
      assert (Hblk_lt : forall x, N.testbit (blocked_of k0 a) x = true -> x < 64) by (intros x Hx; destruct (blocked_lt k0 a x Hx); assumption).
      pose proof (block_complete b (blocked_of k0 a) d t kd pr HR Hd Ht Hpr epsq_none Hwd Hkd Hps Ta Hemp Hblk_lt) as Hin.
      apply bits_of_spec in Hin. unfold mate_block_loop in Hblk.
      pose proof (existsb_false_in _ _ d Hblk Hin) as Hpin. cbv zeta in Hpin. apply negb_false_iff in Hpin.
      refine (Bool.diff_true_false (eq_trans (eq_sym (nk_pinned b HR k0 Hk0 Hholds d t kd pr Hd Ht Hwd Hkd Hpr Hdt Htk Hcsq _ _ Hpin _ _)) Hsafe)).
      * intros u Hu. split; [exact Hu|]. split; [|intros E; congruence].
        intros ->. fold occ in Hemp. rewrite (Hoccupied t Hu) in Hemp. discriminate.
      * intros x Hx. rewrite (nk_occ_exact b HR k0 Hk0 d t kd pr Hd Ht Hwd Hkd Hpr Hdt Htk Hcsq x Hepf) in Hx.
        apply andb_prop in Hx. destruct Hx as [Lx Hx]. unfold bor, band. rewrite N.lor_spec, N.land_spec, bnot_testbit, bit_testbit, Lx.
        apply orb_true_iff in Hx. destruct Hx as [Hx|Hx].
        -- apply N.eqb_eq in Hx. subst x. rewrite Ta. apply orb_true_r.
        -- apply andb_prop in Hx. destruct Hx as [Hx1 Hx2]. unfold occ in *. rewrite Hx1, Hx2. reflexivity.
Qed.

End MateConverse.
