(* Spec-level oracle of property C14 over what the IMPLEMENTATION was observed to do in stream c14arm
   (format: Model/TimeArm.v).  Written from the text of the property, not from the model: it does
   not compute a hard limit, it only bounds the observed delay between the start of the mover's
   clock and the abort of the search.

   "For every clock state the GUI can report (remaining time and increment for the side to move, or
    a fixed move time), the hard deadline after which the driver aborts the search is positive,
    never later than the remaining time, and keeps the safety margin whenever more than the margin
    remains; with a fixed move time both the soft target and the hard deadline equal that move
    time.  The deadline depends only on the mover's own clock."

   Input: the 14 input numbers ++ the two observations of 8 numbers.  Output [1] or [0; clause]:
     1  the search was aborted by the driver (no `stop` sent yet) at or before the start of the clock
        (includes a ponder search aborted by the driver before any ponderhit)
     2  the search ran longer than the mover's remaining time
     3  more than the margin remained and the search ran into the margin
     5  fixed move time: the search was not aborted exactly at the move time
     6  fixed move time: the soft target handed to the search is not the move time
     7  the mover has a clock or a move time but the search got no soft target
     8  the two sub-runs, which differ only in the OPPONENT's remaining time and increment, differ in
        soft target, abort delay or in who ended the search
     99 malformed
   Clauses 2, 3 and 5 also catch a deadline that never came: then the GUI's `stop` ended the search,
   later than the clock allows.  Outside the domain (no clock and no move time for the mover, values
   beyond 9*10^12 ms / 2^60 ms, a ponder search that was stopped before the ponderhit) every
   observation passes. *)
From Coq Require Import ZArith List Bool.
Import ListNotations.
From Chess3 Require Import Gen.TimeConsts.
Open Scope Z_scope.

Definition arm_limit_ms : Z := 9000000000000.

(* one sub-run: rem/inc/m are the MOVER's fields of the go line, ponder = the GUI had switched the
   Ponder option on and said `go ponder`, stop = instant of the GUI's stop (ms after the start) *)
Definition judge_arm_sub (rem inc m : Z) (ponder : bool) (stop : Z) (obs : list Z) : option Z :=
  match obs with
  | soft :: pch :: hit :: delay :: early :: _ :: _ :: _ :: nil =>
      let fixed := 0 <? m in
      let in_domain :=
        if fixed then m <=? arm_limit_ms
        else (1 <=? rem) && (rem <=? arm_limit_ms) && (0 <=? inc) && (inc <=? 1152921504606846976) in
      if negb in_domain then None
      else if soft =? -1 then Some 7
      else if fixed && negb (soft =? m) then Some 6
      else if ponder && negb (pch =? 1) then None                   (* not a ponder search: protocol side, C13 *)
      else if ponder && (hit <? 0) then
        (* the mover's clock never started: nothing to bound, but the driver must not have ended the
           search on its own - that is a deadline before the start of the clock *)
        (if early =? 1 then Some 1 else None)
      else
        (* the GUI's stop, counted from the start of the mover's clock *)
        let stop_rel := if ponder then stop - hit else stop in
        if fixed then
          if m <=? stop_rel then (if (delay =? m) && (early =? 1) then None else Some 5) else None
        else if (early =? 1) && (delay <=? 0) then Some 1
        else if rem <? delay then Some 2
        else if (TimeSafetyMargin <? rem) && (rem - TimeSafetyMargin <? delay) then Some 3
        else None
  | _ => Some 99
  end.

Definition judge_c14arm (io : list Z) : list Z :=
  match io with
  | root :: flags :: w :: b :: wi :: bi :: m :: _ :: _ :: _ :: _ :: _ :: _ :: stop :: obs =>
      let white := Z.even root in
      let rem := if white then w else b in
      let inc := if white then wi else bi in
      let ponder := Z.testbit flags 0 && Z.testbit flags 1 in
      let oa := firstn 8 obs in
      let ob := skipn 8 obs in
      match judge_arm_sub rem inc m ponder stop oa with
      | Some c => [0; c]
      | None =>
        match judge_arm_sub rem inc m ponder stop ob with
        | Some c => [0; c]
        | None =>
            if (nth 0 oa 0 =? nth 0 ob 0) && (nth 3 oa 0 =? nth 3 ob 0) && (nth 4 oa 0 =? nth 4 ob 0)
            then [1] else [0; 8]
        end
      end
  | _ => [0; 99]
  end.
