(* C12 finite sweep, shard R2: by vm_compute, for each listed square, over EVERY subset of its
   relevant-occupancy mask (see Proofs/AttacksSweepDefs.v for what is checked). Re-checked whenever
   Gen/AttackTables.v (masks, magics, shifts read from the working tree) changes. *)
From Coq Require Import NArith List Bool.
From Chess3 Require Import Proofs.AttacksSweepDefs.
Import ListNotations.
Open Scope N_scope.
Definition rook_squares_2 : list N := [2; 11; 20; 29; 38; 47; 48; 57].
Lemma rook_sweep_2 : forallb rook_sweep_sq rook_squares_2 = true.
Proof. vm_cast_no_check (@eq_refl bool true). Qed.
