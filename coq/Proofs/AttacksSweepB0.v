(* C12 finite sweep, shard B0: by vm_compute, for each listed square, over EVERY subset of its
   relevant-occupancy mask (see Proofs/AttacksSweepDefs.v for what is checked). Re-checked whenever
   Gen/AttackTables.v (masks, magics, shifts read from the working tree) changes. *)
From Coq Require Import NArith List Bool.
From Chess3 Require Import Proofs.AttacksSweepDefs.
Import ListNotations.
Open Scope N_scope.
Definition bishop_squares_0 : list N := [0; 2; 4; 6; 8; 10; 12; 14; 16; 18; 20; 22; 24; 26; 28; 30; 32; 34; 36; 38; 40; 42; 44; 46; 48; 50; 52; 54; 56; 58; 60; 62].
Lemma bishop_sweep_0 : forallb bishop_sweep_sq bishop_squares_0 = true.
Proof. vm_cast_no_check (@eq_refl bool true). Qed.
