(* Property C19 (b): flatten / fill / paths on one field (a tree).  See Model/Vector.v. *)
From Coq Require Import List Arith Lia Bool FinFun.
From Chess3 Require Import Model.Vector.
Import ListNotations.

Section TreeProofs.
Context {A : Type}.
Notation tree := (tree A).

Lemma list_sum_cons x r : list_sum (x :: r) = x + list_sum r.
Proof. reflexivity. Qed.

Lemma NoDup_app_intro {B} (a b : list B) :
  NoDup a -> NoDup b -> (forall x, In x a -> In x b -> False) -> NoDup (a ++ b).
Proof.
  induction 1 as [| x a Hx _ IH]; intros Hb Hd; [exact Hb|].
  cbn [app]. constructor.
  - intros Hin. apply in_app_or in Hin. destruct Hin as [Hin|Hin]; [exact (Hx Hin)|].
    apply (Hd x); [left; reflexivity | exact Hin].
  - apply IH; [exact Hb|]. intros y Hy. apply Hd. right. exact Hy.
Qed.

(* induction principle for the nested inductive *)
Fixpoint tree_ind' (P : tree -> Prop) (HL : forall a, P (Leaf a))
    (HN : forall l, Forall P l -> P (Node l)) (t : tree) : P t :=
  match t with
  | Leaf a => HL a
  | Node l => HN l ((fix go (l : list tree) : Forall P l :=
                       match l with
                       | [] => Forall_nil P
                       | x :: r => Forall_cons x (tree_ind' P HL HN x) (go r)
                       end) l)
  end.

(* every array has at least one element (Go: no [0]T inside the struct).  SetVector's coarse
   test `dst.Len() > len(floats)` panics spuriously on zero-length element types otherwise. *)
Fixpoint proper (t : tree) : bool :=
  match t with
  | Leaf _ => true
  | Node l => match l with [] => false | _ => true end && forallb proper l
  end.

Lemma length_flatten (t : tree) : length (flatten t) = size t.
Proof.
  induction t as [a | l IH] using tree_ind'; [reflexivity|].
  cbn [flatten size]. induction IH as [| x r Hx _ IHr]; [reflexivity|].
  cbn [flat_map map]; rewrite ?list_sum_cons. rewrite app_length, Hx, IHr. reflexivity.
Qed.

Lemma size_pos (t : tree) : proper t = true -> 1 <= size t.
Proof.
  induction t as [a | l IH] using tree_ind'; [cbn; lia|].
  cbn [proper size]. intros H. apply andb_prop in H. destruct H as [Hne Hall].
  destruct l as [| x r]; [discriminate|].
  cbn [forallb] in Hall. apply andb_prop in Hall. destruct Hall as [Hx _].
  inversion IH as [| ? ? Px _]; subst. cbn [map]; rewrite ?list_sum_cons. specialize (Px Hx). lia.
Qed.

Lemma len_le_sizes l : forallb proper l = true -> length l <= list_sum (map size l).
Proof.
  induction l as [| x r IH]; [cbn; lia|].
  cbn [forallb map length]; rewrite ?list_sum_cons. intros H. apply andb_prop in H. destruct H as [Hx Hr].
  pose proof (size_pos x Hx). specialize (IH Hr). lia.
Qed.

Lemma size_skel (t : tree) : forall t' : tree, skel t = skel t' -> size t = size t'.
Proof.
  induction t as [a | l IHl] using tree_ind'; intros [b | m] Hs; try discriminate; [reflexivity|].
  cbn [skel] in Hs. injection Hs as Hs. cbn [size].
  revert m Hs. induction IHl as [| y ys Hy _ IHys]; intros [| z zs] Hs; try discriminate; [reflexivity|].
  cbn [map] in Hs. injection Hs as Hyz Hrest. cbn [map]. rewrite !list_sum_cons.
  rewrite (Hy z Hyz), (IHys zs Hrest). reflexivity.
Qed.

Lemma proper_skel (t : tree) : forall t' : tree, skel t = skel t' -> proper t = proper t'.
Proof.
  induction t as [a | l IHl] using tree_ind'; intros [b | m] Hs; try discriminate; [reflexivity|].
  cbn [skel] in Hs. injection Hs as Hs. cbn [proper].
  assert (H : forallb proper l = forallb proper m /\
              match l with [] => false | _ => true end = match m with [] => false | _ => true end).
  { revert m Hs. induction IHl as [| y ys Hy _ IHys]; intros [| z zs] Hs; try discriminate; [split; reflexivity|].
    cbn [map] in Hs. injection Hs as Hyz Hrest. cbn [forallb].
    destruct (IHys zs Hrest) as [E _]. rewrite (Hy z Hyz), E. split; reflexivity. }
  destruct H as [-> ->]. reflexivity.
Qed.

(* ---------------------------------------------------------------------------------------- *)
(* fill *)

Lemma fill_node (l : list tree) (v : list A) :
  fill (Node l) v = if (length v <? length l)%nat then None else
                    match fill_list fill l v with Some (l', r) => Some (Node l', r) | None => None end.
Proof. reflexivity. Qed.

Lemma fill_list_cons (f : tree -> list A -> option (tree * list A)) t ts v :
  fill_list f (t :: ts) v =
  match f t v with
  | None => None
  | Some (t', r) => match fill_list f ts r with None => None | Some (ts', r') => Some (t' :: ts', r') end
  end.
Proof. reflexivity. Qed.

Lemma fill_list_flatten (l : list tree) :
  Forall (fun t => forall r, fill t (flatten t ++ r) = Some (t, r)) l ->
  forall r, fill_list fill l (flat_map flatten l ++ r) = Some (l, r).
Proof.
  induction 1 as [| x ts Hx _ IH]; intros r; [reflexivity|].
  rewrite fill_list_cons. cbn [flat_map]. rewrite <- app_assoc, Hx, IH. reflexivity.
Qed.

(* writing back what was read gives the same value *)
Lemma fill_flatten (t : tree) : proper t = true -> forall r, fill t (flatten t ++ r) = Some (t, r).
Proof.
  induction t as [a | l IH] using tree_ind'; intros Hp r; [reflexivity|].
  rewrite fill_node. cbn [proper] in Hp. apply andb_prop in Hp. destruct Hp as [_ Hall].
  cbn [flatten].
  assert (Hlen : (length (flat_map flatten l ++ r) <? length l)%nat = false).
  { apply Nat.ltb_ge. rewrite app_length.
    assert (length (flat_map flatten l) = list_sum (map size l)) as ->.
    { clear. induction l as [| x r' IHl]; [reflexivity|]. cbn [flat_map map]; rewrite ?list_sum_cons.
      rewrite app_length, length_flatten, IHl. reflexivity. }
    pose proof (len_le_sizes l Hall). lia. }
  rewrite Hlen, fill_list_flatten; [reflexivity|].
  rewrite Forall_forall in IH. apply Forall_forall. intros t Ht r'. apply IH; [exact Ht|].
  rewrite forallb_forall in Hall. apply Hall, Ht.
Qed.

Definition fill_ok (t : tree) : Prop :=
  forall v, size t <= length v ->
  exists t' r, fill t v = Some (t', r) /\ v = flatten t' ++ r /\ skel t' = skel t.

Lemma fill_list_spec (l : list tree) : Forall fill_ok l ->
  forall v, list_sum (map size l) <= length v ->
  exists l' r, fill_list fill l v = Some (l', r) /\ v = flat_map flatten l' ++ r /\ map skel l' = map skel l.
Proof.
  induction 1 as [| x ts Hx _ IH]; intros v Hv.
  - exists [], v. repeat split.
  - cbn [map] in Hv; rewrite ?list_sum_cons in Hv.
    destruct (Hx v ltac:(lia)) as (x' & r & Hf & Hvx & Hsk).
    assert (Hr : list_sum (map size ts) <= length r).
    { subst v. rewrite app_length, length_flatten in Hv.
      pose proof (size_skel x' x Hsk) as E.
      lia. }
    destruct (IH r Hr) as (ts' & r' & Hfl & Hvr & Hskl).
    exists (x' :: ts'), r'. rewrite fill_list_cons, Hf, Hfl. repeat split.
    + cbn [flat_map]. rewrite <- app_assoc, <- Hvr. exact Hvx.
    + cbn [map]. rewrite Hsk, Hskl. reflexivity.
Qed.

(* a long enough vector is consumed from the front; the shape is kept *)
Lemma fill_spec (t : tree) : proper t = true -> fill_ok t.
Proof.
  induction t as [a | l IH] using tree_ind'; intros Hp v Hv.
  - destruct v as [| x r]; [cbn in Hv; lia|]. exists (Leaf x), r. repeat split.
  - cbn [proper] in Hp. apply andb_prop in Hp. destruct Hp as [_ Hall].
    cbn [size] in Hv. rewrite fill_node.
    assert (Hlen : (length v <? length l)%nat = false).
    { apply Nat.ltb_ge. pose proof (len_le_sizes l Hall). lia. }
    rewrite Hlen.
    assert (Hok : Forall fill_ok l).
    { rewrite Forall_forall in IH. apply Forall_forall. intros t Ht. apply IH; [exact Ht|].
      rewrite forallb_forall in Hall. apply Hall, Ht. }
    destruct (fill_list_spec l Hok v Hv) as (l' & r & Hf & Hvr & Hsk).
    exists (Node l'), r. rewrite Hf. repeat split; [exact Hvr|]. cbn [skel]. rewrite Hsk. reflexivity.
Qed.

(* a vector that is too short makes the Go code panic *)
Lemma fill_short (t : tree) : forall v, length v < size t -> fill t v = None.
Proof.
  induction t as [a | l IH] using tree_ind'; intros v Hv.
  - destruct v; [reflexivity|]. cbn in Hv. lia.
  - rewrite fill_node. destruct (length v <? length l)%nat; [reflexivity|].
    cbn [size] in Hv.
    assert (H : fill_list fill l v = None).
    { revert v Hv. induction IH as [| x ts Hx _ IHts]; intros v Hv; [cbn in Hv; lia|].
      rewrite fill_list_cons. cbn [map] in Hv; rewrite ?list_sum_cons in Hv.
      destruct (fill x v) as [[x' r]|] eqn:E; [|reflexivity].
      destruct (le_lt_dec (size x) (length v)) as [Hle|Hlt]; [|rewrite (Hx v Hlt) in E; discriminate].
      assert (Hr : length r + size x = length v).
      { clear - E. revert v x' r E.
        induction x as [a | l IHl] using tree_ind'; intros v x' r E.
        - destruct v; [discriminate|]. injection E as _ <-. cbn. lia.
        - rewrite fill_node in E. destruct (length v <? length l)%nat; [discriminate|].
          destruct (fill_list fill l v) as [[l' r']|] eqn:F; [|discriminate]. injection E as _ <-.
          cbn [size]. clear x'. revert v l' r' F.
          induction IHl as [| y ys Hy _ IHys]; intros v l' r' F.
          + injection F as _ <-. cbn. lia.
          + rewrite fill_list_cons in F. destruct (fill y v) as [[y' ry]|] eqn:Ey; [|discriminate].
            destruct (fill_list fill ys ry) as [[ys' rys]|] eqn:Eys; [|discriminate].
            injection F as _ <-. specialize (Hy _ _ _ Ey). specialize (IHys _ _ _ Eys).
            cbn [map]; rewrite ?list_sum_cons. lia. }
      rewrite IHts; [reflexivity|lia]. }
    rewrite H. reflexivity.
Qed.

(* ---------------------------------------------------------------------------------------- *)
(* paths: the i-th path leads to the i-th leaf *)

Lemma paths_list_cons (f : tree -> list (list nat)) k t ts : paths_list f k (t :: ts) = map (cons k) (f t) ++ paths_list f (S k) ts.
Proof. reflexivity. Qed.

Lemma get_paths_list (L : list tree) : forall l pre, L = pre ++ l ->
  Forall (fun t => map (fun p => get p t) (paths t) = map Some (flatten t)) l ->
  map (fun p => get p (Node L)) (paths_list paths (length pre) l) = map Some (flat_map flatten l).
Proof.
  induction l as [| t ts IH]; intros pre HL HF; [reflexivity|].
  inversion HF as [| ? ? Ht Hts]; subst.
  rewrite paths_list_cons, map_app, map_map. cbn [flat_map]. rewrite map_app. f_equal.
  - rewrite <- Ht. apply map_ext. intros p. cbn [get].
    rewrite nth_error_app2 by lia. rewrite Nat.sub_diag. reflexivity.
  - specialize (IH (pre ++ [t])). rewrite app_length in IH. cbn [length] in IH.
    rewrite Nat.add_1_r in IH. apply IH; [rewrite <- app_assoc; reflexivity | exact Hts].
Qed.

Lemma get_paths (t : tree) : map (fun p => get p t) (paths t) = map Some (flatten t).
Proof.
  induction t as [a | l IH] using tree_ind'; [reflexivity|].
  cbn [paths flatten]. exact (get_paths_list l l [] eq_refl IH).
Qed.

Lemma length_paths (t : tree) : length (paths t) = length (flatten t).
Proof. pose proof (f_equal (@length _) (get_paths t)) as H. rewrite !map_length in H. exact H. Qed.

(* paths only depend on the shape *)
Lemma paths_skel (t : tree) : forall t' : tree, skel t = skel t' -> paths t = paths t'.
Proof.
  induction t as [a | l IH] using tree_ind'; intros [b | m] Hs; try discriminate; [reflexivity|].
  cbn [skel] in Hs. injection Hs as Hs. cbn [paths]. generalize 0.
  revert m Hs. induction IH as [| x xs Hx _ IHxs]; intros [| y ys] Hs k; try discriminate; [reflexivity|].
  cbn [map] in Hs. injection Hs as Hxy Hrest. rewrite !paths_list_cons, (Hx y Hxy), (IHxs ys Hrest). reflexivity.
Qed.

Lemma in_paths_list (f : tree -> list (list nat)) k l p : In p (paths_list f k l) ->
  exists j t q, nth_error l j = Some t /\ In q (f t) /\ p = (k + j) :: q.
Proof.
  revert k. induction l as [| t ts IH]; intros k H; [destruct H|].
  rewrite paths_list_cons in H. apply in_app_or in H. destruct H as [H|H].
  - apply in_map_iff in H. destruct H as (q & <- & Hq). exists 0, t, q. rewrite Nat.add_0_r. repeat split; assumption.
  - destruct (IH _ H) as (j & t' & q & Hn & Hq & ->). exists (S j), t', q. repeat split; try assumption.
    f_equal. lia.
Qed.

Lemma NoDup_paths (t : tree) : NoDup (paths t).
Proof.
  induction t as [a | l IH] using tree_ind'; [repeat constructor; intros []|].
  cbn [paths]. generalize 0. induction IH as [| x xs Hx _ IHxs]; intros k; [constructor|].
  rewrite paths_list_cons. apply NoDup_app_intro.
  - apply Injective_map_NoDup; [|exact Hx]. intros a b E. injection E. auto.
  - apply IHxs.
  - intros p Hp Hq. apply in_map_iff in Hp. destruct Hp as (q & <- & _).
    apply in_paths_list in Hq. destruct Hq as (j & t & q' & _ & _ & E). injection E as E _. lia.
Qed.

(* ---------------------------------------------------------------------------------------- *)
(* writing through a pointer *)

Lemma nth_error_upd_nth {B} (f : B -> B) (l : list B) : forall i j,
  nth_error (upd_nth i f l) j = if Nat.eqb j i then option_map f (nth_error l j) else nth_error l j.
Proof.
  induction l as [| x r IH]; intros i j.
  - assert (upd_nth i f (@nil B) = []) as -> by (destruct i; reflexivity).
    destruct j; cbn [nth_error option_map]; destruct (Nat.eqb _ i); reflexivity.
  - destruct i, j; cbn [upd_nth nth_error Nat.eqb option_map]; try reflexivity. apply IH.
Qed.

Lemma length_upd_nth {B} (f : B -> B) (l : list B) : forall i, length (upd_nth i f l) = length l.
Proof. induction l as [| x r IH]; intros [| i]; cbn; try reflexivity. rewrite IH. reflexivity. Qed.

Lemma map_upd_nth {B C} (g : B -> C) (f : B -> B) (l : list B) :
  forall i, (forall x, g (f x) = g x) -> map g (upd_nth i f l) = map g l.
Proof. induction l as [| x r IH]; intros [| i] H; cbn; try reflexivity; [rewrite H | rewrite IH by exact H]; reflexivity. Qed.

Lemma skel_upd p (x : A) : forall t : tree, skel (upd p x t) = skel t.
Proof.
  induction p as [| i p IH]; intros [a | l]; try reflexivity.
  cbn [upd skel]. f_equal. apply map_upd_nth. exact IH.
Qed.

Lemma get_upd_same p (x : A) : forall t : tree, get p t <> None -> get p (upd p x t) = Some x.
Proof.
  induction p as [| i p IH]; intros [a | l] H; cbn in H |- *; try congruence.
  rewrite nth_error_upd_nth, Nat.eqb_refl. destruct (nth_error l i) as [t'|]; [|congruence].
  cbn [option_map]. apply IH, H.
Qed.

Lemma get_upd_other p (x : A) : forall q (t : tree), q <> p -> get q (upd p x t) = get q t.
Proof.
  induction p as [| i p IH]; intros q [a | l] Hne; try reflexivity.
  - destruct q; [congruence | reflexivity].
  - destruct q as [| j q]; [reflexivity|]. cbn [upd get]. rewrite nth_error_upd_nth.
    destruct (Nat.eqb j i) eqn:E; [|reflexivity]. apply Nat.eqb_eq in E. subst j.
    destruct (nth_error l i) as [t'|]; [|reflexivity]. cbn [option_map]. apply IH. congruence.
Qed.

Lemma in_paths_get p : forall t : tree, In p (paths t) -> get p t <> None.
Proof.
  intros t Hin. pose proof (get_paths t) as H.
  apply (in_map (fun p => get p t)) in Hin. rewrite H in Hin. apply in_map_iff in Hin.
  destruct Hin as (a & E & _). congruence.
Qed.

End TreeProofs.
