(* Correspondence entry points for nested make / undo (properties C03, C04): streams over list Z.

   mkseq: board-in ++ [n; op_1 .. op_n]
            op < 65536   make op          op = 65536   make_null          op = 131072   undo the latest
                                                                           operation not yet undone
          output: board-out(start)
                  per op:  REC = board-out-nohist ++ [length hashes; cur_hash; calc_hash]
                  board-out(after the ops)
                  per operation left on the stack, undone in reverse: REC
                  board-out(after everything is undone)
   mktp:  board-in ++ [n1; moves1..; n2; moves2..]  ->  for both sequences
          board-out-nohist ++ [cur_hash] after playing it from the start position. *)
From Coq Require Import NArith ZArith List Bool.
From Chess3 Require Import Base.Bits Model.Types Model.Att Model.BoardDef Model.Board Gen.Zobrist.
Import ListNotations.
Open Scope Z_scope.

Definition op_null : Z := 65536.
Definition op_pop : Z := 131072.

(* a stack frame: None = null move, Some m = move; with the reverse token *)
Definition frame := (option N * N)%type.

Definition seq_rec (b : board) : list Z :=
  encode_board_nohist b ++ [Z.of_nat (length (hashes b)); Z.of_N (cur_hash b); Z.of_N (calc_hash zob_real b)].

Definition seq_undo (b : board) (f : frame) : board :=
  match f with
  | (None, r) => undo_null b r
  | (Some m, r) => undo zob_real b m r
  end.

Fixpoint seq_ops (ops : list Z) (b : board) (st : list frame) (acc : list Z) : board * list frame * list Z :=
  match ops with
  | [] => (b, st, acc)
  | o :: rest =>
      let '(b', st') :=
        if o =? op_pop then
          match st with
          | f :: st' => (seq_undo b f, st')
          | [] => (b, st)
          end
        else if o =? op_null then
          let '(b1, r) := make_null zob_real b in (b1, (None, r) :: st)
        else
          let m := Z.to_N o in
          let '(b1, r) := make zob_real b m in (b1, (Some m, r) :: st) in
      seq_ops rest b' st' (acc ++ seq_rec b')
  end.

Fixpoint seq_unwind (b : board) (st : list frame) (acc : list Z) : board * list Z :=
  match st with
  | [] => (b, acc)
  | f :: st' => let b' := seq_undo b f in seq_unwind b' st' (acc ++ seq_rec b')
  end.

Definition run_mkseq (l : list Z) : list Z :=
  match decode_board l with
  | Some (b, n :: ops) =>
      let ops := firstn (Z.to_nat n) ops in
      let '(b1, st, acc) := seq_ops ops b [] [] in
      let '(b2, acc2) := seq_unwind b1 st [] in
      encode_board b ++ acc ++ encode_board b1 ++ acc2 ++ encode_board b2
  | _ => []
  end.

Definition play (b : board) (ms : list Z) : board :=
  fold_left (fun b m => fst (make zob_real b (Z.to_N m))) ms b.

Definition run_mktp (l : list Z) : list Z :=
  match decode_board l with
  | Some (b, n1 :: rest) =>
      let k1 := Z.to_nat n1 in
      let ms1 := firstn k1 rest in
      match skipn k1 rest with
      | n2 :: rest2 =>
          let ms2 := firstn (Z.to_nat n2) rest2 in
          let b1 := play b ms1 in
          let b2 := play b ms2 in
          encode_board_nohist b1 ++ [Z.of_N (cur_hash b1)] ++ encode_board_nohist b2 ++ [Z.of_N (cur_hash b2)]
      | [] => []
      end
  | _ => []
  end.
