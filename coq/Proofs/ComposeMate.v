(* Composition, part 6: the direct mate / stalemate tests (C09) against the engine's own move
   generator (C01): "no legal move" of the rules is "no playable move" of the engine. *)
From Coq Require Import NArith ZArith List Bool Permutation.
From Chess3 Require Import Base.Bits Model.Types Model.BoardDef Model.Board Model.Movegen Model.Mate
  Spec.Chess Spec.Rep.
From Chess3 Require Proofs.MateSound Proofs.GenTop.
Import ListNotations.

Lemma playable_nil_iff z b : Rep b -> valid (abs b) = true ->
  (playable z b = [] <-> legal_moves (abs b) = []).
Proof.
  intros HR HV. pose proof (GenTop.playable_perm z b HR HV) as P. split; intros E.
  - rewrite E in P. apply Permutation_nil. exact P.
  - rewrite E in P. apply Permutation_nil. apply Permutation_sym. exact P.
Qed.

Theorem c09_playable : forall (z : zobrist) (b : board),
  Rep b -> valid (abs b) = true -> normal_ep (abs b) = true ->
  (in_check b (stm b) = true -> (is_checkmate b = true <-> playable z b = [])) /\
  (in_check b (stm b) = false -> (is_stalemate b = true <-> playable z b = [])).
Proof.
  intros z b HR HV HN. destruct (MateSound.c09_full b HR HV HN) as [M S].
  pose proof (playable_nil_iff z b HR HV) as E.
  split; intros C; [rewrite (M C)|rewrite (S C)]; symmetry; exact E.
Qed.
