package posgen

// G8: constructive generator for "only an en-passant capture can be played" positions (C09).
//
// The en-passant loop at the end of IsStalemate and the en-passant exit of IsCheckmate only decide
// the verdict when every other move is absent or illegal. Random generation practically never
// produces that (about 1 in 10^7 sparse placements), so the family is built from its structure:
//
//	1. the pawn that has just made a double step (file f), the en-passant target behind it, the
//	   origin square empty;
//	2. one or two capturers next to it, normally with the square in front of them blocked;
//	3. the king of the side to move on a THEME square: somewhere (boxed in later), on the diagonal
//	   through a capturer and the target square (the capture moves ALONG a pin), on the diagonal
//	   through a capturer across its capture (the capture is illegal), on the capturer's file under
//	   a rook that stands directly in front of it, on the pushed pawn's file (the landing square
//	   closes the file again), on the rank of the pawns (the two-pawns-vanish pin), on a diagonal
//	   through the captured pawn (its removal opens a line), or - for the IsCheckmate analogue -
//	   diagonally in front of the pushed pawn, i.e. in check by it;
//	4. an enemy slider behind the far end of the theme line (usually), so that capturer, landing
//	   square and removed square lie on or off king-slider lines in every combination;
//	5. the enemy king, then enemy men that take the remaining flight squares from the king one by
//	   one ("boxing": repeat { pick a legal king move, add an enemy man that attacks its target });
//	6. colour mirror, Valid, NormalEP.
//
// Positions whose legal moves are all en-passant captures are always kept; near misses (a few more
// legal moves) are kept with a small probability so that the neighbourhood is seen as well.

import (
	"github.com/paulsonkoly/chess-3/board"
	. "github.com/paulsonkoly/chess-3/chess"

	"verifharness/hx"
)

type epBuild struct {
	sq  [64]byte
	rng *hx.Rng
}

func (e *epBuild) put(r, f int, c byte) bool {
	if r < 0 || r > 7 || f < 0 || f > 7 || e.sq[r*8+f] != 0 {
		return false
	}
	if (c == 'p' || c == 'P') && (r == 0 || r == 7) {
		return false
	}
	e.sq[r*8+f] = c
	return true
}

func (e *epBuild) board(ep string) *board.Board {
	b, err := board.FromFEN(fenOf(e.sq, White, "-", ep, 0, 1))
	if err != nil {
		return nil
	}
	return b
}

// a slider of the right kind for direction (dr, df) beyond (r, f), first free square at distance >= 1
func (e *epBuild) sliderBeyond(r, f, dr, df int) bool {
	n := 1 + e.rng.Intn(4)
	for try := 0; try < 4; try++ {
		rr, ff := r+n*dr, f+n*df
		if rr < 0 || rr > 7 || ff < 0 || ff > 7 {
			n = 1
			continue
		}
		// the squares between must be empty
		ok := true
		for i := 1; i < n; i++ {
			if e.sq[(r+i*dr)*8+f+i*df] != 0 {
				ok = false
			}
		}
		if !ok {
			n = 1
			continue
		}
		pc := byte('q')
		if e.rng.Chance(0.6) {
			if dr == 0 || df == 0 {
				pc = 'r'
			} else {
				pc = 'b'
			}
		}
		return e.put(rr, ff, pc)
	}
	return false
}

// EPOnly builds one candidate (white to move before the optional colour mirror). kind says what
// came out: "G8-only" (every legal move is an en-passant capture, not in check), "G8-check-only"
// (the same while in check), "G8-near" (a few other legal moves). nil when the attempt failed.
func EPOnly(rng *hx.Rng) *Pos {
	e := &epBuild{rng: rng}
	f := rng.Intn(8)
	// black pawn on rank 5 (index 4), target on rank 6 (index 5), origin rank 7 (index 6) empty
	e.put(4, f, 'p')
	left, right := f-1 >= 0, f+1 <= 7
	two := left && right && rng.Chance(0.45)
	var caps []int
	switch {
	case two:
		caps = []int{f - 1, f + 1}
	case left && (!right || rng.Bool()):
		caps = []int{f - 1}
	default:
		caps = []int{f + 1}
	}
	for _, c := range caps {
		e.put(4, c, 'P')
	}
	// theme for the king
	type theme int
	const (
		tAnywhere theme = iota
		tAlongPin       // king - capturer - target - slider on one diagonal
		tAcrossPin      // king - capturer on the other diagonal of the capturer, slider beyond
		tFilePin        // king under the capturer, rook directly in front of it
		tPawnFile       // king under the pushed pawn, rook/queen above the target
		tRank           // king on the rank of the pawns, rook/queen on the other side
		tCaptured       // king on a diagonal through the captured pawn
		tCheck          // king attacked by the pushed pawn (IsCheckmate analogue)
	)
	th := theme(rng.Intn(8))
	if two && rng.Chance(0.5) {
		th = []theme{tAcrossPin, tFilePin, tAcrossPin, tCaptured}[rng.Intn(4)]
	}
	c0 := caps[rng.Intn(len(caps))] // the capturer the theme is about
	dir := 1                        // file direction from the capturer to the target
	if c0 > f {
		dir = -1
	}
	kr, kf := -1, -1
	placeKing := func(r, ff int) bool {
		if e.put(r, ff, 'K') {
			kr, kf = r, ff
			return true
		}
		return false
	}
	withSlider := rng.Chance(0.85)
	switch th {
	case tAlongPin:
		n := 1 + rng.Intn(4)
		if !placeKing(4-n, c0-n*dir) {
			return nil
		}
		if withSlider {
			e.sliderBeyond(5, f, 1, dir)
		}
	case tAcrossPin:
		// the other diagonal through the capturer (the capture leaves it): king below on the
		// target's side with the slider above, or king above with the slider below
		n := 1 + rng.Intn(4)
		if rng.Chance(0.7) {
			if !placeKing(4-n, c0+n*dir) {
				return nil
			}
			if withSlider {
				e.sliderBeyond(4, c0, 1, -dir)
			}
		} else {
			if !placeKing(4+n, c0-n*dir) {
				return nil
			}
			if withSlider {
				e.sliderBeyond(4, c0, -1, dir)
			}
		}
	case tFilePin:
		n := 1 + rng.Intn(4)
		if !placeKing(4-n, c0) {
			return nil
		}
		if withSlider {
			pc := byte('r')
			if rng.Chance(0.3) {
				pc = 'q'
			}
			e.put(5, c0, pc)
		}
	case tPawnFile:
		n := 1 + rng.Intn(4)
		if !placeKing(4-n, f) {
			return nil
		}
		if withSlider {
			pc := byte('r')
			if rng.Chance(0.4) {
				pc = 'q'
			}
			e.put(7, f, pc)
		}
	case tRank:
		// king on one side of all the pawns, slider on the other
		lo, hi := f, f
		for _, c := range caps {
			if c < lo {
				lo = c
			}
			if c > hi {
				hi = c
			}
		}
		if rng.Bool() {
			if !placeKing(4, lo-1-rng.Intn(3)) {
				return nil
			}
			if withSlider {
				e.sliderBeyond(4, hi, 0, 1)
			}
		} else {
			if !placeKing(4, hi+1+rng.Intn(3)) {
				return nil
			}
			if withSlider {
				e.sliderBeyond(4, lo, 0, -1)
			}
		}
	case tCaptured:
		s := 1
		if rng.Bool() {
			s = -1
		}
		n := 2 + rng.Intn(3)
		if !placeKing(4-n, f+s*n) {
			return nil
		}
		if withSlider {
			e.sliderBeyond(4, f, 1, -s)
		}
	case tCheck:
		s := 1
		if rng.Bool() {
			s = -1
		}
		if !placeKing(3, f+s) {
			return nil
		}
		// sometimes a second line through the capturer / target / captured pawn
		if rng.Chance(0.5) {
			switch rng.Intn(3) {
			case 0:
				e.sliderBeyond(4, c0, 1, 0)
			case 1:
				e.sliderBeyond(4, c0, 1, -dir)
			default:
				e.sliderBeyond(4, f, 1, -s)
			}
		}
	default:
		k := rng.Intn(64)
		if rng.Chance(0.6) {
			k = []int{0, 7, 56, 63, 1, 6, 8, 15, 3, 4, 24, 31}[rng.Intn(12)]
		}
		if !placeKing(k/8, k%8) {
			return nil
		}
		if rng.Chance(0.5) {
			// a random line through one of the three squares of the capture
			t := [][2]int{{4, c0}, {5, f}, {4, f}}[rng.Intn(3)]
			d := [][2]int{{1, 0}, {1, 1}, {1, -1}, {0, 1}, {0, -1}, {-1, 1}, {-1, -1}}[rng.Intn(7)]
			e.sliderBeyond(t[0], t[1], d[0], d[1])
		}
	}
	// blockers in front of the capturers (a pinned capturer does not need one)
	for _, c := range caps {
		if e.sq[5*8+c] == 0 && rng.Chance(0.85) && !(c == c0 && (th == tAcrossPin || th == tRank) && rng.Chance(0.7)) {
			e.put(5, c, "ppnb"[rng.Intn(4)])
		}
	}
	// the black king: often close to the white one (it helps boxing)
	for try := 0; try < 40; try++ {
		r, ff := rng.Intn(8), rng.Intn(8)
		if rng.Chance(0.6) {
			r, ff = kr+rng.Intn(5)-2, kf+rng.Intn(5)-2
		}
		dr, df := r-kr, ff-kf
		if dr*dr <= 1 && df*df <= 1 {
			continue
		}
		if e.put(r, ff, 'k') {
			break
		}
	}
	ep := string([]byte{byte('a' + f), '6'})
	b := e.board(ep)
	if b == nil || !Valid(b) {
		return nil
	}
	wantCheck := b.InCheck(White)
	// boxing: take the king's flight squares away one by one
	cnt := NewCounter()
	king := Square(kr*8 + kf)
	for step := 0; step < 10; step++ {
		var flight Square = -1
		for _, m := range Legal(b) {
			if m.From() == king {
				flight = m.To()
				break
			}
		}
		if flight < 0 {
			break
		}
		fixed := false
		for try := 0; try < 40 && !fixed; try++ {
			pc := "qrbnnp"[rng.Intn(6)]
			s := rng.Intn(64)
			if rng.Chance(0.7) {
				// near the flight square
				s = (int(flight)/8+rng.Intn(5)-2)*8 + int(flight)%8 + rng.Intn(5) - 2
			}
			if s < 0 || s > 63 || e.sq[s] != 0 || s == 5*8+f || s == 6*8+f {
				continue
			}
			if !e.put(s/8, s%8, pc) {
				continue
			}
			nb := e.board(ep)
			ok := nb != nil && Valid(nb) && nb.InCheck(White) == wantCheck
			if ok {
				for _, m := range Legal(nb) {
					if m.From() == king && m.To() == flight {
						ok = false
					}
				}
			}
			if ok {
				b, fixed = nb, true
			} else {
				e.sq[s] = 0
			}
		}
		if !fixed {
			break
		}
	}
	if !NormalEP(b) {
		return nil
	}
	legal := Legal(b)
	onlyEP := len(legal) > 0
	for _, m := range legal {
		if !b.IsEnPassant(m) {
			onlyEP = false
		}
	}
	kind := "G8-near"
	switch {
	case onlyEP && wantCheck:
		kind = "G8-check-only"
	case onlyEP:
		kind = "G8-only"
	case len(legal) > 3 || cnt.Count(b, 4) > 3:
		return nil
	}
	fen := b.FEN()
	if rng.Bool() {
		fen = MirrorFEN(fen)
		nb, err := board.FromFEN(fen)
		if err != nil || !Valid(nb) || !NormalEP(nb) {
			return nil
		}
		b = nb
	}
	return &Pos{B: b, Root: fen, Kind: kind}
}
