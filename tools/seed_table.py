#!/usr/bin/env python3
"""Write the markdown tables of seeded changes (seeded/*/meta.json) for DESIGN.md section 9.3/9.4."""
import glob, json, os, re
strengthened = {
 "C16-A":"c16p: en-passant/promotion/castling moves always tried as hash move; en-passant-rich roots",
 "C08-A":"new stream c08par (≥4 engines without WithCounters vs a solo run)",
 "C01-A":"new stream c01reach (reached positions judged against iterated succ_spec) + en-passant corner cases",
 "C01-B":"gen stream: dense pawn/castling placements (generator of c05)",
 "C15-D":"new stream c15big (8–24 MB tables, odd bucket counts, GOMAXPROCS 2..64, keys at first/last buckets and chunk boundaries)",
 "C13-C":"c13: long info lines (200–1200 bytes), slow stdout consumer, congested-output family",
 "C10-C":"new stream c10two (several StartPos boards alive, interleaved games); also registered under C03/C04",
 "C10-D":"new stream c10reuse (unrelated move lists on one reused driver)",
 "C11-C":"new stream c11seq (3–5 position commands on one driver, repeated rejected FEN with extended list)",
 "C04-D":"c10two (registered under C04 and C03 as well)",
 "C08-C":"new stream c08clear (k searches incl. k = 255/256/257…, Clear/ucinewgame, must equal a fresh engine)",
 "C01-D":"new stream c11reuse (ParseFEN / epd.Parse into a reused Board vs a fresh parse)",
 "C17-C":"c17: per-term activation measured (c17act) and king-zone/outpost/rook-line generators added; 5000 cases",
 "C09-C":"c09: constructive only-en-passant family (posgen/eponly.go)",
 "C09-D":"c09: constructive only-en-passant family, two capturers one pinned",
 "C18-D":"c18: same-kind (promoted) attacker groups with x-rays; shares by cases; 100k cases",
 "C16-C":"c16p: constructed positions with 0/1/2 quiet moves and pending bad captures",
 "C16-D":"c16p: picker runs on a USED move store pre-filled with adversarial stale weights; few-quiet positions",
 "C13-D":"c13: real-search `go ponder` left alone on near-final roots (clock 85..99, pre-repetition, mate/stalemate-adjacent)",
 "C05-D":"c05/c01 generator: pawns around the en-passant square, doubled enemy pawns on its file",
}

strengthened.update({
 "C05-E":"new session stream c05s (one long-lived board, walks with null moves, IsPseudoLegal sweep vs generated set after every operation, twice in a row)",
 "C05-F":"c11seq registered under C05 as well (repeated refused command on one driver)",
 "C06-F":"c10reuse: `position fen <other root>` between start-position lists on one driver; registered under C06 and C02 as well",
 "C09-E":"new session stream c09s (depth-first walks on one board, questions in random order incl. post-order, each answer also asked of a fresh copy)",
 "C12-E":"C12 extra step: implementation side repeated in fresh processes under GOMAXPROCS 1,2,3,5,6,7,12,NumCPU-1,NumCPU+1",
 "C12-F":"same (GOMAXPROCS < NumCPU)",
 "C15-E":"new stream c15multi (1–4 tables alive and interleaved, tables created after another outgrew its buffer)",
 "C15-F":"c15multi: LookUp results held and read late, in both orders",
 "C16-E":"new stream c16s (store sessions: unframed root with framed children, pickers created ahead, Clear between New and Next, Frame() probes)",
 "C16-F":"c16s (pickers created ahead of running / New then Clear)",
 "C17-E":"new session stream c17s (one long-lived board, shuffles back to the same placement with another clock, ResetFifty, Eval at chosen points vs a fresh board)",
 "C17-F":"new stream c17c (8–16 goroutines in eval.Eval at once vs sequential answers; observation of runtime behaviour)",
 "C19-E":"new stream c19fresh (fresh process; first calls of EngineCoeffs from 8–16 goroutines released together)",
 "C19-F":"c19vec modes 4/5 (several TunedParams iterators alive: lockstep, nested, interleaved; concurrent workers)",
 "C20-E":"c20_batch: iterators ranged repeatedly, after break, nested and interleaved",
})

strengthened.update({
 "C03-G":"mkseq: long lines nesting 126..394 outstanding makes (across the 128/256/384 marks of the hash-history buffer); a panic inside a generator emits the case in flight",
 "C13-G":"c13: bulk stdin family (batches of commands in one write, 4..30 kB queued, 2 kB / 6 kB position lines)",
 "C14-G":"new stream c14arm (real driver under testing/synctest virtual time: when the stop channel closes; mock search walks the tree in place; paired runs differing only in the opponent's clock)",
 "C14-H":"c14arm (traffic of isready / debug lines during the search)",
 "C15-H":"c15: re-store family (same key again with one or two fields changed, then a probe; a fifth of the stores at depth 0)",
 "C16-G":"posgen.Heavy (4..9 queens, 80..218 pseudo-legal moves) in the shared position stream and in c16p",
 "C06-G":"search request streams: a far time limit among the limits; roots final by rule with a single legal reply",
 "C06-H":"search request streams: previous search on ANOTHER root, then stop closed before the start / tiny budgets",
 "C19-H":"c19env: tuner-side evaluation on a coefficient object with the tuner's life cycle (zero value, Eval, SetVector, nudge and restore through TunedParams)",
 "C12-H":"C12 cold-start step: the first lookups of a fresh process come from 12 goroutines started 0/20/150/400 us apart",
 "C05-G":"c05/c01 castling family: the other king next to the mover's castling path (g2 h2 / a2 b2 c2 and mirrored)",
 "C02-E":"c10reuse: A ; B with a token the driver refuses in the middle ; A+tail (judge and model apply the prefix rule of applyMoves)",
 "C13-I":"c13: empty and blank lines among the no-op lines sent during a search",
 "C17-H":"translator-side effect analysis (Gen/Effects.v, C17_eval_keeps_no_state): the cache is a write to package-level state on Eval's call graph",
 "C20-G":"new stream c20_huge (generated files of 9..40 MiB, a line starting on every 1 MiB boundary)",
})

def describe(v):
    fr = v.get("first_replay", {})
    if fr.get("kind") == "witness":
        return " (witness, stream " + fr.get("stream", "?") + ")"
    if v["violation_lines"] and all("no-failing-input-found" in l for l in v["violation_lines"]):
        return " (no-failing-input-found)"
    return " (witness)"
strengthened.update({
 "C04-I":"missed by C04 at first (flagged by C02 only): mktp families ep-push / ep-disc (double push transposed with a slider move lining up behind the origin square) and the rule-level judge Spec/TpJudge.v (section 9.10)",
})

out = ["| seed | files changed | flagged by (quick tier, machinery as committed) | also run, silent | missed at first → what was strengthened |", "|---|---|---|---|---|"]
for d in sorted(glob.glob("/verif/seeded/C*/")):
    name = os.path.basename(d.rstrip("/"))
    r = json.load(open(d + "meta.json"))["result"]
    files = sorted(set(re.findall(r"^\+\+\+ b/(\S+)", open(d + "patch.diff").read(), re.M)))
    caught = [c + describe(v) for c, v in r["checks"].items() if v["exit"] == 1]
    silent = [c for c, v in r["checks"].items() if v["exit"] != 1]
    out.append("| " + " | ".join((name, ", ".join(files), "; ".join(caught) or "**none**", ", ".join(silent) or "—", strengthened.get(name, ""))) + " |")
open("/tmp/seedtable.md", "w").write("\n".join(out) + "\n")
h = ["| probe | change | silent | `no-failing-input-found` | alarm with a witness |", "|---|---|---|---|---|"]
for d in sorted(glob.glob("/verif/seeded/harmless-*/")):
    name = os.path.basename(d.rstrip("/"))
    r = json.load(open(d + "meta.json"))["result"]
    notes = open(d + "notes.md").read() if os.path.exists(d + "notes.md") else ""
    first = next((l.strip("# ").strip() for l in notes.split("\n") if l.strip()), "")
    h.append("| " + " | ".join((name, first[:110], ", ".join(r["silent"]) or "—", ", ".join(r["no_failing_input_found"]) or "—", ", ".join(r["false_alarm_with_witness"]) or "—")) + " |")
open("/tmp/harmtable.md", "w").write("\n".join(h) + "\n")
print(len(out) - 2, "seeds;", len(h) - 2, "harmless probes")
