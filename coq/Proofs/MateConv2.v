(* C09, converse direction, part 3: utilities - two checkers from popcount > 1, Attackers is sound,
   completeness of the defender sets (Attackers of the checker's square, Block of the blocked squares)
   with respect to the moves the rules allow, and "pinned" means a new check after the move. *)
From Coq Require Import NArith ZArith List Bool Lia.
From Chess3 Require Import Base.Bits Model.Types Spec.Geometry Model.Att Model.BoardDef Model.Board
     Model.Movegen Model.Mate Spec.Chess Spec.Rep Proofs.MateGeom Proofs.MateAbs Proofs.MateKing
     Proofs.MateMove Proofs.MateCapture Proofs.MateBlockGeom Proofs.MateBlock Proofs.MateStale
     Proofs.MatePinGeom Proofs.MatePin Proofs.MateConv Proofs.MateConvMove.
Import ListNotations.
Open Scope N_scope.

(* ------------------------------------------------------------------------------------------ *)
(* two set bits *)

Lemma pos_has_bit p : exists i, N.testbit (Npos p) i = true.
Proof. exists (ctzp p). apply ctzp_testbit. Qed.

Lemma two_bits_pos p : 2 <= popcount_p p -> exists i j, i <> j /\ N.testbit (Npos p) i = true /\ N.testbit (Npos p) j = true.
Proof.
  induction p as [q IH|q IH|]; cbn [popcount_p]; intros H.
  - destruct (pos_has_bit q) as [i Hi]. exists 0, (N.succ i). split; [lia|]. split; [reflexivity|].
    change (Npos q~1) with (2 * Npos q + 1). rewrite N.testbit_odd_succ by lia. exact Hi.
  - destruct (IH H) as (i & j & Hij & Hi & Hj). exists (N.succ i), (N.succ j). split; [lia|].
    change (Npos q~0) with (2 * Npos q). rewrite !N.testbit_even_succ by lia. tauto.
  - lia.
Qed.

Lemma two_bits x : (1 <? popcount x) = true -> exists i j, i <> j /\ N.testbit x i = true /\ N.testbit x j = true.
Proof.
  intros H. apply N.ltb_lt in H. destruct x as [|p]; [cbn in H; lia|]. apply two_bits_pos. cbn [popcount] in H. lia.
Qed.

(* ------------------------------------------------------------------------------------------ *)
(* Attackers({q}) is sound *)

Lemma attackers_sound b c q occ u : Rep b -> q < 64 -> N.testbit (attackers b (bit q) occ c) u = true ->
  u < 64 /\ u <> q /\ exists ku, who (abs b) u = Some (c, ku) /\ mem (attacks_from c ku u occ) q = true.
Proof.
  intros HR Hq H. rewrite attackers_testbit in H by exact Hq. apply andb_prop in H. destruct H as [Hc H].
  assert (Hu : u < 64).
  { destruct (N.lt_ge_cases u 64) as [L|L]; [exact L|]. rewrite (colors_high b HR _ u L) in Hc. discriminate. }
  split; [exact Hu|].
  repeat (apply orb_true_iff in H; destruct H as [H|H]); apply andb_prop in H; destruct H as [H1 H2].
  - unfold king_moves in H1. destruct (king_step_range q u Hq H1) as (_ & E & _). split; [exact E|].
    exists King. split; [apply (who_abs_intro b HR); try assumption; unfold King; lia|].
    unfold mem. change (attacks_from c King u occ) with (king_attacks u). rewrite king_sym by assumption. exact H1.
  - unfold knight_moves in H1. destruct (knight_range q u Hq H1) as (_ & E). split; [exact E|].
    exists Knight. split; [apply (who_abs_intro b HR); try assumption; unfold Knight; lia|].
    unfold mem. change (attacks_from c Knight u occ) with (knight_attacks u). rewrite knight_sym by assumption. exact H1.
  - unfold bishop_moves in H1. destruct (bishop_range q occ u Hq H1) as [_ E]. split; [exact E|].
    apply bishop_sym in H1; try assumption. apply orb_true_iff in H2. destruct H2 as [H2|H2].
    + exists Bishop. split; [apply (who_abs_intro b HR); try assumption; unfold Bishop; lia|exact H1].
    + exists Queen. split; [apply (who_abs_intro b HR); try assumption; unfold Queen; lia|].
      unfold mem. change (attacks_from c Queen u occ) with (N.lor (rook_attacks u occ) (bishop_attacks u occ)).
      rewrite N.lor_spec, H1. apply orb_true_r.
  - unfold rook_moves in H1. destruct (rook_range q occ u Hq H1) as [_ E]. split; [exact E|].
    apply rook_sym in H1; try assumption. apply orb_true_iff in H2. destruct H2 as [H2|H2].
    + exists Rook. split; [apply (who_abs_intro b HR); try assumption; unfold Rook; lia|exact H1].
    + exists Queen. split; [apply (who_abs_intro b HR); try assumption; unfold Queen; lia|].
      unfold mem. change (attacks_from c Queen u occ) with (N.lor (rook_attacks u occ) (bishop_attacks u occ)).
      rewrite N.lor_spec, H1. reflexivity.
  - rewrite (pawn_sym c q u Hq Hu) in H1. destruct (pawn_attacks_range c u q Hu H1) as [_ E].
    split; [exact (fun X => E (eq_sym X))|].
    exists Pawn. split; [apply (who_abs_intro b HR); try assumption; unfold Pawn; lia|exact H1].
Qed.

(* the line of a checker, with the ray family *)
Lemma blocked_line_pfx b k0 a : Rep b -> k0 < 64 -> a < 64 ->
  N.testbit (attackers b (bit k0) (occupancy b) (flip (stm b))) a = true ->
  blocked_of k0 a = 0 \/
  exists dirs pre, (dirs = bishop_dirs \/ dirs = rook_dirs) /\ pfx dirs k0 a = Some pre /\
                   blocked_of k0 a = set_of pre /\ all_clear (occupancy b) pre = true.
Proof.
  intros HR Hk0 Ha H. rewrite attackers_testbit in H by exact Hk0. apply andb_prop in H. destruct H as [_ H].
  assert (Hleap : N.testbit (king_attacks a) k0 = true \/ N.testbit (knight_attacks a) k0 = true -> blocked_of k0 a = 0).
  { intros Hl. pose proof (leaper_blocked k0 a Hk0 Ha) as C. unfold leaper_blocked_check in C.
    destruct Hl as [Hl|Hl]; rewrite Hl in C; rewrite ?orb_true_r in C; cbn [orb] in C; apply N.eqb_eq; exact C. }
  repeat (apply orb_true_iff in H; destruct H as [H|H]); apply andb_prop in H; destruct H as [Hm _].
  - left. apply Hleap. left. unfold king_moves in Hm. rewrite king_sym by assumption. exact Hm.
  - left. apply Hleap. right. unfold knight_moves in Hm. rewrite knight_sym by assumption. exact Hm.
  - right. unfold bishop_moves in Hm. rewrite bishop_testbit in Hm.
    destruct (hit_prefix _ _ _ _ Hm) as (dir & pre & Hd & Hp & Hc). exists bishop_dirs, pre.
    split; [left; reflexivity|]. split; [apply (pfx_of_dir bishop_dirs k0 a dir pre (bishop_uniq k0 a Hk0 Ha) Hd Hp)|].
    split; [|exact Hc].
    pose proof (bishop_blocked_check k0 a Hk0 Ha) as C. unfold blocked_check in C. rewrite forallb_forall in C.
    specialize (C dir Hd). rewrite Hp in C. apply N.eqb_eq. exact C.
  - right. unfold rook_moves in Hm. rewrite rook_testbit in Hm.
    destruct (hit_prefix _ _ _ _ Hm) as (dir & pre & Hd & Hp & Hc). exists rook_dirs, pre.
    split; [right; reflexivity|]. split; [apply (pfx_of_dir rook_dirs k0 a dir pre (rook_uniq k0 a Hk0 Ha) Hd Hp)|].
    split; [|exact Hc].
    pose proof (rook_blocked_check k0 a Hk0 Ha) as C. unfold blocked_check in C. rewrite forallb_forall in C.
    specialize (C dir Hd). rewrite Hp in C. apply N.eqb_eq. exact C.
  - left. apply Hleap. left. rewrite (pawn_sym (flip (stm b)) k0 a Hk0 Ha) in Hm.
    apply (pawn_in_king _ a k0 Ha Hm).
Qed.
