(* C16, closed form - the move picker on the moves of a real position: it yields every pseudo-legal
   move exactly once, the hash move first when it is pseudo-legal.
   Statements only; proofs in Proofs/ComposePicker.v (and Proofs/PickerProofs.v, C16Proofs.v).

   C16_picker / C16_end_to_end (Properties/C16.v) take IsPseudoLegal's answer and the generated lists as
   inputs and ASSUME   ipl = true <-> In hm (noisy ++ quiet)   and   NoDup (noisy ++ quiet).
   For a representable valid position b (or one reached from such a position by legal moves) and the
   environment the engine really builds -
        ipl   := is_pseudo_legal b hm        (Board.IsPseudoLegal, Model/Movegen.v)
        noisy := gen_noisy b,  quiet := gen_quiet b   (movegen.GenNoisy / GenNotNoisy)
   - both are theorems: C05 and b-c01's gen_all_NoDup.  The board model has moves in N, the picker
   model in Z; Z.of_N embeds.
   Remaining hypotheses:
     hm < 2^15      the 15 payload bits of move.Move.  Bit 15: IsPseudoLegal reads the fields through
                    masks and answers for hm as for hm with bit 15 cleared (C16_ipl_ignores_bit15), the
                    generator never sets it (C16_bit15_not_generated); a hash move with bit 15 set that
                    is accepted would be yielded although it is not a generated encoding.
     fresh_frame s  the caller pushed a frame;
     store_room s e allocated + 1 + |noisy| + |quiet| <= StoreSize: a fact about the move store of the
                    whole search stack (lower frames included), not about this position - no bound on
                    the number of generated moves is proved anywhere in the development, and it would
                    not discharge the hypothesis by itself (DESIGN O2, store_ok);
     reachable r, attrs_ok  the ranker state arises from FailHigh/Add calls; attacker/victim codes 0..6. *)
From Coq Require Import NArith ZArith List Bool Permutation.
Import ListNotations.
From Chess3 Require Import Base.Bits Model.Types Model.BoardDef Model.Board Model.Movegen Spec.Chess Spec.Rep Spec.Play.
From Chess3 Require Proofs.UndoMove Proofs.BoardExamples Proofs.ComposeReach.
From Chess3 Require Import Base.Word Gen.HeurConsts Gen.Zobrist Model.Hist Model.Picker Spec.PickerSpec
  Proofs.HistProofs Proofs.PickerProofs Proofs.C16Proofs Proofs.ComposePicker.

(* the two hypotheses of C16_picker hold for the environment of a valid position *)
Theorem C16_hypotheses_from_C05_C01 : forall b hm, Rep b -> valid (abs b) = true -> (hm < 32768)%N ->
  (is_pseudo_legal b hm = true <-> In (Z.of_N hm) (map Z.of_N (Movegen.gen_noisy b) ++ map Z.of_N (Movegen.gen_quiet b))) /\
  NoDup (map Z.of_N (Movegen.gen_noisy b) ++ map Z.of_N (Movegen.gen_quiet b)).
Proof. exact picker_hypotheses. Qed.
Print Assumptions C16_hypotheses_from_C05_C01.

(* THE CLOSED STATEMENT: weights computed by RankNoisy / RankQuiet from any reachable ranker and any
   attributes attached to the generated moves *)
Theorem C16_closed : forall b hm r stm top0 top1 noisy quiet e s,
  Rep b -> valid (abs b) = true -> (hm < 32768)%N ->
  reachable r -> Forall attrs_ok noisy ->
  map na_move noisy = map Z.of_N (Movegen.gen_noisy b) -> map qa_move quiet = map Z.of_N (Movegen.gen_quiet b) ->
  ranked_env r stm top0 top1 (is_pseudo_legal b hm) noisy quiet = Some e ->
  fresh_frame s -> store_room s e ->
  weights_in_band e
  /\ exists ys q,
    drain_from (drain_fuel e) e (picker_new s (Z.of_N hm)) = Some (ys, q)
    /\ drain e (picker_new s (Z.of_N hm)) = Some ys
    /\ Permutation (map fst ys) (map Z.of_N (gen_all b))
    /\ (is_pseudo_legal b hm = true -> hd_error ys = Some (Z.of_N hm, HashMove))
    /\ store_pop (p_store q) = store_pop s.
Proof. exact picker_on_board. Qed.
Print Assumptions C16_closed.

(* the same for any weights inside the designed bands (C16_picker's form) *)
Theorem C16_closed_env : forall b hm e s,
  Rep b -> valid (abs b) = true -> (hm < 32768)%N ->
  e_ipl e = is_pseudo_legal b hm ->
  map fst (e_noisy e) = map Z.of_N (Movegen.gen_noisy b) -> map fst (e_quiet e) = map Z.of_N (Movegen.gen_quiet b) ->
  weights_in_band e -> fresh_frame s -> store_room s e ->
  exists ys q,
    drain_from (drain_fuel e) e (picker_new s (Z.of_N hm)) = Some (ys, q)
    /\ drain e (picker_new s (Z.of_N hm)) = Some ys
    /\ Permutation (map fst ys) (map Z.of_N (gen_all b))
    /\ (is_pseudo_legal b hm = true -> hd_error ys = Some (Z.of_N hm, HashMove))
    /\ store_pop (p_store q) = store_pop s.
Proof. exact picker_on_board_env. Qed.
Print Assumptions C16_closed_env.

(* ... in every position reached from a valid one by legal moves *)
Theorem C16_reach : forall z b0 ms hm e s, UndoMove.zob_w64 z ->
  Rep b0 -> valid (abs b0) = true -> legal_line z b0 ms -> (hm < 32768)%N ->
  let b := run z b0 ms in
  e_ipl e = is_pseudo_legal b hm ->
  map fst (e_noisy e) = map Z.of_N (Movegen.gen_noisy b) -> map fst (e_quiet e) = map Z.of_N (Movegen.gen_quiet b) ->
  weights_in_band e -> fresh_frame s -> store_room s e ->
  exists ys q,
    drain_from (drain_fuel e) e (picker_new s (Z.of_N hm)) = Some (ys, q)
    /\ drain e (picker_new s (Z.of_N hm)) = Some ys
    /\ Permutation (map fst ys) (map Z.of_N (gen_all b))
    /\ (is_pseudo_legal b hm = true -> hd_error ys = Some (Z.of_N hm, HashMove))
    /\ store_pop (p_store q) = store_pop s.
Proof.
  intros z b0 ms hm e s Hz HR HV HL Hm. cbv zeta.
  destruct (ComposeReach.run_inv_Rep z Hz ms b0 HR HV HL) as (R & V & _).
  apply picker_on_board_env; assumption.
Qed.
Print Assumptions C16_reach.

(* bit 15 *)
Theorem C16_ipl_ignores_bit15 : forall b m, is_pseudo_legal b (N.land m 32767) = is_pseudo_legal b m.
Proof. exact ipl_ignores_bit15. Qed.
Print Assumptions C16_ipl_ignores_bit15.

Theorem C16_bit15_not_generated : forall b m, (32768 <= m)%N -> ~ In m (gen_all b).
Proof. exact bit15_not_generated. Qed.
Print Assumptions C16_bit15_not_generated.

(* non-vacuity: the start position, hash move e2e4 (796), the 20 quiet moves with weight 0, an empty
   frame on an empty store: every hypothesis of C16_closed_env holds and the picker yields e2e4 first,
   then the other 19 moves.  With bit 15 set, e2e4 is still accepted but is not a generated encoding. *)
Definition start_env : env :=
  {| e_ipl := true; e_noisy := [];
     e_quiet := map (fun m => (m, 0%Z))
       [80; 82; 405; 407; 528; 593; 658; 723; 788; 853; 918; 983; 536; 601; 666; 731; 796; 861; 926; 991]%Z |}.

Example C16_closed_nonvacuous :
  Rep BoardExamples.ex_start /\ valid (abs BoardExamples.ex_start) = true /\
  e_ipl start_env = is_pseudo_legal BoardExamples.ex_start 796 /\
  map fst (e_noisy start_env) = map Z.of_N (Movegen.gen_noisy BoardExamples.ex_start) /\
  map fst (e_quiet start_env) = map Z.of_N (Movegen.gen_quiet BoardExamples.ex_start) /\
  weights_in_band start_env /\ fresh_frame (store_push store_new) /\ store_room (store_push store_new) start_env /\
  option_map (fun ys => (hd_error ys, length ys)) (drain start_env (picker_new (store_push store_new) 796))
    = Some (Some (796%Z, HashMove), 20%nat) /\
  is_pseudo_legal BoardExamples.ex_start (796 + 32768) = true /\ ~ In (796 + 32768)%N (gen_all BoardExamples.ex_start).
Proof.
  split; [vm_compute; reflexivity|]. split; [vm_compute; reflexivity|]. split; [vm_compute; reflexivity|].
  split; [vm_compute; reflexivity|]. split; [vm_compute; reflexivity|].
  split.
  { unfold weights_in_band, start_env. cbn [e_noisy e_quiet]. split; [constructor|].
    apply Forall_forall. intros mw Hin. apply in_map_iff in Hin. destruct Hin as (m & <- & _). cbn [snd].
    unfold in_quiet_band, MaxHistory. split; discriminate. }
  split; [apply push_fresh|]. split; [vm_compute; discriminate|].
  split; [vm_compute; reflexivity|]. split; [vm_compute; reflexivity|].
  apply bit15_not_generated. vm_compute. discriminate.
Qed.
