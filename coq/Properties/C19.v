(* C19 - The tuner optimises the same evaluation the engine plays with.
   Statements only; proofs live in Proofs/VectorTree.v, Proofs/VectorFields.v (part b) and
   Proofs/EvalMorph.v, Proofs/EvalEnvelope.v (part a).

   Generated inputs (regenerated from /repo on every run): Gen/Coeffs.v (shipped coefficients, sigmoid
   table, MaxPhase, Phase, field widths), Gen/CoeffShape.v (shape of eval.CoeffSet[float64], default
   targets, memory image of eval.Coefficients).

   What is NOT proved here: float64 is modelled by the real numbers (assumption float64_real_gap in the
   evidence).  "No int16 overflow on valid positions" is C19_no_wrap below (it is also evaluated on every
   case of stream c19z). *)
From Coq Require Import NArith ZArith List Bool String Reals.
From Chess3 Require Import Base.Bits Model.Types Model.BoardDef Gen.Coeffs Gen.CoeffShape
  Model.Eval Model.EvalU Model.EvalR Model.Vector Spec.Chess Spec.Rep
  Proofs.VectorTree Proofs.VectorFields Proofs.EvalMorph Proofs.EvalEnvelope Proofs.EvalBound Proofs.EvalNoWrap.
Import ListNotations.
Local Notation length := List.length.

(* ============================================================================================ *)
(* (b) the flat parameter vector.  For EVERY struct (list of named fields, each a nested array of
   leaves of any type A) whose arrays are non-empty, and EVERY selection of fields. *)

Section Vector.
Context {A : Type}.
Variable sel : string -> bool.

(* the vector has one entry per selected coefficient *)
Theorem C19_vector_length : forall e : fields A, length (to_vector sel e) = vec_len sel e.
Proof. exact (length_to_vector sel). Qed.

(* writing a vector and reading it back gives the vector; the shape, the names and the fields that are
   not selected are untouched *)
Theorem C19_vector_set_then_read : forall (e : fields A) (v : list A),
  proper_fields e = true -> length v = vec_len sel e ->
  exists e', set_vector sel e v = Some e' /\ to_vector sel e' = v /\
             skel_fields e' = skel_fields e /\ same_unselected sel e e'.
Proof. exact (set_then_to sel). Qed.

(* reading the vector and writing it back changes nothing *)
Theorem C19_vector_read_then_set : forall e : fields A,
  proper_fields e = true -> set_vector sel e (to_vector sel e) = Some e.
Proof. exact (to_then_set sel). Qed.

(* iterating the tunable parameters: the i-th pointer holds the i-th vector entry (in particular there are
   as many pointers as entries), no two pointers coincide, and the pointers depend on the shape only *)
Theorem C19_tuned_params_same_index : forall e : fields A,
  map (get_at e) (tuned_params sel e) = map Some (to_vector sel e).
Proof. exact (tuned_values sel). Qed.

Theorem C19_tuned_params_distinct : forall e : fields A, NoDup (tuned_params sel e).
Proof. exact (tuned_distinct sel). Qed.

Theorem C19_tuned_params_shape_only : forall e e' : fields A,
  skel_fields e = skel_fields e' -> tuned_params sel e = tuned_params sel e'.
Proof. exact (tuned_shape_only sel). Qed.

(* the finite-difference loop: a write through the i-th pointer changes entry i of the vector and nothing
   else - neither another entry nor a coefficient outside the vector - and does not move the pointers *)
Theorem C19_perturb_same_index : forall (e : fields A) i a x,
  nth_error (tuned_params sel e) i = Some a ->
  to_vector sel (upd_at e a x) = upd_nth i (fun _ => x) (to_vector sel e)
  /\ (forall a', a' <> a -> get_at (upd_at e a x) a' = get_at e a')
  /\ tuned_params sel (upd_at e a x) = tuned_params sel e.
Proof. exact (perturb_index sel). Qed.

End Vector.
Print Assumptions C19_vector_length.
Print Assumptions C19_vector_set_then_read.
Print Assumptions C19_vector_read_then_set.
Print Assumptions C19_tuned_params_same_index.
Print Assumptions C19_tuned_params_distinct.
Print Assumptions C19_tuned_params_shape_only.
Print Assumptions C19_perturb_same_index.

(* target lists are sets: only membership of a field name matters *)
Theorem C19_targets_are_a_set : forall ts ts', (forall n, In n ts <-> In n ts') ->
  forall n, in_targets ts n = in_targets ts' n.
Proof. exact in_targets_ext. Qed.
Print Assumptions C19_targets_are_a_set.

(* the generated struct meets the hypothesis, the default targets select 17 fields / 981 coefficients,
   and both translators (Gen/CoeffShape.v, Gen/Coeffs.v) describe the same coefficients *)
Example C19_generated_shape_proper :
  proper_fields zero_rep = true /\
  vec_len (in_targets default_targets) zero_rep = length engine_flat /\
  engine_field_names = map fst coeff_fields /\
  flat_all engine_rep = engine_flat.
Proof. vm_compute. repeat split; reflexivity. Qed.

Example C19_generators_agree :
  let C := Coefficients in
  List.concat (PSqT C) ++ List.concat (PieceValues C) ++ TempoBonus C ++ List.concat (KingAttackPieces C) ++
  List.concat (SafeChecks C) ++ KingShelter C ++ List.concat (MobilityKnight C) ++ List.concat (MobilityBishop C) ++
  List.concat (MobilityRook C) ++ List.concat (KnightOutpost C) ++ ConnectedRooks C ++ BishopPair C ++
  ProtectedPasser C ++ PasserKingDist C ++ List.concat (PasserRank C) ++ DoubledPawns C ++ IsolatedPawns C
  = engine_flat.
Proof. vm_compute. reflexivity. Qed.

(* ============================================================================================ *)
(* (a) the rounding envelope *)
Open Scope R_scope.

(* sigmoid table vs closed form, for every integer argument (clamp included) *)
Theorem C19_envelope_partial_sigmoid_table : forall k : Z,
  Rabs (sigmoid_R (IZR k) - IZR (sigmoid_U k)) <= 1 / 2.
Proof. exact sigmoid_bound. Qed.
Print Assumptions C19_envelope_partial_sigmoid_table.

(* every accumulator (sp.mg, sp.eg, ka.score) has EXACTLY the same value in the real-number run with the
   converted coefficients as in the (non-wrapping) integer run, up to addKingAttacks - for ARBITRARY
   integer coefficient tables *)
Theorem C19_envelope_partial_morphism : forall (C : CoeffSet Z) b s c,
  total ops_R s c (add_piece_values ops_R (coeff_map IZR C) b ++ pre_terms ops_R (coeff_map IZR C) b) =
  IZR (total ops_U s c (add_piece_values ops_U C b ++ pre_terms ops_U C b)).
Proof. exact base_UR. Qed.
Print Assumptions C19_envelope_partial_morphism.

(* real-number evaluation vs the NON-WRAPPING integer evaluation: no overflow hypothesis, ARBITRARY integer
   coefficient tables (retuning cannot break it), any board *)
Theorem C19_envelope_partial_unbounded_integers : forall (C : CoeffSet Z) b, (0 <= fifty b <= 200)%Z ->
  Rabs (eval_R (coeff_map IZR C) b - IZR (eval_U C b)) < 2.
Proof. exact eval_R_near_U. Qed.
Print Assumptions C19_envelope_partial_unbounded_integers.

(* int16 evaluation = evaluation over the integers where no accumulator overflows *)
Theorem C19_envelope_partial_int16 : forall b,
  no_wrap Coefficients b = true -> eval_Z Coefficients b = eval_U Coefficients b.
Proof. exact (eval_Z_eq_U Coefficients coefficients_int16). Qed.
Print Assumptions C19_envelope_partial_int16.

(* the envelope, under the two hypotheses that remain explicit: halfmove clock in 0..200 (the FEN parser
   admits 0..100) and no int16 overflow.  The proved bound is 2; the property's envelope is 2.25. *)
Theorem C19_envelope_partial_no_wrap : forall b,
  (0 <= fifty b <= 200)%Z -> no_wrap Coefficients b = true ->
  Rabs (white_rel_R b (eval_R coeffs_R b) - IZR (white_rel_Z b (eval_Z Coefficients b))) < 2.
Proof. exact envelope_no_wrap. Qed.
Print Assumptions C19_envelope_partial_no_wrap.

(* no int16 overflow: with the shipped coefficients every accumulator of the integer evaluation stays
   inside int16 on every valid position (Proofs/EvalBound.v: each accumulator is bounded by
   sum (range of a generated table row) x (number of men of the kind); Proofs/EvalNoWrap.v: the counts obey
   the material rule of [valid], the table ranges are evaluated for Gen/Coeffs.v).  Re-checked against the
   regenerated coefficients on every run; a retuning whose worst case no longer fits makes it fail. *)
Theorem C19_no_wrap : forall b,
  Rep b -> valid (abs b) = true -> (0 <= fifty b <= 200)%Z -> no_wrap Coefficients b = true.
Proof. exact no_wrap_valid. Qed.
Print Assumptions C19_no_wrap.

(* the accumulator ranges behind it (sp.mg[c] / sp.eg[c] at taperedScore, ka.score[ph][c] at addKingAttacks);
   tot s c l = total ops_U s c l, main_lo = -8000, main_hi = 24000 *)
Theorem C19_accumulator_ranges : forall b, Rep b -> valid (abs b) = true -> forall c,
  (main_lo <= tot MG c (all_terms ops_U Coefficients b) <= main_hi)%Z /\
  (main_lo <= tot EG c (all_terms ops_U Coefficients b) <= main_hi)%Z /\
  (-8000 <= tot KA0 c (pre_terms ops_U Coefficients b) <= 8000)%Z /\
  (-8000 <= tot KA1 c (pre_terms ops_U Coefficients b) <= 8000)%Z.
Proof.
  intros b HR HV c.
  exact (conj (main_acc_bound b HR HV MG c eq_refl) (conj (main_acc_bound b HR HV EG c eq_refl)
        (conj (ka_acc_bound b HR HV KA0 c eq_refl) (ka_acc_bound b HR HV KA1 c eq_refl)))).
Qed.
Print Assumptions C19_accumulator_ranges.

(* THE ENVELOPE: for every valid position with a halfmove clock the FEN parser admits, the real-number
   evaluation with the converted shipped coefficients is within 2 (< 2.25) centipawns of the engine's int16
   evaluation, white-relative.  (float64 is modelled by the reals: assumption float64_real_gap.) *)
Definition C19_envelope_statement : Prop := forall b,
  Rep b -> valid (abs b) = true -> (0 <= fifty b <= 100)%Z ->
  Rabs (white_rel_R b (eval_R coeffs_R b) - IZR (white_rel_Z b (eval_Z Coefficients b))) < 225 / 100.

Theorem C19_envelope_sharp : forall b, Rep b -> valid (abs b) = true -> (0 <= fifty b <= 200)%Z ->
  Rabs (white_rel_R b (eval_R coeffs_R b) - IZR (white_rel_Z b (eval_Z Coefficients b))) < 2.
Proof. intros b Hr Hv Hf. apply envelope_no_wrap; [exact Hf | exact (no_wrap_valid b Hr Hv Hf)]. Qed.
Print Assumptions C19_envelope_sharp.

Theorem C19_envelope : C19_envelope_statement.
Proof.
  intros b Hr Hv Hf. apply Rlt_trans with 2.
  - apply C19_envelope_sharp; [exact Hr | exact Hv |].
    destruct Hf; split; [assumption | apply Z.le_trans with 100%Z; [assumption | discriminate]].
  - apply Rmult_lt_reg_r with 100; [apply IZR_lt; reflexivity|].
    unfold Rdiv. rewrite Rmult_assoc, Rinv_l by (apply not_0_IZR; discriminate).
    rewrite Rmult_1_r, <- mult_IZR. apply IZR_lt. reflexivity.
Qed.
Print Assumptions C19_envelope.

(* non-vacuity: a middlegame position (r4rk1/1pp1qppp/p1np1n2/2b1p1B1/2B1P1b1/P1NP1N2/1PP1QPPP/R4RK1 w - - 0 10)
   meets the hypotheses of C19_envelope_partial_no_wrap; its integer evaluation is small (19 with the
   coefficients shipped when this was written; the example does not pin the value) *)
Example C19_nonvacuous :
  match decode_board [0xe609101009e600; 0x240000240000; 0x4444000000; 0x2100000000000021; 0x10000000001000;
                      0x4000000000000040; 0x40142df661; 0x61f62d1440000000; 0; 0; 0; 0; 10; 1; 0x19fb28724dea2160]%Z with
  | Some (b, _) => (0 <=? fifty b)%Z && (fifty b <=? 200)%Z && no_wrap Coefficients b && rep_ok b && valid (abs b)
                   && (Z.abs (eval_Z Coefficients b) <? 500)%Z
  | None => false
  end = true.
Proof. vm_compute. reflexivity. Qed.
