(* Generator half of C01/C05, castling: movegen.shortCastle / longCastle emit exactly the castlings
   the rules allow.  (The other piece kinds of gen_iff_spec are in Proofs/GenSpec.v.)

   The generator's conditions differ in form from IsPseudoLegal's: short castling compares
   [occ & {E,F,G}] with the king bitboard, long castling tests [occ & ({E,D,C} >> 1)]; both take the
   king square from the king bitboard.  With [valid] (a right implies king and rook at home, one king
   per side) they reduce to the three conditions of Proofs/IplKing.v. *)
From Coq Require Import NArith ZArith List Bool Lia.
From Chess3 Require Import Base.Bits Model.Types Spec.Geometry Model.Att Model.BoardDef Model.Board
  Model.Movegen Spec.Chess Spec.Rep Proofs.GenBase Proofs.IplBase Proofs.AttackedSpec Proofs.IplKing.
Import ListNotations.
Open Scope N_scope.

Lemma valid_material p c : valid p = true -> material_ok p c = true.
Proof.
  unfold valid. intros H. rewrite !andb_true_iff in H.
  destruct H as [[[[[[_ V2] V3] _] _] _] _]. destruct c; [exact V2|exact V3].
Qed.

(* NOTE (kernel performance): [unfold material_ok in M; apply andb_prop in M] type-checks instantly in the
   tactic engine but its Qed does not terminate in reasonable time (the cast makes the kernel compare
   [material_ok p c] with its unfolding from the wrong end and evaluate counts over the 64 squares);
   rewriting with these two equations avoids every such cast. *)
Lemma material_ok_unfold p c : material_ok p c =
  ((count p c King =? 1) && (count p c Pawn + Z.max 0 (count p c Knight - 2) + Z.max 0 (count p c Bishop - 2) +
                            Z.max 0 (count p c Rook - 2) + Z.max 0 (count p c Queen - 1) <=? 8))%Z.
Proof. unfold material_ok. cbv zeta. reflexivity. Qed.

Lemma count_unfold p c k : count p c k = Z.of_nat (length (filter (fun s => holds p s c k) squares64)).
Proof. unfold count. reflexivity. Qed.

(* one king per side: two squares holding the king of one colour coincide *)
Lemma king_unique p c i k : valid p = true -> i < 64 -> k < 64 ->
  holds p i c King = true -> holds p k c King = true -> i = k.
Proof.
  intros HV Hi Hk H1 H2. pose proof (valid_material p c HV) as M. rewrite material_ok_unfold in M.
  apply andb_prop in M. destruct M as [M _]. apply Z.eqb_eq in M. rewrite count_unfold in M.
  destruct (N.eq_dec i k) as [|Hne]; [assumption|exfalso].
  set (l := filter (fun s => holds p s c King) squares64) in *.
  assert (I1 : In i l) by (apply filter_In; split; [apply in_squares64; exact Hi|exact H1]).
  assert (I2 : In k l) by (apply filter_In; split; [apply in_squares64; exact Hk|exact H2]).
  clearbody l. (* keep the kernel from unfolding the 64-square filter at Qed *)
  assert (L : (2 <= length l)%nat).
  { change 2%nat with (length [i; k]). apply NoDup_incl_length.
    - constructor; [intros [E|[]]; congruence|constructor; [intros []|constructor]].
    - intros x [<-|[<-|[]]]; assumption. }
  lia.
Qed.

Lemma castle_ok_king p long : castle_ok p long = true -> holds p (king_home (turn p)) (turn p) King = true.
Proof.
  unfold castle_ok. intros H. rewrite !andb_true_iff in H.
  destruct H as [[[[_ H] _] _] _]. exact H.
Qed.

Section GenCastle.
  Variable b : board.
  Hypothesis HR : Rep b.
  Hypothesis HV : valid (abs b) = true.

  Let c := stm b.
  Let k := king_home c.

  Lemma k_lt : k < 64.
  Proof. unfold k. destruct c; reflexivity. Qed.

  (* with the king at home the king bitboard of the side to move is that one square *)
  Lemma king_bb_home : holds (abs b) k c King = true -> band (colors b c) (pieces b King) = bit k.
  Proof.
    intros HK. apply eq_bit. intros i. rewrite band_tb. split.
    - intros H. apply andb_prop in H. destruct H as [H1 H2].
      pose proof (colors_tb_lt b HR c i H1) as Hi.
      apply (king_unique (abs b) c i k HV Hi k_lt); [|exact HK].
      rewrite (holds_abs b HR i c King Hi) by (unfold King; discriminate).
      rewrite H1. rewrite (rep_pieces_tb b HR i King Hi) in H2 by (unfold King; lia). exact H2.
    - intros ->. rewrite (holds_abs b HR k c King k_lt) in HK by (unfold King; discriminate).
      apply andb_prop in HK. destruct HK as [H1 H2]. rewrite H1.
      rewrite (rep_pieces_tb b HR k King k_lt) by (unfold King; lia). exact H2.
  Qed.

  Lemma has_right_eq long : negb (band (castles b) (castle_bit c long) =? 0) = has_right (abs b) c long.
  Proof. reflexivity. Qed.

  (* occ & {e, f, g} = {e} iff f and g are empty, when e is occupied *)
  Lemma mask3_eq occ e f g : e <> f -> e <> g -> N.testbit occ e = true ->
    (band occ (bb3 e f g) =? bit e) = (band (bb3 f f g) occ =? 0).
  Proof.
    intros Hef Heg He.
    replace (band (bb3 f f g) occ) with (band occ (bb3 f f g)) by (unfold band; apply N.land_comm).
    unfold bb3 at 2. rewrite !band_bor_eq0, !band_bit_eq0.
    apply eq_true_iff_eq. rewrite N.eqb_eq. split.
    - intros H.
      assert (F : N.testbit (band occ (bb3 e f g)) f = false).
      { rewrite H, bit_testbit. apply N.eqb_neq. exact Hef. }
      assert (G : N.testbit (band occ (bb3 e f g)) g = false).
      { rewrite H, bit_testbit. apply N.eqb_neq. exact Heg. }
      unfold bb3 in F, G. rewrite band_tb, !bor_tb, !bit_testbit in F, G.
      rewrite N.eqb_refl in F, G. rewrite orb_true_r in F. cbn [orb] in F. rewrite orb_true_r in G.
      rewrite andb_true_r in F, G. rewrite F, G. reflexivity.
    - intros H. apply andb_prop in H. destruct H as [H Hg]. apply andb_prop in H. destruct H as [Hf _].
      apply negb_true_iff in Hf, Hg.
      apply bits_ext. intros i. unfold bb3. rewrite band_tb, !bor_tb, !bit_testbit.
      destruct (N.eqb_spec e i) as [<-|Nei]; [rewrite He; reflexivity|].
      destruct (N.eqb_spec f i) as [<-|Nfi]; [rewrite Hf; reflexivity|].
      destruct (N.eqb_spec g i) as [<-|Ngi]; [rewrite Hg; reflexivity|]. apply andb_false_r.
  Qed.

  Lemma gen_short_eq :
    gen_short_castle (gen_of b) b Full = if castle_ok (abs b) false then [mv k (k + 2)] else [].
  Proof.
    unfold gen_short_castle, gen_of. cbn [g_self g_them g_occ]. fold c.
    rewrite has_right_eq.
    destruct (has_right (abs b) c false) eqn:HRt; cbn [andb].
    2:{ unfold castle_ok. change (turn (abs b)) with c. rewrite HRt. reflexivity. }
    destruct (valid_right_home _ c false HV HRt) as [HK _]. fold k in HK.
    rewrite (king_bb_home HK), lsb_bit.
    assert (Hocc : N.testbit (bor (colors b White) (colors b Black)) k = true).
    { fold (occupancy b). rewrite (rep_occ_tb b HR k k_lt).
      rewrite (holds_abs b HR k c King k_lt) in HK by (unfold King; discriminate).
      apply andb_prop in HK. destruct HK as [_ HK]. apply N.eqb_eq in HK. rewrite HK. reflexivity. }
    assert (IC : forall (right e f g : N), e = k -> e <> f -> e <> g -> f < 64 -> g < 64 -> e < 64 ->
       right = castle_bit c false ->
       (forall fn, forallb fn (between (king_home c) (rook_home c false)) = fn f && fn f && fn g) ->
       (forall fn, existsb fn (bits_of (bb3 e f g)) = fn e || fn f || fn g) ->
       (forall fn, forallb fn [king_home c; king_home c + 1; king_home c + 2] = fn e && fn f && fn g) ->
       negb (band (bb3 e f g) Full =? 0) = true ->
       (if band (bor (colors b White) (colors b Black)) (bb3 e f g) =? bit k
        then if negb (band (bb3 e f g) Full =? 0)
             then if negb (is_attacked b (flip c) (bor (colors b White) (colors b Black)) (bb3 e f g)) then [mv k (k + 2)] else []
             else []
        else []) = (if castle_ok (abs b) false then [mv k (k + 2)] else [])).
    { intros right e f g Ee Hef Heg Hf Hg He Hright Hb Hbits Hsafe Hfull. rewrite Hfull.
      rewrite <- (ipl_castle_spec b HR HV c false right f f g e f g eq_refl HK Hright Hf Hf Hg He Hf Hg Hb Hbits Hsafe).
      unfold ipl_castle. rewrite Hright. rewrite <- Ee. rewrite (mask3_eq _ e f g Hef Heg) by (rewrite Ee; exact Hocc).
      change (N.land (castles b) (castle_bit c false)) with (band (castles b) (castle_bit c false)).
      unfold has_right in HRt. change (rights (abs b)) with (castles b) in HRt.
      fold (band (castles b) (castle_bit c false)) in HRt. apply negb_true_iff in HRt. rewrite HRt. cbn [orb].
      fold c. destruct (band (bb3 f f g) (bor (colors b White) (colors b Black)) =? 0); cbn [negb orb]; [|reflexivity].
      destruct (is_attacked b (flip c) (bor (colors b White) (colors b Black)) (bb3 e f g)); reflexivity. }
    unfold k in *. destruct c eqn:Ec.
    - apply (IC ShortWhite E1 F1 G1); try reflexivity; try discriminate;
        intros fn; vm_compute; destruct (fn 5), (fn 6); try reflexivity; destruct (fn 4); reflexivity.
    - apply (IC ShortBlack E8 F8 G8); try reflexivity; try discriminate;
        intros fn; vm_compute; destruct (fn 61), (fn 62); try reflexivity; destruct (fn 60); reflexivity.
  Qed.

  Lemma gen_long_eq :
    gen_long_castle (gen_of b) b Full = if castle_ok (abs b) true then [mv k (k - 2)] else [].
  Proof.
    unfold gen_long_castle, gen_of. cbn [g_self g_them g_occ]. fold c.
    rewrite has_right_eq.
    destruct (has_right (abs b) c true) eqn:HRt; cbn [andb].
    2:{ unfold castle_ok. change (turn (abs b)) with c. rewrite HRt. reflexivity. }
    destruct (valid_right_home _ c true HV HRt) as [HK _]. fold k in HK.
    rewrite (king_bb_home HK), lsb_bit.
    assert (IC : forall (right e1 e2 e3 s1 s2 s3 : N),
       shr (bb3 s1 s2 s3) 1 = bb3 e1 e2 e3 ->
       e1 < 64 -> e2 < 64 -> e3 < 64 -> s1 < 64 -> s2 < 64 -> s3 < 64 ->
       right = castle_bit c true ->
       (forall fn, forallb fn (between (king_home c) (rook_home c true)) = fn e1 && fn e2 && fn e3) ->
       (forall fn, existsb fn (bits_of (bb3 s1 s2 s3)) = fn s1 || fn s2 || fn s3) ->
       (forall fn, forallb fn [king_home c; king_home c - 1; king_home c - 2] = fn s1 && fn s2 && fn s3) ->
       negb (band (bb3 s1 s2 s3) Full =? 0) = true ->
       (if band (bor (colors b White) (colors b Black)) (shr (bb3 s1 s2 s3) 1) =? 0
        then if negb (band (bb3 s1 s2 s3) Full =? 0)
             then if negb (is_attacked b (flip c) (bor (colors b White) (colors b Black)) (bb3 s1 s2 s3)) then [mv k (k - 2)] else []
             else []
        else []) = (if castle_ok (abs b) true then [mv k (k - 2)] else [])).
    { intros right e1 e2 e3 s1 s2 s3 Hshr He1 He2 He3 Hs1 Hs2 Hs3 Hright Hb Hbits Hsafe Hfull. rewrite Hfull, Hshr.
      rewrite <- (ipl_castle_spec b HR HV c true right e1 e2 e3 s1 s2 s3 eq_refl HK Hright He1 He2 He3 Hs1 Hs2 Hs3 Hb Hbits Hsafe).
      unfold ipl_castle. rewrite Hright.
      replace (band (bb3 e1 e2 e3) (bor (colors b White) (colors b Black)))
        with (band (bor (colors b White) (colors b Black)) (bb3 e1 e2 e3)) by (unfold band; apply N.land_comm).
      unfold has_right in HRt. change (rights (abs b)) with (castles b) in HRt.
      fold (band (castles b) (castle_bit c true)) in HRt. apply negb_true_iff in HRt. rewrite HRt. cbn [orb].
      fold c. destruct (band (bor (colors b White) (colors b Black)) (bb3 e1 e2 e3) =? 0); cbn [negb orb]; [|reflexivity].
      destruct (is_attacked b (flip c) (bor (colors b White) (colors b Black)) (bb3 s1 s2 s3)); reflexivity. }
    unfold k in *. destruct c eqn:Ec.
    - apply (IC LongWhite D1 C1 B1 E1 D1 C1); try reflexivity;
        intros fn; vm_compute; destruct (fn 1), (fn 2), (fn 3); try reflexivity; destruct (fn 4); reflexivity.
    - apply (IC LongBlack D8 C8 B8 E8 D8 C8); try reflexivity;
        intros fn; vm_compute; destruct (fn 57), (fn 58), (fn 59); try reflexivity; destruct (fn 60); reflexivity.
  Qed.
End GenCastle.

Lemma gen_castle_spec : forall b m, Rep b -> valid (abs b) = true -> m < 32768 ->
  (In m (gen_short_castle (gen_of b) b Full ++ gen_long_castle (gen_of b) b Full) <->
   (holds (abs b) (mv_from m) (stm b) King = true /\ mv_promo m = 0 /\ mv_from m = king_home (stm b) /\
    ((mv_to m = mv_from m + 2 /\ castle_ok (abs b) false = true) \/
     (mv_to m + 2 = mv_from m /\ castle_ok (abs b) true = true)))).
Proof.
  intros b m HR HV Hm. rewrite (gen_short_eq b HR HV), (gen_long_eq b HR HV), in_app_iff.
  set (k := king_home (stm b)).
  assert (Hk : k < 64 /\ k + 2 < 64 /\ k - 2 < 64 /\ 2 <= k) by (unfold k; destruct (stm b); cbn; lia).
  destruct Hk as (K0 & K1 & K2 & K3).
  split.
  - intros [H|H].
    + destruct (castle_ok (abs b) false) eqn:OK; [|destruct H]. destruct H as [<-|[]].
      unfold mv. rewrite mk_move_from, mk_move_to, mk_move_promo by (assumption || reflexivity).
      repeat split; try reflexivity; [apply castle_ok_king in OK; exact OK|left; split; reflexivity].
    + destruct (castle_ok (abs b) true) eqn:OK; [|destruct H]. destruct H as [<-|[]].
      unfold mv. rewrite mk_move_from, mk_move_to, mk_move_promo by (assumption || reflexivity).
      repeat split; try reflexivity; [apply castle_ok_king in OK; exact OK|right; split; [lia|reflexivity]].
  - intros (_ & Hp & Hf & [[Ht OK]|[Ht OK]]); rewrite OK.
    + left. left. symmetry. apply move_eq; try assumption. rewrite Ht, Hf. reflexivity.
    + right. left. symmetry. apply move_eq; try assumption. fold k in Hf. lia.
Qed.

Lemma gen_castle_NoDup : forall b, Rep b -> valid (abs b) = true ->
  NoDup (gen_short_castle (gen_of b) b Full ++ gen_long_castle (gen_of b) b Full).
Proof.
  intros b HR HV. rewrite (gen_short_eq b HR HV), (gen_long_eq b HR HV).
  set (k := king_home (stm b)).
  assert (Hk : k < 64 /\ k + 2 < 64 /\ k - 2 < 64 /\ 2 <= k) by (unfold k; destruct (stm b); cbn; lia).
  destruct Hk as (K0 & K1 & K2 & K3).
  destruct (castle_ok (abs b) false), (castle_ok (abs b) true); cbn [app].
  - constructor; [|constructor; [intros []|constructor]].
    intros [E|[]]. unfold mv in E.
    apply mk_move_inj in E; try assumption; try reflexivity. lia.
  - constructor; [intros []|constructor].
  - constructor; [intros []|constructor].
  - constructor.
Qed.
