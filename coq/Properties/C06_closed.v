(* C06 layer A on the board model - "when the search returns, the position object is identical to what
   it was before the call", with the C03 hypothesis of Properties/C06_skel.v discharged.
   Statements only; proofs in Proofs/ComposeSkel.v (composition of Proofs/SkelTheorems.v with C03).

   C06_board_untouched (Properties/C06_skel.v) holds for any machine (B, M, T, make, undo, ...) in which
   undo after make is the identity for ALL positions and ALL moves.  The board model has this only
   for [Rep b] and [applicable b m] (C03), and the skeleton abstracts the values of the move variables
   (they are havoc'ed), so the bare board model does not satisfy the hypothesis.  The instance proved
   here carries C03's precondition inside the operation:

       gmake z m b   = MakeMove(b, m), token Some t     if rep_ok b and applicable b m
                     = b unchanged, token None          otherwise
       gundo z m t b = UndoMove with token t / identity for None      (likewise the null move)

   For this machine the hypothesis holds unconditionally, so EVERY execution of the skeleton of the
   current search.go - any abort point, any resolution of the abstracted conditions, any values of the
   move variables - leaves board, move store and history stack as the theorems say.
   The guard is transparent (C06_guard_transparent): on a representable valid position gmake IS
   MakeMove for every generated move and every move IsPseudoLegal accepts (C03_closed), and those
   positions are closed under legal moves (C02_step_invariants).

   WHAT IS NOT PROVED HERE, precisely: that in an execution of the real search the guard never
   fails, i.e. "every m passed to MakeMove is a generated move of the current board or the
   IsPseudoLegal-checked hash move, and the current board is valid".  The skeleton cannot express it:
   its move variables are arbitrary values.  It is a fact of the data flow of search.go (moves come
   out of the picker, whose yield is a permutation of the generated moves: C16_closed; the root comes
   from FromFEN / applyMoves: C11, C02; illegal pseudo-legal moves are undone at once), visible in the
   closed search model (Model/IterDeepen.v, layer B), where make is the board model's make.  With that
   fact an execution of the real machine is an execution of the guarded machine (the guarded steps
   coincide with the real ones by C06_guard_transparent), and the theorem below applies to it. *)
From Coq Require Import String List NArith ZArith Bool.
From Chess3 Require Import Model.Skel Model.SkelCheck Model.SkelRun Gen.SearchSkel
  Proofs.SkelInstances Proofs.SkelTheorems Proofs.SkelRunProofs Proofs.SkelExamples.
From Chess3 Require Import Base.Bits Model.Types Model.BoardDef Model.Board Model.Movegen Gen.Zobrist
  Spec.Chess Spec.Rep Spec.Applicable Proofs.BoardExamples Proofs.ComposeSkel.
Import ListNotations.
Open Scope string_scope.

(* C03 for the guarded board machine: no hypothesis *)
Theorem C06_engine_undo_make_id : forall z m b b' t, gmake z m b = (b', t) -> gundo z m t b' = b.
Proof. exact gundo_make_id. Qed.
Print Assumptions C06_engine_undo_make_id.

Theorem C06_engine_undo_null_id : forall z b b' t, gmake_null z b = (b', t) -> gundo_null t b' = b.
Proof. exact gundo_null_id. Qed.
Print Assumptions C06_engine_undo_null_id.

(* the guard does nothing where the search operates *)
Theorem C06_guard_transparent : forall z b m, Rep b -> valid (abs b) = true ->
  In m (gen_all b) \/ is_pseudo_legal b m = true ->
  gmake z m b = (fst (make z b m), Some (snd (make z b m)))
  /\ gmake_null z b = (fst (make_null z b), Some (snd (make_null z b))).
Proof. intros z b m HR HV Hm. split; [apply gmake_is_make; assumption|apply gmake_null_is_make_null; exact HR]. Qed.
Print Assumptions C06_guard_transparent.

(* iterativeDeepen, alphaBeta, quiescence and every helper, on engine boards, any Zobrist table *)
Theorem C06_engine_board_untouched : forall z f p c c',
  SkelCheck.mem f resetters = false ->
  exec BoardDef.board N (option N) (gmake z) (gundo z) (gmake_null z) gundo_null ftable (Call f p) c ONormal c' ->
  Skel.board BoardDef.board N (fst c') = Skel.board BoardDef.board N (fst c)
  /\ ms_alloc BoardDef.board N (fst c') = ms_alloc BoardDef.board N (fst c)
  /\ ms_frames BoardDef.board N (fst c') = ms_frames BoardDef.board N (fst c)
  /\ hdepth BoardDef.board N (fst c') = hdepth BoardDef.board N (fst c).
Proof. exact engine_board_untouched. Qed.
Print Assumptions C06_engine_board_untouched.

(* Search.Go itself *)
Theorem C06_engine_go_board_untouched : forall z f p c c',
  SkelCheck.mem f resetters = true ->
  exec BoardDef.board N (option N) (gmake z) (gundo z) (gmake_null z) gundo_null ftable (Call f p) c ONormal c' ->
  Skel.board BoardDef.board N (fst c') = Skel.board BoardDef.board N (fst c)
  /\ ms_alloc BoardDef.board N (fst c') = 0%nat /\ ms_frames BoardDef.board N (fst c') = []
  /\ hdepth BoardDef.board N (fst c') = 0%nat.
Proof. exact engine_go_board_untouched. Qed.
Print Assumptions C06_engine_go_board_untouched.

(* non-vacuity: on the start position the guarded make of e2e4 is the real MakeMove and changes the
   board; and the generated skeleton has a complete execution of Search.Go on the engine machine from
   the start position (oracle numbers read as the moves e2e4, e7e5, g1f3, b8c6, ...; found by
   computation as in Proofs/SkelExamples.v) that counts nodes and stores into the table *)
Definition emoves : list N := [e2e4; e7e5; g1f3; b8c6; mk_move 5 26 0; mk_move 61 34 0; mk_move 11 19 0; mk_move 51 43 0].
Definition emk (n : nat) : N := nth n emoves e2e4.
Notation erun := (SkelRun.run BoardDef.board N (option N) (gmake zob_real) (gundo zob_real) (gmake_null zob_real) gundo_null
                       ftable emk None N.eq_dec).
(* the engine state of Proofs/SkelExamples.cglob0 (dirty: abort flag set, store and stack non-empty) with
   the start position as the board *)
Definition eglob0 : glob BoardDef.board N := {|
  Skel.board := ex_start; made := []; ms_alloc := 5%nat; ms_frames := [2%nat]; hdepth := 1%nat;
  nodes := 0; budget := 1000; ponder := false; aborted := true;
  stores := 0%nat; late := []; pv := fun _ => []; lastret := None; pv_bad := false; gen := 0%nat |}.
Definition elocals0 : locals N (option N) := {|
  menv := fun _ _ => e2e4; tenv := fun _ => None; cenv := fun _ _ => false; ply := 0%nat; defers := [] |}.
Definition egood (r : outcome * cstate BoardDef.board N (option N) * list nat) : bool :=
  match r with
  | (ONormal, c, _) => (0 <? nodes _ _ (fst c))%Z && Nat.ltb 0 (stores _ _ (fst c))
  | _ => false
  end.

Example C06_engine_nonvacuous :
  Rep ex_start /\ valid (abs ex_start) = true /\ In e2e4 (gen_all ex_start) /\
  fst (gmake zob_real e2e4 ex_start) = fst (make zob_real ex_start e2e4) /\
  stm (fst (gmake zob_real e2e4 ex_start)) = Black /\
  exists c', exec BoardDef.board N (option N) (gmake zob_real) (gundo zob_real) (gmake_null zob_real) gundo_null
                  ftable (Call "Go" PlyKeep) (eglob0, elocals0) ONormal c'
             /\ (0 < nodes _ _ (fst c'))%Z /\ (0 < stores _ _ (fst c'))%nat.
Proof.
  split; [vm_compute; reflexivity|]. split; [vm_compute; reflexivity|]. split; [vm_compute; tauto|].
  split; [vm_compute; reflexivity|]. split; [vm_compute; reflexivity|].
  (* the conditions of the skeleton are resolved by the oracle, not by the board: the oracle that
     Proofs/SkelExamples.v finds for the list machine drives the engine machine through the same path *)
  pose (seed := match find_run example_fuel (Call "Go" PlyKeep) (cstate0 1000) good_go with Some s => s | None => 0%nat end).
  assert (F : egood (erun example_fuel (Call "Go" PlyKeep) (eglob0, elocals0) (oracle seed)) = true) by (vm_compute; reflexivity).
  destruct (erun example_fuel (Call "Go" PlyKeep) (eglob0, elocals0) (oracle seed)) as [[o c'] orc'] eqn:R.
  unfold egood in F. destruct o; try discriminate F.
  apply andb_true_iff in F as [H1 H2].
  exists c'. split; [exact (run_sound _ _ _ _ _ _ _ _ _ _ _ _ _ _ _ _ _ _ R)|].
  split; [apply Z.ltb_lt, H1|apply Nat.ltb_lt, H2].
Qed.
