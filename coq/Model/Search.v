(* Closed executable model of the whole search: search/search.go (Go, refresh, iterativeDeepen, abort,
   incrementNodes, alphaBeta, nextNodeType, lmr, quiescence, rankMovesQ, getNextMove) and
   stack/stack.go, composed from the component models that are each tied to the Go code by their own
   streams: Model/Board.v (make / undo / null move / threefold / in_check), Model/Movegen.v,
   Model/Mate.v, Model/Eval.v, Model/TT.v, Model/Hist.v, Model/Picker.v (move store + staged picker),
   Model/See.v, Model/Pv.v.  Line-by-line transliteration; definitions only.

   Shape.  The engine state is the record [sstate]; every function is state passing and ALSO threads
   the board: alphaBeta / quiescence receive a board and return the board they leave behind (the Go
   code mutates one board in place and undoes its moves; that the returned board is the input board
   is a THEOREM about this model, Proofs/SearchModelBoard.v, not something the model assumes).
   Recursion is on explicit fuel: one unit per nested call of alphaBeta / quiescence (the search
   depth is at most MaxPlies and a quiescence line captures at most 30 men and promotes at most 16
   pawns), plus a loop counter per move loop.  Running out of fuel is the outcome [OutOfFuel]; a Go
   panic (move store exhausted, history stack overflow, index out of range) is the outcome [Panic].

   Fixed-width arithmetic.  Score = int16 (wrap16), Depth = int8 (wrap8), Gen = byte, int = 64 bit
   (never wraps on the values that occur: counters and small products).  Every Go conversion and
   every arithmetic operation on a Score / Depth is followed by its wrap.

   Limits.  The stop channel is not modelled (opts.Stop = nil), nor are pondering and time: a search
   is limited by WithDepth, WithNodes (hard) and WithSoftNodes.  opts.Counters.Nodes lives in the
   state ([s_nodes]); the caller resets it to model a fresh Counters.  opts.Debug = false.

   [s_trace] / [s_tracing] are a debugging aid without a Go counterpart: a log of the nodes visited at
   ply <= s_tracing.  Nothing reads them (Proofs/SearchModelDet.v proves that no result depends on
   them). *)
From Coq Require Import NArith ZArith List Bool.
From Chess3 Require Import Base.Bits Base.Word Model.Types Model.BoardDef Model.Board.
From Chess3 Require Model.Movegen Model.Mate Model.Eval Model.TT Model.Hist Model.Picker Model.See
  Model.Pv Model.IterDeepen.
From Chess3 Require Gen.Zobrist Gen.Coeffs Gen.SearchParams Gen.HeurConsts.
Import ListNotations.
Open Scope Z_scope.


(* ------------------------------------------------------------------------------------------ *)
(* outcomes *)

Inductive res (A : Type) : Type := Ok (a : A) | Panic | OutOfFuel.
Arguments Ok {A} a.
Arguments Panic {A}.
Arguments OutOfFuel {A}.

Definition bind {A B : Type} (r : res A) (f : A -> res B) : res B :=
  match r with Ok a => f a | Panic => Panic | OutOfFuel => OutOfFuel end.

Notation "'do' x <- e ;; f" := (bind e (fun x => f)) (at level 200, x name, e at level 100, f at level 200, right associativity).
Notation "'do' ' p <- e ;; f" := (bind e (fun x => match x with p => f end))
  (at level 200, p pattern, e at level 100, f at level 200, right associativity).

Definition of_opt {A : Type} (o : option A) : res A := match o with Some a => Ok a | None => Panic end.

Fixpoint map_res {A B : Type} (f : A -> res B) (l : list A) : res (list B) :=
  match l with
  | [] => Ok []
  | x :: r => do y <- f x;; do ys <- map_res f r;; Ok (y :: ys)
  end.

(* ------------------------------------------------------------------------------------------ *)
(* state *)

(* heur.StackMove *)
Record hentry := mkH { h_piece : Z; h_to : Z; h_score : Z }.

Record sstate := mkS {
  s_tt : TT.table;             (* s.tt *)
  s_rk : Hist.ranker;          (* s.ranker *)
  s_ms : Picker.store;         (* s.ms *)
  s_hs : list hentry;          (* s.hstack: data[0 .. sp), top first *)
  s_pv : Pv.pvbuf;             (* s.pv *)
  s_gen : Z;                   (* s.gen (byte) *)
  s_aborted : bool;            (* s.aborted *)
  s_nodes : Z;                 (* opts.Counters.Nodes *)
  s_trace : list Z;            (* debugging log, newest first; no Go counterpart *)
  s_tracing : Z                (* log nodes at ply <= s_tracing *)
}.

Definition set_tt (s : sstate) v := mkS v (s_rk s) (s_ms s) (s_hs s) (s_pv s) (s_gen s) (s_aborted s) (s_nodes s) (s_trace s) (s_tracing s).
Definition set_rk (s : sstate) v := mkS (s_tt s) v (s_ms s) (s_hs s) (s_pv s) (s_gen s) (s_aborted s) (s_nodes s) (s_trace s) (s_tracing s).
Definition set_ms (s : sstate) v := mkS (s_tt s) (s_rk s) v (s_hs s) (s_pv s) (s_gen s) (s_aborted s) (s_nodes s) (s_trace s) (s_tracing s).
Definition set_hs (s : sstate) v := mkS (s_tt s) (s_rk s) (s_ms s) v (s_pv s) (s_gen s) (s_aborted s) (s_nodes s) (s_trace s) (s_tracing s).
Definition set_pv (s : sstate) v := mkS (s_tt s) (s_rk s) (s_ms s) (s_hs s) v (s_gen s) (s_aborted s) (s_nodes s) (s_trace s) (s_tracing s).
Definition set_gen (s : sstate) v := mkS (s_tt s) (s_rk s) (s_ms s) (s_hs s) (s_pv s) v (s_aborted s) (s_nodes s) (s_trace s) (s_tracing s).
Definition set_aborted (s : sstate) v := mkS (s_tt s) (s_rk s) (s_ms s) (s_hs s) (s_pv s) (s_gen s) v (s_nodes s) (s_trace s) (s_tracing s).
Definition set_nodes (s : sstate) v := mkS (s_tt s) (s_rk s) (s_ms s) (s_hs s) (s_pv s) (s_gen s) (s_aborted s) v (s_trace s) (s_tracing s).
Definition set_trace (s : sstate) v := mkS (s_tt s) (s_rk s) (s_ms s) (s_hs s) (s_pv s) (s_gen s) (s_aborted s) (s_nodes s) v (s_tracing s).
Definition set_tracing (s : sstate) v := mkS (s_tt s) (s_rk s) (s_ms s) (s_hs s) (s_pv s) (s_gen s) (s_aborted s) (s_nodes s) (s_trace s) v.

(* search.Options as far as it is modelled *)
Record opts := mkO {
  o_nodes : Z;      (* Nodes: hard limit, -1 = none *)
  o_soft : Z;       (* SoftNodes: <= 0 = none *)
  o_depth : Z       (* Depth (int8) *)
}.

Definition zob : zobrist := Zobrist.zob_real.
Definition zN (n : N) : Z := Z.of_N n.

(* debugging log *)
Definition trace (s : sstate) (ply : Z) (ev : list Z) : sstate :=
  if ply <=? s_tracing s then set_trace s (rev_append ev (s_trace s)) else s.

(* ------------------------------------------------------------------------------------------ *)
(* stack.Stack[heur.StackMove] *)

Definition hs_top (hs : list hentry) (n : nat) : option hentry := nth_error hs n.

(* Push: panic("overflow") when sp >= MaxPlies *)
Definition hs_push (hs : list hentry) (e : hentry) : res (list hentry) :=
  if Z.of_nat (length hs) <? SearchParams.MaxPlies then Ok (e :: hs) else Panic.

(* Pop: panic("underflow") when sp <= 0 *)
Definition hs_pop (hs : list hentry) : res (list hentry) :=
  match hs with [] => Panic | _ :: t => Ok t end.

(* Top(n) as the heuristics see it: (Piece, To) *)
Definition hs_stack_top (hs : list hentry) (n : nat) : Hist.stack_top :=
  match hs_top hs n with Some e => Some (h_piece e, h_to e) | None => None end.

(* ------------------------------------------------------------------------------------------ *)
(* search.go:148-170  abort (opts.Stop = nil), incrementNodes (opts.PonderHit = nil) *)

Definition inc_nodes (o : opts) (s : sstate) : sstate :=
  let '(n, a) := IterDeepen.increment_nodes (o_nodes o) (s_nodes s) (s_aborted s) in
  set_nodes (set_aborted s a) n.

(* ------------------------------------------------------------------------------------------ *)
(* Score arithmetic *)

Definition neg16 (x : Z) : Z := wrap16 (- x).
Definition add16 (x y : Z) : Z := wrap16 (x + y).
Definition sub16 (x y : Z) : Z := wrap16 (x - y).

(* heur.PieceValues[p]: an index outside the array is a Go panic *)
Definition piece_value (p : N) : res Z :=
  if (zN p <? Z.of_nat (length SearchParams.PieceValues)) then Ok (nth (N.to_nat p) SearchParams.PieceValues 0) else Panic.

(* ------------------------------------------------------------------------------------------ *)
(* the transposition table probe shared by alphaBeta and quiescence:
     tpVal := transpE.Value(ply); switch transpE.Type() { Exact: return; LowerBound: if tpVal >= beta ...;
     UpperBound: if tpVal <= alpha ... } *)
Definition tt_cut (e : TT.entry) (ply alpha beta : Z) : option Z :=
  let tpVal := TT.entry_value e ply in
  if TT.e_type e =? SearchParams.Exact then Some tpVal
  else if TT.e_type e =? SearchParams.LowerBound then (if beta <=? tpVal then Some tpVal else None)
  else if TT.e_type e =? SearchParams.UpperBound then (if tpVal <=? alpha then Some tpVal else None)
  else None.

Definition tt_insert (s : sstate) (b : board) (d ply sm value typ : Z) : sstate :=
  set_tt s (TT.insert (s_tt s) (zN (cur_hash b)) (s_gen s) d ply sm value typ).

(* ------------------------------------------------------------------------------------------ *)
(* MoveRanker.RankNoisy / RankQuiet on a board (heur/heur.go:67-121) *)

Definition rank_noisy_b (rk : Hist.ranker) (b : board) (m : N) : res Z :=
  let promo := mv_promo m in
  let attacker := piece_at b (mv_from m) in
  let victim := piece_at b (capture_sq b m) in
  do captHist <- (if (victim =? NoPiece)%N then Ok 0
                  else of_opt (Hist.capthist_get rk (zN attacker) (zN victim) (zN (mv_to m))));;
  if See.see_panics m then Panic else
  let good := See.see b m (Z.min 0 (neg16 captHist)) in
  Ok (Hist.rank_noisy (zN promo) (zN attacker) (zN victim) good).

Definition rank_quiet_b (rk : Hist.ranker) (hs : list hentry) (b : board) (m : N) : res Z :=
  of_opt (Hist.rank_quiet rk (zN (cix (stm b))) (zN m) (zN (piece_at b (mv_from m)))
                          (hs_stack_top hs 0) (hs_stack_top hs 1)).

Definition ranked (f : N -> res Z) (ms : list N) : res (list Picker.wmove) :=
  map_res (fun m => do w <- f m;; Ok (zN m, w)) ms.

(* ------------------------------------------------------------------------------------------ *)
(* one call of Picker.Next on the real position.  The picker model (Model/Picker.v) is abstract in
   an environment (answer of IsPseudoLegal, the generated moves with their ranks); the Go picker
   computes those lazily, at the moment a stage is entered, from the board, the ranker and the
   history stack AS THEY ARE THEN.  All stages entered during one call see the same board / ranker /
   stack, so the environment of this call is computed from the current state, and only the parts
   the call can reach are computed: the quiet moves only when the call falls through to genQuiet
   (detected by running the step with an empty quiet list first: it ends in state YieldRest). *)

Definition is_yield_rest (st : Picker.pstate) : bool :=
  match st with Picker.YieldRest => true | _ => false end.

Definition mk_env (ipl : bool) (noisy quiet : list Picker.wmove) : Picker.env :=
  {| Picker.e_ipl := ipl; Picker.e_noisy := noisy; Picker.e_quiet := quiet |}.

Definition pnext_quiet (rk : Hist.ranker) (hs : list hentry) (b : board) (p : Picker.picker)
    (ipl : bool) (noisy : list Picker.wmove) : res (bool * Picker.picker) :=
  do '(more, p1) <- of_opt (Picker.next (mk_env ipl noisy []) p);;
  if is_yield_rest (Picker.p_state p1) then
    do quiet <- ranked (rank_quiet_b rk hs b) (Movegen.gen_quiet b);;
    of_opt (Picker.next (mk_env ipl noisy quiet) p)
  else Ok (more, p1).

Definition pnext_noisy (rk : Hist.ranker) (hs : list hentry) (b : board) (p : Picker.picker) (ipl : bool)
    : res (bool * Picker.picker) :=
  do noisy <- ranked (rank_noisy_b rk b) (Movegen.gen_noisy b);;
  pnext_quiet rk hs b p ipl noisy.

Definition pnext (rk : Hist.ranker) (hs : list hentry) (b : board) (p : Picker.picker) : res (bool * Picker.picker) :=
  match Picker.p_state p with
  | Picker.YieldRest => of_opt (Picker.next (mk_env false [] []) p)
  | Picker.PickHash =>
      if Movegen.is_pseudo_legal b (Z.to_N (Picker.p_hash p))
      then of_opt (Picker.next (mk_env true [] []) p)
      else pnext_noisy rk hs b p false
  | Picker.GenNoisy => pnext_noisy rk hs b p false
  | Picker.YieldGoodNoisy => pnext_quiet rk hs b p false []
  | Picker.GenQuiet => pnext_quiet rk hs b p false []
  end.

Definition p_with_store (p : Picker.picker) (s : Picker.store) : Picker.picker :=
  {| Picker.p_store := s; Picker.p_ix := Picker.p_ix p; Picker.p_hash := Picker.p_hash p; Picker.p_state := Picker.p_state p |}.

(* pck.YieldedMoves(): Frame()[:ix] *)
Definition yielded (p : Picker.picker) : list Picker.wmove :=
  firstn (Picker.p_ix p) (Picker.store_frame (Picker.p_store p)).

(* the arguments MoveRanker.FailHigh reads from the board for one yielded move *)
Definition fh_of (b : board) (mw : Picker.wmove) : Hist.fh_move :=
  let m := Z.to_N (fst mw) in
  {| Hist.fm_move := fst mw; Hist.fm_moved := zN (piece_at b (mv_from m));
     Hist.fm_captured := zN (piece_at b (capture_sq b m)); Hist.fm_weight := snd mw |}.

(* ------------------------------------------------------------------------------------------ *)
(* search.go:417-479  nextNodeType, lmr *)

Definition next_node_type (nType cnt : Z) : Z :=
  if nType =? SearchParams.PVNode then (if cnt =? 1 then SearchParams.PVNode else SearchParams.CutNode)
  else if nType =? SearchParams.CutNode then (if cnt =? 1 then SearchParams.AllNode else SearchParams.CutNode)
  else SearchParams.CutNode.

(* log[i]: an index outside the table is a Go panic; d is 1..64 and the second index is clamped *)
Definition log_at (i : Z) : res Z :=
  if (0 <=? i) && (i <? SearchParams.LogLen) then Ok (nth (Z.to_nat i) SearchParams.LogTable 0) else Panic.

Definition lmr (d mCount : Z) (improving : bool) (nType : Z) : res Z :=
  do l1 <- log_at d;;
  do l2 <- log_at (Z.min mCount (SearchParams.LogLen - 1));;
  let value := Z.shiftr (l1 * l2) 14 in
  let value := if negb (nType =? SearchParams.PVNode) then value + 1 else value in
  let value := if negb improving then value + 1 else value in
  Ok (clamp (wrap8 (wrap8 (d - 1) - wrap8 value)) 0 (wrap8 (d - 1))).

(* ------------------------------------------------------------------------------------------ *)
(* search.go:481-607  quiescence *)

(* staticEvaluation (search.go, /repo 73ba4a5): the evaluation kept strictly inside the non-mate score
   range; Clamp(x, a, b) = min(b, max(x, a)) on constants that fit int16 *)
Definition static_evaluation (b : board) : Z :=
  clamp (Eval.eval_Z Coeffs.Coefficients b)
        (- SearchParams.Inf + SearchParams.MaxPlies + 1) (SearchParams.Inf - SearchParams.MaxPlies - 1).

Definition rt := (Z * sstate * board)%type.   (* value, state, board left behind *)

Section Quiescence.
  Variable o : opts.
  (* the recursive call s.quiescence(b, alpha, beta, ply, opts) one level down *)
  Variable qchild : sstate -> board -> Z -> Z -> Z -> res rt.

  (* the move loop: `for m, ix := getNextMove(moves, -1); m != nil; m, ix = getNextMove(moves, ix)`;
     nx = ix + 1 is the slot the next selected move is swapped into.  `fin` is what follows the loop *)
  Fixpoint qs_loop (n : nat) (st : sstate) (b : board) (moves : list Picker.wmove) (nx : nat)
      (alpha beta maxim delta ply : Z) : res rt :=
    let fin (st : sstate) (b : board) : res rt :=
      Ok (maxim, tt_insert st b 0 ply 0 maxim SearchParams.UpperBound, b) in
    match n with
    | O => OutOfFuel
    | S n' =>
      (* getNextMove: maxim := -Inf - 1; first strictly largest weight among moves[ix+1:] *)
      match Picker.scan (skipn nx moves) nx (wrap16 (- SearchParams.Inf - 1)) None with
      | None => fin st b
      | Some best =>
        let moves := Picker.swap moves nx best in
        let st := set_ms st (Picker.store_write_frame (s_ms st) moves) in
        let mw := nth nx moves (0, 0) in
        if snd mw <? 0 then fin st b else
        let m := Z.to_N (fst mw) in
        let captured := piece_at b (capture_sq b m) in
        let '(b1, r) := make zob b m in
        if in_check b1 (flip (stm b1)) then
          qs_loop n' st (undo zob b1 m r) moves (S nx) alpha beta maxim delta ply
        else
          do gain0 <- piece_value captured;;
          do gain <- (if negb (mv_promo m =? NoPiece)%N then
                        do pv <- piece_value (mv_promo m);; do pp <- piece_value Pawn;;
                        Ok (add16 gain0 (sub16 pv pp))
                      else Ok gain0);;
          if add16 gain delta <? alpha then fin st (undo zob b1 m r)
          else
            do '(v, st1, b2) <- qchild st b1 (neg16 beta) (neg16 alpha) (wrap8 (ply + 1));;
            let curr := neg16 v in
            let b3 := undo zob b2 m r in
            if s_aborted st1 then Ok (SearchParams.Inv, st1, b3)
            else if beta <=? curr then
              Ok (curr, tt_insert st1 b3 0 ply (fst mw) curr SearchParams.LowerBound, b3)
            else
              qs_loop n' st1 b3 moves (S nx) (Z.max alpha curr) beta (Z.max maxim curr) delta ply
      end
    end.

  (* everything after `s.ms.Push(); defer s.ms.Pop()` *)
  Definition qs_pushed (st : sstate) (b : board) (alpha beta ply standPat : Z) : res rt :=
    let gen := Movegen.gen_noisy b in
    do ms1 <- of_opt (Picker.store_alloc_all (s_ms st) (map zN gen));;
    let delta := add16 standPat (wrap16 SearchParams.StandPatDelta) in
    let maxim := standPat in
    let alpha := Z.max alpha standPat in
    (* rankMovesQ *)
    do moves <- ranked (rank_noisy_b (s_rk st) b) gen;;
    let st := set_ms st (Picker.store_write_frame ms1 moves) in
    qs_loop (S (length moves)) st b moves O alpha beta maxim delta ply.

  Definition qs_body (st : sstate) (b : board) (alpha beta ply : Z) : res rt :=
    let st := inc_nodes o st in
    let st := trace st ply [3; ply; alpha; beta; s_nodes st] in
    if s_aborted st then Ok (SearchParams.Inv, st, b) else
    if (100 <=? fifty b) || (3 <=? threefold b) then Ok (0, st, b) else
    match (match TT.lookup (s_tt st) (zN (cur_hash b)) with
           | Some e => tt_cut e ply alpha beta
           | None => None end) with
    | Some v => Ok (v, st, b)
    | None =>
      let inCheck := in_check b (stm b) in
      if (if inCheck then Mate.is_checkmate b else false) then Ok (add16 (- SearchParams.Inf) (wrap16 ply), st, b) else
      if (if inCheck then false else Mate.is_stalemate b) then Ok (0, st, b) else
      let standPat := static_evaluation b in
      if negb inCheck && (beta <=? standPat) then Ok (standPat, st, b) else
      let st := set_ms st (Picker.store_push (s_ms st)) in
      do '(v, st1, b1) <- qs_pushed st b alpha beta ply standPat;;
      Ok (v, set_ms st1 (Picker.store_pop (s_ms st1)), b1)
    end.
End Quiescence.

Fixpoint quiescence (fuel : nat) (o : opts) (st : sstate) (b : board) (alpha beta ply : Z) : res rt :=
  match fuel with
  | O => OutOfFuel
  | S f => qs_body o (quiescence f o) st b alpha beta ply
  end.

(* ------------------------------------------------------------------------------------------ *)
(* search.go:187-415  alphaBeta *)

Section AlphaBeta.
  Variable o : opts.
  (* s.alphaBeta(b, alpha, beta, d, ply, nType, opts) and s.quiescence(b, alpha, beta, ply, opts) one level down *)
  Variable child : sstate -> board -> Z -> Z -> Z -> Z -> Z -> res rt.
  Variable qs : sstate -> board -> Z -> Z -> Z -> res rt.

  (* value = -s.alphaBeta(b, -hi, -lo, d, ply+1, next, opts) *)
  Definition negamax (st : sstate) (b : board) (lo hi d ply next : Z) : res rt :=
    do '(v, st1, b1) <- child st b (neg16 hi) (neg16 lo) d (wrap8 (ply + 1)) next;;
    Ok (neg16 v, st1, b1).

  (* the searches of one move: late move reduction, null window, full window (search.go:305-335).
     alpha1 = alpha + 1 as the Go code computes -alpha-1 = -(alpha) - 1 on int16 *)
  Definition search_move (st : sstate) (b1 : board) (alpha beta d ply nType next moveCnt quietCnt : Z)
      (inCheck improving : bool) : res rt :=
    let d1 := wrap8 (d - 1) in
    let full (st : sstate) (b : board) : res rt :=
      do '(v, st1, b2) <- child st b (neg16 beta) (neg16 alpha) d1 (wrap8 (ply + 1)) next;;
      Ok (neg16 v, st1, b2) in
    let null_window (st : sstate) (b : board) (dd : Z) : res rt :=
      do '(v, st1, b2) <- child st b (sub16 (neg16 alpha) 1) (neg16 alpha) dd (wrap8 (ply + 1)) next;;
      Ok (neg16 v, st1, b2) in
    if (1 <? d) && (SearchParams.LMRStart <? quietCnt) && negb inCheck then
      do rd <- lmr d (moveCnt - 1) improving nType;;
      do '(value, st, b1) <- (if rd <? d1 then null_window st b1 rd else Ok (0, st, b1));;
      if value <=? alpha then Ok (value, st, b1) else
      do '(value, st, b1) <- null_window st b1 d1;;
      if value <=? alpha then Ok (value, st, b1) else
      if beta =? add16 alpha 1 then Ok (value, st, b1) else
      full st b1
    else full st b1.

  (* what follows the move loop (search.go:391-414) *)
  Definition ab_finish (st : sstate) (b : board) (d ply maxim best : Z) (inCheck hasLegal failLow : bool) : res rt :=
    let maxim := if hasLegal then maxim else (if inCheck then add16 (- SearchParams.Inf) (wrap16 ply) else 0) in
    let failLow := if hasLegal then failLow else false in
    let st := if failLow then tt_insert st b d ply 0 maxim SearchParams.UpperBound
              else tt_insert st b d ply best maxim SearchParams.Exact in
    Ok (maxim, st, b).

  (* `for pck.Next() { ... }` (search.go:273-389); the picker's store is s.ms, kept in the state *)
  Fixpoint ab_loop (n : nat) (st : sstate) (b : board) (p : Picker.picker)
      (alpha beta d ply nType staticEval maxim best : Z) (inCheck improving hasLegal failLow : bool)
      (moveCnt quietCnt : Z) : res rt :=
    match n with
    | O => OutOfFuel
    | S n' =>
      do '(more, p1) <- pnext (s_rk st) (s_hs st) b (p_with_store p (s_ms st));;
      let st := set_ms st (Picker.p_store p1) in
      if negb more then ab_finish st b d ply maxim best inCheck hasLegal failLow else
      let mw := Picker.current p1 in
      let m := Z.to_N (fst mw) in
      let moved := piece_at b (mv_from m) in
      let captured := piece_at b (capture_sq b m) in
      let '(b1, r) := make zob b m in
      if in_check b1 (flip (stm b1)) then
        ab_loop n' st (undo zob b1 m r) p1 alpha beta d ply nType staticEval maxim best inCheck improving
                hasLegal failLow moveCnt quietCnt
      else
        let hasLegal := true in
        let moveCnt := moveCnt + 1 in
        do hs1 <- hs_push (s_hs st) (mkH (zN moved) (zN (mv_to m)) staticEval);;
        let st := set_hs st hs1 in
        let quiet := (captured =? NoPiece)%N && (mv_promo m =? NoPiece)%N in
        let quietCnt := if quiet then quietCnt + 1 else quietCnt in
        let next := next_node_type nType moveCnt in
        do '(value, st, b2) <- search_move st b1 alpha beta d ply nType next moveCnt quietCnt inCheck improving;;
        (* Fin: *)
        let b3 := undo zob b2 m r in
        do hs2 <- hs_pop (s_hs st);;
        let st := set_hs st hs2 in
        let st := trace st ply [2; ply; fst mw; value; s_nodes st] in
        let maxim := if maxim <? value then value else maxim in
        if s_aborted st then Ok (SearchParams.Inv, st, b3) else
        if alpha <? value then
          if beta <=? value then
            (* store node as fail high (cut-node) *)
            let st := tt_insert st b3 d ply (fst mw) value SearchParams.LowerBound in
            let p2 := p_with_store p1 (s_ms st) in
            do rk <- of_opt (Hist.fail_high d (zN (cix (stm b3))) (hs_stack_top (s_hs st) 0) (hs_stack_top (s_hs st) 1)
                                            (map (fh_of b3) (yielded p2)) (s_rk st));;
            Ok (value, set_rk st rk, b3)
          else
            (* value > alpha: w.Weight = value; s.pv.insert(ply, m) *)
            let p2 := Picker.poke (p_with_store p1 (s_ms st)) (Some value) in
            let st := set_ms st (Picker.p_store p2) in
            do pv1 <- of_opt (Pv.insert (s_pv st) ply (fst mw));;
            let st := set_pv st pv1 in
            let alpha := value in
            (* LMP *)
            let quietLimit := if improving then d * d else Z.quot (d * d) 2 in
            if negb inCheck && (add16 alpha 1 =? beta) && (1 + quietLimit <? quietCnt)
            then ab_finish st b3 d ply maxim (fst mw) inCheck hasLegal false
            else ab_loop n' st b3 p2 alpha beta d ply nType staticEval maxim (fst mw) inCheck improving
                         hasLegal false moveCnt quietCnt
        else
          (* upbound move: w.Weight = -Inf *)
          let p2 := Picker.poke (p_with_store p1 (s_ms st)) (Some (wrap16 (- SearchParams.Inf))) in
          let st := set_ms st (Picker.p_store p2) in
          let quietLimit := if improving then d * d else Z.quot (d * d) 2 in
          if negb inCheck && (add16 alpha 1 =? beta) && (1 + quietLimit <? quietCnt)
          then ab_finish st b3 d ply maxim best inCheck hasLegal failLow
          else ab_loop n' st b3 p2 alpha beta d ply nType staticEval maxim best inCheck improving
                       hasLegal failLow moveCnt quietCnt
    end.

  (* outcome of the static pruning block (search.go:222-265) *)
  Inductive early := Ret (v : Z) | GoOn (staticEval : Z) (improving : bool).

  Definition ab_static (st : sstate) (b : board) (beta d ply : Z) (inCheck : bool) : res (early * sstate * board) :=
    if inCheck then Ok (GoOn SearchParams.Inv false, st, b) else
    let staticEval := static_evaluation b in
    let top3 := match hs_top (s_hs st) 3 with Some old => h_score old | None => SearchParams.Inv end in
    let oldScore := match hs_top (s_hs st) 1 with
                    | Some old => if negb (h_score old =? SearchParams.Inv) then h_score old else top3
                    | None => top3
                    end in
    let improving := oldScore <? staticEval in
    (* RFP *)
    if (d <? wrap8 SearchParams.RFPDepthLimit) &&
       (add16 beta (wrap16 (wrap16 d * wrap16 SearchParams.RFPScoreFactor)) <=? staticEval) &&
       (add16 (- SearchParams.Inf) SearchParams.MaxPlies <? beta)
    then Ok (Ret staticEval, st, b) else
    (* null move pruning *)
    if (wrap8 SearchParams.NMPDepthLimit <? d) && (beta <=? staticEval) &&
       negb (band (colors b (stm b)) (bnot (bor (pieces b Pawn) (pieces b King))) =? 0)%N
    then
      let '(b1, rev) := make_null zob b in
      let red := wrap8 (wrap8 SearchParams.NMPInit +
                        wrap8 (clamp (Z.quot (sub16 staticEval beta) (wrap16 SearchParams.NMPDiffFactor)) 0 SearchParams.MaxPlies)) in
      do '(v, st1, b2) <- child st b1 (neg16 beta) (add16 (neg16 beta) 1) (Z.max (wrap8 (d - red)) 0)
                                (wrap8 (ply + 1)) SearchParams.CutNode;;
      let value := neg16 v in
      let b3 := undo_null b2 rev in
      if beta <=? value then
        if sub16 SearchParams.Inf SearchParams.MaxPlies <=? value then Ok (Ret beta, st1, b3) else Ok (Ret value, st1, b3)
      else Ok (GoOn staticEval improving, st1, b3)
    else Ok (GoOn staticEval improving, st, b).

  Definition ab_body (st : sstate) (b : board) (alpha beta d ply nType : Z) : res rt :=
    do pv1 <- of_opt (Pv.set_null (s_pv st) ply);;
    let st := set_pv st pv1 in
    if (d =? 0) || (SearchParams.MaxPlies - 1 <=? ply) then qs st b alpha beta ply else
    let st := inc_nodes o st in
    let st := trace st ply [1; ply; d; alpha; beta; nType; s_nodes st] in
    if s_aborted st then Ok (SearchParams.Inv, st, b) else
    let tfCnt := threefold b in
    if (100 <=? fifty b) || (wrap8 (3 - Z.min ply 1) <=? tfCnt) then Ok (0, st, b) else
    let look := TT.lookup (s_tt st) (zN (cur_hash b)) in
    let hashMove := match look with Some e => TT.e_move e | None => 0 end in
    match (match look with
           | Some e => if negb (nType =? SearchParams.PVNode) && (d <=? TT.e_depth e) then tt_cut e ply alpha beta else None
           | None => None end) with
    | Some v => Ok (v, st, b)
    | None =>
      let inCheck := in_check b (stm b) in
      do '(e, st, b) <- ab_static st b beta d ply inCheck;;
      match e with
      | Ret v => Ok (v, st, b)
      | GoOn staticEval improving =>
        let p := Picker.picker_new (s_ms st) hashMove in
        let st := set_ms st (Picker.store_push (s_ms st)) in
        (* iir *)
        let d := if negb (nType =? SearchParams.AllNode) && (wrap8 SearchParams.IIRDepthLimit <? d) && (hashMove =? 0)
                 then wrap8 (d - 1) else d in
        do '(v, st1, b1) <- ab_loop 400 st b p alpha beta d ply nType staticEval (wrap16 (- SearchParams.Inf - 1)) 0
                                    inCheck improving false true 0 0;;
        Ok (v, set_ms st1 (Picker.store_pop (s_ms st1)), b1)
      end
    end.
End AlphaBeta.

Fixpoint alphaBeta (fuel : nat) (o : opts) (st : sstate) (b : board) (alpha beta d ply nType : Z) : res rt :=
  match fuel with
  | O => OutOfFuel
  | S f => ab_body o (alphaBeta f o) (quiescence f o) st b alpha beta d ply nType
  end.

(* enough for every search: at most MaxPlies nested alphaBeta calls, then quiescence lines *)
Definition search_fuel : nat := 200.

(* ------------------------------------------------------------------------------------------ *)
(* search.go:43-145  iterativeDeepen, with the engine state and the board threaded through
   (Model/IterDeepen.v is the same decision logic over an abstract oracle; Proofs/SearchModelId.v
   relates the two) *)

Inductive report :=
| RLine (depth score nodes hashfull : Z) (pv : list Z)
| RAbort (depth nodes : Z).

Record result := mkR { r_score : Z; r_move : Z; r_ponder : Z; r_reports : list report }.

(* Table.HashFull(gen): panics below 1000 buckets *)
Definition lane_used (keys i : Z) : bool :=
  negb (Z.land (Z.shiftr keys (i * TTConsts.partialKeyBits)) TT.lane_mask =? 0).

Definition bucket_full (gen : Z) (bk : TT.bucket) : Z :=
  let fix go (es : list TT.entry) (i : Z) : Z :=
    match es with
    | [] => 0
    | e :: r => (if lane_used (TT.b_keys bk) i && (TT.e_gen e =? gen) then 1 else 0) + go r (i + 1)
    end in go (TT.b_entries bk) 0.

Definition hashfull (t : TT.table) (gen : Z) : res Z :=
  if Z.of_nat (length t) <? 1000 then Panic
  else Ok (Z.quot (fold_left (fun acc bk => acc + bucket_full gen bk) (firstn 1000 t) 0) 4).

(* search.go:86-102: the first generated move that is legal, else the null move; the board is made
   and unmade move by move *)
Fixpoint first_legal (b : board) (ms : list N) : Z * board :=
  match ms with
  | [] => (0, b)
  | m :: r =>
      let '(b1, t) := make zob b m in
      if negb (in_check b1 (flip (stm b1))) then (zN m, undo zob b1 m t)
      else first_legal (undo zob b1 m t) r
  end.

Definition fallback (st : sstate) (b : board) : res (Z * sstate * board) :=
  let ms0 := Picker.store_push (s_ms st) in
  do ms1 <- of_opt (Picker.store_alloc_all ms0 (map zN (Movegen.gen_noisy b)));;
  do ms2 <- of_opt (Picker.store_alloc_all ms1 (map zN (Movegen.gen_quiet b)));;
  let '(mv, b1) := first_legal b (map (fun mw => Z.to_N (fst mw)) (Picker.store_frame ms2)) in
  Ok (mv, set_ms st (Picker.store_pop ms2), b1).

Inductive asp :=
| AspOk (score : Z) (st : sstate) (b : board)
| AspAbort (st : sstate) (b : board).

Section Deepen.
  Variable fuel : nat.
  Variable o : opts.

  (* search.go:56-74: the aspiration loop of one iteration *)
  Fixpoint aspire (n : nat) (st : sstate) (b : board) (alpha beta factor d : Z) : res asp :=
    match n with
    | O => OutOfFuel
    | S n' =>
        do '(s, st1, b1) <- alphaBeta fuel o st b alpha beta d 0 SearchParams.PVNode;;
        if s_aborted st1 then Ok (AspAbort st1 b1) else
        if s <=? alpha then
          aspire n' st1 b1 (sub16 alpha (wrap16 (factor * wrap16 SearchParams.WindowSize))) beta (wrap16 (factor * 2)) d
        else if beta <=? s then
          aspire n' st1 b1 alpha (add16 beta (wrap16 (factor * wrap16 SearchParams.WindowSize))) (wrap16 (factor * 2)) d
        else Ok (AspOk s st1 b1)
    end.

  Definition soft_abort (nodes : Z) : bool := (0 <? o_soft o) && (o_soft o <? nodes).

  Fixpoint deepen (todo : nat) (st : sstate) (b : board) (d alpha beta sc mv pd : Z) (reps : list report)
      : res (result * sstate * board) :=
    match todo with
    | O => Ok (mkR sc mv pd (rev reps), st, b)
    | S todo' =>
        if negb ((d <? SearchParams.MaxPlies) && (d <=? o_depth o)) then Ok (mkR sc mv pd (rev reps), st, b) else
        do a <- aspire 64 st b alpha beta 1 d;;
        match a with
        | AspAbort st1 b1 =>
            let reps := RAbort d (s_nodes st1) :: reps in
            if mv =? 0 then
              do '(mv1, st2, b2) <- fallback st1 b1;;
              Ok (mkR sc mv1 0 (rev reps), st2, b2)
            else Ok (mkR sc mv pd (rev reps), st1, b1)
        | AspOk s st1 b1 =>
            let pv := Pv.active (s_pv st1) in
            let '(mv1, pd1) := IterDeepen.adopt pv mv pd in
            do hf <- hashfull (s_tt st1) (s_gen st1);;
            let reps := RLine d s (s_nodes st1) hf pv :: reps in
            if negb (mv1 =? 0) && soft_abort (s_nodes st1) then Ok (mkR s mv1 pd1 (rev reps), st1, b1)
            else deepen todo' st1 b1 (d + 1) (sub16 s (wrap16 SearchParams.WindowSize)) (add16 s (wrap16 SearchParams.WindowSize))
                        s mv1 pd1 reps
        end
    end.

  Definition iterative_deepen (st : sstate) (b : board) : res (result * sstate * board) :=
    deepen (Z.to_nat SearchParams.MaxPlies) st b 0 (wrap16 (- SearchParams.Inf - 1)) (wrap16 (SearchParams.Inf + 1)) 0 0 0 [].
End Deepen.

(* search.go:20-38, state.go:45-49  Go, refresh.  `defer s.gen++` on a byte. *)
Definition refresh (s : sstate) : sstate :=
  set_aborted (set_hs (set_ms s Picker.store_new) []) false.

Definition go (fuel : nat) (o : opts) (s : sstate) (b : board) : res (result * sstate * board) :=
  let s := refresh s in
  do '(r, s1, b1) <- iterative_deepen fuel o s b;;
  Ok (r, set_gen s1 (Z.land (s_gen s1 + 1) 255), b1).

(* search.New(size) *)
Definition new_state (size : Z) : res sstate :=
  do t <- of_opt (TT.tt_new size);;
  Ok (mkS t Hist.ranker_new Picker.store_new [] Pv.new_pv 0 false 0 [] (-1)).

(* Search.Clear *)
Definition clear_state (s : sstate) : sstate :=
  set_rk (set_tt (set_gen s 0) (TT.tt_clear (s_tt s))) Hist.ranker_new.
