(* C12 - Attack tables equal ray-walking geometry for every square and occupancy.
   Statements only; proofs live in Proofs/Attacks*.v.

   Engine side (Model/Attacks.v, Model/Att.v): the magic-bitboard lookup
   table[((occ & mask) * magic) >> (64 - shift)] on the table that the model of init() filled with the
   code's own reference walkers; the king/knight tables; the pawn shift formulas; the InBetween table
   as the four nested loops fill it.  Masks, magics, shifts, the king and knight tables and the array
   sizes come from Gen/AttackTables.v, regenerated from attacks/tables.go on every run.
   Geometric side (Spec/Geometry.v): rays walked square by square up to and including the first
   occupied square; leapers as on-board offsets; the squares strictly between two aligned squares.

   The slider theorems hold for EVERY occupancy (any N, in particular all 2^64 bitboards): a vm_compute
   sweep over every subset of every relevant-occupancy mask (102 400 rook and 5 248 bishop subsets,
   enumerated by bit deposit, Proofs/AttacksSweepR*.v / B*.v), the theorem that every occ & mask is such
   a subset (Base/BitsLemmas.v, pdep_pext / pext_lt), and the theorem that squares outside the mask
   never influence a ray walk (Proofs/AttacksSliders.v, walk_mask + 64 x 4 rays checked). *)
From Coq Require Import NArith ZArith List Bool.
From Chess3 Require Import Base.Bits Model.Types Spec.Geometry Gen.AttackTables Model.Att Model.Attacks
  Proofs.AttacksSliders Proofs.AttacksSweep Proofs.AttacksSmall Proofs.AttacksCalc.
Open Scope N_scope.

(* ---- sliders ---- *)
Theorem C12_rook : forall sq occ, sq < 64 -> engine_rook_moves sq occ = rook_attacks sq occ.
Proof. exact rook_moves_correct. Qed.
Print Assumptions C12_rook.

Theorem C12_bishop : forall sq occ, sq < 64 -> engine_bishop_moves sq occ = bishop_attacks sq occ.
Proof. exact bishop_moves_correct. Qed.
Print Assumptions C12_bishop.

(* squares outside the relevant-occupancy mask never influence the geometric result *)
Theorem C12_mask_irrelevant : forall sq occ, sq < 64 ->
  rook_attacks sq (N.land occ (rook_mask sq)) = rook_attacks sq occ /\
  bishop_attacks sq (N.land occ (bishop_mask sq)) = bishop_attacks sq occ.
Proof. intros sq occ H. split; [exact (rook_mask_irrelevant sq occ H) | exact (bishop_mask_irrelevant sq occ H)]. Qed.
Print Assumptions C12_mask_irrelevant.

(* the lookups stay inside the Go arrays rookAttacks[sq][..4096] / bishopAttacks[sq][..512] *)
Theorem C12_index_in_range : forall sq occ, sq < 64 ->
  rook_index sq occ < rook_table_size /\ bishop_index sq occ < bishop_table_size.
Proof. intros sq occ H. split; [exact (rook_index_in_range sq occ H) | exact (bishop_index_in_range sq occ H)]. Qed.
Print Assumptions C12_index_in_range.

(* the init loops of the model end through the code's own break (carry-rippler back at the full
   mask) after exactly 2^popcount(mask) rounds, and the bounded loops of the reference walkers and of
   initInBetween never run out of fuel: the fuel of the model is not what stops them *)
Theorem C12_init_terminates : forall sq, sq < 64 ->
  snd (fill calc_rook_attacks rook_masks rook_magics rook_shifts sq) = true /\
  snd (fill calc_bishop_attacks bishop_masks bishop_magics bishop_shifts sq) = true.
Proof. intros sq H. split; [exact (rook_init_terminates sq H) | exact (bishop_init_terminates sq H)]. Qed.
Print Assumptions C12_init_terminates.

Theorem C12_walkers_fuel : forall k sq occ, sq < 64 ->
  calc_rook_attacks_fuel (8 + k) sq occ = calc_rook_attacks sq occ /\
  calc_bishop_attacks_fuel (8 + k) sq occ = calc_bishop_attacks sq occ.
Proof. exact calc_fuel_enough. Qed.
Print Assumptions C12_walkers_fuel.

Theorem C12_between_fuel : forall k fa ra fb rb,
  (0 <= fa <= 7 -> 0 <= ra <= 7 -> 0 <= fb <= 7 -> 0 <= rb <= 7 ->
   in_between_cell_fuel (8 + k) fa ra fb rb = in_between_cell fa ra fb rb)%Z.
Proof. exact in_between_cell_fuel_enough. Qed.
Print Assumptions C12_between_fuel.

(* ---- leapers ---- *)
Theorem C12_king : forall sq, sq < 64 -> engine_king_moves sq = king_attacks sq.
Proof. exact king_moves_correct. Qed.
Print Assumptions C12_king.

Theorem C12_knight : forall sq, sq < 64 -> engine_knight_moves sq = knight_attacks sq.
Proof. exact knight_moves_correct. Qed.
Print Assumptions C12_knight.

(* ---- pawns: for every set of pawns and both colours ---- *)
Theorem C12_pawn : forall b c, b < two64 ->
  pawn_capture_moves b c = pawn_attacks_set c b /\ pawn_single_push_moves b c = pawn_push1_set c b.
Proof. intros b c H. split; [exact (pawn_capture_correct b c H) | exact (pawn_push_correct b c H)]. Qed.
Print Assumptions C12_pawn.

Theorem C12_pawn_square : forall sq c, sq < 64 ->
  pawn_capture_moves (bit sq) c = pawn_attacks c sq /\ pawn_single_push_moves (bit sq) c = pawn_push1 c sq.
Proof. exact pawn_single. Qed.
Print Assumptions C12_pawn_square.

Theorem C12_pawn_union : forall a b c,
  pawn_capture_moves (N.lor a b) c = N.lor (pawn_capture_moves a c) (pawn_capture_moves b c) /\
  pawn_single_push_moves (N.lor a b) c = N.lor (pawn_single_push_moves a c) (pawn_single_push_moves b c).
Proof. intros a b c. split; [apply pawn_capture_lor | apply pawn_push_lor]. Qed.
Print Assumptions C12_pawn_union.

(* ---- in-between table, end squares disregarded ---- *)
Theorem C12_between : forall a b, a < 64 -> b < 64 ->
  N.ldiff (engine_in_between a b) (N.lor (bit a) (bit b)) = between_bb a b /\
  (aligned a b = false -> engine_in_between a b = 0 /\ between a b = nil) /\
  engine_in_between a b = in_between a b.
Proof. exact between_correct. Qed.
Print Assumptions C12_between.

(* ---- the interface the board-level models are built on (Model/Att.v) is the engine's ---- *)
Theorem C12_att_interface : forall sq occ, sq < 64 ->
  Att.rook_moves sq occ = engine_rook_moves sq occ /\
  Att.bishop_moves sq occ = engine_bishop_moves sq occ /\
  Att.king_moves sq = engine_king_moves sq /\
  Att.knight_moves sq = engine_knight_moves sq /\
  (forall b, b < 64 -> Att.in_between sq b = engine_in_between sq b).
Proof. exact att_interface. Qed.
Print Assumptions C12_att_interface.

(* non-vacuity / readability: concrete lookups *)
Example C12_example_rook :
  (* rook d4, blockers on d6, f4, d2 and (irrelevant) h8: d5 d6 / d3 d2 / e4 f4 / c4 b4 a4 *)
  engine_rook_moves 27 (bit 43 + bit 29 + bit 11 + bit 63) = bit 35 + bit 43 + bit 19 + bit 11 + bit 28 + bit 29 + bit 26 + bit 25 + bit 24
  /\ rook_attacks 0 0 = 72340172838076926 (* a1 on the empty board: 0x01010101010101fe *).
Proof. vm_compute. split; reflexivity. Qed.

Example C12_example_small :
  engine_king_moves 0 = bit 1 + bit 8 + bit 9 /\ engine_knight_moves 0 = bit 10 + bit 17 /\
  pawn_capture_moves (bit 8 + bit 12) White = bit 17 + bit 19 + bit 21 /\
  pawn_single_push_moves (bit 52) Black = bit 44 /\
  engine_in_between 0 27 = bit 0 + bit 9 + bit 18 + bit 27 /\ between 0 27 = (9 :: 18 :: nil) /\
  engine_in_between 0 10 = 0.
Proof. vm_compute. repeat split; reflexivity. Qed.
