package streams

import (
	"fmt"
	"strings"
	"sync"

	"github.com/paulsonkoly/chess-3/board"
	. "github.com/paulsonkoly/chess-3/chess"
	"github.com/paulsonkoly/chess-3/eval"
	"github.com/paulsonkoly/chess-3/move"

	"verifharness/hx"
	"verifharness/posgen"
)

// Usage-pattern streams of property C17 ("... not on previous evaluations"); models in
// coq/Model/EvalSession.v, judges in coq/Spec/EvalSym.v.
//
// c17s - SESSION: ONE long-lived board object, restored once and then only played with MakeMove /
// UndoMove / null moves / ResetFifty, evaluated at chosen points (NOT after every move).
//
//	input : board-in ++ [n op_1 .. op_n]
//	        op < 0x10000 MakeMove(op) | 0x10000 MakeNullMove | 0x20000 undo the latest operation not yet
//	        undone | 0x30000 ResetFifty() | 0x40000 Eval
//	output: per Eval op: eval.Eval(session board)  eval.Eval(FRESH board restored from a snapshot of it)
//
// The model plays the same operations on the model board and evaluates it; the judge demands
// session = fresh on the implementation's own output.
//
// c17c - CONCURRENT: G >= 8 goroutines, each evaluating its own boards (own objects) through plain
// eval.Eval(b, &eval.Coefficients), released together, several rounds; every answer is compared with
// the answer the same call gave sequentially beforehand.  This is an OBSERVATION of runtime behaviour
// (normal build, no race detector): a data race inside eval.Eval shows as wrong values.
//
//	input : [G rounds nb] ++ nb board-in records
//	output: [mismatches  first differing board or -1  sequential value  concurrent value] ++ nb sequential values
func init() {
	hx.Register(&hx.Stream{Name: "c17s", Gen: genC17s, Run: runC17s})
	hx.Register(&hx.Stream{Name: "c17c", Gen: genC17c, Run: runC17c})
}

const (
	opReset = 0x30000
	opEval  = 0x40000
)

func runC17s(a hx.Args) string {
	b, i := a.Board(0) // the session object
	n := a.Int(i)
	out := &hx.Nums{}
	var stack []seqFrame
	for k := 0; k < n; k++ {
		op := a.U64(i + 1 + k)
		switch {
		case op == opEval:
			e := eval.Eval(b, &eval.Coefficients)
			fresh := board.VerifRestore(b.VerifSnapshot())
			out.Int(int(e), int(eval.Eval(fresh, &eval.Coefficients)))
		case op == opReset:
			b.ResetFifty()
		case op == opPop:
			if len(stack) > 0 {
				f := stack[len(stack)-1]
				stack = stack[:len(stack)-1]
				if f.null {
					b.UndoNullMove(f.r)
				} else {
					b.UndoMove(f.m, f.r)
				}
			}
		case op == opNull:
			stack = append(stack, seqFrame{null: true, r: b.MakeNullMove()})
		default:
			m := hx.U2M(uint64(op))
			stack = append(stack, seqFrame{m: m, r: b.MakeMove(m)})
		}
	}
	return out.String()
}

// sessionBuilder plays on a private clone while it records the operations.
type sessionBuilder struct {
	rng   *hx.Rng
	b     *board.Board
	ops   []uint64
	desc  []string
	stack []seqFrame
	tags  map[string]bool
	// since the last Eval: has the clock changed while the placement came back (what a stale
	// "previous evaluation" would get wrong)
	evals int
}

func (s *sessionBuilder) eval() {
	s.ops = append(s.ops, opEval)
	s.desc = append(s.desc, "EVAL")
	s.evals++
}

func (s *sessionBuilder) mk(m move.Move) {
	s.stack = append(s.stack, seqFrame{m: m, r: s.b.MakeMove(m)})
	s.ops = append(s.ops, hx.M2U(m))
	s.desc = append(s.desc, m.String())
}

func (s *sessionBuilder) pop() {
	if len(s.stack) == 0 {
		return
	}
	f := s.stack[len(s.stack)-1]
	s.stack = s.stack[:len(s.stack)-1]
	if f.null {
		s.b.UndoNullMove(f.r)
	} else {
		s.b.UndoMove(f.m, f.r)
	}
	s.ops = append(s.ops, opPop)
	s.desc = append(s.desc, "undo")
}

func isLegal(b *board.Board, m move.Move) bool {
	for _, l := range posgen.Legal(b) {
		if l == m {
			return true
		}
	}
	return false
}

// quiet returns the legal moves that are reversible: no pawn move, no capture, no castling;
// kings and rooks are avoided while castling rights exist (their moves change the hash for good).
func quiet(b *board.Board) []move.Move {
	var res []move.Move
	for _, m := range posgen.Legal(b) {
		p := b.SquaresToPiece[m.From()]
		if p == Pawn || b.SquaresToPiece[m.To()] != NoPiece {
			continue
		}
		if p == King && Abs(m.From()-m.To()) == 2 {
			continue
		}
		if (p == King || p == Rook) && b.Castles != 0 {
			continue
		}
		res = append(res, m)
	}
	return res
}

// shuffle plays A, B, A^-1, B^-1 `cycles` times: the same placement (and hash) with a later clock.
func (s *sessionBuilder) shuffle(cycles int, evalInside bool) bool {
	qa := quiet(s.b)
	if len(qa) == 0 {
		return false
	}
	a := qa[s.rng.Intn(len(qa))]
	ra := s.b.MakeMove(a)
	qb := quiet(s.b)
	var bm, aBack, bBack move.Move
	ok := false
	for try := 0; try < 6 && len(qb) > 0 && !ok; try++ {
		bm = qb[s.rng.Intn(len(qb))]
		rb := s.b.MakeMove(bm)
		aBack = move.From(a.To()) | move.To(a.From())
		if isLegal(s.b, aBack) {
			r3 := s.b.MakeMove(aBack)
			bBack = move.From(bm.To()) | move.To(bm.From())
			ok = isLegal(s.b, bBack)
			s.b.UndoMove(aBack, r3)
		}
		s.b.UndoMove(bm, rb)
	}
	s.b.UndoMove(a, ra)
	if !ok {
		return false
	}
	for c := 0; c < cycles; c++ {
		s.mk(a)
		s.mk(bm)
		if evalInside && c == 0 {
			s.eval()
		}
		s.mk(aBack)
		s.mk(bBack)
	}
	s.tags["shuffle"] = true
	return true
}

func buildSession(rng *hx.Rng, start *board.Board, startDesc string) hx.Input {
	s := &sessionBuilder{rng: rng, b: board.VerifRestore(start.VerifSnapshot()), tags: map[string]bool{}}
	if rng.Chance(0.85) {
		s.eval()
	}
	segs := 1 + rng.Intn(4)
	for g := 0; g < segs && len(s.ops) < 120; g++ {
		switch x := rng.Intn(100); {
		case x < 45: // back to the same placement with a later clock, nobody looking in between
			if s.shuffle(1+rng.Intn(10), rng.Chance(0.15)) {
				s.eval()
			}
		case x < 60: // the clock is reset behind the evaluation's back
			s.ops = append(s.ops, opReset)
			s.desc = append(s.desc, "ResetFifty")
			s.b.ResetFifty()
			s.tags["reset-fifty"] = true
			s.eval()
		case x < 75: // a few moves, evaluate, take them back, evaluate
			k := 1 + rng.Intn(5)
			made := 0
			for j := 0; j < k; j++ {
				l := posgen.Legal(s.b)
				if len(l) == 0 {
					break
				}
				s.mk(l[rng.Intn(len(l))])
				made++
			}
			if rng.Chance(0.6) {
				s.eval()
			}
			for j := 0; j < made; j++ {
				s.pop()
			}
			s.tags["make-undo"] = true
			s.eval()
		case x < 85: // null move
			if !s.b.InCheck(s.b.STM) {
				s.stack = append(s.stack, seqFrame{null: true, r: s.b.MakeNullMove()})
				s.ops = append(s.ops, opNull)
				s.desc = append(s.desc, "null")
				if rng.Chance(0.7) {
					s.eval()
				}
				s.pop()
				s.tags["null"] = true
				s.eval()
			}
		case x < 92: // the same position twice in a row
			s.eval()
			s.eval()
			s.tags["eval-twice"] = true
		default: // play on
			k := 1 + rng.Intn(6)
			for j := 0; j < k; j++ {
				l := posgen.Legal(s.b)
				if len(l) == 0 {
					break
				}
				s.mk(l[rng.Intn(len(l))])
			}
			s.eval()
		}
	}
	if s.evals == 0 {
		s.eval()
	}
	nums := (&hx.Nums{}).BoardIn(start).Int(len(s.ops))
	nums.U(s.ops...)
	var tags []string
	for t := range s.tags {
		tags = append(tags, t)
	}
	tags = append(tags, posgen.Tags(start)...)
	if start.FiftyCnt > 0 {
		tags = append(tags, "start-clock>0")
	}
	return hx.Input{In: nums.String(),
		Desc:       "session on ONE board | start " + startDesc + " fen " + start.FEN() + " | " + strings.Join(s.desc, " "),
		Tags:       tags,
		NonTrivial: s.tags["shuffle"] || s.tags["reset-fifty"],
		Key:        start.FEN() + strings.Join(s.desc, " ")}
}

func genC17s(rng *hx.Rng, n int, tier string, emit func(hx.Input)) {
	cnt := 0
	for cnt < n {
		// material-rich structured positions (large evaluations make the clock scaling visible)
		for k := 0; k < 6 && cnt < n; k++ {
			if b := placeMaterial(rng, []string{"KkQRBNqrbn", "KkRRrPPpp", "KkQqRrBbNnPPPPpppp", "KkNNnPPPpp", "KkQBNPPPrrpp"}[rng.Intn(5)]); b != nil {
				emit(buildSession(rng, withHash(b.VerifSnapshot()), "material"))
				cnt++
			}
		}
		posgen.Stream(rng, 24, func(p posgen.Pos) {
			if cnt >= n {
				return
			}
			emit(buildSession(rng, p.B, p.Kind))
			cnt++
		})
	}
}

// ------------------------------------------------------------------------------------------------

func runC17c(a hx.Args) string {
	g, rounds, nb := a.Int(0), a.Int(1), a.Int(2)
	// every goroutine gets its own board objects; the sequential reference uses yet another set
	ref := make([]Score, nb)
	i := 3
	starts := make([]int, nb)
	for k := 0; k < nb; k++ {
		starts[k] = i
		var b *board.Board
		b, i = a.Board(i)
		ref[k] = eval.Eval(b, &eval.Coefficients)
	}
	type miss struct {
		idx      int
		seq, got Score
	}
	var wg sync.WaitGroup
	start := make(chan struct{})
	misses := make([][]miss, g)
	counts := make([]int, g)
	for w := 0; w < g; w++ {
		var mine []*board.Board
		var idx []int
		for k := w; k < nb; k += g {
			b, _ := a.Board(starts[k])
			mine = append(mine, b)
			idx = append(idx, k)
		}
		wg.Add(1)
		go func(w int) {
			defer wg.Done()
			<-start
			for r := 0; r < rounds; r++ {
				for j, b := range mine {
					if got := eval.Eval(b, &eval.Coefficients); got != ref[idx[j]] {
						counts[w]++
						if len(misses[w]) == 0 {
							misses[w] = append(misses[w], miss{idx[j], ref[idx[j]], got})
						}
					}
				}
			}
		}(w)
	}
	close(start)
	wg.Wait()
	total, first := 0, miss{idx: -1}
	for w := 0; w < g; w++ {
		total += counts[w]
		if len(misses[w]) > 0 && (first.idx < 0 || misses[w][0].idx < first.idx) {
			first = misses[w][0]
		}
	}
	out := (&hx.Nums{}).Int(total, first.idx, int(first.seq), int(first.got))
	for _, v := range ref {
		out.Int(int(v))
	}
	return out.String()
}

func genC17c(rng *hx.Rng, n int, tier string, emit func(hx.Input)) {
	for cnt := 0; cnt < n; cnt++ {
		g := 8 + rng.Intn(9) // 8..16 goroutines
		nb := g * (2 + rng.Intn(3))
		rounds := 150 + rng.Intn(150)
		var boards []*board.Board
		for len(boards) < nb {
			posgen.Stream(rng, nb-len(boards), func(p posgen.Pos) {
				if len(boards) < nb {
					boards = append(boards, board.VerifRestore(p.B.VerifSnapshot()))
				}
			})
		}
		nums := (&hx.Nums{}).Int(g, rounds, nb)
		var fens []string
		for k, b := range boards {
			nums.BoardIn(b)
			fens = append(fens, fmt.Sprintf("%d: %s", k, b.FEN()))
		}
		emit(hx.Input{In: nums.String(),
			Desc:       fmt.Sprintf("%d goroutines x %d rounds over %d boards (own objects), plain eval.Eval | %s", g, rounds, nb, strings.Join(fens, " | ")),
			Tags:       []string{fmt.Sprintf("goroutines=%d", g)},
			NonTrivial: true,
			Key:        fmt.Sprint(cnt, g, nb, boards[0].FEN())})
	}
}
