(* Specification of the static exchange evaluation (property C18), written to be read.

   After the move m has been played, the two sides capture alternately on the destination square.
   Whoever is to move takes with a LEAST VALUABLE piece that attacks the square under the CURRENT
   occupancy (so pieces standing behind a piece that has left join in: x-rays), the king takes only
   when no enemy attacker remains, pins are ignored, and a recapturing pawn never promotes.  Among
   equally valued least attackers any one may be taken: [choice].  [swap_list] is the sequence of
   values captured, [balance] its minimax value when each side may stop before any of its captures.

   Everything here is phrased from the ATTACKER's point of view with the geometric attack sets of
   Spec/Geometry.v ("the piece on s attacks the target"); the engine's bookkeeping (reverse lookups
   from the target square, incremental rediscovery of sliders, per-side progress markers) does not
   appear. *)
From Coq Require Import NArith ZArith List Bool.
From Chess3 Require Import Base.Bits Model.Types Spec.Geometry Model.BoardDef Gen.SeeConsts.
Import ListNotations.
Open Scope N_scope.

(* value of a piece kind for exchanges *)
Definition value (p : N) : Z := nth (N.to_nat p) PieceValues 0%Z.

(* does a piece of kind p and colour c standing on s attack the square target, given the occupancy? *)
Definition attacks_target (c : color) (p s occ target : N) : bool :=
  if p =? Pawn then N.testbit (pawn_attacks c s) target
  else if p =? Knight then N.testbit (knight_attacks s) target
  else if p =? Bishop then N.testbit (bishop_attacks s occ) target
  else if p =? Rook then N.testbit (rook_attacks s occ) target
  else if p =? Queen then N.testbit (queen_attacks s occ) target
  else if p =? King then N.testbit (king_attacks s) target
  else false.

(* the pieces (square, kind) of colour c still standing (occ) that attack target *)
Definition attackers_of (b : board) (c : color) (occ target : N) : list (N * N) :=
  filter (fun sp => attacks_target c (snd sp) (fst sp) occ target)
         (map (fun s => (s, piece_at b s)) (bits_of (N.land occ (colors b c)))).

Definition least_value (A : list (N * N)) : Z :=
  match A with
  | [] => 0%Z
  | x :: r => fold_left (fun acc sp => Z.min acc (value (snd sp))) r (value (snd x))
  end.

(* the least valuable attackers *)
Definition candidates (A : list (N * N)) : list (N * N) :=
  filter (fun sp => (value (snd sp) =? least_value A)%Z) A.

(* a choice function picks a member of every non-empty candidate list *)
Definition admissible (choice : list (N * N) -> N * N) : Prop :=
  forall l, l <> [] -> In (choice l) l.

Definition is_nil {A} (l : list A) : bool := match l with [] => true | _ => false end.

(* the values captured from now on: [standing] is the value of the piece that stands on the target *)
Fixpoint captures (fuel : nat) (b : board) (choice : list (N * N) -> N * N) (target : N)
                  (side : color) (occ : N) (standing : Z) : list Z :=
  match fuel with
  | O => []
  | S k =>
      match attackers_of b side occ target with
      | [] => []
      | A =>
          let '(s, p) := choice (candidates A) in
          if p =? King then
            (* the king takes only if the other side has no attacker left, and then nothing can take back *)
            if is_nil (attackers_of b (flip side) occ target) then [standing] else []
          else standing :: captures k b choice target (flip side) (clrb occ s) (value p)
      end
  end.

(* more than the number of squares: every capture removes a piece *)
Definition capture_fuel : nat := 66.

(* a pawn that moves diagonally onto an empty square captures en passant the pawn beside it *)
Definition ep_capture (b : board) (m : N) : bool :=
  (piece_at b (mv_from m) =? Pawn) && negb (file_of (mv_from m) =? file_of (mv_to m))%Z
  && (piece_at b (mv_to m) =? NoPiece).
Definition victim_square (b : board) (m : N) : N :=
  if ep_capture b m then sq_of (file_of (mv_to m)) (rank_of (mv_from m)) else mv_to m.

Definition swap_list (b : board) (m : N) (choice : list (N * N) -> N * N) : list Z :=
  let from := mv_from m in
  let to := mv_to m in
  let promo := mv_promo m in
  let promo_gain := if promo =? NoPiece then 0%Z else (value promo - value Pawn)%Z in
  let g0 := (value (piece_at b (victim_square b m)) + promo_gain)%Z in
  let standing := if promo =? NoPiece then value (piece_at b from) else value promo in
  let occ := clrb (occupancy b) from in
  let occ := if ep_capture b m then clrb occ (victim_square b m) else occ in
  g0 :: captures capture_fuel b choice to (flip (stm b)) occ standing.

(* the best the side to move can get out of the rest of the sequence: stop (0) or capture *)
Fixpoint best_reply (l : list Z) : Z :=
  match l with
  | [] => 0%Z
  | g :: r => Z.max 0 (g - best_reply r)
  end.

(* material balance of the sequence for the side that played the move (the move itself is played) *)
Definition balance (l : list Z) : Z :=
  match l with
  | [] => 0%Z
  | g0 :: r => (g0 - best_reply r)%Z
  end.

(* ------------------------------------------------------------------------------------------ *)
(* all choices at once (used by the judge of the c18 stream): the set of values [best_reply] takes
   over all admissible choices, and the set of achievable balances *)

Definition dedup (l : list Z) : list Z := nodup Z.eq_dec l.

Fixpoint all_replies (fuel : nat) (b : board) (target : N) (side : color) (occ : N) (standing : Z) : list Z :=
  match fuel with
  | O => [0%Z]
  | S k =>
      match attackers_of b side occ target with
      | [] => [0%Z]
      | A =>
          dedup (flat_map (fun sp =>
            let '(s, p) := sp in
            if p =? King then
              (if is_nil (attackers_of b (flip side) occ target) then [Z.max 0 standing] else [0%Z])
            else map (fun x => Z.max 0 (standing - x))
                     (all_replies k b target (flip side) (clrb occ s) (value p))) (candidates A))
      end
  end.

Definition all_balances (b : board) (m : N) : list Z :=
  let from := mv_from m in
  let to := mv_to m in
  let promo := mv_promo m in
  let promo_gain := if promo =? NoPiece then 0%Z else (value promo - value Pawn)%Z in
  let g0 := (value (piece_at b (victim_square b m)) + promo_gain)%Z in
  let standing := if promo =? NoPiece then value (piece_at b from) else value promo in
  let occ := clrb (occupancy b) from in
  let occ := if ep_capture b m then clrb occ (victim_square b m) else occ in
  map (fun x => (g0 - x)%Z) (all_replies capture_fuel b to (flip (stm b)) occ standing).

(* ------------------------------------------------------------------------------------------ *)
(* the tie-break heur.SEE implements: among the least valuable attackers the lowest piece kind
   (pawn, knight, bishop, rook, queen, king), and of that kind the lowest square *)
Definition impl_better (x y : N * N) : bool :=
  (snd x <? snd y) || ((snd x =? snd y) && (fst x <? fst y)).
Definition impl_choice (l : list (N * N)) : N * N :=
  match l with
  | [] => (0, 0)
  | x :: r => fold_left (fun best sp => if impl_better sp best then sp else best) r x
  end.

(* ------------------------------------------------------------------------------------------ *)
(* executable domain checks (the hypotheses of the C18 theorems, see Proofs/SeeGeom.v) *)

(* the board's redundant encodings agree: colour sets 64-bit and disjoint, piece sets = per-square kinds *)
Definition wf_boardb (b : board) : bool :=
  (colors b White <? two64) && (colors b Black <? two64) &&
  (N.land (colors b White) (colors b Black) =? 0) &&
  forallb (fun s => (piece_at b s <=? 6) &&
                    forallb (fun q => Bool.eqb (N.testbit (pieces b q) s) (piece_at b s =? q)) [1; 2; 3; 4; 5; 6])
          squares64.

