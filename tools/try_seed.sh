#!/bin/bash
# tools/try_seed.sh <patch.diff> <Cxx> [<Cyy> ...]  : run quick checks against a scratch worktree of /repo with the patch applied
set -e
patch=$1; shift
wt=/root/scratch/mutrepo-$$
git -C /repo worktree add -q --detach $wt HEAD
trap "git -C /repo worktree remove --force $wt" EXIT
git -C $wt apply "$patch"
for p in "$@"; do
  echo "=== $p against $(basename $(dirname $patch))"
  VERIF_REPO=$wt ./check $p --tier quick 2>&1 | grep -E "VIOLATION|KNOWN|\[check\] C|does not build" || true
done
