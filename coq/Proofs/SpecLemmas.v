(* Reusable lemmas about the mailbox specification Spec/Chess.v: reading a square after [put],
   length preservation, counting under [put], the king square, occupancy, "depends only on the
   placement" lemmas, castling-right bits.  Nothing here mentions the engine. *)
From Coq Require Import NArith ZArith List Bool Lia.
From Chess3 Require Import Base.Bits Model.Types Spec.Geometry Model.BoardDef Spec.Chess.
Import ListNotations.
Open Scope N_scope.

Ltac Zify.zify_post_hook ::= Z.to_euclidean_division_equations.

Notation placement := (list (option (color * N))).

(* ------------------------------------------------------------------------------------------ *)
(* colours *)

Lemma color_eqb_refl c : color_eqb c c = true.
Proof. destruct c; reflexivity. Qed.

Lemma color_eqb_eq a b : color_eqb a b = true <-> a = b.
Proof. destruct a, b; cbn; split; intros H; try reflexivity; try discriminate. Qed.

Lemma color_eqb_flip c : color_eqb c (flip c) = false.
Proof. destruct c; reflexivity. Qed.

Lemma color_eqb_flip' c : color_eqb (flip c) c = false.
Proof. destruct c; reflexivity. Qed.

Lemma flip_flip c : flip (flip c) = c.
Proof. destruct c; reflexivity. Qed.

Lemma color_eqb_sym a b : color_eqb a b = color_eqb b a.
Proof. destruct a, b; reflexivity. Qed.

Lemma color_cases a b : a = b \/ a = flip b.
Proof. destruct a, b; auto. Qed.

(* ------------------------------------------------------------------------------------------ *)
(* upd / nth *)

Section ListUpd.
Context {A : Type}.

Lemma upd_length (l : list A) i x : length (upd l i x) = length l.
Proof. revert i; induction l as [|h t IH]; intros [|i]; cbn; auto. Qed.

Lemma nth_upd_same (l : list A) i x d : (i < length l)%nat -> nth i (upd l i x) d = x.
Proof. revert i; induction l as [|h t IH]; intros [|i] H; cbn in *; try lia; auto. apply IH; lia. Qed.

Lemma nth_upd_other (l : list A) i j x d : i <> j -> nth j (upd l i x) d = nth j l d.
Proof.
  revert i j; induction l as [|h t IH]; intros [|i] [|j] H; cbn; try reflexivity; try congruence.
  apply IH; congruence.
Qed.

Lemma upd_nth_id (l : list A) i d : upd l i (nth i l d) = l.
Proof.
  revert i; induction l as [|h t IH]; intros [|i]; cbn; try reflexivity. f_equal; apply IH.
Qed.

Lemma upd_upd_same (l : list A) i x y : upd (upd l i x) i y = upd l i y.
Proof. revert i; induction l as [|h t IH]; intros [|i]; cbn; try reflexivity. f_equal; apply IH. Qed.

Lemma upd_upd_comm (l : list A) i j x y : i <> j -> upd (upd l i x) j y = upd (upd l j y) i x.
Proof.
  revert i j; induction l as [|h t IH]; intros [|i] [|j] H; cbn; try reflexivity; try congruence.
  f_equal; apply IH; congruence.
Qed.

Lemma updN_length (l : list A) s x : length (updN l s x) = length l.
Proof. apply upd_length. Qed.

Lemma nthN_updN_same (l : list A) s x d : (N.to_nat s < length l)%nat -> nthN (updN l s x) s d = x.
Proof. intros H. apply nth_upd_same. lia. Qed.

Lemma nthN_updN_other (l : list A) s t x d : s <> t -> nthN (updN l s x) t d = nthN l t d.
Proof. intros H. apply nth_upd_other. lia. Qed.

Lemma nthN_updN (l : list A) s t x d :
  (N.to_nat s < length l)%nat -> nthN (updN l s x) t d = if s =? t then x else nthN l t d.
Proof.
  intros H. destruct (N.eqb_spec s t) as [<-|Hn].
  - apply nthN_updN_same; exact H.
  - apply nthN_updN_other; exact Hn.
Qed.

Lemma updN_nthN_id (l : list A) s d : updN l s (nthN l s d) = l.
Proof. apply upd_nth_id. Qed.

Lemma updN_updN_same (l : list A) s x y : updN (updN l s x) s y = updN l s y.
Proof. apply upd_upd_same. Qed.

Lemma updN_updN_comm (l : list A) s t x y : s <> t -> updN (updN l s x) t y = updN (updN l t y) s x.
Proof. intros H. apply upd_upd_comm. lia. Qed.

(* counting the elements that satisfy f: through the index list, and under upd *)
Definition b2n (b : bool) : nat := if b then 1%nat else 0%nat.

Lemma filter_index_shift (f : A -> bool) (d : A) (l : list A) a :
  length (filter (fun i => f (nth (i - a) l d)) (seq a (length l))) = length (filter f l).
Proof.
  revert a; induction l as [|h t IH]; intros a; [reflexivity|].
  cbn [length seq].
  assert (E : filter (fun i => f (nth (i - a) (h :: t) d)) (seq (S a) (length t)) =
              filter (fun i => f (nth (i - S a) t d)) (seq (S a) (length t))).
  { apply filter_ext_in. intros i Hi. apply in_seq in Hi.
    replace (i - a)%nat with (S (i - S a)) by lia. reflexivity. }
  cbn [filter]. rewrite E, Nat.sub_diag. cbn [nth].
  destruct (f h); cbn [length]; rewrite IH; reflexivity.
Qed.

Lemma filter_index (f : A -> bool) (d : A) (l : list A) :
  length (filter (fun i => f (nth i l d)) (seq 0 (length l))) = length (filter f l).
Proof.
  rewrite <- (filter_index_shift f d l 0). f_equal. apply filter_ext. intros i.
  rewrite Nat.sub_0_r. reflexivity.
Qed.

Lemma filter_map_length {B} (g : B -> bool) (h : A -> B) (l : list A) :
  length (filter g (map h l)) = length (filter (fun x => g (h x)) l).
Proof.
  induction l as [|x t IH]; cbn; [reflexivity|]. destruct (g (h x)); cbn; rewrite IH; reflexivity.
Qed.

Lemma filter_upd_length (f : A -> bool) (l : list A) i x d :
  (i < length l)%nat ->
  (length (filter f (upd l i x)) + b2n (f (nth i l d)) = length (filter f l) + b2n (f x))%nat.
Proof.
  revert i; induction l as [|h t IH]; intros [|i] H; cbn [length] in H; try lia.
  - cbn [upd nth filter]. destruct (f h), (f x); cbn [length b2n]; lia.
  - cbn [upd nth filter]. specialize (IH i ltac:(lia)).
    destruct (f h); cbn [length]; lia.
Qed.
End ListUpd.

(* ------------------------------------------------------------------------------------------ *)
(* the 64 squares *)

Lemma squares64_In s : In s squares64 <-> s < 64.
Proof.
  unfold squares64. rewrite in_map_iff. split.
  - intros [i [<- Hi]]. apply in_seq in Hi. lia.
  - intros H. exists (N.to_nat s). split; [lia|]. apply in_seq. lia.
Qed.

Lemma forallb_squares f s : forallb f squares64 = true -> s < 64 -> f s = true.
Proof. intros H Hs. rewrite forallb_forall in H. apply H. apply squares64_In. exact Hs. Qed.

Lemma forallb_squares2 f s t :
  forallb (fun a => forallb (f a) squares64) squares64 = true -> s < 64 -> t < 64 -> f s t = true.
Proof. intros H Hs Ht. apply (forallb_squares _ s) in H; [|exact Hs]. apply (forallb_squares _ t) in H; auto. Qed.

Lemma mv_from_lt m : mv_from m < 64.
Proof.
  unfold mv_from. change 63 with (N.ones 6). rewrite N.land_ones. apply N.mod_lt. discriminate.
Qed.

Lemma mv_to_lt m : mv_to m < 64.
Proof.
  unfold mv_to. change 63 with (N.ones 6). rewrite N.land_ones. apply N.mod_lt. discriminate.
Qed.

Lemma mv_promo_lt m : mv_promo m < 8.
Proof.
  unfold mv_promo. change 7 with (N.ones 3). rewrite N.land_ones. apply N.mod_lt. discriminate.
Qed.

(* ------------------------------------------------------------------------------------------ *)
(* a position with a given placement; everything about the placement depends on it only *)

Definition posL (l : placement) : pos := mkPos l White 0 None 0%Z 0%Z.

Definition matchv (v : option (color * N)) (c : color) (k : N) : bool :=
  match v with Some (c', k') => color_eqb c c' && (k =? k') | None => false end.
Definition ownedv (v : option (color * N)) (c : color) : bool :=
  match v with Some (c', _) => color_eqb c c' | None => false end.
Definition emptyv (v : option (color * N)) : bool := match v with None => true | _ => false end.

Lemma holds_who p s c k : holds p s c k = matchv (who p s) c k.
Proof. reflexivity. Qed.
Lemma owned_who p s c : owned_by p s c = ownedv (who p s) c.
Proof. reflexivity. Qed.
Lemma empty_who p s : empty p s = emptyv (who p s).
Proof. reflexivity. Qed.

Lemma who_posL l s : who (posL l) s = nthN l s None.
Proof. reflexivity. Qed.

Section AtOnly.
Variables p q : pos.
Hypothesis E : at_ p = at_ q.

Lemma who_at s : who p s = who q s.
Proof. unfold who. rewrite E. reflexivity. Qed.
Lemma holds_at s c k : holds p s c k = holds q s c k.
Proof. rewrite !holds_who, who_at. reflexivity. Qed.
Lemma owned_at s c : owned_by p s c = owned_by q s c.
Proof. rewrite !owned_who, who_at. reflexivity. Qed.
Lemma empty_at s : empty p s = empty q s.
Proof. rewrite !empty_who, who_at. reflexivity. Qed.
Lemma occ_of_at : occ_of p = occ_of q.
Proof. unfold occ_of. f_equal. apply filter_ext. intros s. rewrite empty_at. reflexivity. Qed.
Lemma attacked_by_at c s : attacked_by p c s = attacked_by q c s.
Proof.
  unfold attacked_by. rewrite occ_of_at.
  induction squares64 as [|t r IH]; cbn [existsb]; [reflexivity|]. rewrite IH, who_at. reflexivity.
Qed.
Lemma king_sq_at c : king_sq p c = king_sq q c.
Proof. unfold king_sq. f_equal. apply filter_ext. intros s. apply holds_at. Qed.
Lemma in_check_at c : in_check_spec p c = in_check_spec q c.
Proof. unfold in_check_spec. rewrite king_sq_at. apply attacked_by_at. Qed.
Lemma count_at c k : count p c k = count q c k.
Proof. unfold count. do 2 f_equal. apply filter_ext. intros s. apply holds_at. Qed.
Lemma material_ok_at c : material_ok p c = material_ok q c.
Proof. unfold material_ok. rewrite !count_at. reflexivity. Qed.
Lemma no_pawn_on_edge_at : no_pawn_on_edge p = no_pawn_on_edge q.
Proof.
  unfold no_pawn_on_edge. induction squares64 as [|t r IH]; cbn [forallb]; [reflexivity|].
  rewrite IH, !holds_at. reflexivity.
Qed.
End AtOnly.

(* ------------------------------------------------------------------------------------------ *)
(* reading a square after put *)

Lemma put_length l s v : length (put l s v) = length l.
Proof. apply updN_length. Qed.

Lemma who_put l s v t :
  length l = 64%nat -> s < 64 -> who (posL (put l s v)) t = if s =? t then v else who (posL l) t.
Proof. intros Hl Hs. rewrite !who_posL. unfold put. apply nthN_updN. lia. Qed.

Lemma who_put_same l s v : length l = 64%nat -> s < 64 -> who (posL (put l s v)) s = v.
Proof. intros Hl Hs. rewrite who_put, N.eqb_refl by assumption. reflexivity. Qed.

Lemma who_put_other l s v t : s <> t -> who (posL (put l s v)) t = who (posL l) t.
Proof. intros H. rewrite !who_posL. unfold put. apply nthN_updN_other. exact H. Qed.

Lemma who_out_of_range p s : (length (at_ p) <= N.to_nat s)%nat -> who p s = None.
Proof. intros H. unfold who, nthN. apply nth_overflow. exact H. Qed.

(* ------------------------------------------------------------------------------------------ *)
(* counting *)

Definition b2z (b : bool) : Z := if b then 1%Z else 0%Z.

Lemma count_as_filter p c k :
  length (at_ p) = 64%nat ->
  count p c k = Z.of_nat (length (filter (fun v => matchv v c k) (at_ p))).
Proof.
  intros Hl. unfold count, squares64. apply (f_equal Z.of_nat).
  rewrite filter_map_length.
  rewrite <- (filter_index (fun v => matchv v c k) None (at_ p)), Hl.
  apply (f_equal (@length nat)). apply filter_ext. intros i. rewrite holds_who. unfold who, nthN.
  rewrite Nat2N.id. reflexivity.
Qed.

Lemma count_put l s v c k :
  length l = 64%nat -> s < 64 ->
  count (posL (put l s v)) c k =
  (count (posL l) c k - b2z (matchv (who (posL l) s) c k) + b2z (matchv v c k))%Z.
Proof.
  intros Hl Hs. rewrite !count_as_filter by (cbn [at_ posL]; rewrite ?put_length; exact Hl).
  cbn [at_ posL]. unfold put, updN. rewrite who_posL. unfold nthN.
  pose proof (filter_upd_length (fun v => matchv v c k) l (N.to_nat s) v None ltac:(lia)) as H.
  destruct (matchv (nth (N.to_nat s) l None) c k), (matchv v c k); cbn [b2n b2z] in *; lia.
Qed.

Lemma count_nonneg p c k : (0 <= count p c k)%Z.
Proof. unfold count. lia. Qed.

(* ------------------------------------------------------------------------------------------ *)
(* the king square *)

Lemma king_sq_spec p c :
  count p c King = 1%Z ->
  king_sq p c < 64 /\ holds p (king_sq p c) c King = true /\
  forall s, s < 64 -> holds p s c King = true -> s = king_sq p c.
Proof.
  unfold count, king_sq. intros H.
  destruct (filter (fun s => holds p s c King) squares64) as [|x [|y r]] eqn:F; cbn [length] in H; try lia.
  cbn [hd].
  assert (Hx : In x (filter (fun s => holds p s c King) squares64)) by (rewrite F; left; reflexivity).
  apply filter_In in Hx. destruct Hx as [Hx1 Hx2]. apply squares64_In in Hx1.
  split; [exact Hx1|]. split; [exact Hx2|].
  intros s Hs Hh.
  assert (Hs' : In s (filter (fun s => holds p s c King) squares64)).
  { apply filter_In. split; [apply squares64_In; exact Hs|exact Hh]. }
  rewrite F in Hs'. destruct Hs' as [<-|[]]. reflexivity.
Qed.

(* ------------------------------------------------------------------------------------------ *)
(* occupancy *)

Lemma set_of_testbit l s : N.testbit (set_of l) s = existsb (N.eqb s) l.
Proof.
  induction l as [|x r IH]; cbn [set_of fold_right existsb]; [apply N.bits_0|].
  fold (set_of r). rewrite N.lor_spec, bit_testbit, IH, (N.eqb_sym x s). reflexivity.
Qed.

Lemma occ_of_mem p s : s < 64 -> mem (occ_of p) s = negb (empty p s).
Proof.
  intros Hs. unfold mem, occ_of. rewrite set_of_testbit.
  destruct (negb (empty p s)) eqn:E.
  - apply existsb_exists. exists s. split; [|apply N.eqb_refl].
    apply filter_In. split; [apply squares64_In; exact Hs|exact E].
  - apply not_true_is_false. intros H. apply existsb_exists in H. destruct H as [x [Hx1 Hx2]].
    apply N.eqb_eq in Hx2. subst x. apply filter_In in Hx1. destruct Hx1 as [_ Hx1]. congruence.
Qed.

(* ------------------------------------------------------------------------------------------ *)
(* attacked_by: introduction and elimination *)

Lemma attacked_by_intro p c s t k :
  t < 64 -> who p t = Some (c, k) -> mem (attacks_from c k t (occ_of p)) s = true ->
  attacked_by p c s = true.
Proof.
  intros Ht Hw Hm. unfold attacked_by. apply existsb_exists. exists t.
  split; [apply squares64_In; exact Ht|]. rewrite Hw, color_eqb_refl, Hm. reflexivity.
Qed.

Lemma attacked_by_elim p c s :
  attacked_by p c s = true ->
  exists t k, t < 64 /\ who p t = Some (c, k) /\ mem (attacks_from c k t (occ_of p)) s = true.
Proof.
  unfold attacked_by. intros H. apply existsb_exists in H. destruct H as [t [Ht H]].
  apply squares64_In in Ht. destruct (who p t) as [[c' k]|] eqn:W; [|discriminate].
  apply andb_true_iff in H. destruct H as [Hc Hm]. apply color_eqb_eq in Hc. subst c'.
  exists t, k. auto.
Qed.

(* ------------------------------------------------------------------------------------------ *)
(* castling-right bits *)

Definition right_ix (c : color) (long : bool) : N := 2 * cix c + (if long then 1 else 0).

Lemma castle_bit_bit c long : castle_bit c long = bit (right_ix c long).
Proof. reflexivity. Qed.

Lemma land_bit_eq0 r i : (N.land r (bit i) =? 0) = negb (N.testbit r i).
Proof.
  destruct (N.testbit r i) eqn:E; cbn [negb].
  - apply N.eqb_neq. intros H.
    assert (T : N.testbit (N.land r (bit i)) i = true).
    { rewrite N.land_spec, bit_testbit, E, N.eqb_refl. reflexivity. }
    rewrite H, N.bits_0 in T. discriminate.
  - apply N.eqb_eq. apply N.bits_inj_0. intros n. rewrite N.land_spec, bit_testbit.
    destruct (N.eqb_spec i n) as [<-|Hn]; [rewrite E; reflexivity|apply andb_false_r].
Qed.

Lemma has_right_testbit p c long : has_right p c long = N.testbit (rights p) (right_ix c long).
Proof. unfold has_right. rewrite castle_bit_bit, land_bit_eq0, negb_involutive. reflexivity. Qed.

Definition lose_cond (p : pos) (m : N) (c' : color) (long : bool) : bool :=
  (holds p (mv_from m) c' King && color_eqb (turn p) c') ||
  (mv_from m =? rook_home c' long) || (mv_to m =? rook_home c' long).

Lemma lose_step_testbit (b : bool) r j i :
  N.testbit (if b then N.ldiff r (bit j) else r) i = N.testbit r i && negb (b && (j =? i)).
Proof.
  destruct b; cbn [andb negb]; [|rewrite andb_true_r; reflexivity].
  rewrite N.ldiff_spec, bit_testbit. reflexivity.
Qed.

Lemma rights_after_testbit p m c' long :
  N.testbit (rights_after p m) (right_ix c' long) =
  N.testbit (rights p) (right_ix c' long) && negb (lose_cond p m c' long).
Proof.
  unfold rights_after. rewrite !castle_bit_bit, !lose_step_testbit.
  fold (lose_cond p m White false). fold (lose_cond p m White true).
  fold (lose_cond p m Black false). fold (lose_cond p m Black true).
  destruct c', long; cbn [right_ix cix N.eqb N.mul N.add Pos.eqb Pos.mul Pos.add];
    rewrite ?andb_false_r, ?andb_true_r; cbn [negb]; rewrite ?andb_true_r; reflexivity.
Qed.

Lemma has_right_after p m q c' long :
  rights q = rights_after p m ->
  has_right q c' long = has_right p c' long && negb (lose_cond p m c' long).
Proof. intros E. rewrite !has_right_testbit, E. apply rights_after_testbit. Qed.

(* home squares, concretely *)
Lemma king_home_White : king_home White = 4. Proof. reflexivity. Qed.
Lemma king_home_Black : king_home Black = 60. Proof. reflexivity. Qed.
Lemma rook_home_cases c long :
  rook_home c long = match c, long with White, false => 7 | White, true => 0 | Black, false => 63 | Black, true => 56 end.
Proof. destruct c, long; reflexivity. Qed.

(* ------------------------------------------------------------------------------------------ *)
(* small facts about who / holds / empty *)

Lemma who_posL_at p s : who (posL (at_ p)) s = who p s.
Proof. reflexivity. Qed.

Lemma holds_who_eq p s c k : holds p s c k = true -> who p s = Some (c, k).
Proof.
  rewrite holds_who. destruct (who p s) as [[c' k']|]; cbn [matchv]; [|discriminate].
  intros H. apply andb_true_iff in H. destruct H as [H1 H2]. apply color_eqb_eq in H1.
  apply N.eqb_eq in H2. subst. reflexivity.
Qed.

Lemma matchv_some c k c0 k0 : matchv (Some (c, k)) c0 k0 = color_eqb c0 c && (k0 =? k).
Proof. reflexivity. Qed.

Lemma matchv_not_owned w c k : ownedv w c = false -> matchv w c k = false.
Proof. destruct w as [[c' k']|]; cbn [ownedv matchv]; [|reflexivity]. intros ->. reflexivity. Qed.

Lemma empty_who_eq p s : empty p s = true -> who p s = None.
Proof. rewrite empty_who. destruct (who p s); cbn [emptyv]; [discriminate|reflexivity]. Qed.

Ltac gen_turn p c := let E := fresh "Ec" in remember (turn p) as c eqn:E in *; clear E.

Definition first_rank (c : color) : N := match c with White => 0 | Black => 7 end.

Lemma attacks_from_Pawn c s occ : attacks_from c Pawn s occ = pawn_attacks c s.
Proof. reflexivity. Qed.
Lemma attacks_from_King c s occ : attacks_from c King s occ = king_attacks s.
Proof. reflexivity. Qed.

Lemma ep_inv p e :
  ep_ok p = true -> epsq p = Some e ->
  rank_n e = match turn p with White => 5 | Black => 2 end /\
  empty p e = true /\ empty p (fwd (turn p) e) = true /\
  holds p (fwd (flip (turn p)) e) (flip (turn p)) Pawn = true /\
  in_check_spec (with_placement p (put (put (at_ p) (fwd (flip (turn p)) e) None) (fwd (turn p) e)
                                       (Some (flip (turn p), Pawn)))) (turn p) = false.
Proof.
  unfold ep_ok. intros H E. rewrite E in H. cbv zeta in H.
  repeat (apply andb_true_iff in H; let H' := fresh "H" in destruct H as [H H']).
  apply N.eqb_eq in H. apply negb_true_iff in H0. auto 10.
Qed.

(* the squares between king and rook are empty: the king's target and the rook's target *)
Lemma castle_ok_inv p long :
  castle_ok p long = true ->
  let c := turn p in
  holds p (king_home c) c King = true /\ holds p (rook_home c long) c Rook = true /\
  forallb (empty p) (between (king_home c) (rook_home c long)) = true.
Proof.
  unfold castle_ok. cbv zeta. intros H.
  repeat (apply andb_true_iff in H; let H' := fresh "H" in destruct H as [H H']).
  auto.
Qed.

(* ------------------------------------------------------------------------------------------ *)
(* counting under two puts; putting a piece back *)

Lemma count_put2 l a b x y c k :
  length l = 64%nat -> a < 64 -> b < 64 -> a <> b ->
  count (posL (put (put l a x) b y)) c k =
  (count (posL l) c k - b2z (matchv (who (posL l) a) c k) + b2z (matchv x c k)
                      - b2z (matchv (who (posL l) b) c k) + b2z (matchv y c k))%Z.
Proof.
  intros Hl Ha Hb Hab.
  rewrite count_put by (rewrite ?put_length; assumption).
  rewrite count_put by assumption.
  rewrite who_put_other by assumption. reflexivity.
Qed.

Lemma count_posL_at p c k : count (posL (at_ p)) c k = count p c k.
Proof. apply count_at. reflexivity. Qed.

Lemma material_ok_posL_at p c : material_ok (posL (at_ p)) c = material_ok p c.
Proof. apply material_ok_at. reflexivity. Qed.

Lemma holds_posL_at p s c k : holds (posL (at_ p)) s c k = holds p s c k.
Proof. reflexivity. Qed.

Lemma put_back l a b x v :
  nthN l a None = v -> nthN l b None = None -> a <> b ->
  put (put (put (put l a None) b x) b None) a v = l.
Proof.
  intros Ha Hb Hab. unfold put.
  rewrite updN_updN_same. rewrite (updN_updN_comm l a b) by exact Hab.
  rewrite updN_updN_same. rewrite <- Hb at 1. rewrite updN_nthN_id.
  rewrite <- Ha. apply updN_nthN_id.
Qed.


(* ------------------------------------------------------------------------------------------ *)
(* the clauses of valid *)

Lemma valid_inv p :
  valid p = true ->
  length (at_ p) = 64%nat /\ material_ok p White = true /\ material_ok p Black = true /\
  no_pawn_on_edge p = true /\ in_check_spec p (flip (turn p)) = false /\
  rights_consistent p = true /\ ep_ok p = true.
Proof.
  unfold valid. intros H.
  repeat (apply andb_true_iff in H; let H' := fresh "H" in destruct H as [H H']).
  apply Nat.eqb_eq in H. apply negb_true_iff in H2. auto 10.
Qed.

Lemma valid_intro p :
  length (at_ p) = 64%nat -> material_ok p White = true -> material_ok p Black = true ->
  no_pawn_on_edge p = true -> in_check_spec p (flip (turn p)) = false ->
  rights_consistent p = true -> ep_ok p = true -> valid p = true.
Proof.
  intros H1 H2 H3 H4 H5 H6 H7. unfold valid.
  rewrite H2, H3, H4, H5, H6, H7. apply Nat.eqb_eq in H1. rewrite H1. reflexivity.
Qed.

Lemma material_ok_color p c : material_ok p White = true -> material_ok p Black = true -> material_ok p c = true.
Proof. destruct c; auto. Qed.

Lemma material_king p c : material_ok p c = true -> count p c King = 1%Z.
Proof. unfold material_ok. intros H. apply andb_true_iff in H. destruct H as [H _]. apply Z.eqb_eq in H. exact H. Qed.

Lemma npe_elim p s c :
  no_pawn_on_edge p = true -> s < 64 -> holds p s c Pawn = true -> rank_n s <> 0 /\ rank_n s <> 7.
Proof.
  intros H Hs Hh. unfold no_pawn_on_edge in H. apply (forallb_squares _ s) in H; [|exact Hs].
  apply orb_true_iff in H. destruct H as [H|H].
  - apply negb_true_iff, orb_false_iff in H. destruct H as [H1 H2]. apply N.eqb_neq in H1, H2. auto.
  - apply negb_true_iff, orb_false_iff in H. destruct H as [H1 H2]. destruct c; congruence.
Qed.

Lemma npe_intro p :
  (forall s c, s < 64 -> holds p s c Pawn = true -> rank_n s <> 0 /\ rank_n s <> 7) ->
  no_pawn_on_edge p = true.
Proof.
  intros H. unfold no_pawn_on_edge. apply forallb_forall. intros s Hs. apply squares64_In in Hs.
  destruct (holds p s White Pawn) eqn:EW.
  - destruct (H s White Hs EW) as [H1 H2]. apply N.eqb_neq in H1, H2. rewrite H1, H2. reflexivity.
  - destruct (holds p s Black Pawn) eqn:EB.
    + destruct (H s Black Hs EB) as [H1 H2]. apply N.eqb_neq in H1, H2. rewrite H1, H2. reflexivity.
    + cbn [orb negb]. apply orb_true_r.
Qed.

Lemma rc_elim p c long :
  rights_consistent p = true -> has_right p c long = true ->
  holds p (king_home c) c King = true /\ holds p (rook_home c long) c Rook = true.
Proof.
  unfold rights_consistent. intros H Hr. rewrite forallb_forall in H.
  specialize (H (c, long)). cbv beta iota in H. rewrite Hr in H. cbn [negb orb] in H.
  apply andb_true_iff. apply H. destruct c, long; cbn; auto.
Qed.

Lemma rc_intro p :
  (forall c long, has_right p c long = true ->
     holds p (king_home c) c King = true /\ holds p (rook_home c long) c Rook = true) ->
  rights_consistent p = true.
Proof.
  intros H. unfold rights_consistent. apply forallb_forall. intros [c long] _.
  destruct (has_right p c long) eqn:E; [|reflexivity]. destruct (H c long E) as [H1 H2].
  rewrite H1, H2. reflexivity.
Qed.


(* ------------------------------------------------------------------------------------------ *)
(* with_placement *)

Lemma at_with_placement p l : at_ (with_placement p l) = l.
Proof. reflexivity. Qed.
Lemma turn_with_placement p l : turn (with_placement p l) = turn p.
Proof. reflexivity. Qed.
Lemma who_with_placement p l s : who (with_placement p l) s = nthN l s None.
Proof. reflexivity. Qed.
Lemma who_with_placement_posL p l s : who (with_placement p l) s = who (posL l) s.
Proof. reflexivity. Qed.

(* removing what stands on a square, adding on an empty square *)
Lemma count_remove l s c k :
  length l = 64%nat -> s < 64 ->
  count (posL (put l s None)) c k = (count (posL l) c k - b2z (matchv (who (posL l) s) c k))%Z.
Proof. intros Hl Hs. rewrite count_put by assumption. cbn [matchv b2z]. lia. Qed.

Lemma count_add l s v c k :
  length l = 64%nat -> s < 64 -> who (posL l) s = None ->
  count (posL (put l s v)) c k = (count (posL l) c k + b2z (matchv v c k))%Z.
Proof. intros Hl Hs Hw. rewrite count_put, Hw by assumption. cbn [matchv b2z]. lia. Qed.
