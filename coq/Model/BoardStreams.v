(* Correspondence entry points for the board model (streams over list Z). *)
From Coq Require Import NArith ZArith List Bool.
From Chess3 Require Import Base.Bits Model.Types Model.Att Model.BoardDef Model.Board Gen.Zobrist.
Import ListNotations.
Open Scope Z_scope.

Definition zb (b : bool) : Z := if b then 1 else 0.

(* stream "mk": board-in ++ [kind; move]   kind 0 = MakeMove/UndoMove, 1 = MakeNullMove/UndoNullMove
   output: board-out after make ++ [token] ++ board-out after undo
           ++ [calculateHash after make; Threefold after make; InCheck(mover) after make; InCheck(side to move) after make] *)
Definition run_mk (l : list Z) : list Z :=
  match decode_board l with
  | Some (b, kind :: m :: _) =>
      let m := Z.to_N m in
      let '(b1, r) := if kind =? 0 then make zob_real b m else make_null zob_real b in
      let b2 := if kind =? 0 then undo zob_real b1 m r else undo_null b1 r in
      encode_board b1 ++ [Z.of_N r] ++ encode_board b2 ++
      [Z.of_N (calc_hash zob_real b1); threefold b1; zb (in_check b1 (stm b)); zb (in_check b1 (stm b1))]
  | _ => []
  end.

(* stream "gen": board-in -> [#noisy; noisy...; #quiet; quiet...; #playable; playable...]  (exact order) *)
From Chess3 Require Import Model.Movegen.
Definition zlist (l : list N) : list Z := Z.of_nat (length l) :: map Z.of_N l.
(* The lists are compared as SORTED lists: C01 is about the set of moves (and absence of duplicates,
   which sorting keeps visible), not about the order in which the generator emits them; a change of the
   emission order is therefore not a disagreement of this stream.  (The order-sensitive consumers - the
   picker, the search - receive the lists as the engine produced them.) *)
Fixpoint insN (x : N) (l : list N) : list N :=
  match l with [] => [x] | y :: r => if (x <=? y)%N then x :: l else y :: insN x r end.
Definition sortN (l : list N) : list N := fold_right insN [] l.
Definition run_gen (l : list Z) : list Z :=
  match decode_board l with
  | Some (b, _) => zlist (sortN (gen_noisy b)) ++ zlist (sortN (gen_quiet b)) ++ zlist (sortN (playable zob_real b))
  | None => []
  end.

(* stream "ipl": board-in -> every encoding 0..32767 accepted by IsPseudoLegal, ascending *)
Fixpoint upto (k : nat) (i : N) : list N := match k with O => [] | S k' => i :: upto k' (N.succ i) end.
Definition all_encodings : list N := flat_map (fun hi => upto 64 (hi * 64)%N) (upto 512 0%N).
Definition run_ipl (l : list Z) : list Z :=
  match decode_board l with
  | Some (b, _) => map Z.of_N (filter (is_pseudo_legal b) all_encodings)
  | None => []
  end.
