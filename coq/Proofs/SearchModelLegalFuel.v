(* The outcome OutOfFuel of the closed search model (Model/Search.v): what is proved and what is missing.
   The model spends one unit of `fuel` per nested call of alphaBeta / quiescence and has three loop
   counters: the move loop of alphaBeta (400), the move loop of quiescence (S (number of moves)) and the
   aspiration loop (64).  Proved here:
     - alphaBeta never nests deeper than ply 63: at ply 63 its body is setNull followed by quiescence,
       whatever the depth; every nested call is one ply further (so 64 - ply units suffice for the
       alphaBeta part of a line);
     - the counter of quiescence's move loop never runs out: the loop returns OutOfFuel only if a nested
       quiescence call did.
   NOT proved (the statements are kept below): that quiescence nests at most 48 deep (every move it
   plays is a capture or a promotion - no characterisation of GenNoisy exists in the development), that a
   valid position has at most 398 generated moves (move loop counter 400) and that an iteration needs
   fewer than 64 re-searches (needs bounds on all values of the search, see Proofs/SearchModelLegalNull.v). *)
From Coq Require Import NArith ZArith List Bool Lia.
From Chess3 Require Import Base.Bits Base.Word Model.Types Model.BoardDef Model.Board Model.Search
  Spec.Chess Spec.Rep Proofs.PickerProofs Proofs.SearchModelInv Proofs.SearchModelLegalBase.
From Chess3 Require Model.Movegen Model.TT Model.Picker Model.Pv Model.IterDeepen.
Import ListNotations.
Open Scope Z_scope.

(* ---- alphaBeta stops nesting at ply MaxPlies - 1 ---- *)
Lemma alphaBeta_at_max_ply f o st b al be d nt :
  alphaBeta (S f) o st b al be d 63 nt =
  (do pv1 <- of_opt (Pv.set_null (s_pv st) 63);; quiescence f o (set_pv st pv1) b al be 63).
Proof.
  cbn [alphaBeta]. unfold ab_body. destruct (Pv.set_null (s_pv st) 63) as [pv1|]; cbn [of_opt bind]; [|reflexivity].
  change (SearchParams.MaxPlies - 1 <=? 63) with true. rewrite orb_true_r. reflexivity.
Qed.

(* ---- the move loop of quiescence ---- *)
Lemma set_nth_length (l : list Picker.wmove) i v : length (Picker.set_nth l i v) = length l.
Proof.
  unfold Picker.set_nth. rewrite <- (firstn_skipn i l) at 3. rewrite !app_length. f_equal.
  destruct (skipn i l); reflexivity.
Qed.

Lemma swap_length l i j : length (Picker.swap l i j) = length l.
Proof. unfold Picker.swap. now rewrite !set_nth_length. Qed.

Lemma scan_some_nonempty l i thr best : Picker.scan l i thr None = Some best -> l <> [].
Proof. intros H ->. discriminate H. Qed.

Section QLoop.
  Variable qchild : sstate -> board -> Z -> Z -> Z -> res rt.

  Definition child_out : Prop := exists st b al be ply, qchild st b al be ply = OutOfFuel.

  Lemma piece_value_fuel p : piece_value p <> OutOfFuel.
  Proof. unfold piece_value. destruct (_ <? _); discriminate. Qed.

  Lemma qs_loop_counter : forall n st b moves nx al be maxim delta ply,
    (length moves < n + nx)%nat -> (nx <= length moves)%nat ->
    qs_loop qchild n st b moves nx al be maxim delta ply = OutOfFuel -> child_out.
  Proof.
    induction n as [|n IH]; intros st b moves nx al be maxim delta ply H1 H2 H; [lia|].
    cbn [qs_loop] in H.
    destruct (Picker.scan (skipn nx moves) nx (wrap16 (- SearchParams.Inf - 1)) None) as [best|] eqn:Es; [|discriminate H].
    apply scan_some_nonempty in Es.
    assert (Hnx : (nx < length moves)%nat).
    { destruct (Nat.lt_ge_cases nx (length moves)) as [L|L]; [exact L|]. exfalso. apply Es. apply skipn_all2. exact L. }
    set (moves' := Picker.swap moves nx best) in *.
    assert (Hl : length moves' = length moves) by apply swap_length.
    destruct (snd (nth nx moves' (0, 0)) <? 0); [discriminate H|].
    destruct (make zob b (Z.to_N (fst (nth nx moves' (0, 0))))) as [b1 r].
    destruct (in_check b1 (flip (stm b1))).
    { eapply IH; [| |exact H]; lia. }
    destruct (piece_value _) as [g0| |] eqn:Eg; cbn [bind] in H; [|discriminate H|exact (False_ind _ (piece_value_fuel _ Eg))].
    match type of H with bind ?e _ = _ => destruct e as [g| |] eqn:Eg2 end; cbn [bind] in H; [|discriminate H|].
    2:{ exfalso. destruct (negb _) in Eg2; [|discriminate Eg2].
        destruct (piece_value (mv_promo _)) as [x| |] eqn:E1 in Eg2; cbn [bind] in Eg2; [|discriminate Eg2|exact (piece_value_fuel _ E1)].
        destruct (piece_value Pawn) as [y| |] eqn:E2 in Eg2; cbn [bind] in Eg2; [discriminate Eg2|discriminate Eg2|exact (piece_value_fuel _ E2)]. }
    destruct (add16 g delta <? al); [discriminate H|].
    match type of H with bind ?e _ = _ => destruct e as [[[v st1] b2]| |] eqn:Ec end; cbn [bind] in H; [|discriminate H|].
    2:{ do 5 eexists. exact Ec. }
    destruct (s_aborted st1); [discriminate H|]. destruct (be <=? neg16 v); [discriminate H|].
    eapply IH; [| |exact H]; lia.
  Qed.
End QLoop.

(* as quiescence starts it *)
Lemma qs_pushed_counter qchild st b al be ply sp :
  qs_pushed qchild st b al be ply sp = OutOfFuel -> child_out qchild.
Proof.
  intros H. unfold qs_pushed in H.
  destruct (Picker.store_alloc_all _ _); cbn [of_opt bind] in H; [|discriminate H].
  match type of H with bind ?e _ = _ => destruct e as [moves| |] eqn:Er end; cbn [bind] in H; [|discriminate H|].
  - eapply qs_loop_counter; [| |exact H]; lia.
  - exfalso. revert Er. unfold ranked. generalize (Movegen.gen_noisy b). intros l.
    induction l as [|m l IHl]; cbn [map_res]; [discriminate|].
    destruct (rank_noisy_b (s_rk st) b m) as [w| |] eqn:Ew; cbn [bind]; [|discriminate|].
    + destruct (map_res _ l) as [ys| |]; cbn [bind]; [discriminate|discriminate|exact IHl].
    + intros _. unfold rank_noisy_b in Ew.
      destruct (if (piece_at b (capture_sq b m) =? NoPiece)%N then _ else _) as [c| |] eqn:Ec in Ew; cbn [bind] in Ew; [| discriminate Ew |].
      * destruct (See.see_panics m); discriminate Ew.
      * destruct (_ =? _)%N in Ec; [discriminate Ec|]. destruct (Hist.capthist_get _ _ _ _) in Ec; discriminate Ec.
Qed.

(* ---- the statements that are missing for "OutOfFuel never happens" ---- *)

(* every line of quiescence captures at most 30 men and promotes at most 16 pawns *)
Definition quiescence_depth_statement : Prop :=
  forall o st b al be ply, Rep b -> valid (abs b) = true -> quiescence 48 o st b al be ply <> OutOfFuel.

(* a valid position has fewer generated moves than the move loop's counter *)
Definition gen_count_statement : Prop :=
  forall b, Rep b -> valid (abs b) = true -> (length (Movegen.gen_all b) <= 398)%nat.

(* the target *)
Definition no_out_of_fuel_statement : Prop :=
  forall o st b, Rep b -> valid (abs b) = true -> tt_ok (s_tt st) -> Proofs.PvProofs.wf (s_pv st) ->
  go search_fuel o st b <> OutOfFuel.
