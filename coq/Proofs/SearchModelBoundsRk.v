(* The move-ordering histories of the engine state stay reachable (Proofs/HistProofs.v: arising from the
   cleared ranker by FailHigh / Add calls) through quiescence and alphaBeta: the only writer is
   MoveRanker.FailHigh after a cut-off.  The walk of Proofs/SearchModelInv.v, with its hypothesis "any
   replacement of the ranker respects R" weakened to "a FailHigh result respects R". *)
From Coq Require Import NArith ZArith List Bool Lia.
From Chess3 Require Import Base.Bits Base.Word Model.Types Model.BoardDef Model.Board Model.Search
  Proofs.SearchModelInv Proofs.HistProofs.
From Chess3 Require Model.Movegen Model.Mate Model.Eval Model.TT Model.Hist Model.Picker Model.See
  Model.Pv Model.IterDeepen.
Import ListNotations.
Open Scope Z_scope.

(* wrapped in an inductive so that tactics introducing hypotheses do not see an implication *)
Inductive rkR (st st' : sstate) : Prop := mkRk (_ : reachable (s_rk st) -> reachable (s_rk st')).

Lemma rkR_elim st st' : rkR st st' -> reachable (s_rk st) -> reachable (s_rk st').
Proof. intros [H]. exact H. Qed.

Lemma rkR_refl s : rkR s s.
Proof. constructor. exact (fun H => H). Qed.
Lemma rkR_trans a b c : rkR a b -> rkR b c -> rkR a c.
Proof. intros [H1] [H2]. constructor. auto. Qed.
Lemma rkR_eq s s' : s_rk s' = s_rk s -> rkR s s'.
Proof. intros E. constructor. rewrite E. auto. Qed.
Lemma rkR_tt s v : rkR s (set_tt s v).
Proof. now apply rkR_eq. Qed.
Lemma rkR_ms s v : rkR s (set_ms s v).
Proof. now apply rkR_eq. Qed.
Lemma rkR_hs s v : rkR s (set_hs s v).
Proof. now apply rkR_eq. Qed.
Lemma rkR_pv s v : rkR s (set_pv s v).
Proof. now apply rkR_eq. Qed.
Lemma rkR_trace s v : rkR s (set_trace s v).
Proof. now apply rkR_eq. Qed.
Lemma rkR_inc o s : rkR s (inc_nodes o s).
Proof. apply rkR_eq. unfold inc_nodes. destruct (IterDeepen.increment_nodes _ _ _). reflexivity. Qed.
Lemma rkR_fh s d stm t0 t1 mv rk : Hist.fail_high d stm t0 t1 mv (s_rk s) = Some rk -> rkR s (set_rk s rk).
Proof. intros E. constructor. intros H. cbn [s_rk set_rk]. eapply reach_fail_high; eassumption. Qed.
Lemma rkR_tracef s ply ev : rkR s (trace s ply ev).
Proof. unfold trace. destruct (ply <=? s_tracing s); [apply rkR_trace|apply rkR_refl]. Qed.
Lemma rkR_insert s b d ply sm v t : rkR s (tt_insert s b d ply sm v t).
Proof. apply rkR_tt. Qed.

Ltac solveK o :=
  repeat first
    [ apply rkR_refl
    | match goal with
      | |- rkR ?a (set_tt ?s _) => apply (rkR_trans a s); [ | apply rkR_tt ]
      | E : Hist.fail_high _ _ _ _ _ (s_rk ?s) = Some ?v |- rkR ?a (set_rk ?s ?v) => apply (rkR_trans a s); [ | exact (rkR_fh _ _ _ _ _ _ _ E) ]
      | |- rkR ?a (set_ms ?s _) => apply (rkR_trans a s); [ | apply rkR_ms ]
      | |- rkR ?a (set_hs ?s _) => apply (rkR_trans a s); [ | apply rkR_hs ]
      | |- rkR ?a (set_pv ?s _) => apply (rkR_trans a s); [ | apply rkR_pv ]
      | |- rkR ?a (set_trace ?s _) => apply (rkR_trans a s); [ | apply rkR_trace ]
      | |- rkR ?a (trace ?s _ _) => apply (rkR_trans a s); [ | apply rkR_tracef ]
      | |- rkR ?a (tt_insert ?s _ _ _ _ _ _) => apply (rkR_trans a s); [ | apply rkR_insert ]
      | |- rkR ?a (inc_nodes o ?s) => apply (rkR_trans a s); [ | apply rkR_inc ]
      | |- rkR _ (if ?c then _ else _) => destruct c
      | Hc : rkR ?s0 ?s |- rkR ?a ?s => apply (rkR_trans a s0); [ | exact Hc ]
      end ].

Lemma quiescence_rk o fuel st b al be ply v st' b' :
  quiescence fuel o st b al be ply = Ok (v, st', b') -> rkR st st'.
Proof.
  exact (quiescence_R o rkR rkR_refl rkR_trans rkR_tt rkR_ms rkR_trace (rkR_inc o) fuel st b al be ply v st' b').
Qed.

Section Node.
  Variable o : opts.
  Variable child : sstate -> board -> Z -> Z -> Z -> Z -> Z -> res rt.
  Variable qs : sstate -> board -> Z -> Z -> Z -> res rt.
  Hypothesis Hc : ab_ok rkR child.
  Hypothesis Hq : q_ok rkR qs.

  Ltac use_child := repeat match goal with E : child _ _ _ _ _ _ _ = Ok _ |- _ => apply Hc in E end.

  Lemma search_move_K st b1 al be d ply nt next mc qc ic imp v st' b' :
    search_move child st b1 al be d ply nt next mc qc ic imp = Ok (v, st', b') -> rkR st st'.
  Proof. intros H. unfold search_move in H. walk; use_child; solveK o. Qed.

  Lemma ab_finish_K st b d ply maxim best ic hl fl v st' b' :
    ab_finish st b d ply maxim best ic hl fl = Ok (v, st', b') -> rkR st st'.
  Proof. intros H. unfold ab_finish in H. walk; solveK o. Qed.

  Lemma ab_loop_K : forall n st b p al be d ply nt se maxim best ic imp hl fl mc qc v st' b',
    ab_loop child n st b p al be d ply nt se maxim best ic imp hl fl mc qc = Ok (v, st', b') -> rkR st st'.
  Proof.
    induction n as [|n IH]; intros st b p al be d ply nt se maxim best ic imp hl fl mc qc v st' b' H; [discriminate H|].
    cbn [ab_loop] in H. walk;
      repeat match goal with E : search_move _ _ _ _ _ _ _ _ _ _ _ _ _ = Ok _ |- _ => apply search_move_K in E end;
      repeat match goal with E : ab_finish _ _ _ _ _ _ _ _ _ = Ok _ |- _ => apply ab_finish_K in E end;
      repeat match goal with E : ab_loop _ _ _ _ _ _ _ _ _ _ _ _ _ _ _ _ _ _ _ = Ok _ |- _ => apply IH in E end;
      solveK o.
  Qed.

  Lemma ab_static_K st b be d ply ic e st' b' :
    ab_static child st b be d ply ic = Ok (e, st', b') -> rkR st st'.
  Proof. intros H. unfold ab_static in H. walk; use_child; solveK o. Qed.

  Lemma ab_body_K : ab_ok rkR (ab_body o child qs).
  Proof.
    intros st b al be d ply nt v st' b' H. unfold ab_body in H. walk;
      repeat match goal with E : ab_static _ _ _ _ _ _ _ = Ok _ |- _ => apply ab_static_K in E end;
      repeat match goal with E : ab_loop _ _ _ _ _ _ _ _ _ _ _ _ _ _ _ _ _ _ _ = Ok _ |- _ => apply ab_loop_K in E end;
      repeat match goal with E : qs _ _ _ _ _ = Ok _ |- _ => apply Hq in E end;
      solveK o.
  Qed.
End Node.

Lemma alphaBeta_rk o : forall fuel, ab_ok rkR (alphaBeta fuel o).
Proof.
  induction fuel as [|f IH]; intros st b al be d ply nt v st' b' H; [discriminate H|].
  cbn [alphaBeta] in H.
  refine (ab_body_K o _ _ IH _ _ _ _ _ _ _ _ _ _ _ H).
  intros s x a e p w s' x' E. exact (quiescence_rk o f _ _ _ _ _ _ _ _ E).
Qed.

(* ---- iterative deepening, Search.Go, New, Clear ---- *)
Lemma fallback_rk st b mv st' b' : fallback st b = Ok (mv, st', b') -> rkR st st'.
Proof. intros H. unfold fallback in H. walk. apply rkR_ms. Qed.

Lemma aspire_rk fuel o : forall n st b al be f d a,
  aspire fuel o n st b al be f d = Ok a ->
  match a with AspOk _ st' _ => rkR st st' | AspAbort st' _ => rkR st st' end.
Proof.
  induction n as [|n IH]; intros st b al be f d a H; [discriminate H|].
  cbn [aspire] in H. walk;
    repeat match goal with E : alphaBeta _ _ _ _ _ _ _ _ _ = Ok _ |- _ => apply alphaBeta_rk in E end;
    repeat match goal with E : aspire _ _ _ _ _ _ _ _ _ = Ok _ |- _ => apply IH in E end;
    try destruct a; solveK o.
Qed.

Lemma deepen_rk fuel o : forall todo st b d al be sc mv pd reps r st' b',
  deepen fuel o todo st b d al be sc mv pd reps = Ok (r, st', b') -> rkR st st'.
Proof.
  induction todo as [|t IH]; intros st b d al be sc mv pd reps r st' b' H.
  - cbn [deepen] in H. walk. apply rkR_refl.
  - cbn [deepen] in H. walk;
      repeat match goal with E : aspire _ _ _ _ _ _ _ _ _ = Ok _ |- _ => apply aspire_rk in E; cbn beta iota in E end;
      repeat match goal with E : fallback _ _ = Ok _ |- _ => apply fallback_rk in E end;
      repeat match goal with E : deepen _ _ _ _ _ _ _ _ _ _ _ _ = Ok _ |- _ => apply IH in E end;
      solveK o.
Qed.

Theorem go_rk fuel o st b r st' b' : go fuel o st b = Ok (r, st', b') -> reachable (s_rk st) -> reachable (s_rk st').
Proof.
  intros H Hr. unfold go, iterative_deepen in H. walk.
  match goal with E : deepen _ _ _ _ _ _ _ _ _ _ _ _ = Ok _ |- _ => apply deepen_rk in E; apply (rkR_elim _ _ E) in Hr end.
  exact Hr.
Qed.

Lemma new_state_rk size st : new_state size = Ok st -> reachable (s_rk st).
Proof. unfold new_state. intros H. walk. apply reach_new. Qed.

Lemma clear_state_rk st : reachable (s_rk (clear_state st)).
Proof. apply reach_new. Qed.
