package main

import (
	. "github.com/paulsonkoly/chess-3/chess"
	"github.com/paulsonkoly/chess-3/transp"
)

// Constants of transp/transp.go and chess/types.go the transposition table model depends on.
func init() {
	generators = append(generators, func() {
		f := newFile("TTConsts.v", "From Coq Require Import ZArith.\nOpen Scope Z_scope.")
		entryCnt, bucketBytes, keyBits := transp.VerifConsts()
		f.p("Definition Inf : Z := %d.\n", int64(Inf))
		f.p("Definition Inv : Z := %d.\n", int64(Inv))
		f.p("Definition MaxPlies : Z := %d.\n", int64(MaxPlies))
		f.p("Definition bucketEntryCnt : Z := %d.\n", entryCnt)
		f.p("Definition bucketSize : Z := %d.\n", bucketBytes)
		f.p("Definition partialKeyBits : Z := %d.\n", keyBits)
		f.p("Definition UpperBound : Z := %d.\n", int64(transp.UpperBound))
		f.p("Definition LowerBound : Z := %d.\n", int64(transp.LowerBound))
		f.p("Definition Exact : Z := %d.\n", int64(transp.Exact))
		// the mate window as the Go compiler evaluates the typed constant expressions of transp.go
		f.p("Definition MateHi : Z := %d. (* Inf-MaxPlies *)\n", int64(Inf-MaxPlies))
		f.p("Definition MateLo : Z := %d. (* -Inf+MaxPlies *)\n", int64(-Inf+MaxPlies))
	})
}
