(* C18, the pure list half: the early-exit / res toggle / `swap < res` loop of see.go run over a list
   of captured values answers exactly "threshold <= balance", where balance is the negamax value of
   the alternating capture sequence in which each side may stop (Spec/SeeSpec.v). *)
From Coq Require Import NArith ZArith List Bool Lia.
From Chess3 Require Import Base.Word Model.See Spec.SeeSpec.
Import ListNotations.
Open Scope Z_scope.

Lemma best_reply_nonneg l : 0 <= best_reply l.
Proof. destruct l as [|g r]; cbn [best_reply]; lia. Qed.

(* the values that follow the first one fit a Score and are not negative *)
Definition gains_ok (l : list Z) : Prop := Forall (fun g => 0 <= g <= 32767) l.

Lemma lxor_1_0 : Z.lxor 1 1 = 0. Proof. reflexivity. Qed.
Lemma lxor_0_1 : Z.lxor 0 1 = 1. Proof. reflexivity. Qed.

(* the loop invariant, both parities at once:
     res = 1 on entry (the side that played the move is to capture next, swap > 0):
         the loop answers  swap <= best_reply l
     res = 0 on entry (the opponent is to capture next, swap >= 0):
         the loop answers  best_reply l <= swap                                          *)
Lemma see_tail_spec l : gains_ok l -> forall s,
  (0 < s <= 32767 -> see_tail l s 1 = (s <=? best_reply l)) /\
  (0 <= s <= 32767 -> see_tail l s 0 = (best_reply l <=? s)).
Proof.
  induction l as [|g r IH]; intros Hok s.
  - cbn [see_tail best_reply]. rewrite lxor_1_0, lxor_0_1. split; intros Hs.
    + cbn. symmetry. apply Z.leb_gt. lia.
    + cbn. symmetry. apply Z.leb_le. lia.
  - inversion Hok as [|g' r' Hg Hr]; subst.
    specialize (IH Hr).
    pose proof (best_reply_nonneg r) as Hnn.
    cbn [see_tail best_reply]. rewrite lxor_1_0, lxor_0_1. split; intros Hs.
    + rewrite wrap16_id by lia.
      destruct (g - s <? 0) eqn:E.
      * apply Z.ltb_lt in E. cbn. symmetry. apply Z.leb_gt. lia.
      * apply Z.ltb_ge in E. destruct (IH (g - s)) as [_ IH0]. rewrite IH0 by lia.
        destruct (Z.leb_spec (best_reply r) (g - s)); symmetry; [apply Z.leb_le|apply Z.leb_gt]; lia.
    + rewrite wrap16_id by lia.
      destruct (g - s <? 1) eqn:E.
      * apply Z.ltb_lt in E. cbn. symmetry. apply Z.leb_le. lia.
      * apply Z.ltb_ge in E. destruct (IH (g - s)) as [IH1 _]. rewrite IH1 by lia.
        destruct (Z.leb_spec (g - s) (best_reply r)); symmetry; [apply Z.leb_le|apply Z.leb_gt]; lia.
Qed.

(* the general statement: no int16 wrap means "g0 - t fits a Score, later values are 0..32767" *)
Lemma see_loop_balance_gen g0 r t :
  gains_ok r -> -32768 <= g0 - t <= 32767 ->
  see_loop (g0 :: r) t = (t <=? balance (g0 :: r)).
Proof.
  intros Hok Ht. cbn [see_loop balance].
  rewrite wrap16_id by lia.
  pose proof (best_reply_nonneg r) as Hnn.
  destruct (g0 - t <? 0) eqn:E0.
  - apply Z.ltb_lt in E0. symmetry. apply Z.leb_gt. lia.
  - apply Z.ltb_ge in E0.
    destruct r as [|g1 r'].
    + cbn [best_reply]. symmetry. apply Z.leb_le. lia.
    + inversion Hok as [|g' r'' Hg Hr]; subst.
      pose proof (best_reply_nonneg r') as Hnn'.
      rewrite wrap16_id by lia.
      destruct (g1 - (g0 - t) <=? 0) eqn:E1.
      * apply Z.leb_le in E1. symmetry. apply Z.leb_le. cbn [best_reply]. lia.
      * apply Z.leb_gt in E1.
        destruct (see_tail_spec r' Hr (g1 - (g0 - t))) as [H1 _]. rewrite H1 by lia.
        cbn [best_reply].
        destruct (Z.leb_spec (g1 - (g0 - t)) (best_reply r')); symmetry; [apply Z.leb_le|apply Z.leb_gt]; lia.
Qed.

(* the statement with the bounds of the property: values 0..12000, |threshold| <= 20000 *)
Definition values_bounded (l : list Z) : Prop := Forall (fun g => 0 <= g <= 12000) l.

Lemma see_loop_balance gains t :
  gains <> [] -> values_bounded gains -> -20000 <= t <= 20000 ->
  see_loop gains t = (t <=? balance gains).
Proof.
  intros Hne Hb Ht. destruct gains as [|g0 r]; [congruence|].
  inversion Hb as [|g' r' Hg Hr]; subst.
  apply see_loop_balance_gen; [|lia].
  eapply Forall_impl; [|exact Hr]. cbv beta. intros a Ha. lia.
Qed.

(* monotone in the threshold *)
Lemma see_loop_mono gains t t' :
  gains <> [] -> values_bounded gains -> -20000 <= t <= 20000 -> -20000 <= t' <= 20000 ->
  see_loop gains t = true -> t' <= t -> see_loop gains t' = true.
Proof.
  intros Hne Hb Ht Ht' H Hle.
  rewrite see_loop_balance in * by assumption.
  apply Z.leb_le in H. apply Z.leb_le. lia.
Qed.
