package streams

import (

	"verifharness/hx"
	"verifharness/posgen"
)

// mk: board-in ++ [kind move] -> snapshot after make, token, snapshot after undo, recomputed hash,
// repetition count and check flags after make (see coq/Model/BoardStreams.v run_mk).
func init() {
	hx.Register(&hx.Stream{Name: "mk", Gen: genMk, Run: runMk})
}

func runMk(a hx.Args) string {
	b, i := a.Board(0)
	kind, m := a.Int(i), hx.U2M(a.U64(i+1))
	me := b.STM
	out := &hx.Nums{}
	if kind == 0 {
		r := b.MakeMove(m)
		out.BoardOut(b).U(uint64(r))
		h, t, c1, c2 := b.VerifCalcHash(), b.Threefold(), b.InCheck(me), b.InCheck(b.STM)
		b.UndoMove(m, r)
		out.BoardOut(b).U(uint64(h)).Int(int(t)).B(c1).B(c2)
	} else {
		r := b.MakeNullMove()
		out.BoardOut(b).U(uint64(r))
		h, t, c1, c2 := b.VerifCalcHash(), b.Threefold(), b.InCheck(me), b.InCheck(b.STM)
		b.UndoNullMove(r)
		out.BoardOut(b).U(uint64(h)).Int(int(t)).B(c1).B(c2)
	}
	return out.String()
}

func genMk(rng *hx.Rng, n int, tier string, emit func(hx.Input)) {
	cnt := 0
	for cnt < n {
		posgen.Stream(rng, 50, func(p posgen.Pos) {
			if cnt >= n {
				return
			}
			in := (&hx.Nums{}).BoardIn(p.B).String()
			ms := posgen.Pseudo(p.B)
			// a few pseudo-legal moves (legal or not) and sometimes the null move
			k := 1 + rng.Intn(4)
			for j := 0; j < k && len(ms) > 0 && cnt < n; j++ {
				m := ms[rng.Intn(len(ms))]
				emit(hx.Input{In: in + " 0 " + (&hx.Nums{}).U(hx.M2U(m)).String(), Desc: p.Desc() + " make " + m.String(),
					Tags: append(posgen.Tags(p.B), p.Kind), NonTrivial: true, Key: p.B.FEN() + m.String()})
				cnt++
			}
			if rng.Chance(0.3) && !p.B.InCheck(p.B.STM) && cnt < n {
				emit(hx.Input{In: in + " 1 0", Desc: p.Desc() + " null", Tags: []string{"null"}, NonTrivial: true, Key: p.B.FEN() + "null"})
				cnt++
			}
		})
	}
}
