(* C10, part 3: the engine side.  The hash history after playing moves is the list of the newest
   hashes of the boards met on the way; calculateHash depends only on the placement, the side to
   move, the castling rights and the en-passant square. *)
From Coq Require Import NArith ZArith List Bool Lia Arith.
From Chess3 Require Import Base.Bits Model.Types Model.BoardDef Model.Board Model.Rep3
     Spec.Geometry Spec.Chess Spec.Rep Spec.RepSpec Proofs.Rep3Chess.
Import ListNotations.
Open Scope N_scope.

(* ------------------------------------------------------------------------------------------ *)
(* MakeMove appends exactly one hash *)

Lemma rm_hashes z b c p sq : hashes (fst (remove_piece z b c p sq)) = hashes b.
Proof. unfold remove_piece. destruct (p =? NoPiece); reflexivity. Qed.
Lemma add_hashes z b c p sq : hashes (fst (add_piece z b c p sq)) = hashes b.
Proof. unfold add_piece. destruct (p =? NoPiece); reflexivity. Qed.

Lemma make_hashes z b m : hashes (fst (make z b m)) = cur_hash (fst (make z b m)) :: hashes b.
Proof.
  unfold make, make_l. cbv zeta.
  repeat match goal with
  | |- context [remove_piece ?z ?b ?c ?p ?s] =>
      let X := fresh "X" in
      pose proof (rm_hashes z b c p s) as X; destruct (remove_piece z b c p s) as [? ?]; cbn [fst] in X
  | |- context [add_piece ?z ?b ?c ?p ?s] =>
      let X := fresh "X" in
      pose proof (add_hashes z b c p s) as X; destruct (add_piece z b c p s) as [? ?]; cbn [fst] in X
  | |- context [if ?c then _ else _] => destruct c
  | |- context [match castle_rook ?a ?b with _ => _ end] => destruct (castle_rook a b) as [[? ?]|]
  end.
  all: cbn [fst hashes set_hashes set_stm set_ep cur_hash hd]; f_equal.
  all: cbn [hashes set_stm set_ep set_castles set_fifty set_full] in *; congruence.
Qed.

(* boards of a game, pointwise *)
Lemma run_boards_len z ms : forall b, length (run_boards z b ms) = S (length ms).
Proof. induction ms as [|m r IH]; intros b; simpl; [reflexivity|]. now rewrite IH. Qed.
Lemma run_boards_0 z b ms d : nth 0 (run_boards z b ms) d = b.
Proof. destruct ms; reflexivity. Qed.
Lemma run_boards_step z ms : forall b i d, (i < length ms)%nat ->
  nth (S i) (run_boards z b ms) d = fst (make z (nth i (run_boards z b ms) d) (nth i ms 0)).
Proof.
  induction ms as [|m r IH]; intros b i d H; simpl in H; [lia|].
  destruct i as [|i].
  - simpl. now rewrite run_boards_0.
  - change (nth (S (S i)) (run_boards z b (m :: r)) d) with (nth (S i) (run_boards z (fst (make z b m)) r) d).
    change (nth (S i) (run_boards z b (m :: r)) d) with (nth i (run_boards z (fst (make z b m)) r) d).
    change (nth (S i) (m :: r) 0) with (nth i r 0). apply IH. lia.
Qed.
Lemma run_moves_last z ms : forall b d, run_moves z b ms = nth (length ms) (run_boards z b ms) d.
Proof.
  induction ms as [|m r IH]; intros b d; [reflexivity|].
  change (run_moves z b (m :: r)) with (run_moves z (fst (make z b m)) r). rewrite (IH _ d). reflexivity.
Qed.

(* the hash history of the last board, newest first = the newest hashes of all boards, newest first *)
Lemma run_hashes z ms : forall b, hashes b = [cur_hash b] ->
  hashes (run_moves z b ms) = rev (map cur_hash (run_boards z b ms)).
Proof.
  assert (G : forall ms b, hashes (run_moves z b ms) = rev (map cur_hash (tl (run_boards z b ms))) ++ hashes b).
  { induction ms0 as [|m r IH]; intros b; [reflexivity|].
    change (run_moves z b (m :: r)) with (run_moves z (fst (make z b m)) r).
    rewrite IH, make_hashes.
    change (tl (run_boards z b (m :: r))) with (run_boards z (fst (make z b m)) r).
    destruct r as [|m' r'].
    - reflexivity.
    - cbn [run_boards tl map rev]. rewrite <- !app_assoc. reflexivity. }
  intros b Hb. rewrite G, Hb.
  destruct ms; cbn [run_boards tl map rev]; reflexivity.
Qed.

(* ------------------------------------------------------------------------------------------ *)
(* calculateHash is a function of placement, side to move, rights and en-passant square *)

Lemma map_eq_pointwise {A B} (f g : A -> B) l : map f l = map g l -> forall x, In x l -> f x = g x.
Proof.
  induction l as [|a l IH]; simpl; intros E x H; [contradiction|].
  inversion E. destruct H as [->|H]; auto.
Qed.

Lemma fold_left_ext_in {A B} (f g : A -> B -> A) l : (forall x, In x l -> forall a, f a x = g a x) ->
  forall a, fold_left f l a = fold_left g l a.
Proof.
  induction l as [|x l IH]; intros H a; simpl; [reflexivity|].
  rewrite H by (left; reflexivity). apply IH. intros y Hy. apply H. now right.
Qed.

Lemma forallb_nthN (f : N -> bool) l i d : forallb f l = true -> f d = true -> f (nthN l i d) = true.
Proof.
  intros H Hd. unfold nthN. destruct (nth_in_or_default (N.to_nat i) l d) as [I|E].
  - rewrite forallb_forall in H. now apply H.
  - now rewrite E.
Qed.

Lemma rep_facts b : Rep b ->
  (forall c, colors b c < two64) /\ (forall s, s < 64 -> sq_ok b s = true).
Proof.
  unfold Rep, rep_ok. intros H.
  repeat match goal with H : _ && _ = true |- _ => apply andb_prop in H; destruct H end.
  split.
  - intros c. unfold colors. apply N.ltb_lt.
    apply (forallb_nthN (fun x => x <? two64)); [assumption|reflexivity].
  - intros s Hs. match goal with H : forallb (sq_ok b) squares64 = true |- _ => rewrite forallb_forall in H; apply H end.
    now apply In_squares64.
Qed.

Lemma rep_color_bits b s : Rep b -> s < 64 ->
  (piece_at b s = 0 -> N.testbit (colors b White) s = false /\ N.testbit (colors b Black) s = false) /\
  (piece_at b s <> 0 -> N.testbit (colors b Black) s = negb (N.testbit (colors b White) s)).
Proof.
  intros R Hs. destruct (rep_facts b R) as [_ Q]. specialize (Q s Hs). unfold sq_ok in Q.
  repeat match goal with H : _ && _ = true |- _ => apply andb_prop in H; destruct H end.
  destruct (N.testbit (colors b White) s), (N.testbit (colors b Black) s);
    destruct (piece_at b s =? 0) eqn:E; simpl in *; try discriminate;
    (apply N.eqb_eq in E || apply N.eqb_neq in E); split; intros; try congruence; auto.
Qed.

Lemma abs_at_facts b b' s : at_ (abs b) = at_ (abs b') -> s < 64 ->
  piece_at b s = piece_at b' s /\
  (piece_at b s <> 0 -> N.testbit (colors b White) s = N.testbit (colors b' White) s).
Proof.
  intros A Hs. unfold abs in A. cbn [at_] in A.
  pose proof (map_eq_pointwise _ _ _ A s (In_squares64 _ Hs)) as E. cbv beta zeta in E.
  destruct (piece_at b s =? 0) eqn:K, (piece_at b' s =? 0) eqn:K'; try discriminate.
  - apply N.eqb_eq in K, K'. split; [congruence|]. intros X. congruence.
  - injection E as Hc Hk. split; [exact Hk|]. intros _.
    destruct (N.testbit (colors b White) s), (N.testbit (colors b' White) s); congruence.
Qed.

Lemma colors_eq b b' c : Rep b -> Rep b' -> at_ (abs b) = at_ (abs b') -> colors b c = colors b' c.
Proof.
  intros R R' A. apply N.bits_inj_iff. intros s.
  destruct (N.lt_ge_cases s 64) as [Hs|Hs].
  - destruct (abs_at_facts b b' s A Hs) as [Hk Hw].
    destruct (rep_color_bits b s R Hs) as [Z NZ]. destruct (rep_color_bits b' s R' Hs) as [Z' NZ'].
    destruct (N.eq_dec (piece_at b s) 0) as [E|E].
    + destruct (Z E) as [? ?]. destruct (Z' ltac:(congruence)) as [? ?]. destruct c; congruence.
    + specialize (Hw E). specialize (NZ E). specialize (NZ' ltac:(congruence)). destruct c; congruence.
  - destruct (rep_facts b R) as [L _]. destruct (rep_facts b' R') as [L' _].
    rewrite (lt_two64_testbit _ (L c) s Hs), (lt_two64_testbit _ (L' c) s Hs). reflexivity.
Qed.

Theorem calc_hash_core z b b' : Rep b -> Rep b' ->
  at_ (abs b) = at_ (abs b') -> stm b = stm b' -> castles b = castles b' -> ep b = ep b' ->
  calc_hash z b = calc_hash z b'.
Proof.
  intros R R' A S C E.
  assert (Side : forall c h,
    fold_left (fun h sq => bxor h (z_piece z c (piece_at b sq) sq)) (bits_of (colors b c)) h =
    fold_left (fun h sq => bxor h (z_piece z c (piece_at b' sq) sq)) (bits_of (colors b' c)) h).
  { intros c h. rewrite (colors_eq b b' c R R' A). apply fold_left_ext_in. intros sq I a.
    destruct (rep_facts b' R') as [L _].
    assert (sq < 64) as Hs by (apply (bits_of_lt _ _ (L c) I)).
    destruct (abs_at_facts b b' sq A Hs) as [-> _]. reflexivity. }
  unfold calc_hash. cbv zeta. rewrite (Side White), (Side Black), S, C, E. reflexivity.
Qed.
