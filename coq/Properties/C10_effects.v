(* C10, effect part - the repetition count is a function of the hash history
   Statements only. Gen/Effects.v is written by the translator piece harness/cmd/gen/effects.go from the
   CURRENT source on every run: a conservative effect analysis (go/parser + go/types, over-approximated call
   graph, summaries to a fixed point). For a root function R
     effects_R  = the writes of R and of everything R may call: to package-level variables ("global:..."),
                  through R's parameters or receiver ("param:..."), and calls of function values the analysis
                  does not follow ("dyncall:...");
     mutreads_R = the package-level variables R may read that something outside package initialisation writes;
     effects_error = None unless the analysis could not load or understand something (it fails closed).
   What a statement below establishes is exactly: no function reachable from R in the over-approximated call
   graph contains a syntactic write to package-level state or through R's parameters, and none mentions a
   package-level variable that is written after initialisation - i.e. R keeps no state between calls. The
   over-approximations and what is not modelled (reflection, unsafe, function values) are listed in Gen/Effects.v
   and in the header of effects.go. *)
From Coq Require Import String List.
From Chess3 Require Import Gen.Effects.
Import ListNotations.
Open Scope string_scope.

(* Threefold() reads the hash history and the clock; it writes nothing and reads no package-level state written after initialisation *)
Theorem C10_threefold_keeps_no_state :
  effects_error = None /\ effects_board_Threefold = [] /\ mutreads_board_Threefold = [].
Proof. repeat split; cbv; reflexivity. Qed.
Print Assumptions C10_threefold_keeps_no_state.
