(* Layer A: the end results about the skeleton generated from the current search.go, for an arbitrary
   position type / move type / make / undo (C03 enters as the hypotheses undo_make_id, undo_null_id). *)
From Coq Require Import String List ZArith Bool Lia.
From Chess3 Require Import Model.Skel Model.SkelCheck Gen.SearchSkel
  Proofs.SkelProofs Proofs.SkelBalance Proofs.SkelBudget Proofs.SkelFlag Proofs.SkelPv Proofs.SkelInstances.
Import ListNotations.
Open Scope string_scope.

Section Top.
Variables B M T : Type.
Variable make : M -> B -> B * T.
Variable undo : M -> T -> B -> B.
Variable make_null : B -> B * T.
Variable undo_null : T -> B -> B.

Notation exec := (exec B M T make undo make_null undo_null ftable).

Section WithC03.
Hypothesis undo_make_id : forall m b b' t, make m b = (b', t) -> undo m t b' = b.
Hypothesis undo_null_id : forall b b' t, make_null b = (b', t) -> undo_null t b' = b.

(* every function of search.go except the two that re-arm the engine *)
Lemma skel_board_untouched f p c c' :
  mem f resetters = false -> exec (Call f p) c ONormal c' ->
  board B M (fst c') = board B M (fst c)
  /\ ms_alloc B M (fst c') = ms_alloc B M (fst c) /\ ms_frames B M (fst c') = ms_frames B M (fst c)
  /\ hdepth B M (fst c') = hdepth B M (fst c).
Proof.
  intros Hr Hex.
  pose proof (call_balanced B M T make undo make_null undo_null ftable resetters
                undo_make_id undo_null_id table_balanced f p c c' Hex) as [Hb H].
  rewrite Hr in H. tauto.
Qed.

(* Search.Go (and refresh): board untouched, store and history stack reset *)
Lemma skel_go_board_untouched f p c c' :
  mem f resetters = true -> exec (Call f p) c ONormal c' ->
  board B M (fst c') = board B M (fst c)
  /\ ms_alloc B M (fst c') = 0%nat /\ ms_frames B M (fst c') = [] /\ hdepth B M (fst c') = 0%nat.
Proof.
  intros Hr Hex.
  pose proof (call_balanced B M T make undo make_null undo_null ftable resetters
                undo_make_id undo_null_id table_balanced f p c c' Hex) as [Hb H].
  rewrite Hr in H. tauto.
Qed.
End WithC03.

(* C08: node budget, for every statement tree (in particular Call "Go"), any outcome, any point *)
Lemma skel_nodes_le_budget N0 s c o c' :
  (0 <= N0)%Z -> exec s c o c' -> budget B M (fst c) <> (-1)%Z ->
  (nodes B M (fst c) <= Z.max N0 (budget B M (fst c)))%Z ->
  (nodes B M (fst c') <= Z.max N0 (budget B M (fst c)))%Z.
Proof. intros H0. apply nodes_le_budget. exact H0. Qed.

Definition late_within (allowed : list string) (g g' : glob B M) : Prop :=
  forall t, In t (late B M g') -> In t allowed \/ In t (late B M g).

(* C08: stores executed while s.aborted is set carry allow-listed tags only *)
Lemma skel_late_stores f p c o c' :
  exec (Call f p) c o c' -> late_within late_allowed (fst c) (fst c').
Proof.
  intros Hex.
  apply (late_stores_allowed B M T make undo make_null undo_null ftable late_allowed resetters clearers
           (quiet_of ftable) (late B M (fst c)) table_abort_before_store f p c o c' Hex).
  intros t Ht. right. exact Ht.
Qed.

(* C08: an activation entered doomed performs no persistent store *)
Lemma skel_doomed_no_store f p c c' :
  mem f resetters = false -> exec (Call f p) c ONormal c' ->
  doomed B M (fst c) ->
  stores B M (fst c') = stores B M (fst c) /\ doomed B M (fst c').
Proof.
  intros Hr Hex Hd.
  assert (Hcl : mem f clearers = false).
  { unfold resetters, clearers, mem in *. cbn in *. destruct (String.eqb f "refresh"); [discriminate | reflexivity]. }
  apply (doomed_no_store B M T make undo make_null undo_null ftable late_allowed resetters clearers
           (quiet_of ftable) (late B M (fst c)) table_abort_before_store f p c c' Hr Hcl Hex); [|exact Hd].
  intros t Ht. right. exact Ht.
Qed.

(* C06: refresh re-arms the engine (abort flag) *)
Lemma skel_refresh_clears_abort p c c' :
  exec (Call "refresh" p) c ONormal c' -> aborted B M (fst c') = false.
Proof.
  intros Hex.
  apply (clearer_clears B M T make undo make_null undo_null ftable late_allowed resetters clearers
           (quiet_of ftable) (late B M (fst c)) table_abort_before_store "refresh" p c c' eq_refl Hex).
  intros t Ht. right. exact Ht.
Qed.

(* C07 *)
Lemma skel_pv_monitor f p c o c' :
  exec (Call f p) c o c' -> pv_bad B M (fst c) = false -> pv_bad B M (fst c') = false.
Proof. apply (pv_monitor B M T make undo make_null undo_null ftable unframed (multi_conds ftable) table_pv_discipline). Qed.

Lemma skel_pv_frame f p c c' :
  exec (Call f p) c ONormal c' -> pv_bad B M (fst c) = false ->
  mem f unframed = false -> (match p with PlyAbs _ => False | _ => True end) ->
  forall j, (j < ply M T (snd c))%nat -> pv B M (fst c') j = pv B M (fst c) j.
Proof. apply (pv_frame B M T make undo make_null undo_null ftable unframed (multi_conds ftable) table_pv_discipline). Qed.

End Top.
