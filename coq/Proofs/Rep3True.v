(* C10, part 4: the repetition count after playing any list of legal moves from a valid root is
   the number of true recurrences of the current position, capped at three. *)
From Coq Require Import NArith ZArith List Bool Lia Arith.
From Chess3 Require Import Base.Bits Model.Types Model.BoardDef Model.Board Model.Rep3
     Spec.Geometry Spec.Chess Spec.Rep Spec.RepSpec Spec.RepLinks
     Proofs.Rep3Scan Proofs.Rep3Chess Proofs.Rep3Hash.
Import ListNotations.

(* ------------------------------------------------------------------------------------------ *)
(* key_eqb decides equality of position keys *)

Lemma sqv_eqb_eq a b : sqv_eqb a b = true <-> a = b.
Proof.
  destruct a as [[c k]|], b as [[c' k']|]; simpl; split; try congruence; try discriminate.
  - intros H. apply andb_prop in H. destruct H as [H1 H2].
    apply color_eqb_eq in H1. apply N.eqb_eq in H2. congruence.
  - intros H. injection H as -> ->. rewrite N.eqb_refl.
    replace (color_eqb c' c') with true by (symmetry; now apply color_eqb_eq). reflexivity.
Qed.
Lemma place_eqb_eq a : forall b, place_eqb a b = true <-> a = b.
Proof.
  induction a as [|x a IH]; intros [|y b]; simpl; split; try congruence; try discriminate.
  - intros H. apply andb_prop in H. destruct H as [H1 H2].
    apply sqv_eqb_eq in H1. apply IH in H2. congruence.
  - intros H. injection H as -> ->. apply andb_true_intro. split; [now apply sqv_eqb_eq | now apply IH].
Qed.
Lemma key_eqb_eq (a b : poskey) : key_eqb a b = true <-> a = b.
Proof.
  destruct a as [[[pa ta] ra] ea], b as [[[pb tb] rb] eb]. unfold key_eqb. split.
  - intros H. repeat (apply andb_prop in H; destruct H as [H ?]).
    apply place_eqb_eq in H. apply color_eqb_eq in H2. apply N.eqb_eq in H1. apply Bool.eqb_prop in H0. congruence.
  - intros H. injection H as -> -> -> ->.
    repeat (apply andb_true_intro; split).
    + now apply place_eqb_eq.
    + now apply color_eqb_eq.
    + apply N.eqb_refl.
    + apply Bool.eqb_reflx.
Qed.
Lemma key_eqb_neq (a b : poskey) : key_eqb a b = false <-> a <> b.
Proof.
  split.
  - intros H E. apply key_eqb_eq in E. congruence.
  - intros H. destruct (key_eqb a b) eqn:E; [|reflexivity]. apply key_eqb_eq in E. contradiction.
Qed.

(* ------------------------------------------------------------------------------------------ *)
(* counting over indices *)

Lemma filter_index {A} (f : A -> bool) (d : A) l :
  length (filter f l) = length (filter (fun i => f (nth i l d)) (seq 0 (length l))).
Proof.
  induction l as [|x l IH]; [reflexivity|].
  cbn [length seq]. rewrite <- seq_shift. cbn [filter nth].
  rewrite (filter_map_comm S). 
  destruct (f x); cbn [length]; rewrite map_length, IH; reflexivity.
Qed.

Lemma filter_filter_sub {A} (p q : A -> bool) l :
  (forall x, In x l -> p x = true -> q x = true) -> filter p l = filter p (filter q l).
Proof.
  induction l as [|x l IH]; intros H; [reflexivity|]. simpl.
  assert (IH' : filter p l = filter p (filter q l)) by (apply IH; intros y Hy; apply H; now right).
  destruct (p x) eqn:Px.
  - rewrite (H x (or_introl eq_refl) Px). simpl. rewrite Px. now f_equal.
  - destruct (q x); simpl; [rewrite Px|]; exact IH'.
Qed.

Lemma seq_split_scan (p : nat -> bool) n : (0 < n)%nat -> p 0%nat = true ->
  (forall i, (i < n)%nat -> p i = true -> i = 0%nat \/ (4 <=? i)%nat && Nat.even i = true) ->
  length (filter p (seq 0 n)) = S (length (filter p (scan_indices n))).
Proof.
  intros Hn P0 H. destruct n as [|n]; [lia|].
  unfold scan_indices. cbn [seq filter]. rewrite P0. cbn [Nat.leb andb length]. f_equal. f_equal.
  apply filter_filter_sub. intros x Hx Px. apply in_seq in Hx.
  destruct (H x ltac:(lia) Px) as [->|Q]; [lia|exact Q].
Qed.

Lemma scan_indices_lt n i : In i (scan_indices n) -> (i < n)%nat.
Proof. unfold scan_indices. intros H. apply filter_In in H. destruct H as [H _]. apply in_seq in H. lia. Qed.

Lemma occurrences_rev k ks : occurrences k (rev ks) = occurrences k ks.
Proof.
  unfold occurrences. f_equal.
  induction ks as [|x l IH]; [reflexivity|]. simpl. rewrite filter_app, app_length, IH. simpl.
  destruct (key_eqb k x); simpl; lia.
Qed.

Lemma count_bridge (hs : list N) (ks : list poskey) (dk : poskey) :
  length hs = length ks -> (0 < length ks)%nat ->
  (forall i, (i < length ks)%nat -> (nth i hs 0 =? hd 0 hs)%N = key_eqb (hd dk ks) (nth i ks dk)) ->
  (forall i, (i < length ks)%nat -> key_eqb (hd dk ks) (nth i ks dk) = true ->
             i = 0%nat \/ (4 <=? i)%nat && Nat.even i = true) ->
  (1 + far_even_matches hs = occurrences (hd dk ks) ks)%Z.
Proof.
  intros L Hn P1 P2. unfold far_even_matches, occurrences.
  rewrite (filter_index _ dk ks).
  rewrite (seq_split_scan (fun i => key_eqb (hd dk ks) (nth i ks dk)) (length ks) Hn).
  - rewrite L. rewrite Nat2Z.inj_succ. rewrite <- Z.add_1_l. f_equal. f_equal. f_equal.
    apply filter_ext_in. intros i Hi. apply P1. now apply scan_indices_lt.
  - destruct ks as [|k r]; [simpl in Hn; lia|]. simpl. now apply key_eqb_eq.
  - exact P2.
Qed.

(* ------------------------------------------------------------------------------------------ *)
(* the game *)

Lemma ep_none_abs b : epsq (abs b) = None -> ep b = 0%N.
Proof. unfold abs. cbn [epsq]. destruct (ep b =? 0)%N eqn:E; [intros _; now apply N.eqb_eq | discriminate]. Qed.

Section Game.
  Variable z : zobrist.
  Variable b0 : board.
  Variable ms : list N.
  Hypothesis SL : step_link z.
  Hypothesis VL : valid_link.
  Let r := reset_hash z b0.
  Let p0 := abs b0.
  Hypothesis R0 : Rep r.
  Hypothesis V0 : valid p0 = true.
  Hypothesis N0 : normal_ep p0 = true.
  Hypothesis LC : legal_chain p0 ms = true.
  Hypothesis NC : no_collision z (combine (run_boards z r ms) (spec_hist p0 ms)).

  Let n := length ms.
  Let B (i : nat) : board := nth i (run_boards z r ms) r.
  Let P (i : nat) : pos := nth i (spec_hist p0 ms) p0.

  Lemma sim i : (i <= n)%nat ->
    Rep (B i) /\ cur_hash (B i) = calc_hash z (B i) /\ same_core (abs (B i)) (P i).
  Proof.
    induction i as [|i IH]; intros H.
    - unfold B, P. rewrite run_boards_0, spec_hist_0. split; [exact R0|]. split; [reflexivity|].
      unfold same_core. repeat split; reflexivity.
    - destruct (IH ltac:(lia)) as (Ri & Hi & Ci).
      unfold B, P. rewrite run_boards_step, spec_hist_step by (fold n; lia).
      apply SL; auto.
      + apply (P_valid p0 ms VL V0 LC). fold n. lia.
      + apply (P_legal p0 ms LC). fold n. lia.
  Qed.

  Lemma in_game i : (i <= n)%nat -> In (B i, P i) (combine (run_boards z r ms) (spec_hist p0 ms)).
  Proof.
    intros H. unfold B, P. rewrite <- combine_nth by (rewrite run_boards_len, spec_hist_len; reflexivity).
    apply nth_In. rewrite combine_length, run_boards_len, spec_hist_len. fold n. lia.
  Qed.

  (* the hashes of two plies agree exactly when their position keys agree *)
  Lemma hash_iff_key i j : (i < j)%nat -> (j <= n)%nat ->
    (cur_hash (B i) =? cur_hash (B j))%N = key_eqb (pos_key (P j)) (pos_key (P i)).
  Proof.
    intros Hij Hj.
    destruct (sim i ltac:(lia)) as (Ri & Hi & (Ai & Ti & Gi & Ei)).
    destruct (sim j Hj) as (Rj & Hjj & (Aj & Tj & Gj & Ej)).
    destruct (key_eqb (pos_key (P j)) (pos_key (P i))) eqn:K.
    - apply key_eqb_eq in K. symmetry in K.
      destruct (P_key_no_ep p0 ms VL V0 N0 LC i j Hij Hj K) as [Ni Nj].
      apply N.eqb_eq. rewrite Hi, Hjj. apply calc_hash_core; auto.
      + rewrite Ai, Aj. now apply pos_key_at.
      + change (turn (abs (B i)) = turn (abs (B j))). rewrite Ti, Tj. now apply pos_key_turn.
      + change (rights (abs (B i)) = rights (abs (B j))). rewrite Gi, Gj. now apply pos_key_rights.
      + rewrite (ep_none_abs (B i)) by (rewrite Ei; exact Ni).
        rewrite (ep_none_abs (B j)) by (rewrite Ej; exact Nj). reflexivity.
    - apply key_eqb_neq in K. apply N.eqb_neq. rewrite Hi, Hjj.
      apply (NC (B i) (P i) (B j) (P j)); try apply in_game; try lia. congruence.
  Qed.

  Theorem threefold_true :
    threefold (run_moves z r ms) = rep_count (map pos_key (spec_hist p0 ms)).
  Proof.
    unfold threefold. rewrite run_hashes by reflexivity. rewrite threefold_count.
    unfold rep_count.
    set (hs := rev (map cur_hash (run_boards z r ms))).
    match goal with |- context [match ?X with _ => _ end] => remember X as ks eqn:Dks end.
    assert (Lh : length hs = S n) by (unfold hs; now rewrite rev_length, map_length, run_boards_len).
    assert (Lk : length ks = S n) by (rewrite Dks; now rewrite rev_length, map_length, spec_hist_len).
    destruct ks as [|k ks']; [simpl in Lk; lia|].
    f_equal.
    rewrite <- occurrences_rev, <- Dks.
    pose (dk := pos_key p0 : poskey).
    change k with (@hd poskey dk (k :: ks')) at 1.
    set (ks := k :: ks') in *.
    assert (Hh : forall i, (i <= n)%nat -> nth i hs 0%N = cur_hash (B (n - i))).
    { intros i Hi. unfold hs. rewrite rev_nth by (rewrite map_length, run_boards_len; fold n; lia).
      rewrite map_length, run_boards_len. fold n. replace (S n - S i)%nat with (n - i)%nat by lia.
      rewrite (nth_indep _ 0%N (cur_hash r)) by (rewrite map_length, run_boards_len; fold n; lia).
      apply map_nth. }
    assert (Hk : forall i, (i <= n)%nat -> @nth poskey i ks dk = pos_key (P (n - i))).
    { intros i Hi. rewrite Dks. rewrite rev_nth by (rewrite map_length, spec_hist_len; fold n; lia).
      rewrite map_length, spec_hist_len. fold n. replace (S n - S i)%nat with (n - i)%nat by lia.
      apply map_nth. }
    assert (Hh0 : hd 0%N hs = cur_hash (B n)).
    { pose proof (Hh 0%nat ltac:(lia)) as X. rewrite Nat.sub_0_r in X. rewrite <- X.
      destruct hs; [simpl in Lh; lia | reflexivity]. }
    assert (Hk0 : @hd poskey dk ks = pos_key (P n)).
    { pose proof (Hk 0%nat ltac:(lia)) as X. rewrite Nat.sub_0_r in X. rewrite <- X. reflexivity. }
    apply (count_bridge hs ks dk).
    - lia.
    - lia.
    - intros i Hi. rewrite Lk in Hi. rewrite Hh, Hk, Hh0, Hk0 by lia.
      destruct i as [|i].
      + rewrite Nat.sub_0_r, N.eqb_refl. symmetry. now apply key_eqb_eq.
      + apply hash_iff_key; lia.
    - intros i Hi K. rewrite Lk in Hi. rewrite Hk, Hk0 in K by lia. apply key_eqb_eq in K.
      destruct i as [|i]; [now left|]. right.
      assert (Ev : Nat.even (S i) = true).
      { apply (key_parity p0 ms (n - S i) (S i)); [lia|].
        replace (n - S i + S i)%nat with n by lia. now apply pos_key_turn. }
      destruct i as [|[|[|i]]].
      + simpl in Ev. discriminate Ev.
      + (* distance 2 *)
        exfalso. apply (P_no_repeat_at_2 p0 ms VL V0 LC (n - 2)); [lia|].
        replace (n - 2 + 2)%nat with n by lia. now apply pos_key_at.
      + simpl in Ev. discriminate Ev.
      + exact Ev.
  Qed.
End Game.

(* a checker for no_collision on a concrete game (used by the Examples) *)
Definition no_collision_b (z : zobrist) (bps : list (board * pos)) : bool :=
  forallb (fun x => forallb (fun y =>
    key_eqb (pos_key (snd x)) (pos_key (snd y)) || negb (calc_hash z (fst x) =? calc_hash z (fst y))%N) bps) bps.
Lemma no_collision_b_ok z bps : no_collision_b z bps = true -> no_collision z bps.
Proof.
  unfold no_collision_b, no_collision. intros H b p b' p' I I' K E.
  rewrite forallb_forall in H. specialize (H _ I). rewrite forallb_forall in H. specialize (H _ I').
  cbn [fst snd] in H. apply key_eqb_neq in K. rewrite K, E, N.eqb_refl in H. discriminate.
Qed.
