#!/bin/bash
# Merge a builder's scratch copy (/root/scratch/<dir>) into /verif as a git merge:
#   tools/merge_builder.sh <dir>
# The copy was made with cp -r /verif, so it carries .git with the base commit.
set -e
d=/root/scratch/$1
cd "$d"
git checkout -q -B "builder-$1"
git rm -q --cached coq/.filelist 2>/dev/null || true
git add -A
git -c user.name=builder -c user.email=builder@example.invalid commit -q -m "builder $1: delivery" || true
cd /verif
git fetch -q "$d" "builder-$1"
if ! git merge --no-edit FETCH_HEAD >/tmp/merge.log 2>&1; then
  tail -5 /tmp/merge.log
  if git diff --name-only --diff-filter=U | grep -q '^lib/levels.json$'; then python3 tools/resolve_levels.py; git add lib/levels.json; fi
  if git diff --name-only --diff-filter=U | grep -q '^lib/props.py$'; then python3 tools/resolve_props.py && git add lib/props.py; fi
  if git status --short | grep -q 'coq/.filelist'; then git rm -q --cached coq/.filelist 2>/dev/null || true; fi
  for f in $(git diff --name-only --diff-filter=U); do case $f in evidence/*|MANIFEST.json) git checkout --ours -- $f; git add $f;; esac; done
  left=$(git diff --name-only --diff-filter=U)
  if [ -n "$left" ]; then echo "UNRESOLVED: $left"; exit 1; fi
  git commit -q -m "Merge builder $1"
fi
git log --oneline | head -1
