package streams

import (
	"sort"
	"github.com/paulsonkoly/chess-3/board"
	"github.com/paulsonkoly/chess-3/move"
	"github.com/paulsonkoly/chess-3/movegen"

	"verifharness/hx"
	"verifharness/posgen"
)

// gen: board-in -> generated noisy moves, generated quiet moves, playable moves (exact order).
// ipl: board-in -> all of the 32768 encodings accepted by IsPseudoLegal.
func init() {
	hx.Register(&hx.Stream{Name: "gen", Gen: genPositionsG3, Run: runGen})
	// c01valid: the domain filter of stream gen (posgen.Valid) against Spec `valid`, on the very positions
	// stream gen is run on (same generator, same seed); model side = run_valid
	// (its positions are not counted as non-trivial a second time)
	hx.Register(&hx.Stream{Name: "c01valid", Run: runValid,
		Gen: func(rng *hx.Rng, n int, tier string, emit func(hx.Input)) {
			genPositionsG3(rng, n, tier, func(in hx.Input) { in.NonTrivial = false; emit(in) })
		}})
	hx.Register(&hx.Stream{Name: "ipl", Gen: genPositions, Run: runIpl})
}

func runGen(a hx.Args) string {
	b, _ := a.Board(0)
	out := &hx.Nums{}
	ms := move.NewStore()
	ms.Push()
	// every list is reported sorted: the property is about sets of moves, not emission order
	emitSorted := func(ms []uint64) {
		sort.Slice(ms, func(i, j int) bool { return ms[i] < ms[j] })
		out.Int(len(ms))
		out.U(ms...)
	}
	var l []uint64
	movegen.GenNoisy(ms, b)
	for _, m := range ms.Frame() {
		l = append(l, hx.M2U(m.Move))
	}
	emitSorted(l)
	ms.Pop()
	ms.Push()
	l = nil
	movegen.GenNotNoisy(ms, b)
	for _, m := range ms.Frame() {
		l = append(l, hx.M2U(m.Move))
	}
	emitSorted(l)
	ms.Pop()
	l = nil
	for _, m := range posgen.Legal(b) {
		l = append(l, hx.M2U(m))
	}
	emitSorted(l)
	return out.String()
}

func runIpl(a hx.Args) string {
	b, _ := a.Board(0)
	out := &hx.Nums{}
	for m := 0; m < 32768; m++ {
		if b.IsPseudoLegal(hx.U2M(uint64(m))) {
			out.U(uint64(m))
		}
	}
	return out.String()
}

func genPositions(rng *hx.Rng, n int, tier string, emit func(hx.Input)) {
	posgen.Stream(rng, n, func(p posgen.Pos) {
		emit(hx.Input{In: (&hx.Nums{}).BoardIn(p.B).String(), Desc: p.Desc(),
			Tags: append(posgen.Tags(p.B), p.Kind), NonTrivial: true, Key: p.B.FEN()})
	})
}

// genPositionsG3 is the generator of stream gen (C01): every root of posgen.Roots() itself (the hand
// roots are the rule corner cases: castling through/next to attacked or occupied squares, en passant
// on the edge files and with pins, promotions with captures ...; as play-out roots alone they would be
// emitted only now and then), then genPositions (G1/G2/G4) up to n positions; in the thorough tier
// followed by G3 (posgen/g3.go): the 3-piece materials KQK, KRK, KPK (white and black pawn), every
// placement when n >= 102000 (1.83 M raw placements; strided to about 9n raw placements for smaller
// n, which is only meant for trying the tier out), and the 4-piece materials strided to about n raw
// placements in total.
func genPositionsG3(rng *hx.Rng, n int, tier string, emit func(hx.Input)) {
	mk := func(p posgen.Pos) hx.Input {
		return hx.Input{In: (&hx.Nums{}).BoardIn(p.B).String(), Desc: p.Desc(),
			Tags: append(posgen.Tags(p.B), p.Kind), NonTrivial: true, Key: p.B.FEN()}
	}
	// thorough tier: the small-material positions are enumerated concurrently and interleaved with the
	// other positions at a fixed ratio (deterministic order), so that the contiguous shards of the
	// model/judge runs cost about the same (a dense position costs the judge several times more)
	var g3 chan hx.Input
	ratio := 0
	if tier == "thorough" && n > 0 {
		stride3 := posgen.CoprimeStride(posgen.RawCount(posgen.Materials3) / (9 * n))
		stride4 := posgen.CoprimeStride(posgen.RawCount(posgen.Materials4) / n)
		est := posgen.RawCount(posgen.Materials3)/stride3*8/10 + posgen.RawCount(posgen.Materials4)/stride4*6/10
		ratio = est/n + 1
		g3 = make(chan hx.Input, 1024)
		go func() {
			posgen.SmallMaterial(stride3, stride4, func(p posgen.Pos) { g3 <- mk(p) })
			close(g3)
		}()
	}
	out := func(p posgen.Pos) {
		emit(mk(p))
		for k := 0; k < ratio && g3 != nil; k++ {
			in, ok := <-g3
			if !ok {
				g3 = nil
				break
			}
			emit(in)
		}
	}
	cnt := 0
	for _, r := range posgen.Roots() {
		if cnt >= n {
			break
		}
		if b, err := board.FromFEN(r); err == nil {
			out(posgen.Pos{B: b, Root: r, Kind: "root"})
			cnt++
		}
	}
	// a quarter of the rest: random castling / pawn-on-2nd-and-7th-rank / en-passant placements (the
	// generator of stream c05): promotions with and without capture on every file, rights in every state
	special := (n - cnt) / 4
	for k := 0; k < special; {
		if p := castleish(rng); p != nil {
			out(*p)
			k++
			cnt++
		}
	}
	if cnt < n {
		posgen.Stream(rng, n-cnt, out)
	}
	if g3 != nil {
		for in := range g3 {
			emit(in)
		}
	}
}
