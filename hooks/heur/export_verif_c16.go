//go:build verif

package heur

// Verification hooks for property C16 (build tag verif). Add-only.

// VerifTables exposes the four heuristic stores of a MoveRanker so that every cell can be read
// through the public LookUp methods: history, capture history, continuations[0], continuations[1].
func (mr *MoveRanker) VerifTables() (*History, *CaptHist, *Continuation, *Continuation) {
	return mr.history, mr.captHist, mr.continuations[0], mr.continuations[1]
}
