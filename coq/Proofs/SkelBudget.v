(* Layer A, C08 "a hard budget of N nodes is never exceeded": the node counter is written only by
   IncNodes (model of incrementNodes) and FreshCounters (Search.Go installing a zero counter), so
   nodes <= max(initial nodes, budget) is an invariant of every execution of every statement tree,
   at every intermediate point (outcome OHalt included).  No checker is involved: the translator
   fails closed on any other write to opts.Counters.Nodes, and the source of incrementNodes is
   pinned (SkelInstances.incrementNodes_pinned). *)
From Coq Require Import String List ZArith Bool Lia.
From Chess3 Require Import Model.Skel.
Import ListNotations.
Local Open Scope Z_scope.

Section Budget.
Variables B M T : Type.
Variable make : M -> B -> B * T.
Variable undo : M -> T -> B -> B.
Variable make_null : B -> B * T.
Variable undo_null : T -> B -> B.
Variable ftable : list (string * stmt).
Variable N0 : Z.                         (* the counter's value when the search is started *)
Hypothesis N0_nonneg : 0 <= N0.

Notation glob := (glob B M).
Notation cstate := (cstate B M T).
Notation astep := (astep B M T make undo make_null undo_null).
Notation exec := (exec B M T make undo make_null undo_null ftable).

Definition binv (g : glob) : Prop := budget B M g = -1 \/ nodes B M g <= Z.max N0 (budget B M g).

Lemma inc_nodes_binv g : budget B M (inc_nodes B M g) = budget B M g /\ (binv g -> binv (inc_nodes B M g)).
Proof.
  unfold inc_nodes, binv.
  destruct (budget B M g =? -1) eqn:E1; cbn [orb].
  - split; [reflexivity|]. intros _. left. cbn. apply Z.eqb_eq. exact E1.
  - destruct (nodes B M g <? budget B M g) eqn:E2.
    + split; [reflexivity|]. intros _. right. cbn. apply Z.ltb_lt in E2. lia.
    + destruct (ponder B M g); split; try reflexivity; exact (fun H => H).
Qed.

Lemma astep_binv a c c' : astep a c c' ->
  budget B M (fst c') = budget B M (fst c) /\ (binv (fst c) -> binv (fst c')).
Proof.
  intros H. inversion H; subst; cbn [fst]; try (split; [reflexivity | exact (fun K => K)]).
  - destruct (ms_frames B M g); split; try reflexivity; exact (fun K => K).
  - apply inc_nodes_binv.
  - split; [reflexivity|]. intros _. unfold binv. cbn. right. lia.
Qed.

Theorem exec_budget s c o c' : exec s c o c' ->
  budget B M (fst c') = budget B M (fst c) /\ (binv (fst c) -> binv (fst c')).
Proof.
  induction 1; cbn [fst] in *;
    try (split; [reflexivity | exact (fun K => K)]);
    try assumption;
    try (eapply astep_binv; eassumption);
    try (destruct IHexec1 as [E1 I1]; destruct IHexec2 as [E2 I2]; split; [congruence | auto]; fail).
  - (* Call *)
    destruct IHexec1 as [E1 I1]. destruct IHexec2 as [E2 I2].
    assert (Een : budget B M (fst (enter B M T p c me te ce)) = budget B M (fst c)
                  /\ (binv (fst c) -> binv (fst (enter B M T p c me te ce))))
      by (unfold enter; destruct (is_search_call p); cbn; split; auto).
    destruct Een as [E0 I0].
    unfold leave; destruct (is_search_call p); cbn [fst]; (split; [cbn; congruence|]);
      intros K; specialize (I2 (I1 (I0 K))); exact I2.
  - (* CallHalt *)
    destruct IHexec as [E1 I1].
    assert (Een : budget B M (fst (enter B M T p c me te ce)) = budget B M (fst c)
                  /\ (binv (fst c) -> binv (fst (enter B M T p c me te ce))))
      by (unfold enter; destruct (is_search_call p); cbn; split; auto).
    destruct Een as [E0 I0]. split; [congruence | auto].
  - (* CallHaltD *)
    destruct IHexec1 as [E1 I1]. destruct IHexec2 as [E2 I2].
    assert (Een : budget B M (fst (enter B M T p c me te ce)) = budget B M (fst c)
                  /\ (binv (fst c) -> binv (fst (enter B M T p c me te ce))))
      by (unfold enter; destruct (is_search_call p); cbn; split; auto).
    destruct Een as [E0 I0]. split; [congruence | auto].
Qed.

(* the readable form: a search started with counter N0 and a hard budget N (<> -1, "no limit")
   never shows more than max(N0, N) nodes, whatever the outcome, at any point *)
Corollary nodes_le_budget s c o c' :
  exec s c o c' -> budget B M (fst c) <> -1 -> nodes B M (fst c) <= Z.max N0 (budget B M (fst c)) ->
  nodes B M (fst c') <= Z.max N0 (budget B M (fst c)).
Proof.
  intros Hex Hb Hn. destruct (exec_budget _ _ _ _ Hex) as [Eb I].
  destruct (I (or_intror Hn)) as [K|K]; [congruence | rewrite <- Eb; exact K].
Qed.

End Budget.
