package streams

import (
	"fmt"

	. "github.com/paulsonkoly/chess-3/chess"
	"github.com/paulsonkoly/chess-3/uci"

	"verifharness/hx"
)

// c14: [wtime btime winc binc mtime colour] -> [timed soft hard duration_ns]
func init() {
	hx.Register(&hx.Stream{Name: "c14", Gen: genC14, Run: runC14})
}

func runC14(a hx.Args) string {
	w, b, wi, bi, m, c := a.I64(0), a.I64(1), a.I64(2), a.I64(3), a.I64(4), Color(a.I64(5))
	soft := uci.VerifSoftLimit(w, b, wi, bi, m, c)
	hard := uci.VerifHardLimit(w, b, wi, bi, m, c)
	timed := uci.VerifTimedMode(w, b, wi, bi, m, c)
	dur := hard * 1000000 // time.Duration(hard) * time.Millisecond, int64 wrap-around
	// same request with the opponent's clock perturbed
	w2, b2, wi2, bi2 := w, b, wi, bi
	if c == White {
		b2, bi2 = b+12345, bi+777
	} else {
		w2, wi2 = w+12345, wi+777
	}
	soft2 := uci.VerifSoftLimit(w2, b2, wi2, bi2, m, c)
	hard2 := uci.VerifHardLimit(w2, b2, wi2, bi2, m, c)
	return (&hx.Nums{}).B(timed).I(soft, hard, dur, soft2, hard2).String()
}

func c14Case(w, b, wi, bi, m int64, c Color) hx.Input {
	in := (&hx.Nums{}).I(w, b, wi, bi, m, int64(c)).String()
	rem := w
	if c == Black {
		rem = b
	}
	tags := []string{}
	switch {
	case m > 0:
		tags = append(tags, "movetime")
	case rem <= 0:
		tags = append(tags, "untimed")
	case rem <= 30:
		tags = append(tags, "rem<=margin")
	case rem <= 200:
		tags = append(tags, "rem<=200")
	default:
		tags = append(tags, "rem>200")
	}
	return hx.Input{In: in,
		Desc:       fmt.Sprintf("wtime=%d btime=%d winc=%d binc=%d movetime=%d stm=%d", w, b, wi, bi, m, c),
		Tags:       tags,
		NonTrivial: rem > 0 || m > 0}
}

func genC14(rng *hx.Rng, n int, tier string, emit func(hx.Input)) {
	incs := []int64{0, 1, 2, 3, 29, 30, 31, 59, 60, 61, 100, 200, 1000, 1000000, 1000000000}
	mts := []int64{0, 0, 0, 1, 29, 30, 31, 1000000}
	cnt := 0
	// dense boundary grid around the margin and the clamp break points (sampled down to n/2)
	stride := 1
	total := 260 * len(incs) * 2 * len(mts)
	if total > n/2 && n > 0 {
		stride = total/(n/2) + 1
	}
	k := 0
	for rem := int64(-2); rem < 258; rem++ {
		for _, inc := range incs {
			for c := White; c <= Black; c++ {
				for _, mt := range mts {
					k++
					if k%stride != 0 {
						continue
					}
					other := rng.Range(-5, 100000)
					oinc := rng.Range(0, 5000)
					if c == White {
						emit(c14Case(rem, other, inc, oinc, mt, c))
					} else {
						emit(c14Case(other, rem, oinc, inc, mt, c))
					}
					cnt++
				}
			}
		}
	}
	// random: in-domain, large, and wild 64-bit values (outside the theorem's domain, inside the correspondence)
	for cnt < n {
		var v [5]int64
		for i := range v {
			switch rng.Intn(6) {
			case 0:
				v[i] = rng.Range(0, 300)
			case 1:
				v[i] = rng.Range(0, 10000000)
			case 2:
				v[i] = rng.Range(0, 1000000000000)
			case 3:
				v[i] = int64(rng.U64())
			case 4:
				v[i] = rng.Range(0, 9000000000000)
			default:
				v[i] = 0
			}
		}
		if rng.Chance(0.7) {
			v[4] = 0
		}
		emit(c14Case(v[0], v[1], v[2], v[3], v[4], Color(rng.Intn(2))))
		cnt++
	}
}
