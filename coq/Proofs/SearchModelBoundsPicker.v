(* C16 on the search's own interface: the staged picker, called until it says "no more" on an unchanged
   position / ranker / history stack (as alphaBeta does while no legal move has been found), hands out
   every generated move.  [picker_complete] of Proofs/SearchModelBoundsRoot.v for every ranker that is
   reachable (Proofs/HistProofs.v: weights inside their bands, above the yieldRest threshold) on a
   representable valid position (C05: IsPseudoLegal accepts exactly the generated moves).

   Part 1 - Model/Picker.v: one call of Next under an invariant that remembers which generated moves are in
   the frame; the environment may be the lazily computed one (quiet moves only when the call reaches
   genQuiet).  Part 2 - Model/Search.v pnext and the runs [drained]. *)
From Coq Require Import NArith ZArith List Bool Lia Permutation.
From Chess3 Require Import Base.Word Gen.HeurConsts Model.Hist Model.Picker Proofs.HistProofs Proofs.PickerProofs
  Proofs.SearchModelPicker.
Import ListNotations.
Open Scope Z_scope.

Section Complete.
  Variable N Q : list Z.          (* the generated noisy / quiet moves *)
  Variable ipl : bool.            (* IsPseudoLegal(hash move) *)
  Variable hm : Z.                (* the hash move *)
  Hypothesis C05 : In hm (N ++ Q) -> ipl = true.
  Variable fr : list nat.
  Variable L : list wmove.

  Definition above (l : list wmove) : Prop := Forall (fun mw => rest_threshold < snd mw) l.

  (* entries at or below the yieldRest threshold are copies of the hash move *)
  Definition low_is_hash (R : list wmove) : Prop := forall x, In x R -> snd x <= rest_threshold -> fst x = hm.

  Definition stage_inv (st : pstate) (Y R : list wmove) : Prop :=
    match st with
    | PickHash => Y = [] /\ R = []
    | GenNoisy => R = []
    | YieldGoodNoisy | GenQuiet => incl N (map fst (Y ++ R))
    | YieldRest => incl (N ++ Q) (map fst (Y ++ R))
    end.

  (* F: the moves handed out so far *)
  Definition cinv (p : picker) (F : list Z) : Prop :=
    exists Y R, map fst Y = F /\ framed (p_store p) fr L (Y ++ R) /\ p_ix p = length Y /\ p_hash p = hm /\
      low_is_hash R /\ stage_inv (p_state p) Y R /\ (p_state p <> PickHash -> ipl = true -> In hm F).

  Lemma low_mark l : above l -> low_is_hash (map (mark hm) l).
  Proof.
    intros Ha x Hx Hlow. apply in_map_iff in Hx. destruct Hx as ([m w] & <- & Hi). unfold mark in *. cbn [fst snd] in *.
    destruct (hm =? m) eqn:E; [apply Z.eqb_eq in E; congruence|].
    eapply Forall_forall in Ha; [|exact Hi]. cbn [snd] in Ha. lia.
  Qed.

  Lemma low_app R1 R2 : low_is_hash R1 -> low_is_hash R2 -> low_is_hash (R1 ++ R2).
  Proof. intros H1 H2 x Hx. apply in_app_or in Hx. destruct Hx; auto. Qed.

  Lemma low_perm R R' : Permutation R' R -> low_is_hash R -> low_is_hash R'.
  Proof. intros Hp H x Hx. apply H. eapply Permutation_in; eassumption. Qed.

  Lemma map_fst_mark l : map fst (map (mark hm) l) = map fst l.
  Proof. rewrite map_map. apply map_ext. intros [m w]. reflexivity. Qed.

  (* outcome of one call *)
  Definition cpost (p' : picker) (F : list Z) (more : bool) : Prop :=
    if more then cinv p' (F ++ [fst (current p')]) else forall g, In g (N ++ Q) -> In g F.

  Lemma select_c p Y R thr p' st F : framed (p_store p) fr L (Y ++ R) -> p_ix p = length Y -> p_hash p = hm -> map fst Y = F ->
    low_is_hash R -> p_state p = st -> st <> PickHash -> st <> GenNoisy -> stage_inv st Y R -> (ipl = true -> In hm F) ->
    select p thr = Some p' -> cinv p' (F ++ [fst (current p')]).
  Proof.
    intros Hf Hix Hh HF Hlow Hst Hn1 Hn2 Hsi Hip Hs. subst F.
    pose proof (select_spec p fr L Y R thr Hf Hix) as H. rewrite Hs in H.
    destruct H as (y & Rm & Hf' & Hix' & Hperm & _ & Hcur & Hst' & Hh').
    exists (Y ++ [y]), Rm. rewrite Hcur. split; [rewrite map_app; reflexivity|]. split; [exact Hf'|]. split; [exact Hix'|].
    split; [congruence|]. split; [intros x Hx; apply Hlow; eapply Permutation_in; [exact Hperm|right; exact Hx]|].
    assert (Hincl : forall S, incl S (map fst (Y ++ R)) -> incl S (map fst ((Y ++ [y]) ++ Rm))).
    { intros S HS g Hg. specialize (HS g Hg). rewrite <- app_assoc. cbn [app]. rewrite map_app in *.
      apply in_app_or in HS. apply in_or_app. destruct HS as [HS|HS]; [left; exact HS|right].
      eapply Permutation_in; [apply Permutation_map; apply Permutation_sym; exact Hperm|exact HS]. }
    split.
    - rewrite Hst', Hst. destruct st; cbn [stage_inv] in *; try congruence; auto.
    - intros _ Hi. apply in_or_app. left. auto.
  Qed.

  Lemma yield_rest_c p F more p' : cinv p F -> p_state p = YieldRest -> yield_rest p = Some (more, p') -> cpost p' F more.
  Proof.
    intros (Y & R & HF & Hf & Hix & Hh & Hlow & Hsi & Hip) Hst H. unfold yield_rest in H.
    destruct (select p (- HashMove + 1)) as [p1|] eqn:Es.
    - injection H as <- <-. unfold cpost. rewrite Hst in Hsi, Hip.
      eapply (select_c p Y R _ p1 YieldRest); eauto; try discriminate. apply Hip. discriminate.
    - injection H as <- <-. unfold cpost. intros g Hg.
      pose proof (select_spec p fr L Y R (- HashMove + 1) Hf Hix) as Hall. rewrite Es in Hall.
      rewrite Hst in Hsi, Hip. cbn [stage_inv] in Hsi. specialize (Hsi g Hg). rewrite map_app in Hsi.
      apply in_app_or in Hsi. destruct Hsi as [Hy|Hr]; [rewrite <- HF; exact Hy|].
      apply in_map_iff in Hr. destruct Hr as (x & Hx & Hi).
      eapply Forall_forall in Hall; [|exact Hi]. cbv beta in Hall.
      pose proof (Hlow x Hi Hall) as E. assert (Eg : g = hm) by congruence. rewrite Eg in *.
      apply Hip; [discriminate|]. apply C05. exact Hg.
  Qed.

  Lemma gen_quiet_c e p F more p' Y R : map fst Y = F -> framed (p_store p) fr L (Y ++ R) -> p_ix p = length Y -> p_hash p = hm ->
    low_is_hash R -> incl N (map fst (Y ++ R)) -> (ipl = true -> In hm F) ->
    map fst (e_quiet e) = Q -> above (e_quiet e) ->
    gen_quiet e p = Some (more, p') -> cpost p' F more /\ p_state p' = YieldRest.
  Proof.
    intros HF Hf Hix Hh Hlow HN Hip HQ Hab H. unfold gen_quiet in H. cbn [set_state p_store p_ix p_hash p_state] in H.
    rewrite (framed_frame _ _ _ _ Hf) in H.
    destruct (store_alloc_all (p_store p) (map fst (e_quiet e))) as [s|] eqn:Ea; [|discriminate H].
    pose proof (alloc_all_framed' fr L _ _ _ _ Ea Hf) as Hfs.
    rewrite (framed_frame _ _ _ _ Hfs), firstn_app_len, skipn_app_len, assign_weights_spec in H.
    match type of H with yield_rest ?q = _ => set (p2 := q) in * end.
    assert (Hc2 : cinv p2 F).
    { exists Y, (R ++ map (mark (p_hash p)) (e_quiet e)). split; [exact HF|]. split.
      - unfold p2. cbn [p_store]. rewrite app_assoc. eapply framed_write. exact Hfs.
      - split; [exact Hix|]. split; [exact Hh|]. rewrite Hh. split; [apply low_app; [exact Hlow|apply low_mark; exact Hab]|].
        split; [|intros _; exact Hip]. cbn [p2 p_state stage_inv].
        intros g Hg. rewrite app_assoc, map_app, map_fst_mark, HQ. apply in_app_or in Hg. apply in_or_app.
        destruct Hg as [Hg|Hg]; [left; apply HN; exact Hg|right; exact Hg]. }
    split; [eapply yield_rest_c; [exact Hc2|reflexivity|exact H]|].
    unfold yield_rest in H. destruct (select p2 (- HashMove + 1)) as [p3|] eqn:Es; injection H as _ <-; [|reflexivity].
    unfold select in Es. destruct (scan _ _ _ _); [|discriminate Es]. injection Es as <-. reflexivity.
  Qed.

  Lemma yield_good_c e p F more p' Y R : map fst Y = F -> framed (p_store p) fr L (Y ++ R) -> p_ix p = length Y -> p_hash p = hm ->
    low_is_hash R -> incl N (map fst (Y ++ R)) -> (ipl = true -> In hm F) -> p_state p = YieldGoodNoisy ->
    (p_state p' = YieldRest -> map fst (e_quiet e) = Q /\ above (e_quiet e)) ->
    yield_good_noisy e p = Some (more, p') -> cpost p' F more.
  Proof.
    intros HF Hf Hix Hh Hlow HN Hip Hst HQ H. unfold yield_good_noisy in H.
    destruct (select p 0) as [p1|] eqn:Es.
    - injection H as <- <-. unfold cpost. eapply (select_c p Y R 0 p1 YieldGoodNoisy); eauto; discriminate.
    - assert (Hy : p_state p' = YieldRest).
      { unfold gen_quiet in H. destruct (store_alloc_all _ _); [|discriminate H]. unfold yield_rest in H.
        match type of H with match select ?q _ with _ => _ end = _ => destruct (select q (- HashMove + 1)) as [p3|] eqn:E3 end;
          injection H as _ <-; [|reflexivity].
        unfold select in E3. destruct (scan _ _ _ _); [|discriminate E3]. injection E3 as <-. reflexivity. }
      destruct (HQ Hy) as [HQ1 HQ2].
      eapply (gen_quiet_c e (set_state p GenQuiet) F more p' Y R) in H; eauto. exact (proj1 H).
  Qed.

  Lemma gen_noisy_c e p F more p' Y : map fst Y = F -> framed (p_store p) fr L Y -> p_ix p = length Y -> p_hash p = hm ->
    (ipl = true -> In hm F) -> map fst (e_noisy e) = N -> above (e_noisy e) ->
    (p_state p' = YieldRest -> map fst (e_quiet e) = Q /\ above (e_quiet e)) ->
    gen_noisy e p = Some (more, p') -> cpost p' F more.
  Proof.
    intros HF Hf Hix Hh Hip HN Hab HQ H. unfold gen_noisy in H. cbn [set_state p_store p_ix p_hash p_state] in H.
    destruct (store_alloc_all (p_store p) (map fst (e_noisy e))) as [s|] eqn:Ea; [|discriminate H].
    pose proof (alloc_all_framed' fr L _ _ _ _ Ea Hf) as Hfs.
    rewrite (framed_frame _ _ _ _ Hfs), Hix, firstn_app_len, skipn_app_len, assign_weights_spec in H.
    eapply (yield_good_c e _ F more p' Y (map (mark (p_hash p)) (e_noisy e))) in H; eauto.
    - cbn [p_store]. eapply framed_write. exact Hfs.
    - rewrite Hh. apply low_mark. exact Hab.
    - intros g Hg. rewrite Hh, map_app, map_fst_mark, HN. apply in_or_app. right. exact Hg.
  Qed.

  Lemma next_c e p F more p' : cinv p F ->
    (p_state p = PickHash -> e_ipl e = ipl) ->
    ((p_state p = PickHash /\ ipl = false) \/ p_state p = GenNoisy -> map fst (e_noisy e) = N /\ above (e_noisy e)) ->
    (p_state p <> YieldRest -> (p_state p = PickHash -> ipl = false) -> p_state p' = YieldRest ->
     map fst (e_quiet e) = Q /\ above (e_quiet e)) ->
    next e p = Some (more, p') -> cpost p' F more.
  Proof.
    intros (Y & R & HF & Hf & Hix & Hh & Hlow & Hsi & Hip) Hei HeN HeQ H. unfold next in H.
    destruct (p_state p) eqn:Hst.
    - (* PickHash *)
      destruct Hsi as [-> ->]. cbn [app map] in *. subst F. unfold pick_hash in H.
      cbn [set_state p_store p_ix p_hash p_state] in H. pose proof (Hei eq_refl) as Ei. destruct (e_ipl e) eqn:Ee; symmetry in Ei.
      + destruct (store_alloc (p_store p) (p_hash p)) as [s|] eqn:Ea; [|discriminate H].
        injection H as <- <-.
        assert (Hfs : framed s fr L [(p_hash p, 0)]).
        { pose proof (alloc_all_framed' fr L [p_hash p] (p_store p) s [] ) as Q0. cbn [store_alloc_all map app] in Q0.
          rewrite Ea in Q0. exact (Q0 eq_refl Hf). }
        rewrite (framed_frame _ _ _ _ Hfs). cbn [length Nat.sub set_nth firstn skipn app].
        unfold cpost.
        match goal with |- cinv ?q _ => set (q0 := q) end.
        assert (Hcur : current q0 = (p_hash p, HashMove)).
        { unfold current, q0. cbn [p_store p_ix]. erewrite framed_frame; [|eapply framed_write; exact Hfs]. rewrite Hix. reflexivity. }
        rewrite Hcur. cbn [fst app]. unfold q0.
        exists [(p_hash p, HashMove)], []. cbn [p_store p_ix p_state p_hash app length map fst].
        split; [reflexivity|]. split; [eapply framed_write; exact Hfs|]. split; [now rewrite Hix|]. split; [exact Hh|].
        split; [intros x []|]. split; [reflexivity|]. intros _ _. left. exact Hh.
      + eapply (gen_noisy_c e (set_state p GenNoisy) [] more p' []);
          [reflexivity|exact Hf|exact Hix|exact Hh|intros F0; rewrite Ei in F0; discriminate F0
          |apply HeN; left; split; [reflexivity|exact Ei]|apply HeN; left; split; [reflexivity|exact Ei]
          |intros Hy; apply HeQ; [discriminate|intros _; exact Ei|exact Hy]|exact H].
    - (* GenNoisy *)
      cbn [stage_inv] in Hsi. subst R. rewrite app_nil_r in *.
      eapply (gen_noisy_c e p F more p' Y);
        [exact HF|exact Hf|exact Hix|exact Hh|apply Hip; discriminate
        |apply HeN; right; reflexivity|apply HeN; right; reflexivity|intros Hy; apply HeQ; [discriminate|discriminate|exact Hy]|exact H].
    - (* YieldGoodNoisy *)
      eapply (yield_good_c e p F more p' Y R);
        [exact HF|exact Hf|exact Hix|exact Hh|exact Hlow|exact Hsi|apply Hip; discriminate|exact Hst
        |intros Hy; apply HeQ; [discriminate|discriminate|exact Hy]|exact H].
    - (* GenQuiet: never the state between two calls *)
      assert (Hy : p_state p' = YieldRest).
      { unfold gen_quiet in H. destruct (store_alloc_all _ _); [|discriminate H]. unfold yield_rest in H.
        match type of H with match select ?q _ with _ => _ end = _ => destruct (select q (- HashMove + 1)) as [p3|] eqn:E3 end;
          injection H as _ <-; [|reflexivity].
        unfold select in E3. destruct (scan _ _ _ _); [|discriminate E3]. injection E3 as <-. reflexivity. }
      destruct (HeQ ltac:(discriminate) ltac:(discriminate) Hy) as [HQ1 HQ2].
      refine (proj1 (gen_quiet_c e p F more p' Y R HF Hf Hix Hh Hlow Hsi _ HQ1 HQ2 H)). apply Hip. discriminate.
    - (* YieldRest *)
      eapply yield_rest_c; [|exact Hst|exact H]. exists Y, R. rewrite Hst. auto 10.
  Qed.
End Complete.

(* ------------------------------------------------------------------------------------------ *)
(* Part 2: the picker as the search calls it *)
From Chess3 Require Import Base.Bits Model.Types Model.BoardDef Model.Board Model.Search Spec.Chess Spec.Rep
  Proofs.SearchModelInv Proofs.SearchModelBoard Proofs.SearchModelLegalBase Proofs.SearchModelLegal
  Proofs.SearchModelBoundsRoot.
From Chess3 Require Model.Movegen Proofs.ComposePicker Proofs.GenBase Proofs.GenRep Proofs.GenMake.

Lemma ranked_snd (f : N -> res Z) : forall ms l, ranked f ms = Ok l ->
  Forall (fun mw => exists m, f m = Ok (snd mw)) l.
Proof.
  unfold ranked. induction ms as [|m ms IH]; intros l H; cbn [map_res] in H.
  - injection H as <-. constructor.
  - destruct (f m) as [w| |] eqn:Ew; cbn [bind] in H; try discriminate H.
    destruct (map_res _ ms) as [ys| |] eqn:Ey; cbn [bind] in H; try discriminate H.
    injection H as <-. constructor; [exists m; exact Ew|apply IH; reflexivity].
Qed.

Lemma piece_code b s : GenRep.PRep b -> (s < 64)%N -> 0 <= zN (piece_at b s) <= HeurConsts.King.
Proof.
  intros HR Hs. rewrite (GenMake.who_kind b s HR Hs). unfold GenMake.kind_of.
  destruct (who (abs b) s) as [[c k]|] eqn:E; [|unfold zN, HeurConsts.King; cbn; lia].
  destruct (GenRep.who_piece_range b HR s c k E) as [_ Hk]. unfold zN, HeurConsts.King. lia.
Qed.

Section Lazy.
  Variable b : board.
  Hypothesis Hg : good b.
  Variable rk : Hist.ranker.
  Hypothesis Hrk : reachable rk.
  Variable hs : list hentry.
  Variable hm : Z.
  Hypothesis Hhm : mv_ok hm.

  Local Notation Nn := (map zN (Movegen.gen_noisy b)).
  Local Notation Qq := (map zN (Movegen.gen_quiet b)).
  Local Notation ipl := (Movegen.is_pseudo_legal b (Z.to_N hm)).

  Lemma C05_here : In hm (Nn ++ Qq) -> ipl = true.
  Proof.
    intros H. destruct Hg as [HR HV]. destruct Hhm as [H0 H1].
    destruct (ComposePicker.picker_hypotheses b (Z.to_N hm) HR HV ltac:(lia)) as [Hi _].
    apply Hi. rewrite Z2N.id by exact H0. exact H.
  Qed.

  Lemma noisy_above l : ranked (rank_noisy_b rk b) (Movegen.gen_noisy b) = Ok l -> map fst l = Nn /\ above l.
  Proof.
    intros H. split; [exact (map_res_fst _ _ _ H)|]. apply ranked_snd in H. unfold above.
    eapply Forall_impl; [|exact H]. intros mw (m & E). cbv beta in *. unfold rank_noisy_b in E.
    destruct (if (piece_at b (capture_sq b m) =? NoPiece)%N then _ else _) as [c| |]; cbn [bind] in E; try discriminate E.
    destruct (See.see_panics m); [discriminate E|]. injection E as E.
    pose proof (GenRep.Rep_PRep b (proj1 Hg)) as HP.
    assert (Hband : in_noisy_band (snd mw)).
    { rewrite <- E.
      pose proof (rank_noisy_band (zN (mv_promo m)) (zN (piece_at b (mv_from m))) (zN (piece_at b (capture_sq b m)))
                    (See.see b m (Z.min 0 (neg16 c)))) as Hb.
      assert (Hp : 0 <= zN (mv_promo m) <= 7) by (pose proof (GenBase.mv_promo_lt m); unfold zN; lia).
      specialize (Hb Hp (piece_code b _ HP (GenBase.mv_from_lt m)) (piece_code b _ HP (GenMake.capture_sq_lt b m))).
      unfold in_noisy_band. destruct (See.see b m _); [left|right]; exact Hb. }
    apply (noisy_band_layout _ Hband).
  Qed.

  Lemma quiet_above l : ranked (rank_quiet_b rk hs b) (Movegen.gen_quiet b) = Ok l -> map fst l = Qq /\ above l.
  Proof.
    intros H. split; [exact (map_res_fst _ _ _ H)|]. apply ranked_snd in H. unfold above.
    eapply Forall_impl; [|exact H]. intros mw (m & E). cbv beta in *. unfold rank_quiet_b in E.
    destruct (Hist.rank_quiet rk _ _ _ _ _) as [w|] eqn:Ew; cbn [of_opt] in E; [|discriminate E]. injection E as <-.
    apply (quiet_band_layout _ (rank_quiet_band _ _ _ _ _ _ _ (reachable_ok rk Hrk) Ew)).
  Qed.

  Variable fr : list nat.
  Variable L : list Picker.wmove.
  Local Notation CI := (cinv Nn Qq ipl hm fr L).
  Local Notation CP := (cpost Nn Qq ipl hm fr L).

  Lemma of_opt_ok {A} (x : option A) r : of_opt x = Ok r -> x = Some r.
  Proof. destruct x; cbn; [now injection 1 as ->|discriminate]. Qed.

  Lemma pnext_quiet_c p F i noisyW more p' : CI p F -> Picker.p_state p <> Picker.YieldRest ->
    (Picker.p_state p = Picker.PickHash -> i = ipl /\ ipl = false) ->
    (Picker.p_state p = Picker.PickHash \/ Picker.p_state p = Picker.GenNoisy -> map fst noisyW = Nn /\ above noisyW) ->
    pnext_quiet rk hs b p i noisyW = Ok (more, p') -> CP p' F more.
  Proof.
    intros Hc Hny Hi HN H. unfold pnext_quiet in H.
    destruct (of_opt (Picker.next (mk_env i noisyW []) p)) as [[more1 p1]| |] eqn:E1; cbn [bind] in H; try discriminate H.
    apply of_opt_ok in E1.
    destruct (is_yield_rest (Picker.p_state p1)) eqn:Ey.
    - destruct (ranked (rank_quiet_b rk hs b) (Movegen.gen_quiet b)) as [quietW| |] eqn:Eq; cbn [bind] in H; try discriminate H.
      apply of_opt_ok in H. destruct (quiet_above _ Eq) as [Q1 Q2].
      eapply (next_c Nn Qq ipl hm C05_here fr L (mk_env i noisyW quietW)); [exact Hc| | | |exact H]; cbn [Picker.e_ipl Picker.e_noisy Picker.e_quiet mk_env].
      + intros Hs. apply (Hi Hs).
      + intros [[Hs _]|Hs]; apply HN; auto.
      + intros _ _ _. split; assumption.
    - injection H as <- <-.
      eapply (next_c Nn Qq ipl hm C05_here fr L (mk_env i noisyW [])); [exact Hc| | | |exact E1]; cbn [Picker.e_ipl Picker.e_noisy Picker.e_quiet mk_env].
      + intros Hs. apply (Hi Hs).
      + intros [[Hs _]|Hs]; apply HN; auto.
      + intros _ _ Hy. rewrite Hy in Ey. discriminate Ey.
  Qed.

  Lemma pnext_noisy_c p F more p' : CI p F ->
    (Picker.p_state p = Picker.PickHash /\ ipl = false) \/ Picker.p_state p = Picker.GenNoisy ->
    pnext_noisy rk hs b p false = Ok (more, p') -> CP p' F more.
  Proof.
    intros Hc Hst H. unfold pnext_noisy in H.
    destruct (ranked (rank_noisy_b rk b) (Movegen.gen_noisy b)) as [noisyW| |] eqn:En; cbn [bind] in H; try discriminate H.
    destruct (noisy_above _ En) as [N1 N2].
    eapply pnext_quiet_c; [exact Hc| | | |exact H].
    - destruct Hst as [[Hs _]|Hs]; rewrite Hs; discriminate.
    - intros Hs. destruct Hst as [[_ Hf]|Hs']; [split; [symmetry; exact Hf|exact Hf]|congruence].
    - intros _. split; assumption.
  Qed.

  Lemma pnext_c p F more p' : CI p F -> pnext rk hs b p = Ok (more, p') -> CP p' F more.
  Proof.
    intros Hc H. pose proof Hc as (Y & R & _ & _ & _ & Hh & _). unfold pnext in H.
    destruct (Picker.p_state p) eqn:Hst.
    - rewrite Hh in H. assert (D : ipl = true \/ ipl = false) by (destruct ipl; auto). destruct D as [Ei|Ei]; rewrite Ei in H.
      + apply of_opt_ok in H.
        eapply (next_c Nn Qq ipl hm C05_here fr L (mk_env true [] [])); [exact Hc| | | |exact H]; cbn [Picker.e_ipl Picker.e_noisy Picker.e_quiet mk_env].
        * intros _. symmetry. exact Ei.
        * intros [[_ Hf]|Hs]; congruence.
        * intros _ Hf _. specialize (Hf Hst). congruence.
      + eapply pnext_noisy_c; [exact Hc|left; split; [exact Hst|exact Ei]|exact H].
    - eapply pnext_noisy_c; [exact Hc|right; exact Hst|exact H].
    - eapply pnext_quiet_c; [exact Hc|rewrite Hst; discriminate| | |exact H]; rewrite Hst; [discriminate|intros [F0|F0]; discriminate F0].
    - eapply pnext_quiet_c; [exact Hc|rewrite Hst; discriminate| | |exact H]; rewrite Hst; [discriminate|intros [F0|F0]; discriminate F0].
    - apply of_opt_ok in H.
      eapply (next_c Nn Qq ipl hm C05_here fr L (mk_env false [] [])); [exact Hc| | | |exact H]; rewrite Hst.
      + discriminate.
      + intros [[F0 _]|F0]; discriminate F0.
      + intros F0. exfalso. apply F0. reflexivity.
  Qed.

  Lemma drained_complete p ys : drained rk hs b p ys -> forall F, CI p F ->
    forall g, In g (Nn ++ Qq) -> In g F \/ In g ys.
  Proof.
    induction 1 as [p p' Hn|p p' ys Hn Hd IH]; intros F Hc g Hgg.
    - left. exact (pnext_c _ _ _ _ Hc Hn g Hgg).
    - pose proof (pnext_c _ _ _ _ Hc Hn) as Hc'. cbv beta iota delta [cpost] in Hc'.
      destruct (IH _ Hc' g Hgg) as [Hi|Hi]; [|right; right; exact Hi].
      apply in_app_or in Hi. destruct Hi as [Hi|[<-|[]]]; [left; exact Hi|right; left; reflexivity].
  Qed.
End Lazy.

Theorem picker_complete_reachable b rk hs : good b -> reachable rk -> picker_complete rk hs b.
Proof.
  intros Hg Hrk s hm ys Hhm Hd m Hm.
  destruct (drained_complete b Hg rk Hrk hs hm Hhm (length (Picker.s_data s) :: Picker.s_frames s) (Picker.s_data s)
              _ _ Hd []) with (g := zN m) as [F|F]; [| |destruct F|exact F].
  - exists [], []. unfold fresh_picker, p_with_store, Picker.picker_new. cbn [Picker.p_store Picker.p_ix Picker.p_hash Picker.p_state app length map].
    split; [reflexivity|]. split; [apply push_framed|]. split; [reflexivity|]. split; [reflexivity|].
    split; [intros x []|]. split; [split; reflexivity|]. intros F0. exfalso. apply F0. reflexivity.
  - rewrite <- map_app. apply in_map. exact Hm.
Qed.
