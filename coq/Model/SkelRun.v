(* An executable interpreter of the skeleton semantics, driven by an oracle (a list of numbers that
   resolves every nondeterministic choice).  Used for the non-vacuity Examples of C06/C07/C08
   (Properties/C0x_skel.v): it exhibits concrete executions of the generated skeleton.  When the
   fuel runs out the run is observed where it stands (outcome OHalt), which is an execution too. *)
From Coq Require Import String List ZArith Bool.
From Chess3 Require Import Model.Skel Model.SkelCheck.
Import ListNotations.
Open Scope string_scope.

Section Run.
Variables B M T : Type.
Variable make : M -> B -> B * T.
Variable undo : M -> T -> B -> B.
Variable make_null : B -> B * T.
Variable undo_null : T -> B -> B.
Variable ftable : list (string * stmt).
Variable mk : nat -> M.                       (* the oracle's numbers as moves *)
Variable t0 : T.
Variable M_eq_dec : forall a b : M, {a = b} + {a <> b}.

Notation glob := (glob B M).
Notation locals := (locals M T).
Notation cstate := (cstate B M T).

Definition pick (orc : list nat) : nat * list nat := (hd 0 orc, tl orc).
Definition bit (n : nat) : bool := Nat.eqb n 1 || Nat.eqb n 2.

Definition fresh_dec (g : glob) (l : locals) (m : M) : {pv_fresh B M T g l m} + {~ pv_fresh B M T g l m}.
Proof. unfold pv_fresh. repeat decide equality. Defined.

Definition havoc_locals (l : locals) (x : string) (n : nat) : locals :=
  {| menv := fun y p => if String.eqb y x then mk n else menv M T l y p;
     tenv := tenv M T l;
     cenv := fun c vs => if mem x vs then Nat.testbit n (Nat.modulo (String.length c) 3) else cenv M T l c vs;
     ply := ply M T l; defers := defers M T l |}.

Definition arun (a : atom) (c : cstate) (orc : list nat) : cstate * list nat :=
  let (g, l) := c in
  match a with
  | Make x p r =>
      let (b', t) := make (menv M T l x p) (board B M g) in
      ((set_made B M (set_board B M g b') (Some (menv M T l x p) :: made B M g), set_tenv M T l r t), orc)
  | Undo x p r =>
      ((set_made B M (set_board B M g (undo (menv M T l x p) (tenv M T l r) (board B M g))) (tl (made B M g)), l), orc)
  | MakeNull r =>
      let (b', t) := make_null (board B M g) in
      ((set_made B M (set_board B M g b') (None :: made B M g), set_tenv M T l r t), orc)
  | UndoNull r =>
      ((set_made B M (set_board B M g (undo_null (tenv M T l r) (board B M g))) (tl (made B M g)), l), orc)
  | Havoc x => let (n, orc') := pick orc in ((g, havoc_locals l x n), orc')
  | MsPush => ((set_ms_frames B M g (ms_alloc B M g :: ms_frames B M g), l), orc)
  | MsPop =>
      ((match ms_frames B M g with
        | [] => set_ms_alloc B M g 0
        | a :: fs => set_ms_frames B M (set_ms_alloc B M g a) fs
        end, l), orc)
  | MsAlloc => let (n, orc') := pick orc in ((set_ms_alloc B M g (ms_alloc B M g + n), l), orc')
  | MsClear => ((set_ms_frames B M (set_ms_alloc B M g 0) [], l), orc)
  | HPush => ((set_hdepth B M g (S (hdepth B M g)), l), orc)
  | HPop => ((set_hdepth B M g (Nat.pred (hdepth B M g)), l), orc)
  | HReset => ((set_hdepth B M g 0, l), orc)
  | IncNodes => ((inc_nodes B M g, l), orc)
  | ClearAbort => ((set_aborted B M g false, l), orc)
  | PonderOff => ((set_ponder B M g false, l), orc)
  | TTLookup => ((g, l), orc)
  | TTInsert tag | HistUpdate tag => ((store_event B M g tag, l), orc)
  | PvSetNull => ((set_pv B M g (upd_pv M (pv B M g) (ply M T l) []), l), orc)
  | PvInsert x p =>
      let g' := set_pv B M g (upd_pv M (pv B M g) (ply M T l) (menv M T l x p :: pv B M g (S (ply M T l)))) in
      ((if fresh_dec g l (menv M T l x p) then g' else set_pv_bad B M g' true, l), orc)
  | GenIncr => ((set_gen B M g (S (gen B M g)), l), orc)
  | FreshCounters => ((set_nodes B M g 0%Z, l), orc)
  | SetC c vs v => ((g, set_cenv M T l c vs v), orc)
  end.

Definition result := (outcome * cstate * list nat)%type.

Fixpoint run (fuel : nat) (s : stmt) (c : cstate) (orc : list nat) : result :=
  match fuel with
  | O => (OHalt, c, orc)
  | S fuel' =>
      match s with
      | Skip => (ONormal, c, orc)
      | Atom a => let (c', orc') := arun a c orc in (ONormal, c', orc')
      | Seq s1 s2 =>
          match run fuel' s1 c orc with
          | (ONormal, c1, orc1) => run fuel' s2 c1 orc1
          | (OGoto lb, c1, orc1) =>
              match seek lb s2 with
              | Some k => run fuel' k c1 orc1
              | None => (OGoto lb, c1, orc1)
              end
          | r => r
          end
      | If s1 s2 => let (n, orc') := pick orc in if bit n then run fuel' s1 c orc' else run fuel' s2 c orc'
      | IfAborted s1 s2 =>
          if aborted B M (fst c) then run fuel' s1 (set_aborted B M (fst c) true, snd c) orc
          else let (n, orc') := pick orc in
               if Nat.eqb n 7 then run fuel' s1 (set_aborted B M (fst c) true, snd c) orc'   (* the stop channel fires *)
               else run fuel' s2 c orc'
      | IfC cn vs neg s1 s2 =>
          if Bool.eqb (cenv M T (snd c) cn vs) (negb neg) then run fuel' s1 c orc else run fuel' s2 c orc
      | Loop b =>
          match run fuel' b c orc with
          | (ONormal, c1, orc1) | (OContinue, c1, orc1) => run fuel' (Loop b) c1 orc1
          | (OBreak, c1, orc1) => (ONormal, c1, orc1)
          | r => r
          end
      | CatchCont s1 => match run fuel' s1 c orc with (o, c1, orc1) => (uncont o, c1, orc1) end
      | CatchBreak s1 => match run fuel' s1 c orc with (o, c1, orc1) => (unbreak o, c1, orc1) end
      | Defer a => (ONormal, (fst c, push_defer M T (snd c) a), orc)
      | Call f p =>
          match lookup f ftable with
          | None => (OHalt, c, orc)
          | Some b =>
              let (n, orc0) := pick orc in
              match run fuel' b (enter B M T p c (fun _ _ => mk n) (fun _ => t0) (fun _ _ => bit n)) orc0 with
              | (OHalt, c1, orc1) => (OHalt, c1, orc1)
              | (o1, c1, orc1) =>
                  if is_exit o1 then
                    match run fuel' (defer_stmt (defers M T (snd c1))) c1 orc1 with
                    | (ONormal, c2, orc2) => (ONormal, leave B M T p c c2, orc2)
                    | (OHalt, c2, orc2) => (OHalt, c2, orc2)
                    | _ => (OHalt, c, orc)
                    end
                  else (OHalt, c, orc)
              end
          end
      | Return => (OReturn, c, orc)
      | Break => (OBreak, c, orc)
      | Continue => (OContinue, c, orc)
      | Goto lb => (OGoto lb, c, orc)
      | Label _ => (ONormal, c, orc)
      end
  end.

End Run.
