(* What the search needs to know about one call of the staged picker (Model/Picker.v next), in the
   direction "the call returned, hence ...": the store frames below the picker's frame are untouched,
   the frame only ever holds the hash move (when IsPseudoLegal accepted it) and moves of the
   environment, the yielded entry is one of them.  A is any predicate on moves that ignores weights. *)
From Coq Require Import ZArith List Bool Lia Permutation.
From Chess3 Require Import Base.Word Gen.HeurConsts Model.Hist Model.Picker Proofs.PickerProofs.
Import ListNotations.
Open Scope Z_scope.

Lemma alloc_all_framed' fr L : forall ms s s' X, store_alloc_all s ms = Some s' -> framed s fr L X ->
  framed s' fr L (X ++ map (fun m => (m, 0)) ms).
Proof.
  induction ms as [|m ms IH]; intros s s' X H Hf; cbn [store_alloc_all map] in *.
  - injection H as <-. now rewrite app_nil_r.
  - destruct (store_alloc s m) as [s1|] eqn:E; [|discriminate H].
    assert (Hf1 : framed s1 fr L (X ++ [(m, 0)])).
    { unfold store_alloc in E. destruct (Z.of_nat (length (s_data s)) <? StoreSize); [|discriminate E].
      injection E as <-. destruct Hf as (Hd & Hfr & Hl). unfold framed. cbn [s_data s_frames].
      rewrite Hd, app_assoc. auto. }
    specialize (IH _ _ _ H Hf1). now rewrite <- app_assoc in IH.
Qed.

Section PickerInv.
  Variable A : wmove -> Prop.
  Hypothesis A_w : forall m w w', A (m, w) -> A (m, w').

  Lemma A_mark hm l : Forall A l -> Forall A (map (mark hm) l).
  Proof.
    intros H. apply Forall_forall. intros x Hx. apply in_map_iff in Hx. destruct Hx as ([m w] & <- & Hi).
    unfold mark. cbn [fst snd]. eapply A_w. eapply Forall_forall in H; [exact H|exact Hi].
  Qed.

  (* the picker's frame: Y = yielded so far, Rr = generated and not yet yielded *)
  Definition pinv (fr : list nat) (L : list wmove) (p : picker) : Prop :=
    exists Y Rr, framed (p_store p) fr L (Y ++ Rr) /\ p_ix p = length Y /\ Forall A (Y ++ Rr)
      /\ (p_state p = PickHash -> Y = [] /\ Rr = []) /\ (p_state p = GenNoisy -> Rr = []).

  Variable fr : list nat.
  Variable L : list wmove.

  Lemma select_inv p Y R thr p' : framed (p_store p) fr L (Y ++ R) -> p_ix p = length Y -> Forall A (Y ++ R) ->
    select p thr = Some p' ->
    exists y Rm, framed (p_store p') fr L ((Y ++ [y]) ++ Rm) /\ p_ix p' = length (Y ++ [y])
      /\ Forall A ((Y ++ [y]) ++ Rm) /\ current p' = y /\ A y /\ p_state p' = p_state p /\ p_hash p' = p_hash p.
  Proof.
    intros Hf Hix HA Hs. pose proof (select_spec p fr L Y R thr Hf Hix) as H. rewrite Hs in H.
    destruct H as (y & Rm & Hf' & Hix' & Hperm & _ & Hcur & Hst & Hh).
    exists y, Rm. apply Forall_app in HA. destruct HA as [HY HR].
    assert (HyR : Forall A (y :: Rm)) by (eapply Permutation_Forall; [apply Permutation_sym; exact Hperm|exact HR]).
    splits; auto.
    - rewrite <- app_assoc. cbn [app]. apply Forall_app. split; assumption.
    - now inversion HyR.
  Qed.

  Definition post (p p' : picker) (more : bool) : Prop :=
    pinv fr L p' /\ p_hash p' = p_hash p /\ (more = true -> A (current p') /\ (1 <= p_ix p')%nat).

  Lemma yield_rest_inv p Y R more p' : framed (p_store p) fr L (Y ++ R) -> p_ix p = length Y -> Forall A (Y ++ R) ->
    p_state p = YieldRest -> yield_rest p = Some (more, p') -> post p p' more.
  Proof.
    intros Hf Hix HA Hst H. unfold yield_rest in H. destruct (select p (- HashMove + 1)) as [p1|] eqn:Es.
    - injection H as <- <-. destruct (select_inv _ _ _ _ _ Hf Hix HA Es) as (y & Rm & Hf' & Hix' & HA' & Hcur & Ay & Hst' & Hh).
      split; [|split; [exact Hh|intros _; rewrite Hcur, Hix', app_length; cbn; split; [exact Ay|lia]]].
      exists (Y ++ [y]), Rm. splits; auto; intros Hs; rewrite Hst', Hst in Hs; discriminate Hs.
    - injection H as <- <-. split; [|split; [reflexivity|discriminate]].
      exists Y, R. splits; auto; intros Hs; rewrite Hst in Hs; discriminate Hs.
  Qed.

  Lemma gen_quiet_inv e p F more p' : framed (p_store p) fr L F -> (p_ix p <= length F)%nat -> Forall A F ->
    Forall A (e_quiet e) -> gen_quiet e p = Some (more, p') -> post p p' more.
  Proof.
    intros Hf Hix HA HQ H. unfold gen_quiet in H. cbn [set_state p_store p_ix p_hash p_state] in H.
    rewrite (framed_frame _ _ _ _ Hf) in H.
    destruct (store_alloc_all (p_store p) (map fst (e_quiet e))) as [s|] eqn:Ea; [|discriminate H].
    pose proof (alloc_all_framed' fr L _ _ _ _ Ea Hf) as Hfs.
    rewrite (framed_frame _ _ _ _ Hfs), firstn_app_len, skipn_app_len, assign_weights_spec in H.
    set (F' := F ++ map (mark (p_hash p)) (e_quiet e)) in *.
    assert (HF' : Forall A F') by (apply Forall_app; split; [exact HA|now apply A_mark]).
    assert (Hsplit : F' = firstn (p_ix p) F' ++ skipn (p_ix p) F') by (symmetry; apply firstn_skipn).
    assert (Hlen : p_ix p = length (firstn (p_ix p) F')).
    { rewrite firstn_length. unfold F'. rewrite app_length. lia. }
    match type of H with yield_rest ?q = _ => set (p2 := q) in * end.
    assert (Hf2 : framed (p_store p2) fr L (firstn (p_ix p) F' ++ skipn (p_ix p) F')).
    { rewrite <- Hsplit. unfold p2. cbn [p_store]. eapply framed_write. exact Hfs. }
    destruct (yield_rest_inv p2 _ _ _ _ Hf2 Hlen ltac:(now rewrite <- Hsplit) eq_refl H) as (Hp & Hh & Hc).
    split; [exact Hp|]. split; [exact Hh|exact Hc].
  Qed.

  Lemma yield_good_inv e p Y R more p' : framed (p_store p) fr L (Y ++ R) -> p_ix p = length Y -> Forall A (Y ++ R) ->
    p_state p = YieldGoodNoisy -> Forall A (e_quiet e) -> yield_good_noisy e p = Some (more, p') -> post p p' more.
  Proof.
    intros Hf Hix HA Hst HQ H. unfold yield_good_noisy in H. destruct (select p 0) as [p1|] eqn:Es.
    - injection H as <- <-. destruct (select_inv _ _ _ _ _ Hf Hix HA Es) as (y & Rm & Hf' & Hix' & HA' & Hcur & Ay & Hst' & Hh).
      split; [|split; [exact Hh|intros _; rewrite Hcur, Hix', app_length; cbn; split; [exact Ay|lia]]].
      exists (Y ++ [y]), Rm. splits; auto; intros Hs; rewrite Hst', Hst in Hs; discriminate Hs.
    - apply (gen_quiet_inv e (set_state p GenQuiet) (Y ++ R)) in H; auto.
      cbn [set_state p_ix]. rewrite Hix, app_length. lia.
  Qed.

  Lemma gen_noisy_inv e p F more p' : framed (p_store p) fr L F -> p_ix p = length F -> Forall A F ->
    Forall A (e_noisy e) -> Forall A (e_quiet e) -> gen_noisy e p = Some (more, p') -> post p p' more.
  Proof.
    intros Hf Hix HA HN HQ H. unfold gen_noisy in H. cbn [set_state p_store p_ix p_hash p_state] in H.
    destruct (store_alloc_all (p_store p) (map fst (e_noisy e))) as [s|] eqn:Ea; [|discriminate H].
    pose proof (alloc_all_framed' fr L _ _ _ _ Ea Hf) as Hfs.
    rewrite (framed_frame _ _ _ _ Hfs), Hix, firstn_app_len, skipn_app_len, assign_weights_spec in H.
    match type of H with yield_good_noisy _ ?q = _ => set (p1 := q) in * end.
    assert (Hf1 : framed (p_store p1) fr L (F ++ map (mark (p_hash p)) (e_noisy e))).
    { unfold p1. cbn [p_store]. eapply framed_write. exact Hfs. }
    assert (HA1 : Forall A (F ++ map (mark (p_hash p)) (e_noisy e))) by (apply Forall_app; split; [exact HA|now apply A_mark]).
    destruct (yield_good_inv e p1 F _ more p' Hf1 eq_refl HA1 eq_refl HQ H) as (Hp & Hh & Hc).
    split; [exact Hp|]. split; [exact Hh|exact Hc].
  Qed.

  Lemma next_inv e p more p' : pinv fr L p -> (e_ipl e = true -> A (p_hash p, 0)) ->
    Forall A (e_noisy e) -> Forall A (e_quiet e) -> next e p = Some (more, p') -> post p p' more.
  Proof.
    intros (Y & Rr & Hf & Hix & HA & Hph & Hgn) Hipl HN HQ H. unfold next in H.
    destruct (p_state p) eqn:Hst.
    - (* PickHash *)
      destruct (Hph eq_refl) as [-> ->]. cbn [app] in *. unfold pick_hash in H.
      cbn [set_state p_store p_ix p_hash p_state] in H. destruct (e_ipl e) eqn:Ei.
      + destruct (store_alloc (p_store p) (p_hash p)) as [s|] eqn:Ea; [|discriminate H].
        injection H as <- <-.
        assert (Hfs : framed s fr L [(p_hash p, 0)]).
        { pose proof (alloc_all_framed' fr L [p_hash p] (p_store p) s [] ) as Q. cbn [store_alloc_all map app] in Q.
          rewrite Ea in Q. exact (Q eq_refl Hf). }
        rewrite (framed_frame _ _ _ _ Hfs). cbn [length Nat.sub set_nth firstn skipn app].
        split; [|split; [reflexivity|]].
        * exists [(p_hash p, HashMove)], []. cbn [p_store p_ix p_state app length]. splits.
          -- eapply framed_write. exact Hfs.
          -- now rewrite Hix.
          -- constructor; [|constructor]. eapply A_w. now apply Hipl.
          -- discriminate.
          -- intros _. reflexivity.
        * intros _. unfold current. cbn [p_store p_ix]. split; [|lia].
          erewrite framed_frame; [|eapply framed_write; exact Hfs]. rewrite Hix. cbn. eapply A_w. now apply Hipl.
      + apply (gen_noisy_inv e (set_state p GenNoisy) []) in H; auto.
    - (* GenNoisy *)
      rewrite (Hgn eq_refl), app_nil_r in *. apply (gen_noisy_inv e p Y) in H; auto.
    - apply (yield_good_inv e p Y Rr) in H; auto.
    - apply (gen_quiet_inv e p (Y ++ Rr)) in H; auto. rewrite Hix, app_length. lia.
    - apply (yield_rest_inv p Y Rr) in H; auto.
  Qed.

  (* the search's write into the yielded entry keeps the frame's moves *)
  Lemma poke_inv p v : pinv fr L p -> (1 <= p_ix p)%nat -> pinv fr L (poke p v) /\ p_hash (poke p v) = p_hash p.
  Proof.
    intros (Y & Rr & Hf & Hix & HA & Hph & Hgn) H1. destruct v as [w|]; [|split; [exists Y, Rr; auto|reflexivity]].
    unfold poke. split; [|reflexivity]. rewrite (framed_frame _ _ _ _ Hf).
    destruct Y as [|y0 Y0] using rev_ind; [cbn in Hix; lia|]. clear IHY0.
    rewrite Hix, app_length in *. cbn [length] in *. replace (length Y0 + 1 - 1)%nat with (length Y0) by lia.
    rewrite <- app_assoc. cbn [app]. rewrite nth_middle, set_nth_app.
    exists (Y0 ++ [(fst y0, w)]), Rr. cbn [p_store p_ix p_state]. splits; auto.
    - rewrite <- app_assoc. cbn [app]. eapply framed_write. exact Hf.
    - rewrite app_length. cbn. lia.
    - rewrite <- app_assoc in *. cbn [app] in *. apply Forall_app in HA. destruct HA as [H0 HA].
      apply Forall_app. split; [exact H0|]. inversion HA; subst. constructor; [|assumption].
      destruct y0 as [m w0]. eapply A_w. eassumption.
    - intros Hs. destruct (Hph Hs) as [Hc _]. destruct Y0; discriminate Hc.
  Qed.
End PickerInv.
