package main

import (
	. "github.com/paulsonkoly/chess-3/chess"
	"github.com/paulsonkoly/chess-3/heur"
	"github.com/paulsonkoly/chess-3/move"
	"github.com/paulsonkoly/chess-3/params"
	"github.com/paulsonkoly/chess-3/search"
	"github.com/paulsonkoly/chess-3/transp"
)

// Everything search/search.go reads from outside itself, for the closed search model
// (coq/Model/Search.v): every constant of package params (default, non-spsa build), the LMR log
// table, the score and depth constants, the node type codes, the heuristics' piece values, the
// table's bound type codes.
func init() {
	generators = append(generators, func() {
		f := newFile("SearchParams.v", "From Coq Require Import ZArith List.\nImport ListNotations.\nOpen Scope Z_scope.")
		f.p("(* package params *)\n")
		f.p("Definition NMPDiffFactor : Z := %d.\n", int64(params.NMPDiffFactor))
		f.p("Definition NMPDepthLimit : Z := %d.\n", int64(params.NMPDepthLimit))
		f.p("Definition NMPInit : Z := %d.\n", int64(params.NMPInit))
		f.p("Definition RFPDepthLimit : Z := %d.\n", int64(params.RFPDepthLimit))
		f.p("Definition RFPScoreFactor : Z := %d.\n", int64(params.RFPScoreFactor))
		f.p("Definition WindowSize : Z := %d.\n", int64(params.WindowSize))
		f.p("Definition LMRStart : Z := %d.\n", int64(params.LMRStart))
		f.p("Definition StandPatDelta : Z := %d.\n", int64(params.StandPatDelta))
		f.p("Definition HistBonusMul : Z := %d.\n", int64(params.HistBonusMul))
		f.p("Definition HistBonusLin : Z := %d.\n", int64(params.HistBonusLin))
		f.p("Definition HistAdjRange : Z := %d.\n", int64(params.HistAdjRange))
		f.p("Definition HistAdjReduction : Z := %d.\n", int64(params.HistAdjReduction))
		f.p("Definition IIRDepthLimit : Z := %d.\n", int64(params.IIRDepthLimit))
		f.p("(* package chess *)\n")
		f.p("Definition Inf : Z := %d.\n", int64(Inf))
		f.p("Definition Inv : Z := %d.\n", int64(Inv))
		f.p("Definition MaxPlies : Z := %d.\n", int64(MaxPlies))
		f.p("(* search/search.go: node types and the LMR log table *)\n")
		f.p("Definition PVNode : Z := %d.\n", int64(search.PVNode))
		f.p("Definition CutNode : Z := %d.\n", int64(search.CutNode))
		f.p("Definition AllNode : Z := %d.\n", int64(search.AllNode))
		f.p("Definition LogTable : list Z := [")
		for i, v := range search.VerifLog() {
			if i > 0 {
				f.p("; ")
			}
			f.p("%d", int64(v))
		}
		f.p("].\n")
		f.p("Definition LogLen : Z := %d.\n", int64(len(search.VerifLog())))
		f.p("(* heur.PieceValues as quiescence reads them *)\n")
		f.p("Definition PieceValues : list Z := [")
		for i, v := range heur.PieceValues {
			if i > 0 {
				f.p("; ")
			}
			f.p("%d", int64(v))
		}
		f.p("].\n")
		f.p("(* transp bound types *)\n")
		f.p("Definition UpperBound : Z := %d.\n", int64(transp.UpperBound))
		f.p("Definition LowerBound : Z := %d.\n", int64(transp.LowerBound))
		f.p("Definition Exact : Z := %d.\n", int64(transp.Exact))
		f.p("(* move/store.go, search/pv.go *)\n")
		f.p("Definition StoreSize : Z := %d.\n", int64(move.StoreSize))
		f.p("Definition PVSize : Z := %d.\n", int64(search.VerifPVSize()))
	})
}
