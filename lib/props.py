"""Per-property configuration and the generic run of one property check."""
import json, os, re, time
import vcheck as V


class StreamCfg:
    def __init__(self, name, quick, thorough, judge=None, rule="", model=True, race=False):
        self.name, self.quick, self.thorough, self.judge, self.rule = name, quick, thorough, judge, rule
        self.model = model      # False: implementation-only stream judged by `judge`
        self.race = race


class Prop:
    def __init__(self, pid, title, coq, streams, allowed_axioms=(), trusted=(), assumptions=(),
                 extra=None, classify=None, design_ref=""):
        self.pid, self.title, self.coq, self.streams = pid, title, coq, streams
        self.allowed_axioms = set(allowed_axioms)
        self.trusted, self.assumptions = list(trusted), list(assumptions)
        self.extra = extra          # callable(prop, res) for property specific steps
        self.classify = classify    # callable(witness dict) -> known-finding id or None
        self.design_ref = design_ref


COMMON_TRUSTED = [
    "Coq 8.16.1 kernel (coqc, full .vo build; vm_compute for finite sweeps; no native_compute)",
    "translator /verif/harness/cmd/gen (Go compiler evaluating the repo's own constants through the verif hooks) -> coq/Gen/*.v, regenerated on this run",
    "extraction: Require ExtrOcamlBasic only (its Extract Inductive bool/option/unit/prod/list/sumbool/sumor and Extract Inlined Constant andb/orb/negb/fst/snd...); N, Z, positive, nat stay inductive; generic OCaml driver Extract/driver.ml (hex <-> positive, no arithmetic)",
    "correspondence harness /verif/harness (Go, built from /repo's working tree with -tags verif) and the line diff in lib/vcheck.py",
]

PROPS = {}


def reg(p):
    PROPS[p.pid] = p


# ------------------------------------------------------------------------------------------------
# generic run

def check_obligations(prop, res):
    """Re-check the property's theorems against the regenerated Gen files."""
    rel = prop.coq
    names = V.theorem_names(rel)
    res.obligations = len(names)
    res.theorems = names
    ok, out = V.coq_make([rel[:-2] + ".vo"])
    with open(os.path.join(V.BUILD, "logs", f"{prop.pid}-make.log"), "w") as f:
        f.write(out)
    if not ok:
        loc = V.locate_failure(out) or {"file": rel, "statement": None, "error": out[-800:]}
        res.broken.append({"kind": "obligation", "name": f"{loc.get('file')}:{loc.get('statement')}", "detail": loc})
        V.log(f"proof obligation broken: {loc.get('file')} {loc.get('statement')}")
        return False
    ok, out = V.coqc_file(rel)
    if not ok:
        loc = V.locate_failure(out) or {"file": rel, "statement": None, "error": out[-800:]}
        res.broken.append({"kind": "obligation", "name": f"{loc.get('file')}:{loc.get('statement')}", "detail": loc})
        return False
    blocks = V.parse_assumptions(out)
    axioms = sorted(set(a for b in blocks for a in b))
    res.assumptions = axioms
    res.assumption_blocks = len(blocks)
    unexpected = [a for a in axioms if a not in prop.allowed_axioms]
    if unexpected:
        res.broken.append({"kind": "obligation", "name": "Print Assumptions allow-list",
                           "detail": {"unexpected_axioms": unexpected}})
        return False
    res.discharged = len(names)
    return True


def run_stream(prop, res, sc, workdir):
    n = sc.quick if res.tier == "quick" else sc.thorough
    prefix = os.path.join(workdir, sc.name)
    info = {"stream": sc.name, "requested": n}
    t0 = time.time()
    # corpus (minimised earlier failures) first
    corpus = os.path.join(V.VERIF, "corpus", sc.name + ".in")
    rc, out = V.run_h(["gen", sc.name, str(n), res.tier, prefix], race=sc.race)
    if rc != 0:
        res.broken.append({"kind": "correspondence", "name": f"stream {sc.name}: harness failed",
                           "detail": {"log": out[-2000:]}})
        return info
    if os.path.exists(corpus):
        cin, cdesc, last = [], [], ""
        for l in V.read_lines(corpus):
            if l.startswith("#"):
                last = l[1:].strip()      # a comment line describes the case that follows it
            elif l.strip():
                cin.append(l)
                cdesc.append("corpus: " + last if last else "corpus")
                last = ""
        rc, cout = V.run_h(["run", sc.name], inp="\n".join(cin) + "\n")
        couts = cout.split("\n")[:len(cin)]
        # prepend
        for suf, extra in ((".in", cin), (".impl", couts), (".desc", cdesc)):
            body = open(prefix + suf).read()
            with open(prefix + suf, "w") as f:
                f.write("\n".join(extra) + "\n" + body)
        info["corpus"] = len(cin)
    stats = json.load(open(prefix + ".stats.json"))
    info["harness_s"] = round(time.time() - t0, 2)
    ins, impl, desc = (V.read_lines(prefix + s) for s in (".in", ".impl", ".desc"))
    res.evaluations += len(ins)
    res.distinct += stats.get("distinct_nontrivial", 0)
    for k, v in stats.get("tags", {}).items():
        res.tags[f"{sc.name}:{k}"] = v
    if ins:
        for j in (0, len(ins) // 2, len(ins) - 1):
            res.samples.append({"stream": sc.name, "input": desc[j] if j < len(desc) else ins[j], "impl": impl[j][:200]})
    info.update(cases=len(ins), distinct_nontrivial=stats.get("distinct_nontrivial", 0))
    mism = []
    if sc.model:
        t1 = time.time()
        rc, err = V.run_model_sharded(sc.name, prefix + ".in", prefix + ".model")
        info["model_s"] = round(time.time() - t1, 2)
        if rc != 0:
            res.broken.append({"kind": "correspondence", "name": f"stream {sc.name}: modelrun failed",
                               "detail": {"log": err[-2000:]}})
            return info
        n_cmp, mism = V.compare(prefix)
        info["compared"] = n_cmp
        info["mismatches"] = len(mism)
        if mism:
            res.broken.append({"kind": "correspondence", "name": f"stream {sc.name}: model and implementation disagree",
                               "detail": {"count": len(mism), "first": mism[:3]}})
            V.log(f"correspondence {sc.name}: {len(mism)} mismatches, first: {mism[0]['desc']} impl={mism[0]['impl'][:120]} model={mism[0]['model'][:120]}")
    info["_mism"] = mism
    info["_prefix"] = prefix
    return info


def witness_search(prop, res, infos):
    """Run the property judges over everything the streams observed on the implementation."""
    found = 0
    for sc, info in infos:
        if not sc.judge or "_prefix" not in info:
            continue
        prefix = info["_prefix"]
        ins, impl, desc = (V.read_lines(prefix + s) for s in (".in", ".impl", ".desc"))
        bad = V.judge(sc.judge, ins, impl, os.path.dirname(prefix), sc.name)
        info["judged"] = len(ins)
        info["judge_failures"] = len(bad)
        seen = set()
        for idx, verdict in bad:
            w = {"stream": sc.name, "input": ins[idx], "desc": desc[idx] if idx < len(desc) else "",
                 "impl_output": impl[idx], "verdict": verdict,
                 "replay_hint": f"echo '{ins[idx]}' | build/bin/h run {sc.name}"}
            kid = prop.classify(w) if prop.classify else None
            if kid:
                if kid not in seen:
                    seen.add(kid)
                    res.known.append((kid, w))
                continue
            cls = verdict
            if cls in seen:
                continue
            seen.add(cls)
            found += 1
            res.add_violation("witness", w, True)
            if found >= 5:
                break
    return found


def write_evidence(prop, res, infos, checker_cmd):
    cov = {
        "obligations": max(res.obligations, 1),
        "discharged": res.discharged,
        "checker_cmd": checker_cmd,
        "trusted_base": COMMON_TRUSTED + prop.trusted + [
            "axioms reported by Print Assumptions on this run: " + (", ".join(res.assumptions) if res.assumptions else "none (Closed under the global context)")],
        "theorems": getattr(res, "theorems", []),
        "evaluations": res.evaluations,
        "distinct_nontrivial": res.distinct,
        "rule": "; ".join(f"{sc.name}: {sc.rule}" for sc, _ in infos if sc.rule),
        "samples": res.samples[:12] or [{"note": "no correspondence stream ran"}],
        "input_distribution": res.tags,
        "streams": [{k: v for k, v in info.items() if not k.startswith("_")} for _, info in infos],
        "broken": [b["name"] for b in res.broken],
        "known_findings_reported": [k for k, _ in res.known],
        "notes": res.notes,
    }
    if cov["discharged"] < 1:
        # schema: a proof-level file with discharged = 0 is not valid; fall back to the generic keys
        cov["discharged_count"] = cov.pop("discharged")
    ev = {
        "property_id": prop.pid,
        "tier": res.tier,
        "seed": res.seed,
        "level": "proof",
        "coverage": cov,
        "assumptions": prop.assumptions,
        "wall_s": round(time.time() - res.t0, 2),
        "violations": len(res.violations),
    }
    os.makedirs(os.path.join(V.VERIF, "evidence"), exist_ok=True)
    with open(os.path.join(V.VERIF, "evidence", f"{prop.pid}.json"), "w") as f:
        json.dump(ev, f, indent=1)


def run(prop, res):
    workdir = os.path.join(V.BUILD, "run", f"{prop.pid}-{res.tier}")
    os.makedirs(workdir, exist_ok=True)
    os.makedirs(os.path.join(V.BUILD, "logs"), exist_ok=True)
    checker_cmd = (f"make -C coq -j16 {prop.coq[:-2]}.vo && coqc -Q coq Chess3 coq/{prop.coq}  "
                   f"(Print Assumptions under every theorem; hygiene grep over coq/**/*.v)")
    proofs_ok = check_obligations(prop, res)
    bad = V.hygiene()
    if bad:
        res.broken.append({"kind": "obligation", "name": "hygiene (Admitted/Axiom/...)", "detail": {"hits": bad[:20]}})
    infos = []
    model_ok = True
    try:
        V.build_modelrun()
    except V.BuildError as e:
        model_ok = False
        loc = V.locate_failure(e.log) or {}
        res.broken.append({"kind": "correspondence", "name": f"executable model does not build ({e.stage})",
                           "detail": {"log": e.log[-1500:], **loc}})
    for sc in prop.streams:
        if sc.model and not model_ok:
            # still run the implementation side so that the witness search has observations
            sc2 = StreamCfg(sc.name, sc.quick, sc.thorough, sc.judge, sc.rule, model=False, race=sc.race)
            infos.append((sc, run_stream(prop, res, sc2, workdir)))
        else:
            infos.append((sc, run_stream(prop, res, sc, workdir)))
    if prop.extra:
        prop.extra(prop, res, workdir)
    if res.tier == "thorough" and os.environ.get("VERIF_COQCHK", "1") == "1" and proofs_ok:
        rc, out = V.sh(["coqchk", "-silent", "-o", "-Q", ".", "Chess3", "Chess3." + prop.coq[:-2].replace("/", ".")],
                       cwd=V.COQ, timeout=5400)
        with open(os.path.join(V.BUILD, "logs", f"{prop.pid}-coqchk.log"), "w") as f:
            f.write(out)
        res.notes.append("coqchk -silent -o: " + ("ok" if rc == 0 else "FAILED") + "; " +
                         " ".join(out.strip().split("\n")[-12:])[:1500])
        if rc != 0:
            res.broken.append({"kind": "obligation", "name": "coqchk", "detail": {"log": out[-1500:]}})
    # witness search: after any break, and always in the thorough tier (and always when cheap)
    if model_ok and (res.broken or res.tier == "thorough" or True):
        witness_search(prop, res, infos)
    rc = 0
    for kid, w in res.known:
        print(f"KNOWN-FINDING: property={prop.pid} {kid} {w.get('desc', '')[:200]}")
    if res.broken and not res.violations:
        res.add_violation("unchecked", {"no_longer_checks": res.broken,
                                        "note": "a proof obligation or a correspondence broke and the witness search found no input on which the property fails"}, False)
    for path, found in res.violations:
        rc = 1
        print(f"VIOLATION property={prop.pid} replay={path}" + ("" if found else " no-failing-input-found"))
    write_evidence(prop, res, infos, checker_cmd)
    V.log(f"{prop.pid} {res.tier}: obligations {res.discharged}/{res.obligations}, cases {res.evaluations}, "
          f"violations {len(res.violations)}, {round(time.time() - res.t0, 1)} s")
    return rc


def replay(prop, res, path):
    body = json.load(open(path))
    if body.get("kind") == "witness":
        stream = body["stream"]
        sc = [s for s in prop.streams if s.name == stream][0]
        rc, out = V.run_h(["run", stream], inp=body["input"] + "\n")
        impl = out.strip().split("\n")[0]
        print("input :", body.get("desc") or body["input"])
        print("impl  :", impl)
        try:
            V.build_modelrun()
            wd = os.path.join(V.BUILD, "run", "replay")
            os.makedirs(wd, exist_ok=True)
            bad = V.judge(sc.judge, [body["input"]], [impl], wd, "replay") if sc.judge else []
        except V.BuildError as e:
            print("model does not build:", e.stage)
            return 1
        if bad:
            print(f"VIOLATION property={prop.pid} replay={path}")
            return 1
        print("property holds on this input now")
        return 0
    # unchecked obligation/correspondence: re-run the quick check
    return run(prop, res)


# ------------------------------------------------------------------------------------------------
# the properties

reg(Prop("C14", "Time budget granted to a search never exceeds the clock", "Properties/C14.v",
         [StreamCfg("c14", 20000, 400000, judge="judge_c14",
                    rule="dense grid remaining in -2..257 x 15 increments x colour x 8 move times plus random "
                         "(small, 10^12-range, wild 64-bit) clock states; non-trivial = mover has a clock or a move time; "
                         "distinct by input tuple")],
         trusted=["hook uci/export_verif.go (VerifSoftLimit/VerifHardLimit/VerifTimedMode call the unexported methods)",
                  "modelled, not verified: arming of time.Timer and the wall clock (runtime); see C13 for the protocol side"],
         assumptions=["remaining time 1..9*10^12 ms, increment 0..2^60 ms (superset of the stated 10^12 / 10^9 domain)",
                      "time.Duration(h)*time.Millisecond is int64 multiplication by 10^6"],
         design_ref="5/C14"))


reg(Prop("C02", "Playing a move produces the successor position the rules prescribe", "Properties/C02.v",
         [StreamCfg("c02", 60000, 1200000, judge="judge_c02",
                    rule="fixed en-passant / clock witnesses (F2, F5 and relatives); 25 % dedicated en-passant generator "
                         "(double push next to enemy pawns with the enemy king and an own slider lined up through the "
                         "destination, capturer, origin or passed-over square; both colours); 10 % positions with the "
                         "halfmove clock set to 98..101, 126..129, 254..257, 32765, 32766; the rest G1/G2/G4 positions x "
                         "every legal move; non-trivial = every case (a legal move played), distinct by (FEN, clock, move)"),
          StreamCfg("c02uci", 3000, 60000, judge="judge_c02uci",
                    rule="fresh in-process uci.Driver per case: position startpos|fen F moves ... then fen; legal lines "
                         "of 0..24 (10 %: 60..140) plies, 60 % with one bad token in the middle (possible-but-illegal move, "
                         "random square pair, wrong promotion suffix, malformed, one byte mutated, alias spelling); "
                         "non-trivial = a non-empty move list, distinct by input")],
         trusted=["hooks board/export_verif.go (VerifSnapshot/VerifRestore: field copies) and the exported uci.NewDriver options; "
                  "harness/hx/fen.go (strict parser of the printed FEN into six integers, independent of board.FromFEN)",
                  "the position set up by `position fen F` is taken from board.FromFEN (FEN parsing is property C11)",
                  "attack tables = ray geometry is property C12 (Model/Att.v uses the geometric definitions; the streams run "
                  "the Go code, which uses the magic tables, against them)"],
         assumptions=["halfmove clock before the move in 0..32766 (int16 after fix cb6b25d; C02_clock states the wrap)",
                      "chain theorems: Zobrist table entries below 2^64 (zob_ok; proved for the generated tables, Example C02_zob_real_ok); "
                      "they re-establish valid_core (one king per side, side not to move not in check, consistent en-passant target), not the "
                      "remaining conjuncts of valid"],
         design_ref="5/C02"))
