(* Model of tools/tuner/epd/by_lines.go and chunker.go:55-171 (ByLines, NewChunker, Chunker.Open,
   Chunk.Read) and of the tuner's schedule (server.go: every Chunks of every Batches; client.go:
   Open + Read until EOF). Definitions only.

   A file is its list of bytes (list Z, 0..255); offsets are Go int64 = Z (no wrap: they are bounded
   by the file length). os.File / bufio are MODELLED, not verified:
     - bufio.Reader.ReadSlice('\n') on a reader of LineBufSize (4096) bytes: the bytes up to and
       including the first '\n' if that is within LineBufSize bytes; ErrBufferFull if the next
       LineBufSize bytes hold no '\n'; io.EOF (with the unterminated rest, which ByLines drops) if
       fewer than LineBufSize bytes remain and none is '\n'.
     - File.ReadAt(buf, off) fills buf from offset off, short at the end of the file (io.EOF, which
       Chunk.Read ignores).
   The refill buffer (mapBytes, B bytes, B = backingBytes in production) is represented by its
   written prefix; bytes never written are 0 and bytes of earlier fills stay where they were. *)
From Coq Require Import ZArith NArith List Bool Sorting.Mergesort Orders.
From Chess3 Require Import Base.Word Gen.TunerConsts Model.Shuffle Model.Batch.
Import ListNotations.
Open Scope Z_scope.

Definition byte_nl : Z := 10.

Fixpoint zlen {A} (l : list A) : Z := match l with [] => 0 | _ :: t => 1 + zlen t end.

Inductive outcome (A : Type) : Type :=
| Ok (a : A)
| Err (code : Z)        (* 1 NewChunker failed, 2 ErrChunkInvalid, 9 rejection loop out of fuel *)
| Panic.                (* index / slice bounds out of range *)
Arguments Ok {A} a.
Arguments Err {A} code.
Arguments Panic {A}.

(* ---------------------------------------------------------------------------------------------- *)
(* by_lines.go *)

(* the bytes before the first '\n', and the bytes after it *)
Fixpoint find_nl (l : list Z) : option (list Z * list Z) :=
  match l with
  | [] => None
  | c :: t => if c =? byte_nl then Some ([], t)
              else match find_nl t with Some (p, r) => Some (c :: p, r) | None => None end
  end.

Inductive read_slice_result :=
| RsLine (line rest : list Z)      (* line without its '\n' *)
| RsEOF
| RsBufferFull.

Definition read_slice (rest : list Z) : read_slice_result :=
  match find_nl rest with
  | Some (p, r) => if zlen p + 1 <=? LineBufSize then RsLine p r else RsBufferFull
  | None => if zlen rest <? LineBufSize then RsEOF else RsBufferFull
  end.

Inductive by_lines_result :=
| BlLine (line rest : list Z) (off : Z)
| BlEOF
| BlError.

(* func (b *ByLines) Read() ([]byte, error): for { bytes, err := ReadSlice('\n'); if err != nil
   { return nil, err }; b.off += len(bytes); if len(bytes) > 1 { return bytes[:len-1] } } *)
Fixpoint by_lines_read (fuel : nat) (rest : list Z) (off : Z) : by_lines_result :=
  match fuel with
  | O => BlEOF
  | S f =>
      match read_slice rest with
      | RsEOF => BlEOF
      | RsBufferFull => BlError
      | RsLine p r =>
          let off' := off + (zlen p + 1) in
          if 1 <? zlen p + 1 then BlLine p r off' else by_lines_read f r off'
      end
  end.

(* ---------------------------------------------------------------------------------------------- *)
(* chunker.go *)

Definition line_addr := (Z * Z)%type.      (* start, end (end excludes nothing: it is past the '\n') *)

(* the loop of NewChunker *)
Fixpoint manifest_loop (fuel : nat) (rest : list Z) (off : Z) : option (list line_addr) :=
  match fuel with
  | O => Some []
  | S f =>
      match by_lines_read (S f) rest off with
      | BlEOF => Some []
      | BlError => None
      | BlLine line r off' =>
          let e := off' in
          let s := e - zlen line - 1 in
          match manifest_loop f r off' with Some m => Some ((s, e) :: m) | None => None end
      end
  end.

Record chunker := { ck_file : list Z; ck_manifest : list line_addr }.

Definition new_chunker (file : list Z) : option chunker :=
  match manifest_loop (S (length file)) file 0 with
  | Some m => Some {| ck_file := file; ck_manifest := m |}
  | None => None
  end.

Definition line_count (c : chunker) : Z := zlen (ck_manifest c).

(* uint64(x) of a Go int *)
Definition u64 (z : Z) : N := Z.to_N (z mod 18446744073709551616).

Definition range_list (s e : Z) : list Z := map (fun k => s + Z.of_nat k) (seq 0 (Z.to_nat (e - s))).

(* slices.SortFunc(chunkLines, func(a, b) int { return int(a.start - b.start) }) *)
Module AddrOrder <: TotalLeBool.
  Definition t := line_addr.
  Definition leb (a b : t) : bool := fst a <=? fst b.
  Theorem leb_total : forall a b, leb a b = true \/ leb b a = true.
  Proof. intros a b. unfold leb. destruct (Z.leb_spec (fst a) (fst b)); [left; reflexivity|right]. apply Z.leb_le, Z.lt_le_incl; assumption. Qed.
End AddrOrder.
Module AddrSort := Sort AddrOrder.

Section Generic.
Variable F : N -> N -> N.

Fixpoint lookup_all (m : list line_addr) (n epoch : N) (ixs : list Z) : outcome (list line_addr) :=
  match ixs with
  | [] => Ok []
  | ix :: t =>
      match shuffle_index_gen F (u64 ix) n epoch with
      | None => Err 9
      | Some y =>
          match nth_error m (N.to_nat y) with
          | None => Panic
          | Some a => match lookup_all m n epoch t with Ok l => Ok (a :: l) | o => o end
          end
      end
  end.

(* func (c Chunker) Open(epoch, start, end int): the sorted chunkLines of the returned Chunk *)
Definition open_gen (c : chunker) (epoch start end_ : Z) : outcome (list line_addr) :=
  let n := line_count c in
  if (start <? 0) || (end_ <? 0) || (start >? n - 1) || (end_ >? n) || (start >? end_) then Err 2 else
  match lookup_all (ck_manifest c) (u64 n) (u64 epoch) (range_list start end_) with
  | Ok l => Ok (AddrSort.sort l)
  | o => o
  end.
End Generic.

(* firstn / skipn with a binary counter (B is 2^25 in production: no unary numbers) *)
Fixpoint ztake {A} (n : Z) (l : list A) : list A :=
  match l with [] => [] | x :: t => if n <=? 0 then [] else x :: ztake (n - 1) t end.
Fixpoint zdrop {A} (n : Z) (l : list A) : list A :=
  match l with [] => [] | x :: t => if n <=? 0 then l else zdrop (n - 1) t end.

(* File.ReadAt(buf of B bytes, off): the bytes read *)
Definition read_at (file : list Z) (off B : Z) : list Z := ztake B (zdrop off file).

Definition overwrite (buf data : list Z) : list Z := data ++ zdrop (zlen data) buf.

(* buf[lo:hi] of the B-byte buffer whose written prefix is buf *)
Definition buf_slice (buf : list Z) (lo hi : Z) : list Z :=
  let s := ztake (hi - lo) (zdrop lo buf) in
  s ++ repeat 0 (Z.to_nat (hi - lo - zlen s)).

(* Chunk.Read until io.EOF; state mapStart, mapEnd, mapBytes *)
Fixpoint read_all (file : list Z) (B : Z) (lines : list line_addr) (mapStart mapEnd : Z) (buf : list Z)
  : outcome (list (list Z)) :=
  match lines with
  | [] => Ok []
  | (s, e) :: rest =>
      let '(ms, me, buf) :=
        if (mapStart >? s) || (mapEnd <? e)
        then let data := read_at file s B in (s, s + zlen data, overwrite buf data)
        else (mapStart, mapEnd, buf) in
      let lo := s - ms in
      let hi := e - ms - 1 in
      if (lo <? 0) || (hi <? lo) || (B <? hi) then Panic else
      match read_all file B rest ms me buf with
      | Ok ls => Ok (buf_slice buf lo hi :: ls)
      | o => o
      end
  end.

Section Generic2.
Variable F : N -> N -> N.

(* client.go: chunk := chunker.Open(epoch, start, end); for { line := chunk.Read() ... } *)
Definition read_window_gen (c : chunker) (B epoch start end_ : Z) : outcome (list (list Z)) :=
  match open_gen F c epoch start end_ with
  | Ok ls => read_all (ck_file c) B ls 0 0 []
  | Err e => Err e
  | Panic => Panic
  end.

Fixpoint read_windows_gen (c : chunker) (B epoch : Z) (ws : list range) : outcome (list (list Z)) :=
  match ws with
  | [] => Ok []
  | w :: t =>
      match read_window_gen c B epoch (fst w) (snd w) with
      | Ok ls => match read_windows_gen c B epoch t with Ok r => Ok (ls ++ r) | o => o end
      | o => o
      end
  end.

(* server.go: for batch := range Batches(LineCount()) { for chunk := range Chunks(batch) { job } } *)
Definition schedule_gen (L C : Z) (n : Z) : list range := concat (map (chunks_gen L C) (batches_gen L n)).

Definition epoch_read_gen (L C : Z) (c : chunker) (B epoch : Z) : outcome (list (list Z)) :=
  read_windows_gen c B epoch (schedule_gen L C (line_count c)).
End Generic2.

Definition open := open_gen round_func.
Definition read_window := read_window_gen round_func.
Definition read_windows := read_windows_gen round_func.
Definition schedule := schedule_gen NumLinesInBatch NumChunksInBatch.
Definition epoch_read := epoch_read_gen round_func NumLinesInBatch NumChunksInBatch.

(* ---------------------------------------------------------------------------------------------- *)
(* correspondence entry point, see harness/streams/c20.go:
   [mode; B; epoch; start; end; nbytes; bytes...] -> [status; k; len_1; bytes_1...; ...] with the
   delivered lines sorted (bytes.Compare order). *)

Fixpoint lex_leb (a b : list Z) : bool :=
  match a, b with
  | [], _ => true
  | _ :: _, [] => false
  | x :: a', y :: b' => if x <? y then true else if y <? x then false else lex_leb a' b'
  end.

Module LineOrder <: TotalLeBool.
  Definition t := list Z.
  Definition leb := lex_leb.
  Theorem leb_total : forall a b, leb a b = true \/ leb b a = true.
  Proof.
    unfold leb. induction a as [|x a IH]; intros [|y b]; cbn [lex_leb]; auto.
    destruct (Z.ltb_spec x y); auto. destruct (Z.ltb_spec y x); auto.
  Qed.
End LineOrder.
Module LineSort := Sort LineOrder.

Definition encode_lines (ls : list (list Z)) : list Z :=
  zlen ls :: concat (map (fun l => zlen l :: l) ls).

Definition windows_of (c n : Z) : list range := ranges_from (loop_fuel 0 n c) 0 n c.

(* mode 3: several epochs through one Batches value (an iter.Seq yields its list every time) *)
Fixpoint epochs_read (ck : chunker) (B epoch : Z) (reps : nat) : outcome (list (list Z)) :=
  match reps with
  | O => Ok []
  | S r =>
      match epoch_read ck B epoch with
      | Ok ls => match epochs_read ck B (wrap64 (epoch + 1)) r with Ok t => Ok (ls ++ t) | o => o end
      | o => o
      end
  end.

(* mode 4: the windows of a session: boundaries 0, the non-zero 16-bit fields of packed, n. The
   order in which the chunks are opened, read, closed and rewound does not exist in the model:
   windows are independent of each other *)
Definition session_windows (packed n : Z) : list range :=
  let field k := Z.land (Z.shiftr packed (16 * k)) 65535 in
  let cuts := filter (fun c => negb (c =? 0)) [field 0; field 1; field 2] in
  let bounds := 0 :: cuts ++ [n] in
  combine bounds (tl bounds).

Definition run_c20_file (input : list Z) : list Z :=
  match input with
  | mode :: B :: epoch :: start :: end_ :: nbytes :: bytes =>
      if B <? 0 then [4; 0] else
      match new_chunker bytes with
      | None => [1; 0]
      | Some ck =>
          let res :=
            if mode =? 0 then read_window ck B epoch start end_
            else if mode =? 1 then epoch_read ck B epoch
            else if mode =? 2 then read_windows ck B epoch (windows_of (Z.max start 1) (line_count ck))
            else if mode =? 3 then (if start >? 16 then Ok [] else epochs_read ck B epoch (Z.to_nat start))
            else read_windows ck B epoch (session_windows start (line_count ck)) in
          match res with
          | Ok ls => 0 :: encode_lines (LineSort.sort ls)
          | Err e => [e; 0]
          | Panic => [-1; -1; -1]
          end
      end
  | _ => nil
  end.
