(* C13, termination: the measure Model.Uci.mu strictly decreases on every enabled step of the
   driver's transition system, whatever the script; hence a run has at most mu(start) steps. *)
From Coq Require Import Bool List Arith Lia.
Import ListNotations.
From Chess3 Require Import Model.Uci.

Lemma enabled_iff s l : In l (enabled s) <-> guard s l = true.
Proof.
  unfold enabled. rewrite filter_In. split; [tauto|].
  intros H; split; [|exact H]. destruct l; cbn; tauto.
Qed.

Lemma cmd_w_ge c : 4 <= cmd_w c.
Proof. destruct c; cbn; lia. Qed.

Lemma length_snoc {A} (l : list A) x : length (l ++ [x]) = S (length l).
Proof. rewrite app_length. cbn. lia. Qed.

Lemma mu_step s l : guard s l = true -> mu (step s l) < mu s.
Proof.
  destruct s as [scr sg sb r h dp c cg f pg i t pc psn fn o oc wd w].
  destruct l; unfold mu; cbn; intros G.
  - (* LRead *) destruct r; try discriminate. destruct scr as [|c0 scr]; try discriminate.
    destruct c0; cbn; lia.
  - (* LEof *) destruct r; try discriminate. destruct scr; try discriminate. cbn. lia.
  - (* LRecvTop *) destruct h; try discriminate. destruct r as [|c0|]; try discriminate.
    pose proof (cmd_w_ge c0) as W.
    destruct c0; cbn in *; try lia; destruct i, pc; cbn; lia.
  - (* LEmit *) destruct h as [|[|x l]| | |]; try discriminate. cbn.
    rewrite length_snoc. destruct l; cbn; lia.
  - (* LInfo *) destruct h; try discriminate. apply andb_prop in G as [G _].
    destruct f; try discriminate. cbn. rewrite length_snoc. lia.
  - (* LPoll *) destruct h; try discriminate. apply andb_prop in G as [G _]. subst pc.
    destruct (g_ack cg); cbn; rewrite ?length_snoc; lia.
  - (* LFin *) destruct h; try discriminate. cbn. lia.
  - (* LJoin *) destruct h; try discriminate. destruct i; try discriminate. cbn. destruct pc; lia.
  - (* LHClose *) destruct h; try discriminate. cbn. lia.
  - (* LRecvInt *) destruct i; try discriminate. destruct r as [|c0|]; try discriminate.
    pose proof (cmd_w_ge c0) as W.
    destruct c0; cbn in *; try lia;
    destruct (g_ponder cg && negb psn), (g_ponder cg && g_timed cg), pc; cbn; lia.
  - (* LIntEmit *) destruct i; try discriminate. cbn. rewrite length_snoc. lia.
  - (* LIntFin *) destruct i; try discriminate. cbn. lia.
  - (* LIntTimer *) destruct i; try discriminate. cbn. lia.
  - (* LIntEof *) destruct i; try discriminate. cbn. lia.
  - (* LWrite *) destruct o as [|x q]; try discriminate. destruct x; cbn; lia.
  - (* LWDone *) destruct o; try discriminate. apply andb_prop in G as [_ G].
    destruct wd; try discriminate. cbn. lia.
Qed.

(* a run of n steps costs at least n units of the measure *)
Lemma steps_bound s ls s' : steps s ls s' -> length ls + mu s' <= mu s.
Proof.
  induction 1 as [s | s l ls s' G _ IH]; cbn; [lia|].
  pose proof (mu_step s l G). lia.
Qed.

(* no infinite run: there is no sequence of states linked by enabled steps *)
Lemma no_infinite_run (f : nat -> state) (lab : nat -> label) :
  (forall n, guard (f n) (lab n) = true /\ f (S n) = step (f n) (lab n)) -> False.
Proof.
  intros H.
  assert (B : forall n, mu (f n) + n <= mu (f 0)).
  { induction n as [|n IH]; [lia|].
    destruct (H n) as [G E]. rewrite E. pose proof (mu_step _ _ G). lia. }
  specialize (B (S (mu (f 0)))). lia.
Qed.
