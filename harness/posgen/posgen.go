// Package posgen generates chess positions for the board-level correspondence streams
// (DESIGN.md section 4.4). All randomness comes from the *hx.Rng handed in.
//
//	G1  random legal play-outs from the roots of /repo/debug/standard.epd plus hand-made roots
//	    (castling, en passant incl. pins and discoveries, promotions, double checks, bare kings),
//	    biased towards captures / checks / promotions / castling / double pushes / undoing moves
//	G2  random sparse placements (2..12 pieces, promoted material allowed), filtered by Valid
//	G4  single-piece mutations of G1 positions, filtered by Valid
package posgen

import (
	"bufio"
	"os"
	"path/filepath"
	"strings"

	"github.com/paulsonkoly/chess-3/board"
	. "github.com/paulsonkoly/chess-3/chess"
	"github.com/paulsonkoly/chess-3/move"
	"github.com/paulsonkoly/chess-3/movegen"

	"verifharness/hx"
)

// Pos is a generated position: the board (with its hash history), the root FEN and the moves
// played from it, and tags for the input-distribution histogram.
type Pos struct {
	B     *board.Board
	Root  string
	Moves []move.Move
	Kind  string // G1, G2, G4
}

// Desc is a human readable replay of the position.
func (p Pos) Desc() string {
	var sb strings.Builder
	sb.WriteString(p.Kind + " fen " + p.Root)
	if len(p.Moves) > 0 {
		sb.WriteString(" moves")
		for _, m := range p.Moves {
			sb.WriteString(" " + m.String())
		}
	}
	return sb.String()
}

// Tags classifies a position for the evidence histogram.
func Tags(b *board.Board) []string {
	t := []string{}
	n := (b.Colors[White] | b.Colors[Black]).Count()
	switch {
	case n <= 5:
		t = append(t, "pieces<=5")
	case n <= 12:
		t = append(t, "pieces<=12")
	case n <= 24:
		t = append(t, "pieces<=24")
	default:
		t = append(t, "pieces>24")
	}
	if b.InCheck(b.STM) {
		t = append(t, "in-check")
	}
	if b.EnPassant != 0 {
		t = append(t, "ep-flag")
	}
	if b.Castles != 0 {
		t = append(t, "castling-rights")
	}
	if promoted(b) {
		t = append(t, "promoted-material")
	}
	return t
}

func promoted(b *board.Board) bool {
	for c := White; c <= Black; c++ {
		if (b.Pieces[Queen]&b.Colors[c]).Count() > 1 || (b.Pieces[Rook]&b.Colors[c]).Count() > 2 ||
			(b.Pieces[Bishop]&b.Colors[c]).Count() > 2 || (b.Pieces[Knight]&b.Colors[c]).Count() > 2 {
			return true
		}
	}
	return false
}

var handRoots = []string{
	StartPosFEN,
	"r3k2r/8/8/8/8/8/8/R3K2R w KQkq - 0 1",
	"r3k2r/p1ppqpb1/bn2pnp1/3PN3/1p2P3/2N2Q1p/PPPBBPPP/R3K2R w KQkq - 0 1",
	"r3k2r/8/8/8/8/8/8/R3K2R b KQkq - 0 1",
	"4k3/8/8/8/8/8/8/R3K2R w KQ - 0 1",
	"r3k2r/8/8/8/8/8/6p1/R3K2R w KQkq - 0 1",
	"8/8/8/1k6/3p4/8/4P3/5B1K w - - 0 1",
	"8/8/8/8/k2p3R/8/4P3/4K3 w - - 0 1",
	"8/8/8/8/k2pP2R/8/8/4K3 b - e3 0 1",
	"4k3/8/8/2pP4/8/8/8/4K3 w - c6 0 2",
	"8/2p5/3p4/KP5r/1R3p1k/8/4P1P1/8 w - - 0 1",
	"8/8/3p4/KPp4r/1R3p1k/8/4P1P1/8 w - c6 0 2",
	"rnbq1k1r/pp1Pbppp/2p5/8/2B5/8/PPP1NnPP/RNBQK2R w KQ - 1 8",
	"n1n5/PPPk4/8/8/8/8/4Kppp/5N1N b - - 0 1",
	"8/PPP4k/8/8/8/8/4Kppp/8 w - - 0 1",
	"4k3/8/8/8/8/8/8/4K3 w - - 0 1",
	"8/8/8/8/8/5k2/8/4K2N w - - 0 1",
	"8/8/8/8/8/2k5/8/KBN5 w - - 0 1",
	"8/8/8/3k4/8/8/3K4/3Q4 w - - 0 1",
	"k7/8/K7/8/8/8/8/7R w - - 0 1",
	"R6k/8/6K1/8/8/8/8/8 b - - 0 1",
	"7k/5Q2/6K1/8/8/8/8/8 b - - 0 1",
	"4k3/8/4r3/8/8/4b3/8/R3K2R w KQ - 0 1",
	"r3k2r/8/8/8/8/8/8/1R2K2R b Kkq - 0 1",
	"4k3/4r3/8/8/8/8/3N4/4K2b w - - 0 1",
	"3k4/8/8/8/8/8/3n4/R3K2R w KQ - 3 10",
	"8/8/8/8/8/8/6k1/4K2R w K - 0 1",
	"4k3/1P6/8/8/8/8/K7/8 w - - 0 1",
	"Q7/Q7/Q7/Q7/Q7/Q6k/Q7/QK6 w - - 0 1",
	"6k1/8/8/1b6/3PP3/r1PKP3/2PRB3/8 w - - 0 1",
	"8/8/8/2k5/3pP3/8/8/2K1R3 b - e3 0 1",
	"8/8/1k6/8/2pP4/8/5B2/2K5 b - d3 0 1",
	"2r3k1/1q1nbppp/r3p3/3pP3/pPpP4/P1Q2N2/2RN1PPP/2R4K b - b3 0 23",
	"rnbqkbnr/ppp1pppp/8/8/3pP3/8/PPPP1PPP/RNBQKBNR b KQkq e3 0 3",
	"8/6bb/8/8/R1pP2k1/4P3/P7/K7 b - d3 0 1",
	"8/8/8/8/1k1pP2R/8/8/K7 b - e3 0 1",
	// C01: en-passant targets on the edge files with an own pawn on the square a shift without file
	// mask would wrap to (h4 for a6, a6 for h6, h3 for a3, a5 for h3), next to a real capturer
	"4k3/8/8/pP6/7P/8/8/4K3 w - a6 0 2",
	"4k3/8/P7/6Pp/8/8/8/4K3 w - h6 0 2",
	"4k3/8/8/8/Pp6/7p/8/4K3 b - a3 0 1",
	"4k3/8/8/p7/6pP/8/8/4K3 b - h3 0 1",
	// C01: long castling with b1/b8 occupied (illegal) and with b1/b8 merely attacked (legal)
	"r3k2r/8/8/8/8/8/8/RN2K2R w KQkq - 0 1",
	"rn2k2r/8/8/8/8/8/8/R3K2R b KQkq - 0 1",
	"4k3/8/8/8/8/8/1r6/R3K2R w KQ - 0 1",
	"r3k2r/1R6/8/8/8/8/8/4K3 b kq - 0 1",
	// C01: king and rooks at home but the rights belong to the other side only / to nobody
	"r3k2r/8/8/8/8/8/8/R3K2R w kq - 0 1",
	"r3k2r/8/8/8/8/8/8/R3K2R b KQ - 0 1",
	"r3k2r/8/8/8/8/8/8/R3K2R w - - 0 1",
	// C01: castling rights while the king is in check (no castling out of check)
	"4k3/8/4r3/8/8/8/8/R3K2R w KQ - 0 1",
	"r3k2r/8/8/8/8/8/4R3/4K3 b kq - 0 1",
	// C01: en-passant capture that would open the rank (both pawns leave it), for both colours; the
	// capturer pinned on the diagonal it captures along (legal), on the other diagonal and on the
	// file (illegal)
	"8/8/8/K1pP3r/8/8/8/7k w - c6 0 2",
	"7K/8/8/8/k1Pp3R/8/8/8 b - c3 0 1",
	"b3k3/8/8/2pP4/8/5K2/8/8 w - c6 0 2",
	"4k3/5b2/8/2pP4/8/1K6/8/8 w - c6 0 2",
	"3rk3/8/8/2pP4/8/8/8/3K4 w - c6 0 2",
	// C01: black double pushes with the square in front blocked / the target blocked; promotions by
	// capture on both edges
	"4k3/pppppppp/N1b1R3/1B3q2/8/8/8/4K3 b - - 0 1",
	"1n2k1n1/P6P/8/8/8/8/p6p/1N2K1N1 w - - 0 1",
	"1n2k1n1/P6P/8/8/8/8/p6p/1N2K1N1 b - - 0 1",
}

var roots []string

// Roots returns the root FENs (hand-made ones followed by /repo/debug/standard.epd).
func Roots() []string {
	if roots != nil {
		return roots
	}
	roots = append(roots, handRoots...)
	repo := os.Getenv("VERIF_REPO")
	if repo == "" {
		repo = "/repo"
	}
	if f, err := os.Open(filepath.Join(repo, "debug", "standard.epd")); err == nil {
		defer f.Close()
		sc := bufio.NewScanner(f)
		for sc.Scan() {
			line := sc.Text()
			if i := strings.Index(line, ";"); i >= 0 {
				line = line[:i]
			}
			line = strings.TrimSpace(line)
			if line == "" {
				continue
			}
			if _, err := board.FromFEN(line); err == nil {
				roots = append(roots, line)
			}
		}
	}
	// keep only roots that parse and are valid
	ok := roots[:0]
	for _, r := range roots {
		b, err := board.FromFEN(r)
		if err == nil && Valid(b) {
			ok = append(ok, r)
		}
	}
	roots = ok
	return roots
}

// Pseudo returns the generated (pseudo-legal) moves of b: noisy ones first.
func Pseudo(b *board.Board) []move.Move {
	ms := move.NewStore()
	ms.Push()
	movegen.GenNoisy(ms, b)
	movegen.GenNotNoisy(ms, b)
	var out []move.Move
	for _, m := range ms.Frame() {
		out = append(out, m.Move)
	}
	return out
}

// Legal returns the playable moves of b (generated moves that do not leave the king attacked).
func Legal(b *board.Board) []move.Move {
	me := b.STM
	var out []move.Move
	for _, m := range Pseudo(b) {
		r := b.MakeMove(m)
		if !b.InCheck(me) {
			out = append(out, m)
		}
		b.UndoMove(m, r)
	}
	return out
}

func interesting(b *board.Board, m move.Move) bool {
	p := b.SquaresToPiece[m.From()]
	if b.SquaresToPiece[m.To()] != NoPiece || m.Promo() != NoPiece || b.IsEnPassant(m) {
		return true
	}
	if p == King && Abs(m.From()-m.To()) == 2 {
		return true
	}
	if p == Pawn && Abs(m.From()-m.To()) == 16 {
		return true
	}
	r := b.MakeMove(m)
	chk := b.InCheck(b.STM)
	b.UndoMove(m, r)
	return chk
}

// Playout plays up to plies random legal moves from root and calls visit after every move (and
// for the root itself). The board handed to visit must not be modified (make/undo pairs are fine).
func Playout(rng *hx.Rng, root string, plies int, visit func(Pos)) {
	b, err := board.FromFEN(root)
	if err != nil {
		return
	}
	var hist []move.Move
	visit(Pos{B: b, Root: root, Kind: "G1"})
	for i := 0; i < plies; i++ {
		if b.FiftyCnt >= 150 {
			return
		}
		legal := Legal(b)
		if len(legal) == 0 {
			return
		}
		var m move.Move
		picked := false
		x := rng.Intn(100)
		switch {
		case x < 12:
			// a double push that creates an en-passant target, or the en-passant capture itself
			var cand []move.Move
			for _, l := range legal {
				if b.IsEnPassant(l) {
					cand = append(cand, l, l)
				} else if b.SquaresToPiece[l.From()] == Pawn && Abs(l.From()-l.To()) == 16 {
					r := b.MakeMove(l)
					if b.EnPassant != 0 {
						cand = append(cand, l)
					}
					b.UndoMove(l, r)
				}
			}
			if len(cand) > 0 {
				m, picked = cand[rng.Intn(len(cand))], true
			}
		case x < 30 && len(hist) >= 2:
			// undo the previous own move (repetitions)
			last := hist[len(hist)-2]
			back := move.From(last.To()) | move.To(last.From())
			for _, l := range legal {
				if l == back {
					m, picked = l, true
				}
			}
		case x < 60:
			var cand []move.Move
			for _, l := range legal {
				if interesting(b, l) {
					cand = append(cand, l)
				}
			}
			if len(cand) > 0 {
				m, picked = cand[rng.Intn(len(cand))], true
			}
		}
		if !picked {
			m = legal[rng.Intn(len(legal))]
		}
		b.MakeMove(m)
		hist = append(hist, m)
		visit(Pos{B: b, Root: root, Moves: append([]move.Move(nil), hist...), Kind: "G1"})
	}
}

// Valid is the harness-side version of Spec `valid` (DESIGN.md 4.3); the Coq judges re-check it.
func Valid(b *board.Board) bool {
	for c := White; c <= Black; c++ {
		own := b.Colors[c]
		if (b.Pieces[King] & own).Count() != 1 {
			return false
		}
		extra := func(p Piece, base int) int { return max(0, (b.Pieces[p]&own).Count()-base) }
		if (b.Pieces[Pawn]&own).Count()+extra(Knight, 2)+extra(Bishop, 2)+extra(Rook, 2)+extra(Queen, 1) > 8 {
			return false
		}
	}
	if b.Pieces[Pawn]&(FirstRankBB|EighthRankBB) != 0 {
		return false
	}
	if b.Colors[White]&b.Colors[Black] != 0 {
		return false
	}
	if b.InCheck(b.STM.Flip()) {
		return false
	}
	has := func(c Color, p Piece, sq Square) bool {
		return b.SquaresToPiece[sq] == p && b.Colors[c]&(1<<sq) != 0
	}
	if b.Castles&ShortWhite != 0 && !(has(White, King, E1) && has(White, Rook, H1)) {
		return false
	}
	if b.Castles&LongWhite != 0 && !(has(White, King, E1) && has(White, Rook, A1)) {
		return false
	}
	if b.Castles&ShortBlack != 0 && !(has(Black, King, E8) && has(Black, Rook, H8)) {
		return false
	}
	if b.Castles&LongBlack != 0 && !(has(Black, King, E8) && has(Black, Rook, A8)) {
		return false
	}
	if ep := b.EnPassant; ep != 0 {
		var pawnSq, origin Square
		if b.STM == White {
			if ep.Rank() != SixthRank {
				return false
			}
			pawnSq, origin = ep-8, ep+8
		} else {
			if ep.Rank() != ThirdRank {
				return false
			}
			pawnSq, origin = ep+8, ep-8
		}
		if b.SquaresToPiece[ep] != NoPiece || b.SquaresToPiece[origin] != NoPiece || !has(b.STM.Flip(), Pawn, pawnSq) {
			return false
		}
		// ep_pred_ok: with the pushed pawn back on its origin the side to move is not in check
		s := b.VerifSnapshot()
		them := b.STM.Flip()
		s.SquaresToPiece[pawnSq] = NoPiece
		s.SquaresToPiece[origin] = Pawn
		s.Pieces[Pawn] = s.Pieces[Pawn]&^(1<<pawnSq) | 1<<origin
		s.Colors[them] = s.Colors[them]&^(1<<pawnSq) | 1<<origin
		if board.VerifRestore(s).InCheck(b.STM) {
			return false
		}
	}
	return true
}

const pieceChars = " pnbrqk"

func fenOf(sq [64]byte, stm Color, castles string, ep string, fifty, full int) string {
	var sb strings.Builder
	for r := 7; r >= 0; r-- {
		empty := 0
		for f := 0; f < 8; f++ {
			c := sq[r*8+f]
			if c == 0 {
				empty++
				continue
			}
			if empty > 0 {
				sb.WriteByte(byte('0' + empty))
				empty = 0
			}
			sb.WriteByte(c)
		}
		if empty > 0 {
			sb.WriteByte(byte('0' + empty))
		}
		if r > 0 {
			sb.WriteByte('/')
		}
	}
	sb.WriteString(" " + string("wb"[stm]) + " " + castles + " " + ep + " ")
	sb.WriteString(itoa(fifty) + " " + itoa(full))
	return sb.String()
}

func itoa(i int) string {
	if i == 0 {
		return "0"
	}
	s := ""
	for i > 0 {
		s = string(byte('0'+i%10)) + s
		i /= 10
	}
	return s
}

// Sparse returns a random sparse placement (G2), or nil if the attempt was not valid.
func Sparse(rng *hx.Rng) *Pos {
	var sq [64]byte
	place := func(c byte) bool {
		for try := 0; try < 20; try++ {
			s := rng.Intn(64)
			if sq[s] != 0 {
				continue
			}
			if (c == 'p' || c == 'P') && (s < 8 || s >= 56) {
				continue
			}
			sq[s] = c
			return true
		}
		return false
	}
	place('K')
	place('k')
	n := rng.Intn(11)
	for i := 0; i < n; i++ {
		p := pieceChars[1+rng.Intn(5)]
		if rng.Chance(0.35) {
			p = 'p'
		}
		if rng.Bool() {
			p -= 32
		}
		place(p)
	}
	stm := Color(rng.Intn(2))
	castles := ""
	if rng.Chance(0.3) {
		// put kings/rooks home to allow rights
		for i := range sq {
			if sq[i] == 'K' || sq[i] == 'k' {
				sq[i] = 0
			}
		}
		sq[E1], sq[E8] = 'K', 'k'
		for _, x := range []struct {
			sq Square
			pc byte
			fl string
		}{{H1, 'R', "K"}, {A1, 'R', "Q"}, {H8, 'r', "k"}, {A8, 'r', "q"}} {
			if rng.Bool() {
				sq[x.sq] = x.pc
				if rng.Chance(0.8) {
					castles += x.fl
				}
			}
		}
	}
	if castles == "" {
		castles = "-"
	}
	ep := "-"
	if rng.Chance(0.3) {
		// a pawn of the side not to move that could just have double pushed
		f := rng.Intn(8)
		var pawnSq, epSq, origin int
		var pc byte
		if stm == White {
			pawnSq, epSq, origin, pc = 32+f, 40+f, 48+f, 'p'
		} else {
			pawnSq, epSq, origin, pc = 24+f, 16+f, 8+f, 'P'
		}
		if sq[epSq] == 0 && sq[origin] == 0 && (sq[pawnSq] == 0 || sq[pawnSq] == pc) {
			sq[pawnSq] = pc
			// usually add a capturer next to it
			if rng.Chance(0.8) {
				g := f + 1 - 2*rng.Intn(2)
				if g >= 0 && g < 8 && sq[pawnSq-f+g] == 0 {
					sq[pawnSq-f+g] = pc ^ 32
				}
			}
			ep = string([]byte{byte('a' + f), byte('1' + epSq/8)})
		}
	}
	fifty := 0
	if rng.Chance(0.3) && ep == "-" {
		fifty = rng.Intn(100)
	}
	fen := fenOf(sq, stm, castles, ep, fifty, 1+rng.Intn(80))
	b, err := board.FromFEN(fen)
	if err != nil || !Valid(b) {
		return nil
	}
	return &Pos{B: b, Root: fen, Kind: "G2"}
}

// Heavy returns a position with heavy promoted material for the side to move: 4..9 queens (and a rook or
// two) on an open board, i.e. 80..218 pseudo-legal moves - move counts beyond 127 / 128 do not occur in play-outs
// or sparse placements (seeded change C16-G narrowed a cursor to int8). The other king sits in a corner
// behind its own men, so the position is valid although the board is full of queens; a third of the time the
// other side has heavy material too.
func Heavy(rng *hx.Rng) *Pos {
	for try := 0; try < 40; try++ {
		var sq [64]byte
		stm := Color(rng.Intn(2))
		up := func(c byte) byte { // piece letter of the side to move
			if stm == White {
				return c - 32
			}
			return c
		}
		dn := func(c byte) byte {
			if stm == White {
				return c
			}
			return c - 32
		}
		// the other king in a corner of its own back rank, shielded
		corner := []int{63, 56}[rng.Intn(2)]
		if stm == Black {
			corner -= 56
		}
		dr := -8
		if stm == Black {
			dr = 8
		}
		df := -1
		if corner%8 == 0 {
			df = 1
		}
		sq[corner] = dn('k')
		sq[corner+df] = dn([]byte{'r', 'n', 'b'}[rng.Intn(3)])
		sq[corner+dr] = dn('p')
		sq[corner+dr+df] = dn('p')
		if rng.Chance(0.3) {
			sq[corner+dr+2*df] = dn('p')
		}
		free := func() int {
			for k := 0; k < 50; k++ {
				x := rng.Intn(64)
				if sq[x] == 0 {
					return x
				}
			}
			return -1
		}
		nq := 4 + rng.Intn(6)
		for i := 0; i < nq; i++ {
			if x := free(); x >= 0 {
				sq[x] = up('q')
			}
		}
		for i := rng.Intn(3); i > 0; i-- {
			if x := free(); x >= 0 {
				sq[x] = up([]byte{'r', 'r', 'b', 'n'}[rng.Intn(4)])
			}
		}
		if x := free(); x >= 0 {
			sq[x] = up('k')
		} else {
			continue
		}
		if rng.Chance(0.33) {
			for i := 2 + rng.Intn(6); i > 0; i-- {
				if x := free(); x >= 0 {
					sq[x] = dn('q')
				}
			}
		}
		fen := fenOf(sq, stm, "-", "-", rng.Intn(30), 40+rng.Intn(60))
		b, err := board.FromFEN(fen)
		if err != nil || !Valid(b) {
			continue
		}
		return &Pos{B: b, Root: fen, Kind: "G2h"}
	}
	return nil
}

// Mutate returns a single-piece mutation of p (G4), or nil if the result is not valid.
func Mutate(rng *hx.Rng, p Pos) *Pos {
	s := p.B.VerifSnapshot()
	var sq [64]byte
	for i := 0; i < 64; i++ {
		pc := s.SquaresToPiece[i]
		if pc == NoPiece {
			continue
		}
		c := pieceChars[pc]
		if s.Colors[White]&(1<<uint(i)) != 0 {
			c -= 32
		}
		sq[i] = c
	}
	i := rng.Intn(64)
	switch rng.Intn(3) {
	case 0:
		if sq[i] == 'K' || sq[i] == 'k' {
			return nil
		}
		sq[i] = 0
	case 1:
		if sq[i] == 'K' || sq[i] == 'k' {
			return nil
		}
		c := pieceChars[1+rng.Intn(5)]
		if rng.Bool() {
			c -= 32
		}
		sq[i] = c
	default:
		j := rng.Intn(64)
		if sq[j] == 'K' || sq[j] == 'k' {
			return nil
		}
		sq[j], sq[i] = sq[i], 0
	}
	fields := strings.Fields(p.B.FEN())
	if len(fields) < 6 {
		return nil
	}
	fen := fenOf(sq, p.B.STM, fields[2], fields[3], int(p.B.FiftyCnt), 1)
	b, err := board.FromFEN(fen)
	if err != nil || !Valid(b) {
		return nil
	}
	return &Pos{B: b, Root: fen, Kind: "G4"}
}

// Stream emits about n positions: ~60 % G1, ~25 % G2, ~15 % G4. The board handed to emit is only
// valid during the call (clone it through VerifSnapshot/VerifRestore to keep it).
func Stream(rng *hx.Rng, n int, emit func(Pos)) {
	rs := Roots()
	var big []string
	for _, r := range rs {
		if strings.Count(strings.Fields(r)[0], "")-1-7 > 20 { // rough piece count from the placement field
			pc := 0
			for _, ch := range strings.Fields(r)[0] {
				if (ch >= 'a' && ch <= 'z') || (ch >= 'A' && ch <= 'Z') {
					pc++
				}
			}
			if pc > 14 {
				big = append(big, r)
			}
		}
	}
	cnt := 0
	for cnt < n {
		switch x := rng.Intn(100); {
		case x < 3:
			for k := 0; k < 6 && cnt < n; k++ {
				if p := Heavy(rng); p != nil {
					emit(*p)
					cnt++
				}
			}
		case x < 30:
			for k := 0; k < 40 && cnt < n; k++ {
				if p := Sparse(rng); p != nil {
					emit(*p)
					cnt++
				}
			}
		default:
			root := rs[rng.Intn(len(rs))]
			if len(big) > 0 && rng.Chance(0.6) {
				root = big[rng.Intn(len(big))]
			}
			plies := 1 + rng.Intn(120)
			stride := 1 + rng.Intn(6)
			k := 0
			Playout(rng, root, plies, func(p Pos) {
				k++
				if cnt >= n || k%stride != 0 {
					return
				}
				emit(p)
				cnt++
				if rng.Chance(0.25) && cnt < n {
					if q := Mutate(rng, p); q != nil {
						emit(*q)
						cnt++
					}
				}
			})
		}
	}
}
