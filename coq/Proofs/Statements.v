(* The top-level lemmas behind Properties/C03.v and Properties/C04.v (same statements, with their proofs). *)
From Coq Require Import NArith ZArith List Bool.
From Chess3 Require Import Base.Bits Model.Types Model.BoardDef Model.Board Model.Movegen Gen.Zobrist Spec.Rep
  Spec.Applicable Proofs.BoardInv Proofs.UndoMove Proofs.HashInv Proofs.PseudoApplicable Proofs.BoardExamples.
Import ListNotations.
Open Scope N_scope.

Lemma C03_move_l : forall l z b m, layout_ok l = true -> Rep b -> applicable b m = true ->
  let '(b', t) := make_l l z b m in undo_l l z b' m t = b.
Proof.
  intros l z b m HL HR HA. pose proof (undo_make l z b m HL (Rep_RepW b HR) HA) as H.
  destruct (make_l l z b m) as [b' t]. exact H.
Qed.

Lemma C03_null_l : forall l z b, layout_ok l = true -> Rep b ->
  let '(b', t) := make_null_l l z b in undo_null_l l b' t = b.
Proof.
  intros l z b HL HR. pose proof (undo_null_make_null l z b HL (Rep_RepW b HR)) as H.
  destruct (make_null_l l z b) as [b' t]. exact H.
Qed.

Lemma C03_pseudo_legal_move_l : forall l z b m, layout_ok l = true ->
  Rep b -> ep_inv b = true -> castle_inv b = true -> is_pseudo_legal b m = true ->
  let '(b', t) := make_l l z b m in undo_l l z b' m t = b.
Proof.
  intros l z b m HL HR HE HC HI. apply C03_move_l; [exact HL|exact HR|apply pseudo_legal_applicable; assumption].
Qed.

Lemma C03_nested_l : forall l z ops b, layout_ok l = true -> Rep b -> applicable_all l z b ops ->
  let '(b', st) := make_all l z b ops [] in undo_all l z b' st = b.
Proof.
  intros l z ops b HL HR HA. pose proof (undo_all_make_all l z HL ops b [] (Rep_RepW b HR) HA) as H.
  destruct (make_all l z b ops []) as [b' st]. exact H.
Qed.

Lemma C03_walk_l : forall l z evs b, layout_ok l = true -> Rep b -> walk_ok l z b [] evs ->
  let '(b', st) := walk l z b [] evs in undo_all l z b' st = b.
Proof.
  intros l z evs b HL HR HW. pose proof (walk_restores l z HL evs b (Rep_RepW b HR) HW) as H.
  destruct (walk l z b [] evs) as [b' st]. exact H.
Qed.

Lemma C03_token_fields_l : forall l r fc c e p, layout_ok l = true ->
  (-32768 <= fc < 32768)%Z -> c < 16 -> e < 64 -> p < 8 ->
  let t := tok_set_ep l (tok_set_capture l (tok_set_castling l (tok_set_fifty l r fc) c) p) e in
  tok_fifty l t = fc /\ tok_castling l t = c /\ tok_capture l t = p /\ tok_ep l t = e.
Proof.
  intros l r fc c e p HL Hf Hc He Hp. cbv zeta. repeat split.
  - rewrite (tok_fifty_set_ep l HL), (tok_fifty_set_capture l HL), (tok_fifty_set_castling l HL) by assumption.
    apply (tok_fifty_set_fifty l HL). exact Hf.
  - rewrite (tok_castling_set_ep l HL), (tok_castling_set_capture l HL) by assumption.
    apply (tok_castling_set_castling l HL). exact Hc.
  - rewrite (tok_capture_set_ep l HL) by assumption. apply (tok_capture_set_capture l HL). exact Hp.
  - apply (tok_ep_set_ep l HL). exact He.
Qed.

Lemma C04_inv_l : forall l z ops b0, Rep b0 -> cur_hash b0 = calc_hash z b0 -> applicable_all l z b0 ops ->
  let b := run l z b0 ops in RepW b /\ cur_hash b = calc_hash z b.
Proof.
  intros l z ops b0 HR HO HA. exact (run_hash_ok l z ops b0 (Rep_RepW b0 HR) HO HA).
Qed.

Lemma C04_inv_Rep_l : forall l z ops b0, zob_w64 z -> Rep b0 -> cur_hash b0 = calc_hash z b0 -> applicable_all l z b0 ops ->
  let b := run l z b0 ops in Rep b /\ cur_hash b = calc_hash z b.
Proof.
  intros l z ops b0 Z HR HO HA. split; [apply run_Rep; assumption|].
  apply (run_hash_ok l z ops b0 (Rep_RepW b0 HR) HO HA).
Qed.

Lemma C04_one_placement_l : forall b, RepW b ->
  (forall s p, s < 64 -> p <> NoPiece -> (piece_at b s = p <-> N.testbit (pieces b p) s = true)) /\
  (forall p q, p <> q -> band (pieces b p) (pieces b q) = 0) /\
  band (colors b White) (colors b Black) = 0 /\
  bor (colors b White) (colors b Black) = piece_union b.
Proof.
  intros b H. apply RepP_words. apply (rw_p b H).
Qed.

Lemma C04_walk_l : forall l z evs b0, layout_ok l = true -> Rep b0 -> cur_hash b0 = calc_hash z b0 -> walk_ok l z b0 [] evs ->
  let b := fst (walk l z b0 [] evs) in RepW b /\ cur_hash b = calc_hash z b.
Proof.
  intros l z evs b0 HL HR HO HW.
  exact (walk_hash_ok l z HL evs b0 [] (Rep_RepW b0 HR) HO (soh_nil l z b0) HW).
Qed.

Lemma C04_reset_l : forall z b, Rep b ->
  RepW (reset_hash z b) /\ cur_hash (reset_hash z b) = calc_hash z (reset_hash z b) /\
  (zob_w64 z -> Rep (reset_hash z b)).
Proof.
  intros z b HR. split; [apply reset_hash_RepW, Rep_RepW; exact HR|]. split; [apply reset_hash_ok|].
  intros Z. apply reset_hash_Rep; [exact Z|apply Rep_RepW; exact HR].
Qed.

Lemma C04_transposition_l : forall l z ops1 ops2 b0, Rep b0 -> cur_hash b0 = calc_hash z b0 ->
  applicable_all l z b0 ops1 -> applicable_all l z b0 ops2 ->
  hkey (run l z b0 ops1) = hkey (run l z b0 ops2) -> cur_hash (run l z b0 ops1) = cur_hash (run l z b0 ops2).
Proof.
  intros l z ops1 ops2 b0 HR. exact (transposition l z ops1 ops2 b0 (Rep_RepW b0 HR)).
Qed.
