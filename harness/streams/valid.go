package streams

import (
	"verifharness/hx"
	"verifharness/posgen"
)

// valid: board-in -> [Valid, normal_ep]: the harness-side position filter against Spec `valid`.
func init() {
	hx.Register(&hx.Stream{Name: "valid", Gen: genPositions, Run: runValid})
}

func runValid(a hx.Args) string {
	b, _ := a.Board(0)
	normal := true
	if b.EnPassant != 0 {
		normal = false
		for _, m := range posgen.Legal(b) {
			if b.IsEnPassant(m) {
				normal = true
			}
		}
	}
	return (&hx.Nums{}).B(posgen.Valid(b)).B(normal).String()
}
