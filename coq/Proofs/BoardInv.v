(* Representation invariant of the board model, list-update and reverse-token lemmas, and the
   algebra of addPiece / removePiece on square states (used by C03 and C04). *)
From Coq Require Import NArith ZArith List Bool Lia.
From Chess3 Require Import Base.Bits Base.Word Model.Types Model.BoardDef Model.Board Spec.Rep.
Import ListNotations.
Open Scope N_scope.

(* ------------------------------------------------------------------------------------------ *)
(* list updates *)

Lemma upd_length {A} (l : list A) i x : length (upd l i x) = length l.
Proof. revert i; induction l as [|h t IH]; intros [|i]; cbn; auto. Qed.

Lemma nth_upd_same {A} (l : list A) i x d : (i < length l)%nat -> nth i (upd l i x) d = x.
Proof. revert i; induction l as [|h t IH]; intros [|i] H; cbn in *; try lia; auto. apply IH; lia. Qed.

Lemma nth_upd_other {A} (l : list A) i j x d : i <> j -> nth j (upd l i x) d = nth j l d.
Proof.
  revert i j; induction l as [|h t IH]; intros [|i] [|j] H; cbn; try reflexivity; try congruence.
  apply IH; congruence.
Qed.

Lemma upd_upd {A} (l : list A) i x y : upd (upd l i x) i y = upd l i y.
Proof. revert i; induction l as [|h t IH]; intros [|i]; cbn; try reflexivity. f_equal; apply IH. Qed.

Lemma upd_nth {A} (l : list A) i d : upd l i (nth i l d) = l.
Proof. revert i; induction l as [|h t IH]; intros [|i]; cbn; try reflexivity. f_equal; apply IH. Qed.

Lemma upd_comm {A} (l : list A) i j x y : i <> j -> upd (upd l i x) j y = upd (upd l j y) i x.
Proof.
  revert i j; induction l as [|h t IH]; intros [|i] [|j] H; cbn; try reflexivity; try congruence.
  f_equal; apply IH; congruence.
Qed.

Lemma upd_out {A} (l : list A) i x : (length l <= i)%nat -> upd l i x = l.
Proof. revert i; induction l as [|h t IH]; intros [|i] H; cbn in *; try reflexivity; try lia. f_equal; apply IH; lia. Qed.

Lemma updN_length {A} (l : list A) i x : length (updN l i x) = length l.
Proof. apply upd_length. Qed.

Lemma nthN_updN_same {A} (l : list A) i x d : (N.to_nat i < length l)%nat -> nthN (updN l i x) i d = x.
Proof. apply nth_upd_same. Qed.

Lemma nthN_updN_other {A} (l : list A) i j x d : i <> j -> nthN (updN l i x) j d = nthN l j d.
Proof. intros H. apply nth_upd_other. intros E. apply H. apply N2Nat.inj. exact E. Qed.

Lemma updN_updN {A} (l : list A) i x y : updN (updN l i x) i y = updN l i y.
Proof. apply upd_upd. Qed.

Lemma updN_nthN {A} (l : list A) i d : updN l i (nthN l i d) = l.
Proof. apply upd_nth. Qed.

Lemma updN_comm {A} (l : list A) i j x y : i <> j -> updN (updN l i x) j y = updN (updN l j y) i x.
Proof. intros H. apply upd_comm. intros E. apply H. apply N2Nat.inj. exact E. Qed.

Lemma nthN_out {A} (l : list A) i d : (length l <= N.to_nat i)%nat -> nthN l i d = d.
Proof. apply nth_overflow. Qed.

(* ------------------------------------------------------------------------------------------ *)
(* bit fields of a W-bit token *)

Lemma lt_pow2_testbit v w i : v < 2 ^ w -> w <= i -> N.testbit v i = false.
Proof.
  intros H Hi. destruct (N.eq_dec v 0) as [->|Hv]; [apply N.bits_0|].
  apply N.bits_above_log2. apply N.log2_lt_pow2 in H; lia.
Qed.

Definition fmask (w k : N) : N := N.shiftl (N.ones w) k.
(* (r & ^mask) | v << k  in a W-bit unsigned type *)
Definition fset (W r w k v : N) : N := bor (bandn r (fmask w k)) (N.land (N.shiftl v k) (N.ones W)).
Definition fget (r w k : N) : N := shr (band r (fmask w k)) k.

Lemma fmask_testbit w k j : N.testbit (fmask w k) j = (k <=? j) && (j <? k + w).
Proof.
  unfold fmask. destruct (N.leb_spec k j) as [L|L].
  - rewrite N.shiftl_spec_high' by exact L. cbn [andb].
    destruct (N.ltb_spec j (k + w)) as [M|M].
    + apply N.ones_spec_low. lia.
    + apply N.ones_spec_high. lia.
  - apply N.shiftl_spec_low. exact L.
Qed.

Lemma shlW_testbit W v k j :
  N.testbit (N.land (N.shiftl v k) (N.ones W)) j = (j <? W) && (k <=? j) && N.testbit v (j - k).
Proof.
  rewrite N.land_spec. destruct (N.ltb_spec j W) as [A|A].
  - rewrite N.ones_spec_low by exact A. rewrite andb_true_r. cbn [andb].
    destruct (N.leb_spec k j) as [L|L]; cbn [andb].
    + apply N.shiftl_spec_high'. exact L.
    + apply N.shiftl_spec_low. exact L.
  - rewrite N.ones_spec_high by exact A. apply andb_false_r.
Qed.

Lemma fset_testbit W r w k v j :
  N.testbit (fset W r w k v) j =
  (N.testbit r j && negb ((k <=? j) && (j <? k + w))) || ((j <? W) && (k <=? j) && N.testbit v (j - k)).
Proof. unfold fset, bor, bandn. rewrite N.lor_spec, N.ldiff_spec, fmask_testbit, shlW_testbit. reflexivity. Qed.

Lemma fget_testbit r w k i : N.testbit (fget r w k) i = N.testbit r (i + k) && (i <? w).
Proof.
  unfold fget, shr, band. rewrite N.shiftr_spec', N.land_spec, fmask_testbit.
  f_equal. destruct (N.leb_spec k (i + k)); [|lia]. cbn [andb].
  destruct (N.ltb_spec (i + k) (k + w)), (N.ltb_spec i w); try reflexivity; lia.
Qed.

Lemma fget_fset_same W r w k v : v < 2 ^ w -> k + w <= W -> fget (fset W r w k v) w k = v.
Proof.
  intros Hv Hk. apply N.bits_inj; intro i. rewrite fget_testbit, fset_testbit.
  destruct (N.ltb_spec i w) as [A|A].
  - destruct (N.leb_spec k (i + k)); [|lia]. destruct (N.ltb_spec (i + k) (k + w)); [|lia].
    destruct (N.ltb_spec (i + k) W); [|lia]. cbn [andb negb orb]. rewrite andb_false_r. cbn [orb].
    rewrite andb_true_r. f_equal. lia.
  - rewrite andb_false_r. symmetry. apply lt_pow2_testbit with (w := w); assumption.
Qed.

Lemma fget_fset_other W r w1 k1 w2 k2 v :
  v < 2 ^ w2 -> k1 + w1 <= k2 \/ k2 + w2 <= k1 -> fget (fset W r w2 k2 v) w1 k1 = fget r w1 k1.
Proof.
  intros Hv Hd. apply N.bits_inj; intro i. rewrite !fget_testbit, fset_testbit.
  destruct (N.ltb_spec i w1) as [A|A]; [|rewrite !andb_false_r; reflexivity].
  rewrite !andb_true_r.
  assert (F : (k2 <=? i + k1) && (i + k1 <? k2 + w2) = false).
  { destruct (N.leb_spec k2 (i + k1)), (N.ltb_spec (i + k1) (k2 + w2)); try reflexivity; lia. }
  rewrite F. cbn [negb]. rewrite andb_true_r.
  destruct (N.leb_spec k2 (i + k1)) as [B|B].
  - rewrite (lt_pow2_testbit v w2) by (try assumption; lia). rewrite !andb_false_r, orb_false_r. reflexivity.
  - rewrite andb_false_r. cbn [andb]. rewrite orb_false_r. reflexivity.
Qed.

Lemma fget_0 w k : fget 0 w k = 0.
Proof. unfold fget, shr, band. rewrite N.land_0_l. apply N.shiftr_0_l. Qed.

Lemma trunc16_lt fc : Z.to_N (trunc16 fc) < 2 ^ 16.
Proof.
  unfold trunc16. pose proof (Z.mod_pos_bound fc 65536 ltac:(lia)) as B.
  change (2 ^ 16) with 65536. lia.
Qed.

Ltac Zify.zify_post_hook ::= Z.to_euclidean_division_equations.

Lemma wrap16_trunc16 fc : (-32768 <= fc < 32768)%Z -> wrap16 (Z.of_N (Z.to_N (trunc16 fc))) = fc.
Proof.
  intros H. unfold trunc16, wrap16. pose proof (Z.mod_pos_bound fc 65536 ltac:(lia)) as B.
  rewrite Z2N.id by lia. lia.
Qed.

Lemma land255_small x : x < 256 -> N.land x 255 = x.
Proof. intros H. change 255 with (N.ones 8). rewrite N.land_ones. apply N.mod_small. exact H. Qed.

(* what [layout_ok] says about one field *)
Lemma field_ok_facts mask k minw bits : field_ok mask k minw bits = true ->
  mask = fmask (field_width mask k) k /\ minw <= field_width mask k /\ k + field_width mask k <= bits.
Proof.
  unfold field_ok. cbv zeta. intros H. apply andb_true_iff in H. destruct H as [H C].
  apply andb_true_iff in H. destruct H as [A B].
  apply N.eqb_eq in A. apply N.leb_le in B, C. repeat split; assumption.
Qed.

Lemma fields_apart_facts m1 k1 m2 k2 : fields_apart m1 k1 m2 k2 = true ->
  k1 + field_width m1 k1 <= k2 \/ k2 + field_width m2 k2 <= k1.
Proof. unfold fields_apart. intros H. apply orb_true_iff in H. destruct H as [H|H]; apply N.leb_le in H; auto. Qed.

Lemma pow2_mono v a c : v < 2 ^ a -> a <= c -> v < 2 ^ c.
Proof. intros H L. eapply N.lt_le_trans; [exact H|]. apply N.pow_le_mono_r; [discriminate|exact L]. Qed.

(* ------------------------------------------------------------------------------------------ *)
(* the four fields of the reverse token, for every layout with layout_ok l = true:
   every getter against every setter, for ALL tokens r *)

Section Token.
Variable l : tok_layout.
Hypothesis HL : layout_ok l = true.

Local Notation W := (l_bits l).
Local Notation kf := (l_fifty_shift l).
Local Notation kc := (l_castling_shift l).
Local Notation ke := (l_ep_shift l).
Local Notation kp := (l_capture_shift l).
Local Notation wf := (field_width (l_fifty_mask l) (l_fifty_shift l)).
Local Notation wc := (field_width (l_castling_mask l) (l_castling_shift l)).
Local Notation we := (field_width (l_ep_mask l) (l_ep_shift l)).
Local Notation wp := (field_width (l_capture_mask l) (l_capture_shift l)).

Lemma layout_facts :
  (l_fifty_mask l = fmask wf kf /\ 16 <= wf /\ kf + wf <= W) /\
  (l_castling_mask l = fmask wc kc /\ 4 <= wc /\ kc + wc <= W) /\
  (l_ep_mask l = fmask we ke /\ 6 <= we /\ ke + we <= W) /\
  (l_capture_mask l = fmask wp kp /\ 3 <= wp /\ kp + wp <= W) /\
  (kf + wf <= kc \/ kc + wc <= kf) /\ (kf + wf <= ke \/ ke + we <= kf) /\ (kf + wf <= kp \/ kp + wp <= kf) /\
  (kc + wc <= ke \/ ke + we <= kc) /\ (kc + wc <= kp \/ kp + wp <= kc) /\ (ke + we <= kp \/ kp + wp <= ke).
Proof.
  pose proof HL as H. unfold layout_ok in H.
  repeat match goal with X : _ && _ = true |- _ => apply andb_true_iff in X; destruct X end.
  repeat split; try (apply field_ok_facts; assumption); try (eapply field_ok_facts; eassumption);
    apply fields_apart_facts; assumption.
Qed.

Lemma tok_set_fifty_eq r fc : tok_set_fifty l r fc = fset W r wf kf (Z.to_N (trunc16 fc)).
Proof. destruct layout_facts as ((M & _) & _). unfold tok_set_fifty, tok_shl, fset. rewrite <- M. reflexivity. Qed.
Lemma tok_fifty_eq r : tok_fifty l r = wrap16 (Z.of_N (fget r wf kf)).
Proof. destruct layout_facts as ((M & _) & _). unfold tok_fifty, fget. rewrite <- M. reflexivity. Qed.
Lemma tok_set_castling_eq r c : tok_set_castling l r c = fset W r wc kc c.
Proof. destruct layout_facts as (_ & (M & _) & _). unfold tok_set_castling, tok_shl, fset. rewrite <- M. reflexivity. Qed.
Lemma tok_castling_eq r : tok_castling l r = N.land (fget r wc kc) 255.
Proof. destruct layout_facts as (_ & (M & _) & _). unfold tok_castling, fget. rewrite <- M. reflexivity. Qed.
Lemma tok_set_ep_eq r e : tok_set_ep l r e = fset W r we ke e.
Proof. destruct layout_facts as (_ & _ & (M & _) & _). unfold tok_set_ep, tok_shl, fset. rewrite <- M. reflexivity. Qed.
Lemma tok_ep_eq r : tok_ep l r = fget r we ke.
Proof. destruct layout_facts as (_ & _ & (M & _) & _). unfold tok_ep, fget. rewrite <- M. reflexivity. Qed.
Lemma tok_set_capture_eq r p : tok_set_capture l r p = fset W r wp kp p.
Proof. destruct layout_facts as (_ & _ & _ & (M & _) & _). unfold tok_set_capture, tok_shl, fset. rewrite <- M. reflexivity. Qed.
Lemma tok_capture_eq r : tok_capture l r = N.land (fget r wp kp) 255.
Proof. destruct layout_facts as (_ & _ & _ & (M & _) & _). unfold tok_capture, fget. rewrite <- M. reflexivity. Qed.

Lemma fc_fits fc : Z.to_N (trunc16 fc) < 2 ^ wf.
Proof. destruct layout_facts as ((_ & A & _) & _). apply (pow2_mono _ 16); [apply trunc16_lt|exact A]. Qed.
Lemma c_fits c : c < 16 -> c < 2 ^ wc.
Proof. destruct layout_facts as (_ & (_ & A & _) & _). intros H. apply (pow2_mono _ 4); [exact H|exact A]. Qed.
Lemma e_fits e : e < 64 -> e < 2 ^ we.
Proof. destruct layout_facts as (_ & _ & (_ & A & _) & _). intros H. apply (pow2_mono _ 6); [exact H|exact A]. Qed.
Lemma p_fits p : p < 8 -> p < 2 ^ wp.
Proof. destruct layout_facts as (_ & _ & _ & (_ & A & _) & _). intros H. apply (pow2_mono _ 3); [exact H|exact A]. Qed.

Lemma tok_fifty_set_fifty r fc : (-32768 <= fc < 32768)%Z -> tok_fifty l (tok_set_fifty l r fc) = fc.
Proof.
  intros H. destruct layout_facts as ((_ & _ & B) & _).
  rewrite tok_fifty_eq, tok_set_fifty_eq, fget_fset_same by (try apply fc_fits; exact B).
  apply wrap16_trunc16. exact H.
Qed.
Lemma tok_fifty_set_castling r c : c < 16 -> tok_fifty l (tok_set_castling l r c) = tok_fifty l r.
Proof.
  intros H. destruct layout_facts as (_ & _ & _ & _ & D & _).
  rewrite !tok_fifty_eq, tok_set_castling_eq, fget_fset_other by (try apply c_fits; assumption). reflexivity.
Qed.
Lemma tok_fifty_set_ep r e : e < 64 -> tok_fifty l (tok_set_ep l r e) = tok_fifty l r.
Proof.
  intros H. destruct layout_facts as (_ & _ & _ & _ & _ & D & _).
  rewrite !tok_fifty_eq, tok_set_ep_eq, fget_fset_other by (try apply e_fits; assumption). reflexivity.
Qed.
Lemma tok_fifty_set_capture r p : p < 8 -> tok_fifty l (tok_set_capture l r p) = tok_fifty l r.
Proof.
  intros H. destruct layout_facts as (_ & _ & _ & _ & _ & _ & D & _).
  rewrite !tok_fifty_eq, tok_set_capture_eq, fget_fset_other by (try apply p_fits; assumption). reflexivity.
Qed.

Lemma tok_castling_set_castling r c : c < 16 -> tok_castling l (tok_set_castling l r c) = c.
Proof.
  intros H. destruct layout_facts as (_ & (_ & _ & B) & _).
  rewrite tok_castling_eq, tok_set_castling_eq, fget_fset_same by (try apply c_fits; assumption).
  apply land255_small. lia.
Qed.
Lemma tok_castling_set_fifty r fc : tok_castling l (tok_set_fifty l r fc) = tok_castling l r.
Proof.
  destruct layout_facts as (_ & _ & _ & _ & D & _).
  rewrite !tok_castling_eq, tok_set_fifty_eq, fget_fset_other by (try apply fc_fits; lia). reflexivity.
Qed.
Lemma tok_castling_set_ep r e : e < 64 -> tok_castling l (tok_set_ep l r e) = tok_castling l r.
Proof.
  intros H. destruct layout_facts as (_ & _ & _ & _ & _ & _ & _ & D & _).
  rewrite !tok_castling_eq, tok_set_ep_eq, fget_fset_other by (try apply e_fits; assumption). reflexivity.
Qed.
Lemma tok_castling_set_capture r p : p < 8 -> tok_castling l (tok_set_capture l r p) = tok_castling l r.
Proof.
  intros H. destruct layout_facts as (_ & _ & _ & _ & _ & _ & _ & _ & D & _).
  rewrite !tok_castling_eq, tok_set_capture_eq, fget_fset_other by (try apply p_fits; assumption). reflexivity.
Qed.

Lemma tok_ep_set_ep r e : e < 64 -> tok_ep l (tok_set_ep l r e) = e.
Proof.
  intros H. destruct layout_facts as (_ & _ & (_ & _ & B) & _).
  rewrite tok_ep_eq, tok_set_ep_eq. apply fget_fset_same; [apply e_fits; exact H|exact B].
Qed.
Lemma tok_ep_set_fifty r fc : tok_ep l (tok_set_fifty l r fc) = tok_ep l r.
Proof.
  destruct layout_facts as (_ & _ & _ & _ & _ & D & _).
  rewrite !tok_ep_eq, tok_set_fifty_eq. apply fget_fset_other; [apply fc_fits|lia].
Qed.
Lemma tok_ep_set_castling r c : c < 16 -> tok_ep l (tok_set_castling l r c) = tok_ep l r.
Proof.
  intros H. destruct layout_facts as (_ & _ & _ & _ & _ & _ & _ & D & _).
  rewrite !tok_ep_eq, tok_set_castling_eq. apply fget_fset_other; [apply c_fits; exact H|lia].
Qed.
Lemma tok_ep_set_capture r p : p < 8 -> tok_ep l (tok_set_capture l r p) = tok_ep l r.
Proof.
  intros H. destruct layout_facts as (_ & _ & _ & _ & _ & _ & _ & _ & _ & D).
  rewrite !tok_ep_eq, tok_set_capture_eq. apply fget_fset_other; [apply p_fits; exact H|exact D].
Qed.

Lemma tok_capture_set_capture r p : p < 8 -> tok_capture l (tok_set_capture l r p) = p.
Proof.
  intros H. destruct layout_facts as (_ & _ & _ & (_ & _ & B) & _).
  rewrite tok_capture_eq, tok_set_capture_eq, fget_fset_same by (try apply p_fits; assumption).
  apply land255_small. lia.
Qed.
Lemma tok_capture_set_fifty r fc : tok_capture l (tok_set_fifty l r fc) = tok_capture l r.
Proof.
  destruct layout_facts as (_ & _ & _ & _ & _ & _ & D & _).
  rewrite !tok_capture_eq, tok_set_fifty_eq, fget_fset_other by (try apply fc_fits; lia). reflexivity.
Qed.
Lemma tok_capture_set_castling r c : c < 16 -> tok_capture l (tok_set_castling l r c) = tok_capture l r.
Proof.
  intros H. destruct layout_facts as (_ & _ & _ & _ & _ & _ & _ & _ & D & _).
  rewrite !tok_capture_eq, tok_set_castling_eq, fget_fset_other by (try apply c_fits; try assumption; lia). reflexivity.
Qed.
Lemma tok_capture_set_ep r e : e < 64 -> tok_capture l (tok_set_ep l r e) = tok_capture l r.
Proof.
  intros H. destruct layout_facts as (_ & _ & _ & _ & _ & _ & _ & _ & _ & D).
  rewrite !tok_capture_eq, tok_set_ep_eq, fget_fset_other by (try apply e_fits; try assumption; lia). reflexivity.
Qed.

Lemma tok_ep_0 : tok_ep l 0 = 0.
Proof. rewrite tok_ep_eq. apply fget_0. Qed.
End Token.

(* ------------------------------------------------------------------------------------------ *)
(* addPiece / removePiece without the hash delta *)

Definition addp (b : board) (c : color) (p sq : N) : board :=
  if p =? NoPiece then b else
  let b1 := set_cols b (updN (cols b) (cix c) (bor (colors b c) (bit sq))) in
  let b2 := set_pcs b1 (updN (pcs b1) p (bor (pieces b1 p) (bit sq))) in
  set_sq2p b2 (updN (sq2p b2) sq p).

Definition remp (b : board) (c : color) (p sq : N) : board :=
  if p =? NoPiece then b else
  let b1 := set_cols b (updN (cols b) (cix c) (bandn (colors b c) (bit sq))) in
  let b2 := set_pcs b1 (updN (pcs b1) p (bandn (pieces b1 p) (bit sq))) in
  set_sq2p b2 (updN (sq2p b2) sq NoPiece).

(* the hash delta: piecesRand[c][p][sq], nothing for NoPiece *)
Definition dz (z : zobrist) (c : color) (p sq : N) : N := if p =? NoPiece then 0 else z_piece z c p sq.

Lemma add_piece_eq z b c p sq : add_piece z b c p sq = (addp b c p sq, dz z c p sq).
Proof. unfold add_piece, addp, dz. destruct (p =? NoPiece); reflexivity. Qed.
Lemma remove_piece_eq z b c p sq : remove_piece z b c p sq = (remp b c p sq, dz z c p sq).
Proof. unfold remove_piece, remp, dz. destruct (p =? NoPiece); reflexivity. Qed.

Lemma addp_0 b c sq : addp b c 0 sq = b.
Proof. reflexivity. Qed.
Lemma remp_0 b c sq : remp b c 0 sq = b.
Proof. reflexivity. Qed.

Lemma board_ext a b :
  sq2p a = sq2p b -> pcs a = pcs b -> cols a = cols b -> hashes a = hashes b -> full a = full b ->
  stm a = stm b -> ep a = ep b -> castles a = castles b -> fifty a = fifty b -> a = b.
Proof. destruct a, b; cbn; intros; subst; reflexivity. Qed.

(* the scalar fields are not touched *)
Section Untouched.
Variables (b : board) (c : color) (p sq : N).
Lemma addp_hashes : hashes (addp b c p sq) = hashes b. Proof. unfold addp. destruct (p =? NoPiece); reflexivity. Qed.
Lemma addp_full : full (addp b c p sq) = full b. Proof. unfold addp. destruct (p =? NoPiece); reflexivity. Qed.
Lemma addp_stm : stm (addp b c p sq) = stm b. Proof. unfold addp. destruct (p =? NoPiece); reflexivity. Qed.
Lemma addp_ep : ep (addp b c p sq) = ep b. Proof. unfold addp. destruct (p =? NoPiece); reflexivity. Qed.
Lemma addp_castles : castles (addp b c p sq) = castles b. Proof. unfold addp. destruct (p =? NoPiece); reflexivity. Qed.
Lemma addp_fifty : fifty (addp b c p sq) = fifty b. Proof. unfold addp. destruct (p =? NoPiece); reflexivity. Qed.
Lemma remp_hashes : hashes (remp b c p sq) = hashes b. Proof. unfold remp. destruct (p =? NoPiece); reflexivity. Qed.
Lemma remp_full : full (remp b c p sq) = full b. Proof. unfold remp. destruct (p =? NoPiece); reflexivity. Qed.
Lemma remp_stm : stm (remp b c p sq) = stm b. Proof. unfold remp. destruct (p =? NoPiece); reflexivity. Qed.
Lemma remp_ep : ep (remp b c p sq) = ep b. Proof. unfold remp. destruct (p =? NoPiece); reflexivity. Qed.
Lemma remp_castles : castles (remp b c p sq) = castles b. Proof. unfold remp. destruct (p =? NoPiece); reflexivity. Qed.
Lemma remp_fifty : fifty (remp b c p sq) = fifty b. Proof. unfold remp. destruct (p =? NoPiece); reflexivity. Qed.
End Untouched.

(* the scalar setters commute with addp / remp *)
Section Commute.
Variables (b : board) (c : color) (p sq : N).
Lemma addp_set_hashes v : addp (set_hashes b v) c p sq = set_hashes (addp b c p sq) v.
Proof. unfold addp. destruct (p =? NoPiece); reflexivity. Qed.
Lemma addp_set_full v : addp (set_full b v) c p sq = set_full (addp b c p sq) v.
Proof. unfold addp. destruct (p =? NoPiece); reflexivity. Qed.
Lemma addp_set_stm v : addp (set_stm b v) c p sq = set_stm (addp b c p sq) v.
Proof. unfold addp. destruct (p =? NoPiece); reflexivity. Qed.
Lemma addp_set_ep v : addp (set_ep b v) c p sq = set_ep (addp b c p sq) v.
Proof. unfold addp. destruct (p =? NoPiece); reflexivity. Qed.
Lemma addp_set_castles v : addp (set_castles b v) c p sq = set_castles (addp b c p sq) v.
Proof. unfold addp. destruct (p =? NoPiece); reflexivity. Qed.
Lemma addp_set_fifty v : addp (set_fifty b v) c p sq = set_fifty (addp b c p sq) v.
Proof. unfold addp. destruct (p =? NoPiece); reflexivity. Qed.
Lemma remp_set_hashes v : remp (set_hashes b v) c p sq = set_hashes (remp b c p sq) v.
Proof. unfold remp. destruct (p =? NoPiece); reflexivity. Qed.
Lemma remp_set_full v : remp (set_full b v) c p sq = set_full (remp b c p sq) v.
Proof. unfold remp. destruct (p =? NoPiece); reflexivity. Qed.
Lemma remp_set_stm v : remp (set_stm b v) c p sq = set_stm (remp b c p sq) v.
Proof. unfold remp. destruct (p =? NoPiece); reflexivity. Qed.
Lemma remp_set_ep v : remp (set_ep b v) c p sq = set_ep (remp b c p sq) v.
Proof. unfold remp. destruct (p =? NoPiece); reflexivity. Qed.
Lemma remp_set_castles v : remp (set_castles b v) c p sq = set_castles (remp b c p sq) v.
Proof. unfold remp. destruct (p =? NoPiece); reflexivity. Qed.
Lemma remp_set_fifty v : remp (set_fifty b v) c p sq = set_fifty (remp b c p sq) v.
Proof. unfold remp. destruct (p =? NoPiece); reflexivity. Qed.
End Commute.

#[export] Hint Rewrite addp_hashes addp_full addp_stm addp_ep addp_castles addp_fifty
  remp_hashes remp_full remp_stm remp_ep remp_castles remp_fifty : brd.
#[export] Hint Rewrite addp_set_hashes addp_set_full addp_set_stm addp_set_ep addp_set_castles addp_set_fifty
  remp_set_hashes remp_set_full remp_set_stm remp_set_ep remp_set_castles remp_set_fifty : push.

(* ------------------------------------------------------------------------------------------ *)
(* lengths *)

Definition Lens (b : board) : Prop :=
  length (sq2p b) = 64%nat /\ length (pcs b) = 7%nat /\ length (cols b) = 2%nat.

Lemma addp_Lens b c p sq : Lens b -> Lens (addp b c p sq).
Proof.
  intros (A & B & C). unfold addp. destruct (p =? NoPiece); [repeat split; assumption|].
  repeat split; cbn [sq2p pcs cols set_sq2p set_pcs set_cols]; rewrite updN_length; assumption.
Qed.
Lemma remp_Lens b c p sq : Lens b -> Lens (remp b c p sq).
Proof.
  intros (A & B & C). unfold remp. destruct (p =? NoPiece); [repeat split; assumption|].
  repeat split; cbn [sq2p pcs cols set_sq2p set_pcs set_cols]; rewrite updN_length; assumption.
Qed.

Lemma cix_lt c : (N.to_nat (cix c) < 2)%nat.
Proof. destruct c; cbn; lia. Qed.

Lemma cix_inj c c' : cix c = cix c' -> c = c'.
Proof. destruct c, c'; cbn; congruence. Qed.

Lemma color_eqb_spec c c' : reflect (c = c') (color_eqb c c').
Proof. destruct c, c'; constructor; congruence. Qed.

Lemma color_eqb_refl c : color_eqb c c = true.
Proof. destruct c; reflexivity. Qed.

Lemma color_eqb_flip c : color_eqb (flip c) c = false.
Proof. destruct c; reflexivity. Qed.
Lemma color_eqb_flip' c : color_eqb c (flip c) = false.
Proof. destruct c; reflexivity. Qed.

Lemma flip_flip c : flip (flip c) = c.
Proof. destruct c; reflexivity. Qed.

Lemma pieces_out b q : length (pcs b) = 7%nat -> 7 <= q -> pieces b q = 0.
Proof. intros L H. unfold pieces. apply nthN_out. lia. Qed.

(* ------------------------------------------------------------------------------------------ *)
(* pointwise effect of addp / remp *)

Lemma p_not0 p : 1 <= p <= 6 -> (p =? NoPiece) = false.
Proof. intros H. apply N.eqb_neq. unfold NoPiece. lia. Qed.

Section Pointwise.
Variables (b : board) (c : color) (p sq : N).
Hypothesis HL : Lens b.
Hypothesis Hsq : sq < 64.
Hypothesis Hp : 1 <= p <= 6.


Lemma pa_addp t : piece_at (addp b c p sq) t = if sq =? t then p else piece_at b t.
Proof.
  unfold addp. rewrite p_not0 by exact Hp. unfold piece_at. cbn [sq2p set_sq2p set_pcs set_cols].
  destruct (N.eqb_spec sq t) as [<-|E].
  - apply nthN_updN_same. destruct HL as (A & _). lia.
  - apply nthN_updN_other. exact E.
Qed.

Lemma pa_remp t : piece_at (remp b c p sq) t = if sq =? t then 0 else piece_at b t.
Proof.
  unfold remp. rewrite p_not0 by exact Hp. unfold piece_at. cbn [sq2p set_sq2p set_pcs set_cols].
  destruct (N.eqb_spec sq t) as [<-|E].
  - apply nthN_updN_same. destruct HL as (A & _). lia.
  - apply nthN_updN_other. exact E.
Qed.

Lemma pb_addp q t :
  N.testbit (pieces (addp b c p sq) q) t = N.testbit (pieces b q) t || ((q =? p) && (sq =? t)).
Proof.
  unfold addp. rewrite p_not0 by exact Hp. unfold pieces. cbn [pcs set_sq2p set_pcs set_cols].
  destruct (N.eqb_spec q p) as [->|E].
  - rewrite nthN_updN_same by (destruct HL as (_ & B & _); lia).
    unfold bor. rewrite N.lor_spec, bit_testbit. reflexivity.
  - rewrite nthN_updN_other by congruence. cbn [andb]. rewrite orb_false_r. reflexivity.
Qed.

Lemma pb_remp q t :
  N.testbit (pieces (remp b c p sq) q) t = N.testbit (pieces b q) t && negb ((q =? p) && (sq =? t)).
Proof.
  unfold remp. rewrite p_not0 by exact Hp. unfold pieces. cbn [pcs set_sq2p set_pcs set_cols].
  destruct (N.eqb_spec q p) as [->|E].
  - rewrite nthN_updN_same by (destruct HL as (_ & B & _); lia).
    unfold bandn. rewrite N.ldiff_spec, bit_testbit. reflexivity.
  - rewrite nthN_updN_other by congruence. cbn [andb negb]. rewrite andb_true_r. reflexivity.
Qed.

Lemma cb_addp c' t :
  N.testbit (colors (addp b c p sq) c') t = N.testbit (colors b c') t || (color_eqb c' c && (sq =? t)).
Proof.
  unfold addp. rewrite p_not0 by exact Hp. unfold colors. cbn [cols set_sq2p set_pcs set_cols].
  destruct (color_eqb_spec c' c) as [->|E].
  - rewrite nthN_updN_same by (destruct HL as (_ & _ & C); pose proof (cix_lt c); lia).
    unfold bor. rewrite N.lor_spec, bit_testbit. reflexivity.
  - rewrite nthN_updN_other by (intros X; apply cix_inj in X; congruence). cbn [andb]. rewrite orb_false_r. reflexivity.
Qed.

Lemma cb_remp c' t :
  N.testbit (colors (remp b c p sq) c') t = N.testbit (colors b c') t && negb (color_eqb c' c && (sq =? t)).
Proof.
  unfold remp. rewrite p_not0 by exact Hp. unfold colors. cbn [cols set_sq2p set_pcs set_cols].
  destruct (color_eqb_spec c' c) as [->|E].
  - rewrite nthN_updN_same by (destruct HL as (_ & _ & C); pose proof (cix_lt c); lia).
    unfold bandn. rewrite N.ldiff_spec, bit_testbit. reflexivity.
  - rewrite nthN_updN_other by (intros X; apply cix_inj in X; congruence). cbn [andb negb]. rewrite andb_true_r. reflexivity.
Qed.
End Pointwise.

(* ------------------------------------------------------------------------------------------ *)
(* square states: what the three encodings say about one square *)

Definition Sq_empty (b : board) (s : N) : Prop :=
  piece_at b s = 0 /\ (forall q, N.testbit (pieces b q) s = false) /\ (forall c, N.testbit (colors b c) s = false).

Definition Sq_has (b : board) (c : color) (p s : N) : Prop :=
  1 <= p <= 6 /\ piece_at b s = p /\ (forall q, N.testbit (pieces b q) s = (q =? p)) /\
  (forall c', N.testbit (colors b c') s = color_eqb c' c).

Lemma Sq_has_not_empty b c p s : Sq_has b c p s -> Sq_empty b s -> False.
Proof. intros (R & A & _) (B & _). lia. Qed.

Lemma Sq_has_fun b c p c' p' s : Sq_has b c p s -> Sq_has b c' p' s -> c = c' /\ p = p'.
Proof.
  intros (_ & A & _ & C) (_ & A' & _ & C'). split; [|congruence].
  specialize (C c). specialize (C' c). rewrite C' in C. rewrite color_eqb_refl in C.
  destruct (color_eqb_spec c c'); congruence.
Qed.

Lemma bandn_bor_bit x s : N.testbit x s = false -> bandn (bor x (bit s)) (bit s) = x.
Proof.
  intros H. apply N.bits_inj; intro i. unfold bandn, bor. rewrite N.ldiff_spec, N.lor_spec, bit_testbit.
  destruct (N.eqb_spec s i) as [<-|E]; [rewrite H; reflexivity|]. cbn [negb]. rewrite orb_false_r, andb_true_r. reflexivity.
Qed.

Lemma bor_bandn_bit x s : N.testbit x s = true -> bor (bandn x (bit s)) (bit s) = x.
Proof.
  intros H. apply N.bits_inj; intro i. unfold bandn, bor. rewrite N.lor_spec, N.ldiff_spec, bit_testbit.
  destruct (N.eqb_spec s i) as [<-|E]; [rewrite H; reflexivity|]. cbn [negb]. rewrite orb_false_r, andb_true_r. reflexivity.
Qed.

Section States.
Variables (b : board) (c : color) (p sq : N).
Hypothesis HL : Lens b.
Hypothesis Hsq : sq < 64.
Hypothesis Hp : 1 <= p <= 6.

Lemma addp_has : Sq_empty b sq -> Sq_has (addp b c p sq) c p sq.
Proof.
  intros (A & B & C). repeat split; try lia.
  - rewrite pa_addp by assumption. rewrite N.eqb_refl. reflexivity.
  - intros q. rewrite pb_addp by assumption. rewrite B, N.eqb_refl, andb_true_r. reflexivity.
  - intros c'. rewrite cb_addp by assumption. rewrite C, N.eqb_refl, andb_true_r. reflexivity.
Qed.

Lemma remp_empty : Sq_has b c p sq -> Sq_empty (remp b c p sq) sq.
Proof.
  intros (_ & A & B & C). repeat split.
  - rewrite pa_remp by assumption. rewrite N.eqb_refl. reflexivity.
  - intros q. rewrite pb_remp by assumption. rewrite B, N.eqb_refl, andb_true_r. apply andb_negb_r.
  - intros c'. rewrite cb_remp by assumption. rewrite C, N.eqb_refl, andb_true_r. apply andb_negb_r.
Qed.

Lemma remp_addp : Sq_empty b sq -> remp (addp b c p sq) c p sq = b.
Proof.
  intros (A & B & C). apply board_ext; autorewrite with brd; try reflexivity.
  - unfold remp, addp. rewrite p_not0 by assumption. cbn [sq2p set_sq2p set_pcs set_cols].
    rewrite updN_updN. unfold piece_at in A. rewrite <- A at 1. apply updN_nthN.
  - unfold remp, addp. rewrite p_not0 by assumption. unfold pieces. cbn [pcs set_sq2p set_pcs set_cols].
    rewrite nthN_updN_same by (destruct HL as (_ & X & _); lia).
    rewrite updN_updN. specialize (B p). unfold pieces in B. rewrite bandn_bor_bit by exact B. apply updN_nthN.
  - unfold remp, addp. rewrite p_not0 by assumption. unfold colors. cbn [cols set_sq2p set_pcs set_cols].
    rewrite nthN_updN_same by (destruct HL as (_ & _ & X); pose proof (cix_lt c); lia).
    rewrite updN_updN. specialize (C c). unfold colors in C. rewrite bandn_bor_bit by exact C. apply updN_nthN.
Qed.

Lemma addp_remp : Sq_has b c p sq -> addp (remp b c p sq) c p sq = b.
Proof.
  intros (_ & A & B & C). apply board_ext; autorewrite with brd; try reflexivity.
  - unfold remp, addp. rewrite p_not0 by assumption. cbn [sq2p set_sq2p set_pcs set_cols].
    rewrite updN_updN. unfold piece_at in A. rewrite <- A at 1. apply updN_nthN.
  - unfold remp, addp. rewrite p_not0 by assumption. unfold pieces. cbn [pcs set_sq2p set_pcs set_cols].
    rewrite nthN_updN_same by (destruct HL as (_ & X & _); lia).
    rewrite updN_updN. specialize (B p). rewrite N.eqb_refl in B. unfold pieces in B.
    rewrite bor_bandn_bit by exact B. apply updN_nthN.
  - unfold remp, addp. rewrite p_not0 by assumption. unfold colors. cbn [cols set_sq2p set_pcs set_cols].
    rewrite nthN_updN_same by (destruct HL as (_ & _ & X); pose proof (cix_lt c); lia).
    rewrite updN_updN. specialize (C c). rewrite color_eqb_refl in C. unfold colors in C.
    rewrite bor_bandn_bit by exact C. apply updN_nthN.
Qed.

(* other squares keep their state *)
Lemma addp_empty_other t : t <> sq -> Sq_empty b t -> Sq_empty (addp b c p sq) t.
Proof.
  intros E (A & B & C). assert (F : (sq =? t) = false) by (apply N.eqb_neq; congruence). repeat split.
  - rewrite pa_addp, F by assumption. exact A.
  - intros q. rewrite pb_addp, F, andb_false_r, orb_false_r by assumption. apply B.
  - intros c'. rewrite cb_addp, F, andb_false_r, orb_false_r by assumption. apply C.
Qed.
Lemma remp_empty_other t : t <> sq -> Sq_empty b t -> Sq_empty (remp b c p sq) t.
Proof.
  intros E (A & B & C). assert (F : (sq =? t) = false) by (apply N.eqb_neq; congruence). repeat split.
  - rewrite pa_remp, F by assumption. exact A.
  - intros q. rewrite pb_remp, F, andb_false_r by assumption. cbn [negb]. rewrite andb_true_r. apply B.
  - intros c'. rewrite cb_remp, F, andb_false_r by assumption. cbn [negb]. rewrite andb_true_r. apply C.
Qed.
Lemma addp_has_other c' p' t : t <> sq -> Sq_has b c' p' t -> Sq_has (addp b c p sq) c' p' t.
Proof.
  intros E (R & A & B & C). assert (F : (sq =? t) = false) by (apply N.eqb_neq; congruence). repeat split; try lia.
  - rewrite pa_addp, F by assumption. exact A.
  - intros q. rewrite pb_addp, F, andb_false_r, orb_false_r by assumption. apply B.
  - intros c''. rewrite cb_addp, F, andb_false_r, orb_false_r by assumption. apply C.
Qed.
Lemma remp_has_other c' p' t : t <> sq -> Sq_has b c' p' t -> Sq_has (remp b c p sq) c' p' t.
Proof.
  intros E (R & A & B & C). assert (F : (sq =? t) = false) by (apply N.eqb_neq; congruence). repeat split; try lia.
  - rewrite pa_remp, F by assumption. exact A.
  - intros q. rewrite pb_remp, F, andb_false_r by assumption. cbn [negb]. rewrite andb_true_r. apply B.
  - intros c''. rewrite cb_remp, F, andb_false_r by assumption. cbn [negb]. rewrite andb_true_r. apply C.
Qed.
End States.

(* ------------------------------------------------------------------------------------------ *)
(* the placement part of the invariant, in square-state form *)

Definition w64l (l : list N) : Prop := Forall (fun x => x < two64) l.

Record RepP (b : board) : Prop := mkRepP {
  rp_lens : Lens b;
  rp_p0 : pieces b 0 = 0;
  rp_pcs64 : w64l (pcs b);
  rp_cols64 : w64l (cols b);
  rp_sq : forall s, s < 64 -> Sq_empty b s \/ exists c p, Sq_has b c p s }.

Lemma Forall_upd {A} (P : A -> Prop) l i x : Forall P l -> P x -> Forall P (upd l i x).
Proof.
  intros H Hx. revert i. induction H as [|h t Hh Ht IH]; intros [|i]; cbn; constructor; auto.
Qed.

Lemma Forall_nth {A} (P : A -> Prop) l i d : Forall P l -> P d -> P (nth i l d).
Proof.
  intros H Hd. revert i. induction H as [|h t Hh Ht IH]; intros [|i]; cbn; auto.
Qed.

Lemma bor_bit_lt x s : x < two64 -> s < 64 -> bor x (bit s) < two64.
Proof.
  intros Hx Hs. apply testbit_lt_two64. intros i Hi. unfold bor. rewrite N.lor_spec, bit_testbit.
  rewrite (lt_two64_testbit x Hx i Hi). apply N.eqb_neq. lia.
Qed.

Lemma bandn_lt x y : x < two64 -> bandn x y < two64.
Proof.
  intros Hx. apply testbit_lt_two64. intros i Hi. unfold bandn. rewrite N.ldiff_spec.
  rewrite (lt_two64_testbit x Hx i Hi). reflexivity.
Qed.

Lemma two64_pos : 0 < two64.
Proof. reflexivity. Qed.

Lemma w64l_nthN l i : w64l l -> nthN l i 0 < two64.
Proof. intros H. unfold nthN. apply (Forall_nth (fun x => x < two64)); [exact H|apply two64_pos]. Qed.

Lemma w64l_updN l i x : w64l l -> x < two64 -> w64l (updN l i x).
Proof. intros H Hx. apply Forall_upd; assumption. Qed.

Lemma addp_RepP b c p sq : RepP b -> sq < 64 -> 1 <= p <= 6 -> Sq_empty b sq -> RepP (addp b c p sq).
Proof.
  intros [L P0 W1 W2 S] Hsq Hp E. constructor.
  - apply addp_Lens. exact L.
  - unfold pieces in *. unfold addp. rewrite p_not0 by assumption. cbn [pcs set_sq2p set_pcs set_cols].
    rewrite nthN_updN_other by lia. exact P0.
  - unfold addp. rewrite p_not0 by assumption. cbn [pcs set_sq2p set_pcs set_cols].
    apply w64l_updN; [exact W1|]. apply bor_bit_lt; [|exact Hsq]. apply w64l_nthN. exact W1.
  - unfold addp. rewrite p_not0 by assumption. cbn [cols set_sq2p set_pcs set_cols].
    apply w64l_updN; [exact W2|]. apply bor_bit_lt; [|exact Hsq]. apply w64l_nthN. exact W2.
  - intros s Hs. destruct (N.eq_dec s sq) as [->|N].
    + right. exists c, p. apply addp_has; assumption.
    + destruct (S s Hs) as [X|(c' & p' & X)].
      * left. apply addp_empty_other; assumption.
      * right. exists c', p'. apply addp_has_other; assumption.
Qed.

Lemma remp_RepP b c p sq : RepP b -> sq < 64 -> Sq_has b c p sq -> RepP (remp b c p sq).
Proof.
  intros [L P0 W1 W2 S] Hsq H. assert (Hp : 1 <= p <= 6) by (destruct H; assumption). constructor.
  - apply remp_Lens. exact L.
  - unfold pieces in *. unfold remp. rewrite p_not0 by assumption. cbn [pcs set_sq2p set_pcs set_cols].
    rewrite nthN_updN_other by lia. exact P0.
  - unfold remp. rewrite p_not0 by assumption. cbn [pcs set_sq2p set_pcs set_cols].
    apply w64l_updN; [exact W1|]. apply bandn_lt. apply w64l_nthN. exact W1.
  - unfold remp. rewrite p_not0 by assumption. cbn [cols set_sq2p set_pcs set_cols].
    apply w64l_updN; [exact W2|]. apply bandn_lt. apply w64l_nthN. exact W2.
  - intros s Hs. destruct (N.eq_dec s sq) as [->|N].
    + left. apply remp_empty; assumption.
    + destruct (S s Hs) as [X|(c' & p' & X)].
      * left. apply remp_empty_other; assumption.
      * right. exists c', p'. apply remp_has_other; assumption.
Qed.

(* ------------------------------------------------------------------------------------------ *)
(* the shared invariant Rep (Spec/Rep.v: rep_ok b = true) in Prop form *)

Record RepW (b : board) : Prop := mkRepW {
  rw_p : RepP b;
  rw_ep : ep b < 64;
  rw_castles : castles b < 16;
  rw_hashes : hashes b <> [];
  rw_fifty : (-32768 <= fifty b < 32768)%Z }.

Ltac split_andb :=
  repeat match goal with
         | H : _ && _ = true |- _ => apply andb_true_iff in H; destruct H
         end.

Lemma forallb_w64l l : forallb (fun x => x <? two64) l = true <-> w64l l.
Proof.
  unfold w64l. rewrite forallb_forall, Forall_forall. split; intros H x Hx; specialize (H x Hx).
  - apply N.ltb_lt. exact H.
  - apply N.ltb_lt. exact H.
Qed.

Lemma In_squares64 s : In s squares64 <-> s < 64.
Proof.
  unfold squares64. rewrite in_map_iff. split.
  - intros (n & <- & H). apply in_seq in H. lia.
  - intros H. exists (N.to_nat s). split; [apply N2Nat.id|]. apply in_seq. lia.
Qed.

Lemma sq_ok_states b s : Lens b -> pieces b 0 = 0 -> sq_ok b s = true ->
  Sq_empty b s \/ exists c p, Sq_has b c p s.
Proof.
  intros L P0 H. unfold sq_ok in H. cbn [forallb] in H. split_andb.
  repeat match goal with X : Bool.eqb _ _ = true |- _ => apply eqb_prop in X end.
  apply N.leb_le in H.
  set (k := piece_at b s) in *.
  assert (PB : forall q, N.testbit (pieces b q) s = (1 <=? q) && (k =? q)).
  { intros q.
    destruct (N.eq_dec q 0) as [->|N0]; [rewrite P0; apply N.bits_0|].
    destruct (N.eq_dec q 1) as [->|N1]; [assumption|].
    destruct (N.eq_dec q 2) as [->|N2]; [assumption|].
    destruct (N.eq_dec q 3) as [->|N3]; [assumption|].
    destruct (N.eq_dec q 4) as [->|N4]; [assumption|].
    destruct (N.eq_dec q 5) as [->|N5]; [assumption|].
    destruct (N.eq_dec q 6) as [->|N6]; [assumption|].
    rewrite pieces_out by (try (destruct L as (_ & X & _); exact X); lia). rewrite N.bits_0.
    symmetry. apply andb_false_intro2. apply N.eqb_neq. lia. }
  destruct (N.eq_dec k 0) as [K|K].
  - left. repeat split.
    + exact K.
    + intros q. rewrite PB, K. destruct (N.leb_spec 1 q); [|reflexivity]. cbn [andb]. apply N.eqb_neq. lia.
    + intros c. rewrite K in *. cbn in H1. apply orb_false_iff in H1. destruct c; tauto.
  - right. assert (F : (k =? 0) = false) by (apply N.eqb_neq; exact K). rewrite F in H1. cbn [negb] in H1.
    apply negb_true_iff in H0.
    exists (if N.testbit (colors b White) s then White else Black), k. repeat split; try lia.
    + intros q. rewrite PB. destruct (N.eqb_spec k q) as [<-|E].
      * rewrite N.eqb_refl. destruct (N.leb_spec 1 k); [reflexivity|lia].
      * rewrite andb_false_r. symmetry. apply N.eqb_neq. congruence.
    + intros c'. destruct c'; destruct (N.testbit (colors b White) s), (N.testbit (colors b Black) s); cbn in *; congruence.
Qed.

Lemma states_sq_ok b s : (Sq_empty b s \/ exists c p, Sq_has b c p s) -> sq_ok b s = true.
Proof.
  intros [(A & B & C)|(c & p & R & A & B & C)]; unfold sq_ok; cbn [forallb]; rewrite A, !B, !C.
  - reflexivity.
  - assert (X : p = 1 \/ p = 2 \/ p = 3 \/ p = 4 \/ p = 5 \/ p = 6) by lia.
    destruct X as [->|[->|[->|[->|[->| ->]]]]]; destruct c; reflexivity.
Qed.

Lemma Rep_RepW b : Rep b -> RepW b.
Proof.
  unfold Rep, rep_ok. intros H. split_andb.
  repeat match goal with X : (_ =? _)%nat = true |- _ => apply Nat.eqb_eq in X end.
  assert (L : Lens b) by (repeat split; assumption).
  apply N.eqb_eq in H9.
  constructor; [constructor|..].
  - exact L.
  - exact H9.
  - apply forallb_w64l. assumption.
  - apply forallb_w64l. assumption.
  - intros s Hs. apply sq_ok_states; try assumption.
    rewrite forallb_forall in H6. apply H6. apply In_squares64. exact Hs.
  - apply N.ltb_lt. assumption.
  - apply N.ltb_lt. assumption.
  - destruct (hashes b); [discriminate|congruence].
  - split; [apply Z.leb_le|apply Z.ltb_lt]; assumption.
Qed.

Lemma Rep_hashes64 b : Rep b -> w64l (hashes b).
Proof. unfold Rep, rep_ok. intros H. split_andb. apply forallb_w64l. assumption. Qed.

Lemma RepW_Rep b : RepW b -> w64l (hashes b) -> Rep b.
Proof.
  intros [[(L1 & L2 & L3) P0 W1 W2 S] E C Hh F] Wh. unfold Rep, rep_ok.
  rewrite L1, L2, L3, P0. cbn [Nat.eqb N.eqb andb].
  rewrite (proj2 (forallb_w64l _) W1), (proj2 (forallb_w64l _) W2), (proj2 (forallb_w64l _) Wh).
  rewrite (proj2 (N.ltb_lt _ _) E), (proj2 (N.ltb_lt _ _) C).
  rewrite (proj2 (Z.leb_le _ _) (proj1 F)), (proj2 (Z.ltb_lt _ _) (proj2 F)).
  assert (X : forallb (sq_ok b) squares64 = true).
  { apply forallb_forall. intros s Hs. apply states_sq_ok. apply S. apply In_squares64. exact Hs. }
  rewrite X. destruct (hashes b); [congruence|reflexivity].
Qed.

Theorem Rep_iff b : Rep b <-> RepW b /\ w64l (hashes b).
Proof.
  split; [intros H; split; [apply Rep_RepW|apply Rep_hashes64]; exact H|intros [A B]; apply RepW_Rep; assumption].
Qed.

(* handy consequences *)
Lemma RepP_piece_lt b s : RepP b -> s < 64 -> piece_at b s <= 6.
Proof. intros R Hs. destruct (rp_sq b R s Hs) as [(A & _)|(c & p & Rg & A & _)]; lia. Qed.

Lemma RepP_own b c s : RepP b -> s < 64 -> N.testbit (colors b c) s = true -> Sq_has b c (piece_at b s) s.
Proof.
  intros R Hs H. destruct (rp_sq b R s Hs) as [(_ & _ & C)|(c' & p & X)].
  - rewrite C in H. discriminate.
  - pose proof X as (Rg & A & B & C). rewrite C in H. destruct (color_eqb_spec c c') as [->|]; [|discriminate].
    rewrite A. exact X.
Qed.

Lemma RepP_not_own b c s : RepP b -> s < 64 -> N.testbit (colors b c) s = false ->
  Sq_empty b s \/ Sq_has b (flip c) (piece_at b s) s.
Proof.
  intros R Hs H. destruct (rp_sq b R s Hs) as [E|(c' & p & X)]; [left; exact E|right].
  pose proof X as (Rg & A & B & C). rewrite C in H. rewrite A.
  destruct c, c'; cbn in *; try discriminate; exact X.
Qed.

(* ------------------------------------------------------------------------------------------ *)
(* the invariant in word form: the three encodings describe one placement *)

Definition piece_union (b : board) : N :=
  bor (bor (bor (bor (bor (pieces b Pawn) (pieces b Knight)) (pieces b Bishop)) (pieces b Rook)) (pieces b Queen)) (pieces b King).

Theorem RepP_words b : RepP b ->
  (forall s p, s < 64 -> p <> NoPiece -> (piece_at b s = p <-> N.testbit (pieces b p) s = true)) /\
  (forall p q, p <> q -> band (pieces b p) (pieces b q) = 0) /\
  band (colors b White) (colors b Black) = 0 /\
  bor (colors b White) (colors b Black) = piece_union b.
Proof.
  intros [L P0 W1 W2 S].
  assert (HP : forall p i, 64 <= i -> N.testbit (pieces b p) i = false).
  { intros p i Hi. apply lt_two64_testbit; [apply w64l_nthN; exact W1|exact Hi]. }
  assert (HC : forall c i, 64 <= i -> N.testbit (colors b c) i = false).
  { intros c i Hi. apply lt_two64_testbit; [apply w64l_nthN; exact W2|exact Hi]. }
  split; [|split; [|split]].
  - intros s p Hs Hp. split.
    + intros H. destruct (S s Hs) as [(A & _)|(c & k & R & A & B & C)].
      * unfold NoPiece in *. congruence.
      * rewrite B. apply N.eqb_eq. congruence.
    + intros H. destruct (S s Hs) as [(_ & B & _)|(c & k & R & A & B & C)].
      * rewrite B in H. discriminate.
      * rewrite B in H. apply N.eqb_eq in H. congruence.
  - intros p q Hpq. apply N.bits_inj; intro i. unfold band. rewrite N.land_spec, N.bits_0.
    destruct (N.lt_ge_cases i 64) as [Hi|Hi]; [|rewrite HP by exact Hi; reflexivity].
    destruct (S i Hi) as [(_ & B & _)|(c & k & R & A & B & C)]; rewrite !B; [reflexivity|].
    destruct (N.eqb_spec p k), (N.eqb_spec q k); try reflexivity. congruence.
  - apply N.bits_inj; intro i. unfold band. rewrite N.land_spec, N.bits_0.
    destruct (N.lt_ge_cases i 64) as [Hi|Hi]; [|rewrite HC by exact Hi; reflexivity].
    destruct (S i Hi) as [(_ & _ & C)|(c & k & R & A & B & C)]; rewrite !C; [reflexivity|].
    destruct c; reflexivity.
  - apply N.bits_inj; intro i. unfold piece_union, bor. rewrite !N.lor_spec.
    destruct (N.lt_ge_cases i 64) as [Hi|Hi]; [|rewrite !HC, !HP by exact Hi; reflexivity].
    destruct (S i Hi) as [(_ & B & C)|(c & k & R & A & B & C)]; rewrite !B, !C; [reflexivity|].
    assert (X : k = 1 \/ k = 2 \/ k = 3 \/ k = 4 \/ k = 5 \/ k = 6) by lia.
    destruct X as [->|[->|[->|[->|[->| ->]]]]]; destruct c; reflexivity.
Qed.
