(* Chess geometry, written to be read: squares as (file, rank) pairs of integers, rays walked
   square by square.  These are the definitions the properties talk about ("the squares reached by
   walking each ray up to and including the first occupied square"), and they are executable. *)
From Coq Require Import NArith ZArith List Bool Lia.
From Chess3 Require Import Base.Bits Model.Types.
Import ListNotations.

Definition file_of (s : N) : Z := Z.of_N (s mod 8).
Definition rank_of (s : N) : Z := Z.of_N (s / 8).
Definition sq_of (f r : Z) : N := Z.to_N (r * 8 + f).
Definition on_board (f r : Z) : bool := ((0 <=? f) && (f <? 8) && (0 <=? r) && (r <? 8))%Z.

(* the squares of the ray leaving (f, r) in direction (df, dr), nearest first *)
Fixpoint ray_from (fuel : nat) (f r df dr : Z) : list N :=
  match fuel with
  | O => []
  | S k => let f' := (f + df)%Z in let r' := (r + dr)%Z in
           if on_board f' r' then sq_of f' r' :: ray_from k f' r' df dr else []
  end.
Definition ray (sq : N) (d : Z * Z) : list N := ray_from 7 (file_of sq) (rank_of sq) (fst d) (snd d).

(* walk a ray up to and including the first occupied square *)
Fixpoint walk (l : list N) (occ : N) : N :=
  match l with
  | [] => 0%N
  | s :: r => N.lor (bit s) (if N.testbit occ s then 0%N else walk r occ)
  end.

Definition rook_dirs : list (Z * Z) := [(0, 1); (0, -1); (1, 0); (-1, 0)]%Z.
Definition bishop_dirs : list (Z * Z) := [(1, 1); (-1, 1); (1, -1); (-1, -1)]%Z.
Definition slide (dirs : list (Z * Z)) (sq occ : N) : N :=
  fold_right (fun d acc => N.lor (walk (ray sq d) occ) acc) 0%N dirs.
Definition rook_attacks (sq occ : N) : N := slide rook_dirs sq occ.
Definition bishop_attacks (sq occ : N) : N := slide bishop_dirs sq occ.
Definition queen_attacks (sq occ : N) : N := N.lor (rook_attacks sq occ) (bishop_attacks sq occ).

(* leapers: the set of on-board squares at the given offsets *)
Definition leaper (offs : list (Z * Z)) (sq : N) : N :=
  fold_right (fun d acc =>
    let f := (file_of sq + fst d)%Z in let r := (rank_of sq + snd d)%Z in
    if on_board f r then N.lor (bit (sq_of f r)) acc else acc) 0%N offs.
Definition knight_offs : list (Z * Z) :=
  [(1, 2); (2, 1); (2, -1); (1, -2); (-1, -2); (-2, -1); (-2, 1); (-1, 2)]%Z.
Definition king_offs : list (Z * Z) :=
  [(1, 0); (1, 1); (0, 1); (-1, 1); (-1, 0); (-1, -1); (0, -1); (1, -1)]%Z.
Definition knight_attacks (sq : N) : N := leaper knight_offs sq.
Definition king_attacks (sq : N) : N := leaper king_offs sq.

(* pawns: White moves towards higher ranks *)
Definition pawn_dir (c : color) : Z := match c with White => 1 | Black => -1 end%Z.
Definition pawn_attacks (c : color) (sq : N) : N := leaper [(-1, pawn_dir c); (1, pawn_dir c)]%Z sq.
Definition pawn_push1 (c : color) (sq : N) : N := leaper [(0, pawn_dir c)]%Z sq.
(* set-wise versions: union over the squares of a set *)
Definition union_over (f : N -> N) (b : N) : N := fold_right (fun s acc => N.lor (f s) acc) 0%N (bits_of b).
Definition pawn_attacks_set (c : color) (b : N) : N := union_over (pawn_attacks c) b.
Definition pawn_push1_set (c : color) (b : N) : N := union_over (pawn_push1 c) b.

(* alignment and the squares strictly between two squares *)
Definition sgn (x : Z) : Z := (if x <? 0 then -1 else if 0 <? x then 1 else 0)%Z.
Definition aligned (a b : N) : bool :=
  let df := (file_of b - file_of a)%Z in let dr := (rank_of b - rank_of a)%Z in
  ((df =? 0) || (dr =? 0) || (Z.abs df =? Z.abs dr))%Z.
Fixpoint take_until (l : list N) (b : N) : list N :=
  match l with [] => [] | s :: r => if (s =? b)%N then [] else s :: take_until r b end.
(* squares strictly between a and b when they are on one line (rank, file or diagonal), else none *)
Definition between (a b : N) : list N :=
  if aligned a b && negb (a =? b)%N then
    take_until (ray a (sgn (file_of b - file_of a), sgn (rank_of b - rank_of a))) b
  else [].
Definition set_of (l : list N) : N := fold_right (fun s acc => N.lor (bit s) acc) 0%N l.
Definition between_bb (a b : N) : N := set_of (between a b).
