(* What property C17 talks about, independent of the evaluation model: the mirror image of a board
   (ranks flipped, colours and side to move swapped, castling rights and en-passant target mirrored),
   "differs only in non-positional state", and the judge of stream c17. *)
From Coq Require Import NArith ZArith List Bool.
From Chess3 Require Import Base.Bits Model.Types Model.BoardDef.
Import ListNotations.
Open Scope N_scope.

(* rank mirror of a square set: square i of the result is square (i xor 56) of x *)
Definition flipV (x : N) : N :=
  fold_right (fun i acc => if N.testbit x (N.lxor i 56) then N.lor (bit i) acc else acc) 0 squares64.

Definition mirror_castles (c : N) : N := bor (shr c 2) (shl (band c 3) 2).
Definition mirror_ep (e : N) : N := if e =? 0 then 0 else N.lxor e 56.

Definition mirror (b : board) : board :=
  mkBoard (map (fun s => nthN (sq2p b) (N.lxor s 56) 0) squares64)
          (map flipV (pcs b))
          [flipV (colors b Black); flipV (colors b White)]
          (hashes b) (full b) (flip (stm b))
          (mirror_ep (ep b)) (mirror_castles (castles b)) (fifty b).

(* the attributes the evaluation may depend on: the placement (all three encodings), side to move
   and the halfmove clock *)
Definition same_eval_inputs (b b' : board) : Prop :=
  sq2p b = sq2p b' /\ pcs b = pcs b' /\ cols b = cols b' /\ stm b = stm b' /\ fifty b = fifty b'.

(* ---- boolean versions for the judge ---- *)
Definition listN_eqb (l l' : list N) : bool :=
  (length l =? length l')%nat && forallb (fun p => fst p =? snd p) (combine l l').
Definition same_eval_inputsb (b b' : board) : bool :=
  listN_eqb (sq2p b) (sq2p b') && listN_eqb (pcs b) (pcs b') && listN_eqb (cols b) (cols b') &&
  color_eqb (stm b) (stm b') && (fifty b =? fifty b')%Z.
(* b' is the mirror image of b, every attribute except hash history and fullmove number *)
Definition is_mirrorb (b b' : board) : bool :=
  let m := mirror b in
  listN_eqb (sq2p m) (sq2p b') && listN_eqb (pcs m) (pcs b') && listN_eqb (cols m) (cols b') &&
  color_eqb (stm m) (stm b') && (fifty m =? fifty b')%Z && (ep m =? ep b') && (castles m =? castles b').

(* the part of "valid position" the judge re-checks: one king per side, no pawn on ranks 1/8 *)
Definition plausible (b : board) : bool :=
  (popcount (band (pieces b King) (colors b White)) =? 1) &&
  (popcount (band (pieces b King) (colors b Black)) =? 1) &&
  (band (pieces b Pawn) (bor (rank_bb 0) (rank_bb 7)) =? 0).

Fixpoint decode_boards (fuel : nat) (l : list Z) : list board * list Z :=
  match fuel with
  | O => ([], l)
  | S k => match decode_board l with
           | Some (b, rest) => let r := decode_boards k rest in (b :: fst r, snd r)
           | None => ([], l)
           end
  end.

(* judge_c17 (input ++ observed):  input = [n] ++ n board-in records
     board 0 = a previous evaluation (any position; not judged), board 1 = the position,
     board 2 = its mirror image, boards 3.. = variants of board 1 that differ only in
     non-positional state;  observed = the n evaluations.
   [1] ok / outside the domain;  [0; 1] mirror differs;  [0; 2 + k] variant k differs;
   [0; -1] the implementation did not return n values (it panicked: recorded as -1 -1 -1);
   [0; -2] the case is not of the announced shape (harness error). *)
Open Scope Z_scope.
Fixpoint all_equal_from (e0 : Z) (k : Z) (es : list Z) : list Z :=
  match es with
  | [] => [1]
  | e :: es' => if e =? e0 then all_equal_from e0 (k + 1) es' else [0; 2 + k]
  end.

Definition judge_c17 (l : list Z) : list Z :=
  match l with
  | n :: rest =>
      let r := decode_boards (Z.to_nat n) rest in
      if negb (length (fst r) =? Z.to_nat n)%nat then [0; -2] else
      if negb (length (snd r) =? Z.to_nat n)%nat then
        (match fst r with _ :: b0 :: _ => if plausible b0 then [0; -1] else [1] | _ => [0; -2] end) else
      match fst r, snd r with
      | _ :: b0 :: b1 :: vs, _ :: e0 :: e1 :: evs =>
          if negb (is_mirrorb b0 b1) then [0; -2] else
          if negb (forallb (same_eval_inputsb b0) vs) then [0; -2] else
          if negb (plausible b0) then [1] else
          if negb (e0 =? e1) then [0; 1] else
          all_equal_from e0 0 evs
      | _, _ => [0; -2]
      end
  | [] => [0; -2]
  end.

(* ------------------------------------------------------------------------------------------ *)
(* the fragment of the representation invariant / of `valid` that the mirror theorem needs:
   64-bit words, exactly one king per side, every knight and bishop belongs to a colour *)
Open Scope N_scope.
Definition eval_dom (b : board) : Prop :=
  Forall (fun x => x < two64) (pcs b) /\ Forall (fun x => x < two64) (cols b) /\
  N.ldiff (pieces b Knight) (occupancy b) = 0 /\ N.ldiff (pieces b Bishop) (occupancy b) = 0 /\
  is_pow2 (band (pieces b King) (colors b White)) = true /\
  is_pow2 (band (pieces b King) (colors b Black)) = true.

Definition eval_domb (b : board) : bool :=
  forallb (fun x => x <? two64) (pcs b) && forallb (fun x => x <? two64) (cols b) &&
  (N.ldiff (pieces b Knight) (occupancy b) =? 0) && (N.ldiff (pieces b Bishop) (occupancy b) =? 0) &&
  is_pow2 (band (pieces b King) (colors b White)) && is_pow2 (band (pieces b King) (colors b Black)).

(* ------------------------------------------------------------------------------------------ *)
(* judges of the usage-pattern streams (independent of the evaluation model) *)
Open Scope Z_scope.

(* judge_c17s (input ++ observed): input = board-in ++ [n; op_1 .. op_n]; observed = for every Eval
   operation (code 262144) the value on the long-lived session board and the value on a fresh
   board of the same position.  [1] all pairs agree;  [0; k] the k-th evaluation (from 0) of the
   session differs from the fresh board;  [0; -1] wrong number of values (panic);  [0; -2] malformed. *)
Fixpoint pairs_agree (k : Z) (l : list Z) : list Z :=
  match l with
  | a :: b :: rest => if a =? b then pairs_agree (k + 1) rest else [0; k]
  | _ => [1]
  end.

Definition judge_c17s (l : list Z) : list Z :=
  match decode_board l with
  | Some (_, n :: rest) =>
      let ops := firstn (Z.to_nat n) rest in
      let obs := skipn (Z.to_nat n) rest in
      let k := length (filter (fun o => o =? 262144) ops) in
      if negb (length ops =? Z.to_nat n)%nat then [0; -2] else
      if negb (length obs =? 2 * k)%nat then [0; -1] else pairs_agree 0 obs
  | _ => [0; -2]
  end.

(* judge_c17c (input ++ observed): input = [goroutines; rounds; nb] ++ nb board-in records;
   observed = [mismatches; first differing board; sequential value; concurrent value] ++ nb values.
   The comparison concurrent = sequential is made by the harness (an observation of runtime
   behaviour); the judge reads its verdict.  [1] no mismatch;  [0; i] board i differed;  [0; -1] panic. *)
Definition judge_c17c (l : list Z) : list Z :=
  match l with
  | _ :: _ :: nb :: rest =>
      let r := decode_boards (Z.to_nat nb) rest in
      if negb (length (fst r) =? Z.to_nat nb)%nat then [0; -2] else
      match snd r with
      | mism :: idx :: _ :: _ :: vals =>
          if negb (length vals =? Z.to_nat nb)%nat then [0; -1] else
          if mism =? 0 then [1] else [0; idx]
      | _ => [0; -1]
      end
  | _ => [0; -2]
  end.
