package posgen

// Position sources for property C09 (mate / stalemate tests), DESIGN.md section 4.4 G3 and the
// constructed and themed positions of the C09 entry:
//
//	G3  small material, indexed by an integer: every placement of KQK, KRK, KPK, KBNK, KQKR, KRKP,
//	    KPKP (and the colour-swapped classes), both sides to move, every consistent en-passant state
//	G6  hand-constructed hard cases (smothered / back-rank mates, interposition by a pinned piece,
//	    checking pawn capturable en passant, block only by a double push, x-ray through the king,
//	    stalemates with pinned men, stalemate broken only by en passant ...), their colour mirrors
//	    and single-piece mutations
//	G7  themed random positions: king near the edge, own men around it, enemy sliders aimed at it,
//	    double-pushed pawns next to capturers; biased towards positions with at most two legal moves

import (
	"strings"

	"github.com/paulsonkoly/chess-3/board"
	. "github.com/paulsonkoly/chess-3/chess"
	"github.com/paulsonkoly/chess-3/move"
	"github.com/paulsonkoly/chess-3/movegen"

	"verifharness/hx"
)

// PC is a coloured piece.
type PC struct {
	C Color
	P Piece
}

// Class is a small-material class; the first two pieces are the kings.
type Class struct {
	Name   string
	Pieces []PC
}

// Classes are the classes of DESIGN.md G3.
var Classes = []Class{
	{"KQK", []PC{{White, King}, {Black, King}, {White, Queen}}},
	{"KRK", []PC{{White, King}, {Black, King}, {White, Rook}}},
	{"KPK", []PC{{White, King}, {Black, King}, {White, Pawn}}},
	{"KBNK", []PC{{White, King}, {Black, King}, {White, Bishop}, {White, Knight}}},
	{"KQKR", []PC{{White, King}, {Black, King}, {White, Queen}, {Black, Rook}}},
	{"KRKP", []PC{{White, King}, {Black, King}, {White, Rook}, {Black, Pawn}}},
	{"KPKP", []PC{{White, King}, {Black, King}, {White, Pawn}, {Black, Pawn}}},
}

// pawns returns the number of pawns of the class.
func (c Class) pawns() int {
	n := 0
	for _, p := range c.Pieces {
		if p.P == Pawn {
			n++
		}
	}
	return n
}

// Size is the number of indices of the class:
// 64^pieces (squares) * 2 (side to move) * 2 (colours swapped) * (1 + pawns) (en-passant state).
func (c Class) Size() uint64 {
	n := uint64(4 * (1 + c.pawns()))
	for range c.Pieces {
		n *= 64
	}
	return n
}

// At decodes index idx of the class. It returns nil when the index does not describe a position of
// the property's domain: two pieces on one square, a pawn on rank 1/8, an en-passant state that is
// not consistent, a position that is not Valid, or an en-passant target without a legal en-passant
// capture (the engine never records such a target).
// Index layout (least significant first): square of piece 0, 1, ..; side to move; colour swap;
// en-passant state (0 = none, k = the k-th pawn of the class has just made a double step).
func (c Class) At(idx uint64) *board.Board {
	var s board.VerifSnap
	occ := BitBoard(0)
	var sqs [8]Square
	for i := range c.Pieces {
		sqs[i] = Square(idx % 64)
		idx /= 64
		if occ&(1<<sqs[i]) != 0 {
			return nil
		}
		occ |= 1 << sqs[i]
	}
	stm := Color(idx % 2)
	idx /= 2
	swap := idx%2 == 1
	idx /= 2
	eps := int(idx)
	pawnNo := 0
	for i, pc := range c.Pieces {
		col := pc.C
		if swap {
			col = col.Flip()
		}
		sq := sqs[i]
		if pc.P == Pawn {
			if sq < 8 || sq >= 56 {
				return nil
			}
			pawnNo++
			if eps == pawnNo {
				// this pawn has just made a double step: it belongs to the side not to move and
				// stands on its fourth rank, the two squares behind it are empty
				if col == stm {
					return nil
				}
				if col == White {
					if sq.Rank() != FourthRank {
						return nil
					}
					s.EnPassant = sq - 8
				} else {
					if sq.Rank() != FifthRank {
						return nil
					}
					s.EnPassant = sq + 8
				}
			}
		}
		s.SquaresToPiece[sq] = pc.P
		s.Pieces[pc.P] |= 1 << sq
		s.Colors[col] |= 1 << sq
	}
	s.STM = stm
	s.FullMoves = 1
	b := board.VerifRestore(s)
	b.ResetHash()
	if !Valid(b) || !NormalEP(b) {
		return nil
	}
	return b
}

// NormalEP says whether the en-passant state of b is the engine's normal form: no target, or a
// target on which a legal en-passant capture exists.
func NormalEP(b *board.Board) bool {
	if b.EnPassant == 0 {
		return true
	}
	for _, m := range Legal(b) {
		if b.IsEnPassant(m) {
			return true
		}
	}
	return false
}

// Counter counts playable moves with a reusable move store.
type Counter struct{ ms *move.Store }

func NewCounter() *Counter { return &Counter{ms: move.NewStore()} }

// Count returns the number of playable moves of b, stopping at limit (limit <= 0: no limit).
func (c *Counter) Count(b *board.Board, limit int) int {
	c.ms.Clear()
	c.ms.Push()
	movegen.GenNoisy(c.ms, b)
	movegen.GenNotNoisy(c.ms, b)
	me := b.STM
	n := 0
	for _, wm := range c.ms.Frame() {
		m := wm.Move
		r := b.MakeMove(m)
		if !b.InCheck(me) {
			n++
		}
		b.UndoMove(m, r)
		if limit > 0 && n >= limit {
			break
		}
	}
	c.ms.Pop()
	return n
}

// SmallTotal is the number of indices over all classes.
func SmallTotal() uint64 {
	var t uint64
	for _, c := range Classes {
		t += c.Size()
	}
	return t
}

// SmallAt maps a global index (0 <= idx < SmallTotal()) to its class and position.
func SmallAt(idx uint64) (Class, uint64, *board.Board) {
	for _, c := range Classes {
		if idx < c.Size() {
			return c, idx, c.At(idx)
		}
		idx -= c.Size()
	}
	return Class{}, 0, nil
}

// ------------------------------------------------------------------------------------------------
// constructed positions

// Constructed are the hand-made hard cases of property C09 (side to move as written; the colour
// mirror of each is added by ConstructedAll). Some are deliberately outside the domain.
var Constructed = []string{
	// smothered mate, and the same with a defender that can take the knight
	"6rk/5Npp/8/8/8/8/8/K7 b - - 0 1",
	"5rrk/5Npp/8/8/8/8/8/K7 b - - 0 1",
	"r5rk/5Npp/8/8/8/8/8/K7 b - - 0 1",
	// back-rank mate; interposition possible; interposition only by a pinned queen (not allowed); by a free queen
	"R5k1/5ppp/8/8/8/8/8/4K3 b - - 0 1",
	"R5k1/5ppp/8/8/8/8/3r4/4K3 b - - 0 1",
	"R5k1/5pqp/8/8/8/8/8/4K1R1 b - - 0 1",
	"R5k1/5pqp/8/8/8/8/8/4K3 b - - 0 1",
	"R5k1/5pbp/8/8/8/8/8/4K1R1 b - - 0 1",
	"R5k1/5pnp/8/8/8/8/8/4K1R1 b - - 0 1",
	"R5k1/5pnp/8/8/8/8/8/4K3 b - - 0 1",
	// the checker can be taken only by a pinned defender / by a free defender / defender pinned along the capture line
	"4r1k1/8/8/8/8/8/4R3/r3K3 w - - 0 1",
	"6k1/8/8/8/8/8/3R4/r3K3 w - - 0 1",
	"4k3/8/8/8/8/8/r2RK3/8 w - - 0 1",
	"4k3/4r3/8/8/8/8/4R3/r3K3 w - - 0 1",
	"3qk3/8/8/8/8/8/3B4/r3K3 w - - 0 1",
	// check by a pawn that can be captured en passant (the only move), the same without the flag (mate),
	// and with the capturer pinned (outside the domain: the engine does not record that target)
	"7k/8/p7/Ppp5/K7/7r/8/8 w - b6 0 1",
	"7k/8/p7/Ppp5/K7/7r/8/8 w - - 0 1",
	"7k/8/8/4pP2/3K4/8/8/8 w - e6 0 1",
	"8/8/8/8/3Pp3/5k2/8/7K b - d3 0 1",
	"7k/8/p7/1ppP4/K7/7r/8/8 w - c6 0 1",
	"q6k/8/p7/Ppp5/K7/7r/8/8 w - b6 0 1",
	// a check that can be blocked only by a double pawn push; jumping over a man is not allowed;
	// single push; the occNoPawn example of the source
	"7k/8/8/6r1/K6r/6r1/4P3/8 w - - 0 1",
	"7k/8/8/6r1/K6r/4p1r1/4P3/8 w - - 0 1",
	"7k/8/8/6r1/K6r/4n1r1/4P3/8 w - - 0 1",
	"7k/8/8/6r1/K6r/4P1r1/8/8 w - - 0 1",
	"7k/8/8/6r1/K6r/4P1r1/4P3/8 w - - 0 1",
	"6k1/8/8/1b6/3PP3/r1PKP3/2PRB3/8 w - - 0 1",
	"7k/8/8/6r1/K3P2r/6r1/4P3/8 w - - 0 1",
	"7k/6b1/8/6r1/K6r/6r1/4P3/7K w - - 0 1",
	"k7/4p3/1R6/R6K/1R6/8/8/8 b - - 0 1",
	"k7/4p3/1R2n3/R6K/1R6/8/8/8 b - - 0 1",
	// double-push block by a pawn that is pinned
	"4r2k/8/8/6r1/K6r/6r1/4P3/4K3 w - - 0 1",
	"7k/8/8/6r1/1K5r/6r1/4P3/5b2 w - - 0 1",
	// flight squares covered through the king (x-ray)
	"4k3/8/8/8/8/8/7r/r3K3 w - - 0 1",
	"4k3/8/8/8/8/8/7r/r2K4 w - - 0 1",
	"7k/8/8/8/3b4/8/8/K6r w - - 0 1",
	"k7/8/8/8/8/2b5/8/K6r w - - 0 1",
	"7k/8/8/8/8/5b2/r7/7K w - - 0 1",
	// double check: only king moves count, although one checker could be taken
	"4k3/4r3/8/8/2b5/1b3np1/6P1/4K3 w - - 0 1",
	"4k3/4r3/8/8/8/5n2/6P1/4K3 w - - 0 1",
	"4k3/8/8/8/7b/8/3n4/R3K3 w - - 0 1",
	// stalemates and near-stalemates with pinned men
	"rr5k/8/8/8/8/8/R7/K7 w - - 0 1",
	"rr5k/8/8/8/8/8/B7/K7 w - - 0 1",
	"rr5k/8/8/8/8/8/N7/K7 w - - 0 1",
	"rr5k/8/8/8/8/8/P7/K7 w - - 0 1",
	"rr5k/8/8/8/8/p7/P7/K7 w - - 0 1",
	"rr5k/8/8/8/8/1p6/P7/K7 w - - 0 1",
	"7k/8/8/8/3b4/8/1B6/K7 w - - 0 1",
	"7k/7b/4b3/8/3b4/8/1P6/K7 w - - 0 1",
	"7k/7b/4b3/8/8/2b5/1P6/K7 w - - 0 1",
	"7k/7b/4b3/8/3b4/p7/1P6/K7 w - - 0 1",
	"7k/7b/4b3/8/3q4/8/1R6/K7 w - - 0 1",
	"7k/7b/4b3/8/3q4/8/1N6/K7 w - - 0 1",
	"7k/7b/4b3/8/3q4/8/1Q6/K7 w - - 0 1",
	"7k/8/8/8/8/8/KP5r/8 w - - 0 1",
	"5k2/5P2/5K2/8/8/8/8/8 b - - 0 1",
	"7k/5Q2/6K1/8/8/8/8/8 b - - 0 1",
	"k7/P7/K7/8/8/8/8/8 b - - 0 1",
	// stalemate broken only by an en-passant capture; the same without the flag; with the capture illegal
	"7k/8/4p3/3pP3/8/6q1/8/7K w - d6 0 1",
	"7k/8/4p3/3pP3/8/6q1/8/7K w - - 0 1",
	"7k/8/4p3/2KpP2r/8/8/8/8 w - - 0 1",
	"8/8/8/8/k2pP2R/8/8/4K3 b - e3 0 1",
	"8/8/8/8/k2pP2R/8/8/4K3 b - - 0 1",
	"4k3/8/8/8/3pP3/8/6Q1/b3K2q b - e3 0 1",
	"7k/4b3/8/2pP4/8/K7/8/1r6 w - c6 0 1",
	// pawn captures towards the a/h file (wrap-around of the shifts)
	"7k/8/8/8/8/p6p/P6P/K7 w - - 0 1",
	"k7/p6p/P6P/8/8/8/8/7K b - - 0 1",
	"6bk/7p/7P/8/8/p7/P7/K7 w - - 0 1",
	"7k/8/8/8/8/p7/Pr5p/K7 w - - 0 1",
	"7k/8/8/8/p7/Pp5P/1P6/K6r w - - 0 1",
	"7k/8/8/8/p7/P6p/2q4P/K7 w - - 0 1",
	"7k/8/8/8/p7/P2n3p/1r6/3K4 w - - 0 1",
	"k7/8/8/p7/7p/4n2P/6r1/4K3 w - - 0 1",
	"7k/8/8/8/p6p/P6P/2q5/K7 w - - 0 1",
	// the only legal move is an en-passant capture whose landing square closes a king-slider line
	// (capture along a diagonal pin; king and rook/queen on the pushed pawn's file), and two capturers
	// of which the one on the lower square is pinned
	"6b1/8/8/3Pp3/8/2q5/K7/2k5 w - e6 0 1",
	"2b5/8/8/4pPk1/8/7K/8/6q1 w - e6 0 1",
	"4r3/8/3p4/3Pp3/8/8/2q3k1/4K3 w - e6 0 1",
	"4q3/8/5p2/4pP2/8/8/2q3k1/4K3 w - e6 0 1",
	"bk6/8/5p2/3PpP2/8/6q1/8/7K w - e6 0 1",
	// outside `valid`: the check passes through the en-passant square (DESIGN.md 4.3)
	"8/4q3/1K3q2/1Pp5/k7/8/8/b7 w - c6 0 1",
}

// MirrorFEN swaps the colours and mirrors the ranks of a FEN.
func MirrorFEN(fen string) string {
	f := strings.Fields(fen)
	if len(f) < 6 {
		return fen
	}
	rows := strings.Split(f[0], "/")
	for i, j := 0, len(rows)-1; i < j; i, j = i+1, j-1 {
		rows[i], rows[j] = rows[j], rows[i]
	}
	swapCase := func(s string) string {
		bs := []byte(s)
		for i, c := range bs {
			switch {
			case c >= 'a' && c <= 'z':
				bs[i] = c - 32
			case c >= 'A' && c <= 'Z':
				bs[i] = c + 32
			}
		}
		return string(bs)
	}
	f[0] = swapCase(strings.Join(rows, "/"))
	if f[1] == "w" {
		f[1] = "b"
	} else {
		f[1] = "w"
	}
	if f[2] != "-" {
		var w, bl string
		for _, c := range f[2] {
			if c >= 'a' {
				w += string(c - 32)
			} else {
				bl += string(c + 32)
			}
		}
		f[2] = w + bl
	}
	if f[3] != "-" {
		f[3] = string([]byte{f[3][0], '1' + ('8' - f[3][1])})
	}
	return strings.Join(f, " ")
}

// ConstructedAll returns the constructed positions and their colour mirrors that parse
// (validity is not filtered here: the judge decides about the domain).
func ConstructedAll() []Pos {
	var out []Pos
	for _, fen := range Constructed {
		for _, f := range []string{fen, MirrorFEN(fen)} {
			if b, err := board.FromFEN(f); err == nil {
				out = append(out, Pos{B: b, Root: f, Kind: "G6"})
			}
		}
	}
	return out
}

// ------------------------------------------------------------------------------------------------
// themed random positions

func kingZone(k int) []int {
	var z []int
	kf, kr := k%8, k/8
	for df := -1; df <= 1; df++ {
		for dr := -1; dr <= 1; dr++ {
			f, r := kf+df, kr+dr
			if (df != 0 || dr != 0) && f >= 0 && f < 8 && r >= 0 && r < 8 {
				z = append(z, r*8+f)
			}
		}
	}
	return z
}

// Themed returns a random position built around the side to move's king (G7), or nil.
func Themed(rng *hx.Rng) *Pos {
	var sq [64]byte
	stm := Color(rng.Intn(2))
	own := func(c byte) byte { // piece letter of the side to move
		if stm == White {
			return c - 32
		}
		return c
	}
	opp := func(c byte) byte {
		if stm == White {
			return c
		}
		return c - 32
	}
	put := func(s int, c byte) bool {
		if s < 0 || s > 63 || sq[s] != 0 {
			return false
		}
		if (c == 'p' || c == 'P') && (s < 8 || s >= 56) {
			return false
		}
		sq[s] = c
		return true
	}
	// own king: edge / corner biased
	k := rng.Intn(64)
	switch rng.Intn(4) {
	case 0:
		k = []int{0, 7, 56, 63, 1, 6, 57, 62, 8, 15, 48, 55}[rng.Intn(12)]
	case 1:
		if rng.Bool() {
			k = rng.Intn(8) + 56*rng.Intn(2)
		} else {
			k = 8*rng.Intn(8) + 7*rng.Intn(2)
		}
	}
	put(k, own('k'))
	for try := 0; try < 50; try++ {
		s := rng.Intn(64)
		df, dr := s%8-k%8, s/8-k/8
		if df*df <= 1 && dr*dr <= 1 {
			continue
		}
		put(s, opp('k'))
		break
	}
	zone := kingZone(k)
	// own men next to the king
	for _, s := range zone {
		if rng.Chance(0.35) {
			put(s, own("pppnbrq"[rng.Intn(7)]))
		}
	}
	// enemy sliders / knights aimed at the king or its zone
	n := 1 + rng.Intn(4)
	for i := 0; i < n; i++ {
		target := k
		if rng.Chance(0.6) && len(zone) > 0 {
			target = zone[rng.Intn(len(zone))]
		}
		pc := "qrrbbnp"[rng.Intn(7)]
		tf, tr := target%8, target/8
		for try := 0; try < 10; try++ {
			var f, r int
			d := 1 + rng.Intn(7)
			switch pc {
			case 'r':
				if rng.Bool() {
					f, r = tf, tr+d*(1-2*rng.Intn(2))
				} else {
					f, r = tf+d*(1-2*rng.Intn(2)), tr
				}
			case 'b':
				f, r = tf+d*(1-2*rng.Intn(2)), tr+d*(1-2*rng.Intn(2))
			case 'q':
				if rng.Bool() {
					f, r = tf+d*(1-2*rng.Intn(2)), tr+d*(1-2*rng.Intn(2))
				} else if rng.Bool() {
					f, r = tf, tr+d*(1-2*rng.Intn(2))
				} else {
					f, r = tf+d*(1-2*rng.Intn(2)), tr
				}
			case 'n':
				o := [][2]int{{1, 2}, {2, 1}, {2, -1}, {1, -2}, {-1, -2}, {-2, -1}, {-2, 1}, {-1, 2}}[rng.Intn(8)]
				f, r = tf+o[0], tr+o[1]
			default:
				// an enemy pawn attacking the target
				dr := 1
				if stm == Black {
					dr = -1 // white pawns attack upwards: they stand below the target
				}
				f, r = tf+1-2*rng.Intn(2), tr+dr
			}
			if f < 0 || f > 7 || r < 0 || r > 7 {
				continue
			}
			if put(r*8+f, opp(pc)) {
				break
			}
		}
	}
	// random extras
	n = rng.Intn(6)
	for i := 0; i < n; i++ {
		c := "ppnbrq"[rng.Intn(6)]
		if rng.Bool() {
			c -= 32
		}
		put(rng.Intn(64), c)
	}
	ep := "-"
	if rng.Chance(0.35) {
		f := rng.Intn(8)
		var pawnSq, epSq, origin int
		if stm == White {
			pawnSq, epSq, origin = 32+f, 40+f, 48+f
		} else {
			pawnSq, epSq, origin = 24+f, 16+f, 8+f
		}
		if rng.Chance(0.5) {
			// a pawn that checks the king or stands next to it
			kf := k % 8
			f = kf + 1 - 2*rng.Intn(2)
			if f >= 0 && f < 8 {
				if stm == White {
					pawnSq, epSq, origin = 32+f, 40+f, 48+f
				} else {
					pawnSq, epSq, origin = 24+f, 16+f, 8+f
				}
			} else {
				f = pawnSq % 8
			}
		}
		pc := opp('p')
		if sq[epSq] == 0 && sq[origin] == 0 && (sq[pawnSq] == 0 || sq[pawnSq] == pc) {
			sq[pawnSq] = pc
			for _, g := range []int{f - 1, f + 1} {
				if g >= 0 && g < 8 && rng.Chance(0.7) && sq[pawnSq-f+g] == 0 {
					sq[pawnSq-f+g] = own('p')
				}
			}
			ep = string([]byte{byte('a' + f), byte('1' + epSq/8)})
		}
	}
	fen := fenOf(sq, stm, "-", ep, 0, 1)
	b, err := board.FromFEN(fen)
	if err != nil {
		return nil
	}
	if b.EnPassant != 0 && (!Valid(b) || !NormalEP(b)) {
		// what the engine would have recorded: no target
		fen = fenOf(sq, stm, "-", "-", 0, 1)
		b, err = board.FromFEN(fen)
		if err != nil {
			return nil
		}
	}
	if !Valid(b) {
		return nil
	}
	return &Pos{B: b, Root: fen, Kind: "G7"}
}

// HasPinned says whether the side to move has a man that stands alone between its king and an
// enemy slider.
func HasPinned(b *board.Board) bool {
	me, them := b.Colors[b.STM], b.Colors[b.STM.Flip()]
	king := b.Pieces[King] & me
	if king == 0 {
		return false
	}
	k := int(king.LowestSet())
	dirs := [][2]int{{0, 1}, {0, -1}, {1, 0}, {-1, 0}, {1, 1}, {1, -1}, {-1, 1}, {-1, -1}}
	for i, d := range dirs {
		f, r := k%8+d[0], k/8+d[1]
		seenOwn := false
		for f >= 0 && f < 8 && r >= 0 && r < 8 {
			s := BitBoard(1) << uint(r*8+f)
			if me&s != 0 {
				if seenOwn {
					break
				}
				seenOwn = true
			} else if them&s != 0 {
				sl := b.Pieces[Queen]
				if i < 4 {
					sl |= b.Pieces[Rook]
				} else {
					sl |= b.Pieces[Bishop]
				}
				if seenOwn && sl&s != 0 {
					return true
				}
				break
			}
			f, r = f+d[0], r+d[1]
		}
	}
	return false
}
