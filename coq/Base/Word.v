(* Fixed-width integer views used by the models: Go's intN / uintN arithmetic on Z. *)
From Coq Require Import ZArith Lia.
Open Scope Z_scope.

(* signed wrap-around, as Go's conversion to / arithmetic in intN *)
Definition wrap64 (x : Z) : Z := (x + 9223372036854775808) mod 18446744073709551616 - 9223372036854775808.
Definition wrap32 (x : Z) : Z := (x + 2147483648) mod 4294967296 - 2147483648.
Definition wrap16 (x : Z) : Z := (x + 32768) mod 65536 - 32768.
Definition wrap8  (x : Z) : Z := (x + 128) mod 256 - 128.

(* unsigned truncation *)
Definition trunc64 (x : Z) : Z := x mod 18446744073709551616.
Definition trunc32 (x : Z) : Z := x mod 4294967296.
Definition trunc16 (x : Z) : Z := x mod 65536.
Definition trunc8  (x : Z) : Z := x mod 256.

(* chess.Clamp: min(b, max(x, a)) *)
Definition clamp (x a b : Z) : Z := Z.min b (Z.max x a).

Lemma wrap64_id x : -9223372036854775808 <= x < 9223372036854775808 -> wrap64 x = x.
Proof. intros H. unfold wrap64. rewrite Z.mod_small; lia. Qed.
Lemma wrap32_id x : -2147483648 <= x < 2147483648 -> wrap32 x = x.
Proof. intros H. unfold wrap32. rewrite Z.mod_small; lia. Qed.
Lemma wrap16_id x : -32768 <= x < 32768 -> wrap16 x = x.
Proof. intros H. unfold wrap16. rewrite Z.mod_small; lia. Qed.
Lemma wrap8_id x : -128 <= x < 128 -> wrap8 x = x.
Proof. intros H. unfold wrap8. rewrite Z.mod_small; lia. Qed.

Lemma wrap64_range x : -9223372036854775808 <= wrap64 x < 9223372036854775808.
Proof. unfold wrap64. pose proof (Z.mod_pos_bound (x + 9223372036854775808) 18446744073709551616 ltac:(lia)). lia. Qed.
Lemma wrap16_range x : -32768 <= wrap16 x < 32768.
Proof. unfold wrap16. pose proof (Z.mod_pos_bound (x + 32768) 65536 ltac:(lia)). lia. Qed.
Lemma wrap8_range x : -128 <= wrap8 x < 128.
Proof. unfold wrap8. pose proof (Z.mod_pos_bound (x + 128) 256 ltac:(lia)). lia. Qed.
