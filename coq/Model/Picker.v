(* Model of move/store.go (the stack-framed move store shared with the search) and of
   picker/picker.go (the staged move iterator). Definitions only; proofs in Proofs/PickerProofs.v.

   The picker is ABSTRACT over the position: what it learns from the board and the ranker is
     e_ipl    the answer of board.IsPseudoLegal(hashMove),
     e_noisy  the moves movegen.GenNoisy appends, each with the weight MoveRanker.RankNoisy gives it,
     e_quiet  the moves movegen.GenNotNoisy appends, each with the weight MoveRanker.RankQuiet gives it.
   A weighted move is a pair (move encoding, weight). *)
From Coq Require Import ZArith List Bool.
Import ListNotations.
From Chess3 Require Import Base.Word Gen.HeurConsts Model.Hist.
Open Scope Z_scope.

Definition wmove := (Z * Z)%type.

(* ---- move.Store ----
   s_data is data[0 .. allocIx) (what lies above allocIx is overwritten by Alloc before it is read);
   s_frames are the frame start indices, top first. *)
Record store := { s_data : list wmove; s_frames : list nat }.

Definition store_new : store := {| s_data := []; s_frames := [] |}.

(* Alloc: s.data[s.allocIx-1] panics (None) when the StoreSize moves are used up; Weight reset to 0 *)
Definition store_alloc (s : store) (m : Z) : option store :=
  if Z.of_nat (length (s_data s)) <? StoreSize
  then Some {| s_data := s_data s ++ [(m, 0)]; s_frames := s_frames s |}
  else None.

Definition store_push (s : store) : store :=
  {| s_data := s_data s; s_frames := length (s_data s) :: s_frames s |}.

Definition store_pop (s : store) : store :=
  match s_frames s with
  | [] => {| s_data := []; s_frames := [] |}
  | ix :: fs => {| s_data := firstn ix (s_data s); s_frames := fs |}
  end.

Definition frame_start (s : store) : nat := match s_frames s with [] => O | ix :: _ => ix end.

(* Frame(): s.data[start:allocIx] *)
Definition store_frame (s : store) : list wmove := skipn (frame_start s) (s_data s).

(* Writing through the slice returned by Frame(): the elements below the frame start cannot be
   reached by it. *)
Definition store_write_frame (s : store) (f : list wmove) : store :=
  {| s_data := firstn (frame_start s) (s_data s) ++ f; s_frames := s_frames s |}.

(* the generator: Alloc for every generated move, in order *)
Fixpoint store_alloc_all (s : store) (ms : list Z) : option store :=
  match ms with
  | [] => Some s
  | m :: rest => match store_alloc s m with Some s' => store_alloc_all s' rest | None => None end
  end.

(* ---- picker ---- *)
Inductive pstate := PickHash | GenNoisy | YieldGoodNoisy | GenQuiet | YieldRest.

Record env := { e_ipl : bool; e_noisy : list wmove; e_quiet : list wmove }.

Record picker := { p_store : store; p_ix : nat; p_hash : Z; p_state : pstate }.

(* picker.New (the caller pushes a frame before the first Next) *)
Definition picker_new (s : store) (hm : Z) : picker :=
  {| p_store := s; p_ix := O; p_hash := hm; p_state := PickHash |}.

(* for i := from; i < len(moves); i++ { if hashMove == moves[i].Move { Weight = -HashMove } else
   { Weight = Rank..(moves[i].Move) } } on the moves just generated, whose ranks are ws *)
Fixpoint assign_weights (hm : Z) (moves : list wmove) (ws : list Z) : list wmove :=
  match moves, ws with
  | (m, _) :: t, w :: wt => (m, if hm =? m then - HashMove else w) :: assign_weights hm t wt
  | l, _ => l
  end.

(* maxim := thr; best := -1; for i := ix; ... { if maxim < moves[i].Weight { maxim = ..; best = i } } *)
Fixpoint scan (l : list wmove) (i : nat) (maxim : Z) (best : option nat) : option nat :=
  match l with
  | [] => best
  | (_, w) :: t => if maxim <? w then scan t (S i) w (Some i) else scan t (S i) maxim best
  end.

Definition set_nth (l : list wmove) (i : nat) (v : wmove) : list wmove :=
  firstn i l ++ match skipn i l with [] => [] | _ :: t => v :: t end.

(* moves[i], moves[j] = moves[j], moves[i] *)
Definition swap (l : list wmove) (i j : nat) : list wmove :=
  let a := nth i l (0, 0) in
  let b := nth j l (0, 0) in
  set_nth (set_nth l i b) j a.

(* the selection step shared by yieldGoodNoisy and yieldRest *)
Definition select (p : picker) (thr : Z) : option picker :=
  let moves := store_frame (p_store p) in
  match scan (skipn (p_ix p) moves) (p_ix p) thr None with
  | Some best =>
      Some {| p_store := store_write_frame (p_store p) (swap moves (p_ix p) best);
              p_ix := S (p_ix p); p_hash := p_hash p; p_state := p_state p |}
  | None => None
  end.

Definition set_state (p : picker) (st : pstate) : picker :=
  {| p_store := p_store p; p_ix := p_ix p; p_hash := p_hash p; p_state := st |}.

(* result of Next: None = Go panic (store exhausted); Some (b, p) = returned b, new state p *)
Definition yield_rest (p : picker) : option (bool * picker) :=
  match select p (- HashMove + 1) with
  | Some p' => Some (true, p')
  | None => Some (false, p)
  end.

Definition gen_quiet (e : env) (p : picker) : option (bool * picker) :=
  let p := set_state p YieldRest in
  let quiet_start := length (store_frame (p_store p)) in
  match store_alloc_all (p_store p) (map fst (e_quiet e)) with
  | None => None
  | Some s =>
      let moves := store_frame s in
      let moves' := firstn quiet_start moves ++ assign_weights (p_hash p) (skipn quiet_start moves) (map snd (e_quiet e)) in
      yield_rest {| p_store := store_write_frame s moves'; p_ix := p_ix p; p_hash := p_hash p; p_state := p_state p |}
  end.

Definition yield_good_noisy (e : env) (p : picker) : option (bool * picker) :=
  match select p 0 with
  | Some p' => Some (true, p')
  | None => gen_quiet e (set_state p GenQuiet)
  end.

Definition gen_noisy (e : env) (p : picker) : option (bool * picker) :=
  let p := set_state p YieldGoodNoisy in
  match store_alloc_all (p_store p) (map fst (e_noisy e)) with
  | None => None
  | Some s =>
      let moves := store_frame s in
      let moves' := firstn (p_ix p) moves ++ assign_weights (p_hash p) (skipn (p_ix p) moves) (map snd (e_noisy e)) in
      yield_good_noisy e {| p_store := store_write_frame s moves'; p_ix := p_ix p; p_hash := p_hash p; p_state := p_state p |}
  end.

Definition pick_hash (e : env) (p : picker) : option (bool * picker) :=
  let p := set_state p GenNoisy in
  if e_ipl e then
    match store_alloc (p_store p) (p_hash p) with
    | None => None
    | Some s =>
        (* m := Alloc(hashMove); m.Weight = HashMove: the new element is the last of the frame *)
        let moves := store_frame s in
        let moves' := set_nth moves (length moves - 1) (p_hash p, HashMove) in
        Some (true, {| p_store := store_write_frame s moves'; p_ix := S (p_ix p); p_hash := p_hash p; p_state := p_state p |})
    end
  else gen_noisy e p.

Definition next (e : env) (p : picker) : option (bool * picker) :=
  match p_state p with
  | PickHash => pick_hash e p
  | GenNoisy => gen_noisy e p
  | YieldGoodNoisy => yield_good_noisy e p
  | GenQuiet => gen_quiet e p
  | YieldRest => yield_rest p
  end.

(* Move(): &Frame()[ix-1] *)
Definition current (p : picker) : wmove := nth (p_ix p - 1) (store_frame (p_store p)) (0, 0).

(* for pck.Next() { yielded = append(yielded, *pck.Move()) } *)
Fixpoint drain_from (fuel : nat) (e : env) (p : picker) : option (list wmove * picker) :=
  match fuel with
  | O => Some ([], p)
  | S fuel' =>
    match next e p with
    | None => None
    | Some (false, p') => Some ([], p')
    | Some (true, p') =>
      match drain_from fuel' e p' with
      | None => None
      | Some (ys, q) => Some (current p' :: ys, q)
      end
    end
  end.

(* The search writes into the entry it was just handed before it calls Next again
   (search.go: w := pck.Move(); ... w.Weight = value  or  w.Weight = -Inf). poke is that write:
   the weight of Frame()[ix-1] is replaced. *)
Definition poke (p : picker) (v : option Z) : picker :=
  match v with
  | None => p
  | Some w =>
      let moves := store_frame (p_store p) in
      let i := (p_ix p - 1)%nat in
      {| p_store := store_write_frame (p_store p) (set_nth moves i (fst (nth i moves (0, 0)), w));
         p_ix := p_ix p; p_hash := p_hash p; p_state := p_state p |}
  end.

(* for pck.Next() { w := pck.Move(); yielded = append(yielded, *w); w.Weight = <poke> } *)
Fixpoint drain_poked (fuel : nat) (pokes : list (option Z)) (e : env) (p : picker) : option (list wmove * picker) :=
  match fuel with
  | O => Some ([], p)
  | S fuel' =>
    match next e p with
    | None => None
    | Some (false, p') => Some ([], p')
    | Some (true, p') =>
      match drain_poked fuel' (tl pokes) e (poke p' (hd None pokes)) with
      | None => None
      | Some (ys, q) => Some (current p' :: ys, q)
      end
    end
  end.

(* every true answer of Next advances ix, and ix never exceeds 1 + |noisy| + |quiet| *)
Definition drain_fuel (e : env) : nat := (2 + length (e_noisy e) + length (e_quiet e))%nat.

Definition drain (e : env) (p : picker) : option (list wmove) :=
  match drain_from (drain_fuel e) e p with Some (ys, _) => Some ys | None => None end.

(* ---- correspondence stream c16p ----
   in : base hm ipl nN {m w attacker victim}*nN nQ {m w}*nQ nP {flag v}*nP (then the position, ignored here)
        the k-th yielded entry's weight is overwritten with v when the k-th flag is not 0
   out: ipl nN {m w}*nN nQ {m w}*nQ intact allocAfterPop nY {m w}*nY,  or [-1;-1;-1] for a panic.
   The noisy weights of the output are recomputed with rank_noisy from (promo, attacker, victim)
   and the sign of the observed weight (the outcome of the exchange evaluation), which ties
   rank_noisy to the implementation. *)
Fixpoint take_noisy (n : nat) (l : list Z) : list (wmove * (Z * Z)) * list Z :=
  match n, l with
  | S n', m :: w :: a :: v :: rest => let (ps, tl) := take_noisy n' rest in (((m, w), (a, v)) :: ps, tl)
  | _, _ => ([], l)
  end.

Fixpoint dummy_moves (n : nat) (i : Z) : list wmove :=
  match n with O => [] | S n' => (i * 7 + 1, i) :: dummy_moves n' (i + 1) end.

(* base dummy moves in a lower frame: Alloc(i*7+1).Weight = i *)
Fixpoint alloc_dummies (s : store) (l : list wmove) : option store :=
  match l with
  | [] => Some s
  | (m, w) :: rest =>
    match store_alloc s m with
    | None => None
    | Some s' => alloc_dummies {| s_data := removelast (s_data s') ++ [(m, w)]; s_frames := s_frames s' |} rest
    end
  end.

Definition flatten_wmoves (l : list wmove) : list Z := flat_map (fun mw => [fst mw; snd mw]) l.

Definition wmove_eqb (a b : wmove) : bool := (fst a =? fst b) && (snd a =? snd b).
Fixpoint wmoves_eqb (a b : list wmove) : bool :=
  match a, b with
  | [], [] => true
  | x :: a', y :: b' => wmove_eqb x y && wmoves_eqb a' b'
  | _, _ => false
  end.

Definition run_c16p (input : list Z) : list Z :=
  match input with
  | base :: hm :: ipl :: nN :: rest =>
    let (noisy_av, rest1) := take_noisy (Z.to_nat nN) rest in
    match rest1 with
    | nQ :: rest2 =>
      let (quiet, rest3) := take_pairs (Z.to_nat nQ) rest2 in
      let pokes := match rest3 with
                   | nP :: rest4 => map (fun fv : Z * Z => if fst fv =? 0 then None else Some (snd fv))
                                        (fst (take_pairs (Z.to_nat nP) rest4))
                   | [] => []
                   end in
      let noisy := map (fun x => let '((m, w), (a, v)) := x in (m, rank_noisy (move_promo m) a v (0 <? w))) noisy_av in
      let e := {| e_ipl := negb (ipl =? 0); e_noisy := noisy; e_quiet := quiet |} in
      let lower := dummy_moves (Z.to_nat base) 0 in
      match alloc_dummies (store_push store_new) lower with
      | None => panic_out
      | Some s0 =>
        let p := picker_new (store_push s0) hm in
        match drain_poked (drain_fuel e) pokes e p with
        | None => panic_out
        | Some (ys, q) =>
          let s1 := store_pop (p_store q) in
          [if e_ipl e then 1 else 0; Z.of_nat (length noisy)] ++ flatten_wmoves noisy
          ++ [Z.of_nat (length quiet)] ++ flatten_wmoves quiet
          ++ [if wmoves_eqb (store_frame s1) lower then 1 else 0; Z.of_nat (length (store_frame s1));
              Z.of_nat (length ys)] ++ flatten_wmoves ys
        end
      end
    | [] => []
    end
  | _ => []
  end.

(* ---- how the picker's environment arises from a MoveRanker (picker.go:74,117) ----
   What the board contributes to the ranks: for a noisy move the attacker, the victim and the
   outcome of the exchange evaluation; for a quiet move the moved piece; the side to move and the
   two top entries of the history stack. *)
Record noisy_attr := { na_move : Z; na_attacker : Z; na_victim : Z; na_see : bool }.
Record quiet_attr := { qa_move : Z; qa_moved : Z }.

Definition rank_noisy_attr (a : noisy_attr) : wmove :=
  (na_move a, rank_noisy (move_promo (na_move a)) (na_attacker a) (na_victim a) (na_see a)).

Fixpoint rank_quiet_attrs (r : ranker) (stm : Z) (top0 top1 : stack_top) (qs : list quiet_attr) : option (list wmove) :=
  match qs with
  | [] => Some []
  | q :: rest =>
    match rank_quiet r stm (qa_move q) (qa_moved q) top0 top1, rank_quiet_attrs r stm top0 top1 rest with
    | Some w, Some ws => Some ((qa_move q, w) :: ws)
    | _, _ => None          (* index out of range: Go panic *)
    end
  end.

Definition ranked_env (r : ranker) (stm : Z) (top0 top1 : stack_top) (ipl : bool)
    (noisy : list noisy_attr) (quiet : list quiet_attr) : option env :=
  match rank_quiet_attrs r stm top0 top1 quiet with
  | Some qs => Some {| e_ipl := ipl; e_noisy := map rank_noisy_attr noisy; e_quiet := qs |}
  | None => None
  end.
