(* Bit-level facts behind the transposition table: 16-bit lanes of a 64-bit word, correctness of
   match64 (the borrow trick), the lane splice of Insert, the Lemire bucket index. *)
From Coq Require Import ZArith Lia Bool List.
Import ListNotations.
From Chess3 Require Import Base.Word Gen.TTConsts Model.TT Spec.TTSpec.
Open Scope Z_scope.
Ltac Zify.zify_post_hook ::= Z.to_euclidean_division_equations.

(* the layout constants the hand-written model relies on; re-checked against the regenerated
   Gen/TTConsts.v on every run *)
Lemma layout_consts : bucketEntryCnt = 4 /\ partialKeyBits = 16 /\ bucketSize = 32 /\ Exact = 2.
Proof. repeat split; reflexivity. Qed.

Lemma mate_consts : MateHi = Inf - MaxPlies /\ MateLo = - Inf + MaxPlies /\ 0 < MateHi <= 32000 - 64 /\ MateLo = - MateHi.
Proof. cbv. repeat split; congruence. Qed.

(* ---------------------------------------------------------------------------------------- *)
(* lanes *)

Definition W64 : Z := 18446744073709551616.

Lemma lane0_eq w : lane 0 w = w mod 65536.
Proof. unfold lane. change (2 ^ (16 * 0)) with 1. now rewrite Z.div_1_r. Qed.
Lemma lane1_eq w : lane 1 w = (w / 65536) mod 65536.
Proof. reflexivity. Qed.
Lemma lane2_eq w : lane 2 w = (w / 4294967296) mod 65536.
Proof. reflexivity. Qed.
Lemma lane3_eq w : lane 3 w = (w / 281474976710656) mod 65536.
Proof. reflexivity. Qed.

Lemma lane_range i w : 0 <= lane i w < 65536.
Proof. unfold lane. apply Z.mod_pos_bound. lia. Qed.

Definition comb (x0 x1 x2 x3 : Z) : Z := x0 + 65536 * x1 + 4294967296 * x2 + 281474976710656 * x3.

Lemma word_decomp w : 0 <= w < W64 -> w = comb (lane 0 w) (lane 1 w) (lane 2 w) (lane 3 w).
Proof. intros H. rewrite lane0_eq, lane1_eq, lane2_eq, lane3_eq. unfold comb, W64 in *. lia. Qed.

Lemma lane_comb x0 x1 x2 x3 : 0 <= x0 < 65536 -> 0 <= x1 < 65536 -> 0 <= x2 < 65536 -> 0 <= x3 < 65536 ->
  lane 0 (comb x0 x1 x2 x3) = x0 /\ lane 1 (comb x0 x1 x2 x3) = x1 /\
  lane 2 (comb x0 x1 x2 x3) = x2 /\ lane 3 (comb x0 x1 x2 x3) = x3 /\ 0 <= comb x0 x1 x2 x3 < W64.
Proof. intros. rewrite lane0_eq, lane1_eq, lane2_eq, lane3_eq. unfold comb, W64. lia. Qed.

Lemma lane_alt i w : 0 <= i -> lane i w = Z.land (Z.shiftr w (16 * i)) (Z.ones 16).
Proof. intros Hi. unfold lane. rewrite Z.land_ones by lia. rewrite Z.shiftr_div_pow2 by lia. reflexivity. Qed.

Lemma land_lxor_distr a b c : Z.land (Z.lxor a b) c = Z.lxor (Z.land a c) (Z.land b c).
Proof.
  apply Z.bits_inj'. intros n Hn. rewrite Z.land_spec, !Z.lxor_spec, !Z.land_spec.
  destruct (Z.testbit a n), (Z.testbit b n), (Z.testbit c n); reflexivity.
Qed.
Lemma land_land_distr a b c : Z.land (Z.land a b) c = Z.land (Z.land a c) (Z.land b c).
Proof.
  apply Z.bits_inj'. intros n Hn. rewrite !Z.land_spec.
  destruct (Z.testbit a n), (Z.testbit b n), (Z.testbit c n); reflexivity.
Qed.

Lemma lane_lxor i a b : 0 <= i -> lane i (Z.lxor a b) = Z.lxor (lane i a) (lane i b).
Proof. intros Hi. rewrite !lane_alt by lia. rewrite Z.shiftr_lxor. apply land_lxor_distr. Qed.
Lemma lane_land i a b : 0 <= i -> lane i (Z.land a b) = Z.land (lane i a) (lane i b).
Proof. intros Hi. rewrite !lane_alt by lia. rewrite Z.shiftr_land. apply land_land_distr. Qed.
Lemma lane_lor i a b : 0 <= i -> lane i (Z.lor a b) = Z.lor (lane i a) (lane i b).
Proof. intros Hi. rewrite !lane_alt by lia. rewrite Z.shiftr_lor. apply Z.land_lor_distr_l. Qed.

(* ---------------------------------------------------------------------------------------- *)
(* 64-bit helpers *)

Lemma and64_mod x : and64 x = x mod W64.
Proof. unfold and64. change ones64 with (Z.ones 64). rewrite Z.land_ones by lia. reflexivity. Qed.
Lemma and64_id x : 0 <= x < W64 -> and64 x = x.
Proof. intros H. rewrite and64_mod. apply Z.mod_small. exact H. Qed.
Lemma and64_range x : 0 <= and64 x < W64.
Proof. rewrite and64_mod. apply Z.mod_pos_bound. reflexivity. Qed.

Lemma lt_pow2_log2 a n : 0 <= a -> 0 < n -> (a < 2 ^ n <-> Z.log2 a < n).
Proof.
  intros Ha Hn. destruct (Z.eq_dec a 0) as [->|Hz].
  - cbn. split; intros _; [lia | apply Z.pow_pos_nonneg; lia].
  - apply Z.log2_lt_pow2. lia.
Qed.

Lemma lxor_range a b : 0 <= a < W64 -> 0 <= b < W64 -> 0 <= Z.lxor a b < W64.
Proof.
  intros Ha Hb. split; [apply Z.lxor_nonneg; lia|].
  change W64 with (2 ^ 64) in *. apply lt_pow2_log2; [apply Z.lxor_nonneg; lia | lia |].
  eapply Z.le_lt_trans; [apply Z.log2_lxor; lia|].
  apply Z.max_lub_lt; apply lt_pow2_log2; lia.
Qed.
Lemma lor_range a b : 0 <= a < W64 -> 0 <= b < W64 -> 0 <= Z.lor a b < W64.
Proof.
  intros Ha Hb. split; [apply Z.lor_nonneg; lia|].
  change W64 with (2 ^ 64) in *. apply lt_pow2_log2; [apply Z.lor_nonneg; lia | lia |].
  rewrite Z.log2_lor by lia. apply Z.max_lub_lt; apply lt_pow2_log2; lia.
Qed.
Lemma land_range a b : 0 <= a < W64 -> 0 <= b -> 0 <= Z.land a b < W64.
Proof.
  intros Ha Hb. assert (Hn : 0 <= Z.land a b) by (apply Z.land_nonneg; lia).
  split; [exact Hn|].
  change W64 with (2 ^ 64) in *. apply lt_pow2_log2; [exact Hn | lia |].
  eapply Z.le_lt_trans; [apply Z.log2_land; lia|].
  assert (Z.log2 a < 64) by (apply lt_pow2_log2; lia). lia.
Qed.

Lemma testbit_high a n : 0 <= a < W64 -> 64 <= n -> Z.testbit a n = false.
Proof.
  intros Ha Hn. apply Z.bits_above_log2; [lia|].
  change W64 with (2 ^ 64) in Ha.
  assert (Z.log2 a < 64) by (apply lt_pow2_log2; lia). lia.
Qed.

Lemma not64_bit x n : 0 <= n < 64 -> Z.testbit (not64 x) n = negb (Z.testbit x n).
Proof.
  intros Hn. unfold not64. rewrite Z.lxor_spec. change ones64 with (Z.ones 64).
  rewrite Z.ones_spec_low by lia. apply xorb_true_r.
Qed.
Lemma not64_range x : 0 <= x < W64 -> 0 <= not64 x < W64.
Proof. intros H. apply lxor_range; [exact H | unfold ones64, W64; lia]. Qed.

(* ---------------------------------------------------------------------------------------- *)
(* trailing zeros *)

Lemma ctzp_spec p : forall n, 0 <= n -> Z.testbit (Zpos p) n = true ->
  (forall k, 0 <= k < n -> Z.testbit (Zpos p) k = false) -> ctzp p = n.
Proof.
  induction p as [q IH|q IH|]; intros n Hn Hb Hlow; cbn [ctzp].
  - destruct (Z.eq_dec n 0) as [->|Hz]; [reflexivity|].
    specialize (Hlow 0 ltac:(lia)). cbn in Hlow. discriminate.
  - destruct (Z.eq_dec n 0) as [->|Hz]; [cbn in Hb; discriminate|].
    replace n with (Z.succ (n - 1)) in * by lia.
    change (Zpos q~0) with (2 * Zpos q) in *.
    rewrite Z.testbit_even_succ in Hb by lia.
    f_equal. apply IH; [lia | exact Hb |].
    intros k Hk. specialize (Hlow (Z.succ k) ltac:(lia)).
    rewrite Z.testbit_even_succ in Hlow by lia. exact Hlow.
  - destruct (Z.eq_dec n 0) as [->|Hz]; [reflexivity|].
    specialize (Hlow 0 ltac:(lia)). cbn in Hlow. discriminate.
Qed.

Lemma tz64_spec m n : 0 <= n -> Z.testbit m n = true ->
  (forall k, 0 <= k < n -> Z.testbit m k = false) -> 0 <= m -> tz64 m = n.
Proof.
  intros Hn Hb Hlow Hm. destruct m as [|p|p]; [rewrite Z.testbit_0_l in Hb; discriminate | | lia].
  cbn [tz64]. apply ctzp_spec; assumption.
Qed.

(* ---------------------------------------------------------------------------------------- *)
(* match64 *)

Definition range64 : list Z := map Z.of_nat (seq 0 64).

Lemma in_range64 n : 0 <= n < 64 -> In n range64.
Proof.
  intros Hn. unfold range64. apply in_map_iff. exists (Z.to_nat n). split; [lia|].
  apply in_seq. lia.
Qed.

Lemma hi16_bits n : 0 <= n < 64 -> Z.testbit hi16 n = (n mod 16 =? 15).
Proof.
  intros Hn.
  assert (H : forallb (fun k => Bool.eqb (Z.testbit hi16 k) (k mod 16 =? 15)) range64 = true) by (vm_compute; reflexivity).
  rewrite forallb_forall in H. specialize (H n (in_range64 n Hn)).
  apply Bool.eqb_prop in H. exact H.
Qed.

(* the shape of the mask: only the top bit of every lane can be set *)
Lemma mask_result m (g : Z -> bool) :
  0 <= m ->
  (forall n, 0 <= n < 64 -> Z.testbit m n = (n mod 16 =? 15) && g n) ->
  (forall n, 64 <= n -> Z.testbit m n = false) ->
  (if m =? 0 then None else Some (tz64 m / 16)) =
  if g 15 then Some 0 else if g 31 then Some 1 else if g 47 then Some 2 else if g 63 then Some 3 else None.
Proof.
  intros Hm Hbits Hhigh.
  assert (Hlow : forall b, 0 <= b < 64 -> b mod 16 = 15 -> g b = true ->
            (forall k, 0 <= k < b -> k mod 16 = 15 -> g k = false) ->
            (if m =? 0 then None else Some (tz64 m / 16)) = Some (b / 16)).
  { intros b Hb Hb15 Hg Hbelow.
    assert (Hbit : Z.testbit m b = true).
    { rewrite Hbits by lia. rewrite Hg. apply andb_true_iff. split; [|reflexivity]. apply Z.eqb_eq. exact Hb15. }
    assert (Htz : tz64 m = b).
    { apply tz64_spec; [lia | exact Hbit | | exact Hm].
      intros k Hk. rewrite Hbits by lia.
      destruct (k mod 16 =? 15) eqn:E; [|reflexivity].
      apply Z.eqb_eq in E. rewrite (Hbelow k Hk E). reflexivity. }
    destruct (m =? 0) eqn:E0.
    - apply Z.eqb_eq in E0. subst m. rewrite Z.testbit_0_l in Hbit. discriminate.
    - rewrite Htz. reflexivity. }
  destruct (g 15) eqn:G0.
  { rewrite (Hlow 15); [reflexivity | lia | reflexivity | exact G0 |]. intros k Hk Hk15. lia. }
  destruct (g 31) eqn:G1.
  { rewrite (Hlow 31); [reflexivity | lia | reflexivity | exact G1 |]. intros k Hk Hk15.
    assert (k = 15) by lia. subst k. exact G0. }
  destruct (g 47) eqn:G2.
  { rewrite (Hlow 47); [reflexivity | lia | reflexivity | exact G2 |]. intros k Hk Hk15.
    assert (k = 15 \/ k = 31) as [-> | ->] by lia; assumption. }
  destruct (g 63) eqn:G3.
  { rewrite (Hlow 63); [reflexivity | lia | reflexivity | exact G3 |]. intros k Hk Hk15.
    assert (k = 15 \/ k = 31 \/ k = 47) as [-> | [-> | ->]] by lia; assumption. }
  assert (m = 0) as ->; [|reflexivity].
  apply Z.bits_inj'. intros n Hn. rewrite Z.testbit_0_l.
  destruct (Z_lt_le_dec n 64) as [Hlt|Hge]; [|apply Hhigh; lia].
  rewrite Hbits by lia.
  destruct (n mod 16 =? 15) eqn:E; [|reflexivity].
  apply Z.eqb_eq in E.
  assert (n = 15 \/ n = 31 \/ n = 47 \/ n = 63) as [-> | [-> | [-> | ->]]] by lia; cbn [andb]; assumption.
Qed.

(* the four lane lemmas (linear arithmetic with division by constants) *)
Definition in16 (v : Z) : Prop := 0 <= v < 65536.

Lemma lane_flag0 x0 x1 x2 x3 : in16 x0 -> in16 x1 -> in16 x2 -> in16 x3 ->
  let x := comb x0 x1 x2 x3 in let y := (x - rep16) mod W64 in
  ((y / 2 ^ 15) mod 2 = 1 /\ (x / 2 ^ 15) mod 2 = 0) <-> x0 = 0.
Proof. intros H0 H1 H2 H3 x y. unfold in16 in *. change (2 ^ 15) with 32768. unfold y, x, comb, W64, rep16 in *. lia. Qed.
Lemma lane_flag1 x0 x1 x2 x3 : in16 x0 -> in16 x1 -> in16 x2 -> in16 x3 ->
  let x := comb x0 x1 x2 x3 in let y := (x - rep16) mod W64 in
  x0 <> 0 -> ((y / 2 ^ 31) mod 2 = 1 /\ (x / 2 ^ 31) mod 2 = 0) <-> x1 = 0.
Proof. intros H0 H1 H2 H3 x y N0. unfold in16 in *. change (2 ^ 31) with 2147483648. unfold y, x, comb, W64, rep16 in *. lia. Qed.
Lemma lane_flag2 x0 x1 x2 x3 : in16 x0 -> in16 x1 -> in16 x2 -> in16 x3 ->
  let x := comb x0 x1 x2 x3 in let y := (x - rep16) mod W64 in
  x0 <> 0 -> x1 <> 0 -> ((y / 2 ^ 47) mod 2 = 1 /\ (x / 2 ^ 47) mod 2 = 0) <-> x2 = 0.
Proof. intros H0 H1 H2 H3 x y N0 N1. unfold in16 in *. change (2 ^ 47) with 140737488355328. unfold y, x, comb, W64, rep16 in *. lia. Qed.
Lemma lane_flag3 x0 x1 x2 x3 : in16 x0 -> in16 x1 -> in16 x2 -> in16 x3 ->
  let x := comb x0 x1 x2 x3 in let y := (x - rep16) mod W64 in
  x0 <> 0 -> x1 <> 0 -> x2 <> 0 -> ((y / 2 ^ 63) mod 2 = 1 /\ (x / 2 ^ 63) mod 2 = 0) <-> x3 = 0.
Proof. intros H0 H1 H2 H3 x y N0 N1 N2. unfold in16 in *. change (2 ^ 63) with 9223372036854775808. unfold y, x, comb, W64, rep16 in *. lia. Qed.

Lemma flag_bits y x n : 0 <= n ->
  (Z.testbit y n && negb (Z.testbit x n) = true) <-> ((y / 2 ^ n) mod 2 = 1 /\ (x / 2 ^ n) mod 2 = 0).
Proof.
  intros Hn. rewrite andb_true_iff, negb_true_iff.
  rewrite (Z.testbit_true y n Hn), (Z.testbit_false x n Hn). reflexivity.
Qed.

Lemma rep16_lanes key : 0 <= key < 65536 ->
  and64 (key * rep16) = comb key key key key.
Proof. intros Hk. rewrite and64_id; unfold comb, rep16, W64; lia. Qed.

Theorem match64_correct : forall w key, 0 <= w < 2 ^ 64 -> 0 <= key < 2 ^ 16 ->
  match64 w key = first_lane_eq w key.
Proof.
  intros w key Hw Hk. change (2 ^ 64) with W64 in Hw. change (2 ^ 16) with 65536 in Hk.
  unfold match64. rewrite rep16_lanes by exact Hk.
  set (r := comb key key key key).
  destruct (lane_comb key key key key Hk Hk Hk Hk) as (R0 & R1 & R2 & R3 & Rr). fold r in R0, R1, R2, R3, Rr.
  set (x := Z.lxor w r).
  assert (Hx : 0 <= x < W64) by (apply lxor_range; assumption).
  pose proof (lane_range 0 x) as X0. pose proof (lane_range 1 x) as X1.
  pose proof (lane_range 2 x) as X2. pose proof (lane_range 3 x) as X3.
  assert (Ex : x = comb (lane 0 x) (lane 1 x) (lane 2 x) (lane 3 x)) by (apply word_decomp; exact Hx).
  set (y := and64 (x - rep16)).
  assert (Ey : y = (x - rep16) mod W64) by apply and64_mod.
  set (mask := Z.land (Z.land y (not64 x)) hi16).
  set (g := fun n => Z.testbit y n && negb (Z.testbit x n)).
  assert (Hmask : 0 <= mask < W64).
  { unfold mask. apply land_range; [apply land_range; [unfold y; apply and64_range | apply not64_range; exact Hx] | unfold hi16; lia]. }
  rewrite (mask_result mask g).
  - (* relate the flags to the lanes *)
    assert (Lr : forall i, (i = 0 \/ i = 1 \/ i = 2 \/ i = 3) -> (lane i x = 0 <-> lane i w = key)).
    { intros i Hi. unfold x. rewrite lane_lxor by lia. rewrite Z.lxor_eq_0_iff.
      destruct Hi as [-> | [-> | [-> | ->]]]; [rewrite R0 | rewrite R1 | rewrite R2 | rewrite R3]; reflexivity. }
    pose proof (lane_flag0 _ _ _ _ X0 X1 X2 X3) as F0; cbv zeta in F0.
    pose proof (lane_flag1 _ _ _ _ X0 X1 X2 X3) as F1; cbv zeta in F1.
    pose proof (lane_flag2 _ _ _ _ X0 X1 X2 X3) as F2; cbv zeta in F2.
    pose proof (lane_flag3 _ _ _ _ X0 X1 X2 X3) as F3; cbv zeta in F3.
    rewrite <- Ex, <- Ey in F0, F1, F2, F3.
    rewrite <- (flag_bits y x 15) in F0 by lia. rewrite <- (flag_bits y x 31) in F1 by lia.
    rewrite <- (flag_bits y x 47) in F2 by lia. rewrite <- (flag_bits y x 63) in F3 by lia.
    fold (g 15) in F0. fold (g 31) in F1. fold (g 47) in F2. fold (g 63) in F3.
    unfold first_lane_eq.
    pose proof (Lr 0 ltac:(lia)) as E0. pose proof (Lr 1 ltac:(lia)) as E1.
    pose proof (Lr 2 ltac:(lia)) as E2. pose proof (Lr 3 ltac:(lia)) as E3.
    destruct (g 15) eqn:G0.
    { assert (lane 0 w = key) as -> by (apply E0, F0; reflexivity). rewrite Z.eqb_refl. reflexivity. }
    assert (N0 : lane 0 x <> 0) by (intros Z0; apply F0 in Z0; discriminate).
    destruct (lane 0 w =? key) eqn:Q0; [apply Z.eqb_eq in Q0; apply E0 in Q0; contradiction|].
    specialize (F1 N0).
    destruct (g 31) eqn:G1.
    { assert (lane 1 w = key) as -> by (apply E1, F1; reflexivity). rewrite Z.eqb_refl. reflexivity. }
    assert (N1 : lane 1 x <> 0) by (intros Z0; apply F1 in Z0; discriminate).
    destruct (lane 1 w =? key) eqn:Q1; [apply Z.eqb_eq in Q1; apply E1 in Q1; contradiction|].
    specialize (F2 N0 N1).
    destruct (g 47) eqn:G2.
    { assert (lane 2 w = key) as -> by (apply E2, F2; reflexivity). rewrite Z.eqb_refl. reflexivity. }
    assert (N2 : lane 2 x <> 0) by (intros Z0; apply F2 in Z0; discriminate).
    destruct (lane 2 w =? key) eqn:Q2; [apply Z.eqb_eq in Q2; apply E2 in Q2; contradiction|].
    specialize (F3 N0 N1 N2).
    destruct (g 63) eqn:G3.
    { assert (lane 3 w = key) as -> by (apply E3, F3; reflexivity). rewrite Z.eqb_refl. reflexivity. }
    assert (N3 : lane 3 x <> 0) by (intros Z0; apply F3 in Z0; discriminate).
    destruct (lane 3 w =? key) eqn:Q3; [apply Z.eqb_eq in Q3; apply E3 in Q3; contradiction|].
    reflexivity.
  - lia.
  - intros n Hn. unfold mask, g. rewrite !Z.land_spec, not64_bit by lia. rewrite hi16_bits by lia.
    destruct (Z.testbit y n), (Z.testbit x n), (n mod 16 =? 15); reflexivity.
  - intros n Hn. apply testbit_high; [exact Hmask | exact Hn].
Qed.

(* ---------------------------------------------------------------------------------------- *)
(* the lane splice of Insert *)

Definition splice (keys hk l : Z) : Z :=
  Z.lor (Z.land keys (not64 (and64 (Z.shiftl lane_mask (l * partialKeyBits)))))
        (and64 (Z.shiftl hk (l * partialKeyBits))).

Lemma splice_lanes keys hk l : 0 <= keys < W64 -> 0 <= hk < 65536 -> 0 <= l < 4 ->
  0 <= splice keys hk l < W64 /\
  forall j, 0 <= j < 4 -> lane j (splice keys hk l) = if j =? l then hk else lane j keys.
Proof.
  intros Hk Hh Hl.
  assert (Hsh : 0 <= and64 (Z.shiftl hk (l * partialKeyBits)) < W64) by apply and64_range.
  split.
  - unfold splice. apply lor_range; [apply land_range; [exact Hk | apply not64_range, and64_range] | exact Hsh].
  - intros j Hj. unfold splice.
    rewrite lane_lor, lane_land by lia.
    assert (Hcases : (l = 0 \/ l = 1 \/ l = 2 \/ l = 3) /\ (j = 0 \/ j = 1 \/ j = 2 \/ j = 3)) by lia.
    assert (Hmaskl : forall l', (l' = 0 \/ l' = 1 \/ l' = 2 \/ l' = 3) -> forall j', (j' = 0 \/ j' = 1 \/ j' = 2 \/ j' = 3) ->
              lane j' (not64 (and64 (Z.shiftl lane_mask (l' * partialKeyBits)))) = if j' =? l' then 0 else 65535).
    { intros l' [-> | [-> | [-> | ->]]] j' [-> | [-> | [-> | ->]]]; vm_compute; reflexivity. }
    assert (Hhk : lane j (and64 (Z.shiftl hk (l * partialKeyBits))) = if j =? l then hk else 0).
    { rewrite and64_mod. rewrite Z.shiftl_mul_pow2 by (change partialKeyBits with 16; lia).
      change partialKeyBits with 16.
      destruct Hcases as [[-> | [-> | [-> | ->]]] [-> | [-> | [-> | ->]]]];
        cbn [Z.eqb Pos.eqb]; rewrite ?lane0_eq, ?lane1_eq, ?lane2_eq, ?lane3_eq;
        change (2 ^ (0 * 16)) with 1; change (2 ^ (1 * 16)) with 65536;
        change (2 ^ (2 * 16)) with 4294967296; change (2 ^ (3 * 16)) with 281474976710656;
        unfold W64; lia. }
    rewrite Hhk, (Hmaskl l (proj1 Hcases) j (proj2 Hcases)).
    pose proof (lane_range j keys) as Hr.
    destruct (j =? l).
    + rewrite Z.land_0_r, Z.lor_0_l. reflexivity.
    + rewrite Z.lor_0_r. change 65535 with (Z.ones 16). rewrite Z.land_ones by lia.
      apply Z.mod_small. exact Hr.
Qed.

(* ---------------------------------------------------------------------------------------- *)
(* hash -> (bucket, signature) *)

Lemma partial_key_sig h : 0 <= h < W64 -> partial_key h = sig_of h /\ 0 <= sig_of h < 65536.
Proof.
  intros Hh. unfold partial_key, sig_of, lane_mask. change (64 - partialKeyBits) with 48.
  rewrite Z.shiftr_div_pow2 by lia. change 65535 with (Z.ones 16). rewrite Z.land_ones by lia.
  split; [reflexivity|]. apply Z.mod_pos_bound. lia.
Qed.

Lemma bucket_ix_of nb h : 0 < nb <= 2 ^ 32 -> 0 <= h < W64 ->
  bucket_ix nb h = bucket_of nb h /\ 0 <= bucket_of nb h < nb.
Proof.
  intros Hnb Hh. unfold bucket_ix, bucket_of.
  change 4294967295 with (Z.ones 32). rewrite Z.land_ones by lia.
  assert (Hm : 0 <= h mod 2 ^ 32 < 2 ^ 32) by (apply Z.mod_pos_bound; lia).
  rewrite and64_id by (unfold W64; nia).
  rewrite Z.shiftr_div_pow2 by lia. split; [reflexivity|].
  split; [apply Z.div_pos; nia|]. apply Z.div_lt_upper_bound; nia.
Qed.
