(* C09, converse direction of IsStalemate for positions without an en-passant target:
   not in check and IsStalemate answers true  ->  no move is legal. *)
From Coq Require Import NArith ZArith List Bool Lia.
From Chess3 Require Import Base.Bits Model.Types Spec.Geometry Model.Att Model.BoardDef Model.Board
     Model.Movegen Model.Mate Spec.Chess Spec.Rep Proofs.MateGeom Proofs.MateAbs Proofs.MateKing
     Proofs.MateMove Proofs.MateCapture Proofs.MateBlockGeom Proofs.MateBlock Proofs.MateStale
     Proofs.MatePinGeom Proofs.MatePin Proofs.MatePawnPin Proofs.MateConv Proofs.MateConvMove Proofs.MateConv2
     Proofs.MateConv3 Proofs.MateConv4 Proofs.StaleConvGeom Proofs.StaleConv Proofs.StaleConv2.
Import ListNotations.
Open Scope N_scope.

(* ------------------------------------------------------------------------------------------ *)
(* membership in the set-wise pawn operations, the other direction *)

Lemma additive_intro (F : N -> N) : (forall x y, F (N.lor x y) = N.lor (F x) (F y)) ->
  forall x s i, N.testbit x s = true -> N.testbit (F (bit s)) i = true -> N.testbit (F x) i = true.
Proof.
  intros Fadd x s i Hs H. assert (E : x = N.lor x (bit s)).
  { apply N.bits_inj. intro j. rewrite N.lor_spec, bit_testbit. destruct (N.eqb_spec s j) as [<-|]; [rewrite Hs; reflexivity|apply eq_sym, orb_false_r]. }
  rewrite E, Fadd, N.lor_spec, H. apply orb_true_r.
Qed.

Lemma push_of_add c x y : push_of c (N.lor x y) = N.lor (push_of c x) (push_of c y).
Proof. destruct c; cbn [push_of]; [apply shl_lor|apply shr_lor]. Qed.

Lemma caps_of_add c x y : caps_of c (N.lor x y) = N.lor (caps_of c x) (caps_of c y).
Proof.
  destruct c; cbn [caps_of]; unfold bor; rewrite !band_lor_l, ?shl_lor, ?shr_lor;
    apply N.bits_inj; intro j; rewrite !N.lor_spec;
    repeat match goal with |- context [N.testbit ?x ?jj] => generalize (N.testbit x jj); intro end;
    repeat match goal with v : bool |- _ => destruct v end; reflexivity.
Qed.

Definition push_of_conv_check (c : color) (d : N) : bool :=
  (rank_n d =? last_rank c) || N.testbit (push_of c (bit d)) (fwd c d).
Lemma push_of_conv c d : d < 64 -> rank_n d <> last_rank c -> N.testbit (push_of c (bit d)) (fwd c d) = true.
Proof.
  intros Hd Hr. assert (C : push_of_conv_check c d = true).
  { clear Hr. revert d Hd. destruct c; [apply (forall_sq (push_of_conv_check White))|apply (forall_sq (push_of_conv_check Black))]; vm_compute; reflexivity. }
  unfold push_of_conv_check in C. destruct (N.eqb_spec (rank_n d) (last_rank c)); [contradiction|]. exact C.
Qed.

Definition caps_of_conv_check (c : color) (d : N) : bool :=
  forallb (fun t => N.testbit (caps_of c (bit d)) t) (bits_of (pawn_attacks c d)).
Lemma caps_of_conv c d t : d < 64 -> N.testbit (pawn_attacks c d) t = true -> N.testbit (caps_of c (bit d)) t = true.
Proof.
  intros Hd H. assert (C : caps_of_conv_check c d = true).
  { clear H. revert d Hd. destruct c; [apply (forall_sq (caps_of_conv_check White))|apply (forall_sq (caps_of_conv_check Black))]; vm_compute; reflexivity. }
  unfold caps_of_conv_check in C. rewrite forallb_forall in C. apply C. apply bits_of_spec. exact H.
Qed.

Definition push_fwd_conv_check (c : color) (d : N) : bool :=
  (rank_n d =? last_rank c) || ((fwd c d <? 64) && N.testbit (pawn_single_push_moves (bit d) c) (fwd c d)).
Lemma push_fwd_conv c d : d < 64 -> rank_n d <> last_rank c ->
  fwd c d < 64 /\ N.testbit (pawn_single_push_moves (bit d) c) (fwd c d) = true.
Proof.
  intros Hd Hr. assert (C : push_fwd_conv_check c d = true).
  { clear Hr. revert d Hd. destruct c; [apply (forall_sq (push_fwd_conv_check White))|apply (forall_sq (push_fwd_conv_check Black))]; vm_compute; reflexivity. }
  unfold push_fwd_conv_check in C. destruct (N.eqb_spec (rank_n d) (last_rank c)); [contradiction|]. cbn [orb] in C.
  apply andb_prop in C. destruct C as [C1 C2]. apply N.ltb_lt in C1. tauto.
Qed.

Lemma nocc_agrees_local b : Rep b -> forall d x, x <> d ->
  N.testbit (band (occupancy b) (bnot (bit d))) x = N.testbit (occupancy b) x.
Proof.
  intros HR d x Hx. unfold band. rewrite N.land_spec, bnot_testbit, bit_testbit.
  destruct (N.eqb_spec d x); [congruence|]. destruct (N.ltb_spec x 64) as [L|L]; [apply andb_true_r|].
  rewrite (occ_high b HR x L). reflexivity.
Qed.

(* ------------------------------------------------------------------------------------------ *)

Section StaleConverse.
Variable b : board.
Hypothesis HR : Rep b.
Hypothesis HV : valid (abs b) = true.
Hypothesis Hnoep : ep b = 0.
Hypothesis Hchk : in_check b (stm b) = false.
Let me := stm b.
Let them := flip me.
Let own := colors b me.
Let opp := colors b them.
Let occ := occupancy b.
Variable k0 : N.
Hypothesis Hk0 : k0 < 64.
Hypothesis Hkbit : band (pieces b King) own = bit k0.
Hypothesis Hholds : forall s, s < 64 -> holds (abs b) s me King = (s =? k0).
Let maybePinned := band (bor (bishop_moves k0 occ) (rook_moves k0 occ)) own.

(* the loops found nothing *)
Hypothesis F1 : stale_free_pawn me (band (band (pieces b Pawn) own) (bnot maybePinned)) occ opp = false.
Hypothesis F2 : stale_queen b occ own = false.
Hypothesis F3 : stale_bishop b k0 occ own opp = false.
Hypothesis F4 : stale_rook b k0 occ own opp = false.
Hypothesis F5 : stale_knight b k0 occ own opp maybePinned = false.
Hypothesis F7 : stale_pinned_pawn b k0 occ own opp maybePinned = false.

(* a possible move of a man other than the king *)
Variables d t kd pr : N.
Hypothesis Hd : d < 64.
Hypothesis Ht : t < 64.
Hypothesis Hwd : who (abs b) d = Some (me, kd).
Hypothesis Hkd : kd <> King.
Hypothesis Hpr : In pr [0; Knight; Bishop; Rook; Queen].
Hypothesis Hps : pseudo_spec (abs b) (mk_move d t pr) = true.
Let p' := with_placement (abs b) (place_after (abs b) (mk_move d t pr)).
Let nocc := band occ (bnot (bit d)).

Lemma sc_epsq : epsq (abs b) = None.
Proof. unfold abs. cbn [epsq]. rewrite Hnoep. reflexivity. Qed.
Lemma sc_noep : is_ep_capture (abs b) (mk_move d t pr) = false.
Proof. unfold is_ep_capture. rewrite sc_epsq. apply andb_false_r. Qed.

Lemma sc_facts : N.testbit own d = true /\ N.testbit (pieces b kd) d = true /\ N.testbit own t = false /\ d <> t /\ t <> k0.
Proof.
  destruct (who_abs_inv b HR d me kd Hd Hwd) as (_ & Hpc & Hown & _).
  destruct (pseudo_nonking_noep b d t kd pr HR Hd Ht Hpr sc_epsq Hwd Hkd Hps) as [Hnown _].
  split; [exact Hown|]. split; [exact Hpc|]. split; [exact Hnown|]. split.
  - intros E. rewrite <- E in Hnown. exact (Bool.diff_true_false (eq_trans (eq_sym Hown) Hnown)).
  - intros E. rewrite E in Hnown. assert (N.testbit (bit k0) k0 = true) as Hb by (rewrite bit_testbit; apply N.eqb_refl).
    rewrite <- Hkbit in Hb. unfold band in Hb. rewrite N.land_spec in Hb. apply andb_prop in Hb. destruct Hb as [_ Hb].
    exact (Bool.diff_true_false (eq_trans (eq_sym Hb) Hnown)).
Qed.

Lemma sc_in_set k : N.testbit (pieces b k) d = true -> In d (bits_of (band (pieces b k) own)).
Proof.
  intros H. destruct sc_facts as (Hown & _). apply bits_of_spec. unfold band. rewrite N.land_spec, H, Hown. reflexivity.
Qed.

Lemma sc_target_bit x : N.testbit x t = true -> negb (band x (bnot own) =? 0) = true.
Proof.
  intros H. destruct sc_facts as (_ & _ & Hnown & _). apply negb_true_iff. apply (band_nonzero _ _ t H).
  rewrite bnot_testbit, Hnown, (proj2 (N.ltb_lt t 64) Ht). reflexivity.
Qed.

Lemma nocc_ext x : x <> d -> N.testbit nocc x = N.testbit occ x.
Proof. intros Hx. unfold nocc, occ. apply (nocc_agrees_local b HR d x Hx). Qed.

Lemma sc_queen : kd = Queen -> mem (attacks_from me kd d occ) t = true -> False.
Proof.
  intros Ek Hm. destruct sc_facts as (_ & Hpc & _). rewrite Ek in Hpc, Hm.
  pose proof (existsb_false_in _ _ d F2 (sc_in_set Queen Hpc)) as F. cbv beta in F.
  assert (Hq : N.testbit (bor (bishop_moves d occ) (rook_moves d occ)) t = true).
  { unfold bor. rewrite N.lor_spec, orb_comm. rewrite <- N.lor_spec. exact Hm. }
  rewrite (sc_target_bit _ Hq) in F. discriminate.
Qed.

Lemma sc_bishop : kd = Bishop -> mem (attacks_from me kd d occ) t = true -> in_check_spec p' me = true.
Proof.
  intros Ek Hm. destruct sc_facts as (_ & Hpc & _ & Hdt & Htk). rewrite Ek in Hpc, Hm.
  pose proof (existsb_false_in _ _ d F3 (sc_in_set Bishop Hpc)) as F. cbv beta zeta in F. fold nocc in F.
  assert (Hb : N.testbit (bishop_moves d nocc) t = true).
  { unfold bishop_moves. rewrite (bishop_ext d t nocc occ Hd Ht (fun x X _ => nocc_ext x X)). exact Hm. }
  rewrite (sc_target_bit _ Hb), andb_true_r in F. apply N.eqb_neq in F.
  assert (Hl : negb (band (band (rook_moves k0 nocc) (line_sliders b)) opp =? 0) = true) by (apply negb_true_iff, N.eqb_neq; exact F).
  destruct (line_some b HR k0 Hk0 Hkbit nocc opp Hl (fun u X => X)) as (u & Huo & Hh & Hatt).
  apply (exposed_illegal b HR Hchk k0 Hk0 Hkbit Hholds d t kd pr Hd Ht Hwd Hkd Hpr Hdt Htk sc_noep rook_dirs bishop_reach u good_rook off_rook_bishop Huo Hh Hatt).
  apply (bishop_reach_mono d occ t). exact Hm.
Qed.

Lemma sc_rook : kd = Rook -> mem (attacks_from me kd d occ) t = true -> in_check_spec p' me = true.
Proof.
  intros Ek Hm. destruct sc_facts as (_ & Hpc & _ & Hdt & Htk). rewrite Ek in Hpc, Hm.
  pose proof (existsb_false_in _ _ d F4 (sc_in_set Rook Hpc)) as F. cbv beta zeta in F. fold nocc in F.
  assert (Hb : N.testbit (rook_moves d nocc) t = true).
  { unfold rook_moves. rewrite (rook_ext d t nocc occ Hd Ht (fun x X _ => nocc_ext x X)). exact Hm. }
  rewrite (sc_target_bit _ Hb), andb_true_r in F. apply N.eqb_neq in F.
  assert (Hl : negb (band (band (bishop_moves k0 nocc) (diag_sliders b)) opp =? 0) = true) by (apply negb_true_iff, N.eqb_neq; exact F).
  destruct (diag_some b HR k0 Hk0 Hkbit nocc opp Hl (fun u X => X)) as (u & Huo & Hh & Hatt).
  apply (exposed_illegal b HR Hchk k0 Hk0 Hkbit Hholds d t kd pr Hd Ht Hwd Hkd Hpr Hdt Htk sc_noep bishop_dirs rook_reach u good_bishop off_bishop_rook Huo Hh Hatt).
  apply (rook_reach_mono d occ t). exact Hm.
Qed.

Lemma sc_knight : kd = Knight -> mem (attacks_from me kd d occ) t = true -> in_check_spec p' me = true.
Proof.
  intros Ek Hm. destruct sc_facts as (_ & Hpc & _ & Hdt & Htk). rewrite Ek in Hpc, Hm.
  pose proof (existsb_false_in _ _ d F5 (sc_in_set Knight Hpc)) as F. cbv beta zeta in F. fold nocc in F.
  assert (Hb : N.testbit (knight_moves d) t = true) by exact Hm.
  rewrite (sc_target_bit _ Hb), andb_true_r in F. apply negb_false_iff in F.
  apply andb_prop in F. destruct F as [_ F]. unfold slider_hits in F. apply orb_true_iff in F. destruct F as [F|F].
  - destruct (diag_some b HR k0 Hk0 Hkbit nocc opp F (fun u X => X)) as (u & Huo & Hh & Hatt).
    apply (exposed_illegal b HR Hchk k0 Hk0 Hkbit Hholds d t kd pr Hd Ht Hwd Hkd Hpr Hdt Htk sc_noep bishop_dirs knight_attacks u good_bishop off_bishop_knight Huo Hh Hatt Hb).
  - destruct (line_some b HR k0 Hk0 Hkbit nocc opp F (fun u X => X)) as (u & Huo & Hh & Hatt).
    apply (exposed_illegal b HR Hchk k0 Hk0 Hkbit Hholds d t kd pr Hd Ht Hwd Hkd Hpr Hdt Htk sc_noep rook_dirs knight_attacks u good_rook off_rook_knight Huo Hh Hatt Hb).
Qed.

(* pawns that are not seen from the king: the shortcut found no push and no capture *)
Lemma sc_pawn_free : kd = Pawn -> N.testbit maybePinned d = false ->
  (t = fwd me d /\ rank_n d <> last_rank me /\ N.testbit occ t = false)
  \/ (rank_n d = second_rank me /\ t = fwd me (fwd me d) /\ empty (abs b) (fwd me d) = true /\ N.testbit occ t = false)
  \/ (N.testbit (pawn_attacks me d) t = true /\ N.testbit opp t = true) -> False.
Proof.
  intros Ek Hmp Hkind. destruct sc_facts as (Hown & Hpc & _). rewrite Ek in Hpc.
  set (pawns := band (band (pieces b Pawn) own) (bnot maybePinned)) in *.
  assert (Hdp : N.testbit pawns d = true).
  { unfold pawns, band. rewrite !N.land_spec, bnot_testbit, Hpc, Hown, Hmp, (proj2 (N.ltb_lt d 64) Hd). reflexivity. }
  rewrite stale_free_pawn_eq in F1. apply orb_false_elim in F1. destruct F1 as [A B]. apply negb_false_iff in A, B.
  assert (Hpush : forall x, x = fwd me d -> rank_n d <> last_rank me -> x < 64 -> N.testbit occ x = false -> False).
  { intros x -> Hr L He.
    pose proof (additive_intro (push_of me) (push_of_add me) pawns d _ Hdp (push_of_conv me d Hd Hr)) as P.
    apply (band_zero_testbit _ _ (fwd me d) A) in P. rewrite bnot_testbit, He, (proj2 (N.ltb_lt _ 64) L) in P. discriminate. }
  destruct Hkind as [(Et & Hr & He)|[(Hr & Et & Hmid & He)|(Hatt & Ho)]].
  - apply (Hpush t Et Hr Ht He).
  - destruct (rank2_fact me d Hd Hr) as (Hr1 & _ & _). destruct (push_conv me d Hd Hr1) as [Lmid _].
    rewrite (empty_abs b HR _ Lmid) in Hmid. apply negb_true_iff in Hmid. apply (Hpush (fwd me d) eq_refl Hr1 Lmid Hmid).
  - pose proof (additive_intro (caps_of me) (caps_of_add me) pawns d t Hdp (caps_of_conv me d t Hd Hatt)) as P.
    apply (band_zero_testbit _ _ t B) in P. unfold opp in *. congruence.
Qed.

(* pawns that may be pinned *)
Lemma sc_pawn_pinned : kd = Pawn -> N.testbit maybePinned d = true ->
  (t = fwd me d /\ rank_n d <> last_rank me /\ N.testbit occ t = false)
  \/ (rank_n d = second_rank me /\ t = fwd me (fwd me d) /\ empty (abs b) (fwd me d) = true /\ N.testbit occ t = false)
  \/ (N.testbit (pawn_attacks me d) t = true /\ N.testbit opp t = true) -> in_check_spec p' me = true.
Proof.
  intros Ek Hmp Hkind. destruct sc_facts as (Hown & Hpc & Hnown & Hdt & Htk). rewrite Ek in Hpc.
  assert (Hin : In d (bits_of (band (band (pieces b Pawn) own) maybePinned))).
  { apply bits_of_spec. unfold band. rewrite !N.land_spec, Hpc, Hown. exact Hmp. }
  pose proof (existsb_false_in _ _ d F7 Hin) as F. cbv beta zeta in F. clear Hin.
  set (T1 := band (pawn_single_push_moves (bit d) (stm b)) (bnot occ)) in *.
  set (N1 := bor (band occ (bnot (bit d))) T1) in *.
  set (T2 := band (pawn_capture_moves (bit d) (stm b)) opp) in *.
  set (N2 := bor (band occ (bnot (bit d))) T2) in *.
  destruct (negb (slider_hits b k0 N1 opp) && negb (T1 =? 0)) eqn:C1; [discriminate|].
  (* the new occupancy *)
  pose proof (nk_occ_exact b HR k0 Hk0 d t kd pr Hd Ht Hwd Hkd Hpr Hdt Htk (Hcsq_triv b k0 d t pr sc_noep)) as Hocc'.
  assert (HN1sub : forall x, N.testbit nocc x = true -> N.testbit N1 x = true)
    by (intros x Hx; unfold N1, bor; rewrite N.lor_spec; fold nocc; rewrite Hx; reflexivity).
  assert (HN2sub : forall x, N.testbit nocc x = true -> N.testbit N2 x = true)
    by (intros x Hx; unfold N2, bor; rewrite N.lor_spec; fold nocc; rewrite Hx; reflexivity).
  assert (Hmid_in : rank_n d <> last_rank me -> N.testbit occ (fwd me d) = false ->
            fwd me d < 64 /\ N.testbit T1 (fwd me d) = true).
  { intros Hr He. destruct (push_fwd_conv me d Hd Hr) as [L P]. split; [exact L|].
    unfold T1, band. rewrite N.land_spec, bnot_testbit, He, (proj2 (N.ltb_lt _ 64) L). fold me. rewrite P. reflexivity. }
  assert (Hpinned1 : N.testbit T1 (fwd me d) = true -> slider_hits b k0 N1 opp = true).
  { intros HT. apply andb_false_iff in C1. destruct C1 as [C|C]; [apply negb_false_iff in C; exact C|].
    apply negb_false_iff, N.eqb_eq in C. rewrite C, N.bits_0 in HT. discriminate. }
  assert (Hemptyne : forall u, N.testbit opp u = true -> N.testbit occ t = false -> u <> t).
  { intros u Hu He ->. unfold opp, occ in *. rewrite (occupancy_of_color b them t Hu) in He. discriminate. }
  destruct Hkind as [(Et & Hr & He)|[(Hr & Et & Hmid & He)|(Hatt & Ho)]].
  - (* single push: the test was made with exactly the new occupancy *)
    destruct (Hmid_in Hr (eq_ind _ (fun z => N.testbit occ z = false) He _ Et)) as [_ HT]. rewrite <- Et in HT.
    apply (nk_pinned b HR k0 Hk0 Hholds d t kd pr Hd Ht Hwd Hkd Hpr Hdt Htk (Hcsq_triv b k0 d t pr sc_noep) N1 opp (Hpinned1 ltac:(rewrite <- Et; exact HT))).
    + intros u Hu. split; [exact Hu|]. split; [apply (Hemptyne u Hu He)|]. intros E. rewrite sc_noep in E. discriminate.
    + intros x Hx. rewrite (Hocc' x sc_noep) in Hx. apply andb_prop in Hx. destruct Hx as [Lx Hx].
      apply orb_true_iff in Hx. destruct Hx as [Hx|Hx].
      * apply N.eqb_eq in Hx. subst x. unfold N1, bor. rewrite N.lor_spec, HT. apply orb_true_r.
      * apply HN1sub. unfold nocc, band. rewrite N.land_spec, bnot_testbit, bit_testbit, Lx.
        apply andb_prop in Hx. destruct Hx as [Hx1 Hx2]. fold occ in Hx2. rewrite Hx1, Hx2. reflexivity.
  - (* double push *)
    destruct (rank2_fact me d Hd Hr) as (Hr1 & _ & _).
    assert (Lmid : fwd me d < 64) by (destruct (push_conv me d Hd Hr1); assumption).
    rewrite (empty_abs b HR _ Lmid) in Hmid. apply negb_true_iff in Hmid. fold occ in Hmid.
    destruct (Hmid_in Hr1 Hmid) as [_ HT]. pose proof (Hpinned1 HT) as Hs.
    assert (Hgen : forall dirs u, good_dirs dirs ->
              forallb (fun k => forallb (dpush_check dirs me k) squares64) squares64 = true ->
              N.testbit opp u = true -> hit dirs k0 N1 u = true ->
              (forall occ2, hit dirs u occ2 k0 = true ->
                 exists ku, who (abs b) u = Some (them, ku) /\ mem (attacks_from them ku u occ2) k0 = true) ->
              in_check_spec p' me = true).
    { intros dirs u G Hdp Huo Hh Hatt2. pose proof (opp_lt' b HR u Huo) as Hu.
      destruct (hit_pfx dirs k0 N1 u Hk0 Hu G Hh) as [pre [Hp [Hc _]]].
      assert (Hc2 : all_clear nocc pre = true).
      { unfold all_clear in *. rewrite forallb_forall in *. intros x Hx. specialize (Hc x Hx). apply negb_true_iff in Hc.
        apply negb_true_iff. destruct (N.testbit nocc x) eqn:E; [|reflexivity]. rewrite (HN1sub x E) in Hc. discriminate. }
      pose proof (lifted_on_prefix b HR Hchk k0 Hk0 Hkbit d t kd pr Hd Hwd Hdt sc_noep dirs u pre G Hu Hatt2 Hp Hc2) as Hdin.
      assert (Hmidn : ~ In (fwd me d) pre).
      { intros X. pose proof (all_clear_in N1 pre _ Hc X) as Fm. unfold N1, bor in Fm. rewrite N.lor_spec, HT, orb_true_r in Fm. discriminate. }
      pose proof (dpush_fact dirs me Hdp k0 u pre d Hk0 Hu Hp Hdin Hmidn) as Htn. rewrite <- Et in Htn.
      apply (nk_exposed b HR k0 Hk0 Hholds d t kd pr Hd Ht Hwd Hkd Hpr Hdt Htk sc_noep dirs u pre G Hu (Hemptyne u Huo He) Hatt2 Hp Hc2 Htn). }
    unfold slider_hits in Hs. apply orb_true_iff in Hs. destruct Hs as [Hs|Hs].
    + destruct (diag_some b HR k0 Hk0 Hkbit N1 opp Hs (fun u X => X)) as (u & Huo & Hh & Hatt2).
      apply (Hgen bishop_dirs u good_bishop (dpush_bishop me) Huo Hh Hatt2).
    + destruct (line_some b HR k0 Hk0 Hkbit N1 opp Hs (fun u X => X)) as (u & Huo & Hh & Hatt2).
      apply (Hgen rook_dirs u good_rook (dpush_rook me) Huo Hh Hatt2).
  - (* capture *)
    assert (HT2 : N.testbit T2 t = true).
    { unfold T2, band. rewrite N.land_spec, Ho. rewrite pcm_bit by assumption. fold me. rewrite Hatt. reflexivity. }
    assert (Hnz : negb (T2 =? 0) = true) by (apply negb_true_iff, N.eqb_neq; apply (testbit_nonzero _ t HT2)).
    rewrite Hnz, andb_true_r in F. apply negb_false_iff in F.
    assert (Hsub2 : forall x, N.testbit (occ_of p') x = true -> N.testbit N2 x = true).
    { intros x Hx. unfold p' in Hx. rewrite (Hocc' x sc_noep) in Hx. apply andb_prop in Hx. destruct Hx as [Lx Hx].
      apply orb_true_iff in Hx. destruct Hx as [Hx|Hx].
      - apply N.eqb_eq in Hx. subst x. unfold N2, bor. rewrite N.lor_spec, HT2. apply orb_true_r.
      - apply HN2sub. unfold nocc, band. rewrite N.land_spec, bnot_testbit, bit_testbit, Lx.
        apply andb_prop in Hx. destruct Hx as [Hx1 Hx2]. fold occ in Hx2. rewrite Hx1, Hx2. reflexivity. }
    apply orb_true_iff in F. destruct F as [F|F].
    + (* a diagonal slider that is not on a capture target *)
      apply negb_true_iff, N.eqb_neq in F. pose proof (lsb_testbit _ F) as T. set (u := lsb _) in T.
      unfold band in T. rewrite !N.land_spec, bnot_testbit in T. apply andb_prop in T. destruct T as [T Huo].
      apply andb_prop in T. destruct T as [T HnT]. apply andb_prop in T. destruct T as [Hbm Hsl].
      apply andb_prop in HnT. destruct HnT as [_ HnT]. apply negb_true_iff in HnT.
      pose proof (opp_lt' b HR u Huo) as Hu.
      assert (Hut : u <> t) by (intros X; rewrite X in HnT; congruence).
      unfold bishop_moves in Hbm. rewrite bishop_testbit in Hbm.
      apply (nk_attack b k0 Hk0 Hholds d t kd pr Hd Ht Hwd Hkd Hpr Hdt Htk sc_noep bishop_dirs u N2 bishop_sym_check Hu Hut
               (fun occ2 Hh => diag_attacker b HR k0 Hk0 Hkbit u occ2 Hu Huo Hsl Hh) Hsub2 Hbm).
    + (* a slider along a rank or file: it is not the man the pawn takes *)
      destruct (line_some b HR k0 Hk0 Hkbit N2 opp F (fun u X => X)) as (u & Huo & Hh & Hatt2).
      pose proof (opp_lt' b HR u Huo) as Hu.
      destruct (hit_pfx rook_dirs k0 N2 u Hk0 Hu good_rook Hh) as [pre [Hp [Hc _]]].
      assert (Hc2 : all_clear nocc pre = true).
      { unfold all_clear in *. rewrite forallb_forall in *. intros x Hx. specialize (Hc x Hx). apply negb_true_iff in Hc.
        apply negb_true_iff. destruct (N.testbit nocc x) eqn:E; [|reflexivity]. rewrite (HN2sub x E) in Hc. discriminate. }
      pose proof (lifted_on_prefix b HR Hchk k0 Hk0 Hkbit d t kd pr Hd Hwd Hdt sc_noep rook_dirs u pre good_rook Hu Hatt2 Hp Hc2) as Hdin.
      destruct (offline_fact rook_dirs (pawn_reach me) (off_rook_pawn me) k0 u pre d t Hk0 Hu Hp Hdin Hatt) as [_ Htu].
      apply (nk_attack b k0 Hk0 Hholds d t kd pr Hd Ht Hwd Hkd Hpr Hdt Htk sc_noep rook_dirs u N2 rook_sym_check Hu (fun X => Htu (eq_sym X)) Hatt2 Hsub2 Hh).
Qed.

End StaleConverse.
