(* List / square-range lemmas used by the C02 proofs: array-like updates ([upd], [updN], [nthN]),
   the list of the 64 squares, pointwise equality of 64-element lists. *)
From Coq Require Import NArith ZArith List Bool Lia Arith.
From Chess3 Require Import Base.Bits Model.Types Model.BoardDef.
Import ListNotations.
Open Scope N_scope.

Lemma length_upd {A} (l : list A) i x : length (upd l i x) = length l.
Proof. revert i; induction l as [|h t IH]; intros [|i]; cbn [upd length]; auto. Qed.

Lemma nth_upd {A} (l : list A) i j x d : (i < length l)%nat ->
  nth j (upd l i x) d = if Nat.eqb j i then x else nth j l d.
Proof.
  revert i j; induction l as [|h t IH]; intros i j Hi; cbn [length] in Hi; [lia|].
  destruct i as [|i]; destruct j as [|j]; cbn [upd nth Nat.eqb]; try reflexivity.
  apply IH. lia.
Qed.

Lemma length_updN {A} (l : list A) i x : length (updN l i x) = length l.
Proof. apply length_upd. Qed.

Lemma nthN_updN {A} (l : list A) i j x d : (N.to_nat i < length l)%nat ->
  nthN (updN l i x) j d = if j =? i then x else nthN l j d.
Proof.
  intros Hi. unfold nthN, updN. rewrite nth_upd by exact Hi.
  destruct (N.eqb_spec j i) as [->|Hn].
  - rewrite Nat.eqb_refl. reflexivity.
  - destruct (Nat.eqb_spec (N.to_nat j) (N.to_nat i)) as [E|E]; [|reflexivity].
    apply N2Nat.inj in E. contradiction.
Qed.

(* the 64 squares *)
Lemma squares64_length : length squares64 = 64%nat.
Proof. reflexivity. Qed.

Lemma squares64_In s : In s squares64 <-> s < 64.
Proof.
  unfold squares64. rewrite in_map_iff. split.
  - intros [n [<- Hn]]. apply in_seq in Hn. lia.
  - intros Hs. exists (N.to_nat s). split; [apply N2Nat.id|]. apply in_seq. lia.
Qed.

Lemma nthN_squares64 s : s < 64 -> nthN squares64 s 0 = s.
Proof.
  intros Hs. unfold nthN, squares64.
  rewrite (nth_indep _ 0 (N.of_nat 0)) by (rewrite map_length, seq_length; lia).
  rewrite map_nth, seq_nth by lia. lia.
Qed.

Lemma nthN_map_squares64 {A} (f : N -> A) s d : s < 64 -> nthN (map f squares64) s d = f s.
Proof.
  intros Hs. unfold nthN.
  rewrite (nth_indep _ d (f 0)) by (rewrite map_length, squares64_length; lia).
  rewrite map_nth. fold (nthN squares64 s 0). rewrite nthN_squares64 by exact Hs. reflexivity.
Qed.

Lemma forallb_squares64 (P : N -> bool) : forallb P squares64 = true <-> (forall s, s < 64 -> P s = true).
Proof.
  rewrite forallb_forall. split; intros H s Hs; apply H; apply squares64_In; exact Hs.
Qed.

Lemma existsb_squares64 (P : N -> bool) : existsb P squares64 = true <-> (exists s, s < 64 /\ P s = true).
Proof.
  rewrite existsb_exists. split; intros [s [H1 H2]]; exists s; split; auto; apply squares64_In; exact H1.
Qed.

(* two 64-element lists are equal when they agree on every square *)
Lemma list64_ext {A} (l1 l2 : list A) d : length l1 = 64%nat -> length l2 = 64%nat ->
  (forall s, s < 64 -> nthN l1 s d = nthN l2 s d) -> l1 = l2.
Proof.
  intros H1 H2 H. apply (nth_ext _ _ d d); [congruence|].
  intros n Hn. specialize (H (N.of_nat n)). unfold nthN in H. rewrite Nat2N.id in H. apply H. lia.
Qed.

Lemma map_squares64_ext {A} (f g : N -> A) : (forall s, s < 64 -> f s = g s) -> map f squares64 = map g squares64.
Proof. intros H. apply map_ext_in. intros s Hs. apply H. apply squares64_In. exact Hs. Qed.

(* a finite universal statement over one / two squares from a boolean sweep *)
Lemma sweep1 (P : N -> bool) : forallb P squares64 = true -> forall a, a < 64 -> P a = true.
Proof. intros H. apply forallb_squares64. exact H. Qed.

Lemma sweep2 (P : N -> N -> bool) :
  forallb (fun a => forallb (P a) squares64) squares64 = true -> forall a b, a < 64 -> b < 64 -> P a b = true.
Proof.
  intros H a b Ha Hb. pose proof (sweep1 _ H a Ha) as H1. cbv beta in H1. exact (sweep1 _ H1 b Hb).
Qed.

Lemma mv_from_lt m : mv_from m < 64.
Proof.
  unfold mv_from. change 63 with (N.ones 6). rewrite N.land_ones. apply N.mod_lt. discriminate.
Qed.
Lemma mv_to_lt m : mv_to m < 64.
Proof.
  unfold mv_to. change 63 with (N.ones 6). rewrite N.land_ones. apply N.mod_lt. discriminate.
Qed.
Lemma mv_promo_lt m : mv_promo m < 8.
Proof.
  unfold mv_promo. change 7 with (N.ones 3). rewrite N.land_ones. apply N.mod_lt. discriminate.
Qed.
