(* C07 on the closed executable model of the whole search (Model/Search.v).
   The iterative deepening of the closed model IS the decision layer of Properties/C07.v (Layer B,
   Model/IterDeepen.v) with its abstract alphaBeta oracle instantiated by the model's alphaBeta + abort
   test: same score, move, ponder move and the same reported lines.  Hence every Layer B theorem
   (C06_move, C07_best, C07_ponder, C07_mono, C08_soft_hard ...) speaks about the closed model, whose
   whole searches agree with the engine's on every run (stream "search": every reported variation,
   move, ponder move compared).  Statements only; proofs in Proofs/SearchModelId.v. *)
From Coq Require Import NArith ZArith List Bool Lia.
From Chess3 Require Import Base.Word Model.Types Model.BoardDef Model.Board Model.Movegen Model.Search
  Spec.Rep Spec.Applicable Proofs.IterDeepenProofs Proofs.SearchModelBoard Proofs.SearchModelId Proofs.BoardExamples.
From Chess3 Require Model.IterDeepen Model.Pv Gen.SearchParams.
Import ListNotations.
Open Scope Z_scope.

(* Layer B run on the closed model's alphaBeta *)
Definition layer_b (fuel : nat) (o : opts) (st : sstate) (b : board) : IterDeepen.result :=
  IterDeepen.iterative_deepen ostate (ask_model fuel o) SearchParams.WindowSize (fun _ => false)
    (root_moves b) (root_legal b) 64
    {| IterDeepen.l_depth := o_depth o; IterDeepen.l_soft_nodes := o_soft o |} (Ok (refresh st, b)).

Theorem C07_model_is_layer_b :
  forall good : board -> Prop,
  (forall b, good b -> Rep b) ->
  (forall b m, good b -> is_pseudo_legal b m = true -> applicable b m = true) ->
  (forall b m, good b -> In m (gen_all b) -> applicable b m = true) ->
  (forall b m, good b -> applicable b m = true -> good (fst (make zob b m))) ->
  (forall b, good b -> good (fst (make_null zob b))) ->
  forall fuel o st b r st' b', good b -> go fuel o st b = Ok (r, st', b') ->
  IterDeepen.r_score (layer_b fuel o st b) = r_score r /\
  IterDeepen.r_move (layer_b fuel o st b) = r_move r /\
  IterDeepen.r_ponder (layer_b fuel o st b) = r_ponder r /\
  IterDeepen.r_reports (layer_b fuel o st b) = map proj_report (r_reports r).
Proof.
  intros good H1 H2 H3 H4 H5 fuel o st b r st' b' Hg H. unfold go, iterative_deepen in H.
  match type of H with bind ?e _ = _ => destruct e as [[[x y] z]| |] eqn:E end; cbn [bind] in H; try discriminate H.
  injection H as <- <- <-.
  exact (deepen_agrees good H1 H2 H3 H4 H5 fuel o _ _ _ _ _ _ _ _ _ [] _ _ _ Hg E).
Qed.
Print Assumptions C07_model_is_layer_b.

(* an instance of transporting a Layer B theorem: the depths reported by the closed model's Go
   strictly increase (C07_mono) *)
Theorem C07_model_depths_increase :
  forall good : board -> Prop,
  (forall b, good b -> Rep b) ->
  (forall b m, good b -> is_pseudo_legal b m = true -> applicable b m = true) ->
  (forall b m, good b -> In m (gen_all b) -> applicable b m = true) ->
  (forall b m, good b -> applicable b m = true -> good (fst (make zob b m))) ->
  (forall b, good b -> good (fst (make_null zob b))) ->
  forall fuel o st b r st' b', good b -> go fuel o st b = Ok (r, st', b') ->
  increasing (map IterDeepen.report_depth (map proj_report (r_reports r))).
Proof.
  intros good H1 H2 H3 H4 H5 fuel o st b r st' b' Hg H.
  destruct (C07_model_is_layer_b good H1 H2 H3 H4 H5 fuel o st b r st' b' Hg H) as (_ & _ & _ & <-).
  apply depths_increase.
Qed.
Print Assumptions C07_model_depths_increase.

(* the full C07 claim on the closed model - every reported variation is a legal line from the root -
   is not proved (it needs the induction over the PV buffer contents along the model's recursion); it
   is checked on every run by the judge of the stream "search" (clause 6) *)
Definition C07_model_lines_legal_statement : Prop :=
  forall fuel o st b r st' b' d s n hf pv,
  go fuel o st b = Ok (r, st', b') -> In (RLine d s n hf pv) (r_reports r) ->
  (fix legal_line (b : board) (pv : list Z) : Prop :=
     match pv with
     | [] => True
     | m :: rest => In (Z.to_N m) (playable zob b) /\ legal_line (fst (make zob b (Z.to_N m))) rest
     end) b pv.

(* non-vacuity: on the start position Layer B over the model's alphaBeta and the model's Go agree
   (depth 2: three reported lines) *)
Example C07_model_layer_b_example :
  match new_state 32000 with
  | Ok s0 => match go search_fuel (mkO (-1) (-1) 2) s0 ex_start with
             | Ok (r, _, _) => IterDeepen.r_move (layer_b search_fuel (mkO (-1) (-1) 2) s0 ex_start) = r_move r /\ r_move r <> 0
                               /\ length (IterDeepen.r_reports (layer_b search_fuel (mkO (-1) (-1) 2) s0 ex_start)) = 3%nat
             | _ => False end
  | _ => False end.
Proof. vm_compute. repeat split; discriminate. Qed.
