(* C12 finite sweep, shard R6: by vm_compute, for each listed square, over EVERY subset of its
   relevant-occupancy mask (see Proofs/AttacksSweepDefs.v for what is checked). Re-checked whenever
   Gen/AttackTables.v (masks, magics, shifts read from the working tree) changes. *)
From Coq Require Import NArith List Bool.
From Chess3 Require Import Proofs.AttacksSweepDefs.
Import ListNotations.
Open Scope N_scope.
Definition rook_squares_6 : list N := [6; 15; 16; 25; 34; 43; 52; 61].
Lemma rook_sweep_6 : forallb rook_sweep_sq rook_squares_6 = true.
Proof. vm_cast_no_check (@eq_refl bool true). Qed.
