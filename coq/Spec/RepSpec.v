(* What "the number of times this position has occurred" means (property C10), independent of the
   engine and of hashing: the history of a game is the list of positions obtained from the root by
   Spec/Chess.succ_spec, two positions are the same when their [pos_key]s are equal (placement, side
   to move, castling rights, en-passant capturability), and the repetition count of the current
   position is the number of positions of the history, the current one included, that are the same
   as the current one - capped at three. *)
From Coq Require Import NArith ZArith List Bool.
From Chess3 Require Import Base.Bits Model.Types Spec.Geometry Model.BoardDef Spec.Chess.
Import ListNotations.

Definition poskey : Type := (list (option (color * N)) * color * N * bool)%type.

(* decidable equality of position keys *)
Definition sqv_eqb (a b : option (color * N)) : bool :=
  match a, b with
  | None, None => true
  | Some (c, k), Some (c', k') => color_eqb c c' && (k =? k')%N
  | _, _ => false
  end.
Fixpoint place_eqb (a b : list (option (color * N))) : bool :=
  match a, b with
  | [], [] => true
  | x :: a', y :: b' => sqv_eqb x y && place_eqb a' b'
  | _, _ => false
  end.
Definition key_eqb (a b : poskey) : bool :=
  let '(pa, ta, ra, ea) := a in
  let '(pb, tb, rb, eb) := b in
  place_eqb pa pb && color_eqb ta tb && (ra =? rb)%N && Bool.eqb ea eb.

(* the positions of a game: the root, then the successor after every move (oldest first) *)
Fixpoint spec_hist (p : pos) (ms : list N) : list pos :=
  p :: match ms with [] => [] | m :: r => spec_hist (succ_spec p m) r end.

(* every move of the list is legal in the position in which it is played *)
Fixpoint legal_chain (p : pos) (ms : list N) : bool :=
  match ms with [] => true | m :: r => legal_spec p m && legal_chain (succ_spec p m) r end.

(* how many entries of ks equal k *)
Definition occurrences (k : poskey) (ks : list poskey) : Z :=
  Z.of_nat (length (filter (key_eqb k) ks)).

(* the repetition count of the LAST position of a history (oldest first): occurrences of its key in
   the whole history, itself included, capped at three *)
Definition rep_count (ks : list poskey) : Z :=
  match rev ks with
  | [] => 1%Z
  | k :: _ => Z.min 3 (occurrences k ks)
  end.

(* the same after every ply: entry i is the number of j <= i with ks[j] = ks[i] (not capped) *)
Fixpoint raw_counts_from (seen ks : list poskey) : list Z :=
  match ks with
  | [] => []
  | k :: r => (1 + occurrences k seen)%Z :: raw_counts_from (k :: seen) r
  end.
Definition raw_counts (ks : list poskey) : list Z := raw_counts_from [] ks.

(* ------------------------------------------------------------------------------------------ *)
(* What the engine's scan looks at, said without the scan: the entries of a hash history (newest
   first, entry 0 = the current position) at the even distances 4, 6, 8, ... that equal entry 0. *)
Definition scan_indices (n : nat) : list nat :=
  filter (fun i => (4 <=? i)%nat && Nat.even i) (seq 0 n).
Definition far_even_matches (hs : list N) : Z :=
  Z.of_nat (length (filter (fun i => (nth i hs 0 =? hd 0 hs)%N) (scan_indices (length hs)))).
