(* The attack primitives as the board, move generator, SEE and evaluation models use them.

   Sliders and leapers are the geometric definitions of Spec/Geometry.v; property C12
   (Model/Attacks.v + Proofs) shows that the engine's magic-bitboard tables compute exactly these, and
   the correspondence streams of the board-level properties run the Go code (which uses the tables)
   against models built on this file.  The pawn set operations are the engine's shift formulas
   verbatim (they are plain 64-bit word operations). *)
From Coq Require Import NArith ZArith List Bool.
From Chess3 Require Import Base.Bits Model.Types Spec.Geometry.
Import ListNotations.
Open Scope N_scope.

Definition rook_moves (sq occ : N) : N := rook_attacks sq occ.
Definition bishop_moves (sq occ : N) : N := bishop_attacks sq occ.
Definition king_moves (sq : N) : N := king_attacks sq.
Definition knight_moves (sq : N) : N := knight_attacks sq.

(* attacks.PawnCaptureMoves(b, color):
   ((((b & ^AFileBB) << 7) | ((b & ^HFileBB) << 9)) >> (color << 4)) |
   ((((b & ^HFileBB) >> 7) | ((b & ^AFileBB) >> 9)) << (color.Flip() << 4)) *)
Definition pawn_capture_moves (b : N) (c : color) : N :=
  bor (shr (bor (shl (bandn b AFileBB) 7) (shl (bandn b HFileBB) 9)) (N.shiftl (cix c) 4))
      (shl (bor (shr (bandn b HFileBB) 7) (shr (bandn b AFileBB) 9)) (N.shiftl (cix (flip c)) 4)).

(* attacks.PawnSinglePushMoves(b, color): ((b)<<8)>>((color)<<4) | ((b)>>8)<<((color^1)<<4) *)
Definition pawn_single_push_moves (b : N) (c : color) : N :=
  bor (shr (shl b 8) (N.shiftl (cix c) 4)) (shl (shr b 8) (N.shiftl (cix (flip c)) 4)).

(* attacks.InBetween[a][b]: for aligned squares every square from a to b INCLUDING both ends
   (for a = b just that square), 0 for unaligned squares *)
Definition in_between (a b : N) : N :=
  if aligned a b then bor (bor (bit a) (bit b)) (between_bb a b) else 0.
