(* Proofs for Model/Shuffle.v: the Feistel network is an injection of [0,2^bits) into itself for an
   arbitrary round function; the rejection walk of shuffleIndex ends within 2^bits turns and the
   resulting map is a permutation of 0..n-1. *)
From Coq Require Import NArith ZArith Lia Bool List Permutation PeanoNat.
From Chess3 Require Import Base.Loop Gen.TunerConsts Model.Shuffle Spec.Perm.
Import ListNotations.
Open Scope N_scope.
Ltac Zify.zify_post_hook ::= Z.to_euclidean_division_equations.

(* ---------------------------------------------------------------------------------------------- *)
(* uint64 helpers *)

Lemma ones64_eq : ones64 = N.ones 64.
Proof. reflexivity. Qed.

Lemma w64_mod x : w64 x = x mod 2 ^ 64.
Proof. unfold w64. rewrite ones64_eq. apply N.land_ones. Qed.

Lemma w64_small x : x < 2 ^ 64 -> w64 x = x.
Proof. intros H. rewrite w64_mod. apply N.mod_small, H. Qed.

Lemma pow2_pos k : 0 < 2 ^ k.
Proof. apply N.neq_0_lt_0, N.pow_nonzero. discriminate. Qed.

Lemma pow2_le_mono a b : a <= b -> 2 ^ a <= 2 ^ b.
Proof. intros H. apply N.pow_le_mono_r; [discriminate|exact H]. Qed.

Lemma pow2_lt_mono a b : a < b -> 2 ^ a < 2 ^ b.
Proof. intros H. apply N.pow_lt_mono_r; [reflexivity|exact H]. Qed.

Lemma shl64_1_lt b : b < 64 -> shl64 1 b = 2 ^ b.
Proof.
  intros H. unfold shl64. destruct (N.leb_spec 64 b) as [H1|H1]; [lia|].
  rewrite N.shiftl_1_l. apply w64_small. apply pow2_lt_mono, H.
Qed.

Lemma sub1_64_pow b : b <= 64 -> sub1_64 (shl64 1 b) = N.ones b.
Proof.
  intros H. destruct (N.eq_dec b 64) as [->|Hne]; [reflexivity|].
  rewrite shl64_1_lt by lia. unfold sub1_64. rewrite w64_mod, N.ones_equiv.
  assert (H1 : 2 ^ b < 2 ^ 64) by (apply pow2_lt_mono; lia).
  pose proof (pow2_pos b) as H0. change (2 ^ 64) with 18446744073709551616 in *.
  unfold ones64. generalize dependent (2 ^ b). intros p Hp H0. lia.
Qed.

Lemma land_ones_lt x k : N.land x (N.ones k) < 2 ^ k.
Proof. rewrite N.land_ones. apply N.mod_lt, N.pow_nonzero. discriminate. Qed.

Lemma land_ones_small x k : x < 2 ^ k -> N.land x (N.ones k) = x.
Proof. intros H. rewrite N.land_ones. apply N.mod_small, H. Qed.

Lemma lxor_lt a b k : a < 2 ^ k -> b < 2 ^ k -> N.lxor a b < 2 ^ k.
Proof.
  intros Ha Hb.
  destruct (N.eq_dec (N.lxor a b) 0) as [E|E]; [rewrite E; apply pow2_pos|].
  apply N.log2_lt_pow2; [lia|].
  eapply N.le_lt_trans; [apply N.log2_lxor|].
  destruct (N.eq_dec a 0) as [->|Ha0]; destruct (N.eq_dec b 0) as [->|Hb0].
  - rewrite N.lxor_0_l in E. congruence.
  - rewrite N.max_r by (cbn; lia). apply N.log2_lt_pow2; lia.
  - rewrite N.max_l by (cbn; lia). apply N.log2_lt_pow2; lia.
  - apply N.max_lub_lt; apply N.log2_lt_pow2; lia.
Qed.

(* (r << h) | l = r * 2^h + l when l < 2^h *)
Lemma lor_shiftl_add h l r : l < 2 ^ h -> N.lor (N.shiftl r h) l = r * 2 ^ h + l.
Proof.
  intros Hl. rewrite N.shiftl_mul_pow2. rewrite <- N.lxor_lor, <- N.add_nocarry_lxor; try reflexivity.
  all: apply N.bits_inj_0; intro n; rewrite N.land_spec;
    destruct (N.lt_ge_cases n h) as [Hn|Hn];
    [ rewrite N.mul_pow2_bits_low by lia; reflexivity
    | replace (N.testbit l n) with false; [apply andb_false_r|];
      symmetry; destruct (N.eq_dec l 0) as [->|Hz]; [apply N.bits_0|];
      apply N.bits_above_log2; apply N.log2_lt_pow2 in Hl; lia ].
Qed.

(* ---------------------------------------------------------------------------------------------- *)
(* the Feistel network, arbitrary round function *)

Section Feistel.
Variable F : N -> N -> N.

Lemma rounds_inj cnt : forall i seed m l r l' r',
  feistel_rounds F cnt i seed m l r = feistel_rounds F cnt i seed m l' r' -> (l, r) = (l', r').
Proof.
  induction cnt as [|c IH]; intros i seed m l r l' r' H; cbn [feistel_rounds] in H; [exact H|].
  apply IH in H. inversion H as [[Hr Hx]]. subst r'. f_equal.
  apply (f_equal (fun z => N.lxor z (N.land (F r (w64 (seed + w64 (i * FeistelGold)))) m))) in Hx.
  rewrite !N.lxor_assoc, !N.lxor_nilpotent, !N.lxor_0_r in Hx. exact Hx.
Qed.

(* the widths of the two halves swap every round *)
Lemma rounds_width cnt : forall i seed h a b l r, h <= a -> h <= b -> l < 2 ^ a -> r < 2 ^ b ->
  let p := feistel_rounds F cnt i seed (N.ones h) l r in
  if Nat.even cnt then fst p < 2 ^ a /\ snd p < 2 ^ b else fst p < 2 ^ b /\ snd p < 2 ^ a.
Proof.
  induction cnt as [|c IH]; intros i seed h a b l r Ha Hb Hl Hr; [cbn; auto|].
  cbn [feistel_rounds]. cbv zeta.
  specialize (IH (i + 1) seed h b a r
    (N.lxor l (N.land (F r (w64 (seed + w64 (i * FeistelGold)))) (N.ones h))) Hb Ha Hr).
  cbv zeta in IH. rewrite Nat.even_succ, <- Nat.negb_even.
  destruct (Nat.even c); cbn [negb]; apply IH; (apply lxor_lt; [exact Hl|]);
    (eapply N.lt_le_trans; [apply land_ones_lt|apply pow2_le_mono, Ha]).
Qed.

Section Width.
Variable bits : N.
Hypothesis bits_le : bits <= 64.
Hypothesis rounds_even : Nat.even (N.to_nat FeistelRounds) = true.

Let half := N.div2 bits.
Let rb := bits - half.

Lemma half_facts : half <= rb /\ half + rb = bits /\ half < 64 /\ rb < 64 /\ (bits = 64 -> rb <= 32).
Proof.
  unfold rb, half. rewrite N.div2_div.
  assert (bits / 2 <= 32) by lia. lia.
Qed.

Lemma feistel_unfold x seed :
  feistel_gen F x seed bits =
  let p := feistel_rounds F (N.to_nat FeistelRounds) 0 seed (N.ones half)
             (N.land x (N.ones half)) (N.land (shr64 x half) (N.ones rb)) in
  snd p * 2 ^ half + fst p.
Proof.
  destruct half_facts as (H1 & H2 & H3 & H4 & _).
  unfold feistel_gen. fold half. fold rb.
  rewrite !sub1_64_pow by lia.
  pose proof (rounds_width (N.to_nat FeistelRounds) 0 seed half half rb
               (N.land x (N.ones half)) (N.land (shr64 x half) (N.ones rb))
               (N.le_refl _) H1 (land_ones_lt _ _) (land_ones_lt _ _)) as W.
  cbv zeta in W. rewrite rounds_even in W. cbv zeta.
  destruct (feistel_rounds F (N.to_nat FeistelRounds) 0 seed (N.ones half)
              (N.land x (N.ones half)) (N.land (shr64 x half) (N.ones rb))) as [l' r'].
  cbn [fst snd] in *. destruct W as [Wl Wr].
  rewrite !land_ones_small by assumption.
  unfold shl64. destruct (N.leb_spec 64 half); [lia|].
  rewrite w64_small.
  - apply lor_shiftl_add, Wl.
  - rewrite N.shiftl_mul_pow2.
    assert (r' * 2 ^ half < 2 ^ rb * 2 ^ half) by (apply N.mul_lt_mono_pos_r; [apply pow2_pos|exact Wr]).
    rewrite <- N.pow_add_r in H0. eapply N.lt_le_trans; [exact H0|]. apply pow2_le_mono. lia.
Qed.

Lemma feistel_range x seed : feistel_gen F x seed bits < 2 ^ bits.
Proof.
  destruct half_facts as (H1 & H2 & H3 & H4 & _).
  rewrite feistel_unfold. cbv zeta.
  pose proof (rounds_width (N.to_nat FeistelRounds) 0 seed half half rb
               (N.land x (N.ones half)) (N.land (shr64 x half) (N.ones rb))
               (N.le_refl _) H1 (land_ones_lt _ _) (land_ones_lt _ _)) as W.
  cbv zeta in W. rewrite rounds_even in W. destruct W as [Wl Wr].
  rewrite <- H2, N.add_comm, N.pow_add_r.
  pose proof (pow2_pos half). nia.
Qed.

Lemma feistel_inj x x' seed : x < 2 ^ bits -> x' < 2 ^ bits ->
  feistel_gen F x seed bits = feistel_gen F x' seed bits -> x = x'.
Proof.
  destruct half_facts as (H1 & H2 & H3 & H4 & _).
  intros Hx Hx' E. rewrite !feistel_unfold in E. cbv zeta in E.
  pose proof (fun y => rounds_width (N.to_nat FeistelRounds) 0 seed half half rb
               (N.land y (N.ones half)) (N.land (shr64 y half) (N.ones rb))
               (N.le_refl _) H1 (land_ones_lt _ _) (land_ones_lt _ _)) as W.
  cbv zeta in W. rewrite rounds_even in W.
  pose proof (W x) as [Wl Wr]. pose proof (W x') as [Wl' Wr']. clear W.
  pose proof (rounds_inj (N.to_nat FeistelRounds) 0 seed (N.ones half)
               (N.land x (N.ones half)) (N.land (shr64 x half) (N.ones rb))
               (N.land x' (N.ones half)) (N.land (shr64 x' half) (N.ones rb))) as RI.
  destruct (feistel_rounds F (N.to_nat FeistelRounds) 0 seed (N.ones half)
              (N.land x (N.ones half)) (N.land (shr64 x half) (N.ones rb))) as [l1 r1].
  destruct (feistel_rounds F (N.to_nat FeistelRounds) 0 seed (N.ones half)
              (N.land x' (N.ones half)) (N.land (shr64 x' half) (N.ones rb))) as [l2 r2].
  cbn [fst snd] in *.
  pose proof (pow2_pos half) as Hp.
  assert (r1 = r2) by nia. subst r2. assert (l1 = l2) by lia. subst l2.
  specialize (RI eq_refl). inversion RI as [[El Er]]. clear RI.
  (* x is determined by its two halves *)
  assert (Hs : forall y, y < 2 ^ bits -> N.land (shr64 y half) (N.ones rb) = y / 2 ^ half).
  { intros y Hy. unfold shr64. destruct (N.leb_spec 64 half); [lia|].
    rewrite N.shiftr_div_pow2. apply land_ones_small.
    apply N.div_lt_upper_bound; [apply N.pow_nonzero; discriminate|].
    rewrite <- N.pow_add_r. replace (half + rb) with bits by lia. exact Hy. }
  rewrite !Hs in Er by assumption. rewrite !N.land_ones in El.
  rewrite (N.div_mod x (2 ^ half)), (N.div_mod x' (2 ^ half)) by (apply N.pow_nonzero; discriminate).
  rewrite El, Er. reflexivity.
Qed.
End Width.
End Feistel.

(* ---------------------------------------------------------------------------------------------- *)
(* cycle walking on an injection of a finite set *)

Lemma in_idx y n : In y (idx n) <-> y < n.
Proof.
  unfold idx. rewrite in_map_iff. split.
  - intros (k & <- & Hk). apply in_seq in Hk. lia.
  - intros H. exists (N.to_nat y). split; [apply N2Nat.id|]. apply in_seq. lia.
Qed.

Lemma idx_length n : length (idx n) = N.to_nat n.
Proof. unfold idx. rewrite map_length, seq_length. reflexivity. Qed.

Lemma idx_NoDup n : NoDup (idx n).
Proof.
  unfold idx. generalize (N.to_nat n) as m. intros m.
  assert (H : forall a, NoDup (map N.of_nat (seq a m))).
  { induction m as [|m IH]; intros a; cbn [seq map]; constructor.
    - rewrite in_map_iff. intros (k & Hk & Hin). apply in_seq in Hin. lia.
    - apply IH. }
  apply H.
Qed.

Lemma NoDup_map_on {A B} (f : A -> B) l :
  (forall a b, In a l -> In b l -> f a = f b -> a = b) -> NoDup l -> NoDup (map f l).
Proof.
  intros Hf Hnd. induction Hnd as [|a l Hna Hnd IH]; cbn [map]; constructor.
  - rewrite in_map_iff. intros (b & Hb & Hin). apply Hna.
    rewrite (Hf a b); [exact Hin|left; reflexivity|right; exact Hin|symmetry; exact Hb].
  - apply IH. intros x y Hx Hy. apply Hf; right; assumption.
Qed.

(* among g 0 .. g (m-1) two values coincide, or all are different *)
Lemma dup_or_nodup (g : nat -> N) m :
  (exists i j, (i < j < m)%nat /\ g i = g j) \/ NoDup (map g (seq 0 m)).
Proof.
  induction m as [|m IH]; [right; constructor|].
  destruct IH as [(i & j & Hij & E)|Hnd]; [left; exists i, j; split; [lia|exact E]|].
  rewrite seq_S, map_app. cbn [map Nat.add].
  destruct (in_dec N.eq_dec (g m) (map g (seq 0 m))) as [Hin|Hnin].
  - left. apply in_map_iff in Hin. destruct Hin as (i & E & Hi). apply in_seq in Hi.
    exists i, m. split; [lia|exact E].
  - right. apply NoDup_rev in Hnd. rewrite <- (rev_involutive (map g (seq 0 m) ++ [g m])).
    apply NoDup_rev. rewrite rev_app_distr. cbn [rev app]. constructor; [|exact Hnd].
    rewrite <- in_rev. exact Hnin.
Qed.

Section Walk.
Variable pi : N -> N.
Variables S n : N.
Hypothesis pi_range : forall x, x < S -> pi x < S.
Hypothesis pi_inj : forall x x', x < S -> x' < S -> pi x = pi x' -> x = x'.
Hypothesis n_le_S : n <= S.

Definition wstep (x : N) : N + N := if pi x <? n then inr (pi x) else inl (pi x).

Fixpoint it (k : nat) (x : N) : N := match k with O => x | Datatypes.S k' => it k' (pi x) end.

Lemma it_S_out k x : it (Datatypes.S k) x = pi (it k x).
Proof. revert x; induction k as [|k IH]; intros x; [reflexivity|]. cbn [it] in *. apply IH. Qed.

Lemma it_add a b x : it (a + b) x = it a (it b x).
Proof.
  revert x; induction b as [|b IH]; intros x; [rewrite Nat.add_0_r; reflexivity|].
  rewrite Nat.add_succ_r. cbn [it]. apply IH.
Qed.

Lemma it_range k x : x < S -> it k x < S.
Proof. revert x; induction k as [|k IH]; intros x H; [exact H|]. cbn [it]. apply IH, pi_range, H. Qed.

Lemma it_inj k x x' : x < S -> x' < S -> it k x = it k x' -> x = x'.
Proof.
  revert x x'; induction k as [|k IH]; intros x x' H H' E; [exact E|].
  cbn [it] in E. apply IH in E; try (apply pi_range; assumption). apply pi_inj; assumption.
Qed.

(* what the bounded loop computes *)
Lemma loop_spec f : forall x,
  match loop_nat wstep f x with
  | inr y => exists k, (k < f)%nat /\ y = it (Datatypes.S k) x /\ y < n /\
                       forall j, (j < k)%nat -> n <= it (Datatypes.S j) x
  | inl z => z = it f x /\ forall j, (j < f)%nat -> n <= it (Datatypes.S j) x
  end.
Proof.
  induction f as [|f IH]; intros x; cbn [loop_nat]; [split; [reflexivity|lia]|].
  unfold wstep at 1. destruct (N.ltb_spec (pi x) n) as [Hlt|Hge].
  - exists 0%nat. repeat split; [lia|exact Hlt|lia].
  - specialize (IH (pi x)). destruct (loop_nat wstep f (pi x)) as [z|y].
    + destruct IH as [Ez Hall]. split; [exact Ez|].
      intros [|j] Hj; [exact Hge|]. apply (Hall j). lia.
    + destruct IH as (k & Hk & Ey & Hy & Hall). exists (Datatypes.S k). repeat split; [lia|exact Ey|exact Hy|].
      intros [|j] Hj; [exact Hge|]. apply (Hall j). lia.
Qed.

(* every point of [0,S) comes back to itself within S applications *)
Lemma orbit_returns x : x < S -> exists k, (1 <= k <= N.to_nat S)%nat /\ it k x = x.
Proof.
  intros Hx. set (m := N.to_nat S).
  destruct (dup_or_nodup (fun i => it i x) (Datatypes.S m)) as [(i & j & Hij & E)|Hnd].
  - exists (j - i)%nat. split; [lia|].
    replace j with (i + (j - i))%nat in E by lia. rewrite it_add in E.
    symmetry. apply (it_inj i); [exact Hx|apply it_range, Hx|exact E].
  - exfalso. assert (Hincl : incl (map (fun i => it i x) (seq 0 (Datatypes.S m))) (idx S)).
    { intros y Hy. apply in_map_iff in Hy. destruct Hy as (i & <- & _). apply in_idx, it_range, Hx. }
    pose proof (NoDup_incl_length Hnd Hincl) as Hlen.
    rewrite map_length, seq_length, idx_length in Hlen. fold m in Hlen. lia.
Qed.

(* the fuel S is enough for every start below n *)
Lemma walk_finds x : x < n -> exists y, loop_nat wstep (N.to_nat S) x = inr y.
Proof.
  intros Hx. assert (HxS : x < S) by lia.
  destruct (orbit_returns x HxS) as (k & Hk & Ek).
  pose proof (loop_spec (N.to_nat S) x) as Hs.
  destruct (loop_nat wstep (N.to_nat S) x) as [z|y]; [|exists y; reflexivity].
  destruct Hs as [_ Hall]. specialize (Hall (k - 1)%nat ltac:(lia)).
  replace (Datatypes.S (k - 1)) with k in Hall by lia. lia.
Qed.

Definition sigma (x : N) : N := match loop_nat wstep (N.to_nat S) x with inr y => y | inl _ => 0 end.

Lemma sigma_range x : x < n -> sigma x < n.
Proof.
  intros Hx. unfold sigma. destruct (walk_finds x Hx) as (y & E). rewrite E.
  pose proof (loop_spec (N.to_nat S) x) as Hs. rewrite E in Hs. destruct Hs as (k & _ & _ & Hy & _). exact Hy.
Qed.

Lemma sigma_inj x x' : x < n -> x' < n -> sigma x = sigma x' -> x = x'.
Proof.
  intros Hx Hx'. unfold sigma.
  destruct (walk_finds x Hx) as (y & E). destruct (walk_finds x' Hx') as (y' & E'). rewrite E, E'.
  pose proof (loop_spec (N.to_nat S) x) as Hs. rewrite E in Hs.
  pose proof (loop_spec (N.to_nat S) x') as Hs'. rewrite E' in Hs'.
  destruct Hs as (k & _ & Ey & _ & Hall). destruct Hs' as (k' & _ & Ey' & _ & Hall').
  intros <-. assert (HxS : x < S) by lia. assert (HxS' : x' < S) by lia.
  destruct (Nat.lt_trichotomy k k') as [Hlt|[->|Hgt]].
  - exfalso. rewrite Ey in Ey'. replace (Datatypes.S k') with (Datatypes.S k + (k' - k))%nat in Ey' by lia.
    rewrite it_add in Ey'. apply it_inj in Ey'; [|exact HxS|apply it_range, HxS'].
    specialize (Hall' (k' - k - 1)%nat ltac:(lia)).
    replace (Datatypes.S (k' - k - 1)) with (k' - k)%nat in Hall' by lia. lia.
  - rewrite Ey in Ey'. apply it_inj in Ey'; assumption.
  - exfalso. rewrite Ey' in Ey. replace (Datatypes.S k) with (Datatypes.S k' + (k - k'))%nat in Ey by lia.
    rewrite it_add in Ey. apply it_inj in Ey; [|exact HxS'|apply it_range, HxS].
    specialize (Hall (k - k' - 1)%nat ltac:(lia)).
    replace (Datatypes.S (k - k' - 1)) with (k - k')%nat in Hall by lia. lia.
Qed.
End Walk.

Lemma loop_nat_ext {A B} (f g : A -> A + B) : (forall a, f a = g a) -> forall k a, loop_nat f k a = loop_nat g k a.
Proof.
  intros H k; induction k as [|k IH]; intros a; cbn [loop_nat]; [reflexivity|].
  rewrite H. destruct (g a); [apply IH|reflexivity].
Qed.

(* ---------------------------------------------------------------------------------------------- *)
(* shuffleIndex *)

Section Shuffle.
Variable F : N -> N -> N.
Hypothesis rounds_even : Nat.even (N.to_nat FeistelRounds) = true.
Variables n seed : N.
Hypothesis n_ge : 2 <= n.
Hypothesis n_lt : n < 2 ^ 64.

Let bits := N.size (n - 1).

Lemma bits_facts : bits <= 64 /\ n <= 2 ^ bits.
Proof.
  unfold bits. split.
  - rewrite N.size_log2 by lia. assert (N.log2 (n - 1) < 64) by (apply N.log2_lt_pow2; lia). lia.
  - pose proof (N.size_gt (n - 1)). lia.
Qed.

Lemma walk_step_eq x :
  walk_step F n seed bits (sub1_64 (shl64 1 bits)) x = wstep (fun y => feistel_gen F y seed bits) n x.
Proof.
  destruct bits_facts as [Hb _]. unfold walk_step, wstep. rewrite sub1_64_pow by exact Hb.
  destruct (feistel_gen F x seed bits <? n); [reflexivity|].
  rewrite land_ones_small; [reflexivity|]. apply feistel_range; assumption.
Qed.

Lemma walk_fuel_nat : Pos.to_nat (walk_fuel bits) = N.to_nat (2 ^ bits).
Proof.
  unfold walk_fuel. pose proof (pow2_pos bits). destruct (2 ^ bits) as [|p]; [lia|reflexivity].
Qed.

Definition sigma_n : N -> N := sigma (fun y => feistel_gen F y seed bits) (2 ^ bits) n.

Lemma shuffle_index_sigma x : x < n -> shuffle_index_gen F x n seed = Some (sigma_n x).
Proof.
  intros Hx. destruct bits_facts as [Hb Hn].
  unfold shuffle_index_gen. destruct (N.leb_spec n 1); [lia|]. fold bits.
  rewrite loop_pos_nat, walk_fuel_nat.
  rewrite (loop_nat_ext _ _ walk_step_eq).
  unfold sigma_n, sigma.
  destruct (walk_finds (fun y => feistel_gen F y seed bits) (2 ^ bits) n
              (fun y _ => feistel_range F bits Hb rounds_even y seed)
              (fun y y' => feistel_inj F bits Hb rounds_even y y' seed) Hn x Hx) as (y & E).
  rewrite E. reflexivity.
Qed.

Lemma sigma_n_range x : x < n -> sigma_n x < n.
Proof.
  destruct bits_facts as [Hb Hn]. apply sigma_range; [| |exact Hn].
  - intros y _. apply feistel_range; assumption.
  - intros y y'. apply feistel_inj; assumption.
Qed.

Lemma sigma_n_inj x x' : x < n -> x' < n -> sigma_n x = sigma_n x' -> x = x'.
Proof.
  destruct bits_facts as [Hb Hn]. apply sigma_inj; [| |exact Hn].
  - intros y _. apply feistel_range; assumption.
  - intros y y'. apply feistel_inj; assumption.
Qed.
End Shuffle.

(* the value the Go function returns (the loop never runs out of fuel, see shuffle_total) *)
Definition shuffle_value (F : N -> N -> N) (n seed x : N) : N :=
  match shuffle_index_gen F x n seed with Some y => y | None => 0 end.

Section ShuffleAll.
Variable F : N -> N -> N.
Hypothesis rounds_even : Nat.even (N.to_nat FeistelRounds) = true.

Lemma shuffle_total n seed x : 1 <= n < 2 ^ 64 -> x < n ->
  exists y, shuffle_index_gen F x n seed = Some y /\ y < n.
Proof.
  intros Hn Hx. destruct (N.eq_dec n 1) as [->|Hne].
  - exists 0. split; [reflexivity|lia].
  - exists (sigma_n F n seed x). split.
    + apply shuffle_index_sigma; try assumption; lia.
    + apply sigma_n_range; try assumption; lia.
Qed.

Lemma shuffle_inj n seed x x' : 1 <= n < 2 ^ 64 -> x < n -> x' < n ->
  shuffle_value F n seed x = shuffle_value F n seed x' -> x = x'.
Proof.
  intros Hn Hx Hx'. destruct (N.eq_dec n 1) as [->|Hne]; [lia|].
  unfold shuffle_value. rewrite !shuffle_index_sigma by (try assumption; lia).
  apply sigma_n_inj; try assumption; lia.
Qed.

Lemma shuffle_range n seed x : 1 <= n < 2 ^ 64 -> x < n -> shuffle_value F n seed x < n.
Proof.
  intros Hn Hx. unfold shuffle_value. destruct (shuffle_total n seed x Hn Hx) as (y & -> & Hy). exact Hy.
Qed.

Lemma shuffle_perm n seed : 1 <= n < 2 ^ 64 -> perm_of_range (shuffle_value F n seed) n.
Proof.
  intros Hn. unfold perm_of_range. apply NoDup_Permutation_bis.
  - apply NoDup_map_on; [|apply idx_NoDup].
    intros a b Ha Hb. apply in_idx in Ha, Hb. apply shuffle_inj; assumption.
  - rewrite map_length. apply Nat.le_refl.
  - intros y Hy. apply in_map_iff in Hy. destruct Hy as (x & <- & Hx). apply in_idx in Hx.
    apply in_idx, shuffle_range; assumption.
Qed.
End ShuffleAll.

Lemma feistel_rounds_even : Nat.even (N.to_nat FeistelRounds) = true.
Proof. reflexivity. Qed.
