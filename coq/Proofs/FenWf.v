(* The executable representation check is sound for [wf]. *)
From Coq Require Import NArith ZArith List Bool Lia PeanoNat.
From Chess3 Require Import Base.Bits Model.Types Model.BoardDef Model.Board Spec.FenSpec.
Import ListNotations.
Open Scope N_scope.

Lemma in_squares64 s : s < 64 -> In s squares64.
Proof.
  intros H. unfold squares64. apply in_map_iff. exists (N.to_nat s). split; [apply N2Nat.id|].
  apply in_seq. lia.
Qed.

Lemma high_bit_false x s : x < two64 -> 64 <= s -> N.testbit x s = false.
Proof. intros Hx Hs. apply (lt_two64_testbit x Hx s Hs). Qed.

Theorem wf_b_sound b : wf_b b = true -> wf b.
Proof.
  unfold wf_b. intros H.
  repeat (apply andb_true_iff in H; destruct H as [H ?]).
  repeat match goal with
         | X : (_ =? _)%nat = true |- _ => apply Nat.eqb_eq in X
         | X : (_ =? _) = true |- _ => apply N.eqb_eq in X
         | X : (_ <? _) = true |- _ => apply N.ltb_lt in X
         end.
  match goal with X : forallb _ [1; 2; 3; 4; 5; 6] = true |- _ => rename X into Hp end.
  match goal with X : forallb (fun s => piece_at b s <=? 6) squares64 = true |- _ => rename X into Hc end.
  match goal with X : forallb (fun s => (_ || _) && _) squares64 = true |- _ => rename X into Hw end.
  rewrite forallb_forall in Hp, Hc, Hw.
  constructor; try assumption.
  - intros s Hs. apply N.leb_le. apply Hc, in_squares64, Hs.
  - intros p s Hr.
    assert (Hin : In p [1; 2; 3; 4; 5; 6]) by (cbn; lia).
    specialize (Hp p Hin). apply andb_true_iff in Hp. destruct Hp as [Hlt Hall].
    apply N.ltb_lt in Hlt. rewrite forallb_forall in Hall.
    destruct (N.ltb_spec s 64) as [Hs|Hs]; cbn [andb].
    + apply eqb_prop. apply Hall, in_squares64, Hs.
    + apply high_bit_false; assumption.
  - intros s T. destruct (N.lt_ge_cases s 64) as [Hs|Hs].
    + split; [exact Hs|]. specialize (Hw s (in_squares64 s Hs)). apply andb_true_iff in Hw. destruct Hw as [Hw _].
      rewrite T in Hw. cbn in Hw. apply negb_true_iff, N.eqb_neq in Hw. exact Hw.
    + rewrite high_bit_false in T by assumption. discriminate.
  - intros s. destruct (N.ltb_spec s 64) as [Hs|Hs]; cbn [andb].
    + specialize (Hw s (in_squares64 s Hs)). apply andb_true_iff in Hw. destruct Hw as [_ Hw].
      apply eqb_prop in Hw. exact Hw.
    + apply high_bit_false; assumption.
Qed.
