(* Specification-level notions of C11, independent of the parser/printer model:
   - the material clause of `valid` (DESIGN.md 4.3) on a board and on the text of a placement field,
   - the representation invariant "the three encodings of the placement agree" (wf),
   - the judges of the witness search (they look only at inputs and at what the implementation
     produced, never at Model/Fen.v). *)
From Coq Require Import NArith ZArith List Bool.
From Chess3 Require Import Base.Bits Model.Types Model.BoardDef Model.Board Gen.Zobrist.
Import ListNotations.

(* ------------------------------------------------------------------------------------------ *)
(* material: one king, and pawns + pieces that must be promoted pawns <= 8, per side *)

Definition count_of (b : board) (c : color) (p : N) : Z :=
  Z.of_N (popcount (band (colors b c) (pieces b p))).

Definition excess (n base : Z) : Z := Z.max 0 (n - base).

Definition material_ok (kings pawns knights bishops rooks queens : Z) : bool :=
  ((kings =? 1) &&
   (pawns + excess knights 2 + excess bishops 2 + excess rooks 2 + excess queens 1 <=? 8))%Z.

Definition valid_material_side (b : board) (c : color) : bool :=
  material_ok (count_of b c King) (count_of b c Pawn) (count_of b c Knight) (count_of b c Bishop)
              (count_of b c Rook) (count_of b c Queen).

Definition valid_material (b : board) : bool :=
  valid_material_side b White && valid_material_side b Black.

(* the same on the text of a FEN placement field: count the letters *)
Definition count_byte (c : N) (s : list N) : Z := Z.of_nat (length (filter (N.eqb c) s)).

(* the placement text describes a board: 8 ranks separated by '/', every rank made of piece letters
   and digits 1..8 that add up to exactly 8 squares.  (The engine's parser lets an over-long rank run
   into the next one and overwrite squares; such a text is not the FEN of any position, and letter
   counts say nothing about the board it produces.) *)
Fixpoint rank_width (r : list N) : Z :=
  match r with
  | [] => 0%Z
  | c :: t => (if (49 <=? c)%N && (c <=? 56)%N then Z.of_N (c - 48) else 1) + rank_width t
  end.
Fixpoint split_ranks (s : list N) (cur : list N) : list (list N) :=
  match s with
  | [] => [rev cur]
  | c :: t => if (c =? 47)%N then rev cur :: split_ranks t [] else split_ranks t (c :: cur)
  end.
Definition placement_wellformed (placement : list N) : bool :=
  let rs := split_ranks placement [] in
  (length rs =? 8)%nat && forallb (fun r => (rank_width r =? 8)%Z) rs.

Definition text_material_ok (placement : list N) : bool :=
  let n c := count_byte c placement in
  placement_wellformed placement &&
  material_ok (n 75%N) (n 80%N) (n 78%N) (n 66%N) (n 82%N) (n 81%N) &&     (* K P N B R Q *)
  material_ok (n 107%N) (n 112%N) (n 110%N) (n 98%N) (n 114%N) (n 113%N).  (* k p n b r q *)

(* ------------------------------------------------------------------------------------------ *)
(* wf: the representation invariant without the hash history.  No chess validity is involved:
   any mailbox of piece codes 0..6 with any colouring of the occupied squares qualifies,
   the empty board of the test-suite included. *)

Open Scope N_scope.

Record wf (b : board) : Prop := {
  wf_len_sq : length (sq2p b) = 64%nat;
  wf_len_pcs : length (pcs b) = 7%nat;
  wf_len_cols : length (cols b) = 2%nat;
  wf_codes : forall s, s < 64 -> piece_at b s <= 6;
  wf_nopiece : pieces b NoPiece = 0;
  (* piece sets = per-square map *)
  wf_pieces : forall p s, 1 <= p <= 6 -> N.testbit (pieces b p) s = (s <? 64) && (piece_at b s =? p);
  (* colour sets partition the occupied squares *)
  wf_white : forall s, N.testbit (colors b White) s = true -> s < 64 /\ piece_at b s <> 0;
  wf_black : forall s, N.testbit (colors b Black) s =
                       (s <? 64) && negb (piece_at b s =? 0) && negb (N.testbit (colors b White) s);
  wf_ep : ep b < 64;
  wf_castles : castles b < 16
}.

(* executable version (sound: Proofs/FenWf.v; used by the Examples) *)
Definition wf_b (b : board) : bool :=
  (length (sq2p b) =? 64)%nat && (length (pcs b) =? 7)%nat && (length (cols b) =? 2)%nat &&
  forallb (fun s => piece_at b s <=? 6) squares64 &&
  (pieces b NoPiece =? 0) &&
  forallb (fun p => (pieces b p <? two64) &&
                    forallb (fun s => Bool.eqb (N.testbit (pieces b p) s) (piece_at b s =? p)) squares64)
          [1; 2; 3; 4; 5; 6] &&
  (colors b White <? two64) && (colors b Black <? two64) &&
  forallb (fun s => (negb (N.testbit (colors b White) s) || negb (piece_at b s =? 0)) &&
                    Bool.eqb (N.testbit (colors b Black) s)
                             (negb (piece_at b s =? 0) && negb (N.testbit (colors b White) s))) squares64 &&
  (ep b <? 64) && (castles b <? 16).

(* ------------------------------------------------------------------------------------------ *)
(* judges *)

Open Scope Z_scope.

Fixpoint zlist_eqb (a b : list Z) : bool :=
  match a, b with
  | [], [] => true
  | x :: a', y :: b' => (x =? y) && zlist_eqb a' b'
  | _, _ => false
  end.

Definition is_panic_out (o : list Z) : bool := zlist_eqb o [-1; -1; -1].

(* split a board-out encoding (with history) off the front of a list *)
Definition split_board_out (l : list Z) : option (list Z * list Z * list Z) :=
  (* (15 fixed fields, hashes, rest) *)
  let fixed := firstn 15 l in
  match skipn 15 l with
  | nh :: r =>
      if (length fixed =? 15)%nat && (0 <=? nh) && (Z.to_nat nh <=? length r)%nat
      then Some (fixed, firstn (Z.to_nat nh) r, skipn (Z.to_nat nh) r) else None
  | [] => None
  end.

(* stream c11rt: board-in ++ | tlen text.. gate cls [board-out t2flag]
   verdicts: [1] holds or outside the domain; [0; 1; clock] print->parse rejected; [0; 2] parsed position differs;
   [0; 3] hash history after FromFEN is not [calculateHash]; [0; 4] printing the parsed position gives
   another text; [0; 5] the piece-count gate rejects valid material; [0; 9] a panic; [0; 99] malformed *)
Definition judge_c11rt (io : list Z) : list Z :=
  match decode_board io with
  | Some (b, out) =>
    if is_panic_out out then [0; 9] else
    match out with
    | tlen :: r =>
      let n := Z.to_nat tlen in
      match skipn n r with
      | gate :: cls :: r2 =>
        if valid_material b && negb (gate =? 0) then [0; 5]
        else if negb ((1 <=? full b) && (0 <=? fifty b)) then [1]          (* outside the domain *)
        else if negb (cls =? 0) then [0; 1; fifty b]
        else
          match split_board_out r2 with
          | Some (fixed, hs, t2 :: _) =>
              if negb (zlist_eqb fixed (encode_board_nohist b)) then [0; 2]
              else if negb (zlist_eqb hs [Z.of_N (calc_hash zob_real b)]) then [0; 3]
              else if negb (t2 =? 1) then [0; 4]
              else [1]
          | _ => [0; 99]
          end
      | _ => [0; 99]
      end
    | [] => [0; 99]
    end
  | None => [0; 99]
  end.

(* stream c11str: flag n s_1..s_n t_1..t_5 | cls [board-out tlen text..] epdcls [res2 board-out-nohist]
   [0; 9] panic; [0; 6] the tuner's epd.Parse and ParseFEN disagree on a line "<fen>; r";
   [0; 7] a canonical FEN (flag = 1: written by the harness's own printer from a valid position with
   clock <= 100) is rejected or is printed back as a different text *)
Definition valid_epd_suffix (t : list Z) : bool :=
  zlist_eqb t [59; 32; 49; 46; 48] || zlist_eqb t [59; 32; 48; 46; 53] || zlist_eqb t [59; 32; 48; 46; 48].

Definition judge_c11str (io : list Z) : list Z :=
  match io with
  | flag :: n :: r =>
    let k := Z.to_nat n in
    let str := firstn k r in
    let rest := skipn k r in
    (* the harness always sends exactly 5 suffix bytes; the output starts after them *)
    let suffix := firstn 5 rest in
    let out := skipn 5 rest in
    if is_panic_out out then [0; 9]
    else
      match out with
      | cls :: o =>
        if cls =? 0 then
          match split_board_out o with
          | Some (fixed, _, tlen :: o2) =>
              let text := firstn (Z.to_nat tlen) o2 in
              if (flag =? 1) && negb (zlist_eqb text str) then [0; 7]
              else if negb (valid_epd_suffix suffix) then [1]
              else match skipn (Z.to_nat tlen) o2 with
                   | ecls :: _ :: eb => if (ecls =? 0) && zlist_eqb fixed eb then [1] else [0; 6]
                   | _ => [0; 6]
                   end
          | _ => [0; 99]
          end
        else if flag =? 1 then [0; 7]
        else if negb (valid_epd_suffix suffix) then [1]
        else match o with
             | ecls :: _ => if ecls =? 1 then [1] else [0; 6]
             | [] => [0; 99]
             end
      | [] => [0; 99]
      end
  | _ => [0; 99]
  end.

(* stream c11uci: flag n (n numbers: tokensA 257 tokensB, tokens separated by 256)
                  | codeA codeB board-out(after A) board-out(after A then B) tlen text..
   [0; 1] a rejected position command changed the current position; [0; 2] the gate rejected valid
   material; [0; 3] the FEN of a valid position was not accepted; [0; 4] `fen` does not print the
   accepted canonical text; [0; 9] panic *)
Fixpoint jsplit_on (sepv : Z) (l : list Z) (cur : list Z) : list (list Z) :=
  match l with
  | [] => [rev cur]
  | x :: r => if x =? sepv then rev cur :: jsplit_on sepv r [] else jsplit_on sepv r (x :: cur)
  end.

Fixpoint join_z (ts : list (list Z)) : list Z :=
  match ts with
  | [] => []
  | [t] => t
  | t :: r => t ++ 32 :: join_z r
  end.

Definition judge_c11uci (io : list Z) : list Z :=
  match io with
  | flag :: n :: r =>
    let inp := firstn (Z.to_nat n) r in
    let out := skipn (Z.to_nat n) r in
    if is_panic_out out then [0; 9] else
    match jsplit_on 257 inp [] with
    | [ta; tb] =>
      let tokb := jsplit_on 256 tb [] in
      match out with
      | codeA :: codeB :: o =>
        match split_board_out o with
        | Some (f1, h1, o2) =>
          match split_board_out o2 with
          | Some (f2, h2, tlen :: text) =>
            let placement := map Z.to_N (nth 1 tokb []) in
            if negb (codeB =? 0) && negb (zlist_eqb f1 f2 && zlist_eqb h1 h2) then [0; 1]
            else if (codeB =? 3) && text_material_ok placement then [0; 2]
            else if (flag =? 1) && negb (codeB =? 0) then [0; 3]
            else if (flag =? 1) && negb (zlist_eqb (firstn (Z.to_nat tlen) text) (join_z (firstn 6 (skipn 1 tokb))))
                 then [0; 4]
            else [1]
          | _ => [0; 99]
          end
        | None => [0; 99]
        end
      | _ => [0; 99]
      end
    | _ => [0; 99]
    end
  | _ => [0; 99]
  end.

(* stream c11seq: n (commands separated by 257, tokens by 256)
                  | board-out(fresh driver) then per command: code board-out fcode board-out(fresh)
   A sequence of position commands on ONE driver, and every command once more alone on a fresh
   driver.  The judge compares the implementation with itself only:
   [0; 5] a command is reported differently in the sequence than on a fresh driver (e.g. a rejected
          FEN silently accepted the second time);
   [0; 1] after a command that a fresh driver rejects (too few arguments, parser error, piece-count
          gate) or that is no position command at all the board differs from the board before it;
   [0; 6] after an accepted command the board is not root + moves as a fresh driver sets it up
          (hash history included);  [0; 9] panic *)
Definition tok_is (t : list Z) (w : list Z) : bool := zlist_eqb t w.

Fixpoint judge_seq (cmds : list (list Z)) (pf ph : list Z) (out : list Z) : list Z :=
  match cmds with
  | [] => [1]
  | c :: r =>
    match out with
    | code :: o1 =>
      match split_board_out o1 with
      | Some (f, h, fcode :: o2) =>
        match split_board_out o2 with
        | Some (ff, fh, o3) =>
          let first := match c with [] => [] | _ => hd [] (jsplit_on 256 c []) end in
          let is_pos := tok_is first [115; 116; 97; 114; 116; 112; 111; 115] || tok_is first [102; 101; 110] in
          let rejected := (1 <=? fcode) && (fcode <=? 3) in
          if negb (code =? fcode) then [0; 5]
          else if negb is_pos || rejected then
            (if zlist_eqb f pf && zlist_eqb h ph then judge_seq r f h o3 else [0; 1])
          else if zlist_eqb f ff && zlist_eqb h fh then judge_seq r f h o3
          else [0; 6]
        | None => [0; 99]
        end
      | _ => [0; 99]
      end
    | [] => [0; 99]
    end
  end.

Definition judge_c11seq (io : list Z) : list Z :=
  match io with
  | n :: r =>
    let inp := firstn (Z.to_nat n) r in
    let out := skipn (Z.to_nat n) r in
    if is_panic_out out then [0; 9] else
    match split_board_out out with
    | Some (f0, h0, o) => judge_seq (jsplit_on 257 inp []) f0 h0 o
    | None => [0; 99]
    end
  | [] => [0; 99]
  end.

(* stream c11reuse: mode k (flag_i n_i bytes_i)*k | per string: cls [board-out tlen text..] fcls [board-out]
   One Board value is handed to the parser k times in a row; the second half of each record is the
   same call on a fresh Board.  [0; 8] the outcome or the position parsed into the reused Board
   differs from the one parsed into a fresh Board (the parser's result must depend on the text alone);
   [0; 7] a canonical FEN (flag = 1) is rejected, or the reused Board prints a different text;
   [0; 9] panic *)
Fixpoint judge_reuse_items (k : nat) (l : list Z) : list (Z * list Z) * list Z :=
  match k, l with
  | S k', flag :: n :: r =>
      let '(items, rest) := judge_reuse_items k' (skipn (Z.to_nat n) r) in
      ((flag, firstn (Z.to_nat n) r) :: items, rest)
  | _, _ => ([], l)
  end.

Fixpoint judge_reuse (items : list (Z * list Z)) (out : list Z) : list Z :=
  match items with
  | [] => [1]
  | (flag, str) :: r =>
    match out with
    | cls :: o1 =>
      if cls =? 0 then
        match split_board_out o1 with
        | Some (f, h, tlen :: o2) =>
          let text := firstn (Z.to_nat tlen) o2 in
          match skipn (Z.to_nat tlen) o2 with
          | fcls :: o3 =>
            if negb (fcls =? 0) then [0; 8] else
            match split_board_out o3 with
            | Some (ff, fh, o4) =>
              if negb (zlist_eqb f ff && zlist_eqb h fh) then [0; 8]
              else if (flag =? 1) && negb (zlist_eqb text str) then [0; 7]
              else judge_reuse r o4
            | None => [0; 99]
            end
          | [] => [0; 99]
          end
        | _ => [0; 99]
        end
      else
        match o1 with
        | fcls :: o2 => if negb (fcls =? cls) then [0; 8] else if flag =? 1 then [0; 7] else judge_reuse r o2
        | [] => [0; 99]
        end
    | [] => [0; 99]
    end
  end.

Definition judge_c11reuse (io : list Z) : list Z :=
  match io with
  | _ :: k :: r =>
    let '(items, out) := judge_reuse_items (Z.to_nat k) r in
    if is_panic_out out then [0; 9] else judge_reuse items out
  | _ => [0; 99]
  end.
