(* Ground work for the legality theorems about the closed search model (Proofs/SearchModelLegal.v):
   - the class of positions the search visits: [good b] = Rep b /\ valid (abs b), closed under every
     move that passes the search's legality filter (C01 + C02 make_inv) and under the null move when
     the side to move is not in check (proved here);
   - every move the search makes there (generated, or accepted by IsPseudoLegal) is undone exactly
     (C03 via Proofs/ComposeValid.v);
   - the table invariant [tt_ok]: every stored move is a 15-bit encoding.  IsPseudoLegal ignores bit
     15 of an encoding, so a table holding a move with that bit set would let the search play (and
     report) an encoding the generator never emits; the search itself only stores moves it was handed
     by the picker, so the invariant is kept (new / cleared tables satisfy it);
   - [zline b pv]: pv is a line of playable moves from b. *)
From Coq Require Import NArith ZArith List Bool Lia.
From Chess3 Require Import Proofs.LayoutNow.
From Chess3 Require Import Base.Bits Base.Word Model.Types Model.BoardDef Model.Board Model.Search
  Spec.Chess Spec.Rep Spec.Applicable.
From Chess3 Require Model.Movegen Model.TT Model.Pv Model.Picker.
From Chess3 Require Proofs.SuccFacts Proofs.SpecLemmas Proofs.UndoMove Proofs.BoardExamples Proofs.GenRep Proofs.GenMake Proofs.GenNoDup
  Proofs.GenTop Proofs.IplC05 Proofs.ComposeValid Proofs.ComposeReach Proofs.PvProofs.
Import ListNotations.
Open Scope Z_scope.

(* ------------------------------------------------------------------------------------------ *)
(* positions *)

Definition good (b : board) : Prop := Rep b /\ valid (abs b) = true.

Lemma good_gen_applicable b m : good b -> In m (Movegen.gen_all b) -> applicable b m = true.
Proof. intros [HR HV] H. now apply ComposeValid.gen_applicable_valid. Qed.

Lemma good_ipl_applicable b m : good b -> Movegen.is_pseudo_legal b m = true -> applicable b m = true.
Proof. intros [HR HV] H. now apply ComposeValid.pseudo_legal_applicable_valid. Qed.

Lemma good_undo b m b1 r : good b -> applicable b m = true -> make zob b m = (b1, r) -> undo zob b1 m r = b.
Proof.
  intros [HR _] Ha E. pose proof (C03_move_now_l zob b m HR Ha) as H. now rewrite E in H.
Qed.

(* the search's legality filter, `b.InCheck(b.STM.Flip())` after MakeMove, is the filter of [playable] *)
Lemma filter_is_playable b m b1 r : In m (Movegen.gen_all b) -> make zob b m = (b1, r) ->
  in_check b1 (flip (stm b1)) = false -> In m (Movegen.playable zob b).
Proof.
  intros Hg E Hc. unfold Movegen.playable. apply filter_In. split; [exact Hg|].
  rewrite E. cbn [fst]. replace (stm b) with (flip (stm b1)); [now rewrite Hc|].
  replace b1 with (fst (make zob b m)) by now rewrite E. rewrite GenMake.make_stm. apply SpecLemmas.flip_flip.
Qed.

Lemma playable_good b m : good b -> In m (Movegen.playable zob b) -> good (fst (make zob b m)).
Proof.
  intros [HR HV] Hp. apply (proj1 (GenTop.playable_legal zob b HR HV)) in Hp. destruct Hp as [_ HL].
  destruct (ComposeReach.make_inv zob BoardExamples.zob_real_w64 b m HR HV HL) as (R & V & _).
  split; assumption.
Qed.

Lemma playable_gen b m : In m (Movegen.playable zob b) -> In m (Movegen.gen_all b).
Proof. unfold Movegen.playable. intros H. apply filter_In in H. tauto. Qed.

(* the encoding 0 (a1a1, the engine's null move) is never playable *)
Lemma pseudo_spec_0 p : pseudo_spec p 0 = false.
Proof.
  unfold pseudo_spec. change (mv_from 0) with 0%N. change (mv_to 0) with 0%N. unfold owned_by.
  destruct (who p 0) as [[c' k]|]; [|reflexivity]. destruct (color_eqb (turn p) c'); reflexivity.
Qed.

Lemma null_not_playable b : good b -> ~ In 0%N (Movegen.playable zob b).
Proof.
  intros [HR HV] H. apply (proj1 (GenTop.playable_legal zob b HR HV)) in H. destruct H as [_ HL].
  apply SuccFacts.legal_parts in HL. rewrite pseudo_spec_0 in HL. destruct HL as [HL _]. discriminate HL.
Qed.

Lemma zero_not_playable b : good b -> ~ In 0 (map zN (Movegen.playable zob b)).
Proof.
  intros Hg H. apply in_map_iff in H. destruct H as (m & Hm & Hi). destruct m; [|discriminate Hm].
  exact (null_not_playable b Hg Hi).
Qed.

(* the null move *)
Lemma abs_make_null b :
  abs (fst (make_null zob b)) = mkPos (at_ (abs b)) (flip (stm b)) (castles b) None (fifty b) (full b).
Proof.
  unfold make_null, make_null_l. destruct (ep b =? 0)%N eqn:E; cbn [negb fst]; unfold abs;
    cbn [set_hashes set_stm set_ep sq2p pcs cols hashes full stm ep castles fifty piece_at colors]; [rewrite E|]; reflexivity.
Qed.

Lemma null_valid b : Rep b -> valid (abs b) = true -> in_check b (stm b) = false ->
  valid (abs (fst (make_null zob b))) = true.
Proof.
  intros HR HV Hc. rewrite abs_make_null.
  set (q := mkPos (at_ (abs b)) (flip (stm b)) (castles b) None (fifty b) (full b)).
  assert (E : at_ q = at_ (abs b)) by reflexivity.
  destruct (SpecLemmas.valid_inv _ HV) as (V1 & V2 & V3 & V4 & V5 & V6 & V7).
  apply SpecLemmas.valid_intro.
  - exact V1.
  - rewrite (SpecLemmas.material_ok_at _ _ E). exact V2.
  - rewrite (SpecLemmas.material_ok_at _ _ E). exact V3.
  - rewrite (SpecLemmas.no_pawn_on_edge_at _ _ E). exact V4.
  - change (turn q) with (flip (stm b)). rewrite SpecLemmas.flip_flip, (SpecLemmas.in_check_at _ _ E).
    rewrite <- GenMake.in_check_abs; [exact Hc|apply GenRep.Rep_PRep; exact HR|].
    destruct (GenRep.king_unique b (stm b) (GenRep.Rep_PRep b HR) HV) as (k & K1 & _ & K3). exists k. split; assumption.
  - unfold rights_consistent in *. rewrite forallb_forall in *. intros [c long] Hi. specialize (V6 _ Hi). cbn beta iota in *.
    rewrite !(SpecLemmas.holds_at _ _ E). exact V6.
  - reflexivity.
Qed.

Lemma null_good b b1 r : good b -> in_check b (stm b) = false -> make_null zob b = (b1, r) ->
  good b1 /\ undo_null b1 r = b.
Proof.
  intros [HR HV] Hc E. split; [split|].
  - replace b1 with (fst (make_null zob b)) by now rewrite E.
    apply UndoMove.make_null_Rep; [exact BoardExamples.zob_real_w64|exact HR].
  - replace b1 with (fst (make_null zob b)) by now rewrite E. now apply null_valid.
  - pose proof (C03_null_now_l zob b HR) as H. now rewrite E in H.
Qed.

(* ------------------------------------------------------------------------------------------ *)
(* move encodings as the engine state holds them (Z) *)

Definition mv_ok (x : Z) : Prop := 0 <= x < 32768.

Lemma zN_toN x : 0 <= x -> zN (Z.to_N x) = x.
Proof. intros H. unfold zN. now rewrite Z2N.id. Qed.
Lemma toN_zN m : Z.to_N (zN m) = m.
Proof. unfold zN. apply N2Z.id. Qed.

(* a move of the picker's frame: a generated move of b *)
Definition genmv (b : board) (mw : Picker.wmove) : Prop := In (fst mw) (map zN (Movegen.gen_all b)).

Lemma genmv_w b m w w' : genmv b (m, w) -> genmv b (m, w').
Proof. exact (fun H => H). Qed.

Lemma genmv_elim b mw : genmv b mw ->
  In (Z.to_N (fst mw)) (Movegen.gen_all b) /\ fst mw = zN (Z.to_N (fst mw)) /\ mv_ok (fst mw).
Proof.
  unfold genmv. intros H. apply in_map_iff in H. destruct H as (m & <- & Hm). rewrite toN_zN.
  split; [exact Hm|]. split; [reflexivity|]. pose proof (GenNoDup.gen_all_lt b m Hm). unfold mv_ok, zN. lia.
Qed.

(* the hash move, once IsPseudoLegal accepted it (C05) *)
Lemma hash_genmv b h w : good b -> mv_ok h -> Movegen.is_pseudo_legal b (Z.to_N h) = true -> genmv b (h, w).
Proof.
  intros [HR HV] [H0 H1] Hi. unfold genmv. cbn [fst]. rewrite <- (zN_toN h H0). apply in_map.
  apply (IplC05.C05_closed b HR HV); [lia|exact Hi].
Qed.

(* ------------------------------------------------------------------------------------------ *)
(* lines of playable moves *)

Fixpoint zline (b : board) (pv : list Z) : Prop :=
  match pv with
  | [] => True
  | m :: rest => In m (map zN (Movegen.playable zob b)) /\ zline (fst (make zob b (Z.to_N m))) rest
  end.

Lemma in_zN_playable b m : In m (map zN (Movegen.playable zob b)) ->
  In (Z.to_N m) (Movegen.playable zob b) /\ mv_ok m.
Proof.
  intros H. apply in_map_iff in H. destruct H as (x & <- & Hx). rewrite toN_zN. split; [exact Hx|].
  pose proof (GenNoDup.gen_all_lt b x (playable_gen b x Hx)). unfold mv_ok, zN. lia.
Qed.

(* ------------------------------------------------------------------------------------------ *)
(* the transposition table only holds 15-bit move encodings *)

Definition entry_ok (e : TT.entry) : Prop := mv_ok (TT.e_move e).
Definition bucket_ok (bk : TT.bucket) : Prop := Forall entry_ok (TT.b_entries bk).
Definition tt_ok (t : TT.table) : Prop := Forall bucket_ok t.

Lemma zero_entry_ok : entry_ok TT.zero_entry.
Proof. unfold entry_ok, mv_ok. cbn. lia. Qed.

Lemma zero_bucket_ok : bucket_ok TT.zero_bucket.
Proof. unfold bucket_ok, TT.zero_bucket. cbn [TT.b_entries]. apply Forall_forall. intros e H. apply repeat_spec in H. subst e. exact zero_entry_ok. Qed.

Lemma nth_ok {A} (P : A -> Prop) l n d : Forall P l -> P d -> P (nth n l d).
Proof.
  intros Hl Hd. destruct (nth_in_or_default n l d) as [H|H]; [|now rewrite H].
  eapply Forall_forall in Hl; eauto.
Qed.

Lemma set_nth_ok {A} (P : A -> Prop) x : forall l n, Forall P l -> P x -> Forall P (TT.set_nth n x l).
Proof.
  induction l as [|a l IH]; intros n Hl Hx; [destruct n; constructor|].
  inversion Hl; subst. destruct n; cbn [TT.set_nth]; constructor; auto.
Qed.

Lemma tt_ok_lookup t h e : tt_ok t -> TT.lookup t h = Some e -> mv_ok (TT.e_move e).
Proof.
  intros Ht H. unfold TT.lookup in H. destruct (TT.match64 _ _) as [ix|]; [|discriminate H].
  injection H as <-. apply (nth_ok entry_ok); [|exact zero_entry_ok].
  unfold TT.tt_bucket. apply (nth_ok bucket_ok); [exact Ht|exact zero_bucket_ok].
Qed.

Lemma scan_loop_ok : forall es i bkeys minQ replace hashKey gen d sm typ ix sm',
  Forall entry_ok es -> mv_ok sm ->
  TT.scan_loop es i bkeys minQ replace hashKey gen d sm typ = TT.ScanReplace ix sm' -> mv_ok sm'.
Proof.
  induction es as [|t es IH]; intros i bkeys minQ replace hashKey gen d sm typ ix sm' He Hs H; cbn [TT.scan_loop] in H.
  - injection H as _ <-. exact Hs.
  - apply Forall_cons_iff in He. destruct He as [Ht He]. destruct (Z.land bkeys TT.lane_mask =? hashKey).
    + destruct (negb (typ =? _) && _ && _); [discriminate H|]. injection H as _ <-.
      destruct (sm =? 0); [exact Ht|exact Hs].
    + exact (IH _ _ _ _ _ _ _ _ _ _ _ He Hs H).
Qed.

Lemma tt_ok_insert t hash gen d ply sm value typ : tt_ok t -> mv_ok sm ->
  tt_ok (TT.insert t hash gen d ply sm value typ).
Proof.
  intros Ht Hs. unfold TT.insert. apply (set_nth_ok bucket_ok); [exact Ht|].
  set (bk := nth _ t TT.zero_bucket).
  assert (Hb : bucket_ok bk) by (apply (nth_ok bucket_ok); [exact Ht|exact zero_bucket_ok]).
  unfold TT.insert_bucket. destruct (TT.scan_loop _ _ _ _ _ _ _ _ _ _) as [|ix sm'] eqn:E; [exact Hb|].
  unfold bucket_ok. cbn [TT.b_entries]. apply (set_nth_ok entry_ok); [exact Hb|].
  unfold entry_ok. cbn [TT.e_move]. eapply scan_loop_ok; eauto.
Qed.

Lemma tt_ok_repeat n : tt_ok (repeat TT.zero_bucket n).
Proof. apply Forall_forall. intros x H. apply repeat_spec in H. subst x. exact zero_bucket_ok. Qed.

Lemma tt_ok_new size t : TT.tt_new size = Some t -> tt_ok t.
Proof.
  unfold TT.tt_new, TT.tt_resize. destruct (TT.valid_size size); [|discriminate].
  destruct (_ <=? _); intros H; injection H as <-; [rewrite firstn_nil; constructor|apply tt_ok_repeat].
Qed.

Lemma tt_ok_clear t : tt_ok (TT.tt_clear t).
Proof. unfold TT.tt_clear. apply Forall_forall. intros x H. apply in_map_iff in H. destruct H as (_ & <- & _). exact zero_bucket_ok. Qed.

(* ------------------------------------------------------------------------------------------ *)
(* the part of the engine state the legality theorems need *)

Definition state_ok (st : sstate) : Prop := tt_ok (s_tt st) /\ PvProofs.wf (s_pv st).

Lemma tt_insert_ok st b d ply sm v t : tt_ok (s_tt st) -> mv_ok sm -> tt_ok (s_tt (tt_insert st b d ply sm v t)).
Proof. intros H1 H2. unfold tt_insert. cbn [s_tt set_tt]. now apply tt_ok_insert. Qed.
