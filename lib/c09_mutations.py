#!/usr/bin/env python3
"""Mutation trial for property C09 (not part of ./check): applies each property-breaking edit of
board/attacks.go to a PRIVATE worktree of the repo (MUT_REPO, e.g. `git -C /repo worktree add --detach
/root/scratch/c09-repo HEAD`), runs `./check C09 --tier quick` of the framework copy MUT_VERIF against it
(VERIF_REPO) and prints the VIOLATION lines with the witness FEN. M9 is a deliberately harmless edit and
must stay silent. Usage: python3 lib/c09_mutations.py [M1 M7 ...]"""
import subprocess, sys, os, json, re, time
REPO=os.environ.get("MUT_REPO","/root/scratch/c09-repo"); V=os.environ.get("MUT_VERIF", os.path.dirname(os.path.dirname(os.path.abspath(__file__))))
F=REPO+"/board/attacks.go"
def nth_replace(s, old, new, n):
    i=-1
    for _ in range(n):
        i=s.index(old,i+1)
    return s[:i]+new+s[i+len(old):]
MUTS=[
 ("M1-king-flight-keeps-king-in-occupancy", "b.IsAttacked(b.STM.Flip(), occ&^king, to)", "b.IsAttacked(b.STM.Flip(), occ, to)", 1),
 ("M2-double-check-still-tries-captures", "if attackers.Count() > 1 {", "if attackers.Count() > 2 {", 1),
 ("M3-pinned-defender-may-capture-checker", "\t\tif !pinned {\n\t\t\treturn false\n\t\t}\n\t}\n\n\t// en passant capture", "\t\tif !pinned || true {\n\t\t\treturn false\n\t\t}\n\t}\n\n\t// en passant capture", 1),
 ("M4-ep-capture-of-checking-pawn-ignored", "\tif b.EnPassant != 0 {\n\t\tepPawn", "\tif false && b.EnPassant != 0 {\n\t\tepPawn", 1),
 ("M5-double-push-block-jumps-over-piece", "dpawn = attacks.PawnSinglePushMoves(dpawn, color.Flip()) &^ occ\n", "dpawn = attacks.PawnSinglePushMoves(dpawn, color.Flip())\n", 1),
 ("M6-pinned-knight-considered-mobile", "if !pinned && (attacks.KnightMoves(sq) & ^me != 0) {", "if (!pinned || true) && (attacks.KnightMoves(sq) & ^me != 0) {", 1),
 ("M7-pawn-capture-wraps-a-file", "if (((pawns & ^AFileBB)<<7)|((pawns & ^HFileBB)<<9))&opp != 0 {", "if ((pawns<<7)|((pawns & ^HFileBB)<<9))&opp != 0 {", 1),
 ("M8-stalemate-ignores-ep-only-move", "\tif b.EnPassant != 0 {\n\t\tenPassantBB", "\tif false && b.EnPassant != 0 {\n\t\tenPassantBB", 1),
 ("M9-HARMLESS-stalemate-king-kept-in-occupancy", "b.IsAttacked(b.STM.Flip(), occ&^king, kMove)", "b.IsAttacked(b.STM.Flip(), occ, kMove)", 1),
 ("M10-block-occNoPawn-trick-removed", "occNoPawn := occ & ^(b.Pieces[Pawn] & blockers)", "occNoPawn := occ", 1),
 ("M11-block-loop-forgets-blocked-squares", "\t\tnocc |= blocked\n", "\t\t_ = blocked\n", 1),
 ("M12-capture-loop-keeps-attacker-among-pinners", "\t\topp &= ^attacker\n", "\t\t_ = attacker\n", 1),
 ("M13-bishop-stalemate-pin-by-any-slider", "if (attacks.RookMoves(kingSq, nocc) & (b.Pieces[Rook] | b.Pieces[Queen]) & opp) == 0 {\n\t\t\tif (attacks.BishopMoves(sq, nocc) & ^me) != 0 {", "if true {\n\t\t\tif (attacks.BishopMoves(sq, nocc) & ^me) != 0 {", 1),
 ("M14-pinned-pawn-capture-of-pinner-not-allowed", "& ^targets & opp) != 0 {", "& opp) != 0 {", 1),
]
only=sys.argv[1:] 
res=[]
for name,old,new,n in MUTS:
    if only and not any(name.startswith(o) for o in only): continue
    subprocess.run(["git","-C",REPO,"checkout","--","board/attacks.go"],check=True)
    s=open(F).read()
    if old not in s:
        print(name,"PATTERN NOT FOUND"); continue
    open(F,"w").write(nth_replace(s,old,new,n))
    env=dict(os.environ); env["VERIF_REPO"]=REPO
    t=time.time()
    p=subprocess.run(["./check","C09","--tier","quick"],cwd=V,env=env,stdout=subprocess.PIPE,stderr=subprocess.STDOUT,text=True)
    out=p.stdout
    viol=[l for l in out.split("\n") if l.startswith("VIOLATION")]
    fens=[]
    for l in viol[:3]:
        m=re.search(r"replay=(\S+)",l)
        if m and os.path.exists(m.group(1)):
            d=json.load(open(m.group(1)))
            fens.append((d.get("verdict"),d.get("desc","")[:110],d.get("impl_output")))
    print(f"== {name}: exit {p.returncode}, {len(viol)} VIOLATION lines, {round(time.time()-t)} s")
    for l in viol[:3]: print("   ",l)
    for f in fens: print("     ",f)
    if not viol: print(out[-600:])
    sys.stdout.flush()
subprocess.run(["git","-C",REPO,"checkout","--","board/attacks.go"],check=True)
