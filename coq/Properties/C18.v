(* C18 - Exchange evaluation matches the capture-sequence minimax it approximates.
   Statements only; proofs live in Proofs/SeeCore.v (list loop = negamax balance), Proofs/SeeSeq.v
   (board loop = list loop over the engine's capture sequence, monotonicity) and Proofs/SeeGeom.v
   (the engine's capture sequence is the specified least-valuable-attacker sequence).
   The piece values come from Gen/SeeConsts.v, regenerated from heur/heur.go on every run.

   Model:  Model/See.v  [see b m t] = heur.SEE(b, m, t), line by line, int16 arithmetic written out;
                        [see_loop gains t] = its early-exit / res toggle / `swap < res` core on a list.
   Spec:   Spec/SeeSpec.v  [swap_list b m choice] the values captured when each side takes with a least
                        valuable attacker under the current occupancy (x-rays join as lines open, king
                        only if no enemy attacker remains, pins and promotions of recapturing pawns
                        ignored), [balance l] the negamax value with optional stopping. *)
From Coq Require Import NArith ZArith List Bool.
From Chess3 Require Import Base.Bits Base.Word Model.Types Model.BoardDef Model.Board Gen.SeeConsts
  Model.See Spec.SeeSpec Proofs.SeeCore Proofs.SeeSeq Proofs.SeeGeom Proofs.SeeJudge Model.SeeT Spec.SeeSpecT Proofs.SeeTable.
Import ListNotations.
Open Scope Z_scope.

(* the list theorem: for captured values 0..12000 and |threshold| <= 20000 (no int16 wrap) the loop
   answers exactly "threshold <= balance" *)
Theorem C18_core : forall gains t,
  gains <> [] -> values_bounded gains -> -20000 <= t <= 20000 ->
  see_loop gains t = (t <=? balance gains).
Proof. exact see_loop_balance. Qed.
Print Assumptions C18_core.

(* the same with the weakest no-wrap condition: g0 - t fits a Score, later values are 0..32767 *)
Theorem C18_core_nowrap : forall g0 r t,
  gains_ok r -> -32768 <= g0 - t <= 32767 ->
  see_loop (g0 :: r) t = (t <=? balance (g0 :: r)).
Proof. exact see_loop_balance_gen. Qed.
Print Assumptions C18_core_nowrap.

(* the board loop is the list loop run over the values the engine's bookkeeping captures
   (every board, every move encoding, every threshold; wrap-around included) *)
Theorem C18_loop : forall b m t, see b m t = see_loop (see_gains b m) t.
Proof. exact see_eq_loop. Qed.
Print Assumptions C18_loop.

Theorem C18_engine_balance : forall b m t,
  move_values_ok b m -> -20000 <= t <= 20000 ->
  see b m t = (t <=? balance (see_gains b m)).
Proof. exact see_balance_engine. Qed.
Print Assumptions C18_engine_balance.

(* monotone in the threshold *)
Theorem C18_mono : forall b m t t',
  move_values_ok b m -> -20000 <= t <= 20000 -> -20000 <= t' <= 20000 ->
  see b m t = true -> t' <= t -> see b m t' = true.
Proof. exact see_mono. Qed.
Print Assumptions C18_mono.

(* the engine's capture sequence IS the specified one: least valuable attacker of the side to move
   under the current occupancy (Spec/Geometry attack sets seen from the attacker), x-rays joining as
   lines open, king only when no enemy attacker remains - for the tie-break the code implements
   (lowest piece kind, then lowest square), which is an admissible choice.  All six piece kinds, en
   passant and promotions are covered; the `start` markers never skip an available cheaper attacker
   (part of the loop invariant [inv] in Proofs/SeeGeom.v).
     wf_board b : the board's redundant encodings agree (colour sets disjoint and 64-bit, piece sets
                  = per-square kinds); executable check [wf_boardb].
     move_ok b m: origin occupied; engine's en-passant test = "pawn moves diagonally onto an empty
                  square"; promotion bits only on a pawn and only Knight..Queen. *)
Theorem C18_seq : forall b m t,
  wf_board b -> move_ok b m ->
  see b m t = see_loop (swap_list b m impl_choice) t.
Proof. intros b m t W M. rewrite <- (see_gains_swap_list b m W M). apply see_eq_loop. Qed.
Print Assumptions C18_seq.

Theorem C18_choice_admissible : admissible impl_choice.
Proof. exact impl_choice_admissible. Qed.
Print Assumptions C18_choice_admissible.

(* the property: the exchange test answers true exactly when the balance of the specified capture
   sequence is at least the threshold *)
Definition C18_statement : Prop := forall b m t,
  wf_board b -> move_ok b m -> piece_at b (victim_square b m) <> King -> -20000 <= t <= 20000 ->
  exists choice, admissible choice /\ see b m t = (t <=? balance (swap_list b m choice)).

Theorem C18 : forall b m t,
  wf_board b -> move_ok b m -> piece_at b (victim_square b m) <> King -> -20000 <= t <= 20000 ->
  see b m t = (t <=? balance (swap_list b m impl_choice)).
Proof. exact see_balance_spec. Qed.
Print Assumptions C18.

Theorem C18_full : C18_statement.
Proof.
  intros b m t W M K T. exists impl_choice. split; [exact impl_choice_admissible|].
  apply see_balance_spec; assumption.
Qed.
Print Assumptions C18_full.

(* the judge of the c18 stream (Spec/SeeSpec.v all_balances) contains the balance of every admissible
   choice, so it accepts whatever the theorem allows *)
Theorem C18_judge_complete : forall b m choice,
  admissible choice -> In (balance (swap_list b m choice)) (all_balances b m).
Proof. exact all_balances_complete. Qed.
Print Assumptions C18_judge_complete.

(* the executable domain checks of the judge imply the hypotheses of the theorems *)
Theorem C18_domain_checks : forall b m,
  (wf_boardb b = true -> wf_board b) /\ (Model.SeeStreams.move_okb b m = true -> move_ok b m).
Proof. intros b m. split; [apply wf_boardb_ok|apply move_okb_ok]. Qed.
Print Assumptions C18_domain_checks.

(* the table-parametric model and specification used by the c18 stream (configuration mode: other
   values in the exported heur.PieceValues), taken at the table of the source, are the model and the
   specification of the theorems above *)
Theorem C18_table_instance : forall b m t choice,
  Model.SeeT.see_t PieceValues b m t = see b m t /\
  Spec.SeeSpecT.swap_list_t PieceValues b m choice = swap_list b m choice /\
  Spec.SeeSpecT.all_balances_t PieceValues b m = all_balances b m.
Proof.
  intros. split; [apply see_t_default|]. split; [apply swap_list_t_default|apply all_balances_t_default].
Qed.
Print Assumptions C18_table_instance.

(* non-vacuity on a board: 8/3k4/7B/2qqRRPR/5P1n/8/6B1/1K6 b - - 0 1, Qd5xe5 (queen takes rook, pawn
   takes queen, the second queen takes the pawn and is taken by the rook behind: black stops at -400) *)
Definition ex_board : board :=
  match decode_board [275414777856; 2147483648; 140737488371712; 755914244096; 51539607552; 2251799813685250;
                      141768817393666; 2251853500776448; 1; 0; 0; 0; 1; 1; 6326120141027916712] with
  | Some (b, _) => b
  | None => mkBoard [] [] [] [] 0 White 0%N 0%N 0
  end.
Definition ex_move : N := 2276%N.   (* d5e5 *)

Example C18_nonvacuous :
  wf_board ex_board /\ move_ok ex_board ex_move /\
  piece_at ex_board (victim_square ex_board ex_move) <> King /\
  swap_list ex_board ex_move impl_choice = [500; 900; 100; 900] /\
  balance (swap_list ex_board ex_move impl_choice) = -400 /\
  see ex_board ex_move (-400) = true /\ see ex_board ex_move (-399) = false.
Proof.
  split; [apply wf_boardb_ok; vm_compute; reflexivity|].
  split; [repeat split; vm_compute; try reflexivity; left; reflexivity|].
  split; [vm_compute; discriminate|].
  repeat split; vm_compute; reflexivity.
Qed.

(* non-vacuity: a sequence PxN, BxP, RxB, QxR with the last capturer left alone *)
Example C18_core_nonvacuous :
  let gains := [300; 100; 300; 500] in
  gains <> [] /\ values_bounded gains /\ balance gains = 200 /\
  see_loop gains 200 = true /\ see_loop gains 201 = false.
Proof. repeat split; try discriminate. repeat constructor; cbv; discriminate. Qed.
