(* Model of the move-ordering heuristics: heur/hist.go, heur/cont.go, heur/capthist.go (the gravity
   update shared by the three stores) and heur/heur.go (RankNoisy, RankQuiet, FailHigh).
   Go's Score is int16, Piece is a byte, Depth is int8, int is 64 bit; every fixed-width operation
   is written with its wrap-around (Base/Word.v). Definitions only; proofs are in Proofs/HistProofs.v.

   The board enters only through what the Go code reads from it: the side to move, the piece on the
   from square (moved / attacker) and the piece on the capture square (captured / victim). These
   are inputs of the model; the static exchange evaluation enters RankNoisy as a boolean. *)
From Coq Require Import ZArith List Bool FMapPositive.
Import ListNotations.
From Chess3 Require Import Base.Word Gen.HeurConsts.
Open Scope Z_scope.

(* chess.Abs on Score: -x is an int16 negation *)
Definition abs16 (x : Z) : Z := if x <? 0 then wrap16 (- x) else x.

(* History.Add / Continuation.Add / CaptHist.Add on one cell:
     clampedBonus := Clamp(bonus, -MaxHistory, MaxHistory)
     cell += clampedBonus - Score(int(cell)*int(Abs(clampedBonus))/int(MaxHistory))
   The product and the quotient are computed in int (64 bit; |cell*abs| < 2^31 for int16 operands,
   so that level never wraps), the conversion back to Score, the subtraction and the += are int16. *)
Definition hist_add (h bonus : Z) : Z :=
  let cb := clamp bonus (- MaxHistory) MaxHistory in
  wrap16 (h + wrap16 (cb - wrap16 (Z.quot (h * abs16 cb) MaxHistory))).

(* ---- the four stores: sparse maps from the flattened array index to the cell, default 0 ---- *)
Definition table := PositiveMap.t Z.
Definition tkey (k : Z) : positive := Z.to_pos (k + 1).
Definition tget (t : table) (k : Z) : Z :=
  match PositiveMap.find (tkey k) t with Some v => v | None => 0 end.
Definition tset (t : table) (k v : Z) : table := PositiveMap.add (tkey k) v t.
Definition tadd (t : table) (k bonus : Z) : table := tset t k (hist_add (tget t k) bonus).
Definition tempty : table := PositiveMap.empty Z.

Definition in_range (x lo hi : Z) : bool := (lo <=? x) && (x <=? hi).

(* History.data [Colors][Squares][Squares]; an index outside the array is a Go panic (None) *)
Definition hist_ix (stm from to : Z) : option Z :=
  if in_range stm 0 (Colors - 1) && in_range from 0 (Squares - 1) && in_range to 0 (Squares - 1)
  then Some ((stm * Squares + from) * Squares + to) else None.

(* Continuation.data [Colors][6][Squares][6][Squares], indexed [stm][ptHist-1][toHist][pt-1][to];
   the pieces are bytes: 0-1 = 255 is out of range *)
Definition cont_ix (stm ph th p to : Z) : option Z :=
  if in_range stm 0 (Colors - 1) && in_range ph 1 6 && in_range th 0 (Squares - 1)
     && in_range p 1 6 && in_range to 0 (Squares - 1)
  then Some ((((stm * 6 + (ph - 1)) * Squares + th) * 6 + (p - 1)) * Squares + to) else None.

(* CaptHist.data [6][5][Squares], indexed [moved-Pawn][captured-Pawn][sq] *)
Definition capt_ix (moved captured sq : Z) : option Z :=
  if in_range (moved - Pawn) 0 5 && in_range (captured - Pawn) 0 4 && in_range sq 0 (Squares - 1)
  then Some (((moved - Pawn) * 5 + (captured - Pawn)) * Squares + sq) else None.

Record ranker := { r_hist : table; r_capt : table; r_cont0 : table; r_cont1 : table }.
Definition ranker_new : ranker := {| r_hist := tempty; r_capt := tempty; r_cont0 := tempty; r_cont1 := tempty |}.

(* the Add methods *)
Definition history_add (r : ranker) (stm from to bonus : Z) : option ranker :=
  match hist_ix stm from to with
  | Some k => Some {| r_hist := tadd (r_hist r) k bonus; r_capt := r_capt r; r_cont0 := r_cont0 r; r_cont1 := r_cont1 r |}
  | None => None
  end.
Definition capthist_add (r : ranker) (moved captured sq bonus : Z) : option ranker :=
  match capt_ix moved captured sq with
  | Some k => Some {| r_hist := r_hist r; r_capt := tadd (r_capt r) k bonus; r_cont0 := r_cont0 r; r_cont1 := r_cont1 r |}
  | None => None
  end.
Definition cont0_add (r : ranker) (stm ph th p to bonus : Z) : option ranker :=
  match cont_ix stm ph th p to with
  | Some k => Some {| r_hist := r_hist r; r_capt := r_capt r; r_cont0 := tadd (r_cont0 r) k bonus; r_cont1 := r_cont1 r |}
  | None => None
  end.
Definition cont1_add (r : ranker) (stm ph th p to bonus : Z) : option ranker :=
  match cont_ix stm ph th p to with
  | Some k => Some {| r_hist := r_hist r; r_capt := r_capt r; r_cont0 := r_cont0 r; r_cont1 := tadd (r_cont1 r) k bonus |}
  | None => None
  end.

(* the LookUp methods *)
Definition history_get (r : ranker) (stm from to : Z) : option Z :=
  match hist_ix stm from to with Some k => Some (tget (r_hist r) k) | None => None end.
Definition capthist_get (r : ranker) (moved captured sq : Z) : option Z :=
  match capt_ix moved captured sq with Some k => Some (tget (r_capt r) k) | None => None end.
Definition cont0_get (r : ranker) (stm ph th p to : Z) : option Z :=
  match cont_ix stm ph th p to with Some k => Some (tget (r_cont0 r) k) | None => None end.
Definition cont1_get (r : ranker) (stm ph th p to : Z) : option Z :=
  match cont_ix stm ph th p to with Some k => Some (tget (r_cont1 r) k) | None => None end.

(* ---- the 16 bit move encoding (move/move.go) ---- *)
Definition move_to (m : Z) : Z := Z.land (Z.shiftr m MoveToShift) (Z.ones MoveToBits).
Definition move_from (m : Z) : Z := Z.land (Z.shiftr m MoveFromShift) (Z.ones MoveFromBits).
Definition move_promo (m : Z) : Z := Z.land (Z.shiftr m MovePromoShift) (Z.ones MovePromoBits).

(* the history stack as FailHigh / RankQuiet see it: Top(0) and Top(1), each (piece, to) if present *)
Definition stack_top := option (Z * Z).

(* ---- MoveRanker.RankQuiet ---- *)
Definition rank_quiet (r : ranker) (stm m moved : Z) (top0 top1 : stack_top) : option Z :=
  match history_get r stm (move_from m) (move_to m) with
  | None => None
  | Some s0 =>
    match (match top0 with
           | Some (p, t) => match cont0_get r stm p t moved (move_to m) with
                            | Some c => Some (wrap16 (s0 + c)) | None => None end
           | None => Some s0 end) with
    | None => None
    | Some s1 =>
      match top1 with
      | Some (p, t) => match cont1_get r stm p t moved (move_to m) with
                       | Some c => Some (wrap16 (s1 + c)) | None => None end
      | None => Some s1
      end
    end
  end.

(* ---- MoveRanker.RankNoisy: Promo/MVV/LVA score put into the good or the bad capture band ---- *)
Definition mvv_lva (promo attacker victim : Z) : Z :=
  let promo' := if promo =? NoPiece then promo else trunc8 (promo - Pawn) in   (* Piece arithmetic: bytes *)
  let inv_attacker := trunc8 (King - attacker) in
  wrap16 (wrap16 (wrap16 (wrap16 (promo' * 6) * 7) + wrap16 (victim * 6)) + inv_attacker).

Definition rank_noisy (promo attacker victim : Z) (see_good : bool) : Z :=
  let score := mvv_lva promo attacker victim in
  if see_good then wrap16 (Captures + score)
  else wrap16 (wrap16 (wrap16 (- Captures) - CaptureRange) + score).

(* ---- MoveRanker.FailHigh ---- *)
Record fh_move := { fm_move : Z; fm_moved : Z; fm_captured : Z; fm_weight : Z }.

Definition fh_bonus (d : Z) : Z := wrap16 (wrap16 (d * HistBonusMul) - HistBonusLin).
Definition fh_rng : Z := wrap16 (Z.shiftl 1 HistAdjRange).
Definition fh_red : Z := wrap16 (Z.shiftl 1 HistAdjReduction).

(* the value handed to the Add methods for one move of the list *)
Definition fh_value (d : Z) (m : fh_move) (last : bool) : Z :=
  let capture := negb (fm_captured m =? NoPiece) in
  let quiet := (move_promo (fm_move m) =? NoPiece) && (fm_captured m =? NoPiece) in
  let bonus := fh_bonus d in
  if quiet && last then bonus
  else if quiet && negb last then
    wrap16 (wrap16 (- bonus) + wrap16 (Z.quot (wrap16 (fh_rng + clamp (fm_weight m) (- fh_rng) fh_rng)) fh_red))
  else if capture && last then wrap16 (d * d)
  else if capture && negb last then wrap16 (wrap16 (- d) * d)
  else 0.

Definition fh_update (d stm : Z) (top0 top1 : stack_top) (r : ranker) (m : fh_move) (last : bool) : option ranker :=
  let capture := negb (fm_captured m =? NoPiece) in
  let quiet := (move_promo (fm_move m) =? NoPiece) && (fm_captured m =? NoPiece) in
  let value := fh_value d m last in
  let to := move_to (fm_move m) in
  if capture then capthist_add r (fm_moved m) (fm_captured m) to value
  else if quiet then
    match history_add r stm (move_from (fm_move m)) to value with
    | None => None
    | Some r1 =>
      match (match top0 with
             | Some (p, t) => cont0_add r1 stm p t (fm_moved m) to value
             | None => Some r1 end) with
      | None => None
      | Some r2 =>
        match top1 with
        | Some (p, t) => cont1_add r2 stm p t (fm_moved m) to (Z.quot value 2)
        | None => Some r2
        end
      end
    end
  else Some r.

Fixpoint fail_high (d stm : Z) (top0 top1 : stack_top) (moves : list fh_move) (r : ranker) : option ranker :=
  match moves with
  | [] => Some r
  | m :: rest =>
    match fh_update d stm top0 top1 r m (match rest with [] => true | _ => false end) with
    | None => None
    | Some r' => fail_high d stm top0 top1 rest r'
    end
  end.

(* ---- correspondence stream c16h: [nOps; ops...; (position, ignored)] ----
   op 0 (FailHigh) : 0 d stm f0 p0 t0 f1 p1 t1 n {m moved captured weight}*n   -> n * (hist cont0 cont1 capt)
   op 1 (Add)      : 1 table i1 i2 i3 i4 i5 bonus                               -> the cell
   op 2 (RankQuiet): 2 stm f0 p0 t0 f1 p1 t1 n {m moved}*n                      -> n weights
   A Go panic (index out of range) is the output [-1; -1; -1]. *)
Definition mk_top (f p t : Z) : stack_top := if f =? 0 then None else Some (p, t).
(* stack.Top(1) exists only when Top(0) does *)
Definition mk_top1 (f0 f p t : Z) : stack_top := if (f0 =? 0) || (f =? 0) then None else Some (p, t).

Fixpoint take_fh (n : nat) (l : list Z) : list fh_move * list Z :=
  match n, l with
  | S n', m :: mv :: c :: w :: rest =>
      let (ms, tl) := take_fh n' rest in
      ({| fm_move := m; fm_moved := mv; fm_captured := c; fm_weight := w |} :: ms, tl)
  | _, _ => ([], l)
  end.

Fixpoint take_pairs (n : nat) (l : list Z) : list (Z * Z) * list Z :=
  match n, l with
  | S n', a :: b :: rest => let (ps, tl) := take_pairs n' rest in ((a, b) :: ps, tl)
  | _, _ => ([], l)
  end.

Definition or0 (o : option Z) : Z := match o with Some v => v | None => 0 end.

Definition observe_cells (r : ranker) (stm : Z) (top0 top1 : stack_top) (m : fh_move) : list Z :=
  let to := move_to (fm_move m) in
  [ or0 (history_get r stm (move_from (fm_move m)) to);
    match top0 with Some (p, t) => or0 (cont0_get r stm p t (fm_moved m) to) | None => 0 end;
    match top1 with Some (p, t) => or0 (cont1_get r stm p t (fm_moved m) to) | None => 0 end;
    or0 (capthist_get r (fm_moved m) (fm_captured m) to) ].

Definition panic_out : list Z := [-1; -1; -1].

Fixpoint rank_all (r : ranker) (stm : Z) (top0 top1 : stack_top) (ms : list (Z * Z)) : option (list Z) :=
  match ms with
  | [] => Some []
  | (m, moved) :: rest =>
    match rank_quiet r stm m moved top0 top1, rank_all r stm top0 top1 rest with
    | Some w, Some ws => Some (w :: ws)
    | _, _ => None
    end
  end.

Fixpoint run_ops (fuel : nat) (r : ranker) (l : list Z) (acc : list Z) : option (list Z) :=
  match fuel with
  | O => Some acc
  | S fuel' =>
    match l with
    | 0 :: d :: stm :: f0 :: p0 :: t0 :: f1 :: p1 :: t1 :: n :: rest =>
        let (ms, tl) := take_fh (Z.to_nat n) rest in
        let top0 := mk_top f0 p0 t0 in
        let top1 := mk_top1 f0 f1 p1 t1 in
        match fail_high d stm top0 top1 ms r with
        | None => None
        | Some r' => run_ops fuel' r' tl (acc ++ flat_map (observe_cells r' stm top0 top1) ms)
        end
    | 1 :: tb :: i1 :: i2 :: i3 :: i4 :: i5 :: bonus :: tl =>
        let bonus := wrap16 bonus in
        if tb =? 0 then
          match history_add r i1 i2 i3 bonus with
          | Some r' => run_ops fuel' r' tl (acc ++ [or0 (history_get r' i1 i2 i3)]) | None => None end
        else if tb =? 1 then
          match capthist_add r i1 i2 i3 bonus with
          | Some r' => run_ops fuel' r' tl (acc ++ [or0 (capthist_get r' i1 i2 i3)]) | None => None end
        else if tb =? 2 then
          match cont0_add r i1 i2 i3 i4 i5 bonus with
          | Some r' => run_ops fuel' r' tl (acc ++ [or0 (cont0_get r' i1 i2 i3 i4 i5)]) | None => None end
        else
          match cont1_add r i1 i2 i3 i4 i5 bonus with
          | Some r' => run_ops fuel' r' tl (acc ++ [or0 (cont1_get r' i1 i2 i3 i4 i5)]) | None => None end
    | 2 :: stm :: f0 :: p0 :: t0 :: f1 :: p1 :: t1 :: n :: rest =>
        let (ms, tl) := take_pairs (Z.to_nat n) rest in
        match rank_all r stm (mk_top f0 p0 t0) (mk_top1 f0 f1 p1 t1) ms with
        | Some ws => run_ops fuel' r tl (acc ++ ws)
        | None => None
        end
    | _ => Some acc
    end
  end.

Definition run_c16h (input : list Z) : list Z :=
  match input with
  | n :: ops => match run_ops (Z.to_nat n) ranker_new ops [] with Some out => out | None => panic_out end
  | [] => []
  end.
