(* The rules of chess the properties refer to, on a mailbox position: written to be read, executable,
   and independent of the engine's bitboard code (only the geometric definitions of Spec/Geometry.v
   are used).  FIDE Laws of Chess, article 3 (moves of the pieces) incl. 3.7.3 (en passant, promotion)
   and 3.8.2 (castling).  Moves are the 15-bit encodings of Model/Types.v (from, to, promotion piece). *)
From Coq Require Import NArith ZArith List Bool.
From Chess3 Require Import Base.Bits Model.Types Spec.Geometry Model.BoardDef.
Import ListNotations.
Open Scope N_scope.

Record pos := mkPos {
  at_ : list (option (color * N));   (* 64 squares: who stands there (colour, piece code 1..6) *)
  turn : color;
  rights : N;                        (* castling rights, bits as Types.castle_bit *)
  epsq : option N;                   (* en-passant target square *)
  half : Z;                          (* halfmove clock *)
  fullm : Z                          (* fullmove number *)
}.

Definition who (p : pos) (s : N) : option (color * N) := nthN (at_ p) s None.
Definition holds (p : pos) (s : N) (c : color) (k : N) : bool :=
  match who p s with Some (c', k') => color_eqb c c' && (k =? k') | None => false end.
Definition owned_by (p : pos) (s : N) (c : color) : bool :=
  match who p s with Some (c', _) => color_eqb c c' | None => false end.
Definition empty (p : pos) (s : N) : bool := match who p s with None => true | _ => false end.
Definition occ_of (p : pos) : N := set_of (filter (fun s => negb (empty p s)) squares64).
Definition mem (set s : N) : bool := N.testbit set s.

(* squares a piece of kind k and colour c standing on s attacks, given the occupied squares *)
Definition attacks_from (c : color) (k s occ : N) : N :=
  if k =? Pawn then pawn_attacks c s
  else if k =? Knight then knight_attacks s
  else if k =? Bishop then bishop_attacks s occ
  else if k =? Rook then rook_attacks s occ
  else if k =? Queen then queen_attacks s occ
  else if k =? King then king_attacks s
  else 0.

(* is square s attacked by some piece of colour c? *)
Definition attacked_by (p : pos) (c : color) (s : N) : bool :=
  existsb (fun t => match who p t with
                    | Some (c', k) => color_eqb c c' && mem (attacks_from c k t (occ_of p)) s
                    | None => false end) squares64.

Definition king_sq (p : pos) (c : color) : N :=
  hd 64 (filter (fun s => holds p s c King) squares64).
Definition in_check_spec (p : pos) (c : color) : bool := attacked_by p (flip c) (king_sq p c).

(* home squares *)
Definition home_rank (c : color) : N := match c with White => 0 | Black => 7 end.
Definition sqfr (f r : N) : N := r * 8 + f.
Definition king_home (c : color) : N := sqfr 4 (home_rank c).
Definition rook_home (c : color) (long : bool) : N := sqfr (if long then 0 else 7) (home_rank c).
Definition has_right (p : pos) (c : color) (long : bool) : bool := negb (N.land (rights p) (castle_bit c long) =? 0).

Definition last_rank (c : color) : N := match c with White => 7 | Black => 0 end.
Definition second_rank (c : color) : N := match c with White => 1 | Black => 6 end.
Definition rank_n (s : N) : N := s / 8.
Definition file_n (s : N) : N := s mod 8.
Definition fwd (c : color) (s : N) : N := match c with White => s + 8 | Black => s - 8 end.

Definition is_promo_piece (k : N) : bool := (k =? Knight) || (k =? Bishop) || (k =? Rook) || (k =? Queen).

(* castling, FIDE 3.8.2: right present (king and rook have not moved), all squares between king and
   rook empty, the king is not in check, does not cross and does not land on an attacked square *)
Definition castle_ok (p : pos) (long : bool) : bool :=
  let c := turn p in
  let k := king_home c in
  let r := rook_home c long in
  has_right p c long && holds p k c King && holds p r c Rook &&
  forallb (empty p) (between k r) &&
  forallb (fun s => negb (attacked_by p (flip c) s))
          (if long then [k; k - 1; k - 2] else [k; k + 1; k + 2]).

(* the move is possible by the way the pieces move (3.1-3.8), own king safety (3.9) not yet considered *)
Definition pseudo_spec (p : pos) (m : N) : bool :=
  let from := mv_from m in let to := mv_to m in let pr := mv_promo m in
  let c := turn p in
  match who p from with
  | None => false
  | Some (c', k) =>
      color_eqb c c' && negb (owned_by p to c) &&
      if k =? Pawn then
        let promo_ok := if rank_n to =? last_rank c then is_promo_piece pr else pr =? 0 in
        promo_ok &&
        ( (* single step *) ((to =? fwd c from) && negb (rank_n from =? last_rank c) && empty p to)
          || (* double step from the second rank *)
             ((rank_n from =? second_rank c) && (to =? fwd c (fwd c from)) && empty p (fwd c from) && empty p to)
          || (* capture, incl. en passant *)
             (mem (pawn_attacks c from) to &&
              (owned_by p to (flip c) || match epsq p with Some e => e =? to | None => false end)))
      else if k =? King then
        (pr =? 0) &&
        (mem (king_attacks from) to
         || ((from =? king_home c) && (to =? from + 2) && castle_ok p false)
         || ((from =? king_home c) && (to + 2 =? from) && castle_ok p true))
      else (pr =? 0) && mem (attacks_from c k from (occ_of p)) to
  end.

(* placement after the move *)
Definition put (l : list (option (color * N))) (s : N) (v : option (color * N)) := updN l s v.
Definition is_ep_capture (p : pos) (m : N) : bool :=
  holds p (mv_from m) (turn p) Pawn && match epsq p with Some e => e =? mv_to m | None => false end.
Definition is_castling (p : pos) (m : N) : bool :=
  holds p (mv_from m) (turn p) King && ((mv_to m =? mv_from m + 2) || (mv_to m + 2 =? mv_from m)).

Definition place_after (p : pos) (m : N) : list (option (color * N)) :=
  let from := mv_from m in let to := mv_to m in let c := turn p in
  let k := match who p from with Some (_, k) => k | None => 0 end in
  let k' := if mv_promo m =? 0 then k else mv_promo m in
  let l := put (put (at_ p) from None) to (Some (c, k')) in
  let l := if is_ep_capture p m then put l (sqfr (file_n to) (rank_n from)) None else l in
  if is_castling p m then
    if to =? from + 2 then put (put l (from + 3) None) (from + 1) (Some (c, Rook))
    else put (put l (from - 4) None) (from - 1) (Some (c, Rook))
  else l.

Definition with_placement (p : pos) (l : list (option (color * N))) : pos :=
  mkPos l (turn p) (rights p) (epsq p) (half p) (fullm p).

(* legal = possible and not leaving (or putting) the own king in check *)
Definition legal_spec (p : pos) (m : N) : bool :=
  pseudo_spec p m && negb (in_check_spec (with_placement p (place_after p m)) (turn p)).

(* every move encoding that could be a chess move: from, to any squares, promotion none or N/B/R/Q *)
Definition candidates : list N :=
  flat_map (fun from => flat_map (fun to =>
    map (fun pr => mk_move from to pr) [0; Knight; Bishop; Rook; Queen]) squares64) squares64.
Definition legal_moves (p : pos) : list N := filter (legal_spec p) candidates.

(* ------------------------------------------------------------------------------------------ *)
(* the successor position *)

Definition is_capture (p : pos) (m : N) : bool := negb (empty p (mv_to m)) || is_ep_capture p m.

Definition rights_after (p : pos) (m : N) : N :=
  let from := mv_from m in let to := mv_to m in let c := turn p in
  let lose (r : N) (c' : color) (long : bool) : N :=
    if (holds p from c' King && color_eqb c c') || (from =? rook_home c' long) || (to =? rook_home c' long)
    then N.ldiff r (castle_bit c' long) else r in
  lose (lose (lose (lose (rights p) White false) White true) Black false) Black true.

(* after a double step of a pawn to square [to], could the opponent capture it en passant legally? *)
Definition ep_capturable (q : pos) (target : N) : bool :=
  let q' := mkPos (at_ q) (turn q) (rights q) (Some target) (half q) (fullm q) in
  existsb (fun from => holds q' from (turn q') Pawn && legal_spec q' (mk_move from target 0)) squares64.

Definition succ_spec (p : pos) (m : N) : pos :=
  let from := mv_from m in let to := mv_to m in let c := turn p in
  let pawn := holds p from c Pawn in
  let q0 := mkPos (place_after p m) (flip c) (rights_after p m) None
                  (if pawn || is_capture p m then 0 else half p + 1)%Z
                  (match c with Black => fullm p + 1 | White => fullm p end)%Z in
  let double := pawn && ((to =? from + 16) || (to + 16 =? from)) in
  let mid := (from + to) / 2 in
  if double && ep_capturable q0 mid then mkPos (at_ q0) (turn q0) (rights q0) (Some mid) (half q0) (fullm q0) else q0.

(* ------------------------------------------------------------------------------------------ *)
(* valid positions (DESIGN.md 4.3) *)

Definition count (p : pos) (c : color) (k : N) : Z :=
  Z.of_nat (length (filter (fun s => holds p s c k) squares64)).

Definition material_ok (p : pos) (c : color) : bool :=
  let ex k base := Z.max 0 (count p c k - base) in
  ((count p c King =? 1) &&
   (count p c Pawn + ex Knight 2 + ex Bishop 2 + ex Rook 2 + ex Queen 1 <=? 8))%Z.

Definition no_pawn_on_edge (p : pos) : bool :=
  forallb (fun s => negb ((rank_n s =? 0) || (rank_n s =? 7)) ||
                    negb (holds p s White Pawn || holds p s Black Pawn)) squares64.

Definition rights_consistent (p : pos) : bool :=
  forallb (fun cl : color * bool => let (c, long) := cl in
     negb (has_right p c long) || (holds p (king_home c) c King && holds p (rook_home c long) c Rook))
    [(White, false); (White, true); (Black, false); (Black, true)].

(* the en-passant target e: on the mover's 6th rank and empty, the square behind it (the pushed pawn's
   origin) empty, an enemy pawn directly in front of it; and there is a valid predecessor: with that
   pawn put back on its origin square the side to move is not in check (otherwise the double step
   would have been played while the opponent's king stood in check) *)
Definition ep_ok (p : pos) : bool :=
  match epsq p with
  | None => true
  | Some e =>
      let c := turn p in
      let pawn_sq := fwd (flip c) e in      (* where the pushed pawn stands now *)
      let origin := fwd c e in              (* where it came from *)
      (rank_n e =? match c with White => 5 | Black => 2 end) &&
      empty p e && empty p origin && holds p pawn_sq (flip c) Pawn &&
      negb (in_check_spec (with_placement p (put (put (at_ p) pawn_sq None) origin (Some (flip c, Pawn)))) c)
  end.

Definition valid (p : pos) : bool :=
  (length (at_ p) =? 64)%nat && material_ok p White && material_ok p Black && no_pawn_on_edge p &&
  negb (in_check_spec p (flip (turn p))) && rights_consistent p && ep_ok p.

(* the engine's convention (C02): a target is recorded only when a legal en-passant capture exists *)
Definition normal_ep (p : pos) : bool :=
  match epsq p with None => true | Some e => ep_capturable p e end.

(* ------------------------------------------------------------------------------------------ *)
(* abstraction of an engine board *)

Definition abs (b : board) : pos :=
  mkPos (map (fun s => let k := piece_at b s in
                       if k =? 0 then None
                       else Some (if N.testbit (colors b White) s then White else Black, k)) squares64)
        (stm b) (castles b) (if ep b =? 0 then None else Some (ep b)) (fifty b) (full b).

(* position identity for repetition purposes (C04, C10): placement, side to move, castling rights and
   en-passant capturability *)
Definition pos_key (p : pos) : list (option (color * N)) * color * N * bool :=
  (at_ p, turn p, rights p, match epsq p with Some e => ep_capturable p e | None => false end).
