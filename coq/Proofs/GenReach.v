(* C01, induction step of "positions reached by play": MakeMove of a legal move from a valid position
   gives a valid position again ([make_valid]), and the small fields stay in range ([make_MRep]).

   Method: as in GenMake.v the placement is seen as a function square -> occupant; the placement after
   the move is [eng_fun b m], a chain of at most five point updates of [who (abs b)].  Every conjunct
   of [valid] of the successor is read off that chain:
     material     - a counting lemma for point updates ([cz_upd]); a king is never captured because
                    the capturing piece would attack it in the (valid) predecessor;
     pawns        - only the moved pawn matters, and its target is not on an edge rank;
     check        - the second conjunct of [legal_spec];
     rights       - a surviving right means king and rook did not move and were not captured;
     en passant   - the target is recorded only after a double step; undoing it gives the predecessor. *)
From Coq Require Import NArith ZArith List Bool Lia.
From Chess3 Require Import Base.Bits Model.Types Spec.Geometry Model.Att Model.BoardDef Model.Board
  Model.Movegen Spec.Chess Spec.Rep Proofs.GenBase Proofs.GenRep Proofs.GenPieces Proofs.GenPawns
  Proofs.GenMake Proofs.GenLegal.
Import ListNotations.
Open Scope N_scope.

(* ------------------------------------------------------------------------------------------ *)
(* counting under point updates *)

Definition tst (c : color) (k : N) (o : option (color * N)) : bool :=
  match o with Some (c', k') => color_eqb c c' && (k =? k') | None => false end.
Definition bz (x : bool) : Z := if x then 1%Z else 0%Z.
Definition cz (c : color) (k : N) (h : N -> option (color * N)) : Z :=
  Z.of_nat (length (filter (fun s => tst c k (h s)) squares64)).

Lemma filter_upd_notin {A} (P : A -> bool) (h : N -> A) i x l : ~ In i l ->
  filter (fun s => P (fupd h i x s)) l = filter (fun s => P (h s)) l.
Proof.
  intros Hn. apply filter_ext_in. intros a Ha. unfold fupd.
  destruct (N.eqb_spec a i) as [->|_]; [contradiction|reflexivity].
Qed.

Lemma len_filter_upd {A} (P : A -> bool) (h : N -> A) i x l : NoDup l -> In i l ->
  (length (filter (fun s => P (fupd h i x s)) l) + Nat.b2n (P (h i)) =
   length (filter (fun s => P (h s)) l) + Nat.b2n (P x))%nat.
Proof.
  induction 1 as [|a l Hna ND IH]; intros Hin; [destruct Hin|].
  cbn [filter]. destruct Hin as [->|Hin].
  - rewrite (filter_upd_notin P h i x l Hna). unfold fupd at 1. rewrite N.eqb_refl.
    destruct (P x), (P (h i)); cbn [length Nat.b2n]; lia.
  - assert (Hne : a <> i) by (intros ->; contradiction). unfold fupd at 1.
    destruct (N.eqb_spec a i) as [E|_]; [contradiction|].
    specialize (IH Hin). destruct (P (h a)); cbn [length]; lia.
Qed.

Lemma cz_upd c k h i x : i < 64 ->
  (cz c k (fupd h i x) + bz (tst c k (h i)) = cz c k h + bz (tst c k x))%Z.
Proof.
  intros Hi. unfold cz.
  pose proof (len_filter_upd (tst c k) h i x squares64 squares64_NoDup (proj2 (in_squares64 i) Hi)) as H.
  revert H.
  generalize (length (filter (fun s => tst c k (fupd h i x s)) squares64)).
  generalize (length (filter (fun s => tst c k (h s)) squares64)).
  intros n1 n2 H. destruct (tst c k (h i)), (tst c k x); cbn [Nat.b2n bz] in *; lia.
Qed.

Lemma cz_ext c k h h' : (forall s, h s = h' s) -> cz c k h = cz c k h'.
Proof.
  intros E. unfold cz. f_equal. f_equal. apply filter_ext. intros s. rewrite E. reflexivity.
Qed.

Lemma holds_tst p s c k : holds p s c k = tst c k (who p s).
Proof. reflexivity. Qed.

Lemma count_cz p c k : count p c k = cz c k (who p).
Proof.
  unfold count, cz. apply f_equal. apply f_equal. apply filter_ext. intros s. apply holds_tst.
Qed.

Lemma bz_range x : (0 <= bz x <= 1)%Z.
Proof. destruct x; cbn [bz]; lia. Qed.

(* material_ok in terms of the counts, without unfolding them *)
Definition msum (pw kn bi ro qu : Z) : Z :=
  (pw + Z.max 0 (kn - 2) + Z.max 0 (bi - 2) + Z.max 0 (ro - 2) + Z.max 0 (qu - 1))%Z.

Lemma material_iff p c : material_ok p c = true <->
  (count p c King = 1 /\
   msum (count p c Pawn) (count p c Knight) (count p c Bishop) (count p c Rook) (count p c Queen) <= 8)%Z.
Proof.
  unfold material_ok, msum. rewrite andb_true_iff, Z.eqb_eq, Z.leb_le. tauto.
Qed.

(* ------------------------------------------------------------------------------------------ *)
(* the small fields after MakeMove *)

Lemma rm_ep z b c p sq : ep (fst (remove_piece z b c p sq)) = ep b.
Proof. unfold remove_piece. destruct (p =? NoPiece); reflexivity. Qed.
Lemma add_ep z b c p sq : ep (fst (add_piece z b c p sq)) = ep b.
Proof. unfold add_piece. destruct (p =? NoPiece); reflexivity. Qed.
Lemma rm_castles z b c p sq : castles (fst (remove_piece z b c p sq)) = castles b.
Proof. unfold remove_piece. destruct (p =? NoPiece); reflexivity. Qed.
Lemma add_castles z b c p sq : castles (fst (add_piece z b c p sq)) = castles b.
Proof. unfold add_piece. destruct (p =? NoPiece); reflexivity. Qed.

Definition can_ep_flag (b : board) (m : N) : bool :=
  (piece_at b (mv_from m) =? Pawn) && (abs_diff (mv_from m) (mv_to m) =? 16) && can_en_passant b (mv_to m).

Lemma make_ep z b m :
  ep (fst (make z b m)) = if can_ep_flag b m then (mv_from m + mv_to m) / 2 else 0.
Proof.
  unfold make, make_l. cbv zeta. fold (can_ep_flag b m).
  destruct (remove_piece z _ (flip (stm b)) _ _) as [b1 h1].
  destruct (remove_piece z b1 _ _ _) as [b2 h2].
  destruct (add_piece z b2 _ _ _) as [b3 h3].
  set (ne := if can_ep_flag b m then (mv_from m + mv_to m) / 2 else 0).
  destruct (piece_at b (mv_from m) =? King); [|reflexivity].
  destruct (castle_rook (mv_from m) (mv_to m)) as [[rf rt]|]; [|reflexivity].
  pose proof (rm_ep z (set_ep b3 ne) (stm b) Rook rf) as E1.
  destruct (remove_piece z (set_ep b3 ne) (stm b) Rook rf) as [c1 g1]. cbn [fst] in E1.
  pose proof (add_ep z c1 (stm b) Rook rt) as E2.
  destruct (add_piece z c1 (stm b) Rook rt) as [c2 g2]. cbn [fst] in E2.
  cbn [fst set_hashes set_stm ep]. rewrite E2, E1. reflexivity.
Qed.

Lemma make_castles z b m :
  castles (fst (make z b m)) = bxor (castles b) (bxor (castles b) (new_castles b m)).
Proof.
  unfold make, make_l. cbv zeta.
  match goal with |- context [remove_piece z ?x (flip (stm b)) ?p ?s] =>
    pose proof (rm_castles z x (flip (stm b)) p s) as E1;
    destruct (remove_piece z x (flip (stm b)) p s) as [b1 h1] end.
  cbn [fst set_castles castles] in E1.
  match goal with |- context [remove_piece z b1 ?c ?p ?s] =>
    pose proof (rm_castles z b1 c p s) as E2;
    destruct (remove_piece z b1 c p s) as [b2 h2] end.
  cbn [fst] in E2.
  match goal with |- context [add_piece z b2 ?c ?p ?s] =>
    pose proof (add_castles z b2 c p s) as E3;
    destruct (add_piece z b2 c p s) as [b3 h3] end.
  cbn [fst] in E3.
  match goal with |- context [set_ep b3 ?e] => generalize e; intros ne end.
  assert (E4 : castles (set_ep b3 ne) = bxor (castles b) (bxor (castles b) (new_castles b m))).
  { cbn [set_ep castles]. rewrite E3, E2, E1. reflexivity. }
  destruct (piece_at b (mv_from m) =? King); [|exact E4].
  destruct (castle_rook (mv_from m) (mv_to m)) as [[rf rt]|]; [|exact E4].
  pose proof (rm_castles z (set_ep b3 ne) (stm b) Rook rf) as E5.
  destruct (remove_piece z (set_ep b3 ne) (stm b) Rook rf) as [c1 g1]. cbn [fst] in E5.
  pose proof (add_castles z c1 (stm b) Rook rt) as E6.
  destruct (add_piece z c1 (stm b) Rook rt) as [c2 g2]. cbn [fst] in E6.
  cbn [fst set_hashes set_stm castles]. rewrite E6, E5. exact E4.
Qed.

Lemma bxor_cancel x y : bxor x (bxor x y) = y.
Proof. unfold bxor. rewrite <- N.lxor_assoc, N.lxor_nilpotent, N.lxor_0_l. reflexivity. Qed.

Lemma make_castles' z b m : castles (fst (make z b m)) = new_castles b m.
Proof. rewrite make_castles. apply bxor_cancel. Qed.

Lemma lt16_tb x : x < 16 <-> (forall i, 4 <= i -> N.testbit x i = false).
Proof.
  split.
  - intros H i Hi. destruct (N.eq_dec x 0) as [->|Hx]; [apply N.bits_0|].
    apply N.bits_above_log2. change 16 with (2 ^ 4) in H. apply N.log2_lt_pow2 in H; lia.
  - intros H. destruct (N.eq_dec x 0) as [->|Hx]; [reflexivity|].
    change 16 with (2 ^ 4). apply N.log2_lt_pow2; [lia|].
    destruct (N.lt_ge_cases (N.log2 x) 4) as [L|L]; [exact L|].
    pose proof (N.bit_log2 x Hx) as B. rewrite H in B by exact L. discriminate.
Qed.

Lemma new_castles_lt b m : castles b < 16 -> new_castles b m < 16.
Proof.
  intros H. apply lt16_tb. intros i Hi. unfold new_castles. cbv zeta.
  rewrite bandn_tb. rewrite (proj1 (lt16_tb _) H i Hi). reflexivity.
Qed.

Lemma make_MRep : forall z b m, MRep b -> valid (abs b) = true -> pseudo_spec (abs b) m = true ->
  MRep (fst (make z b m)).
Proof.
  intros z b m [HR [He Hc]] HV HP. split; [apply make_PRep; assumption|]. split.
  - rewrite make_ep. destruct (can_ep_flag b m); [|reflexivity].
    pose proof (mv_from_lt m). pose proof (mv_to_lt m). apply N.div_lt_upper_bound; lia.
  - rewrite make_castles'. apply new_castles_lt. exact Hc.
Qed.

(* ------------------------------------------------------------------------------------------ *)
(* castling rights, bit by bit *)

Definition ridx (c : color) (long : bool) : N := 2 * cix c + (if long then 1 else 0).

Lemma has_right_tb p c long : has_right p c long = N.testbit (rights p) (ridx c long).
Proof.
  unfold has_right, castle_bit. fold (ridx c long). fold (bit (ridx c long)).
  destruct (N.testbit (rights p) (ridx c long)) eqn:E.
  - apply negb_true_iff. apply eqb0_false_iff. exists (ridx c long).
    rewrite N.land_spec, bit_testbit, E, N.eqb_refl. reflexivity.
  - apply negb_false_iff. apply eqb0_true_iff. intros j. rewrite N.land_spec, bit_testbit.
    destruct (N.eqb_spec (ridx c long) j) as [<-|_]; [rewrite E; reflexivity|apply andb_false_r].
Qed.

Lemma peel (c0 : bool) a X i : N.testbit (if c0 then bor a X else a) i = false ->
  N.testbit a i = false /\ (c0 = true -> N.testbit X i = false).
Proof.
  destruct c0.
  - rewrite bor_tb, orb_false_iff. tauto.
  - intros H. split; [exact H|discriminate].
Qed.

Lemma new_castles_right b m c long : N.testbit (new_castles b m) (ridx c long) = true ->
  N.testbit (castles b) (ridx c long) = true /\
  ~ (piece_at b (mv_from m) = King /\ c = stm b) /\
  mv_from m <> rook_home c long /\ mv_to m <> rook_home c long.
Proof.
  unfold new_castles. cbv zeta. rewrite bandn_tb, andb_true_iff, negb_true_iff. intros [R1 H2].
  split; [exact R1|].
  apply peel in H2. destruct H2 as [H2 P4].
  apply peel in H2. destruct H2 as [H2 P3].
  apply peel in H2. destruct H2 as [H2 P2].
  apply peel in H2. destruct H2 as [H0 P1].
  split.
  - intros [K Hs]. rewrite K, <- Hs in H0. destruct c, long; vm_compute in H0; discriminate.
  - destruct c, long.
    + destruct ((mv_from m =? A1) || (mv_to m =? A1)) eqn:E; [specialize (P1 eq_refl); vm_compute in P1; discriminate|].
      apply orb_false_iff in E. destruct E as [Ea Eb]. apply N.eqb_neq in Ea, Eb. split; assumption.
    + destruct ((mv_from m =? Types.H1) || (mv_to m =? Types.H1)) eqn:E; [specialize (P2 eq_refl); vm_compute in P2; discriminate|].
      apply orb_false_iff in E. destruct E as [Ea Eb]. apply N.eqb_neq in Ea, Eb. split; assumption.
    + destruct ((mv_from m =? A8) || (mv_to m =? A8)) eqn:E; [specialize (P3 eq_refl); vm_compute in P3; discriminate|].
      apply orb_false_iff in E. destruct E as [Ea Eb]. apply N.eqb_neq in Ea, Eb. split; assumption.
    + destruct ((mv_from m =? H8) || (mv_to m =? H8)) eqn:E; [specialize (P4 eq_refl); vm_compute in P4; discriminate|].
      apply orb_false_iff in E. destruct E as [Ea Eb]. apply N.eqb_neq in Ea, Eb. split; assumption.
Qed.

(* ------------------------------------------------------------------------------------------ *)
(* spec level: a pseudo-legal move reaches its target, and never captures a king *)

Lemma flip_flip c : flip (flip c) = c.
Proof. destruct c; reflexivity. Qed.

Lemma king_to_between c long : In (king_to (king_home c) long) (between (king_home c) (rook_home c long)).
Proof. destruct c, long; vm_compute; tauto. Qed.

Lemma pseudo_reach p m : pseudo_spec p m = true ->
  exists k, who p (mv_from m) = Some (turn p, k) /\
    (empty p (mv_to m) = true \/
     mem (attacks_from (turn p) k (mv_from m) (occ_of p)) (mv_to m) = true).
Proof.
  unfold pseudo_spec. cbv zeta. destruct (who p (mv_from m)) as [[c' k]|]; [|discriminate].
  intros H. rewrite !andb_true_iff in H. destruct H as [[A B] C].
  apply color_eqb_true in A. subst c'. exists k. split; [reflexivity|].
  revert C. destruct (N.eqb_spec k Pawn) as [->|NP].
  - intros C. rewrite !andb_true_iff, !orb_true_iff, !andb_true_iff in C. destruct C as [_ [[C|C]|C]].
    + left. tauto.
    + left. tauto.
    + right. destruct C as [C _]. exact C.
  - destruct (N.eqb_spec k King) as [->|NK].
    + intros C. rewrite !andb_true_iff, !orb_true_iff, !andb_true_iff in C. destruct C as [_ [[C|C]|C]].
      * right. exact C.
      * left. destruct C as [[C1 C2] C3]. apply N.eqb_eq in C1, C2.
        unfold castle_ok in C3. cbv zeta in C3. rewrite !andb_true_iff in C3.
        destruct C3 as [[_ C3] _]. rewrite forallb_forall in C3. apply C3.
        rewrite C2, C1. apply (king_to_between (turn p) false).
      * left. destruct C as [[C1 C2] C3]. apply N.eqb_eq in C1, C2.
        unfold castle_ok in C3. cbv zeta in C3. rewrite !andb_true_iff in C3.
        destruct C3 as [[_ C3] _]. rewrite forallb_forall in C3. apply C3.
        replace (mv_to m) with (king_to (king_home (turn p)) true).
        { apply (king_to_between (turn p) true). }
        unfold king_to. rewrite <- C1. lia.
    + intros C. right. apply andb_true_iff in C. exact (proj2 C).
Qed.

Lemma king_sq_of p c k0 : filter (fun s => holds p s c King) squares64 = [k0] -> king_sq p c = k0.
Proof. unfold king_sq. intros ->. reflexivity. Qed.

Lemma attacked_intro p c t s k : t < 64 -> who p t = Some (c, k) ->
  mem (attacks_from c k t (occ_of p)) s = true -> attacked_by p c s = true.
Proof.
  intros Ht Hw A. unfold attacked_by. apply existsb64. exists t. split; [exact Ht|].
  rewrite Hw, color_eqb_refl'. exact A.
Qed.

Lemma in_check_at p c s : king_sq p c = s -> in_check_spec p c = attacked_by p (flip c) s.
Proof. intros <-. reflexivity. Qed.

Lemma king_not_target p m : valid p = true -> pseudo_spec p m = true ->
  who p (mv_to m) <> Some (flip (turn p), King).
Proof.
  intros HV HP Hw. destruct (pseudo_reach p m HP) as [k [Hf [E|A]]].
  - unfold empty in E. rewrite Hw in E. discriminate.
  - destruct (valid_split _ HV) as [_ [MW [MB [_ [IC _]]]]].
    assert (M : material_ok p (flip (turn p)) = true) by (destruct (turn p); [exact MB|exact MW]).
    destruct (material_king _ _ M) as [k0 [K1 [K2 K3]]].
    assert (Ek : mv_to m = k0) by (apply K3; [apply mv_to_lt|apply holds_iff; exact Hw]).
    apply king_sq_of in K2. rewrite <- Ek in K2.
    rewrite (in_check_at _ _ _ K2), flip_flip in IC.
    rewrite (attacked_intro p (turn p) (mv_from m) (mv_to m) k (mv_from_lt m) Hf A) in IC.
    discriminate.
Qed.

(* material, on abstract count vectors *)
Lemma material_mover (cp cq : N -> Z) (piece put : N) :
  (forall k, cq k + bz (N.eqb k piece) = cp k + bz (N.eqb k put))%Z ->
  (put = piece \/ (piece = Pawn /\ 2 <= put <= 5)) ->
  (cp King = 1 -> msum (cp Pawn) (cp Knight) (cp Bishop) (cp Rook) (cp Queen) <= 8 ->
   cq King = 1 /\ msum (cq Pawn) (cq Knight) (cq Bishop) (cq Rook) (cq Queen) <= 8)%Z.
Proof.
  intros E D K S.
  pose proof (E King) as E6. pose proof (E Pawn) as E1. pose proof (E Knight) as E2.
  pose proof (E Bishop) as E3. pose proof (E Rook) as E4. pose proof (E Queen) as E5.
  unfold msum in *.
  destruct D as [->|[-> R]].
  - lia.
  - assert (D : put = 2 \/ put = 3 \/ put = 4 \/ put = 5) by lia.
    destruct D as [->|[->|[->| ->]]]; cbn in E1, E2, E3, E4, E5, E6; lia.
Qed.

Lemma material_opp (cp cq d : N -> Z) :
  (forall k, cq k + d k = cp k)%Z -> (forall k, 0 <= d k <= 1)%Z -> d King = 0%Z ->
  (cp King = 1 -> msum (cp Pawn) (cp Knight) (cp Bishop) (cp Rook) (cp Queen) <= 8 ->
   cq King = 1 /\ msum (cq Pawn) (cq Knight) (cq Bishop) (cq Rook) (cq Queen) <= 8)%Z.
Proof.
  intros E R D K S.
  pose proof (E King) as E6. pose proof (E Pawn) as E1. pose proof (E Knight) as E2.
  pose proof (E Bishop) as E3. pose proof (E Rook) as E4. pose proof (E Queen) as E5.
  pose proof (R Pawn). pose proof (R Knight). pose proof (R Bishop). pose proof (R Rook). pose proof (R Queen).
  unfold msum in *. lia.
Qed.

(* ------------------------------------------------------------------------------------------ *)
(* the successor placement [eng_fun b m] of a pseudo-legal move of a valid position *)

Section Step.
Variable b : board.
Variable m : N.
Hypothesis HR : PRep b.
Hypothesis HV : valid (abs b) = true.
Hypothesis HP : pseudo_spec (abs b) m = true.

Local Notation p := (abs b).
Local Notation me := (stm b).
Local Notation from := (mv_from m).
Local Notation to := (mv_to m).
Local Notation piece := (piece_at b (mv_from m)).
Local Notation csq := (capture_sq b m).
Local Notation f := (who (abs b)).
Local Notation g := (eng_fun b m).

Lemma Sh : shape b m.
Proof. apply pseudo_shape; assumption. Qed.

Lemma Ffrom : f from = Some (me, piece).
Proof. apply (sh_from b m Sh). Qed.

Lemma piece_range : 1 <= piece <= 6.
Proof. apply (who_piece_range b HR _ _ _ Ffrom). Qed.

Lemma csq_from : csq <> from.
Proof. apply shape_csq_from; [exact HR|exact Sh]. Qed.

Lemma to_not_own : forall k, f to <> Some (me, k).
Proof.
  intros k H. destruct (pseudo_from _ _ HP) as [k0 [_ Ho]]. change (turn p) with me in Ho.
  rewrite (owned_from _ _ _ _ H) in Ho. discriminate.
Qed.

Lemma to_not_king : forall c, f to <> Some (c, King).
Proof.
  intros c H. destruct (color_eqb c me) eqn:E.
  - apply color_eqb_true in E. subst c. exact (to_not_own _ H).
  - assert (c = flip me) by (destruct c, (stm b); cbn in E; try discriminate; reflexivity). subst c.
    exact (king_not_target p m HV HP H).
Qed.

(* the captured piece *)
Lemma Fcsq : f csq = None \/ exists k', f csq = Some (flip me, k') /\ k' <> King.
Proof.
  destruct (sh_cap b m Sh) as [H|[k' H]]; [left; exact H|]. right. exists k'. split; [exact H|].
  intros ->. destruct (is_en_passant b m) eqn:E.
  - assert (Hw : f from = Some (me, Pawn)).
    { rewrite Ffrom. unfold is_en_passant in E. rewrite !andb_true_iff in E. destruct E as [_ E].
      apply N.eqb_eq in E. rewrite E. reflexivity. }
    destruct (ep_capture_sq b m HR HV Hw HP E) as [X _]. rewrite X in H. discriminate.
  - rewrite (capture_sq_noep b m E) in H. exact (to_not_king _ H).
Qed.

Lemma csq_tst_me k : tst me k (f csq) = false.
Proof.
  destruct Fcsq as [->|[k' [-> _]]]; [reflexivity|]. cbn [tst].
  destruct (stm b); reflexivity.
Qed.

Lemma csq_tst_king c : tst c King (f csq) = false.
Proof.
  destruct Fcsq as [->|[k' [-> NK]]]; [reflexivity|]. cbn [tst].
  apply N.eqb_neq in NK. rewrite (N.eqb_sym King k'), NK. apply andb_false_r.
Qed.

Lemma h2_to : fupd (fupd f csq None) from None to = None.
Proof.
  unfold fupd. destruct (N.eqb_spec to from); [reflexivity|].
  destruct (N.eqb_spec to csq); [reflexivity|].
  destruct (sh_to b m Sh) as [H|H]; [congruence|exact H].
Qed.

Lemma cz_eng3 c k :
  (cz c k (eng3 b m) + bz (tst c k (f csq)) + bz (tst c k (Some (me, piece))) =
   cz c k f + bz (tst c k (Some (me, mk_put b m))))%Z.
Proof.
  unfold eng3.
  pose proof (cz_upd c k (fupd (fupd f csq None) from None) to (Some (me, mk_put b m)) (mv_to_lt m)) as E3.
  rewrite h2_to in E3.
  pose proof (cz_upd c k (fupd f csq None) from None (mv_from_lt m)) as E2.
  assert (X : fupd f csq None from = Some (me, piece)).
  { unfold fupd. destruct (N.eqb_spec from csq) as [E|_]; [symmetry in E; destruct (csq_from E)|exact Ffrom]. }
  rewrite X in E2.
  pose proof (cz_upd c k f csq None (capture_sq_lt b m)) as E1.
  change (tst c k None) with false in *. change (bz false) with 0%Z in *.
  revert E1 E2 E3.
  generalize (cz c k (fupd (fupd (fupd f csq None) from None) to (Some (me, mk_put b m)))).
  generalize (cz c k (fupd (fupd f csq None) from None)).
  generalize (cz c k (fupd f csq None)).
  generalize (cz c k f).
  intros; lia.
Qed.

Lemma cz_eng c k :
  (cz c k g + bz (tst c k (f csq)) + bz (tst c k (Some (me, piece))) =
   cz c k f + bz (tst c k (Some (me, mk_put b m))))%Z.
Proof.
  unfold eng_fun. pose proof (cz_eng3 c k) as E3.
  destruct (N.eqb_spec piece King) as [EK|EK]; [|exact E3].
  destruct (sh_king b m Sh EK) as [NE [[_ [_ CR]]|[long [Hfrom [Hto [Hr Hrt]]]]]].
  - rewrite CR. exact E3.
  - destruct (castle_geom me long) as [G1 [G2 [G3 [G4 [G5 [G6 [G7 [G8 [G9 [G10 _]]]]]]]]]].
    cbv zeta in G1, G2, G3, G4, G5, G6, G7, G8, G9, G10.
    rewrite <- Hfrom in G1, G2, G3, G5, G6, G7, G8, G9, G10. rewrite <- Hto in G1, G3, G7, G9.
    rewrite G1.
    set (rf := rook_home me long) in *. set (rt := rook_to from long) in *.
    pose proof (capture_sq_noep b m NE) as Ncr.
    assert (X1 : eng3 b m rf = Some (me, Rook)).
    { unfold eng3, fupd. rewrite Ncr.
      destruct (N.eqb_spec rf to); [congruence|]. destruct (N.eqb_spec rf from); [congruence|]. exact Hr. }
    assert (X2 : fupd (eng3 b m) rf None rt = None).
    { unfold fupd at 1. destruct (N.eqb_spec rt rf); [reflexivity|]. unfold eng3, fupd. rewrite Ncr.
      destruct (N.eqb_spec rt to); [congruence|]. destruct (N.eqb_spec rt from); [congruence|]. exact Hrt. }
    pose proof (cz_upd c k (fupd (eng3 b m) rf None) rt (Some (me, Rook)) G5) as E5. rewrite X2 in E5.
    pose proof (cz_upd c k (eng3 b m) rf None G4) as E4. rewrite X1 in E4.
    change (tst c k None) with false in *. change (bz false) with 0%Z in *.
    revert E3 E4 E5.
    generalize (cz c k (fupd (fupd (eng3 b m) rf None) rt (Some (me, Rook)))).
    generalize (cz c k (fupd (eng3 b m) rf None)).
    generalize (cz c k (eng3 b m)).
    generalize (cz c k f).
    intros; lia.
Qed.

Lemma put_cases : mk_put b m = piece \/ (piece = Pawn /\ 2 <= mk_put b m <= 5).
Proof.
  unfold mk_put, NoPiece. destruct (sh_promo b m Sh) as [->|[A B]]; [left; reflexivity|].
  destruct (N.eqb_spec (mv_promo m) 0); cbn [negb]; [lia|right; tauto].
Qed.

(* a position whose placement is [eng_fun b m] *)
Variable q : pos.
Hypothesis Hq : Lf (at_ q) g.

Lemma who_q s : who q s = g s.
Proof. apply (proj2 Hq). Qed.

Lemma count_q c k : count q c k = cz c k g.
Proof. rewrite count_cz. apply cz_ext. exact who_q. Qed.

Lemma material_me : material_ok q me = true.
Proof.
  destruct (valid_split _ HV) as [_ [MW [MB _]]].
  assert (M : material_ok p me = true) by (destruct (stm b); [exact MW|exact MB]).
  apply material_iff in M. destruct M as [M1 M2]. apply material_iff.
  apply (material_mover (count p me) (count q me) piece (mk_put b m)); [|exact put_cases|exact M1|exact M2].
  intros k. rewrite count_q, count_cz. pose proof (cz_eng me k) as E.
  rewrite csq_tst_me in E. cbn [tst] in E. rewrite color_eqb_refl' in E. cbn [andb bz] in E.
  lia.
Qed.

Lemma material_them : material_ok q (flip me) = true.
Proof.
  destruct (valid_split _ HV) as [_ [MW [MB _]]].
  assert (M : material_ok p (flip me) = true) by (destruct (stm b); [exact MB|exact MW]).
  apply material_iff in M. destruct M as [M1 M2]. apply material_iff.
  apply (material_opp (count p (flip me)) (count q (flip me)) (fun k => bz (tst (flip me) k (f csq))));
    [|intros k; apply bz_range|rewrite csq_tst_king; reflexivity|exact M1|exact M2].
  intros k. rewrite count_q, count_cz. pose proof (cz_eng (flip me) k) as E.
  cbn [tst] in E. rewrite color_eqb_flip' in E. cbn [andb bz] in E. lia.
Qed.

(* pawns *)
Lemma pawn_to_range : piece = Pawn -> mv_promo m = 0 -> 8 <= to < 56.
Proof.
  intros EP P0. pose proof Ffrom as Hw. rewrite EP in Hw.
  pose proof HP as HP'. apply (pseudo_pawn b HR m Hw) in HP'. destruct HP' as [_ [B C]].
  assert (Rf : 8 <= from < 56) by (apply (valid_no_edge_pawn b me from HR HV); apply holds_iff; exact Hw).
  pose proof (mv_to_lt m) as Lt.
  assert (NL : rank_n to <> last_rank me).
  { intros E. apply N.eqb_eq in E. rewrite E, P0 in B. discriminate. }
  assert (D : match me with
              | White => to = from + 8 \/ to = from + 16 \/ to = from + 7 \/ to = from + 9
              | Black => to + 8 = from \/ to + 16 = from \/ to + 7 = from \/ to + 9 = from end).
  { destruct C as [[C _]|[[C1 [C2 _]]|[C _]]].
    - unfold fwd in C. destruct (stm b); lia.
    - destruct (push_facts me from Rf) as [_ [P2 _]]. rewrite P2 in C1. unfold fwd in C2.
      destruct (stm b); cbn [on2b] in C1; rewrite andb_true_iff, N.leb_le, N.ltb_lt in C1; lia.
    - destruct (pa_from me from ltac:(lia)) as [_ F]. destruct (F to Lt) as [F1 _]. rewrite F1 in C.
      unfold pa_formula in C. destruct (stm b); rewrite orb_true_iff, !andb_true_iff, !N.eqb_eq in C; lia. }
  unfold rank_n, last_rank in NL. clear B C Hw. dm8 (mv_to m). destruct (stm b); lia.
Qed.

Lemma g_pawn c s : g s = Some (c, Pawn) -> 8 <= s < 56.
Proof.
  assert (E3 : eng3 b m s = Some (c, Pawn) -> 8 <= s < 56).
  { unfold eng3, fupd. destruct (N.eqb_spec s to) as [->|_].
    - intros H. injection H as _ Hput. unfold mk_put, NoPiece in Hput.
      destruct (sh_promo b m Sh) as [P0|[_ R]].
      + rewrite P0 in Hput. cbn [N.eqb negb] in Hput. apply pawn_to_range; assumption.
      + destruct (N.eqb_spec (mv_promo m) 0); cbn [negb] in Hput; unfold Pawn in Hput; lia.
    - destruct (N.eqb_spec s from); [discriminate|]. destruct (N.eqb_spec s csq); [discriminate|].
      intros H. apply (valid_no_edge_pawn b c s HR HV). apply holds_iff. exact H. }
  unfold eng_fun. destruct (piece =? King); [|exact E3].
  destruct (castle_rook from to) as [[rf rt]|]; [|exact E3].
  unfold fupd at 1 2. destruct (N.eqb_spec s rt); [discriminate|]. destruct (N.eqb_spec s rf); [discriminate|].
  exact E3.
Qed.

Lemma edge_q : no_pawn_on_edge q = true.
Proof.
  unfold no_pawn_on_edge. apply forallb_forall. intros s Hs.
  assert (R : forall c, holds q s c Pawn = true -> ((rank_n s =? 0) || (rank_n s =? 7)) = false).
  { intros c H. apply holds_iff in H. rewrite who_q in H. apply g_pawn in H.
    unfold rank_n. apply orb_false_iff. split; apply N.eqb_neq; dm8 s; lia. }
  destruct (holds q s White Pawn) eqn:EW; [rewrite (R White EW); reflexivity|].
  destruct (holds q s Black Pawn) eqn:EB; [rewrite (R Black EB); reflexivity|].
  apply orb_true_r.
Qed.

(* squares that keep their content *)
Lemma g_same s c k : f s = Some (c, k) -> s <> from -> s <> to -> k <> Pawn -> (c = me -> piece <> King) ->
  g s = Some (c, k).
Proof.
  intros Hs Nf Nt NP NK.
  assert (Nc : s <> csq).
  { intros ->. destruct (is_en_passant b m) eqn:E.
    - assert (Hw : f from = Some (me, Pawn)).
      { rewrite Ffrom. unfold is_en_passant in E. rewrite !andb_true_iff in E. destruct E as [_ E].
        apply N.eqb_eq in E. rewrite E. reflexivity. }
      destruct (ep_capture_sq b m HR HV Hw HP E) as [X _]. rewrite X in Hs. injection Hs as _ Hs. congruence.
    - apply Nt. apply capture_sq_noep. exact E. }
  assert (E3 : eng3 b m s = Some (c, k)).
  { unfold eng3, fupd. destruct (N.eqb_spec s to); [contradiction|].
    destruct (N.eqb_spec s from); [contradiction|]. destruct (N.eqb_spec s csq); [contradiction|]. exact Hs. }
  unfold eng_fun. destruct (N.eqb_spec piece King) as [EK|EK]; [|exact E3].
  destruct (sh_king b m Sh EK) as [NE [[_ [_ CR]]|[long [Hfrom [Hto [Hr Hrt]]]]]].
  - rewrite CR. exact E3.
  - destruct (castle_geom me long) as [G1 _]. cbv zeta in G1. rewrite <- Hfrom, <- Hto in G1. rewrite G1.
    unfold fupd at 1 2.
    destruct (N.eqb_spec s (rook_to from long)) as [->|_]; [rewrite Hrt in Hs; discriminate|].
    destruct (N.eqb_spec s (rook_home me long)) as [->|_]; [|exact E3].
    rewrite Hr in Hs. injection Hs as Hc _. symmetry in Hc. destruct (NK Hc EK).
Qed.

Lemma rights_keep c long : has_right p c long = true ->
  ~ (piece = King /\ c = me) -> from <> rook_home c long -> to <> rook_home c long ->
  g (king_home c) = Some (c, King) /\ g (rook_home c long) = Some (c, Rook).
Proof.
  intros H NK Nf Nt. destruct (valid_rights b c long HV H) as [HK HRk].
  apply holds_iff in HK, HRk. split.
  - apply g_same; [exact HK| | |discriminate|tauto].
    + intros E. rewrite E, Ffrom in HK. injection HK as A B. apply NK. split; congruence.
    + intros E. rewrite E in HK. exact (to_not_king _ HK).
  - apply g_same; [exact HRk|congruence|congruence|discriminate|tauto].
Qed.

(* en passant: the target is only recorded after a double step *)
Lemma dbl_csq_all :
  forallb (fun a => forallb (fun t =>
    negb ((t =? a + 16) || (t + 16 =? a)) || (N.lor (N.land t 7) (N.land a 56) =? a)) squares64) squares64 = true.
Proof. vm_compute. reflexivity. Qed.

Lemma double_facts : piece = Pawn -> abs_diff from to = 16 ->
  mv_promo m = 0 /\ is_en_passant b m = false /\ f ((from + to) / 2) = None /\ f to = None /\
  to = fwd me ((from + to) / 2) /\ from = fwd (flip me) ((from + to) / 2) /\
  rank_n ((from + to) / 2) = match flip me with White => 5 | Black => 2 end /\
  (from + to) / 2 <> from /\ (from + to) / 2 <> to.
Proof.
  intros EP HD. pose proof Ffrom as Hw. rewrite EP in Hw.
  pose proof HP as HP'. apply (pseudo_pawn b HR m Hw) in HP'. destruct HP' as [_ [B C]].
  assert (Rf : 8 <= from < 56) by (apply (valid_no_edge_pawn b me from HR HV); apply holds_iff; exact Hw).
  pose proof (mv_to_lt m) as Lt.
  destruct (push_facts me from Rf) as [_ [P2 [_ P4]]].
  unfold abs_diff in HD.
  assert (D : on2b me from = true /\ to = fwd me (fwd me from) /\ N.testbit (occupancy b) (fwd me from) = false /\ N.testbit (occupancy b) to = false).
  { destruct C as [[C _]|[[C1 [C2 [C3 C4]]]|[C _]]].
    - exfalso. unfold fwd in C. destruct (N.ltb_spec from to); destruct (stm b); lia.
    - rewrite P2 in C1. tauto.
    - exfalso. destruct (pa_from me from ltac:(lia)) as [_ F]. destruct (F to Lt) as [F1 _]. rewrite F1 in C.
      unfold pa_formula in C.
      destruct (stm b); rewrite orb_true_iff, !andb_true_iff, !N.eqb_eq in C;
        destruct (N.ltb_spec from to); lia. }
  destruct D as [D1 [D2 [D3 D4]]]. destruct (P4 D1) as [Q1 _].
  assert (R2 : match me with White => 8 <= from < 16 /\ to = from + 16 | Black => 48 <= from < 56 /\ to + 16 = from end).
  { unfold fwd in D2. destruct (stm b); cbn [on2b] in D1; rewrite andb_true_iff, N.leb_le, N.ltb_lt in D1; lia. }
  assert (Em : (from + to) / 2 = fwd me from).
  { unfold fwd. destruct (stm b).
    - replace (from + to) with ((from + 8) * 2) by lia. apply N.div_mul. discriminate.
    - replace (from + to) with ((from - 8) * 2) by lia. apply N.div_mul. discriminate. }
  rewrite Em. clear HD.
  split. { rewrite D2, Q1 in B. exact B. }
  split.
  { destruct (is_en_passant b m) eqn:E; [|reflexivity]. exfalso. apply csq_from.
    unfold capture_sq. rewrite E.
    pose proof (all64_2 _ dbl_csq_all from to (mv_from_lt m) Lt) as X. cbv beta in X.
    assert (Y : ((to =? from + 16) || (to + 16 =? from)) = true).
    { apply orb_true_iff. rewrite !N.eqb_eq. destruct (stm b); lia. }
    rewrite Y in X. cbn [negb orb] in X. apply N.eqb_eq in X. exact X. }
  split. { apply (who_none b HR). exact D3. }
  split. { apply (who_none b HR). exact D4. }
  split. { exact D2. }
  split. { unfold fwd. destruct (stm b); cbn [flip]; lia. }
  split. { unfold rank_n, fwd. clear Em B C D2 D3 D4 Q1 P2 P4 Hw. destruct (stm b); cbn [flip].
           - dm8 (mv_from m + 8). lia.
           - dm8 (mv_from m - 8). lia. }
  unfold fwd. destruct (stm b); lia.
Qed.

Lemma g_double : piece = Pawn -> abs_diff from to = 16 ->
  forall s, g s = if s =? to then Some (me, Pawn) else if s =? from then None else f s.
Proof.
  intros EP HD s. destruct (double_facts EP HD) as [P0 [NE _]].
  unfold eng_fun. rewrite EP. change (Pawn =? King) with false. cbv iota.
  unfold eng3, fupd. rewrite (capture_sq_noep b m NE).
  assert (X : mk_put b m = Pawn) by (unfold mk_put; rewrite P0; exact EP). rewrite X.
  destruct (s =? to); reflexivity.
Qed.

Lemma ep_q : turn q = flip me -> epsq q = Some ((from + to) / 2) -> piece = Pawn -> abs_diff from to = 16 ->
  ep_ok q = true.
Proof.
  intros Ht He EP HD.
  destruct (double_facts EP HD) as [P0 [NE [Fm [Ft [Eto [Efrom [Rk [Nmf Nmt]]]]]]]].
  pose proof (g_double EP HD) as G.
  pose proof (sh_to_from b m Sh) as Ntf.
  unfold ep_ok. rewrite He, Ht. cbv beta iota zeta. rewrite flip_flip.
  set (mid := (from + to) / 2) in *. clearbody mid.
  rewrite <- Eto, <- Efrom, Rk, N.eqb_refl.
  assert (E1 : empty q mid = true).
  { unfold empty. rewrite who_q, G. apply N.eqb_neq in Nmf, Nmt. rewrite Nmf, Nmt, Fm. reflexivity. }
  assert (E2 : empty q from = true).
  { unfold empty. rewrite who_q, G. assert (X : (from =? to) = false) by (apply N.eqb_neq; congruence).
    rewrite X, N.eqb_refl. reflexivity. }
  assert (E3 : holds q to me Pawn = true).
  { apply holds_iff. rewrite who_q, G, N.eqb_refl. reflexivity. }
  rewrite E1, E2, E3. cbn [andb].
  assert (A : at_ (with_placement q (put (put (at_ q) to None) from (Some (me, Pawn)))) = at_ p).
  { cbn [with_placement at_]. apply (Lf_inj _ _ f); [|apply Lf_abs].
    eapply Lf_ext; [apply Lf_put; [apply Lf_put; [exact Hq|apply mv_to_lt]|apply mv_from_lt]|].
    intros s. unfold fupd. rewrite G.
    destruct (N.eqb_spec s from) as [->|_]; [rewrite Ffrom, EP; reflexivity|].
    destruct (N.eqb_spec s to) as [->|_]; [symmetry; exact Ft|reflexivity]. }
  rewrite (in_check_spec_congr _ _ (flip me) A).
  destruct (valid_split _ HV) as [_ [_ [_ [_ [IC _]]]]]. change (turn p) with me in IC. rewrite IC. reflexivity.
Qed.

Lemma valid_intro (r : pos) : length (at_ r) = 64%nat -> material_ok r White = true -> material_ok r Black = true ->
  no_pawn_on_edge r = true -> in_check_spec r (flip (turn r)) = false -> rights_consistent r = true ->
  ep_ok r = true -> valid r = true.
Proof.
  intros A B C D E F G. unfold valid. rewrite A, B, C, D, E, F, G. reflexivity.
Qed.

Lemma valid_after :
  in_check_spec (with_placement p (place_after p m)) me = false ->
  turn q = flip me ->
  (forall c long, has_right q c long = true ->
     has_right p c long = true /\ ~ (piece = King /\ c = me) /\ from <> rook_home c long /\ to <> rook_home c long) ->
  (epsq q = None \/ (epsq q = Some ((from + to) / 2) /\ piece = Pawn /\ abs_diff from to = 16)) ->
  valid q = true.
Proof.
  intros IC Ht Hr He. apply valid_intro.
  - exact (proj1 Hq).
  - pose proof material_me as A. pose proof material_them as B. destruct (stm b); [exact A|exact B].
  - pose proof material_me as A. pose proof material_them as B. destruct (stm b); [exact B|exact A].
  - exact edge_q.
  - rewrite Ht, flip_flip. rewrite <- IC. apply in_check_spec_congr. cbn [with_placement at_].
    apply (Lf_inj _ _ g); [exact Hq|]. apply place_Lf; [exact HR|exact Sh].
  - unfold rights_consistent.
    assert (X : forall c long, negb (has_right q c long) ||
               (holds q (king_home c) c King && holds q (rook_home c long) c Rook) = true).
    { intros c long. destruct (has_right q c long) eqn:E; [|reflexivity]. cbn [negb orb].
      destruct (Hr c long E) as [H1 [H2 [H3 H4]]]. destruct (rights_keep c long H1 H2 H3 H4) as [K1 K2].
      apply andb_true_iff. split; apply holds_iff; rewrite who_q; assumption. }
    cbn [forallb]. rewrite !X. reflexivity.
  - destruct He as [He|[He [EP HD]]]; [unfold ep_ok; rewrite He; reflexivity|].
    apply ep_q; assumption.
Qed.

End Step.

(* ------------------------------------------------------------------------------------------ *)
(* MakeMove *)

Lemma make_valid : forall z b m, MRep b -> valid (abs b) = true -> legal_spec (abs b) m = true ->
  valid (abs (fst (make z b m))) = true.
Proof.
  intros z b m [HR _] HV HL. unfold legal_spec in HL. apply andb_true_iff in HL. destruct HL as [HP IC].
  apply negb_true_iff in IC.
  apply (valid_after b m HR HV HP (abs (fst (make z b m)))).
  - eapply Lf_ext; [apply Lf_abs|]. exact (proj2 (make_Pw_spec z b m HR HV HP)).
  - exact IC.
  - apply make_stm.
  - intros c long H. rewrite has_right_tb in H. change (rights (abs (fst (make z b m)))) with (castles (fst (make z b m))) in H.
    rewrite make_castles' in H. apply new_castles_right in H. destruct H as [H1 H2].
    split; [rewrite has_right_tb; exact H1|exact H2].
  - change (epsq (abs (fst (make z b m)))) with
      (if ep (fst (make z b m)) =? 0 then None else Some (ep (fst (make z b m)))).
    rewrite make_ep. destruct (can_ep_flag b m) eqn:E; [|left; reflexivity].
    destruct ((mv_from m + mv_to m) / 2 =? 0); [left; reflexivity|]. right. split; [reflexivity|].
    unfold can_ep_flag in E. rewrite !andb_true_iff, !N.eqb_eq in E. tauto.
Qed.

(* ------------------------------------------------------------------------------------------ *)
(* the specification's successor, for positions that are abstractions of engine boards *)

Definition lose_cond (p : pos) (m : N) (c : color) (long : bool) : bool :=
  (holds p (mv_from m) c King && color_eqb (turn p) c) || (mv_from m =? rook_home c long) ||
  (mv_to m =? rook_home c long).

Lemma peel2 (cnd : bool) r X i : N.testbit (if cnd then N.ldiff r X else r) i = true ->
  N.testbit r i = true /\ (cnd = true -> N.testbit X i = false).
Proof.
  destruct cnd.
  - rewrite N.ldiff_spec, andb_true_iff, negb_true_iff. tauto.
  - intros H. split; [exact H|discriminate].
Qed.

Lemma rights_after_right p m c long : N.testbit (rights_after p m) (ridx c long) = true ->
  N.testbit (rights p) (ridx c long) = true /\ lose_cond p m c long = false.
Proof.
  unfold rights_after. cbv beta zeta. intros H.
  apply peel2 in H. destruct H as [H P4].
  apply peel2 in H. destruct H as [H P3].
  apply peel2 in H. destruct H as [H P2].
  apply peel2 in H. destruct H as [H P1].
  split; [exact H|]. unfold lose_cond.
  match goal with |- ?X = false => destruct X eqn:E; [|reflexivity] end. exfalso.
  destruct c, long.
  - specialize (P2 E). vm_compute in P2. discriminate.
  - specialize (P1 E). vm_compute in P1. discriminate.
  - specialize (P4 E). vm_compute in P4. discriminate.
  - specialize (P3 E). vm_compute in P3. discriminate.
Qed.

Lemma succ_fields p m :
  at_ (succ_spec p m) = place_after p m /\ turn (succ_spec p m) = flip (turn p) /\
  rights (succ_spec p m) = rights_after p m /\
  (epsq (succ_spec p m) = None \/
   (epsq (succ_spec p m) = Some ((mv_from m + mv_to m) / 2) /\
    holds p (mv_from m) (turn p) Pawn = true /\
    (mv_to m = mv_from m + 16 \/ mv_to m + 16 = mv_from m))).
Proof.
  unfold succ_spec. cbv zeta.
  match goal with |- context [if ?d && ?e then _ else _] => destruct d eqn:D; cbn [andb]; [destruct e|] end;
    cbn [at_ turn rights epsq]; repeat split; auto.
  right. split; [reflexivity|]. rewrite andb_true_iff, orb_true_iff, !N.eqb_eq in D. exact D.
Qed.

Lemma valid_step_abs : forall b m, PRep b -> valid (abs b) = true -> legal_spec (abs b) m = true ->
  valid (succ_spec (abs b) m) = true.
Proof.
  intros b m HR HV HL. unfold legal_spec in HL. apply andb_true_iff in HL. destruct HL as [HP IC].
  apply negb_true_iff in IC.
  destruct (succ_fields (abs b) m) as [S1 [S2 [S3 S4]]].
  pose proof (Ffrom b m HR HV HP) as Hf.
  apply (valid_after b m HR HV HP).
  - rewrite S1. apply place_Lf; [exact HR|apply Sh; assumption].
  - exact IC.
  - exact S2.
  - intros c long H. rewrite has_right_tb, S3 in H. apply rights_after_right in H. destruct H as [H1 H2].
    split; [rewrite has_right_tb; exact H1|].
    unfold lose_cond in H2. rewrite !orb_false_iff, !N.eqb_neq in H2. destruct H2 as [[H2 H3] H4].
    split; [|split; assumption].
    intros [K Hc]. subst c. unfold holds in H2. rewrite Hf, K in H2. change (turn (abs b)) with (stm b) in H2.
    rewrite color_eqb_refl' in H2. discriminate.
  - destruct S4 as [S4|[S4 [S5 S6]]]; [left; exact S4|]. right. split; [exact S4|]. split.
    + apply holds_iff in S5. change (turn (abs b)) with (stm b) in S5. rewrite Hf in S5. congruence.
    + unfold abs_diff. destruct (N.ltb_spec (mv_from m) (mv_to m)); lia.
Qed.
