(* C18, first refinement step: the board-level loop of heur.SEE (Model/See.v) equals the list loop
   [see_loop] run over the sequence of values that the engine's own bookkeeping captures
   ([see_gains]: the same iteration with the threshold arithmetic removed).  No hypothesis on the
   board, the move or the threshold: the equation is exact, int16 wrap-around included.

   Consequences: C18 for the engine's sequence (see = threshold <= balance) and monotonicity.
   The second step (the engine's sequence IS the specified least-valuable-attacker sequence) is
   Proofs/SeeGeom.v. *)
From Coq Require Import NArith ZArith List Bool Lia.
From Chess3 Require Import Base.Bits Base.Word Model.Types Model.Att Model.BoardDef Model.Board
  Gen.SeeConsts Model.See Spec.SeeSpec Proofs.SeeCore.
Import ListNotations.
Open Scope N_scope.

(* ------------------------------------------------------------------------------------------ *)
(* the switch without the threshold arithmetic *)

Definition discover (b : board) (to p occ att : N) : N :=
  if (p =? Pawn) || (p =? Bishop) then bor att (disc_diag b to occ)
  else if p =? Rook then bor att (disc_line b to occ)
  else if p =? Queen then bor att (bor (disc_diag b to occ) (disc_line b to occ))
  else att.

Definition capture0 (b : board) (to p : N) (stmAtt occ att : N) : option (N * N) :=
  let fromBB := band stmAtt (pieces b p) in
  if fromBB =? 0 then None else
  let occ := band occ (bnot (isolate_lsb fromBB)) in
  Some (occ, discover b to p occ att).

Inductive pick :=
| PKing (enemy : bool)                     (* only the king is left; enemy = the other side still attacks *)
| PCap (p : N) (occ att : N) (start : N).  (* a piece of kind p captures *)

Definition step0 (b : board) (to : N) (stm : color) (occ att : N) (start : N) : pick :=
  let stmAtt := band att (colors b stm) in
  let try p := capture0 b to p stmAtt occ att in
  let case_bishop (_ : unit) :=
    match try Bishop with Some (o, a) => PCap Bishop o a Bishop | None =>
    match try Rook with Some (o, a) => PCap Rook o a Bishop | None =>
    match try Queen with Some (o, a) => PCap Queen o a Bishop | None =>
      PKing (negb (band att (bnot (colors b stm)) =? 0))
    end end end in
  let case_knight (_ : unit) :=
    match try Knight with Some (o, a) => PCap Knight o a Knight | None => case_bishop tt end in
  let case_pawn (_ : unit) :=
    match try Pawn with Some (o, a) => PCap Pawn o a start | None => case_knight tt end in
  if start =? Pawn then case_pawn tt else if start =? Knight then case_knight tt else case_bishop tt.

Lemma capture_with_eq b to p stmAtt occ att swap res :
  capture_with b to p stmAtt occ att swap res =
  match capture0 b to p stmAtt occ att with
  | None => None
  | Some (o, a) =>
      let swap' := wrap16 (pval p - swap) in
      if (swap' <? res)%Z then Some (Return (res =? 1)%Z) else Some (Next o a swap')
  end.
Proof.
  unfold capture_with, capture0, discover.
  destruct (band stmAtt (pieces b p) =? 0); [reflexivity|].
  cbv zeta. destruct (wrap16 (pval p - swap) <? res)%Z; reflexivity.
Qed.

Definition step_result (pk : pick) (swap res : Z) : outcome * N :=
  match pk with
  | PKing e => (if e then Return (res =? 0)%Z else Return (res =? 1)%Z, Bishop)
  | PCap p o a st =>
      let swap' := wrap16 (pval p - swap) in
      (if (swap' <? res)%Z then Return (res =? 1)%Z else Next o a swap', st)
  end.

Lemma see_step_eq b to stm occ att swap res start :
  see_step b to stm occ att swap res start = step_result (step0 b to stm occ att start) swap res.
Proof.
  unfold see_step, step0. rewrite !capture_with_eq.
  destruct (start =? Pawn); [|destruct (start =? Knight)];
  repeat match goal with
  | |- context [capture0 ?b ?to ?p ?sa ?o ?a] => destruct (capture0 b to p sa o a) as [[? ?]|]
  end; cbn [step_result]; cbv zeta;
  repeat match goal with |- context [(?x <? ?y)%Z] => destruct (x <? y)%Z end;
  try reflexivity;
  destruct (negb (band att (bnot (colors b stm)) =? 0)); reflexivity.
Qed.

(* ------------------------------------------------------------------------------------------ *)
(* the values the engine's iteration captures; [standing] = value of the piece on the target *)

Fixpoint gains_iter (fuel : nat) (b : board) (to : N) (stm : color) (occ att : N)
                    (startW startB : N) (standing : Z) : list Z :=
  match fuel with
  | O => []
  | S k =>
      let stm := flip stm in
      let att := band att occ in
      if band att (colors b stm) =? 0 then [] else
      let start := match stm with White => startW | Black => startB end in
      match step0 b to stm occ att start with
      | PKing e => if e then [] else [standing]
      | PCap p o a st =>
          standing :: match stm with
                      | White => gains_iter k b to stm o a st startB (pval p)
                      | Black => gains_iter k b to stm o a startW st (pval p)
                      end
      end
  end.

(* Z-valued promotion bonus, without the int16 conversion *)
Definition promo_val (m : N) : Z :=
  if negb (mv_promo m =? NoPiece) then (pval (mv_promo m) - pval Pawn)%Z else 0%Z.

Definition see_gains (b : board) (m : N) : list Z :=
  let to := mv_to m in
  let occ := see_occ b m in
  (pval (piece_at b (capture_sq b m)) + promo_val m)%Z
  :: gains_iter 66 b to (stm b) occ (see_attackers b to occ) Pawn Pawn
                (pval (piece_at b (mv_from m)) + promo_val m)%Z.

(* continue the list loop at a point where it is not yet known whether a capture follows *)
Definition see_cont (l : list Z) (swap res : Z) : bool :=
  match l with
  | [] => (res =? 1)%Z
  | _ :: l' => see_tail l' swap res
  end.

Lemma gains_iter_head fuel b to stm occ att sW sB standing :
  gains_iter fuel b to stm occ att sW sB standing = [] \/
  exists l, gains_iter fuel b to stm occ att sW sB standing = standing :: l.
Proof.
  destruct fuel as [|k]; [left; reflexivity|]. cbn [gains_iter].
  destruct (band (band att occ) (colors b (flip stm)) =? 0); [left; reflexivity|].
  destruct (step0 _ _ _ _ _ _) as [e|p o a st].
  - destruct e; [left; reflexivity|right; eexists; reflexivity].
  - right. eexists. reflexivity.
Qed.

Lemma see_iter_cont fuel : forall b to stm occ att swap res sW sB standing,
  res = 0%Z \/ res = 1%Z ->
  see_iter fuel b to stm occ att swap res sW sB =
  see_cont (gains_iter fuel b to stm occ att sW sB standing) swap res.
Proof.
  induction fuel as [|k IH]; intros b to stm occ att swap res sW sB standing Hres; [reflexivity|].
  cbn [see_iter gains_iter].
  destruct (band (band att occ) (colors b (flip stm)) =? 0); [reflexivity|].
  rewrite see_step_eq.
  set (start := match flip stm with White => sW | Black => sB end).
  destruct (step0 b to (flip stm) occ (band att occ) start) as [e|p o a st]; cbn [step_result].
  - destruct e; cbn [see_cont see_tail]; destruct Hres as [-> | ->]; reflexivity.
  - cbv zeta. cbn [see_cont].
    set (res' := Z.lxor res 1).
    assert (Hres' : res' = 0%Z \/ res' = 1%Z) by (unfold res'; destruct Hres as [-> | ->]; [right|left]; reflexivity).
    set (swap' := wrap16 (pval p - swap)).
    set (G := match flip stm with
              | White => gains_iter k b to (flip stm) o a st sB (pval p)
              | Black => gains_iter k b to (flip stm) o a sW st (pval p)
              end).
    assert (HG : (match flip stm with
                  | White => see_iter k b to (flip stm) o a swap' res' st sB
                  | Black => see_iter k b to (flip stm) o a swap' res' sW st
                  end) = see_cont G swap' res').
    { unfold G. destruct (flip stm); apply IH; exact Hres'. }
    assert (HGh : G = [] \/ exists l, G = pval p :: l).
    { unfold G. destruct (flip stm); apply gains_iter_head. }
    destruct (swap' <? res')%Z eqn:E.
    + (* early exit *)
      destruct HGh as [-> | [l ->]]; cbn [see_tail]; fold res'.
      * reflexivity.
      * fold swap'. rewrite E. reflexivity.
    + rewrite HG. destruct HGh as [-> | [l ->]]; cbn [see_cont see_tail]; fold res'.
      * reflexivity.
      * fold swap'. rewrite E. reflexivity.
Qed.

(* ------------------------------------------------------------------------------------------ *)
(* int16 conversions commute with the ring operations *)

Ltac Zify.zify_post_hook ::= Z.to_euclidean_division_equations.

Lemma wrap16_sub_l a b : wrap16 (wrap16 a - b) = wrap16 (a - b).
Proof. unfold wrap16. lia. Qed.
Lemma wrap16_add_r a b : wrap16 (a + wrap16 b) = wrap16 (a + b).
Proof. unfold wrap16. lia. Qed.

Theorem see_eq_loop b m t : see b m t = see_loop (see_gains b m) t.
Proof.
  unfold see, see_prologue, see_gains, see_loop.
  set (occ := see_occ b m).
  set (pz := promo_val m).
  assert (Hpz : (if negb (mv_promo m =? NoPiece) then wrap16 (pval (mv_promo m) - pval Pawn) else 0%Z)
                = if negb (mv_promo m =? NoPiece) then wrap16 pz else pz).
  { unfold pz, promo_val. destruct (negb (mv_promo m =? NoPiece)); reflexivity. }
  rewrite Hpz. clear Hpz.
  assert (Hw : forall c, wrap16 (c + (if negb (mv_promo m =? NoPiece) then wrap16 pz else pz)) = wrap16 (c + pz)).
  { intros c. destruct (negb (mv_promo m =? NoPiece)); [apply wrap16_add_r|reflexivity]. }
  rewrite !Hw, !wrap16_sub_l.
  set (s0 := wrap16 (pval (piece_at b (capture_sq b m)) + pz - t)).
  destruct (s0 <? 0)%Z; [reflexivity|].
  set (g1 := (pval (piece_at b (mv_from m)) + pz)%Z).
  set (s1 := wrap16 (g1 - s0)).
  pose proof (see_iter_cont 66 b (mv_to m) (stm b) occ (see_attackers b (mv_to m) occ) s1 1 Pawn Pawn g1
                (or_intror eq_refl)) as H.
  destruct (gains_iter_head 66 b (mv_to m) (stm b) occ (see_attackers b (mv_to m) occ) Pawn Pawn g1) as [E|[l E]].
  - rewrite E in *. destruct (s1 <=? 0)%Z; [reflexivity|]. rewrite H. reflexivity.
  - rewrite E in *. fold s1. destruct (s1 <=? 0)%Z; [reflexivity|]. rewrite H. reflexivity.
Qed.

(* ------------------------------------------------------------------------------------------ *)
(* bounds of the captured values *)

Lemma PieceValues_bounded : Forall (fun v => 0 <= v <= 10000)%Z PieceValues.
Proof. unfold PieceValues. repeat constructor; lia. Qed.

Lemma pval_bounds p : (0 <= pval p <= 10000)%Z.
Proof.
  unfold pval. destruct (nth_in_or_default (N.to_nat p) PieceValues 0%Z) as [H|H].
  - pose proof PieceValues_bounded as F. rewrite Forall_forall in F. apply F. exact H.
  - rewrite H. lia.
Qed.

Lemma gains_iter_bounded fuel : forall b to stm occ att sW sB standing,
  (0 <= standing <= 12000)%Z ->
  values_bounded (gains_iter fuel b to stm occ att sW sB standing).
Proof.
  induction fuel as [|k IH]; intros b to stm occ att sW sB standing Hs; [constructor|].
  cbn [gains_iter].
  destruct (band (band att occ) (colors b (flip stm)) =? 0); [constructor|].
  destruct (step0 _ _ _ _ _ _) as [e|p o a st].
  - destruct e; [constructor|]. constructor; [exact Hs|constructor].
  - constructor; [exact Hs|]. pose proof (pval_bounds p).
    destruct (flip stm); apply IH; lia.
Qed.

(* the move is shaped like a playable move as far as the values are concerned:
   promotion bits only on a pawn and only to Knight..Queen, and the victim is not a king *)
Definition move_values_ok (b : board) (m : N) : Prop :=
  (mv_promo m = NoPiece \/ (piece_at b (mv_from m) = Pawn /\ Knight <= mv_promo m <= Queen))
  /\ piece_at b (capture_sq b m) <> King.

Lemma PieceValues_shape :
  (forall p, p <> King -> (0 <= pval p <= 2000)%Z) /\
  (forall p, Knight <= p <= Queen -> (0 <= pval p - pval Pawn <= 2000)%Z /\ (0 <= pval Pawn)%Z).
Proof.
  split.
  - intros p Hp. destruct (N.lt_ge_cases p 6) as [L|L].
    + assert (H : In p [0;1;2;3;4;5]) by (cbn; lia).
      cbn in H. unfold pval.
      repeat (destruct H as [<-|H]; [vm_compute; split; discriminate|]). destruct H.
    + unfold King in Hp. unfold pval.
      rewrite nth_overflow; [lia|]. cbn [length PieceValues]. lia.
  - intros p Hp. unfold Knight, Queen in Hp.
    assert (H : In p [2;3;4;5]) by (cbn; lia). cbn in H. unfold pval.
    repeat (destruct H as [<-|H]; [vm_compute; repeat split; discriminate|]). destruct H.
Qed.

Lemma see_gains_bounded b m : move_values_ok b m -> values_bounded (see_gains b m).
Proof.
  intros [Hp Hk]. unfold see_gains.
  destruct PieceValues_shape as [Hnk Hpr].
  assert (Hpz : (0 <= promo_val m <= 2000)%Z).
  { unfold promo_val. destruct Hp as [->|[_ Hr]]; [change (negb (NoPiece =? NoPiece)) with false; cbv iota; lia|].
    destruct (negb (mv_promo m =? NoPiece)); [|lia]. apply Hpr. exact Hr. }
  assert (Hg1 : (0 <= pval (piece_at b (mv_from m)) + promo_val m <= 12000)%Z).
  { destruct Hp as [E|[E Hr]].
    - pose proof (pval_bounds (piece_at b (mv_from m))). unfold promo_val. rewrite E. change (negb (NoPiece =? NoPiece)) with false. cbv iota. lia.
    - rewrite E. pose proof (Hnk Pawn ltac:(discriminate)). lia. }
  constructor.
  - pose proof (Hnk _ Hk). lia.
  - apply gains_iter_bounded. exact Hg1.
Qed.

(* C18 for the engine's own sequence, and monotonicity *)
Theorem see_balance_engine b m t :
  move_values_ok b m -> (-20000 <= t <= 20000)%Z ->
  see b m t = (t <=? balance (see_gains b m))%Z.
Proof.
  intros Hm Ht. rewrite see_eq_loop. apply see_loop_balance; [discriminate|apply see_gains_bounded; exact Hm|exact Ht].
Qed.

Theorem see_mono b m t t' :
  move_values_ok b m -> (-20000 <= t <= 20000)%Z -> (-20000 <= t' <= 20000)%Z ->
  see b m t = true -> (t' <= t)%Z -> see b m t' = true.
Proof.
  intros Hm Ht Ht' H Hle. rewrite see_balance_engine in * by assumption.
  apply Z.leb_le in H. apply Z.leb_le. lia.
Qed.
