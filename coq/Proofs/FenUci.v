(* C11: the UCI position command accepts the printed FEN of every board with valid material. *)
From Coq Require Import NArith ZArith List Bool Lia.
From Chess3 Require Import Base.Bits Base.Word Model.Types Model.BoardDef Model.Board Model.Fen
  Spec.FenSpec Proofs.FenSafe Proofs.FenGate Proofs.FenRound.
Import ListNotations.

Lemma gate_reset_hash z b : invalid_piece_count (reset_hash z b) = invalid_piece_count b.
Proof. destruct b; reflexivity. Qed.

Theorem uci_accepts_valid z d b rest :
  wf b -> valid_material b = true -> (0 <= fifty b <= 100)%Z -> (1 <= full b < 9223372036854775808)%Z ->
  (length rest >= 6)%nat -> join_sp (firstn 6 rest) = print_fen b ->
  handle_position z d (tok_fen :: rest) = Ok (reset_hash z b, 0%N).
Proof.
  intros W M H1 H2 Hl Hj. apply handle_position_install; [exact Hl| |].
  - rewrite Hj. apply from_fen_print; assumption.
  - rewrite gate_reset_hash. apply gate_accepts_valid_material, M.
Qed.

(* the whole position command (installation and move list): no panic; whenever the command is
   rejected (too few arguments, parser error, piece-count gate) the board is the board before it.
   The command reads no driver state other than the board, so this holds after any history. *)
From Chess3 Require Import Model.ApplyMoves Model.FenSeq.

Theorem handle_position_moves_keep z d args :
  exists d' code, handle_position_moves z d args = Ok (d', code) /\
                  (code = 1%N \/ code = 2%N \/ code = 3%N -> d' = d).
Proof.
  unfold handle_position_moves.
  destruct (handle_position_total z d args) as (d1 & c1 & -> & Hk).
  destruct (N.eqb_spec c1 0) as [->|Hne]; cbn [negb].
  - assert (G : forall b c, (c = 0%N \/ c = 4%N) ->
              exists d' code, @Ok (board * N) (b, c) = Ok (d', code) /\ (code = 1%N \/ code = 2%N \/ code = 3%N -> d' = d)).
    { intros b c Hc. exists b, c. split; [reflexivity|]. intros [E|[E|E]]; destruct Hc; congruence. }
    assert (P : forall b toks, snd (play_moves z b toks) = 0%N \/ snd (play_moves z b toks) = 4%N).
    { intros b toks. unfold play_moves. cbn [snd]. destruct (_ <? _)%nat; auto. }
    destruct args as [|a0 rest]; [apply G; auto|].
    destruct (list_eqb a0 tok_startpos).
    { destruct (_ && _); [|apply G; auto].
      destruct (play_moves z d1 (skipn 2 (a0 :: rest))) as [b c] eqn:E. apply G.
      specialize (P d1 (skipn 2 (a0 :: rest))). rewrite E in P. exact P. }
    destruct (list_eqb a0 tok_fen); [|apply G; auto].
    destruct (_ && _); [|apply G; auto].
    destruct (play_moves z d1 (skipn 8 (a0 :: rest))) as [b c] eqn:E. apply G.
    specialize (P d1 (skipn 8 (a0 :: rest))). rewrite E in P. exact P.
  - exists d1, c1. split; [reflexivity|]. intros _. apply Hk, Hne.
Qed.
