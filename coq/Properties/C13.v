(* C13 - The UCI driver answers every request exactly once under any command timing.
   Statements only; proofs live in Proofs/UciTerm.v, Proofs/UciInv.v, Proofs/UciMain.v.

   The statements are about the labelled transition system Model/Uci.v (processes Reader, Handler
   with the Search inside, Interrupter, Timer, Writer; channels inputLines, output, stop,
   searchFin, ponderHit), for EVERY schedule (a schedule is a list of labels, each enabled in the
   state in which it is taken; [steps s ls s']) and EVERY conforming script ([conforming sc]).
   The model is tied to uci/uci.go by trace validation on every run (stream c13: the real
   uci.Driver over pipes under the race detector; every observed output must be admitted by
   [accepts], the membership test of this very transition system).

   NOT covered by these theorems, only OBSERVED by the trace validation: data races, torn writes at
   the OS level, goroutine leaks and panics of the real goroutines (the model's lines are atomic and
   its processes are the ones written down in Model/Uci.v). *)
From Coq Require Import List Arith.
Import ListNotations.
From Chess3 Require Import Model.Uci Spec.UciLog Proofs.UciTerm Proofs.UciInv Proofs.UciMain Proofs.UciAccept.

(* Termination, for all scripts (conforming or not) and all schedules: the measure [mu] pays for
   every step, so a run from s has at most mu s steps, and there is no infinite run. *)
Theorem C13_termination : forall s ls s', steps s ls s' -> length ls + mu s' <= mu s.
Proof. exact steps_bound. Qed.
Print Assumptions C13_termination.

Theorem C13_no_infinite_run : forall (f : nat -> state) (lab : nat -> label),
  ~ (forall n, guard (f n) (lab n) = true /\ f (S n) = step (f n) (lab n)).
Proof. exact no_infinite_run. Qed.
Print Assumptions C13_no_infinite_run.

(* Deadlock-freedom: every reachable state that is not final (Run returned: all processes done,
   all channels closed and drained) has an enabled step. *)
Theorem C13_deadlock_free : forall sc s, conforming sc = true -> reachable sc s ->
  terminal s = false -> enabled s <> [].
Proof. exact deadlock_free. Qed.
Print Assumptions C13_deadlock_free.

(* Every maximal run (one that cannot be extended) of a conforming script is finite, ends in the
   final state, and stdout then holds: bestmove 1..#go in this order, each after all info lines of
   its search and before those of the next; exactly #go bestmove, #isready readyok and #uci uciok
   lines. *)
Theorem C13_maximal_runs : forall sc ls s, conforming sc = true -> steps (init sc) ls s ->
  maximal s ->
  terminal s = true /\ all_answered sc (written s) /\ length ls <= mu (init sc).
Proof. exact maximal_runs. Qed.
Print Assumptions C13_maximal_runs.

(* The same in the words of the property: in the output of a finished run the bestmove lines are
   exactly those of searches 1..#go, once each and in order, and every info line of search i is
   followed by bestmove i and not preceded by it. *)
Theorem C13_final_answers : forall sc s, conforming sc = true -> reachable sc s -> terminal s = true ->
  all_answered sc (written s)
  /\ bests (written s) = seq 1 (count_cmd is_go sc)
  /\ forall a i b, written s = a ++ IInfo i :: b -> In (IBest i) b /\ ~ In (IBest i) a.
Proof. exact final_answers. Qed.
Print Assumptions C13_final_answers.

(* quit / end of input terminates the driver whatever has happened so far: from every reachable
   state the run can be completed (and by C13_termination it cannot go on for ever) *)
Theorem C13_can_always_finish : forall sc s, conforming sc = true -> reachable sc s ->
  exists ls s', steps s ls s' /\ terminal s' = true.
Proof. exact can_always_finish. Qed.
Print Assumptions C13_can_always_finish.

(* Safety in every reachable state: what is on stdout so far is a prefix of a good log (k searches
   answered, k = what the GUI has seen, never more than were started), never more readyok / uciok
   than requests, and the output channel respects its capacity. *)
Theorem C13_safety : forall sc s, conforming sc = true -> reachable sc s ->
  (exists k, scan 0 (written s) = Some k /\ k = seen_best s /\ k <= cur s
             /\ count_item is_readyok (written s) <= count_cmd is_isready sc
             /\ count_item is_uciok (written s) <= count_cmd is_uci sc)
  /\ length (out s) <= out_cap.
Proof.
  intros sc s C R. split.
  - apply written_prefix_ok. apply Inv_reachable; assumption.
  - eapply out_bounded; eassumption.
Qed.
Print Assumptions C13_safety.

(* bestmove is enqueued by one step only, and only after searchFin is closed and the interrupter
   has been joined (uci.go:590-605) *)
Theorem C13_bestmove_after_join : forall sc s l i, conforming sc = true -> reachable sc s ->
  guard s l = true -> In (IBest i) (appended s l) ->
  l = LJoin /\ hd s = HJoin /\ it s = IDone /\ fin s = true /\ i = cur s.
Proof.
  intros sc s l i C R. apply best_only_after_join. exact (i_wf _ _ (Inv_reachable _ _ C R)).
Qed.
Print Assumptions C13_bestmove_after_join.

(* The acceptance test run over every observation of the real driver (stream c13, accepts_c13) is
   sound: what it accepts is the stdout (runs of option lines collapsed, as the harness reports
   them) of a complete run of the transition system ... *)
Theorem C13_accepts_sound : forall sc ob seen, accepts sc ob seen = true ->
  exists ls s, steps (init sc) ls s /\ terminal s = true /\ collapse_opts false (written s) = ob.
Proof. exact accepts_sound. Qed.
Print Assumptions C13_accepts_sound.

(* ... and therefore, for a conforming script, an accepted observation has every request answered
   exactly once, bestmove i after all info lines of search i *)
Theorem C13_accepted_is_answered : forall sc ob seen, conforming sc = true -> accepts sc ob seen = true ->
  exists log, collapse_opts false log = ob /\ all_answered sc log
              /\ bests log = seq 1 (count_cmd is_go sc)
              /\ forall a i b, log = a ++ IInfo i :: b -> In (IBest i) b /\ ~ In (IBest i) a.
Proof. exact accepted_is_answered. Qed.
Print Assumptions C13_accepted_is_answered.

(* ---------------------------------------------------------------------------------------------- *)
(* non-vacuity: a conforming script with an infinite search that is stopped, an isready that
   arrives while the search runs, and one complete schedule of it *)
Definition ex_go : goattr :=
  {| g_ponder := false; g_timed := false; g_selffin := false; g_phgate := false; g_ack := false; g_infos := 1 |}.
Definition ex_script : list cmd := [CIsready; CGo ex_go; CIsready; CStop; CQuit].
Definition ex_schedule : list label :=
  [LRead; LRecvTop; LEmit; LWrite; LRead; LRecvTop; LInfo; LRead; LRecvInt; LIntEmit; LWrite; LWrite;
   LRead; LRecvInt; LFin; LJoin; LEmit; LWrite; LRead; LRecvTop; LHClose; LWDone].

Example C13_nonvacuous :
  conforming ex_script = true
  /\ exists s, steps (init ex_script) ex_schedule s /\ terminal s = true /\ maximal s
               /\ written s = [IReadyok; IInfo 1; IReadyok; IBest 1].
Proof.
  split; [reflexivity|].
  destruct (run (init ex_script) ex_schedule) as [s|] eqn:E; [|vm_compute in E; discriminate E].
  exists s. split; [apply run_steps; exact E|].
  vm_compute in E. inversion E. subst s. repeat split; reflexivity.
Qed.

(* the search of the example really blocks: after the go nothing but the GUI can move on until stop *)
Example C13_nonvacuous_blocking :
  exists s, steps (init ex_script) [LRead; LRecvTop; LEmit; LWrite; LRead; LRecvTop; LInfo; LWrite] s
            /\ terminal s = false /\ enabled s = [LRead].
Proof.
  destruct (run (init ex_script) [LRead; LRecvTop; LEmit; LWrite; LRead; LRecvTop; LInfo; LWrite]) as [s|] eqn:E;
    [|vm_compute in E; discriminate E].
  exists s. split; [apply run_steps; exact E|].
  vm_compute in E. inversion E. subst s. split; reflexivity.
Qed.

(* the acceptance test used by the trace validation admits the example's output and rejects the
   same lines with bestmove before the info line, or without the second readyok *)
Example C13_accepts_examples :
  accepts ex_script [IReadyok; IInfo 1; IReadyok; IBest 1] [0; 0; 0; 0; 0] = true
  /\ accepts ex_script [IReadyok; IBest 1; IInfo 1; IReadyok] [0; 0; 0; 0; 0] = false
  /\ accepts ex_script [IReadyok; IInfo 1; IBest 1] [0; 0; 0; 0; 0] = false.
Proof. vm_compute. repeat split. Qed.
