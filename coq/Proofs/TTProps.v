(* The clauses of property C15, derived from the abstract table (Spec/TTSpec.v) and carried to the
   model through the refinement of Proofs/TTRefine.v. *)
From Coq Require Import ZArith Lia Bool List.
Import ListNotations.
From Chess3 Require Import Base.Word Gen.TTConsts Model.TT Spec.TTSpec Proofs.TTBits Proofs.TTRefine.
Open Scope Z_scope.

(* ---------------------------------------------------------------------------------------- *)
(* scores *)

Lemma from_to_tt v ps pp : -32000 <= v <= 32000 -> 0 <= ps <= 63 ->
  from_tt (to_tt v ps) pp = rebase v ps pp.
Proof.
  intros Hv Hp. unfold from_tt, to_tt, rebase.
  destruct mate_consts as (_ & _ & Hhi & Hlo).
  destruct (v <? MateLo) eqn:E1.
  - apply Z.ltb_lt in E1.
    rewrite (proj2 (Z.ltb_ge MateHi (v - ps))) by lia. rewrite (proj2 (Z.ltb_lt (v - ps) MateLo)) by lia.
    rewrite (proj2 (Z.ltb_ge MateHi v)) by lia. reflexivity.
  - apply Z.ltb_ge in E1. destruct (MateHi <? v) eqn:E2.
    + apply Z.ltb_lt in E2. rewrite (proj2 (Z.ltb_lt MateHi (v + ps))) by lia. reflexivity.
    + rewrite E2, (proj2 (Z.ltb_ge v MateLo)) by lia. reflexivity.
Qed.

Lemma rebase_plain v ps pp : MateLo <= v <= MateHi -> rebase v ps pp = v.
Proof.
  intros H. unfold rebase. rewrite (proj2 (Z.ltb_ge MateHi v)), (proj2 (Z.ltb_ge v MateLo)) by lia. reflexivity.
Qed.

Lemma mate_rebasing : forall v ps pp, -32000 <= v <= 32000 -> 0 <= ps <= 63 ->
  from_tt (to_tt v ps) pp = rebase v ps pp /\
  (- Inf + MaxPlies <= v <= Inf - MaxPlies -> rebase v ps pp = v) /\
  (Inf - MaxPlies < v -> rebase v ps pp = v + ps - pp) /\
  (v < - Inf + MaxPlies -> rebase v ps pp = v - ps + pp).
Proof.
  intros v ps pp Hv Hp. destruct mate_consts as (Hhi & Hlo & Hr & Hn).
  split; [apply from_to_tt; assumption|]. rewrite <- Hhi, <- Hlo. unfold rebase.
  split; [|split]; intros H.
  - rewrite (proj2 (Z.ltb_ge MateHi v)), (proj2 (Z.ltb_ge v MateLo)) by lia. reflexivity.
  - rewrite (proj2 (Z.ltb_lt MateHi v)) by lia. reflexivity.
  - rewrite (proj2 (Z.ltb_ge MateHi v)), (proj2 (Z.ltb_lt v MateLo)) by lia. reflexivity.
Qed.

(* ---------------------------------------------------------------------------------------- *)
(* the model's own view of "the entry of this key" *)

Definition key_ix (t : table) (h : Z) : Z := bucket_of (tlen t) h.

Lemma lookup_abs t h : wf t -> size_range t -> 0 <= h < 2 ^ 64 ->
  abs t (key_ix t h) (sig_of h) = option_map rec_of (lookup t h).
Proof.
  intros Hwf Hsz Hh. change (2 ^ 64) with W64 in Hh.
  destruct (bucket_ix_of (tlen t) h Hsz Hh) as [Hix Hixr].
  destruct (partial_key_sig h Hh) as [Hpk Hsr].
  unfold lookup, tt_bucket, key_ix. fold (tlen t). rewrite Hix, Hpk.
  set (ix := bucket_of (tlen t) h) in *.
  pose proof (wf_nth t (Z.to_nat ix) Hwf) as (Hkeys & _).
  rewrite match64_correct by (change (2 ^ 64) with W64; change (2 ^ 16) with 65536; assumption).
  unfold abs. rewrite (proj2 (Z.leb_le 0 ix)) by lia. rewrite (proj2 (Z.ltb_lt ix (tlen t))) by lia.
  cbn [andb]. unfold abs_bucket, E.
  destruct (first_lane_eq _ _); reflexivity.
Qed.

(* the keep-deeper test and the kept move, in the code's own terms *)
Definition kept_deeper (t : table) (o : sop) : bool :=
  match lookup t (o_hash o) with
  | Some e => negb (o_type o =? Exact) && (o_depth o + 2 <? e_depth e) && (e_gen e =? o_gen o)
  | None => false
  end.

Definition kept_move (t : table) (o : sop) : Z :=
  if o_move o =? 0 then match lookup t (o_hash o) with Some e => e_move e | None => 0 end else o_move o.

Definition same_key (nb : Z) (h h' : Z) : Prop := bucket_of nb h = bucket_of nb h' /\ sig_of h = sig_of h'.

Definition hash_ok (h : Z) : Prop := 0 <= h < 2 ^ 64.
Definition ply_ok (p : Z) : Prop := 0 <= p <= 63.
Definition miss : list Z := [0; 0; 0; 0; 0].

Section OneStore.
  Variables (t : table) (o : sop).
  Hypothesis Hwf : wf t.
  Hypothesis Hsz : size_range t.
  Hypothesis Hdom : op_in_domain o = true.
  Let t' := tt_insert_op t o.
  Let ix := key_ix t (o_hash o).
  Let sg := sig_of (o_hash o).

  Lemma one_store_facts :
    wf t' /\ size_range t' /\ tlen t' = tlen t /\ store_spec (tlen t) (abs t) o (abs t') /\
    keep_deeper (abs t ix sg) o = kept_deeper t o /\
    (match abs t ix sg with Some r => a_move r | None => 0 end) =
    (match lookup t (o_hash o) with Some e => e_move e | None => 0 end).
  Proof.
    destruct (insert_refines t o Hwf Hsz Hdom) as (Hwf' & Hlen & Hspec). fold t' in Hwf', Hlen, Hspec.
    destruct (domain_fields o Hdom) as (Hh & _). change W64 with (2 ^ 64) in Hh.
    pose proof (lookup_abs t (o_hash o) Hwf Hsz Hh) as Hla. fold ix sg in Hla.
    split; [exact Hwf'|]. split; [unfold size_range; rewrite Hlen; exact Hsz|]. split; [exact Hlen|].
    split; [exact Hspec|]. rewrite Hla. unfold kept_deeper.
    destruct (lookup t (o_hash o)); split; reflexivity.
  Qed.

  (* read-your-write: any hash of the stored key, probed at any ply *)
  Lemma read_your_write h ply : hash_ok h -> ply_ok ply -> same_key (tlen t) (o_hash o) h ->
    kept_deeper t o = false ->
    probe_obs t' h ply =
    [1; o_depth o; o_type o; rebase (o_value o) (o_ply o) ply; kept_move t o].
  Proof.
    intros Hh Hp [Hk1 Hk2] Hkd.
    destruct one_store_facts as (Hwf' & Hsz' & Hlen & Hspec & Hkdeq & Hmv).
    destruct (domain_fields o Hdom) as (_ & _ & _ & Hop & _ & Hov & _).
    rewrite (probe_refines t' h ply Hwf' Hsz' Hh Hp). rewrite Hlen, <- Hk1, <- Hk2.
    unfold store_spec in Hspec. fold ix sg in Hspec. cbv zeta in Hspec. fold (key_ix t (o_hash o)) in Hspec.
    fold ix in Hspec. rewrite Hkdeq, Hkd in Hspec. destruct Hspec as [Hbind _].
    fold (key_ix t (o_hash o)). fold ix sg. rewrite Hbind.
    unfold shown, new_rec. cbn [a_depth a_type a_score a_move].
    rewrite from_to_tt by assumption. unfold kept_move. rewrite Hmv. reflexivity.
  Qed.

  (* the exception: a rejected bound leaves every answer as it was *)
  Lemma rejected_store_changes_nothing h ply : hash_ok h -> ply_ok ply ->
    kept_deeper t o = true -> probe_obs t' h ply = probe_obs t h ply.
  Proof.
    intros Hh Hp Hkd.
    destruct one_store_facts as (Hwf' & Hsz' & Hlen & Hspec & Hkdeq & _).
    rewrite (probe_refines t' h ply Hwf' Hsz' Hh Hp), (probe_refines t h ply Hwf Hsz Hh Hp).
    unfold store_spec in Hspec. cbv zeta in Hspec. fold (key_ix t (o_hash o)) in Hspec. fold ix sg in Hspec.
    rewrite Hkdeq, Hkd in Hspec. rewrite Hlen, Hspec. reflexivity.
  Qed.

  (* frame: another key answers as before or has become unreachable, the latter only in the
     bucket of the store; and at most one key is lost *)
  Lemma other_keys :
    exists victim : option Z,
      forall h, hash_ok h -> sig_of h <> 0 -> ~ same_key (tlen t) (o_hash o) h ->
        if (key_ix t h =? ix) && opt_is victim (sig_of h)
        then forall ply, ply_ok ply -> probe_obs t' h ply = miss
        else forall ply, ply_ok ply -> probe_obs t' h ply = probe_obs t h ply.
  Proof.
    destruct one_store_facts as (Hwf' & Hsz' & Hlen & Hspec & Hkdeq & _).
    unfold store_spec in Hspec. cbv zeta in Hspec. fold (key_ix t (o_hash o)) in Hspec. fold ix sg in Hspec.
    destruct (keep_deeper (abs t ix sg) o).
    - exists None. intros h Hh Hs Hk. cbn [opt_is]. rewrite andb_false_r. intros ply Hp.
      rewrite (probe_refines t' h ply Hwf' Hsz' Hh Hp), (probe_refines t h ply Hwf Hsz Hh Hp).
      rewrite Hlen, Hspec. reflexivity.
    - destruct Hspec as [_ [victim Hframe]]. exists victim. intros h Hh Hs Hk.
      assert (Hne : key_ix t h <> ix \/ sig_of h <> sg).
      { destruct (Z.eq_dec (key_ix t h) ix) as [E1|E1]; [|left; exact E1].
        destruct (Z.eq_dec (sig_of h) sg) as [E2|E2]; [|right; exact E2].
        exfalso. apply Hk. split; [unfold ix, key_ix in *; lia | unfold sg in *; lia]. }
      specialize (Hframe (key_ix t h) (sig_of h) Hs Hne).
      destruct ((key_ix t h =? ix) && opt_is victim (sig_of h)); intros ply Hp;
        rewrite (probe_refines t' h ply Hwf' Hsz' Hh Hp); rewrite Hlen; fold (key_ix t h); rewrite Hframe.
      + reflexivity.
      + rewrite (probe_refines t h ply Hwf Hsz Hh Hp). reflexivity.
  Qed.

  Lemma at_most_one_lost h1 h2 p1 p2 :
    hash_ok h1 -> hash_ok h2 -> ply_ok p1 -> ply_ok p2 -> sig_of h1 <> 0 -> sig_of h2 <> 0 ->
    ~ same_key (tlen t) (o_hash o) h1 -> ~ same_key (tlen t) (o_hash o) h2 ->
    probe_obs t h1 p1 <> miss -> probe_obs t h2 p2 <> miss ->
    probe_obs t' h1 p1 = miss -> probe_obs t' h2 p2 = miss ->
    same_key (tlen t) h1 h2 /\ key_ix t h1 = ix.
  Proof.
    intros Hh1 Hh2 Hp1 Hp2 Hs1 Hs2 Hk1 Hk2 Hin1 Hin2 Hout1 Hout2.
    destruct other_keys as [victim Hv].
    pose proof (Hv h1 Hh1 Hs1 Hk1) as V1. pose proof (Hv h2 Hh2 Hs2 Hk2) as V2.
    destruct ((key_ix t h1 =? ix) && opt_is victim (sig_of h1)) eqn:E1;
      [|exfalso; apply Hin1; rewrite <- (V1 p1 Hp1); exact Hout1].
    destruct ((key_ix t h2 =? ix) && opt_is victim (sig_of h2)) eqn:E2;
      [|exfalso; apply Hin2; rewrite <- (V2 p2 Hp2); exact Hout2].
    apply andb_true_iff in E1. destruct E1 as [A1 B1]. apply andb_true_iff in E2. destruct E2 as [A2 B2].
    apply Z.eqb_eq in A1. apply Z.eqb_eq in A2.
    destruct victim as [v|]; [|discriminate]. cbn [opt_is] in B1, B2.
    apply Z.eqb_eq in B1. apply Z.eqb_eq in B2.
    split; [split; [unfold key_ix in *; lia | lia] | exact A1].
  Qed.
End OneStore.

(* ---------------------------------------------------------------------------------------- *)
(* runs: where the data of a hit come from *)

(* the stores after the last clear / resize, newest first *)
Definition hist_step (hist : list sop) (op : aop) : list sop :=
  match op with AStore o => o :: hist | _ => [] end.
Definition stores_since_clear (ops : list aop) : list sop := fold_left hist_step ops [].

Definition okey (nb : Z) (o : sop) (i s : Z) : Prop := bucket_of nb (o_hash o) = i /\ sig_of (o_hash o) = s.

(* record r under key (i, s) is explained by the history: it carries depth, bound, score and
   generation of a store o to exactly that key; every later store to the key was a bound rejected
   by the keep-deeper rule; its move is o's, or - o's being null - that of an earlier store to the key *)
Definition explains (nb : Z) (hist : list sop) (i s : Z) (r : arec) : Prop :=
  exists newer o older, hist = newer ++ o :: older /\ okey nb o i s /\
    a_depth r = o_depth o /\ a_type r = o_type o /\ a_score r = to_tt (o_value o) (o_ply o) /\
    a_gen r = o_gen o /\
    (forall o', In o' newer -> okey nb o' i s -> keep_deeper (Some r) o' = true) /\
    (a_move r = o_move o \/
     (o_move o = 0 /\ exists o', In o' older /\ okey nb o' i s /\ o_move o' = a_move r)).

Definition prov (nb : Z) (hist : list sop) (A : amap) : Prop :=
  forall i s r, s <> 0 -> A i s = Some r -> explains nb hist i s r.

Lemma prov_cleared nb A : cleared A -> prov nb [] A.
Proof. intros Hc i s r Hs HA. rewrite (Hc i s Hs) in HA. discriminate. Qed.

Lemma prov_store nb hist A o A' : store_spec nb A o A' -> prov nb hist A -> prov nb (o :: hist) A'.
Proof.
  intros Hspec Hprov i s r Hs HA'. unfold store_spec in Hspec. cbv zeta in Hspec.
  set (ix := bucket_of nb (o_hash o)) in *. set (sg := sig_of (o_hash o)) in *.
  assert (Hlift : forall r0, explains nb hist i s r0 ->
            (okey nb o i s -> keep_deeper (Some r0) o = true) -> explains nb (o :: hist) i s r0).
  { intros r0 (newer & o0 & older & Hh & Hk & Hd & Ht & Hsc & Hg & Hnew & Hmv) Hrej.
    exists (o :: newer), o0, older. rewrite Hh. split; [reflexivity|]. repeat (split; [assumption|]).
    split; [|exact Hmv]. intros o' [<-|Hin] Hk'; [apply Hrej; exact Hk' | apply Hnew; assumption]. }
  destruct (keep_deeper (A ix sg) o) eqn:KD.
  - rewrite Hspec in HA'. apply Hlift; [apply Hprov; assumption|].
    intros [Hk1 Hk2]. fold ix in Hk1. fold sg in Hk2. subst i s. rewrite HA' in KD. exact KD.
  - destruct Hspec as [Hbind [victim Hframe]].
    destruct (Z.eq_dec i ix) as [Ei|Ei]; [destruct (Z.eq_dec s sg) as [Es|Es]|].
    + subst i s. rewrite Hbind in HA'. injection HA' as <-.
      exists [], o, hist. split; [reflexivity|]. split; [split; reflexivity|].
      unfold new_rec. cbn [a_depth a_type a_score a_gen a_move].
      repeat (split; [reflexivity|]). split; [intros o' []|].
      destruct (o_move o =? 0) eqn:Em; [|left; reflexivity].
      apply Z.eqb_eq in Em.
      destruct (A ix sg) as [r0|] eqn:HA; [|left; symmetry; exact Em].
      destruct (Hprov ix sg r0 Hs HA) as (newer & o0 & older & Hh & Hk & _ & _ & _ & _ & _ & Hmv).
      right. split; [exact Em|].
      destruct Hmv as [Hmv | [_ (o' & Hin & Hk' & Hm')]].
      * exists o0. split; [rewrite Hh; apply in_or_app; right; left; reflexivity|]. split; [exact Hk | symmetry; exact Hmv].
      * exists o'. split; [rewrite Hh; apply in_or_app; right; right; exact Hin|]. split; assumption.
    + rewrite (Hframe i s Hs (or_intror Es)) in HA'.
      destruct ((i =? ix) && opt_is victim s); [discriminate|].
      apply Hlift; [apply Hprov; assumption|]. intros [_ Hk2]. exfalso. apply Es. symmetry. exact Hk2.
    + rewrite (Hframe i s Hs (or_introl Ei)) in HA'.
      destruct ((i =? ix) && opt_is victim s); [discriminate|].
      apply Hlift; [apply Hprov; assumption|]. intros [Hk1 _]. fold ix in Hk1. exfalso. apply Ei. symmetry. exact Hk1.
Qed.

Lemma prov_step s op s' hist : astep s op s' -> prov (fst s) hist (snd s) ->
  prov (fst s') (hist_step hist op) (snd s').
Proof.
  intros Hstep Hprov. destruct Hstep; cbn [fst snd hist_step] in *.
  - eapply prov_store; eassumption.
  - apply prov_cleared. assumption.
  - apply prov_cleared. assumption.
Qed.

Lemma prov_run s ops s' : arun s ops s' -> forall hist, prov (fst s) hist (snd s) ->
  prov (fst s') (fold_left hist_step ops hist) (snd s').
Proof.
  induction 1 as [s|s op s1 ops s2 Hstep Hrun IH]; intros hist Hprov; cbn [fold_left].
  - exact Hprov.
  - apply IH. eapply prov_step; eassumption.
Qed.

(* end to end: a new table of any supported size, any sequence of in-domain operations *)
Theorem run_explained : forall size ops,
  size_ok size = true -> size <= 2 ^ 36 -> forallb aop_ok ops = true ->
  exists t0 t, tt_new size = Some t0 /\ tt_run t0 ops = Some t /\ wf t /\ size_range t /\
    forall h ply, hash_ok h -> ply_ok ply -> sig_of h <> 0 ->
      probe_obs t h ply = miss \/
      exists r, probe_obs t h ply = 1 :: shown r ply /\
                explains (tlen t) (stores_since_clear ops) (key_ix t h) (sig_of h) r.
Proof.
  intros size ops Hs Hbig Hops.
  destruct (new_refines size Hs Hbig) as (t0 & Hnew & Hwf0 & Hsz0 & _ & Hcl0).
  destruct (run_refines ops t0 Hwf0 Hsz0 Hops) as (t & Hrun & Hwf & Hsz & Harun).
  exists t0, t. repeat (split; [assumption|]).
  intros h ply Hh Hp Hsig.
  rewrite (probe_refines t h ply Hwf Hsz Hh Hp).
  pose proof (prov_run _ _ _ Harun [] (prov_cleared _ _ Hcl0)) as Hprov. cbn [fst snd st] in Hprov.
  fold (key_ix t h).
  destruct (abs t (key_ix t h) (sig_of h)) as [r|] eqn:HA; [right | left; reflexivity].
  exists r. split; [reflexivity|]. apply Hprov; assumption.
Qed.

(* what an explained record shows, in the property's words *)
Lemma shown_explained nb hist i s r ply : explains nb hist i s r -> Forall (fun o => op_in_domain o = true) hist ->
  exists o, In o hist /\ okey nb o i s /\
    shown r ply = [o_depth o; o_type o; rebase (o_value o) (o_ply o) ply; a_move r].
Proof.
  intros (newer & o & older & Hh & Hk & Hd & Ht & Hsc & _) Hall.
  exists o. assert (Hin : In o hist) by (rewrite Hh; apply in_or_app; right; left; reflexivity).
  split; [exact Hin|]. split; [exact Hk|].
  rewrite Forall_forall in Hall. specialize (Hall o Hin).
  destruct (domain_fields o Hall) as (_ & _ & _ & Hop & _ & Hov & _).
  unfold shown. rewrite Hd, Ht, Hsc, from_to_tt by assumption. reflexivity.
Qed.

Lemma stores_since_clear_domain ops : forallb aop_ok ops = true ->
  Forall (fun o => op_in_domain o = true) (stores_since_clear ops).
Proof.
  unfold stores_since_clear.
  assert (G : forall hist, Forall (fun o => op_in_domain o = true) hist -> forallb aop_ok ops = true ->
            Forall (fun o => op_in_domain o = true) (fold_left hist_step ops hist)).
  { induction ops as [|op ops IH]; intros hist Hh Ho; [exact Hh|].
    cbn [forallb] in Ho. apply andb_true_iff in Ho. destruct Ho as [Ho1 Ho2]. cbn [fold_left].
    apply IH; [|exact Ho2]. destruct op; cbn [hist_step]; [constructor; assumption | constructor | constructor]. }
  apply G. constructor.
Qed.

(* the history is the run of stores at the end of the operation list *)
Lemma stores_since_clear_app pre (l : list sop) :
  stores_since_clear (pre ++ AClear :: map AStore l) = rev l.
Proof.
  unfold stores_since_clear. rewrite fold_left_app. cbn [fold_left hist_step].
  assert (G : forall acc, fold_left hist_step (map AStore l) acc = rev l ++ acc).
  { induction l as [|o l IH]; intros acc; [reflexivity|]. cbn [map fold_left hist_step rev].
    rewrite IH, <- app_assoc. reflexivity. }
  rewrite G, app_nil_r. reflexivity.
Qed.

(* ---------------------------------------------------------------------------------------- *)
(* every table the API can produce (a resize need not be followed by a clear here) *)

Inductive reachable : table -> Prop :=
| reach_new size t : size_ok size = true -> size <= 2 ^ 36 -> tt_new size = Some t -> reachable t
| reach_store t o : reachable t -> op_in_domain o = true -> reachable (tt_insert_op t o)
| reach_clear t : reachable t -> reachable (tt_clear t)
| reach_resize t size t' : reachable t -> size_ok size = true -> size <= 2 ^ 36 ->
    tt_resize t size = Some t' -> reachable t'.

Lemma size_range_of size t : size_ok size = true -> size <= 2 ^ 36 -> tlen t = size / bucketSize -> size_range t.
Proof.
  intros Hs Hbig Hlen. unfold size_range. rewrite Hlen. unfold size_ok in Hs.
  apply andb_true_iff in Hs. destruct Hs as [Hs1 Hs2].
  apply Z.leb_le in Hs1. change bucketSize with 32 in *. change (2 ^ 36) with 68719476736 in Hbig.
  change (2 ^ 32) with 4294967296.
  split; [apply Z.div_str_pos; lia | apply Z.div_le_upper_bound; lia].
Qed.

Theorem reachable_wf t : reachable t -> wf t /\ size_range t.
Proof.
  induction 1 as [size t Hs Hbig Hnew | t o Hr [Hwf Hsz] Hdom | t Hr [Hwf Hsz] | t size t' Hr [Hwf Hsz] Hs Hbig Hres].
  - destruct (new_refines size Hs Hbig) as (t1 & Hnew1 & Hwf & Hsz & _). rewrite Hnew in Hnew1. injection Hnew1 as ->.
    split; assumption.
  - destruct (insert_refines t o Hwf Hsz Hdom) as (Hwf' & Hlen & _). split; [exact Hwf'|].
    unfold size_range. cbv zeta in Hlen. rewrite Hlen. exact Hsz.
  - destruct (clear_refines t) as (Hwf' & Hlen & _). split; [exact Hwf'|]. unfold size_range. rewrite Hlen. exact Hsz.
  - destruct (resize_ok t size Hwf Hs) as (t1 & Hres1 & Hwf1 & Hlen1). rewrite Hres in Hres1. injection Hres1 as ->.
    split; [exact Hwf1|]. eapply size_range_of; eassumption.
Qed.

(* memory safety of continued use: both indices LookUp / Insert compute are inside their arrays *)
Theorem indices_in_range t h : reachable t -> hash_ok h ->
  let ix := bucket_ix (tlen t) h in
  0 <= ix < tlen t /\
  length (b_entries (nth (Z.to_nat ix) t zero_bucket)) = 4%nat /\
  forall l, match64 (b_keys (nth (Z.to_nat ix) t zero_bucket)) (partial_key h) = Some l -> 0 <= l < 4.
Proof.
  intros Hr Hh ix. destruct (reachable_wf t Hr) as [Hwf Hsz]. change (2 ^ 64) with W64 in Hh.
  destruct (bucket_ix_of (tlen t) h Hsz Hh) as [Hix Hixr]. fold ix in Hix.
  split; [rewrite Hix; exact Hixr|].
  destruct (wf_nth t (Z.to_nat ix) Hwf) as (Hkeys & Hlen & _). split; [exact Hlen|].
  intros l Hm. destruct (partial_key_sig h Hh) as [Hpk Hsr]. rewrite Hpk in Hm.
  rewrite match64_correct in Hm by (change (2 ^ 64) with W64; change (2 ^ 16) with 65536; assumption).
  apply fle_some in Hm. tauto.
Qed.

(* resize followed by clear: the table is empty whatever it held *)
Theorem resize_clear_empty t size : reachable t -> size_ok size = true -> size <= 2 ^ 36 ->
  exists t1, tt_resize t size = Some t1 /\ tlen (tt_clear t1) = size / bucketSize /\
    forall h ply, hash_ok h -> ply_ok ply -> sig_of h <> 0 -> probe_obs (tt_clear t1) h ply = miss.
Proof.
  intros Hr Hs Hbig. destruct (reachable_wf t Hr) as [Hwf Hsz].
  destruct (resize_ok t size Hwf Hs) as (t1 & Hres & Hwf1 & Hlen1).
  destruct (clear_refines t1) as (Hwf' & Hlen' & Hcl).
  exists t1. split; [exact Hres|]. split; [rewrite Hlen'; exact Hlen1|].
  intros h ply Hh Hp Hsig.
  assert (Hsz' : size_range (tt_clear t1)) by (eapply size_range_of; [exact Hs | exact Hbig | rewrite Hlen'; exact Hlen1]).
  rewrite (probe_refines _ h ply Hwf' Hsz' Hh Hp). rewrite (Hcl _ _ Hsig). reflexivity.
Qed.

Theorem clear_empty t : reachable t ->
  forall h ply, hash_ok h -> ply_ok ply -> sig_of h <> 0 -> probe_obs (tt_clear t) h ply = miss.
Proof.
  intros Hr h ply Hh Hp Hsig. destruct (reachable_wf t Hr) as [Hwf Hsz].
  destruct (clear_refines t) as (Hwf' & Hlen' & Hcl).
  assert (Hsz' : size_range (tt_clear t)) by (unfold size_range; rewrite Hlen'; exact Hsz).
  rewrite (probe_refines _ h ply Hwf' Hsz' Hh Hp). rewrite (Hcl _ _ Hsig). reflexivity.
Qed.

(* the one-store clauses on reachable tables *)
Lemma read_your_write_reachable : forall t o h ply,
  reachable t -> op_in_domain o = true -> hash_ok h -> ply_ok ply ->
  same_key (tlen t) (o_hash o) h -> kept_deeper t o = false ->
  probe_obs (tt_insert_op t o) h ply =
  [1; o_depth o; o_type o; rebase (o_value o) (o_ply o) ply; kept_move t o].
Proof.
  intros t o h ply Hr Hd. destruct (reachable_wf t Hr) as [Hwf Hsz]. exact (read_your_write t o Hwf Hsz Hd h ply).
Qed.

Lemma keep_deeper_reachable : forall t o h ply,
  reachable t -> op_in_domain o = true -> hash_ok h -> ply_ok ply -> kept_deeper t o = true ->
  probe_obs (tt_insert_op t o) h ply = probe_obs t h ply.
Proof.
  intros t o h ply Hr Hd. destruct (reachable_wf t Hr) as [Hwf Hsz].
  exact (rejected_store_changes_nothing t o Hwf Hsz Hd h ply).
Qed.

Lemma other_keys_reachable : forall t o, reachable t -> op_in_domain o = true ->
  exists victim : option Z,
    forall h, hash_ok h -> sig_of h <> 0 -> ~ same_key (tlen t) (o_hash o) h ->
      if (key_ix t h =? key_ix t (o_hash o)) && opt_is victim (sig_of h)
      then forall ply, ply_ok ply -> probe_obs (tt_insert_op t o) h ply = miss
      else forall ply, ply_ok ply -> probe_obs (tt_insert_op t o) h ply = probe_obs t h ply.
Proof.
  intros t o Hr Hd. destruct (reachable_wf t Hr) as [Hwf Hsz]. exact (other_keys t o Hwf Hsz Hd).
Qed.

Lemma at_most_one_lost_reachable : forall t o h1 h2 p1 p2,
  reachable t -> op_in_domain o = true ->
  hash_ok h1 -> hash_ok h2 -> ply_ok p1 -> ply_ok p2 -> sig_of h1 <> 0 -> sig_of h2 <> 0 ->
  ~ same_key (tlen t) (o_hash o) h1 -> ~ same_key (tlen t) (o_hash o) h2 ->
  probe_obs t h1 p1 <> miss -> probe_obs t h2 p2 <> miss ->
  probe_obs (tt_insert_op t o) h1 p1 = miss -> probe_obs (tt_insert_op t o) h2 p2 = miss ->
  same_key (tlen t) h1 h2 /\ key_ix t h1 = key_ix t (o_hash o).
Proof.
  intros t o h1 h2 p1 p2 Hr Hd. destruct (reachable_wf t Hr) as [Hwf Hsz].
  exact (at_most_one_lost t o Hwf Hsz Hd h1 h2 p1 p2).
Qed.
