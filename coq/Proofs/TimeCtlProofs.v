From Coq Require Import ZArith Lia Bool.
From Chess3 Require Import Base.Word Gen.TimeConsts Model.TimeCtl.
Open Scope Z_scope.
Ltac Zify.zify_post_hook ::= Z.to_euclidean_division_equations.

Definition remaining (t : tc) (c : color) := match c with White => wtime t | Black => btime t end.
Definition increment (t : tc) (c : color) := match c with White => winc t | Black => binc t end.

(* the clock states the theorem covers: a superset of the property's 1..10^12 ms x 0..10^9 ms *)
Definition clock_ok (t : tc) (c : color) : Prop :=
  1 <= remaining t c <= 9000000000000 /\ 0 <= increment t c <= 1152921504606846976.

Ltac unfold_all :=
  unfold hard_limit, soft_limit, time_left, clamp, duration_ns, remaining, increment, clock_ok,
         TimeSafetyMargin, PredictedMoves, TimeInf in *.

Lemma wrap64_small x : -9223372036854775808 <= x < 9223372036854775808 -> wrap64 x = x.
Proof. apply wrap64_id. Qed.

Lemma hard_bounds t c : mtime t = 0 -> clock_ok t c ->
  0 < hard_limit t c <= remaining t c
  /\ (remaining t c > TimeSafetyMargin -> hard_limit t c <= remaining t c - TimeSafetyMargin)
  /\ duration_ns (hard_limit t c) = hard_limit t c * 1000000
  /\ 0 < duration_ns (hard_limit t c).
Proof.
  intros Hm [Hr Hi].
  assert (Hgen : forall rem inc, 1 <= rem <= 9000000000000 -> 0 <= inc <= 1152921504606846976 ->
     let s := wrap64 (Z.quot rem PredictedMoves + Z.quot inc 2) in
     let h := if rem <=? TimeSafetyMargin then rem
              else clamp (wrap64 (HardLimitFactor * s)) TimeSafetyMargin (wrap64 (rem - TimeSafetyMargin)) in
     0 < h <= rem /\ (rem > TimeSafetyMargin -> h <= rem - TimeSafetyMargin) /\
     wrap64 (h * 1000000) = h * 1000000 /\ 0 < wrap64 (h * 1000000)).
  { intros rem inc Hrem Hinc. cbv zeta.
    assert (Hpos : 0 < TimeSafetyMargin /\ 0 < PredictedMoves) by (unfold TimeSafetyMargin, PredictedMoves; lia).
    rewrite (wrap64_small (Z.quot rem PredictedMoves + Z.quot inc 2))
      by (unfold PredictedMoves in *; lia).
    rewrite (wrap64_small (HardLimitFactor * _)) by (unfold PredictedMoves, HardLimitFactor in *; lia).
    rewrite (wrap64_small (rem - TimeSafetyMargin)) by (unfold TimeSafetyMargin in *; lia).
    unfold clamp.
    destruct (rem <=? TimeSafetyMargin) eqn:E; [apply Z.leb_le in E|apply Z.leb_gt in E].
    - rewrite wrap64_small by (unfold TimeSafetyMargin in *; lia). unfold TimeSafetyMargin in *. lia.
    - set (h := Z.min _ _).
      assert (Hh : 0 < h <= rem - TimeSafetyMargin /\ 0 < TimeSafetyMargin)
        by (unfold h, TimeSafetyMargin in *; lia).
      clearbody h. rewrite wrap64_small by (unfold TimeSafetyMargin in *; lia).
      unfold TimeSafetyMargin in *. lia. }
  unfold hard_limit. rewrite Hm. change (0 <? 0) with false. cbv iota.
  unfold duration_ns, soft_limit, time_left, remaining, increment in *. rewrite Hm. change (0 <? 0) with false. cbv iota.
  destruct c.
  - assert (E : (0 <? wtime t) = true) by (apply Z.ltb_lt; lia). rewrite E.
    exact (Hgen (wtime t) (winc t) Hr Hi).
  - assert (E : (0 <? btime t) = true) by (apply Z.ltb_lt; lia). rewrite E.
    exact (Hgen (btime t) (binc t) Hr Hi).
Qed.

Lemma movetime_fixed t c : 0 < mtime t -> soft_limit t c = mtime t /\ hard_limit t c = mtime t.
Proof.
  intros H. unfold soft_limit, hard_limit. assert (E : (0 <? mtime t) = true) by (apply Z.ltb_lt; lia).
  rewrite E. split; reflexivity.
Qed.

Lemma movetime_duration t c : 0 < mtime t <= 9000000000000 ->
  duration_ns (hard_limit t c) = mtime t * 1000000 /\ 0 < duration_ns (hard_limit t c).
Proof.
  intros H. destruct (movetime_fixed t c ltac:(lia)) as [_ ->]. unfold duration_ns.
  rewrite wrap64_small by lia. lia.
Qed.

Lemma own_clock_only t t' c :
  remaining t c = remaining t' c -> increment t c = increment t' c -> mtime t = mtime t' ->
  hard_limit t c = hard_limit t' c /\ soft_limit t c = soft_limit t' c /\ timed_mode t c = timed_mode t' c.
Proof.
  unfold remaining, increment, hard_limit, soft_limit, time_left, timed_mode.
  destruct c; intros -> -> ->; repeat split; reflexivity.
Qed.

Lemma timer_armed t c : 0 < remaining t c \/ 0 < mtime t -> timed_mode t c = true.
Proof.
  unfold remaining, timed_mode. destruct c; intros [H|H]; apply orb_true_iff;
  [left|right|left|right]; apply Z.ltb_lt; lia.
Qed.
