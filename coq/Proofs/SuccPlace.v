(* C02, placement clause: the squares of [core b m] are the squares [place_after (abs b) m]
   prescribes, for every legal move of a valid position. *)
From Coq Require Import NArith ZArith List Bool Lia.
From Chess3 Require Import Base.Bits Base.Word Model.Types Model.Att Model.BoardDef Model.Board.
From Chess3 Require Import Spec.Geometry Spec.Chess Spec.Rep.
From Chess3 Require Import Proofs.SuccLists Proofs.SuccCore Proofs.SuccCells Proofs.SuccFacts.
Import ListNotations.
Open Scope N_scope.
Ltac Zify.zify_post_hook ::= Z.to_euclidean_division_equations.

Lemma cell_rm b c p sq s : WF b -> sq < 64 ->
  cell (rm b c p sq) s = if p =? 0 then cell b s else if s =? sq then None else cell b s.
Proof.
  intros HW Hsq. unfold cell. rewrite piece_at_rm, wbit_rm by assumption.
  destruct (p =? 0); [reflexivity|].
  destruct (N.eqb_spec s sq) as [->|Hn]; [reflexivity|].
  destruct c; [|reflexivity].
  rewrite (proj2 (N.eqb_neq sq s)) by congruence. rewrite andb_true_r. reflexivity.
Qed.

Lemma cell_ad b c p sq s : WF b -> sq < 64 -> p <> 0 -> (c = Black -> wbit b sq = false) ->
  cell (ad b c p sq) s = if s =? sq then Some (c, p) else cell b s.
Proof.
  intros HW Hsq Hp Hc. unfold cell. rewrite piece_at_ad, wbit_ad by assumption.
  rewrite (proj2 (N.eqb_neq p 0)) by exact Hp.
  destruct (N.eqb_spec s sq) as [->|Hn].
  - rewrite (proj2 (N.eqb_neq p 0)) by exact Hp. destruct c.
    + rewrite N.eqb_refl, orb_true_r. reflexivity.
    + rewrite Hc by reflexivity. reflexivity.
  - destruct c; [|reflexivity].
    rewrite (proj2 (N.eqb_neq sq s)) by congruence. rewrite orb_false_r. reflexivity.
Qed.

Lemma cell_set_castles b v s : cell (set_castles b v) s = cell b s. Proof. reflexivity. Qed.
Lemma cell_set_fifty b v s : cell (set_fifty b v) s = cell b s. Proof. reflexivity. Qed.
Lemma cell_set_full b v s : cell (set_full b v) s = cell b s. Proof. reflexivity. Qed.
Lemma cell_set_ep b v s : cell (set_ep b v) s = cell b s. Proof. reflexivity. Qed.
Lemma cell_set_stm b v s : cell (set_stm b v) s = cell b s. Proof. reflexivity. Qed.

Lemma nthN_put (l : list (option (color * N))) x v s : length l = 64%nat -> x < 64 ->
  nthN (put l x v) s None = if s =? x then v else nthN l s None.
Proof. intros Hl Hx. unfold put. apply nthN_updN. lia. Qed.
Lemma length_put (l : list (option (color * N))) x v : length (put l x v) = length l.
Proof. apply length_updN. Qed.

(* the board after the three basic steps of MakeMove *)
Definition b0_of (b : board) (m : N) : board :=
  set_castles (set_fifty (set_full b (full b + Z.of_N (cix (stm b)))%Z) (new_fifty b m)) (new_castles b m).
Definition put_piece (b : board) (m : N) : N :=
  if negb (mv_promo m =? NoPiece) then mv_promo m else piece_at b (mv_from m).
Definition b3_of (b : board) (m : N) : board :=
  ad (rm (rm (b0_of b m) (flip (stm b)) (piece_at b (capture_sq b m)) (capture_sq b m))
         (stm b) (piece_at b (mv_from m)) (mv_from m))
     (stm b) (put_piece b m) (mv_to m).

Lemma WF_b0 b m : WF b -> WF (b0_of b m).
Proof. intros H. exact H. Qed.

Lemma wbit_b0 b m s : wbit (b0_of b m) s = wbit b s. Proof. reflexivity. Qed.
Lemma cell_b0 b m s : cell (b0_of b m) s = cell b s. Proof. reflexivity. Qed.
Lemma piece_at_b0 b m s : piece_at (b0_of b m) s = piece_at b s. Proof. reflexivity. Qed.

Lemma nthN_abs_at' b s : s < 64 -> nthN (at_ (abs b)) s None = cell b s.
Proof. intros Hs. exact (who_abs b s Hs). Qed.

Section Placement.
Variable b : board.
Variable m : N.
Hypothesis HR : Rep b.
Hypothesis HV : valid_core (abs b) = true.
Hypothesis HL : legal_spec (abs b) m = true.

Let from := mv_from m.
Let to := mv_to m.
Let me := stm b.

Lemma HP : pseudo_spec (abs b) m = true.
Proof. apply (legal_parts _ _ HL). Qed.

Lemma from_lt : from < 64. Proof. apply mv_from_lt. Qed.
Lemma to_lt : to < 64. Proof. apply mv_to_lt. Qed.

(* the en-passant target of a valid position *)
Lemma valid_ep : ep_ok (abs b) = true.
Proof. apply (valid_core_parts _ HV). Qed.

(* an en-passant capture in a valid position has the capture shape *)
Lemma ep_shape k : cell b from = Some (me, k) -> owned_by (abs b) to me = false ->
  (if k =? Pawn then pawn_part (abs b) m else if k =? King then king_part (abs b) m else other_part (abs b) m k) = true ->
  is_en_passant b m = true ->
  k = Pawn /\ piece_at b to = 0 /\ mem (pawn_attacks me from) to = true /\
  cell b (ep_csq from to) = Some (flip me, Pawn).
Proof.
  intros Hc Ho Hk He. unfold is_en_passant in He.
  apply andb_true_iff in He. destruct He as [He He3]. apply andb_true_iff in He. destruct He as [He1 He2].
  apply negb_true_iff in He1. apply N.eqb_neq in He1. apply N.eqb_eq in He2. apply N.eqb_eq in He3.
  destruct (cell_Some _ _ _ _ Hc) as [Hp [Hk0 Hcol]]. fold from in He3. rewrite Hp in He3. subst k.
  split; [reflexivity|].
  change (Pawn =? Pawn) with true in Hk. cbv iota in Hk.
  assert (Hep : epsq (abs b) = Some to).
  { cbn [epsq abs]. rewrite (proj2 (N.eqb_neq (ep b) 0)) by exact He1. fold to in He2. rewrite He2. reflexivity. }
  destruct (ep_ok_parts _ _ valid_ep Hep) as [Hrank [Hempty [_ [Hpawn _]]]].
  change (turn (abs b)) with me in Hrank, Hpawn.
  rewrite empty_abs in Hempty by apply to_lt. apply N.eqb_eq in Hempty.
  split; [exact Hempty|].
  unfold pawn_part in Hk. fold from to in Hk. cbn [turn abs] in Hk. fold me in Hk.
  apply andb_true_iff in Hk. destruct Hk as [_ Hk].
  (* the pushed pawn stands on fwd (flip me) to *)
  assert (Hps : fwd (flip me) to < 64 /\ 8 <= to /\ to < 56).
  { pose proof to_lt. unfold rank_n in Hrank. destruct me; cbn [fwd flip] in *; lia. }
  destruct Hps as [Hps [Hto8 Hto56]].
  rewrite holds_abs in Hpawn by exact Hps.
  destruct (cell b (fwd (flip me) to)) as [[c' k']|] eqn:Hcp; [|discriminate].
  apply andb_true_iff in Hpawn. destruct Hpawn as [Hq1 Hq2].
  apply color_eqb_eq in Hq1. apply N.eqb_eq in Hq2. subst c' k'.
  assert (Hcap : mem (pawn_attacks me from) to = true).
  { apply orb_true_iff in Hk. destruct Hk as [Hk|Hk].
    - apply orb_true_iff in Hk. destruct Hk as [Hk|Hk].
      + (* single step onto the target: the mover would stand on the pushed pawn's square *)
        exfalso. repeat (apply andb_true_iff in Hk; destruct Hk as [Hk ?]). apply N.eqb_eq in Hk.
        assert (fwd (flip me) to = from).
        { pose proof from_lt. rewrite Hk. destruct me; cbn [fwd flip] in *; lia. }
        rewrite H1 in Hcp. rewrite Hc in Hcp. inversion Hcp. destruct me; discriminate.
      + (* double step onto the target: wrong rank *)
        exfalso. repeat (apply andb_true_iff in Hk; destruct Hk as [Hk ?]).
        apply N.eqb_eq in Hk. apply N.eqb_eq in H1.
        pose proof from_lt. unfold rank_n in *. rewrite H1 in Hrank.
        destruct me; cbn [fwd second_rank] in *; lia.
    - apply andb_true_iff in Hk. tauto. }
  split; [exact Hcap|].
  destruct (pawn_capture_geom me from to from_lt to_lt Hcap) as [_ [_ [_ [G4 _]]]].
  rewrite G4. exact Hcp.
Qed.

Lemma facts : exists k, cell b from = Some (me, k) /\ owned_by (abs b) to me = false /\
  (if k =? Pawn then pawn_part (abs b) m else if k =? King then king_part (abs b) m else other_part (abs b) m k) = true.
Proof. exact (pseudo_facts b m HP). Qed.

Lemma nthN_abs_at s : s < 64 -> nthN (at_ (abs b)) s None = cell b s.
Proof. intros Hs. exact (who_abs b s Hs). Qed.

Lemma is_ep_eq k : cell b from = Some (me, k) -> is_ep_capture (abs b) m = is_en_passant b m.
Proof.
  intros Hc. destruct (cell_Some _ _ _ _ Hc) as [Hp _].
  unfold is_ep_capture, is_en_passant. rewrite holds_abs by apply from_lt. fold from to. cbn [turn abs epsq].
  fold me. rewrite Hc, Hp, color_eqb_refl. cbn [andb].
  rewrite (N.eqb_sym Pawn k).
  destruct (ep b =? 0); cbn [negb andb]; [rewrite andb_false_r; reflexivity|]. apply andb_comm.
Qed.

Lemma is_castling_eq k : cell b from = Some (me, k) ->
  is_castling (abs b) m = (k =? King) && ((to =? from + 2) || (to + 2 =? from)).
Proof.
  intros Hc. unfold is_castling. rewrite holds_abs by apply from_lt. fold from to. cbn [turn abs]. fold me.
  rewrite Hc, color_eqb_refl. cbn [andb]. rewrite (N.eqb_sym King k). reflexivity.
Qed.

(* White bits of the board after the three basic steps, for a Black mover: nothing new appears *)
Lemma wbit_b3_black s : me = Black -> wbit (b3_of b m) s = true -> wbit b s = true.
Proof.
  intros Hme. pose proof (Rep_WF b HR) as HW. unfold b3_of. fold me. rewrite Hme. cbn [flip].
  rewrite wbit_ad by (apply WF_rm, WF_rm, WF_b0, HW).
  rewrite wbit_rm by (apply WF_rm, WF_b0, HW).
  rewrite wbit_rm by (apply WF_b0, HW). rewrite wbit_b0.
  destruct (put_piece b m =? 0); destruct (piece_at b (mv_from m) =? 0); destruct (piece_at b (capture_sq b m) =? 0);
    try tauto; intros H; apply andb_true_iff in H; tauto.
Qed.

Lemma put_piece_nz k : cell b from = Some (me, k) -> put_piece b m <> 0.
Proof.
  intros Hc. destruct (cell_Some _ _ _ _ Hc) as [Hp [Hk0 _]]. unfold put_piece. fold from. rewrite Hp.
  change NoPiece with 0. destruct (N.eqb_spec (mv_promo m) 0) as [E|E]; cbn [negb]; assumption.
Qed.

(* the squares after the three basic steps when the move is not an en-passant capture *)
Lemma cell_b3_plain k s : cell b from = Some (me, k) -> owned_by (abs b) to me = false ->
  is_en_passant b m = false -> s < 64 ->
  cell (b3_of b m) s = if s =? to then Some (me, put_piece b m) else if s =? from then None else cell b s.
Proof.
  intros Hc Ho He Hs. pose proof (Rep_WF b HR) as HW.
  destruct (cell_Some _ _ _ _ Hc) as [Hp [Hk0 Hcol]].
  pose proof (from_neq_to b m k Hc Ho) as Hft. fold from to in Hft.
  assert (Hcs : capture_sq b m = to) by (unfold capture_sq; rewrite He; reflexivity).
  unfold b3_of. rewrite Hcs. fold from to me. rewrite Hp.
  rewrite cell_ad; [| apply WF_rm, WF_rm, WF_b0, HW | apply to_lt | exact (put_piece_nz k Hc) | ].
  - rewrite cell_rm by (try apply WF_rm; try apply WF_b0; try exact HW; apply from_lt).
    rewrite cell_rm by (try apply WF_b0; try exact HW; apply to_lt). rewrite cell_b0.
    rewrite (proj2 (N.eqb_neq k 0)) by exact Hk0.
    destruct (N.eqb_spec s to) as [E1|E1]; [reflexivity|].
    destruct (N.eqb_spec s from) as [E2|E2]; [reflexivity|].
    destruct (piece_at b to =? 0); reflexivity.
  - intros Hme. rewrite wbit_rm by (apply WF_rm, WF_b0, HW). rewrite Hme.
    rewrite wbit_rm by (apply WF_b0, HW). rewrite wbit_b0. cbn [flip].
    rewrite (proj2 (N.eqb_neq k 0)) by exact Hk0.
    destruct (N.eqb_spec (piece_at b to) 0) as [E|E].
    + apply Rep_empty_wbit; [exact HR|apply to_lt|exact E].
    + rewrite N.eqb_refl. apply andb_false_r.
Qed.

(* ... and when it is *)
Lemma cell_b3_ep k s : cell b from = Some (me, k) -> owned_by (abs b) to me = false ->
  (if k =? Pawn then pawn_part (abs b) m else if k =? King then king_part (abs b) m else other_part (abs b) m k) = true ->
  is_en_passant b m = true -> s < 64 ->
  cell (b3_of b m) s = if s =? to then Some (me, put_piece b m) else if s =? from then None
                       else if s =? ep_csq from to then None else cell b s.
Proof.
  intros Hc Ho Hk He Hs. pose proof (Rep_WF b HR) as HW.
  destruct (ep_shape k Hc Ho Hk He) as [-> [Hto0 [Hcap Hcsq]]].
  destruct (cell_Some _ _ _ _ Hc) as [Hp [Hk0 Hcol]].
  destruct (cell_Some _ _ _ _ Hcsq) as [Hp' _].
  destruct (pawn_capture_geom me from to from_lt to_lt Hcap) as [G1 [G2 [G3 _]]].
  assert (Hcs : capture_sq b m = ep_csq from to) by (unfold capture_sq; rewrite He; reflexivity).
  unfold b3_of. rewrite Hcs. fold from to me. rewrite Hp, Hp'.
  rewrite cell_ad; [| apply WF_rm, WF_rm, WF_b0, HW | apply to_lt | exact (put_piece_nz _ Hc) | ].
  - rewrite cell_rm by (try apply WF_rm; try apply WF_b0; try exact HW; apply from_lt).
    rewrite cell_rm by (try apply WF_b0; try exact HW; exact G3). rewrite cell_b0.
    change (Pawn =? 0) with false. cbv iota. reflexivity.
  - intros Hme. rewrite wbit_rm by (apply WF_rm, WF_b0, HW). rewrite Hme.
    rewrite wbit_rm by (apply WF_b0, HW). rewrite wbit_b0.
    change (Pawn =? 0) with false. cbv iota. cbn [flip].
    rewrite (Rep_empty_wbit b to HR to_lt Hto0). reflexivity.
Qed.

Lemma core_b3 : core b m =
  set_stm (let b4 := set_ep (b3_of b m) (new_ep b m) in
           if piece_at b from =? King then
             match castle_rook from to with
             | Some (rf, rt) => ad (rm b4 me Rook rf) me Rook rt
             | None => b4
             end
           else b4) (flip me).
Proof. reflexivity. Qed.

(* a king move that the engine treats as castling is a castling move of the rules, and vice versa *)
Lemma castle_facts : cell b from = Some (me, King) -> king_part (abs b) m = true ->
  match castle_rook from to with
  | Some (rf, rt) =>
      ((to = from + 2 /\ rf = from + 3 /\ rt = from + 1) \/ (to + 2 = from /\ rf = from - 4 /\ rt = from - 1 /\ 4 <= from)) /\
      from + 3 < 64 /\ piece_at b rt = 0 /\ rt < 64 /\ rf < 64
  | None => to <> from + 2 /\ to + 2 <> from
  end.
Proof.
  intros Hc Hk. unfold king_part in Hk. fold from to in Hk. cbn [turn abs] in Hk. fold me in Hk.
  apply andb_true_iff in Hk. destruct Hk as [_ Hk].
  apply orb_true_iff in Hk. destruct Hk as [Hk|Hk]; [apply orb_true_iff in Hk; destruct Hk as [Hk|Hk]|].
  - destruct (king_step_geom from to from_lt to_lt Hk) as [G1 [G2 G3]]. rewrite G3. tauto.
  - repeat (apply andb_true_iff in Hk; destruct Hk as [Hk ?]).
    apply N.eqb_eq in Hk. apply N.eqb_eq in H0.
    destruct (castle_ok_parts _ _ H) as [_ [_ [_ Hb]]]. cbn [turn abs] in Hb. fold me in Hb.
    destruct between_homes as [B1 [B2 [B3 B4]]].
    rewrite H0, Hk. destruct me.
    + rewrite B1 in Hb. cbn [forallb] in Hb. repeat (apply andb_true_iff in Hb; destruct Hb as [? Hb]).
      rewrite empty_abs in H1 by reflexivity. apply N.eqb_eq in H1.
      change (castle_rook (king_home White) (king_home White + 2)) with (Some (7, 5)).
      change (king_home White) with 4. repeat split; try reflexivity; try exact H1. left. repeat split.
    + rewrite B3 in Hb. cbn [forallb] in Hb. repeat (apply andb_true_iff in Hb; destruct Hb as [? Hb]).
      rewrite empty_abs in H1 by reflexivity. apply N.eqb_eq in H1.
      change (castle_rook (king_home Black) (king_home Black + 2)) with (Some (63, 61)).
      change (king_home Black) with 60. repeat split; try reflexivity; try exact H1. left. repeat split.
  - repeat (apply andb_true_iff in Hk; destruct Hk as [Hk ?]).
    apply N.eqb_eq in Hk. apply N.eqb_eq in H0.
    destruct (castle_ok_parts _ _ H) as [_ [_ [_ Hb]]]. cbn [turn abs] in Hb. fold me in Hb.
    destruct between_homes as [B1 [B2 [B3 B4]]].
    assert (to = from - 2) by lia. rewrite H1, Hk. destruct me.
    + rewrite B2 in Hb. cbn [forallb] in Hb. repeat (apply andb_true_iff in Hb; destruct Hb as [? Hb]).
      rewrite empty_abs in H2 by reflexivity. apply N.eqb_eq in H2.
      change (castle_rook (king_home White) (king_home White - 2)) with (Some (0, 3)).
      change (king_home White) with 4. repeat split; try reflexivity; try exact H2. right. repeat split; lia.
    + rewrite B4 in Hb. cbn [forallb] in Hb. repeat (apply andb_true_iff in Hb; destruct Hb as [? Hb]).
      rewrite empty_abs in H2 by reflexivity. apply N.eqb_eq in H2.
      change (castle_rook (king_home Black) (king_home Black - 2)) with (Some (56, 59)).
      change (king_home Black) with 60. repeat split; try reflexivity; try exact H2. right. repeat split; lia.
Qed.

Lemma WF_b3 : WF (b3_of b m).
Proof. apply WF_ad, WF_rm, WF_rm, WF_b0, Rep_WF, HR. Qed.

Lemma core_cell s : s < 64 -> cell (core b m) s = nthN (place_after (abs b) m) s None.
Proof.
  intros Hs. destruct facts as [k [Hc [Ho Hk]]].
  pose proof (Rep_WF b HR) as HW.
  destruct (cell_Some _ _ _ _ Hc) as [Hp [Hk0 Hcol]].
  pose proof (from_neq_to b m k Hc Ho) as Hft. fold from to in Hft.
  unfold place_after. fold from to. rewrite (who_abs b from from_lt), Hc. cbn [turn abs]. fold me.
  rewrite (is_ep_eq k Hc), (is_castling_eq k Hc).
  remember (if mv_promo m =? 0 then k else mv_promo m) as k' eqn:Ek'.
  assert (Hput : put_piece b m = k').
  { unfold put_piece. rewrite Ek'. fold from. rewrite Hp. change NoPiece with 0. destruct (mv_promo m =? 0); reflexivity. }
  rewrite core_b3. rewrite cell_set_stm. cbv zeta. rewrite Hp.
  pose proof from_lt as Hfl. pose proof to_lt as Htl.
  destruct (is_en_passant b m) eqn:He.
  - destruct (ep_shape k Hc Ho Hk He) as [Ek [Hto0 [Hcap Hcsq]]]. rewrite Ek in *. clear Ek.
    change (Pawn =? King) with false. cbv iota. cbn [andb]. rewrite cell_set_ep.
    rewrite (cell_b3_ep Pawn s Hc Ho Hk He Hs), Hput.
    destruct (pawn_capture_geom me from to from_lt to_lt Hcap) as [G1 [G2 [G3 _]]].
    rewrite <- (ep_csq_sqfr from to from_lt to_lt).
    rewrite !nthN_put by (rewrite ?length_put; try apply abs_at_length; assumption).
    rewrite nthN_abs_at by exact Hs.
    destruct (N.eqb_spec s (ep_csq from to)); destruct (N.eqb_spec s to); destruct (N.eqb_spec s from);
      try reflexivity; congruence.
  - assert (Hplain : cell (set_ep (b3_of b m) (new_ep b m)) s =
                     nthN (put (put (at_ (abs b)) from None) to (Some (me, k'))) s None).
    { rewrite cell_set_ep, (cell_b3_plain k s Hc Ho He Hs), Hput.
      rewrite !nthN_put by (rewrite ?length_put; try apply abs_at_length; assumption).
      rewrite nthN_abs_at by exact Hs. reflexivity. }
    destruct (N.eqb_spec k King) as [EK|EK]; [|cbn [andb]; exact Hplain].
    rewrite EK in *. clear EK. change (King =? Pawn) with false in Hk. cbv iota in Hk.
    pose proof (castle_facts Hc Hk) as CF.
    destruct (castle_rook from to) as [[rf rt]|].
    + destruct CF as [CF [Hf3 [Hrt0 [Hrt Hrf]]]]. cbn [andb].
      assert (Hwb : me = Black -> wbit (rm (set_ep (b3_of b m) (new_ep b m)) me Rook rf) rt = false).
      { intros Hme. rewrite wbit_rm by exact WF_b3. rewrite Hme. change (Rook =? 0) with false. cbv iota.
        destruct (wbit (set_ep (b3_of b m) (new_ep b m)) rt) eqn:W; [|reflexivity].
        apply (wbit_b3_black rt Hme) in W. rewrite (Rep_empty_wbit b rt HR Hrt Hrt0) in W. discriminate. }
      rewrite cell_ad; [| apply WF_rm; exact WF_b3 | exact Hrt | discriminate | exact Hwb].
      rewrite cell_rm by (try exact WF_b3; exact Hrf). change (Rook =? 0) with false. cbv iota.
      rewrite Hplain.
      destruct CF as [[E1 [E2 E3]]|[E1 [E2 [E3 E4]]]].
      * rewrite E1, N.eqb_refl. cbn [orb]. rewrite <- E1.
        rewrite !nthN_put by (rewrite ?length_put; try apply abs_at_length; lia).
        rewrite E2, E3. reflexivity.
      * rewrite (proj2 (N.eqb_neq to (from + 2))) by lia. rewrite (proj2 (N.eqb_eq (to + 2) from)) by exact E1.
        cbn [orb].
        rewrite (nthN_put _ (from - 1)) by (rewrite ?length_put; try apply abs_at_length; lia).
        rewrite (nthN_put _ (from - 4)) by (rewrite ?length_put; try apply abs_at_length; lia).
        rewrite E2, E3. reflexivity.
    + destruct CF as [C1 C2]. rewrite (proj2 (N.eqb_neq to (from + 2))) by exact C1.
      rewrite (proj2 (N.eqb_neq (to + 2) from)) by exact C2. cbn [andb orb]. exact Hplain.
Qed.

(* the placement clause *)
Lemma core_placement : at_ (abs (core b m)) = place_after (abs b) m.
Proof.
  apply (list64_ext _ _ None).
  - apply abs_at_length.
  - destruct facts as [k [Hc _]]. unfold place_after. fold from to.
    rewrite (who_abs b from from_lt), Hc.
    repeat match goal with
    | |- context [if ?c then _ else _] => destruct c
    end; rewrite ?length_put; apply abs_at_length.
  - intros s Hs. rewrite nthN_abs_at' by exact Hs. apply core_cell. exact Hs.
Qed.

End Placement.
