package main

// effects.go - translator piece "conservative effect analysis of the engine's source".
//
// It turns "this function keeps no state between calls" into a proof obligation that is re-derived
// from the current source on every run: coq/Gen/Effects.v holds, for every ROOT function, the list
// of WRITE EFFECTS of the root and of everything it may call, and the list of package-level
// variables it may read that something outside package initialisation writes. The statements in
// coq/Properties/C*_effects.v say that these lists are what the properties need (mostly: empty).
//
// How the source is read (gen runs with the repository root as working directory):
//   - every package directory of the root module except tools/ (and the main package in the root
//     directory); non-test files of the DEFAULT build only (go/build.MatchFile with no build tags:
//     files behind `verif` or `spsa` are not part of it; names starting with export_verif are
//     skipped by name as well);
//   - go/parser + go/types; the packages of the repository are type-checked from the parsed files,
//     everything else (standard library, golang.org/x/exp) through go/importer's "source" importer,
//     which works offline. The tree has already been compiled by the Go compiler when gen runs, so a
//     type error here means the analysis could not load something: it FAILS CLOSED
//     (effects_error = Some ...), like a parse error, a missing root function or a panic in here.
//
// The analysis (flow-insensitive, context-insensitive, summaries to a fixed point):
//   - storage is named by tokens: global:<pkg>.<Var> (a package-level variable and everything
//     reachable from it), param:<func>.<name> (everything reachable from a parameter or receiver of
//     a pointer / slice / map / ... type; value parameters of a type without pointers inside are
//     plain copies), and function-local objects (local variables, allocation sites, call results),
//     which are followed inside the function (p := &b.f, s := b.arr[:], x := *b ... carry the tokens
//     of what they were made from) and never reported;
//   - a WRITE is: assignment / op-assignment / ++ / -- / range-assignment whose left-hand side lives
//     in non-local storage; clear, copy, delete, close, append (first argument) and channel send on
//     non-local storage; a call of a method of a type from outside the repository that may mutate its
//     receiver (pointer or interface receiver and a name that is not in a short read-only list such as
//     Load / Range / Len / String; sync.Map.Store, atomic Add/Store/Swap/CompareAndSwap,
//     sync.Pool.Get/Put, Mutex.Lock ... are all of this kind) on non-local storage; handing non-local
//     storage of a type with pointers inside to a function from outside the repository (except a
//     short list of functions known not to write their arguments: math, math/bits, strconv, strings,
//     unicode, errors, cmp, fmt.Sprint*/Errorf); taking the address of (part of) a package-level
//     variable anywhere but directly as the argument or receiver of a call (there the callee's
//     summary decides);
//   - calls: a call of a function or method of the repository applies the callee's summary, its
//     param: effects translated through the actual arguments (so a helper writing through its receiver
//     is silent when the receiver is a local of the caller); the receiver type is known from go/types,
//     calls through an interface go to EVERY method of that name in the repository; a function or
//     method that is only mentioned (function value) contributes its summary untranslated; function
//     literals are analysed as part of the function they are written in; calling a function VALUE that
//     is not a local variable bound to literals / named functions only is itself reported as an
//     effect dyncall:<func>:<expr> (so function values are not silently ignored, but what the called
//     value does is not followed); generic functions are ordinary functions;
//   - init() functions, package-level initialisers and unexported functions referenced only from those
//     are "initialisation": their writes do not make a variable mutable. They are not reachable from
//     the roots, so their writes cannot appear in a root's list either.
//
// Not modelled (trusted): reflection, unsafe pointer arithmetic, cgo, what functions outside the
// repository do except to their arguments, reads of the clock / random sources, I/O other than
// through a package-level variable.

import (
	"bytes"
	"fmt"
	"go/ast"
	"go/build"
	"go/importer"
	"go/parser"
	"go/printer"
	"go/token"
	"go/types"
	"os"
	"path/filepath"
	"sort"
	"strings"
)

func init() { generators = append(generators, genEffects) }

// ---- roots -----------------------------------------------------------------------------------------

type effRoot struct {
	coq   string // suffix of the Coq names
	pkg   string // package directory relative to the module root
	recv  string // receiver type name, "" for a function
	name  string
	isVar bool // a package-level variable: the obligation is about who writes it
}

var effRoots = []effRoot{
	{"eval_Eval", "eval", "", "Eval", false},
	{"heur_SEE", "heur", "", "SEE", false},
	{"board_IsPseudoLegal", "board", "Board", "IsPseudoLegal", false},
	{"board_IsCheckmate", "board", "Board", "IsCheckmate", false},
	{"board_IsStalemate", "board", "Board", "IsStalemate", false},
	{"board_IsAttacked", "board", "Board", "IsAttacked", false},
	{"board_InCheck", "board", "Board", "InCheck", false},
	{"board_Threefold", "board", "Board", "Threefold", false},
	{"board_Hash", "board", "Board", "Hash", false},
	{"board_FEN", "board", "Board", "FEN", false},
	{"board_CaptureSq", "board", "Board", "CaptureSq", false},
	{"board_CanEnPassant", "board", "Board", "CanEnPassant", false},
	{"attacks_KingMoves", "attacks", "", "KingMoves", false},
	{"attacks_KnightMoves", "attacks", "", "KnightMoves", false},
	{"attacks_BishopMoves", "attacks", "", "BishopMoves", false},
	{"attacks_RookMoves", "attacks", "", "RookMoves", false},
	{"attacks_PawnCaptureMoves", "attacks", "", "PawnCaptureMoves", false},
	{"attacks_PawnSinglePushMoves", "attacks", "", "PawnSinglePushMoves", false},
	{"attacks_InBetween", "attacks", "", "InBetween", true},
	{"movegen_GenNoisy", "movegen", "", "GenNoisy", false},
	{"movegen_GenNotNoisy", "movegen", "", "GenNotNoisy", false},
	{"transp_LookUp", "transp", "Table", "LookUp", false},
	{"uci_softLimit", "uci", "timeControl", "softLimit", false},
	{"uci_hardLimit", "uci", "timeControl", "hardLimit", false},
	{"uci_timedMode", "uci", "timeControl", "timedMode", false},
	{"search_lmr", "search", "", "lmr", false},
	{"search_nextNodeType", "search", "", "nextNodeType", false},
	{"search_staticEvaluation", "search", "", "staticEvaluation", false},
}

// ---- token sets ------------------------------------------------------------------------------------

// tokens: "G:<pkg>.<Var>", "P:<param>", "L:<id>" (function-local object), "X:<verbatim effect>",
// "U" (storage the analysis lost track of)
type tset map[string]bool

func (s tset) sorted() []string {
	out := make([]string, 0, len(s))
	for k := range s {
		out = append(out, k)
	}
	sort.Strings(out)
	return out
}

func isL(t string) bool { return strings.HasPrefix(t, "L:") }

// ---- packages --------------------------------------------------------------------------------------

type effPkg struct {
	path, rel string
	files     []*ast.File
	tpkg      *types.Package
	info      *types.Info
}

type effFail string

func effDie(format string, a ...any) { panic(effFail(fmt.Sprintf(format, a...))) }

type effAnalysis struct {
	fset      *token.FileSet
	module    string
	pkgs      map[string]*effPkg
	order     []*effPkg
	loading   map[string]bool
	ext       types.Importer
	typeErr   []string
	funcs     map[*types.Func]*effFn
	flist     []*effFn
	byName    map[string][]*effFn // methods by name (interface dispatch)
	plainMemo map[types.Type]bool
	changed   bool
}

func (a *effAnalysis) relOf(path string) (string, bool) {
	if !strings.HasPrefix(path, a.module+"/") {
		return "", false
	}
	rel := strings.TrimPrefix(path, a.module+"/")
	if rel == "tools" || strings.HasPrefix(rel, "tools/") {
		return "", false
	}
	return rel, true
}

func (a *effAnalysis) Import(path string) (*types.Package, error) {
	if path == "unsafe" {
		return types.Unsafe, nil
	}
	if rel, ok := a.relOf(path); ok {
		p := a.load(path, rel)
		return p.tpkg, nil
	}
	p, err := a.ext.Import(path)
	if err != nil {
		effDie("import %q cannot be loaded by the source importer: %v", path, err)
	}
	return p, nil
}

func effGoFiles(dir string) []string {
	ctxt := build.Default
	ctxt.BuildTags = nil
	ents, err := os.ReadDir(dir)
	if err != nil {
		effDie("%v", err)
	}
	var out []string
	for _, e := range ents {
		n := e.Name()
		if e.IsDir() || !strings.HasSuffix(n, ".go") || strings.HasSuffix(n, "_test.go") || strings.HasPrefix(n, "export_verif") {
			continue
		}
		ok, err := ctxt.MatchFile(dir, n)
		if err != nil {
			effDie("%s/%s: %v", dir, n, err)
		}
		if ok {
			out = append(out, filepath.Join(dir, n))
		}
	}
	sort.Strings(out)
	return out
}

func (a *effAnalysis) load(path, rel string) *effPkg {
	if p, ok := a.pkgs[path]; ok {
		return p
	}
	if a.loading[path] {
		effDie("import cycle through %s", path)
	}
	a.loading[path] = true
	names := effGoFiles(rel)
	if len(names) == 0 {
		effDie("package %s has no source files in the default build", path)
	}
	p := &effPkg{path: path, rel: rel}
	for _, n := range names {
		f, err := parser.ParseFile(a.fset, n, nil, parser.SkipObjectResolution)
		if err != nil {
			effDie("%v", err)
		}
		p.files = append(p.files, f)
	}
	p.info = &types.Info{
		Types:      map[ast.Expr]types.TypeAndValue{},
		Defs:       map[*ast.Ident]types.Object{},
		Uses:       map[*ast.Ident]types.Object{},
		Selections: map[*ast.SelectorExpr]*types.Selection{},
		Implicits:  map[ast.Node]types.Object{},
		Instances:  map[*ast.Ident]types.Instance{},
	}
	conf := types.Config{Importer: a, Error: func(err error) {
		if len(a.typeErr) < 5 {
			a.typeErr = append(a.typeErr, err.Error())
		}
	}}
	p.tpkg, _ = conf.Check(path, a.fset, p.files, p.info)
	if p.tpkg == nil {
		effDie("package %s could not be type-checked", path)
	}
	a.pkgs[path] = p
	a.order = append(a.order, p)
	delete(a.loading, path)
	return p
}

// ---- functions -------------------------------------------------------------------------------------

type effFn struct {
	key       string
	obj       *types.Func
	pkg       *effPkg
	body      *ast.BlockStmt
	initExpr  []ast.Expr // pseudo function: the initialisers of the package-level variables
	recv      *types.Var
	params    []*types.Var
	variadic  bool
	results   []*types.Var
	isInit    bool
	exported  bool
	prepassed bool

	eff, out, reads, direct tset
	refs                    map[*effFn]bool
	cont                    map[string]tset // contents of function-local objects
	litOut                  map[*ast.FuncLit]tset
	vcallee                 map[*types.Var]*effCallee
	yields                  map[*types.Var]bool // yield parameters of iterator-shaped function literals
}

type effCallee struct {
	lits    []*ast.FuncLit
	funcs   []*types.Func
	unknown bool
}

func (a *effAnalysis) pkgLabel(p *types.Package) string {
	if p == nil {
		return "_"
	}
	if rel, ok := a.relOf(p.Path()); ok {
		return rel
	}
	return p.Path()
}

func recvTypeName(t types.Type) (string, bool) {
	ptr := false
	if p, ok := t.(*types.Pointer); ok {
		ptr, t = true, p.Elem()
	}
	t = types.Unalias(t)
	if n, ok := t.(*types.Named); ok {
		return n.Obj().Name(), ptr
	}
	return t.String(), ptr
}

func (a *effAnalysis) funcKey(o *types.Func) string {
	sig := o.Type().(*types.Signature)
	if r := sig.Recv(); r != nil {
		n, ptr := recvTypeName(r.Type())
		// pkg.*T.M / pkg.T.M: Go's usual (*T) would open a comment in Coq
		if ptr {
			return fmt.Sprintf("%s.*%s.%s", a.pkgLabel(o.Pkg()), n, o.Name())
		}
		return fmt.Sprintf("%s.%s.%s", a.pkgLabel(o.Pkg()), n, o.Name())
	}
	return a.pkgLabel(o.Pkg()) + "." + o.Name()
}

func newFn(key string, p *effPkg) *effFn {
	return &effFn{key: key, pkg: p, eff: tset{}, out: tset{}, reads: tset{}, direct: tset{}, refs: map[*effFn]bool{},
		cont: map[string]tset{}, litOut: map[*ast.FuncLit]tset{}, vcallee: map[*types.Var]*effCallee{}, yields: map[*types.Var]bool{}}
}

func (a *effAnalysis) collect() {
	for _, p := range a.order {
		nInit := 0
		vi := newFn(p.rel+".<package-level initialisers>", p)
		vi.isInit = true
		vf := newFn(p.rel+".<function values in package-level variables>", p)
		vf.exported = true
		for _, f := range p.files {
			for _, d := range f.Decls {
				switch d := d.(type) {
				case *ast.GenDecl:
					if d.Tok != token.VAR {
						continue
					}
					for _, s := range d.Specs {
						for _, v := range s.(*ast.ValueSpec).Values {
							if keepsFuncValue(p.info, v) {
								// a function literal or function value kept in a package-level variable can run at
								// any time later: not initialisation
								vf.initExpr = append(vf.initExpr, v)
							} else {
								vi.initExpr = append(vi.initExpr, v)
							}
						}
					}
				case *ast.FuncDecl:
					if d.Body == nil {
						continue
					}
					o, _ := p.info.Defs[d.Name].(*types.Func)
					if o == nil {
						effDie("%s: no object for function %s", a.fset.Position(d.Pos()), d.Name.Name)
					}
					fn := newFn(a.funcKey(o), p)
					fn.obj, fn.body = o, d.Body
					sig := o.Type().(*types.Signature)
					fn.recv = sig.Recv()
					for i := 0; i < sig.Params().Len(); i++ {
						fn.params = append(fn.params, sig.Params().At(i))
					}
					for i := 0; i < sig.Results().Len(); i++ {
						fn.results = append(fn.results, sig.Results().At(i))
					}
					fn.variadic = sig.Variadic()
					fn.exported = ast.IsExported(o.Name())
					if fn.recv == nil && o.Name() == "init" {
						nInit++
						fn.isInit = true
						fn.key = fmt.Sprintf("%s.init#%d", p.rel, nInit)
					}
					a.funcs[o] = fn
					a.flist = append(a.flist, fn)
					if fn.recv != nil {
						a.byName[o.Name()] = append(a.byName[o.Name()], fn)
					}
				}
			}
		}
		a.flist = append(a.flist, vi)
		if len(vf.initExpr) > 0 {
			a.flist = append(a.flist, vf)
		}
	}
}

// keepsFuncValue: the expression contains a function literal, or mentions a function or method without calling it
func keepsFuncValue(info *types.Info, e ast.Expr) bool {
	called := map[ast.Expr]bool{}
	found := false
	ast.Inspect(e, func(n ast.Node) bool {
		switch x := n.(type) {
		case *ast.CallExpr:
			f := unparen(x.Fun)
			switch g := f.(type) {
			case *ast.IndexExpr:
				f = unparen(g.X)
			case *ast.IndexListExpr:
				f = unparen(g.X)
			}
			called[f] = true
			if sel, ok := f.(*ast.SelectorExpr); ok {
				called[sel.Sel] = true
			}
		case *ast.FuncLit:
			found = true
		case *ast.Ident:
			if _, ok := info.Uses[x].(*types.Func); ok && !called[x] {
				found = true
			}
		case *ast.SelectorExpr:
			if called[x] {
				called[x.Sel] = true
			}
		}
		return true
	})
	return found
}

// ---- types -----------------------------------------------------------------------------------------

// isPlain: a value of the type holds no reference to storage outside itself
func (a *effAnalysis) isPlain(t types.Type) bool {
	if t == nil {
		return false
	}
	if v, ok := a.plainMemo[t]; ok {
		return v
	}
	a.plainMemo[t] = false // cycles go through pointers/slices only, which are not plain
	r := false
	switch u := t.(type) {
	case *types.Basic:
		r = u.Kind() != types.UnsafePointer && u.Kind() != types.Invalid
	case *types.Named:
		r = a.isPlain(u.Underlying())
	case *types.Alias:
		r = a.isPlain(types.Unalias(u))
	case *types.Array:
		r = a.isPlain(u.Elem())
	case *types.Struct:
		r = true
		for i := 0; i < u.NumFields(); i++ {
			if !a.isPlain(u.Field(i).Type()) {
				r = false
				break
			}
		}
	case *types.Tuple:
		r = true
		for i := 0; i < u.Len(); i++ {
			if !a.isPlain(u.At(i).Type()) {
				r = false
				break
			}
		}
	case *types.TypeParam:
		// every type of the constraint's type set is plain
		if iface, ok := u.Constraint().Underlying().(*types.Interface); ok && iface.NumMethods() == 0 {
			r = a.plainTypeSet(iface, 0)
		}
	}
	a.plainMemo[t] = r
	return r
}

func (a *effAnalysis) plainTypeSet(iface *types.Interface, depth int) bool {
	if depth > 8 || iface.NumEmbeddeds() == 0 {
		return false
	}
	for i := 0; i < iface.NumEmbeddeds(); i++ {
		switch e := types.Unalias(iface.EmbeddedType(i)).(type) {
		case *types.Union:
			for j := 0; j < e.Len(); j++ {
				tt := e.Term(j).Type()
				if in, ok := tt.Underlying().(*types.Interface); ok {
					if !a.plainTypeSet(in, depth+1) {
						return false
					}
				} else if !a.isPlain(tt) {
					return false
				}
			}
		default:
			if in, ok := e.Underlying().(*types.Interface); ok {
				if in.NumMethods() > 0 || !a.plainTypeSet(in, depth+1) {
					return false
				}
			} else if !a.isPlain(e) {
				return false
			}
		}
	}
	return true
}

func under(t types.Type) types.Type {
	if t == nil {
		return nil
	}
	return t.Underlying()
}

func isPointer(t types.Type) bool {
	_, ok := under(t).(*types.Pointer)
	return ok
}

// ---- per-function walk -----------------------------------------------------------------------------

type fctxE struct {
	a       *effAnalysis
	fn      *effFn
	info    *types.Info
	litSeen map[*ast.FuncLit]bool
	curLit  *ast.FuncLit
}

func (c *fctxE) add(s tset, t string) {
	if !s[t] {
		s[t] = true
		c.a.changed = true
	}
}

func (c *fctxE) addAll(s tset, ts tset) {
	for t := range ts {
		c.add(s, t)
	}
}

func (c *fctxE) obj(id string) tset {
	s, ok := c.fn.cont[id]
	if !ok {
		s = tset{}
		c.fn.cont[id] = s
	}
	return s
}

func (c *fctxE) varID(v *types.Var) string   { return fmt.Sprintf("L:v%d", v.Pos()) }
func allocID(kind string, n ast.Node) string { return fmt.Sprintf("L:%s%d", kind, n.Pos()) }

func union(ss ...tset) tset {
	r := tset{}
	for _, s := range ss {
		for t := range s {
			r[t] = true
		}
	}
	return r
}

// deref: the tokens held by the objects S points to
func (c *fctxE) deref(s tset) tset {
	r := tset{}
	for t := range s {
		if isL(t) {
			for u := range c.obj(t) {
				r[u] = true
			}
		} else {
			r[t] = true
		}
	}
	return r
}

// closure: everything reachable from S (S included)
func (c *fctxE) closure(s tset) tset {
	r := tset{}
	var work []string
	for t := range s {
		r[t] = true
		work = append(work, t)
	}
	for len(work) > 0 {
		t := work[len(work)-1]
		work = work[:len(work)-1]
		if !isL(t) {
			continue
		}
		for u := range c.obj(t) {
			if !r[u] {
				r[u] = true
				work = append(work, u)
			}
		}
	}
	return r
}

// summarise: the caller-visible part of closure(S)
func (c *fctxE) summarise(s tset) tset {
	r := tset{}
	for t := range c.closure(s) {
		if !isL(t) {
			r[t] = true
		}
	}
	return r
}

func (c *fctxE) typeOf(e ast.Expr) types.Type { return c.info.TypeOf(e) }

func (c *fctxE) plain(e ast.Expr) bool {
	t := c.typeOf(e)
	if t == nil {
		return false
	}
	if b, ok := t.(*types.Basic); ok && b.Kind() == types.UntypedNil {
		return true
	}
	return c.a.isPlain(t)
}

func (c *fctxE) src(n ast.Node) string {
	var buf bytes.Buffer
	printer.Fprint(&buf, c.a.fset, n)
	s := strings.Join(strings.Fields(buf.String()), " ")
	if len(s) > 60 {
		s = s[:60] + "..."
	}
	return s
}

// effect records a write to the storage named by token t
func (c *fctxE) effect(t string) {
	switch {
	case isL(t):
	case t == "U":
		c.add(c.fn.eff, "X:unknown-target:"+c.fn.key)
	default:
		c.add(c.fn.eff, t)
		if strings.HasPrefix(t, "G:") {
			c.add(c.fn.direct, t)
		}
	}
}

// write: the storage S receives a value holding the tokens rhs
func (c *fctxE) write(s tset, rhs tset) {
	escaped := false
	for t := range s {
		if isL(t) {
			c.addAll(c.obj(t), rhs)
		} else {
			c.effect(t)
			escaped = true
		}
	}
	if escaped && len(rhs) > 0 {
		c.addAll(c.fn.out, c.summarise(rhs))
	}
}

func isGlobalVar(v *types.Var) bool {
	return !v.IsField() && v.Pkg() != nil && v.Parent() == v.Pkg().Scope()
}

func (c *fctxE) globalTok(v *types.Var) string {
	t := "G:" + c.a.pkgLabel(v.Pkg()) + "." + v.Name()
	c.add(c.fn.reads, t)
	return t
}

func (c *fctxE) use(id *ast.Ident) types.Object {
	if o := c.info.Uses[id]; o != nil {
		return o
	}
	return c.info.Defs[id]
}

// refFunc: a function or method is mentioned without being called
func (c *fctxE) refFunc(o *types.Func) {
	fn := c.a.funcs[o.Origin()]
	if fn == nil {
		return
	}
	if !c.fn.refs[fn] {
		c.fn.refs[fn] = true
		c.a.changed = true
	}
	for t := range fn.eff {
		if strings.HasPrefix(t, "P:") {
			c.add(c.fn.eff, "X:param:"+fn.key+"."+t[2:])
		} else {
			c.add(c.fn.eff, t)
		}
	}
	c.addAll(c.fn.reads, fn.reads)
}

func unparen(e ast.Expr) ast.Expr {
	for {
		p, ok := e.(*ast.ParenExpr)
		if !ok {
			return e
		}
		e = p.X
	}
}

// ev: evaluates e for its effects and returns the tokens its value may refer to
func (c *fctxE) ev(e ast.Expr) tset {
	if e == nil {
		return nil
	}
	r := c.ev1(e)
	if c.plain(e) {
		return nil
	}
	return r
}

func (c *fctxE) ev1(e ast.Expr) tset {
	switch x := e.(type) {
	case *ast.Ident:
		switch o := c.use(x).(type) {
		case *types.Var:
			if isGlobalVar(o) {
				return tset{c.globalTok(o): true}
			}
			if o.IsField() {
				return nil
			}
			return union(c.obj(c.varID(o)))
		case *types.Func:
			c.refFunc(o)
		}
		return nil
	case *ast.BasicLit:
		return nil
	case *ast.FuncLit:
		c.funcLit(x)
		return nil
	case *ast.CompositeLit:
		r := c.compositeElems(x)
		switch under(c.typeOf(x)).(type) {
		case *types.Slice, *types.Map:
			id := allocID("a", x)
			c.addAll(c.obj(id), r)
			return tset{id: true}
		}
		return r
	case *ast.ParenExpr:
		return c.ev(x.X)
	case *ast.SelectorExpr:
		if id, ok := x.X.(*ast.Ident); ok {
			if _, isPkg := c.use(id).(*types.PkgName); isPkg {
				switch o := c.use(x.Sel).(type) {
				case *types.Var:
					return tset{c.globalTok(o): true}
				case *types.Func:
					c.refFunc(o)
				}
				return nil
			}
		}
		sel := c.info.Selections[x]
		if sel == nil {
			return c.ev(x.X)
		}
		switch sel.Kind() {
		case types.FieldVal:
			b := c.ev(x.X)
			if sel.Indirect() || isPointer(c.typeOf(x.X)) {
				if len(sel.Index()) > 1 {
					return c.closure(b) // through embedded fields: some of them may be pointers
				}
				return c.deref(b)
			}
			return b
		case types.MethodVal:
			if f, ok := sel.Obj().(*types.Func); ok {
				c.refFunc(f)
			}
			return c.closure(c.ev(x.X))
		default:
			if f, ok := sel.Obj().(*types.Func); ok {
				c.refFunc(f)
			}
			return nil
		}
	case *ast.IndexExpr:
		if tv, ok := c.info.Types[x.X]; ok && tv.IsType() {
			return nil
		}
		if _, ok := under(c.typeOf(x.X)).(*types.Signature); ok {
			c.ev(x.X)
			return nil
		}
		c.ev(x.Index)
		b := c.ev(x.X)
		switch under(c.typeOf(x.X)).(type) {
		case *types.Array:
			return b
		case *types.Basic:
			return nil
		case *types.Pointer, *types.Slice, *types.Map:
			return c.deref(b)
		}
		return union(b, c.deref(b))
	case *ast.IndexListExpr:
		c.ev(x.X)
		return nil
	case *ast.SliceExpr:
		c.ev(x.Low)
		c.ev(x.High)
		c.ev(x.Max)
		if _, ok := under(c.typeOf(x.X)).(*types.Array); ok {
			return c.st(x.X)
		}
		return c.ev(x.X)
	case *ast.StarExpr:
		return c.deref(c.ev(x.X))
	case *ast.UnaryExpr:
		switch x.Op {
		case token.AND:
			if lit, ok := unparen(x.X).(*ast.CompositeLit); ok {
				id := allocID("a", lit)
				c.addAll(c.obj(id), c.ev(lit))
				return tset{id: true}
			}
			// the address of package-level state kept in a value is NOT by itself a write: the value carries
			// the tokens of what it points into, and a store through it (`*p = v`, `p.f = v`, a mutating call on
			// it, in this function or - through the result / argument summaries - in a caller or callee) is
			// reported where it happens. (It used to count as a write; a read-only `e := &table[sq]` in a
			// lookup then made every attack lookup "stateful": false-alarm probe core3-H3.)
			return c.st(x.X)
		case token.ARROW:
			return c.deref(c.ev(x.X))
		}
		c.ev(x.X)
		return nil
	case *ast.BinaryExpr:
		if x.Op == token.EQL || x.Op == token.NEQ {
			// a pointer that is only compared is not kept: p == &Var, any(p) == any(&Var)
			c.arg(c.stripConv(x.X))
			c.arg(c.stripConv(x.Y))
			return nil
		}
		c.ev(x.X)
		c.ev(x.Y)
		return nil
	case *ast.CallExpr:
		return c.call(x)
	case *ast.TypeAssertExpr:
		return c.ev(x.X)
	case *ast.KeyValueExpr:
		c.ev(x.Key)
		return c.ev(x.Value)
	case *ast.ArrayType, *ast.StructType, *ast.FuncType, *ast.InterfaceType, *ast.MapType, *ast.ChanType, *ast.Ellipsis:
		return nil
	}
	effDie("%s: in %s: unsupported expression %T", c.a.fset.Position(e.Pos()), c.fn.key, e)
	return nil
}

func (c *fctxE) compositeElems(x *ast.CompositeLit) tset {
	r := tset{}
	_, isStruct := under(c.typeOf(x)).(*types.Struct)
	for _, el := range x.Elts {
		if kv, ok := el.(*ast.KeyValueExpr); ok {
			if !isStruct {
				for t := range c.ev(kv.Key) {
					r[t] = true
				}
			}
			el = kv.Value
		}
		for t := range c.ev(el) {
			r[t] = true
		}
	}
	return r
}

// st: the tokens of the storage the addressable expression e denotes
func (c *fctxE) st(e ast.Expr) tset {
	switch x := e.(type) {
	case *ast.Ident:
		if x.Name == "_" {
			return nil
		}
		if o, ok := c.use(x).(*types.Var); ok {
			if isGlobalVar(o) {
				return tset{c.globalTok(o): true}
			}
			id := c.varID(o)
			c.obj(id)
			return tset{id: true}
		}
		return nil
	case *ast.ParenExpr:
		return c.st(x.X)
	case *ast.SelectorExpr:
		if id, ok := x.X.(*ast.Ident); ok {
			if _, isPkg := c.use(id).(*types.PkgName); isPkg {
				if o, ok := c.use(x.Sel).(*types.Var); ok {
					return tset{c.globalTok(o): true}
				}
				return nil
			}
		}
		sel := c.info.Selections[x]
		if sel != nil && sel.Kind() == types.FieldVal {
			if isPointer(c.typeOf(x.X)) {
				b := c.ev(x.X)
				if len(sel.Index()) > 1 && sel.Indirect() {
					return union(b, c.deref(b))
				}
				return b
			}
			if sel.Indirect() {
				return union(c.st(x.X), c.deref(c.ev(x.X)))
			}
			return c.st(x.X)
		}
		return c.ev(e)
	case *ast.IndexExpr:
		c.ev(x.Index)
		switch under(c.typeOf(x.X)).(type) {
		case *types.Array:
			return c.st(x.X)
		case *types.Pointer, *types.Slice, *types.Map:
			return c.ev(x.X)
		}
		return union(c.ev(x.X), c.st(x.X))
	case *ast.StarExpr:
		return c.ev(x.X)
	case *ast.CompositeLit:
		id := allocID("a", x)
		c.addAll(c.obj(id), c.ev(x))
		return tset{id: true}
	}
	return c.ev(e)
}

// arg: the tokens of an actual argument; &x and x[:] directly in argument position do not count as
// "address kept in a value" (the callee's summary says what happens through the pointer)
func (c *fctxE) arg(e ast.Expr) tset {
	if u, ok := unparen(e).(*ast.UnaryExpr); ok && u.Op == token.AND {
		if _, isLit := unparen(u.X).(*ast.CompositeLit); !isLit {
			return c.st(u.X)
		}
	}
	return c.ev(e)
}

// stripConv removes parentheses and type conversions around e
func (c *fctxE) stripConv(e ast.Expr) ast.Expr {
	for {
		e = unparen(e)
		call, ok := e.(*ast.CallExpr)
		if !ok || len(call.Args) != 1 {
			return e
		}
		if tv, ok := c.info.Types[unparen(call.Fun)]; !ok || !tv.IsType() {
			return e
		}
		e = call.Args[0]
	}
}

// iterShape: func(yield func(...) bool) - the shape of iter.Seq / iter.Seq2
func iterShape(sig *types.Signature) bool {
	if sig == nil || sig.Results().Len() != 0 || sig.Params().Len() != 1 {
		return false
	}
	y, ok := under(sig.Params().At(0).Type()).(*types.Signature)
	if !ok || y.Results().Len() != 1 {
		return false
	}
	b, ok := under(y.Results().At(0).Type()).(*types.Basic)
	return ok && b.Kind() == types.Bool
}

func (c *fctxE) funcLit(lit *ast.FuncLit) {
	if c.litSeen[lit] {
		return
	}
	c.litSeen[lit] = true
	if _, ok := c.fn.litOut[lit]; !ok {
		c.fn.litOut[lit] = tset{}
	}
	for _, f := range lit.Type.Params.List {
		for _, n := range f.Names {
			if v, ok := c.info.Defs[n].(*types.Var); ok && !c.a.isPlain(v.Type()) {
				c.add(c.obj(c.varID(v)), "X:param:"+c.fn.key+".func."+n.Name)
			}
		}
	}
	saved := c.curLit
	c.curLit = lit
	c.stmt(lit.Body)
	c.curLit = saved
}

func (c *fctxE) calleeOf(v *types.Var) *effCallee {
	k := c.fn.vcallee[v]
	if k == nil {
		k = &effCallee{}
		c.fn.vcallee[v] = k
	}
	return k
}

// bindFuncVar records what a local variable of function type may be bound to
func (c *fctxE) bindFuncVar(lhs ast.Expr, rhs ast.Expr) {
	id, ok := unparen(lhs).(*ast.Ident)
	if !ok {
		return
	}
	v, ok := c.use(id).(*types.Var)
	if !ok || isGlobalVar(v) {
		return
	}
	if _, isFunc := under(v.Type()).(*types.Signature); !isFunc {
		return
	}
	k := c.calleeOf(v)
	if rhs == nil {
		k.unknown = true
		return
	}
	switch r := unparen(rhs).(type) {
	case *ast.FuncLit:
		for _, l := range k.lits {
			if l == r {
				return
			}
		}
		k.lits = append(k.lits, r)
		return
	case *ast.Ident, *ast.SelectorExpr:
		var o types.Object
		if i, ok := r.(*ast.Ident); ok {
			o = c.use(i)
		} else if s, ok := r.(*ast.SelectorExpr); ok {
			if sel := c.info.Selections[s]; sel == nil {
				o = c.use(s.Sel)
			}
		}
		if f, ok := o.(*types.Func); ok {
			for _, g := range k.funcs {
				if g == f {
					return
				}
			}
			k.funcs = append(k.funcs, f)
			return
		}
		if _, isNil := o.(*types.Nil); isNil {
			return
		}
	}
	k.unknown = true
}

// prepass: what the local variables of function type are bound to (syntactic, once per function). A
// variable that is a parameter, a range / type-switch variable, the target of a multi-value assignment,
// bound to anything but a literal or a named function, or whose address is taken is "unknown": calling it
// is reported as dyncall.
func (c *fctxE) prepass(root ast.Node) {
	ast.Inspect(root, func(n ast.Node) bool {
		switch x := n.(type) {
		case *ast.AssignStmt:
			if len(x.Lhs) == len(x.Rhs) {
				for i := range x.Lhs {
					c.bindFuncVar(x.Lhs[i], x.Rhs[i])
				}
			} else {
				for _, l := range x.Lhs {
					c.bindFuncVar(l, nil)
				}
			}
		case *ast.ValueSpec:
			if len(x.Values) == len(x.Names) {
				for i := range x.Names {
					c.bindFuncVar(x.Names[i], x.Values[i])
				}
			} else if len(x.Values) > 0 {
				for _, n := range x.Names {
					c.bindFuncVar(n, nil)
				}
			}
		case *ast.RangeStmt:
			if x.Key != nil {
				c.bindFuncVar(x.Key, nil)
			}
			if x.Value != nil {
				c.bindFuncVar(x.Value, nil)
			}
		case *ast.FuncLit:
			sig, _ := c.typeOf(x).(*types.Signature)
			for _, f := range x.Type.Params.List {
				for _, n := range f.Names {
					c.bindFuncVar(n, nil)
					if v, ok := c.info.Defs[n].(*types.Var); ok && iterShape(sig) {
						c.fn.yields[v] = true
					}
				}
			}
		case *ast.UnaryExpr:
			if x.Op == token.AND {
				c.bindFuncVar(x.X, nil)
			}
		case *ast.CaseClause:
			if v, ok := c.info.Implicits[x].(*types.Var); ok {
				if _, isFunc := under(v.Type()).(*types.Signature); isFunc {
					c.calleeOf(v).unknown = true
				}
			}
		}
		return true
	})
}

// ---- calls -----------------------------------------------------------------------------------------

var effPureExtPkgs = map[string]bool{"math": true, "math/bits": true, "strconv": true, "strings": true, "unicode": true,
	"unicode/utf8": true, "errors": true, "cmp": true}
var effPureExtFuncs = map[string]bool{"fmt.Sprint": true, "fmt.Sprintf": true, "fmt.Sprintln": true, "fmt.Errorf": true}

var effWritesFirstArgOnly = map[string]bool{"fmt.Fprint": true, "fmt.Fprintf": true, "fmt.Fprintln": true}

// methods of types from outside the repository: names that always count as writes to the receiver
var effMutatorNames = map[string]bool{"Store": true, "Swap": true, "CompareAndSwap": true, "Add": true, "And": true, "Or": true,
	"Delete": true, "LoadOrStore": true, "LoadAndDelete": true, "CompareAndDelete": true, "Clear": true, "Put": true, "Get": true,
	"Lock": true, "Unlock": true, "RLock": true, "RUnlock": true, "TryLock": true, "TryRLock": true, "Do": true, "Reset": true,
	"Write": true, "WriteString": true, "WriteByte": true, "WriteRune": true, "Set": true, "Wait": true, "Done": true,
	"Signal": true, "Broadcast": true, "Seed": true}

// ... and names that count as reads even with a pointer or interface receiver
var effReadOnlyNames = map[string]bool{"Load": true, "Range": true, "Len": true, "Cap": true, "String": true, "Bytes": true,
	"Error": true, "Text": true, "Err": true, "Size": true, "Unwrap": true}

type effActuals struct {
	recv  tset
	args  []tset
	exprs []ast.Expr
}

func (c *fctxE) recvTokens(recvExpr ast.Expr, ptrRecv bool, sel *types.Selection) tset {
	var r tset
	if isPointer(c.typeOf(recvExpr)) {
		r = c.ev(recvExpr)
		if !ptrRecv {
			r = c.deref(r)
		}
	} else if ptrRecv {
		r = c.st(recvExpr)
	} else {
		r = c.ev(recvExpr)
	}
	if sel != nil && len(sel.Index()) > 1 {
		r = c.closure(r) // promoted through embedded fields
	}
	return r
}

func (c *fctxE) call(call *ast.CallExpr) tset {
	fun := unparen(call.Fun)
	if tv, ok := c.info.Types[fun]; ok && tv.IsType() {
		r := tset{}
		for _, a := range call.Args {
			for t := range c.ev(a) {
				r[t] = true
			}
		}
		return r
	}
	// strip explicit instantiation
	switch f := fun.(type) {
	case *ast.IndexExpr:
		if _, ok := under(c.typeOf(f.X)).(*types.Signature); ok {
			fun = unparen(f.X)
		}
	case *ast.IndexListExpr:
		fun = unparen(f.X)
	}
	var fobj *types.Func
	var recvExpr ast.Expr
	var sel *types.Selection
	methodExpr := false
	switch f := fun.(type) {
	case *ast.Ident:
		switch o := c.use(f).(type) {
		case *types.Builtin:
			return c.builtin(o.Name(), call)
		case *types.Func:
			fobj = o
		case *types.Var:
			if !isGlobalVar(o) {
				if k := c.fn.vcallee[o]; k != nil && !k.unknown {
					return c.callBound(k, call)
				}
			}
		}
	case *ast.SelectorExpr:
		if id, ok := f.X.(*ast.Ident); ok {
			if _, isPkg := c.use(id).(*types.PkgName); isPkg {
				switch o := c.use(f.Sel).(type) {
				case *types.Builtin:
					return c.builtin(o.Name(), call)
				case *types.Func:
					fobj = o
				}
				break
			}
		}
		if sel = c.info.Selections[f]; sel != nil {
			switch sel.Kind() {
			case types.MethodVal:
				fobj, _ = sel.Obj().(*types.Func)
				recvExpr = f.X
			case types.MethodExpr:
				fobj, _ = sel.Obj().(*types.Func)
				methodExpr = true
			}
		}
	case *ast.FuncLit:
		return c.callBound(&effCallee{lits: []*ast.FuncLit{f}}, call)
	}
	if fobj == nil {
		return c.dynCall(call)
	}
	origin := fobj.Origin()
	sig := origin.Type().(*types.Signature)
	args := call.Args
	if methodExpr && len(args) > 0 {
		recvExpr, args = args[0], args[1:]
	}
	ptrRecv := false
	if sig.Recv() != nil {
		ptrRecv = isPointer(sig.Recv().Type())
	}
	act := effActuals{exprs: args}
	if recvExpr != nil {
		if methodExpr {
			act.recv = c.arg(recvExpr)
			if !ptrRecv && isPointer(c.typeOf(recvExpr)) {
				act.recv = c.deref(act.recv)
			}
		} else {
			act.recv = c.recvTokens(recvExpr, ptrRecv, sel)
		}
	}
	for _, a := range args {
		act.args = append(act.args, c.arg(a))
	}
	if sig.Recv() != nil && types.IsInterface(sig.Recv().Type()) {
		// dynamic dispatch: every method of that name in the repository, and an unknown one outside
		r := c.callExt(origin, act)
		for _, fn := range c.a.byName[origin.Name()] {
			if len(fn.params) == sig.Params().Len() {
				r = union(r, c.callRepo(fn, act, call))
			}
		}
		return r
	}
	if fn := c.a.funcs[origin]; fn != nil {
		return c.callRepo(fn, act, call)
	}
	return c.callExt(origin, act)
}

func (c *fctxE) actualOf(fn *effFn, act effActuals, name string) tset {
	if fn.recv != nil && fn.recv.Name() == name {
		return act.recv
	}
	for i, p := range fn.params {
		if p.Name() != name {
			continue
		}
		if len(act.args) == 1 && len(fn.params) > 1 {
			return act.args[0] // f(g()) with a tuple
		}
		if fn.variadic && i == len(fn.params)-1 {
			r := tset{}
			for j := i; j < len(act.args); j++ {
				for t := range act.args[j] {
					r[t] = true
				}
			}
			return r
		}
		if i < len(act.args) {
			return act.args[i]
		}
	}
	return nil
}

func (c *fctxE) callRepo(fn *effFn, act effActuals, call *ast.CallExpr) tset {
	if !c.fn.refs[fn] {
		c.fn.refs[fn] = true
		c.a.changed = true
	}
	c.addAll(c.fn.reads, fn.reads)
	mappedOut := tset{}
	for t := range fn.out {
		if strings.HasPrefix(t, "P:") {
			for u := range c.closure(c.actualOf(fn, act, t[2:])) {
				mappedOut[u] = true
			}
		} else {
			mappedOut[t] = true
		}
	}
	for t := range fn.eff {
		if !strings.HasPrefix(t, "P:") {
			c.add(c.fn.eff, t) // global / verbatim effects of the callee; not a direct write of this function
			continue
		}
		for u := range c.closure(c.actualOf(fn, act, t[2:])) {
			if isL(u) {
				c.addAll(c.obj(u), mappedOut)
			} else {
				c.effect(u)
			}
		}
	}
	id := allocID("c", call)
	c.addAll(c.obj(id), mappedOut)
	r := union(mappedOut)
	r[id] = true
	return r
}

func (c *fctxE) callExt(o *types.Func, act effActuals) tset {
	sig := o.Type().(*types.Signature)
	full := o.Name()
	pkgPath := ""
	if o.Pkg() != nil {
		pkgPath = o.Pkg().Path()
		full = pkgPath + "." + o.Name()
	}
	all := union(act.recv)
	for _, s := range act.args {
		for t := range s {
			all[t] = true
		}
	}
	all = c.closure(all)
	pure := sig.Recv() == nil && (effPureExtPkgs[pkgPath] || effPureExtFuncs[full])
	if !pure {
		if sig.Recv() != nil {
			rt := sig.Recv().Type()
			mut := effMutatorNames[o.Name()] || ((isPointer(rt) || types.IsInterface(rt)) && !effReadOnlyNames[o.Name()])
			if mut {
				c.write(c.closure(act.recv), all)
			}
		}
		for i, s := range act.args {
			if i > 0 && effWritesFirstArgOnly[full] {
				break
			}
			if i < len(act.exprs) {
				if c.plain(act.exprs[i]) {
					continue
				}
				if _, isFunc := under(c.typeOf(act.exprs[i])).(*types.Signature); isFunc {
					continue
				}
			}
			c.write(c.closure(s), all)
		}
	}
	return all
}

func (c *fctxE) dynCall(call *ast.CallExpr) tset {
	yield := false
	if id, ok := unparen(call.Fun).(*ast.Ident); ok {
		if v, ok := c.use(id).(*types.Var); ok && c.fn.yields[v] {
			// yield(...) inside an iterator literal func(yield func(...) bool): the callee is the body of the
			// range statement that consumes the iterator, analysed where that statement is (a consumer that calls
			// the iterator value itself, or ranges over a function value of unknown origin, is reported there)
			yield = true
		}
	}
	if !yield {
		c.add(c.fn.eff, "X:dyncall:"+c.fn.key+":"+c.src(call.Fun))
	}
	all := c.closure(c.ev(call.Fun))
	var sets []tset
	for _, a := range call.Args {
		s := c.arg(a)
		sets = append(sets, s)
		for t := range c.closure(s) {
			all[t] = true
		}
	}
	for i, s := range sets {
		if c.plain(call.Args[i]) {
			continue
		}
		c.write(c.closure(s), all)
	}
	all["U"] = true
	return all
}

// callBound: call of a local function variable bound to known literals / named functions only
func (c *fctxE) callBound(k *effCallee, call *ast.CallExpr) tset {
	r := tset{}
	var sets []tset
	for _, a := range call.Args {
		sets = append(sets, c.arg(a))
	}
	for _, lit := range k.lits {
		c.funcLit(lit)
		i := 0
		for _, f := range lit.Type.Params.List {
			for _, n := range f.Names {
				if v, ok := c.info.Defs[n].(*types.Var); ok && i < len(sets) && !c.a.isPlain(v.Type()) {
					c.addAll(c.obj(c.varID(v)), sets[i])
				}
				i++
			}
			if len(f.Names) == 0 {
				i++
			}
		}
		for t := range c.fn.litOut[lit] {
			r[t] = true
		}
	}
	for _, f := range k.funcs {
		origin := f.Origin()
		act := effActuals{args: sets, exprs: call.Args}
		if fn := c.a.funcs[origin]; fn != nil {
			r = union(r, c.callRepo(fn, act, call))
		} else {
			r = union(r, c.callExt(origin, act))
		}
	}
	return r
}

func (c *fctxE) builtin(name string, call *ast.CallExpr) tset {
	var sets []tset
	for _, a := range call.Args {
		if tv, ok := c.info.Types[a]; ok && tv.IsType() {
			sets = append(sets, nil)
			continue
		}
		sets = append(sets, c.arg(a))
	}
	get := func(i int) tset {
		if i < len(sets) {
			return sets[i]
		}
		return nil
	}
	switch name {
	case "append":
		rest := tset{}
		for i := 1; i < len(sets); i++ {
			for t := range c.deref(sets[i]) {
				rest[t] = true
			}
			if !call.Ellipsis.IsValid() {
				for t := range sets[i] {
					rest[t] = true
				}
			}
		}
		c.write(get(0), rest)
		id := allocID("a", call)
		c.addAll(c.obj(id), rest)
		c.addAll(c.obj(id), c.deref(get(0)))
		r := union(get(0))
		r[id] = true
		return r
	case "copy":
		c.write(get(0), c.deref(get(1)))
		return nil
	case "clear", "delete", "close":
		c.write(get(0), nil)
		return nil
	case "new", "make":
		return tset{allocID("a", call): true}
	case "len", "cap", "min", "max", "complex", "real", "imag", "panic", "print", "println", "recover",
		"Sizeof", "Alignof", "Offsetof":
		return nil
	}
	// unsafe.Slice / String / Add ...: the result refers to what the arguments refer to
	r := tset{}
	for _, s := range sets {
		for t := range s {
			r[t] = true
		}
	}
	return r
}

// ---- statements ------------------------------------------------------------------------------------

func (c *fctxE) assignTo(lhs ast.Expr, r tset) {
	if id, ok := unparen(lhs).(*ast.Ident); ok && id.Name == "_" {
		return
	}
	if c.plain(lhs) {
		r = nil
	}
	c.write(c.st(lhs), r)
}

func (c *fctxE) stmt(s ast.Stmt) {
	switch x := s.(type) {
	case nil:
	case *ast.ExprStmt:
		c.ev(x.X)
	case *ast.AssignStmt:
		if x.Tok != token.ASSIGN && x.Tok != token.DEFINE {
			for _, l := range x.Lhs {
				c.ev(l)
			}
		}
		if len(x.Lhs) == len(x.Rhs) {
			for i := range x.Lhs {
				c.assignTo(x.Lhs[i], c.ev(x.Rhs[i]))
			}
		} else {
			r := c.ev(x.Rhs[0]) // call with several results, or a comma-ok form
			for _, l := range x.Lhs {
				c.assignTo(l, r)
			}
		}
	case *ast.IncDecStmt:
		c.ev(x.X)
		c.write(c.st(x.X), nil)
	case *ast.DeclStmt:
		gd, ok := x.Decl.(*ast.GenDecl)
		if !ok || gd.Tok != token.VAR {
			return
		}
		for _, sp := range gd.Specs {
			vs := sp.(*ast.ValueSpec)
			if len(vs.Values) == len(vs.Names) {
				for i, n := range vs.Names {
					c.assignTo(n, c.ev(vs.Values[i]))
				}
			} else if len(vs.Values) == 1 {
				r := c.ev(vs.Values[0])
				for _, n := range vs.Names {
					c.assignTo(n, r)
				}
			}
		}
	case *ast.GoStmt:
		c.ev(x.Call)
	case *ast.DeferStmt:
		c.ev(x.Call)
	case *ast.ReturnStmt:
		for _, e := range x.Results {
			r := c.ev(e)
			if len(r) == 0 {
				continue
			}
			if c.curLit != nil {
				c.addAll(c.fn.litOut[c.curLit], r)
				continue
			}
			c.addAll(c.fn.out, c.summarise(r))
		}
	case *ast.BlockStmt:
		for _, t := range x.List {
			c.stmt(t)
		}
	case *ast.IfStmt:
		c.stmt(x.Init)
		c.ev(x.Cond)
		c.stmt(x.Body)
		c.stmt(x.Else)
	case *ast.ForStmt:
		c.stmt(x.Init)
		c.ev(x.Cond)
		c.stmt(x.Post)
		c.stmt(x.Body)
	case *ast.RangeStmt:
		r := c.ev(x.X)
		var elem tset
		switch under(c.typeOf(x.X)).(type) {
		case *types.Array:
			elem = r
		case *types.Pointer, *types.Slice, *types.Map, *types.Chan:
			elem = c.deref(r)
		case *types.Basic:
		case *types.Signature:
			c.rangeFunc(x)
			elem = c.closure(r)
		default:
			elem = c.closure(r)
		}
		if x.Key != nil {
			c.assignTo(x.Key, elem)
		}
		if x.Value != nil {
			c.assignTo(x.Value, elem)
		}
		c.stmt(x.Body)
	case *ast.SwitchStmt:
		c.stmt(x.Init)
		c.ev(x.Tag)
		c.stmt(x.Body)
	case *ast.TypeSwitchStmt:
		c.stmt(x.Init)
		var r tset
		switch a := x.Assign.(type) {
		case *ast.ExprStmt:
			r = c.ev(a.X)
		case *ast.AssignStmt:
			r = c.ev(a.Rhs[0])
		}
		for _, cl := range x.Body.List {
			cc := cl.(*ast.CaseClause)
			if v, ok := c.info.Implicits[cc].(*types.Var); ok {
				c.addAll(c.obj(c.varID(v)), r)
			}
			for _, t := range cc.Body {
				c.stmt(t)
			}
		}
	case *ast.CaseClause:
		for _, e := range x.List {
			c.ev(e)
		}
		for _, t := range x.Body {
			c.stmt(t)
		}
	case *ast.SelectStmt:
		c.stmt(x.Body)
	case *ast.CommClause:
		c.stmt(x.Comm)
		for _, t := range x.Body {
			c.stmt(t)
		}
	case *ast.SendStmt:
		c.write(c.ev(x.Chan), c.ev(x.Value))
	case *ast.LabeledStmt:
		c.stmt(x.Stmt)
	case *ast.BranchStmt, *ast.EmptyStmt:
	default:
		effDie("%s: in %s: unsupported statement %T", c.a.fset.Position(s.Pos()), c.fn.key, s)
	}
}

// rangeFunc: `for ... := range f` calls the function value f. When f is the result of calling a function of
// the repository the iterator body is the function literal inside that function and is part of its summary.
func (c *fctxE) rangeFunc(x *ast.RangeStmt) {
	if call, ok := unparen(x.X).(*ast.CallExpr); ok {
		fun := unparen(call.Fun)
		var o types.Object
		switch f := fun.(type) {
		case *ast.Ident:
			o = c.use(f)
		case *ast.SelectorExpr:
			if sel := c.info.Selections[f]; sel != nil {
				o = sel.Obj()
			} else {
				o = c.use(f.Sel)
			}
		}
		if f, ok := o.(*types.Func); ok && c.a.funcs[f.Origin()] != nil {
			return
		}
	}
	if id, ok := unparen(x.X).(*ast.Ident); ok {
		if v, ok := c.use(id).(*types.Var); ok && !isGlobalVar(v) {
			if k := c.fn.vcallee[v]; k != nil && !k.unknown {
				return
			}
		}
	}
	c.add(c.fn.eff, "X:dyncall:"+c.fn.key+":range "+c.src(x.X))
}

func (a *effAnalysis) analyse(fn *effFn) {
	c := &fctxE{a: a, fn: fn, info: fn.pkg.info, litSeen: map[*ast.FuncLit]bool{}}
	seed := func(v *types.Var) {
		if v == nil || v.Name() == "" || v.Name() == "_" {
			return
		}
		if _, isFunc := under(v.Type()).(*types.Signature); isFunc {
			c.calleeOf(v).unknown = true
		}
		if !a.isPlain(v.Type()) {
			c.add(c.obj(c.varID(v)), "P:"+v.Name())
		}
	}
	seed(fn.recv)
	for _, p := range fn.params {
		seed(p)
	}
	if !fn.prepassed {
		fn.prepassed = true
		if fn.body != nil {
			c.prepass(fn.body)
		}
		for _, e := range fn.initExpr {
			c.prepass(e)
		}
	}
	for pass := 0; ; pass++ {
		if pass > 60 {
			effDie("no fixed point inside %s", fn.key)
		}
		before := a.changed
		a.changed = false
		c.litSeen = map[*ast.FuncLit]bool{}
		if fn.body != nil {
			c.stmt(fn.body)
		}
		for _, e := range fn.initExpr {
			c.ev(e)
		}
		for _, r := range fn.results {
			if r.Name() != "" && r.Name() != "_" {
				c.addAll(fn.out, c.summarise(c.obj(c.varID(r))))
			}
		}
		again := a.changed
		a.changed = before || again
		if !again {
			break
		}
	}
}

// ---- driver ----------------------------------------------------------------------------------------

func effToken(fnKey, t string) string {
	switch {
	case strings.HasPrefix(t, "G:"):
		return "global:" + t[2:]
	case strings.HasPrefix(t, "P:"):
		return "param:" + fnKey + "." + t[2:]
	case strings.HasPrefix(t, "X:"):
		return t[2:]
	}
	return "unknown-target:" + fnKey
}

func coqList(xs []string) string {
	if len(xs) == 0 {
		return "[]"
	}
	var sb strings.Builder
	sb.WriteString("[\n")
	for i, x := range xs {
		// no comment delimiters inside strings: lib/vcheck.py strips comments without looking at strings
		x = strings.ReplaceAll(strings.ReplaceAll(x, "(*", "( *"), "*)", "* )")
		sb.WriteString("    " + q(x))
		if i+1 < len(xs) {
			sb.WriteString(";")
		}
		sb.WriteString("\n")
	}
	sb.WriteString("  ]")
	return sb.String()
}

const effHeader = "(* effect analysis of the engine's source (harness/cmd/gen/effects.go) *)\n" +
	"From Coq Require Import String List.\nImport ListNotations.\nOpen Scope string_scope.\n"

const effComment = `(*
   For every root function R:
     effects_R   the write effects of R and of every function R may call, to a fixed point over an
                 over-approximated call graph: "global:<pkg>.<Var>" = a write to (something reachable from) a
                 package-level variable, "param:<R>.<name>" = a write through a parameter or the receiver of R,
                 "dyncall:<func>:<expr>" = a call of a function value the analysis does not follow, "param:<f>...",
                 "unknown-target:<f>" = a write it lost track of, "missing:<R>" = the root no longer exists.
     mutreads_R  the package-level variables R (or something it may call) mentions and that some function
                 outside package initialisation writes (mutable_globals lists all of those).
   For the root variable attacks.InBetween: writers_attacks_InBetween = the functions outside package
   initialisation that write it.

   Over-approximations: flow- and context-insensitive; a token stands for everything reachable from the variable
   or parameter; interface method calls go to every method of that name in the repository; a mentioned function
   counts as called; writes by init(), package-level initialisers and unexported functions referenced only from
   those are initialisation, not state.
   Not followed / not modelled: what a called function VALUE does (the call itself is reported as dyncall),
   reflection, unsafe, cgo, functions outside the repository except for their receiver and arguments, reads of
   clocks and random sources. See the header of harness/cmd/gen/effects.go.
*)
`

func genEffects() {
	type rootOut struct{ eff, reads []string }
	outs := map[string]rootOut{}
	var mutable []string
	errMsg := ""
	func() {
		defer func() {
			if r := recover(); r != nil {
				if m, ok := r.(effFail); ok {
					errMsg = string(m)
				} else {
					errMsg = fmt.Sprintf("internal error of the effect analysis: %v", r)
				}
				fmt.Fprintf(os.Stderr, "gen/effects: FAIL CLOSED: %s\n", errMsg)
			}
		}()
		a := effRun()
		// initialisation-only functions
		referrers := map[*effFn][]*effFn{}
		for _, f := range a.flist {
			for g := range f.refs {
				if g != f {
					referrers[g] = append(referrers[g], f)
				}
			}
		}
		initOnly := map[*effFn]bool{}
		for _, f := range a.flist {
			if f.isInit || !f.exported {
				initOnly[f] = true
			}
		}
		for again := true; again; {
			again = false
			for _, f := range a.flist {
				if !initOnly[f] || f.isInit {
					continue
				}
				drop := len(referrers[f]) == 0
				for _, g := range referrers[f] {
					if !initOnly[g] {
						drop = true
					}
				}
				if drop {
					delete(initOnly, f)
					again = true
				}
			}
		}
		mut := tset{}
		writers := map[string]tset{}
		for _, f := range a.flist {
			if initOnly[f] {
				continue
			}
			for t := range f.direct {
				mut[t] = true
				if writers[t] == nil {
					writers[t] = tset{}
				}
				writers[t][f.key] = true
			}
		}
		for _, t := range mut.sorted() {
			mutable = append(mutable, effToken("", t))
		}
		if os.Getenv("VERIF_EFFECTS_DUMP") != "" {
			// diagnosis: the summary of every function, on stderr
			for _, f := range a.flist {
				var eff []string
				for _, t := range f.eff.sorted() {
					eff = append(eff, effToken(f.key, t))
				}
				fmt.Fprintf(os.Stderr, "effects: %s initonly=%v\n  writes %v\n  returns/stores %v\n  direct %v\n  mentions %v\n",
					f.key, initOnly[f], eff, f.out.sorted(), f.direct.sorted(), f.reads.sorted())
			}
		}
		for _, r := range effRoots {
			label := r.pkg + "." + r.name
			if r.recv != "" {
				label = r.pkg + "." + r.recv + "." + r.name
			}
			p := a.pkgs[a.module+"/"+r.pkg]
			if p == nil {
				outs[r.coq] = rootOut{[]string{"missing:" + label}, nil}
				continue
			}
			if r.isVar {
				v, _ := p.tpkg.Scope().Lookup(r.name).(*types.Var)
				if v == nil {
					outs[r.coq] = rootOut{[]string{"missing:" + label}, nil}
					continue
				}
				outs[r.coq] = rootOut{writers["G:"+r.pkg+"."+r.name].sorted(), nil}
				continue
			}
			var fn *effFn
			for _, f := range a.flist {
				if f.pkg != p || f.obj == nil || f.obj.Name() != r.name {
					continue
				}
				if (r.recv == "") != (f.recv == nil) {
					continue
				}
				if f.recv != nil {
					if n, _ := recvTypeName(f.recv.Type()); n != r.recv {
						continue
					}
				}
				fn = f
			}
			if fn == nil {
				outs[r.coq] = rootOut{[]string{"missing:" + label}, nil}
				continue
			}
			var eff, reads []string
			set := tset{}
			for t := range fn.eff {
				set[effToken(fn.key, t)] = true
			}
			eff = set.sorted()
			for _, t := range fn.reads.sorted() {
				if mut[t] {
					reads = append(reads, effToken("", t))
				}
			}
			outs[r.coq] = rootOut{eff, reads}
		}
	}()

	f := newFile("Effects.v", effHeader)
	f.p("%s", effComment)
	if errMsg != "" {
		errMsg = strings.ReplaceAll(strings.ReplaceAll(errMsg, "(*", "( *"), "*)", "* )")
		f.p("Definition effects_error : option string :=\n  Some %s.\n", q(errMsg))
	} else {
		f.p("Definition effects_error : option string := None.\n")
	}
	f.p("Definition mutable_globals : list string := %s.\n", coqList(mutable))
	for _, r := range effRoots {
		o := outs[r.coq]
		if r.isVar {
			f.p("Definition writers_%s : list string := %s.\n", r.coq, coqList(o.eff))
			continue
		}
		f.p("Definition effects_%s : list string := %s.\n", r.coq, coqList(o.eff))
		f.p("Definition mutreads_%s : list string := %s.\n", r.coq, coqList(o.reads))
	}
}

func effRun() *effAnalysis {
	mod, err := os.ReadFile("go.mod")
	if err != nil {
		effDie("%v", err)
	}
	a := &effAnalysis{fset: token.NewFileSet(), pkgs: map[string]*effPkg{}, loading: map[string]bool{},
		funcs: map[*types.Func]*effFn{}, byName: map[string][]*effFn{}, plainMemo: map[types.Type]bool{}}
	for _, l := range strings.Split(string(mod), "\n") {
		if f := strings.Fields(l); len(f) == 2 && f[0] == "module" {
			a.module = strings.Trim(f[1], `"`)
		}
	}
	if a.module == "" {
		effDie("no module line in go.mod")
	}
	a.ext = importer.ForCompiler(a.fset, "source", nil)
	var dirs []string
	err = filepath.WalkDir(".", func(path string, d os.DirEntry, err error) error {
		if err != nil {
			return err
		}
		if !d.IsDir() || path == "." {
			return nil
		}
		n := d.Name()
		if strings.HasPrefix(n, ".") || strings.HasPrefix(n, "_") || n == "testdata" || n == "vendor" || path == "tools" {
			return filepath.SkipDir
		}
		if _, err := os.Stat(filepath.Join(path, "go.mod")); err == nil {
			return filepath.SkipDir // another module
		}
		if len(effGoFiles(path)) > 0 {
			dirs = append(dirs, filepath.ToSlash(path))
		}
		return nil
	})
	if err != nil {
		effDie("%v", err)
	}
	sort.Strings(dirs)
	for _, d := range dirs {
		a.load(a.module+"/"+d, d)
	}
	if len(a.typeErr) > 0 {
		effDie("type errors while loading the packages (the analysis could not resolve something): %s", strings.Join(a.typeErr, " | "))
	}
	a.collect()
	for round := 0; ; round++ {
		if round > 200 {
			effDie("no fixed point of the function summaries")
		}
		a.changed = false
		for _, fn := range a.flist {
			a.analyse(fn)
		}
		if !a.changed {
			break
		}
	}
	return a
}
