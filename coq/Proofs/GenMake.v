(* C01 stage "legality filter": MakeMove's effect on the placement is the specification's
   [place_after] for every pseudo-legal move of a valid position, and the engine's InCheck after the
   move is the specification's [in_check_spec] on that placement.

   Method: a board is described by the function [who (abs b)] (square -> occupant).  addPiece on an
   empty square and removePiece of a present piece are single-point updates of that function and
   preserve the placement invariant [PRep]; MakeMove is a chain of such updates, [place_after] is a
   chain of list updates; both are compared square by square. *)
From Coq Require Import NArith ZArith List Bool Lia.
From Chess3 Require Import Base.Bits Model.Types Spec.Geometry Model.Att Model.BoardDef Model.Board
  Model.Movegen Spec.Chess Spec.Rep Proofs.GenBase Proofs.GenRep Proofs.GenPieces.
From Chess3 Require Proofs.AttackedSpec.
Import ListNotations.
Open Scope N_scope.

(* ------------------------------------------------------------------------------------------ *)
(* list updates *)

Lemma upd_length {A} (l : list A) : forall i x, length (upd l i x) = length l.
Proof.
  induction l as [|h t IH]; intros i x; cbn [upd length]; [reflexivity|].
  destruct i; cbn [length]; [reflexivity|]. rewrite IH. reflexivity.
Qed.

Lemma nth_upd_eq {A} (l : list A) : forall i x d, (i < length l)%nat -> nth i (upd l i x) d = x.
Proof.
  induction l as [|h t IH]; intros i x d H; cbn [length] in H; [lia|].
  destruct i; cbn [upd nth]; [reflexivity|]. apply IH. lia.
Qed.

Lemma nth_upd_ne {A} (l : list A) : forall i j x d, i <> j -> nth j (upd l i x) d = nth j l d.
Proof.
  induction l as [|h t IH]; intros i j x d H; cbn [upd]; [reflexivity|].
  destruct i, j; cbn [nth]; try reflexivity; [congruence|]. apply IH. congruence.
Qed.

Lemma in_upd {A} (l : list A) : forall i x y, In y (upd l i x) -> y = x \/ In y l.
Proof.
  induction l as [|h t IH]; intros i x y H; cbn [upd] in H; [destruct H|].
  destruct i; cbn [In] in *.
  - destruct H as [H|H]; [left; congruence|right; right; exact H].
  - destruct H as [H|H]; [right; left; exact H|]. apply IH in H. tauto.
Qed.

Lemma updN_length {A} (l : list A) i x : length (updN l i x) = length l.
Proof. apply upd_length. Qed.

Lemma nthN_updN {A} (l : list A) i j x d : (N.to_nat i < length l)%nat ->
  nthN (updN l i x) j d = if j =? i then x else nthN l j d.
Proof.
  intros H. unfold nthN, updN. destruct (N.eqb_spec j i) as [->|Hn].
  - apply nth_upd_eq. exact H.
  - apply nth_upd_ne. intros E. apply N2Nat.inj in E. congruence.
Qed.

(* point update of a function on squares *)
Definition fupd {A} (f : N -> A) (i : N) (x : A) : N -> A := fun s => if s =? i then x else f s.

(* a 64-element list seen as a function *)
Definition Lf (l : list (option (color * N))) (g : N -> option (color * N)) : Prop :=
  length l = 64%nat /\ forall s, nthN l s None = g s.

Lemma Lf_put l g i x : Lf l g -> i < 64 -> Lf (put l i x) (fupd g i x).
Proof.
  intros [HL Hg] Hi. split; [unfold put; rewrite updN_length; exact HL|].
  intros s. unfold put, fupd. rewrite nthN_updN by (rewrite HL; lia). rewrite Hg. reflexivity.
Qed.

Lemma Lf_ext l g g' : Lf l g -> (forall s, g s = g' s) -> Lf l g'.
Proof. intros [HL Hg] E. split; [exact HL|]. intros s. rewrite Hg. apply E. Qed.

Lemma Lf_inj l l' g : Lf l g -> Lf l' g -> l = l'.
Proof.
  intros [HL Hg] [HL' Hg']. apply (nth_ext l l' None None); [congruence|].
  intros n _. pose proof (Hg (N.of_nat n)) as A. pose proof (Hg' (N.of_nat n)) as B.
  unfold nthN in A, B. rewrite Nat2N.id in A, B. congruence.
Qed.

Lemma squares64_length : length squares64 = 64%nat.
Proof. reflexivity. Qed.

Lemma Lf_abs b : Lf (at_ (abs b)) (who (abs b)).
Proof.
  split; [|intros s; reflexivity].
  unfold abs. cbn [at_]. rewrite map_length. apply squares64_length.
Qed.

(* ------------------------------------------------------------------------------------------ *)
(* 64-bit words *)

Lemma bor_w64 x y : w64p x -> w64p y -> w64p (bor x y).
Proof.
  intros Hx Hy. apply testbit_lt_two64. intros i Hi.
  rewrite bor_tb, (w64p_high x i Hx Hi), (w64p_high y i Hy Hi). reflexivity.
Qed.

Lemma bandn_w64 x y : w64p x -> w64p (bandn x y).
Proof.
  intros Hx. apply testbit_lt_two64. intros i Hi. rewrite bandn_tb, (w64p_high x i Hx Hi). reflexivity.
Qed.

(* ------------------------------------------------------------------------------------------ *)
(* the placement invariant from its parts *)

Lemma sq_ok_intro b s :
  piece_at b s <= 6 ->
  (forall p, 1 <= p <= 6 -> N.testbit (pieces b p) s = (piece_at b s =? p)) ->
  N.testbit (colors b White) s || N.testbit (colors b Black) s = negb (piece_at b s =? 0) ->
  N.testbit (colors b White) s && N.testbit (colors b Black) s = false ->
  sq_ok b s = true.
Proof.
  intros H1 H2 H3 H4. unfold sq_ok. cbv zeta.
  rewrite H3, H4. cbn [forallb]. rewrite !H2 by lia.
  apply N.leb_le in H1. rewrite H1, !eqb_reflx. reflexivity.
Qed.

Lemma PRep_intro b :
  length (sq2p b) = 64%nat -> length (pcs b) = 7%nat -> length (cols b) = 2%nat -> pieces b 0 = 0 ->
  (forall x, In x (pcs b) -> x < two64) -> (forall x, In x (cols b) -> x < two64) ->
  (forall s, s < 64 -> sq_ok b s = true) -> PRep b.
Proof.
  intros H1 H2 H3 H4 H5 H6 H7. unfold PRep, prep_ok.
  rewrite H1, H2, H3, H4. cbn [Nat.eqb N.eqb andb].
  assert (A : forallb (fun x => x <? two64) (pcs b) = true).
  { apply forallb_forall. intros x Hx. apply N.ltb_lt. apply H5. exact Hx. }
  assert (B : forallb (fun x => x <? two64) (cols b) = true).
  { apply forallb_forall. intros x Hx. apply N.ltb_lt. apply H6. exact Hx. }
  assert (C : forallb (sq_ok b) squares64 = true).
  { apply forallb_forall. intros x Hx. apply H7. apply in_squares64. exact Hx. }
  rewrite A, B, C. reflexivity.
Qed.

Definition kind_of (o : option (color * N)) : N := match o with Some (_, k) => k | None => 0 end.
Definition col_is (o : option (color * N)) (c : color) : bool :=
  match o with Some (c', _) => color_eqb c c' | None => false end.

Lemma who_kind b s : PRep b -> s < 64 -> piece_at b s = kind_of (who (abs b) s).
Proof.
  intros HR Hs. rewrite who_abs. apply N.ltb_lt in Hs. rewrite Hs.
  destruct (N.eqb_spec (piece_at b s) 0) as [E|E]; [exact E|reflexivity].
Qed.

Lemma who_col b s c : PRep b -> s < 64 -> N.testbit (colors b c) s = col_is (who (abs b) s) c.
Proof.
  intros HR Hs. rewrite <- (owned_abs b HR). unfold owned_by, col_is.
  destruct (who (abs b) s) as [[c' k]|]; reflexivity.
Qed.

(* [b'] is [b] with the content of one square replaced *)
Lemma set_square b b' sq (o : option (color * N)) :
  PRep b -> sq < 64 ->
  length (sq2p b') = 64%nat -> length (pcs b') = 7%nat -> length (cols b') = 2%nat -> pieces b' 0 = 0 ->
  (forall x, In x (pcs b') -> x < two64) -> (forall x, In x (cols b') -> x < two64) ->
  match o with Some (_, p) => 1 <= p <= 6 | None => True end ->
  (forall s, s < 64 -> piece_at b' s = if s =? sq then kind_of o else piece_at b s) ->
  (forall q s, 1 <= q <= 6 -> s < 64 ->
     N.testbit (pieces b' q) s = if s =? sq then (kind_of o =? q) else N.testbit (pieces b q) s) ->
  (forall c s, s < 64 ->
     N.testbit (colors b' c) s = if s =? sq then col_is o c else N.testbit (colors b c) s) ->
  PRep b' /\ forall s, who (abs b') s = fupd (who (abs b)) sq o s.
Proof.
  intros HR Hsq L1 L2 L3 P0 W1 W2 Ho HP HQ HC.
  assert (HR' : PRep b').
  { apply PRep_intro; try assumption. intros s Hs.
    destruct (sq_view b HR s Hs) as [V1 [V2 V3]].
    apply sq_ok_intro.
    - rewrite HP by exact Hs. destruct (N.eqb_spec s sq); [|exact V1].
      destruct o as [[c p]|]; cbn [kind_of]; lia.
    - intros p Hp. rewrite HQ, HP by assumption. destruct (N.eqb_spec s sq); [reflexivity|apply V2; exact Hp].
    - rewrite !HC, HP by exact Hs. destruct (N.eqb_spec s sq).
      + destruct o as [[c p]|]; cbn [col_is kind_of]; [|reflexivity].
        destruct (N.eqb_spec p 0); [lia|]. destruct c; reflexivity.
      + destruct V3 as [[A [B C]]|[[A [B C]]|[A [B C]]]]; rewrite B, C;
          [rewrite A; reflexivity|apply N.eqb_neq in A; rewrite A; reflexivity|apply N.eqb_neq in A; rewrite A; reflexivity].
    - rewrite !HC by exact Hs. destruct (N.eqb_spec s sq).
      + destruct o as [[c p]|]; cbn [col_is]; [destruct c|]; reflexivity.
      + destruct V3 as [[A [B C]]|[[A [B C]]|[A [B C]]]]; rewrite B, C; reflexivity. }
  split; [exact HR'|]. intros s. unfold fupd.
  destruct (N.lt_ge_cases s 64) as [Hs|Hs].
  - rewrite (who_abs b'). pose proof Hs as Hs'. apply N.ltb_lt in Hs'. rewrite Hs'.
    rewrite HP, HC by exact Hs. destruct (N.eqb_spec s sq) as [->|Hn].
    + destruct o as [[c p]|]; cbn [kind_of col_is]; [|reflexivity].
      destruct (N.eqb_spec p 0); [lia|]. destruct c; reflexivity.
    + rewrite who_abs, Hs'. reflexivity.
  - rewrite !who_abs. assert (E : (s <? 64) = false) by (apply N.ltb_ge; exact Hs). rewrite E.
    destruct (N.eqb_spec s sq); [lia|reflexivity].
Qed.

Lemma color_eqb_flip' c : color_eqb (flip c) c = false.
Proof. destruct c; reflexivity. Qed.

Lemma colors_upd b c c' v : length (cols b) = 2%nat ->
  nthN (updN (cols b) (cix c) v) (cix c') 0 = if color_eqb c' c then v else colors b c'.
Proof.
  intros L. unfold colors. destruct (cols b) as [|x [|y [|? ?]]]; try discriminate L.
  destruct c, c'; reflexivity.
Qed.

(* the three arrays updated at one square, as addPiece / removePiece do *)
Lemma upd_board b b' sq c p vp vc (o : option (color * N)) :
  PRep b -> sq < 64 -> 1 <= p <= 6 ->
  sq2p b' = updN (sq2p b) sq (kind_of o) -> pcs b' = updN (pcs b) p vp -> cols b' = updN (cols b) (cix c) vc ->
  w64p vp -> w64p vc ->
  match o with Some (_, p') => 1 <= p' <= 6 | None => True end ->
  (forall s, s < 64 -> N.testbit vp s = if s =? sq then (kind_of o =? p) else N.testbit (pieces b p) s) ->
  (forall s, s < 64 -> N.testbit vc s = if s =? sq then col_is o c else N.testbit (colors b c) s) ->
  (forall q, 1 <= q <= 6 -> q <> p -> N.testbit (pieces b q) sq = (kind_of o =? q)) ->
  N.testbit (colors b (flip c)) sq = col_is o (flip c) ->
  PRep b' /\ forall s, who (abs b') s = fupd (who (abs b)) sq o s.
Proof.
  intros HR Hsq Hp E1 E2 E3 Wp Wc Ho Tp Tc Oq Oc.
  destruct (prep_split b HR) as [L1 [L2 [L3 [P0 [W1 [W2 _]]]]]].
  apply set_square; try assumption.
  - rewrite E1. rewrite updN_length. exact L1.
  - rewrite E2. rewrite updN_length. exact L2.
  - rewrite E3. rewrite updN_length. exact L3.
  - unfold pieces. rewrite E2. rewrite nthN_updN by (rewrite L2; lia).
    destruct (N.eqb_spec 0 p); [lia|]. exact P0.
  - intros x Hx. rewrite E2 in Hx. apply in_upd in Hx. destruct Hx as [->|Hx]; [exact Wp|apply W1; exact Hx].
  - intros x Hx. rewrite E3 in Hx. apply in_upd in Hx. destruct Hx as [->|Hx]; [exact Wc|apply W2; exact Hx].
  - intros s Hs. unfold piece_at. rewrite E1. apply nthN_updN. rewrite L1. lia.
  - intros q s Hq Hs. unfold pieces at 1. rewrite E2. rewrite nthN_updN by (rewrite L2; lia).
    destruct (N.eqb_spec q p) as [->|Hn]; [apply Tp; exact Hs|].
    fold (pieces b q). destruct (N.eqb_spec s sq) as [->|Hn']; [apply Oq; assumption|reflexivity].
  - intros c' s Hs. unfold colors at 1. rewrite E3. rewrite colors_upd by exact L3.
    destruct (color_eqb c' c) eqn:Ec.
    + apply color_eqb_true in Ec. subst c'. apply Tc. exact Hs.
    + assert (c' = flip c) by (destruct c, c'; cbn in Ec; try discriminate; reflexivity). subst c'.
      destruct (N.eqb_spec s sq) as [->|Hn']; [exact Oc|reflexivity].
Qed.

(* the placement of a board as a function: invariant plus content *)
Definition Pw (b : board) (f : N -> option (color * N)) : Prop :=
  PRep b /\ forall s, who (abs b) s = f s.

Lemma Pw_same a a' f : sq2p a = sq2p a' -> pcs a = pcs a' -> cols a = cols a' -> Pw a f -> Pw a' f.
Proof.
  destruct a as [a1 a2 a3 a4 a5 a6 a7 a8 a9], a' as [b1 b2 b3 b4 b5 b6 b7 b8 b9].
  cbn [sq2p pcs cols]. intros -> -> -> H. exact H.
Qed.

Lemma Pw_ext b f g : Pw b f -> (forall s, f s = g s) -> Pw b g.
Proof. intros [A B] E. split; [exact A|]. intros s. rewrite B. apply E. Qed.

Lemma Pw_self b : PRep b -> Pw b (who (abs b)).
Proof. intros H. split; [exact H|reflexivity]. Qed.

Lemma add_ok z b f c p sq : Pw b f -> sq < 64 -> 1 <= p <= 6 -> f sq = None ->
  Pw (fst (add_piece z b c p sq)) (fupd f sq (Some (c, p))).
Proof.
  intros [HR Hf] Hsq Hp Hn. unfold add_piece. unfold NoPiece.
  destruct (N.eqb_spec p 0) as [E|E]; [lia|]. cbv zeta. cbn [fst].
  rewrite <- Hf in Hn.
  assert (K : piece_at b sq = 0) by (rewrite (who_kind b sq HR Hsq), Hn; reflexivity).
  assert (C : forall c', N.testbit (colors b c') sq = false) by (intros c'; rewrite (who_col b sq c' HR Hsq), Hn; reflexivity).
  match goal with |- Pw ?b' _ =>
    destruct (upd_board b b' sq c p (bor (pieces b p) (bit sq)) (bor (colors b c) (bit sq)) (Some (c, p)))
      as [R W]; try assumption; try reflexivity end.
  - apply bor_w64; [apply pieces_w64; exact HR|apply bit_lt; exact Hsq].
  - apply bor_w64; [apply colors_w64; exact HR|apply bit_lt; exact Hsq].
  - intros s Hs. rewrite bor_tb, bit_testbit. cbn [kind_of]. rewrite N.eqb_refl, (N.eqb_sym sq s).
    destruct (N.eqb_spec s sq); [apply orb_true_r|apply orb_false_r].
  - intros s Hs. rewrite bor_tb, bit_testbit. cbn [col_is]. rewrite color_eqb_refl', (N.eqb_sym sq s).
    destruct (N.eqb_spec s sq); [apply orb_true_r|apply orb_false_r].
  - intros q Hq Hne. rewrite (pieces_tb b HR sq q Hsq Hq), K. cbn [kind_of].
    destruct (N.eqb_spec 0 q); [lia|]. destruct (N.eqb_spec p q); [congruence|reflexivity].
  - rewrite C. cbn [col_is]. symmetry. apply color_eqb_flip'.
  - split; [exact R|]. intros s. rewrite W. unfold fupd. rewrite Hf. reflexivity.
Qed.

Lemma rm_ok z b f c p sq : Pw b f -> sq < 64 -> ((p = 0 /\ f sq = None) \/ f sq = Some (c, p)) ->
  Pw (fst (remove_piece z b c p sq)) (fupd f sq None).
Proof.
  intros [HR Hf] Hsq Hc. unfold remove_piece. unfold NoPiece.
  destruct (N.eqb_spec p 0) as [E|E].
  - cbn [fst]. split; [exact HR|]. intros s. rewrite Hf. unfold fupd.
    destruct (N.eqb_spec s sq) as [->|]; [|reflexivity].
    destruct Hc as [[_ H]|H]; [exact H|]. rewrite <- Hf in H. apply (who_piece_range b HR) in H. lia.
  - destruct Hc as [[H _]|Hc]; [contradiction|]. cbv zeta. cbn [fst].
    rewrite <- Hf in Hc. pose proof (who_piece_range b HR _ _ _ Hc) as [_ Hp].
    assert (K : piece_at b sq = p) by (rewrite (who_kind b sq HR Hsq), Hc; reflexivity).
    assert (C : forall c', N.testbit (colors b c') sq = color_eqb c' c) by (intros c'; rewrite (who_col b sq c' HR Hsq), Hc; reflexivity).
    match goal with |- Pw ?b' _ =>
      destruct (upd_board b b' sq c p (bandn (pieces b p) (bit sq)) (bandn (colors b c) (bit sq)) None)
        as [R W]; try assumption; try reflexivity end.
    + apply bandn_w64. apply pieces_w64. exact HR.
    + apply bandn_w64. apply colors_w64. exact HR.
    + intros s Hs. rewrite bandn_tb, bit_testbit. cbn [kind_of]. rewrite (N.eqb_sym sq s).
      destruct (N.eqb_spec s sq); [rewrite andb_false_r; destruct (N.eqb_spec 0 p); [lia|reflexivity]|apply andb_true_r].
    + intros s Hs. rewrite bandn_tb, bit_testbit. cbn [col_is]. rewrite (N.eqb_sym sq s).
      destruct (N.eqb_spec s sq); [apply andb_false_r|apply andb_true_r].
    + intros q Hq Hne. rewrite (pieces_tb b HR sq q Hsq Hq), K. cbn [kind_of].
      destruct (N.eqb_spec 0 q); [lia|]. destruct (N.eqb_spec p q); [congruence|reflexivity].
    + rewrite C. cbn [col_is]. apply color_eqb_flip'.
    + split; [exact R|]. intros s. rewrite W. unfold fupd. rewrite Hf. reflexivity.
Qed.

(* ------------------------------------------------------------------------------------------ *)
(* MakeMove as a chain of point updates *)

Definition mk_put (b : board) (m : N) : N :=
  if negb (mv_promo m =? NoPiece) then mv_promo m else piece_at b (mv_from m).
Definition rook_to (from : N) (long : bool) : N := if long then from - 1 else from + 1.
Definition king_to (from : N) (long : bool) : N := if long then from - 2 else from + 2.

(* what the proof needs to know about a pseudo-legal move of a valid position *)
Record shape (b : board) (m : N) : Prop := mkShape {
  sh_from : who (abs b) (mv_from m) = Some (stm b, piece_at b (mv_from m));
  sh_cap : who (abs b) (capture_sq b m) = None \/
           exists k', who (abs b) (capture_sq b m) = Some (flip (stm b), k');
  sh_to : capture_sq b m = mv_to m \/ who (abs b) (mv_to m) = None;
  sh_to_from : mv_to m <> mv_from m;
  sh_ep : is_en_passant b m = true -> capture_sq b m <> mv_to m;
  sh_promo : mv_promo m = 0 \/ (piece_at b (mv_from m) = Pawn /\ 2 <= mv_promo m <= 5);
  sh_king : piece_at b (mv_from m) = King ->
    is_en_passant b m = false /\
    ((mv_to m <> mv_from m + 2 /\ mv_to m + 2 <> mv_from m /\ castle_rook (mv_from m) (mv_to m) = None) \/
     exists long, mv_from m = king_home (stm b) /\ mv_to m = king_to (mv_from m) long /\
       who (abs b) (rook_home (stm b) long) = Some (stm b, Rook) /\
       who (abs b) (rook_to (mv_from m) long) = None)
}.

Definition eng3 (b : board) (m : N) : N -> option (color * N) :=
  fupd (fupd (fupd (who (abs b)) (capture_sq b m) None) (mv_from m) None) (mv_to m) (Some (stm b, mk_put b m)).
Definition eng_fun (b : board) (m : N) : N -> option (color * N) :=
  if piece_at b (mv_from m) =? King then
    match castle_rook (mv_from m) (mv_to m) with
    | Some (rf, rt) => fupd (fupd (eng3 b m) rf None) rt (Some (stm b, Rook))
    | None => eng3 b m
    end
  else eng3 b m.

Lemma capture_sq_all :
  forallb (fun a => forallb (fun t =>
    (N.lor (N.land t 7) (N.land a 56) <? 64) && (N.lor (N.land t 7) (N.land a 56) =? sqfr (file_n t) (rank_n a)))
    squares64) squares64 = true.
Proof. vm_compute. reflexivity. Qed.

Lemma capture_sq_lt b m : capture_sq b m < 64.
Proof.
  unfold capture_sq. destruct (is_en_passant b m); [|apply mv_to_lt].
  pose proof (all64_2 _ capture_sq_all (mv_from m) (mv_to m) (mv_from_lt m) (mv_to_lt m)) as H.
  cbv beta in H. apply andb_true_iff in H. destruct H as [H _]. apply N.ltb_lt in H. exact H.
Qed.

Lemma capture_sq_ep b m : is_en_passant b m = true ->
  capture_sq b m = sqfr (file_n (mv_to m)) (rank_n (mv_from m)).
Proof.
  intros E. unfold capture_sq. rewrite E.
  pose proof (all64_2 _ capture_sq_all (mv_from m) (mv_to m) (mv_from_lt m) (mv_to_lt m)) as H.
  cbv beta in H. apply andb_true_iff in H. destruct H as [_ H]. apply N.eqb_eq in H. exact H.
Qed.

Lemma capture_sq_noep b m : is_en_passant b m = false -> capture_sq b m = mv_to m.
Proof. intros E. unfold capture_sq. rewrite E. reflexivity. Qed.

Lemma castle_geom c long :
  let k := king_home c in
  castle_rook k (king_to k long) = Some (rook_home c long, rook_to k long) /\
  k < 64 /\ king_to k long < 64 /\ rook_home c long < 64 /\ rook_to k long < 64 /\
  rook_home c long <> k /\ rook_home c long <> king_to k long /\ rook_to k long <> k /\
  rook_to k long <> king_to k long /\ rook_home c long <> rook_to k long /\
  In (rook_to k long) (between k (rook_home c long)) /\
  (if long then king_to k long + 2 = k /\ king_to k long <> k + 2 /\ rook_home c long = k - 4
   else king_to k long = k + 2 /\ rook_home c long = k + 3).
Proof.
  destruct c, long; vm_compute; repeat split; try discriminate; try reflexivity; tauto.
Qed.

Lemma shape_csq_from b m : PRep b -> shape b m -> capture_sq b m <> mv_from m.
Proof.
  intros HR S E. destruct (sh_cap b m S) as [H|[k' H]]; rewrite E, (sh_from b m S) in H; [discriminate|].
  injection H as H _. destruct (stm b); discriminate.
Qed.

Lemma shape_put b m : PRep b -> shape b m -> 1 <= mk_put b m <= 6.
Proof.
  intros HR S. pose proof (who_piece_range b HR _ _ _ (sh_from b m S)) as [_ Hk].
  unfold mk_put, NoPiece. destruct (sh_promo b m S) as [->|[_ H]]; [exact Hk|].
  destruct (N.eqb_spec (mv_promo m) 0); cbn [negb]; lia.
Qed.

Lemma make_Pw z b m : PRep b -> shape b m -> Pw (fst (make z b m)) (eng_fun b m).
Proof.
  intros HR S. unfold make, make_l. cbv zeta.
  match goal with |- context [remove_piece z ?x (flip (stm b)) _ _] => set (b0 := x) end.
  assert (P0 : Pw b0 (who (abs b))) by (apply (Pw_same b); try reflexivity; apply Pw_self; exact HR).
  clearbody b0.
  pose proof (capture_sq_lt b m) as Lc. pose proof (mv_from_lt m) as Lf'. pose proof (mv_to_lt m) as Lt.
  pose proof (shape_csq_from b m HR S) as Ncf.
  (* remove the captured piece *)
  destruct (remove_piece z b0 (flip (stm b)) (piece_at b (capture_sq b m)) (capture_sq b m)) as [b1 h1] eqn:E1.
  assert (P1 : Pw b1 (fupd (who (abs b)) (capture_sq b m) None)).
  { replace b1 with (fst (remove_piece z b0 (flip (stm b)) (piece_at b (capture_sq b m)) (capture_sq b m))) by (rewrite E1; reflexivity).
    apply rm_ok; [exact P0|exact Lc|].
    rewrite (who_kind b _ HR Lc). destruct (sh_cap b m S) as [H|[k' H]]; rewrite H; cbn [kind_of]; auto. }
  clear E1.
  (* remove the moving piece *)
  destruct (remove_piece z b1 (stm b) (piece_at b (mv_from m)) (mv_from m)) as [b2 h2] eqn:E2.
  assert (P2 : Pw b2 (fupd (fupd (who (abs b)) (capture_sq b m) None) (mv_from m) None)).
  { replace b2 with (fst (remove_piece z b1 (stm b) (piece_at b (mv_from m)) (mv_from m))) by (rewrite E2; reflexivity).
    apply rm_ok; [exact P1|exact Lf'|]. right. unfold fupd.
    destruct (N.eqb_spec (mv_from m) (capture_sq b m)) as [E|_]; [congruence|]. apply (sh_from b m S). }
  clear E2.
  (* put it on the target square *)
  fold (mk_put b m).
  destruct (add_piece z b2 (stm b) (mk_put b m) (mv_to m)) as [b3 h3] eqn:E3.
  assert (P3 : Pw b3 (eng3 b m)).
  { replace b3 with (fst (add_piece z b2 (stm b) (mk_put b m) (mv_to m))) by (rewrite E3; reflexivity).
    apply add_ok; [exact P2|exact Lt|apply shape_put; assumption|]. unfold fupd.
    destruct (N.eqb_spec (mv_to m) (mv_from m)) as [_|_]; [reflexivity|].
    destruct (N.eqb_spec (mv_to m) (capture_sq b m)) as [_|Hn]; [reflexivity|].
    destruct (sh_to b m S) as [H|H]; [congruence|exact H]. }
  clear E3.
  match goal with |- context [set_ep b3 ?e] => generalize e; intros nep end.
  assert (P4 : Pw (set_ep b3 nep) (eng3 b m)) by (apply (Pw_same b3); try reflexivity; exact P3).
  unfold eng_fun.
  destruct (N.eqb_spec (piece_at b (mv_from m)) King) as [EK|EK].
  - destruct (sh_king b m S EK) as [_ [[_ [_ CR]]|[long [Hfrom [Hto [Hr Hrt]]]]]].
    + rewrite CR. cbn [fst]. apply (Pw_same (set_ep b3 nep)); try reflexivity. exact P4.
    + destruct (castle_geom (stm b) long) as [G1 [G2 [G3 [G4 [G5 [G6 [G7 [G8 [G9 [G10 _]]]]]]]]]].
      cbv zeta in G1, G2, G3, G4, G5, G6, G7, G8, G9, G10.
      rewrite <- Hfrom in G1, G2, G3, G5, G6, G7, G8, G9, G10. rewrite <- Hto in G1, G3, G7, G9.
      rewrite G1.
      set (rf := rook_home (stm b) long) in *. set (rt := rook_to (mv_from m) long) in *.
      assert (Ncr : capture_sq b m = mv_to m).
      { apply capture_sq_noep. apply (sh_king b m S EK). }
      destruct (remove_piece z (set_ep b3 nep) (stm b) Rook rf) as [c1 g1] eqn:E5.
      assert (P5 : Pw c1 (fupd (eng3 b m) rf None)).
      { replace c1 with (fst (remove_piece z (set_ep b3 nep) (stm b) Rook rf)) by (rewrite E5; reflexivity).
        apply rm_ok; [exact P4|exact G4|]. right. unfold eng3, fupd. rewrite Ncr.
        destruct (N.eqb_spec rf (mv_to m)); [congruence|]. destruct (N.eqb_spec rf (mv_from m)); [congruence|]. exact Hr. }
      clear E5.
      destruct (add_piece z c1 (stm b) Rook rt) as [c2 g2] eqn:E6.
      assert (P6 : Pw c2 (fupd (fupd (eng3 b m) rf None) rt (Some (stm b, Rook)))).
      { replace c2 with (fst (add_piece z c1 (stm b) Rook rt)) by (rewrite E6; reflexivity).
        apply add_ok; [exact P5|exact G5|unfold Rook; lia|]. unfold eng3, fupd. rewrite Ncr.
        destruct (N.eqb_spec rt rf); [reflexivity|].
        destruct (N.eqb_spec rt (mv_to m)); [congruence|]. destruct (N.eqb_spec rt (mv_from m)); [congruence|]. exact Hrt. }
      clear E6. cbn [fst]. apply (Pw_same c2); try reflexivity. exact P6.
  - cbn [fst]. apply (Pw_same (set_ep b3 nep)); try reflexivity. exact P4.
Qed.

(* ------------------------------------------------------------------------------------------ *)
(* the specification's placement after the move, as the same chain of updates *)

Lemma is_ep_agree b m : shape b m -> is_ep_capture (abs b) m = is_en_passant b m.
Proof.
  intros S. unfold is_ep_capture, is_en_passant, holds.
  change (turn (abs b)) with (stm b). change (epsq (abs b)) with (if ep b =? 0 then None else Some (ep b)).
  rewrite (sh_from b m S), color_eqb_refl'. cbn [andb].
  rewrite (N.eqb_sym Pawn). destruct (ep b =? 0); cbn [negb andb]; [apply andb_false_r|apply andb_comm].
Qed.

Lemma is_castling_agree b m : shape b m ->
  is_castling (abs b) m =
  (piece_at b (mv_from m) =? King) && ((mv_to m =? mv_from m + 2) || (mv_to m + 2 =? mv_from m)).
Proof.
  intros S. unfold is_castling, holds. change (turn (abs b)) with (stm b).
  rewrite (sh_from b m S), color_eqb_refl'. cbn [andb]. rewrite (N.eqb_sym King). reflexivity.
Qed.

Lemma mk_put_alt b m :
  (if mv_promo m =? 0 then piece_at b (mv_from m) else mv_promo m) = mk_put b m.
Proof. unfold mk_put, NoPiece. destruct (mv_promo m =? 0); reflexivity. Qed.

Lemma eng3_spec b m : PRep b -> shape b m -> forall s,
  (if is_en_passant b m
   then fupd (fupd (fupd (who (abs b)) (mv_from m) None) (mv_to m) (Some (stm b, mk_put b m))) (capture_sq b m) None
   else fupd (fupd (who (abs b)) (mv_from m) None) (mv_to m) (Some (stm b, mk_put b m))) s = eng3 b m s.
Proof.
  intros HR S s. unfold eng3. pose proof (shape_csq_from b m HR S) as Ncf.
  destruct (is_en_passant b m) eqn:E.
  - pose proof (sh_ep b m S E) as Nct. unfold fupd.
    destruct (N.eqb_spec s (capture_sq b m)), (N.eqb_spec s (mv_to m)), (N.eqb_spec s (mv_from m)); try reflexivity; congruence.
  - rewrite (capture_sq_noep b m E). unfold fupd.
    destruct (N.eqb_spec s (mv_to m)), (N.eqb_spec s (mv_from m)); reflexivity.
Qed.

Lemma place_Lf b m : PRep b -> shape b m -> Lf (place_after (abs b) m) (eng_fun b m).
Proof.
  intros HR S. unfold place_after. cbv zeta.
  rewrite (is_ep_agree b m S), (is_castling_agree b m S), (sh_from b m S).
  change (turn (abs b)) with (stm b). cbv beta iota. rewrite mk_put_alt.
  pose proof (capture_sq_lt b m) as Lc. pose proof (mv_from_lt m) as Lf'. pose proof (mv_to_lt m) as Lt.
  pose proof (Lf_put _ _ (mv_to m) (Some (stm b, mk_put b m)) (Lf_put _ _ (mv_from m) None (Lf_abs b) Lf') Lt) as L2.
  set (l2 := put (put (at_ (abs b)) (mv_from m) None) (mv_to m) (Some (stm b, mk_put b m))) in *.
  assert (L3 : Lf (if is_en_passant b m then put l2 (sqfr (file_n (mv_to m)) (rank_n (mv_from m))) None else l2) (eng3 b m)).
  { eapply Lf_ext; [|apply (eng3_spec b m HR S)].
    destruct (is_en_passant b m) eqn:E; [|exact L2].
    rewrite <- (capture_sq_ep b m E). apply Lf_put; [exact L2|exact Lc]. }
  set (l3 := if is_en_passant b m then put l2 (sqfr (file_n (mv_to m)) (rank_n (mv_from m))) None else l2) in *.
  clearbody l3. unfold eng_fun.
  destruct (N.eqb_spec (piece_at b (mv_from m)) King) as [EK|EK]; cbn [andb]; [|exact L3].
  destruct (sh_king b m S EK) as [_ [[N1 [N2 CR]]|[long [Hfrom [Hto [Hr Hrt]]]]]].
  - rewrite CR. apply N.eqb_neq in N1, N2. rewrite N1, N2. cbn [orb]. exact L3.
  - destruct (castle_geom (stm b) long) as [G1 [G2 [G3 [G4 [G5 [_ [_ [_ [_ [_ [_ G11]]]]]]]]]]].
    cbv zeta in G1, G2, G3, G4, G5, G11. rewrite <- Hfrom in G1, G2, G3, G5, G11. rewrite <- Hto in G1, G3, G11.
    rewrite G1. destruct long.
    + destruct G11 as [A [B C]]. apply N.eqb_neq in B. rewrite B. apply N.eqb_eq in A. rewrite A. cbn [orb].
      rewrite <- C. change (mv_from m - 1) with (rook_to (mv_from m) true).
      apply Lf_put; [apply Lf_put; [exact L3|exact G4]|exact G5].
    + destruct G11 as [A C]. apply N.eqb_eq in A. rewrite A. cbn [orb].
      rewrite <- C. change (mv_from m + 1) with (rook_to (mv_from m) false).
      apply Lf_put; [apply Lf_put; [exact L3|exact G4]|exact G5].
Qed.

(* ------------------------------------------------------------------------------------------ *)
(* every pseudo-legal move of a valid position has the shape *)

Lemma pseudo_from p m : pseudo_spec p m = true ->
  exists k, who p (mv_from m) = Some (turn p, k) /\ owned_by p (mv_to m) (turn p) = false.
Proof.
  unfold pseudo_spec. cbv zeta. destruct (who p (mv_from m)) as [[c' k]|]; [|discriminate].
  intros H. rewrite !andb_true_iff in H. destruct H as [[A B] _].
  apply color_eqb_true in A. subst c'. apply negb_true_iff in B. exists k. auto.
Qed.

Lemma not_owned p s c : owned_by p s c = false ->
  who p s = None \/ exists k', who p s = Some (flip c, k').
Proof.
  unfold owned_by. destruct (who p s) as [[c' k']|]; [|auto]. intros H. right. exists k'.
  destruct c, c'; cbn in H; try discriminate; reflexivity.
Qed.

Lemma owned_from p s c k : who p s = Some (c, k) -> owned_by p s c = true.
Proof. unfold owned_by. intros ->. apply color_eqb_refl'. Qed.

(* moves that are neither en passant nor (yet) known to be castling *)
Lemma shape_plain b m : PRep b ->
  who (abs b) (mv_from m) = Some (stm b, piece_at b (mv_from m)) ->
  owned_by (abs b) (mv_to m) (stm b) = false ->
  is_en_passant b m = false ->
  (mv_promo m = 0 \/ (piece_at b (mv_from m) = Pawn /\ 2 <= mv_promo m <= 5)) ->
  (piece_at b (mv_from m) = King ->
    ((mv_to m <> mv_from m + 2 /\ mv_to m + 2 <> mv_from m /\ castle_rook (mv_from m) (mv_to m) = None) \/
     exists long, mv_from m = king_home (stm b) /\ mv_to m = king_to (mv_from m) long /\
       who (abs b) (rook_home (stm b) long) = Some (stm b, Rook) /\
       who (abs b) (rook_to (mv_from m) long) = None)) ->
  shape b m.
Proof.
  intros HR Hw Ho E Hp Hk. pose proof (capture_sq_noep b m E) as C. constructor.
  - exact Hw.
  - rewrite C. apply not_owned. exact Ho.
  - left. exact C.
  - intros X. rewrite X, (owned_from _ _ _ _ Hw) in Ho. discriminate.
  - rewrite E. discriminate.
  - exact Hp.
  - intros K. split; [exact E|apply Hk; exact K].
Qed.

Lemma no_ep_unless_pawn b m : piece_at b (mv_from m) <> Pawn -> is_en_passant b m = false.
Proof. intros H. unfold is_en_passant. apply N.eqb_neq in H. rewrite H. apply andb_false_r. Qed.

Lemma shape_simple b m K : PRep b -> K = Knight \/ K = Bishop \/ K = Rook \/ K = Queen ->
  who (abs b) (mv_from m) = Some (stm b, K) -> piece_at b (mv_from m) = K ->
  pseudo_spec (abs b) m = true -> shape b m.
Proof.
  intros HR HK Hw Hpa HP. pose proof HP as HP'. apply (pseudo_simple b HR m K HK Hw) in HP'.
  destruct HP' as [A [B _]].
  assert (NP : K <> Pawn /\ K <> King) by (destruct HK as [->|[->|[->| ->]]]; split; discriminate).
  apply shape_plain; try assumption.
  - rewrite Hpa. exact Hw.
  - rewrite (owned_abs b HR). exact A.
  - apply no_ep_unless_pawn. rewrite Hpa. tauto.
  - left. exact B.
  - intros X. rewrite Hpa in X. tauto.
Qed.

Lemma king_step_all :
  forallb (fun a => forallb (fun t =>
    negb (N.testbit (king_attacks a) t) ||
    (negb (t =? a + 2) && negb (t + 2 =? a) && match castle_rook a t with None => true | Some _ => false end))
    squares64) squares64 = true.
Proof. vm_compute. reflexivity. Qed.

Lemma king_step a t : a < 64 -> t < 64 -> N.testbit (king_attacks a) t = true ->
  t <> a + 2 /\ t + 2 <> a /\ castle_rook a t = None.
Proof.
  intros Ha Ht H. pose proof (all64_2 _ king_step_all a t Ha Ht) as Q. cbv beta in Q.
  rewrite H in Q. cbn [negb orb] in Q. rewrite !andb_true_iff, !negb_true_iff, !N.eqb_neq in Q.
  destruct Q as [[A B] C]. split; [exact A|]. split; [exact B|].
  destruct (castle_rook a t); [discriminate|reflexivity].
Qed.

Lemma castle_ok_facts b long : castle_ok (abs b) long = true ->
  who (abs b) (rook_home (stm b) long) = Some (stm b, Rook) /\
  forall s, In s (between (king_home (stm b)) (rook_home (stm b) long)) -> who (abs b) s = None.
Proof.
  unfold castle_ok. cbv zeta. change (turn (abs b)) with (stm b). intros H.
  rewrite !andb_true_iff in H. destruct H as [[[[_ _] Hr] Hb] _]. split.
  - apply holds_iff. exact Hr.
  - intros s Hs. rewrite forallb_forall in Hb. specialize (Hb s Hs). unfold empty in Hb.
    destruct (who (abs b) s); [discriminate|reflexivity].
Qed.

Lemma shape_king b m : PRep b ->
  who (abs b) (mv_from m) = Some (stm b, King) -> piece_at b (mv_from m) = King ->
  pseudo_spec (abs b) m = true -> shape b m.
Proof.
  intros HR Hw Hpa HP. pose proof HP as HP'. apply (pseudo_king b HR m Hw) in HP'.
  destruct HP' as [A [B C]].
  apply shape_plain; try assumption.
  - rewrite Hpa. exact Hw.
  - rewrite (owned_abs b HR). exact A.
  - apply no_ep_unless_pawn. rewrite Hpa. discriminate.
  - left. exact B.
  - intros _. destruct C as [C|[Hf C]].
    + left. apply king_step; [apply mv_from_lt|apply mv_to_lt|exact C].
    + right.
      assert (D : exists long, mv_to m = king_to (mv_from m) long /\ castle_ok (abs b) long = true).
      { destruct C as [[C1 C2]|[C1 C2]]; [exists false|exists true]; (split; [|exact C2]); unfold king_to; lia. }
      destruct D as [long [D1 D2]]. exists long. split; [exact Hf|]. split; [exact D1|].
      destruct (castle_ok_facts b long D2) as [F1 F2]. split; [exact F1|]. apply F2.
      destruct (castle_geom (stm b) long) as [_ [_ [_ [_ [_ [_ [_ [_ [_ [_ [G _]]]]]]]]]]].
      cbv zeta in G. rewrite Hf. exact G.
Qed.

(* en passant: on a valid position a pawn move to the en-passant square is the diagonal capture, and
   the captured pawn stands where the engine looks for it *)
Definition ep_rank (c : color) : N := match c with White => 5 | Black => 2 end.

Lemma ep_geom_all c :
  forallb (fun a => forallb (fun t =>
    negb (N.testbit (pawn_attacks c a) t && (rank_n t =? ep_rank c)) ||
    (N.lor (N.land t 7) (N.land a 56) =? fwd (flip c) t)) squares64) squares64 = true.
Proof. destruct c; vm_compute; reflexivity. Qed.

Lemma ep_geom c a t : a < 64 -> t < 64 -> N.testbit (pawn_attacks c a) t = true -> rank_n t = ep_rank c ->
  N.lor (N.land t 7) (N.land a 56) = fwd (flip c) t.
Proof.
  intros Ha Ht H1 H2. pose proof (all64_2 _ (ep_geom_all c) a t Ha Ht) as Q. cbv beta in Q.
  rewrite H1, H2, N.eqb_refl in Q. cbn [negb andb orb] in Q. apply N.eqb_eq in Q. exact Q.
Qed.

Lemma double_rank_all c :
  forallb (fun s => negb (rank_n s =? second_rank c) || negb (rank_n (fwd c (fwd c s)) =? ep_rank c)) squares64 = true.
Proof. destruct c; vm_compute; reflexivity. Qed.

Lemma fwd_back c s : 8 <= s < 56 -> fwd (flip c) (fwd c s) = s.
Proof. intros H. destruct c; cbn [flip fwd]; lia. Qed.

Lemma flip_neq c : flip c <> c.
Proof. destruct c; discriminate. Qed.

Lemma promo_ok_facts (c : color) (to pr : N) :
  (if rank_n to =? last_rank c then is_promo_piece pr else pr =? 0) = true -> pr = 0 \/ 2 <= pr <= 5.
Proof.
  destruct (rank_n to =? last_rank c).
  - unfold is_promo_piece. rewrite !orb_true_iff, !N.eqb_eq. unfold Knight, Bishop, Rook, Queen. lia.
  - rewrite N.eqb_eq. auto.
Qed.

Lemma ep_capture_sq b m : PRep b -> valid (abs b) = true ->
  who (abs b) (mv_from m) = Some (stm b, Pawn) ->
  pseudo_spec (abs b) m = true -> is_en_passant b m = true ->
  who (abs b) (capture_sq b m) = Some (flip (stm b), Pawn) /\ who (abs b) (mv_to m) = None.
Proof.
  intros HR HV Hw HP E.
  unfold pseudo_spec in HP. cbv zeta in HP. rewrite Hw in HP. change (turn (abs b)) with (stm b) in HP.
  change (Pawn =? Pawn) with true in HP. cbv iota in HP.
  rewrite !andb_true_iff in HP. destruct HP as [_ [_ Hmv]].
  unfold capture_sq. rewrite E.
  unfold is_en_passant in E. rewrite !andb_true_iff in E. destruct E as [[E0 E1] _].
  apply negb_true_iff in E0. apply N.eqb_eq in E1.
  destruct (valid_split _ HV) as [_ [_ [_ [_ [_ [_ V]]]]]].
  unfold ep_ok in V. change (epsq (abs b)) with (if ep b =? 0 then None else Some (ep b)) in V.
  rewrite E0 in V. cbv beta iota zeta in V. change (turn (abs b)) with (stm b) in V. rewrite E1 in V.
  rewrite !andb_true_iff in V. destruct V as [[[[V1 V2] _] V4] _].
  fold (ep_rank (stm b)) in V1. apply N.eqb_eq in V1.
  assert (Hto : who (abs b) (mv_to m) = None).
  { unfold empty in V2. destruct (who (abs b) (mv_to m)); [discriminate|reflexivity]. }
  split; [|exact Hto].
  assert (Hf : 8 <= mv_from m < 56).
  { apply (valid_no_edge_pawn b (stm b)); try assumption. apply holds_iff. exact Hw. }
  apply holds_iff in V4.
  rewrite !orb_true_iff, !andb_true_iff in Hmv. destruct Hmv as [[S|D]|C].
  - exfalso. destruct S as [[S1 _] _]. apply N.eqb_eq in S1. rewrite S1, (fwd_back _ _ Hf), Hw in V4.
    injection V4 as V4. symmetry in V4. exact (flip_neq _ V4).
  - exfalso. destruct D as [[[D1 D2] _] _]. apply N.eqb_eq in D2.
    pose proof (all64 _ (double_rank_all (stm b)) (mv_from m) (mv_from_lt m)) as Q. cbv beta in Q.
    rewrite D1, <- D2, V1, N.eqb_refl in Q. discriminate.
  - destruct C as [C1 _]. unfold mem in C1.
    rewrite (ep_geom (stm b) (mv_from m) (mv_to m) (mv_from_lt m) (mv_to_lt m) C1 V1). exact V4.
Qed.

Lemma shape_pawn b m : PRep b -> valid (abs b) = true ->
  who (abs b) (mv_from m) = Some (stm b, Pawn) -> piece_at b (mv_from m) = Pawn ->
  owned_by (abs b) (mv_to m) (stm b) = false ->
  pseudo_spec (abs b) m = true -> shape b m.
Proof.
  intros HR HV Hw Hpa Ho HP.
  assert (Hpr : mv_promo m = 0 \/ (piece_at b (mv_from m) = Pawn /\ 2 <= mv_promo m <= 5)).
  { pose proof HP as HP'. unfold pseudo_spec in HP'. cbv zeta in HP'. rewrite Hw in HP'.
    change (Pawn =? Pawn) with true in HP'. cbv iota in HP'.
    rewrite !andb_true_iff in HP'. destruct HP' as [_ [H _]].
    apply promo_ok_facts in H. destruct H; [left|right]; tauto. }
  destruct (is_en_passant b m) eqn:E.
  - destruct (ep_capture_sq b m HR HV Hw HP E) as [Hc Ht]. constructor.
    + rewrite Hpa. exact Hw.
    + right. exists Pawn. exact Hc.
    + right. exact Ht.
    + intros X. rewrite X, Hw in Ht. discriminate.
    + intros _ X. rewrite X, Ht in Hc. discriminate.
    + exact Hpr.
    + intros K. rewrite Hpa in K. discriminate.
  - apply shape_plain; try assumption.
    + rewrite Hpa. exact Hw.
    + intros K. rewrite Hpa in K. discriminate.
Qed.

Lemma pseudo_shape b m : PRep b -> valid (abs b) = true -> pseudo_spec (abs b) m = true -> shape b m.
Proof.
  intros HR HV HP. destruct (pseudo_from _ _ HP) as [k [Hw Ho]].
  change (turn (abs b)) with (stm b) in Hw, Ho.
  pose proof (who_piece_range b HR _ _ _ Hw) as [Hf Hk].
  assert (Hpa : piece_at b (mv_from m) = k) by (rewrite (who_kind b _ HR Hf), Hw; reflexivity).
  assert (D : k = Pawn \/ k = King \/ (k = Knight \/ k = Bishop \/ k = Rook \/ k = Queen))
    by (unfold Pawn, King, Knight, Bishop, Rook, Queen; lia).
  destruct D as [->|[->|D]].
  - apply shape_pawn; assumption.
  - apply shape_king; assumption.
  - apply (shape_simple b m k); assumption.
Qed.

(* ------------------------------------------------------------------------------------------ *)
(* MakeMove against place_after *)

Lemma make_Pw_spec z b m : PRep b -> valid (abs b) = true -> pseudo_spec (abs b) m = true ->
  Pw (fst (make z b m)) (eng_fun b m).
Proof. intros HR HV HP. apply make_Pw; [exact HR|apply pseudo_shape; assumption]. Qed.

Lemma make_PRep : forall z b m, PRep b -> valid (abs b) = true -> pseudo_spec (abs b) m = true ->
  PRep (fst (make z b m)).
Proof. intros z b m HR HV HP. apply (make_Pw_spec z b m HR HV HP). Qed.

Lemma make_at : forall z b m, PRep b -> valid (abs b) = true -> pseudo_spec (abs b) m = true ->
  at_ (abs (fst (make z b m))) = place_after (abs b) m.
Proof.
  intros z b m HR HV HP. destruct (make_Pw_spec z b m HR HV HP) as [_ W].
  apply (Lf_inj _ _ (eng_fun b m)).
  - apply (Lf_ext _ _ _ (Lf_abs _)). exact W.
  - apply place_Lf; [exact HR|apply pseudo_shape; assumption].
Qed.

Lemma make_stm : forall z b m, stm (fst (make z b m)) = flip (stm b).
Proof.
  intros z b m. unfold make, make_l. cbv zeta.
  destruct (remove_piece z _ (flip (stm b)) _ _) as [b1 h1].
  destruct (remove_piece z b1 _ _ _) as [b2 h2].
  destruct (add_piece z b2 _ _ _) as [b3 h3].
  destruct (piece_at b (mv_from m) =? King); [|reflexivity].
  destruct (castle_rook (mv_from m) (mv_to m)) as [[rf rt]|]; [|reflexivity].
  destruct (remove_piece z _ (stm b) Rook rf) as [c1 g1].
  destruct (add_piece z c1 (stm b) Rook rt) as [c2 g2]. reflexivity.
Qed.

(* ------------------------------------------------------------------------------------------ *)
(* attacks and check depend on the placement only *)

Lemma attacked_by_congr p q c s : at_ p = at_ q -> attacked_by p c s = attacked_by q c s.
Proof. intros H. unfold attacked_by, occ_of, empty, who. rewrite H. reflexivity. Qed.

Lemma in_check_spec_congr p q c : at_ p = at_ q -> in_check_spec p c = in_check_spec q c.
Proof.
  intros H. unfold in_check_spec, king_sq, holds, attacked_by, occ_of, empty, who. rewrite H. reflexivity.
Qed.

Lemma at_norm b : at_ (abs (norm b)) = at_ (abs b).
Proof. reflexivity. Qed.

Lemma is_attacked_norm b c occ tgt : is_attacked (norm b) c occ tgt = is_attacked b c occ tgt.
Proof. reflexivity. Qed.

Lemma is_attacked_prep : forall b c tgt, PRep b -> w64p tgt ->
  is_attacked b c (occupancy b) tgt = existsb (attacked_by (abs b) c) (bits_of tgt).
Proof.
  intros b c tgt HR Ht.
  pose proof (AttackedSpec.is_attacked_spec (norm b) c tgt (PRep_norm b HR) Ht) as H.
  rewrite is_attacked_norm in H. change (occupancy (norm b)) with (occupancy b) in H. rewrite H.
  apply AttackedSpec.existsb_ext_in. intros s _. apply attacked_by_congr. apply at_norm.
Qed.

Lemma hd_filter_unique {A} (f : A -> bool) (l : list A) (d k : A) :
  In k l -> f k = true -> (forall s, In s l -> f s = true -> s = k) -> hd d (filter f l) = k.
Proof.
  induction l as [|a r IH]; intros Hin Hk Hu; [destruct Hin|]. cbn [filter].
  destruct (f a) eqn:Ea.
  - cbn [hd]. apply Hu; [left; reflexivity|exact Ea].
  - apply IH; [|exact Hk|].
    + destruct Hin as [->|Hin]; [congruence|exact Hin].
    + intros s Hs. apply Hu. right. exact Hs.
Qed.

Lemma king_sq_unique p c k : k < 64 -> (forall s, holds p s c King = true <-> s = k) -> king_sq p c = k.
Proof.
  intros Hk Hu. unfold king_sq. apply hd_filter_unique.
  - apply in_squares64. exact Hk.
  - apply Hu. reflexivity.
  - intros s _ H. apply Hu. exact H.
Qed.

Lemma existsb_bit (f : N -> bool) k : existsb f (bits_of (bit k)) = f k.
Proof.
  apply eq_true_iff_eq. rewrite existsb_exists. split.
  - intros [x [H1 H2]]. apply bits_of_spec in H1. rewrite bit_testbit in H1. apply N.eqb_eq in H1. subst x. exact H2.
  - intros H. exists k. split; [|exact H]. apply bits_of_spec. rewrite bit_testbit. apply N.eqb_refl.
Qed.

Lemma in_check_abs : forall b c, PRep b ->
  (exists k, k < 64 /\ forall s, holds (abs b) s c King = true <-> s = k) ->
  in_check b c = in_check_spec (abs b) c.
Proof.
  intros b c HR [k [Hk Hu]]. unfold in_check, in_check_spec.
  rewrite (king_sq_unique _ _ k Hk Hu).
  assert (E : band (colors b c) (pieces b King) = bit k).
  { apply eq_bit. intros i. rewrite <- Hu, (holds_abs b HR) by (unfold King; lia).
    rewrite band_tb, andb_comm. tauto. }
  rewrite E. rewrite is_attacked_prep; [|exact HR|apply bit_lt; exact Hk].
  apply existsb_bit.
Qed.

(* the mover's king after the move *)
Lemma eng_king b m kk : PRep b -> shape b m ->
  (forall s, who (abs b) s = Some (stm b, King) <-> s = kk) ->
  exists k', k' < 64 /\ forall s, eng_fun b m s = Some (stm b, King) <-> s = k'.
Proof.
  intros HR S Hu. unfold eng_fun.
  pose proof (sh_from b m S) as Hw.
  destruct (N.eqb_spec (piece_at b (mv_from m)) King) as [EK|EK].
  - (* the king moves *)
    assert (Hkk : mv_from m = kk) by (apply Hu; rewrite Hw, EK; reflexivity).
    assert (Hput : mk_put b m = King).
    { unfold mk_put, NoPiece. destruct (sh_promo b m S) as [->|[X _]]; [exact EK|]. rewrite EK in X. discriminate. }
    exists (mv_to m). split; [apply mv_to_lt|].
    assert (E3 : forall s, eng3 b m s = Some (stm b, King) <-> s = mv_to m).
    { intros s. unfold eng3, fupd. rewrite Hput.
      destruct (N.eqb_spec s (mv_to m)) as [->|N1]; [tauto|].
      destruct (N.eqb_spec s (mv_from m)) as [->|N2]; [split; [discriminate|contradiction]|].
      destruct (N.eqb_spec s (capture_sq b m)) as [->|N3]; [split; [discriminate|contradiction]|].
      rewrite Hu. split; intros X; [congruence|contradiction]. }
    destruct (sh_king b m S EK) as [_ [[_ [_ CR]]|[long [Hfrom [Hto [Hr Hrt]]]]]].
    + rewrite CR. exact E3.
    + destruct (castle_geom (stm b) long) as [G1 [_ [_ [_ [_ [_ [G7 [_ [G9 _]]]]]]]]].
      cbv zeta in G1, G7, G9. rewrite <- Hfrom in G1, G7, G9. rewrite <- Hto in G1, G7, G9. rewrite G1.
      intros s. unfold fupd at 1 2.
      destruct (N.eqb_spec s (rook_to (mv_from m) long)) as [->|N1].
      { split; [discriminate|intros X; contradiction]. }
      destruct (N.eqb_spec s (rook_home (stm b) long)) as [->|N2].
      { split; [discriminate|intros X; contradiction]. }
      apply E3.
  - (* another piece moves: the king stays *)
    pose proof (who_piece_range b HR _ _ _ Hw) as [_ Hk].
    assert (Hput : mk_put b m <> King).
    { unfold mk_put, NoPiece, King in *. destruct (sh_promo b m S) as [->|[_ X]]; [exact EK|].
      destruct (N.eqb_spec (mv_promo m) 0); cbn [negb]; lia. }
    assert (Hkw : who (abs b) kk = Some (stm b, King)) by (apply Hu; reflexivity).
    exists kk. split; [apply (who_piece_range b HR _ _ _ Hkw)|].
    intros s. unfold eng3, fupd.
    destruct (N.eqb_spec s (mv_to m)) as [->|N1].
    { split; [intros X; injection X as X; contradiction|]. intros X. exfalso.
      destruct (sh_to b m S) as [Y|Y].
      - destruct (sh_cap b m S) as [Z|[k' Z]]; rewrite Y, X, Hkw in Z; [discriminate|].
        injection Z as Z _. symmetry in Z. exact (flip_neq _ Z).
      - rewrite X, Hkw in Y. discriminate. }
    destruct (N.eqb_spec s (mv_from m)) as [->|N2].
    { split; [discriminate|]. intros X. rewrite X, Hkw in Hw. injection Hw as Hw. congruence. }
    destruct (N.eqb_spec s (capture_sq b m)) as [->|N3].
    { split; [discriminate|]. intros X. exfalso.
      destruct (sh_cap b m S) as [Z|[k' Z]]; rewrite X, Hkw in Z; [discriminate|].
      injection Z as Z _. symmetry in Z. exact (flip_neq _ Z). }
    apply Hu.
Qed.

Lemma filter_ok : forall z b m, PRep b -> valid (abs b) = true -> pseudo_spec (abs b) m = true ->
  in_check (fst (make z b m)) (stm b) =
  in_check_spec (with_placement (abs b) (place_after (abs b) m)) (stm b).
Proof.
  intros z b m HR HV HP.
  pose proof (pseudo_shape b m HR HV HP) as S.
  destruct (make_Pw z b m HR S) as [HR' W].
  destruct (king_unique b (stm b) HR HV) as [kk [_ [_ Hu]]].
  assert (Hu' : forall s, who (abs b) s = Some (stm b, King) <-> s = kk).
  { intros s. rewrite <- holds_iff. apply Hu. }
  destruct (eng_king b m kk HR S Hu') as [k' [Hk' Hk]].
  rewrite in_check_abs.
  - apply in_check_spec_congr. rewrite (make_at z b m HR HV HP). reflexivity.
  - exact HR'.
  - exists k'. split; [exact Hk'|]. intros s. rewrite holds_iff, W. apply Hk.
Qed.
