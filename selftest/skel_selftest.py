#!/usr/bin/env python3
"""Self-test of Layer A (C06skel / C07skel / C08skel): mutation trial in a private worktree of /repo.

  python3 selftest/skel_selftest.py [case ...]

Each property-breaking edit of search/search.go (the tree still compiles) must make the check print a
VIOLATION line (broken obligation = a checker lemma of Proofs/SkelInstances.v, or the translator
failing closed = lemma translator_succeeded); each property-preserving edit must stay silent.
The worktree is removed at the end."""
import json, os, re, subprocess, sys, time

HERE = os.path.dirname(os.path.dirname(os.path.abspath(__file__)))
WT = "/root/scratch/skel-repo"
SRC = os.path.join(WT, "search/search.go")
ENV = dict(os.environ, GOFLAGS="-mod=mod", GOPROXY="off", VERIF_REPO=WT)


def sh(cmd, **kw):
    return subprocess.run(cmd, shell=True, text=True, stdout=subprocess.PIPE, stderr=subprocess.STDOUT, env=ENV, **kw)


def rep(s, old, new, count=1):
    assert s.count(old) >= 1, "pattern not found: " + old[:60]
    return s.replace(old, new, count)


# ---- mutations: (name, property to check, expected lemma (regex), edit) ----------------------------

def m_drop_undo_continue(s):   # C06: UndoMove missing on the `continue` (illegal move) path of alphaBeta
    return rep(s, "\t\tif b.InCheck(b.STM.Flip()) {\n\t\t\tb.UndoMove(m, r)\n\t\t\tcontinue\n\t\t}\n\n\t\thasLegal = true",
                  "\t\tif b.InCheck(b.STM.Flip()) {\n\t\t\tcontinue\n\t\t}\n\n\t\thasLegal = true")

def m_abort_after_insert(s):   # C08: abort test moved behind the TT insert / history update in alphaBeta
    s = rep(s, "\t\tif s.abort(opts) {\n\t\t\treturn Inv\n\t\t}\n\n\t\tif value > alpha {", "\t\tif value > alpha {")
    return rep(s, "\t\t// LMP\n", "\t\tif s.abort(opts) {\n\t\t\treturn Inv\n\t\t}\n\n\t\t// LMP\n")

def m_count_elsewhere(s):      # C08: node counter written outside incrementNodes
    return rep(s, "\tstandPat := eval.Eval(b, &eval.Coefficients)\n", "\topts.Counters.Nodes++\n\tstandPat := eval.Eval(b, &eval.Coefficients)\n")

def m_null_without_undo(s):    # C06: a null move made and never undone
    return rep(s, "\tstandPat := eval.Eval(b, &eval.Coefficients)\n", "\tnm := b.MakeNullMove()\n\t_ = nm\n\tstandPat := eval.Eval(b, &eval.Coefficients)\n")

def m_null_discarded(s):       # C06: token of a null move thrown away (translator fails closed)
    return rep(s, "\tstandPat := eval.Eval(b, &eval.Coefficients)\n", "\t_ = b.MakeNullMove()\n\tstandPat := eval.Eval(b, &eval.Coefficients)\n")

def m_early_return(s):         # C06: rare early return between MakeMove and UndoMove
    return rep(s, "\t\tvar value Score\n", "\t\tif moveCnt > 200 {\n\t\t\treturn alpha\n\t\t}\n\n\t\tvar value Score\n")

def m_revert_d1717eb(s):       # C08: quiescence tests abort only after the beta cut-off insert (the old defect O1)
    s = rep(s, "\t\t// as in alphaBeta, abort has to be checked before the transposition table\n\t\t// is updated: the score of an aborted child is meaningless\n\t\tif s.abort(opts) {\n\t\t\treturn Inv\n\t\t}\n\n", "")
    return rep(s, "\t\talpha = max(alpha, curr)\n", "\t\talpha = max(alpha, curr)\n\n\t\tif s.abort(opts) {\n\t\t\treturn Inv\n\t\t}\n")

def m_call_before_pv_insert(s):  # C07: another search between the child's return and the PV insert
    return rep(s, "\t\t\ts.pv.insert(ply, m)\n", "\t\t\t_ = s.quiescence(b, alpha, beta, ply+1, opts)\n\t\t\ts.pv.insert(ply, m)\n")

def m_pv_wrong_region(s):      # C07: insert into another region (translator fails closed)
    return rep(s, "\t\t\ts.pv.insert(ply, m)\n", "\t\t\ts.pv.insert(ply+1, m)\n")

def m_move_reassigned(s):      # C06: the move variable changes between MakeMove and UndoMove
    return rep(s, "\t\thasLegal = true\n\t\tmoveCnt++\n", "\t\thasLegal = true\n\t\tmoveCnt++\n\t\tif moveCnt > 100 {\n\t\t\tm = hashMove\n\t\t}\n")

def m_drop_defer_pop(s):       # C06: move-store frame of quiescence never popped
    return rep(s, "\ts.ms.Push()\n\tdefer s.ms.Pop()\n\n\tmovegen.GenNoisy(s.ms, b)\n", "\ts.ms.Push()\n\n\tmovegen.GenNoisy(s.ms, b)\n")

def m_clear_flag(s):           # C08: the sticky flag is cleared inside the search (after a child returned)
    return rep(s, "\tFin:\n\n\t\tb.UndoMove(m, r)\n\t\ts.hstack.Pop()\n", "\tFin:\n\n\t\tb.UndoMove(m, r)\n\t\ts.hstack.Pop()\n\t\ts.aborted = false\n")

def m_pv_alias(s):             # C07: a pointer into the PV buffer escapes (translator fails closed)
    return rep(s, "\t\t\ts.pv.insert(ply, m)\n", "\t\t\tp := &s.pv.depth[ply]\n\t\t\t*p = 0\n\t\t\ts.pv.insert(ply, m)\n")

def m_skip_undo_on_abort(s):   # C06: abort return taken before the undo
    s = rep(s, "\tFin:\n\n\t\tb.UndoMove(m, r)\n\t\ts.hstack.Pop()\n", "\tFin:\n\n\t\tif s.abort(opts) {\n\t\t\treturn Inv\n\t\t}\n\n\t\tb.UndoMove(m, r)\n\t\ts.hstack.Pop()\n")
    return s

def m_pv_without_search(s):    # C07: insert for a move whose child was not searched (fullSearched forced)
    return rep(s, "\t\tfullSearched := false\n", "\t\tfullSearched := true\n")

def m_new_store(s):            # C08: an unknown write to the table (translator fails closed)
    return rep(s, "\ttfCnt := b.Threefold()\n", "\ts.tt.Clear()\n\ttfCnt := b.Threefold()\n")

# ---- harmless edits ----------------------------------------------------------------------------------

def h_rename_move_var(s):      # rename m -> mv inside the move loop of alphaBeta
    a = s.index("\tfor pck.Next() {")
    b = s.index("\tif opts.Debug {\n\t\topts.Counters.Moves += moveCnt\n\t}\n\n\tif !hasLegal")
    return s[:a] + re.sub(r"\bm\b", "mv", s[a:b]) + s[b:]

def h_reorder_pure(s):         # swap two pure statements, move the static evaluation
    s = rep(s, "\t\tmoved := b.SquaresToPiece[m.From()]\n\t\tcaptured := b.SquaresToPiece[b.CaptureSq(m)]\n",
               "\t\tcaptured := b.SquaresToPiece[b.CaptureSq(m)]\n\t\tmoved := b.SquaresToPiece[m.From()]\n")
    return rep(s, "\tdelta := standPat + Score(params.StandPatDelta)\n\t// fail soft upper bound\n\tmaxim := standPat\n",
                  "\t// fail soft upper bound\n\tmaxim := standPat\n\tdelta := standPat + Score(params.StandPatDelta)\n")

def h_extra_pruning(s):        # a new pruning rule with a correct undo, and a new pure helper called before the store
    s = rep(s, "\t\tnext := nextNodeType(nType, moveCnt)\n",
               "\t\tif quiet && moveCnt > 40 && !inCheck && d < 3 {\n\t\t\tb.UndoMove(m, r)\n\t\t\ts.hstack.Pop()\n\t\t\tcontinue\n\t\t}\n\n\t\tnext := nextNodeType(nType, moveCnt)\n")
    s = rep(s, "\t\t\t\ts.tt.Insert(b.Hash(), s.gen, d, ply, m, value, transp.LowerBound)\n",
               "\t\t\t\tvalue = capScore(value)\n\t\t\t\ts.tt.Insert(b.Hash(), s.gen, d, ply, m, value, transp.LowerBound)\n")
    return s + "\nfunc capScore(v Score) Score {\n\tif v > Inf {\n\t\treturn Inf\n\t}\n\treturn v\n}\n"

def h_abort_after_nmp(s):      # the repair that would empty the allow-list: still green
    return rep(s, "\t\t\tb.UndoNullMove(rev)\n", "\t\t\tb.UndoNullMove(rev)\n\n\t\t\tif s.abort(opts) {\n\t\t\t\treturn Inv\n\t\t\t}\n")


CASES = [
    # name, kind, properties to check, regex the broken obligation must match, edit
    ("drop-undo-on-continue", "break", ["C06skel"], r"alphaBeta_balanced", m_drop_undo_continue),
    ("abort-after-tt-insert", "break", ["C08skel"], r"alphaBeta_abort_before_store", m_abort_after_insert),
    ("count-nodes-elsewhere", "break", ["C08skel"], r"translator_succeeded", m_count_elsewhere),
    ("null-move-without-undo", "break", ["C06skel"], r"quiescence_balanced", m_null_without_undo),
    ("null-move-token-discarded", "break", ["C06skel"], r"translator_succeeded", m_null_discarded),
    ("early-return-between-make-and-undo", "break", ["C06skel"], r"alphaBeta_balanced", m_early_return),
    ("revert-d1717eb", "break", ["C08skel"], r"quiescence_abort_before_store", m_revert_d1717eb),
    ("search-between-child-and-pv-insert", "break", ["C07skel"], r"alphaBeta_pv_discipline", m_call_before_pv_insert),
    ("pv-insert-wrong-region", "break", ["C07skel"], r"translator_succeeded", m_pv_wrong_region),
    ("move-reassigned-before-undo", "break", ["C06skel"], r"alphaBeta_balanced", m_move_reassigned),
    ("drop-deferred-pop", "break", ["C06skel"], r"quiescence_balanced", m_drop_defer_pop),
    ("clear-abort-flag-in-search", "break", ["C08skel"], r"alphaBeta_abort_before_store|table_abort_before_store", m_clear_flag),
    ("abort-return-before-undo", "break", ["C06skel"], r"alphaBeta_balanced", m_skip_undo_on_abort),
    ("pv-insert-without-search", "break", ["C07skel"], r"alphaBeta_pv_discipline", m_pv_without_search),
    ("unknown-table-write", "break", ["C08skel"], r"translator_succeeded", m_new_store),
    ("pointer-into-pv-buffer", "break", ["C07skel"], r"translator_succeeded", m_pv_alias),
    ("rename-move-variable", "keep", ["C06skel", "C07skel", "C08skel"], None, h_rename_move_var),
    ("reorder-pure-statements", "keep", ["C06skel", "C07skel", "C08skel"], None, h_reorder_pure),
    ("extra-pruning-and-helper", "keep", ["C06skel", "C07skel", "C08skel"], None, h_extra_pruning),
    ("abort-test-after-null-move", "keep", ["C06skel", "C07skel", "C08skel"], None, h_abort_after_nmp),
]


def check(pid):
    p = sh(f"./check {pid}", cwd=HERE)
    viol = [l for l in p.stdout.split("\n") if l.startswith("VIOLATION")]
    detail = ""
    for l in viol:
        m = re.search(r"replay=(\S+)", l)
        if m and os.path.exists(m.group(1)):
            body = json.load(open(m.group(1)))
            detail += " ".join(b.get("name", "") for b in body.get("no_longer_checks", []))
            for b in body.get("no_longer_checks", []):
                err = (b.get("detail") or {}).get("error", "")
                if "translator" in err or "Some" in err:
                    detail += " " + " ".join(err.split())[:300]
    return p.returncode, viol, detail, p.stdout


def main():
    want = set(sys.argv[1:])
    sh(f"git -C /repo worktree remove --force {WT}")
    p = sh(f"git -C /repo worktree add --detach {WT} HEAD")
    assert os.path.exists(SRC), p.stdout
    orig = open(SRC).read()
    ok = True
    rows = []
    try:
        # silent on the unchanged code
        for pid in ("C06skel", "C07skel", "C08skel"):
            rc, viol, detail, out = check(pid)
            rows.append(("unchanged", pid, "silent" if rc == 0 and not viol else "VIOLATION " + detail))
            ok &= rc == 0 and not viol
        for name, kind, pids, expect, edit in CASES:
            if want and name not in want:
                continue
            open(SRC, "w").write(edit(orig))
            b = sh("go build ./... && go vet ./search/", cwd=WT)
            if b.returncode != 0:
                rows.append((name, "-", "MUTANT DOES NOT COMPILE: " + b.stdout[-300:]))
                ok = False
                continue
            for pid in pids:
                t0 = time.time()
                rc, viol, detail, out = check(pid)
                dt = round(time.time() - t0, 1)
                if kind == "break":
                    good = rc == 1 and viol and re.search(expect, detail)
                    rows.append((name, pid, ("caught: " if good else "NOT CAUGHT AS EXPECTED: ") + (viol[0] if viol else "no VIOLATION line")
                                 + " | " + detail[:260] + f" ({dt} s)"))
                else:
                    good = rc == 0 and not viol
                    rows.append((name, pid, ("silent" if good else "FALSE ALARM: " + detail[:300]) + f" ({dt} s)"))
                ok &= bool(good)
    finally:
        open(SRC, "w").write(orig)
        sh(f"git -C /repo worktree remove --force {WT}")
        # leave the copy checked against the real repo again
        e = dict(os.environ); e.pop("VERIF_REPO", None)
        subprocess.run("./check C06skel", shell=True, cwd=HERE, env=e, stdout=subprocess.DEVNULL, stderr=subprocess.DEVNULL)
    for r in rows:
        print(" | ".join(r))
    print("SELFTEST", "OK" if ok else "FAILED")
    return 0 if ok else 1


if __name__ == "__main__":
    sys.exit(main())
