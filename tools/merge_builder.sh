#!/bin/bash
# Merge a builder's scratch copy (/root/scratch/<dir>) into /verif as a git merge:
#   tools/merge_builder.sh <dir>
# The copy was made with cp -r /verif, so it carries .git with the base commit.
set -e
d=/root/scratch/$1
cd "$d"
git checkout -q -B "builder-$1"
git add -A
git -c user.name=builder -c user.email=builder@example.invalid commit -q -m "builder $1: delivery" || true
cd /verif
git fetch -q "$d" "builder-$1"
git merge --no-edit FETCH_HEAD || { echo "CONFLICTS:"; git diff --name-only --diff-filter=U; exit 1; }
