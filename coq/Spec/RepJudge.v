(* Spec-level oracle of property C10 (stream "c10").  It looks at the input (root board + moves) and at
   the repetition counts the IMPLEMENTATION reported, recomputes the game with Spec/Chess.succ_spec
   from abs(root) and counts equal position keys.  It uses neither the engine model nor any hash.

   input  = board-in(root) ++ [j; n; m_1 .. m_n]
   output = [T_0 .. T_n] ++ [U_0 .. U_n] ++ [S]
     T_i  Threefold() after i plies played with MakeMove on the root board
     U_i  Threefold() of the UCI driver's board after `position fen <root> moves m_1 .. m_i`
          (consecutive commands on one driver)
     S    Threefold() after `position fen <root> moves m_1..m_j` followed by
          `position fen <FEN after j plies> moves m_(j+1)..m_n`  (the FEN load starts a new history)

   verdict [1]                the counts are the true recurrence counts
           [0; 1; i]          T_i is wrong
           [0; 3; i]          U_i is wrong
           [0; 4; j]          S is wrong
           [0; 2; i]          ONLY discrepancies of the recorded class `fen-ep-flag`: the root carries an
                              en-passant square without a legal en-passant capture, ply i has the key
                              of the ROOT and the reported count is exactly the true count with the
                              root left out
           [0; 7; 0]          the root is not a valid position   (generator self-check)
           [0; 8; i]          move i+1 is not legal              (generator self-check)
           [0; 9; 0]          malformed observation (e.g. a panic) *)
From Coq Require Import NArith ZArith List Bool.
From Chess3 Require Import Base.Bits Model.Types Spec.Geometry Model.BoardDef Spec.Chess Spec.RepSpec.
Import ListNotations.
Open Scope Z_scope.

Fixpoint first_illegal (p : pos) (ms : list N) (i : Z) : option Z :=
  match ms with
  | [] => None
  | m :: r => if legal_spec p m then first_illegal (succ_spec p m) r (i + 1) else Some i
  end.

(* what the recorded finding `fen-ep-flag` predicts: positions with the root's key are counted
   without the root itself (ks oldest first, raw = raw_counts ks) *)
Definition known_counts (ks : list poskey) (raw : list Z) : list Z :=
  match ks, raw with
  | k0 :: kr, r0 :: rr =>
      Z.min 3 r0 :: map (fun kr : poskey * Z => let (k, r) := kr in
                           if key_eqb k k0 then Z.min 3 (r - 1) else Z.min 3 r) (combine kr rr)
  | _, _ => []
  end.

(* first index at which obs differs from both exp and alt (hard), first at which it differs from exp (soft) *)
Fixpoint first_diff (obs exp alt : list Z) (i : Z) : option Z * option Z :=
  match obs, exp, alt with
  | o :: obs', e :: exp', a :: alt' =>
      let '(h, s) := first_diff obs' exp' alt' (i + 1) in
      if o =? e then (h, s)
      else if o =? a then (h, Some i)
      else (Some i, Some i)
  | _, _, _ => (None, None)
  end.

Definition judge_c10 (l : list Z) : list Z :=
  match decode_board l with
  | Some (b, j :: n :: rest) =>
      let n' := Z.to_nat n in
      let j' := Z.to_nat j in
      let ms := map Z.to_N (firstn n' rest) in
      let obs := skipn n' rest in
      let p0 := abs b in
      if negb (Nat.eqb (length obs) (2 * S n' + 1)) then [0; 9; 0] else
      if negb (valid p0) then [0; 7; 0] else
      match first_illegal p0 ms 0 with
      | Some i => [0; 8; i]
      | None =>
          let ps := spec_hist p0 ms in
          let ks := map pos_key ps in
          let raw := raw_counts ks in
          let exp := map (Z.min 3) raw in
          let alt := if normal_ep p0 then exp else known_counts ks raw in
          let obsT := firstn (S n') obs in
          let obsU := firstn (S n') (skipn (S n') obs) in
          let obsS := skipn (2 * S n') obs in
          (* the history restarted at ply j *)
          let ks2 := skipn j' ks in
          let exp2 := [rep_count ks2] in
          let alt2 := if normal_ep p0 || negb (j =? 0) then exp2
                      else [nth n' alt 1] in
          let '(hT, sT) := first_diff obsT exp alt 0 in
          let '(hU, sU) := first_diff obsU exp alt 0 in
          let '(hS, sS) := first_diff obsS exp2 alt2 0 in
          match hT, hU, hS with
          | Some i, _, _ => [0; 1; i]
          | None, Some i, _ => [0; 3; i]
          | None, None, Some _ => [0; 4; j]
          | None, None, None =>
              match sT, sU, sS with
              | Some i, _, _ => [0; 2; i]
              | None, Some i, _ => [0; 2; i]
              | None, None, Some _ => [0; 2; n]
              | None, None, None => [1]
              end
          end
      end
  | _ => [0; 9; 0]
  end.
