(* The table invariant "every stored value is a score in [-Inf, Inf]" ([tt_values_ok]) is NOT kept by
   Search.Go on the closed model - a concrete run.

   Null move pruning (search.go: `if value >= Inf-MaxPlies { return beta }`) hands a WINDOW BOUND back as
   the value of the node.  beta is the negated alpha of an ancestor: a value that was correct some plies
   higher and is not re-based.  Root 7k/8/6K1/7p/8/8/8/n2Q4 w - - 0 1 (White: Kg6 Qd1, Black: Kh8 Na1 h5):
     ply 0  Qd8 is mate: alpha = Inf-1 = 9999.  Next root move Qxh5+ (a capture: searched to full depth),
     ply 1  Black is in check (no null move here), Kg8 is forced, beta = -9999,
     ply 2  White to move, alpha = 9999: every move fails low,
     ply 3  Black to move with depth 2 left, beta = -9999 = -(Inf-1), below the lowest score -(Inf-3) of
            this ply.  Null move: the position after it is found in the table with an exact mate score for
            Black (the table is prepared with such entries, stored value -9990: inside [-Inf, Inf]);
            value >= Inf-MaxPlies, so the node returns beta = -9999;
     ply 2  maximum 9999 = Inf-1 at ply 2, stored as an upper bound: Insert re-bases by +2: the table holds
            Inf+1 = 10001.
   The prepared entries say "White is mated" about positions where White is not: what a real table holds
   after a collision of the 16-bit partial key (the engine does not guard against those, C10 no_collision),
   or after a search of a position in which both sides have mating attacks.  Everything is computed. *)
From Coq Require Import NArith ZArith List Bool Lia.
From Chess3 Require Import Base.Bits Base.Word Model.Types Model.BoardDef Model.Board Model.Movegen Model.Search
  Spec.Chess Spec.Rep Proofs.BoardExamples Proofs.SearchModelLegalBase Proofs.SearchModelLegalNull
  Proofs.SearchModelBoundsVal Proofs.HistProofs.
From Chess3 Require Model.TT Model.Pv Model.Hist Proofs.PvProofs.
Import ListNotations.
Open Scope Z_scope.

(* boolean forms of the two table invariants *)
Definition tt_okb (t : TT.table) : bool :=
  forallb (fun bk => forallb (fun e => (0 <=? TT.e_move e) && (TT.e_move e <? 32768)) (TT.b_entries bk)) t.
Definition tt_values_okb (t : TT.table) : bool :=
  forallb (fun bk => forallb (fun e => (- SearchParams.Inf <=? TT.e_value e) && (TT.e_value e <=? SearchParams.Inf)) (TT.b_entries bk)) t.

Lemma tt_okb_sound t : tt_okb t = true -> tt_ok t.
Proof.
  unfold tt_okb, tt_ok, bucket_ok, entry_ok, mv_ok. rewrite forallb_forall. intros H. apply Forall_forall. intros bk Hb.
  specialize (H bk Hb). rewrite forallb_forall in H. apply Forall_forall. intros e He. specialize (H e He).
  apply andb_true_iff in H. destruct H as [H1 H2]. apply Z.leb_le in H1. apply Z.ltb_lt in H2. lia.
Qed.

Lemma tt_values_okb_iff t : tt_values_okb t = true <-> tt_values_ok t.
Proof.
  unfold tt_values_okb, tt_values_ok. rewrite forallb_forall, Forall_forall. split; intros H bk Hb; specialize (H bk Hb).
  - rewrite forallb_forall in H. apply Forall_forall. intros e He. specialize (H e He).
    apply andb_true_iff in H. destruct H as [H1 H2]. apply Z.leb_le in H1, H2. lia.
  - rewrite Forall_forall in H. apply forallb_forall. intros e He. specialize (H e He).
    apply andb_true_iff. split; apply Z.leb_le; lia.
Qed.

(* 7k/8/6K1/7p/8/8/8/n2Q4 w - - 0 1 *)
Definition nmp_root : board :=
  board_of [549755813888; 1; 0; 0; 8; 70368744177664 + 9223372036854775808]%N
           (70368744177664 + 8)%N (9223372036854775808 + 1 + 549755813888)%N White 0 0.
(* after Qd1xh5+ Kh8-g8 *)
Definition nmp_ply2 : board := fst (make zob (fst (make zob nmp_root (mk_move 3 39 0))) (mk_move 63 62 0)).

(* for every White move in that position: the position after the move and a null move, entered as an exact
   value -9990 (depth 0, no move) *)
Definition nmp_table (t : TT.table) : TT.table :=
  fold_left (fun t a => TT.insert t (zN (cur_hash (fst (make_null zob (fst (make zob nmp_ply2 a)))))) 0 0 0 0 (-9990) SearchParams.Exact)
            (playable zob nmp_ply2) t.

Definition nmp_state : res sstate :=
  match new_state 32000 with Ok s0 => Ok (set_tt s0 (nmp_table (s_tt s0))) | _ => Panic end.

Definition nmp_opts : opts := mkO (-1) (-1) 5.

Lemma nmp_run :
  match nmp_state with
  | Ok s1 =>
      match go search_fuel nmp_opts s1 nmp_root with
      | Ok (r, s2, _) =>
          rep_ok nmp_root = true /\ valid (abs nmp_root) = true /\
          tt_okb (s_tt s1) = true /\ tt_values_okb (s_tt s1) = true /\ s_pv s1 = Pv.new_pv /\ s_rk s1 = Hist.ranker_new /\
          r_move r = Z.of_N (mk_move 3 59 0) /\ r_score r = SearchParams.Inf - 1 /\ s_aborted s2 = false /\
          tt_values_okb (s_tt s2) = false /\
          (match TT.lookup (s_tt s2) (zN (cur_hash nmp_ply2)) with Some e => TT.e_value e | None => 0 end) = SearchParams.Inf + 1
      | _ => False end
  | _ => False end.
Proof. vm_compute. repeat split; reflexivity. Qed.

Theorem tt_values_not_kept :
  exists fuel o st b r st' b',
    Rep b /\ valid (abs b) = true /\ tt_ok (s_tt st) /\ tt_values_ok (s_tt st) /\ PvProofs.wf (s_pv st) /\ reachable (s_rk st) /\
    go fuel o st b = Ok (r, st', b') /\ s_aborted st' = false /\ ~ tt_values_ok (s_tt st').
Proof.
  pose proof nmp_run as H.
  destruct nmp_state as [s1| |]; try contradiction.
  destruct (go search_fuel nmp_opts s1 nmp_root) as [[[r s2] b2]| |] eqn:E; try contradiction.
  destruct H as (H1 & H2 & H3 & H4 & H5 & H6 & _ & _ & H9 & H10 & _).
  exists search_fuel, nmp_opts, s1, nmp_root, r, s2, b2.
  split; [exact H1|]. split; [exact H2|]. split; [apply tt_okb_sound; exact H3|]. split; [apply tt_values_okb_iff; exact H4|].
  split; [rewrite H5; exact PvProofs.wf_new|]. split; [rewrite H6; apply reach_new|]. split; [exact E|]. split; [exact H9|].
  intros F. apply tt_values_okb_iff in F. rewrite F in H10. discriminate H10.
Qed.
