// Package hx is the shared plumbing of the correspondence harness: one PRNG, the case format and
// the stream registry.
//
// A stream produces cases. A case is (In, Out, Desc): In and Out are lists of integers (the model
// side of every stream is a Coq function list Z -> list Z), Desc is a human readable replay of the
// input. Numbers are written in hexadecimal, negative ones with a leading '-'.
package hx

import (
	"bufio"
	"fmt"
	"math/big"
	"os"
	"sort"
	"strings"
)

// Rng is splitmix64; every random choice of a run derives from one seed.
type Rng struct{ s uint64 }

func NewRng(seed uint64) *Rng { return &Rng{s: seed*0x9e3779b97f4a7c15 + 0x1234567} }

func (r *Rng) U64() uint64 {
	r.s += 0x9e3779b97f4a7c15
	z := r.s
	z = (z ^ (z >> 30)) * 0xbf58476d1ce4e5b9
	z = (z ^ (z >> 27)) * 0x94d049bb133111eb
	return z ^ (z >> 31)
}
func (r *Rng) Intn(n int) int {
	if n <= 0 {
		return 0
	}
	return int(r.U64() % uint64(n))
}
func (r *Rng) Bool() bool             { return r.U64()&1 == 1 }
func (r *Rng) Chance(p float64) bool  { return float64(r.U64()>>11)/float64(1<<53) < p }
func (r *Rng) Range(lo, hi int64) int64 { // inclusive
	if hi <= lo {
		return lo
	}
	return lo + int64(r.U64()%uint64(hi-lo+1))
}
func (r *Rng) Fork() *Rng { return NewRng(r.U64()) }

// Nums builds a list of integers.
type Nums struct{ sb strings.Builder }

func (n *Nums) U(xs ...uint64) *Nums {
	for _, x := range xs {
		if n.sb.Len() > 0 {
			n.sb.WriteByte(' ')
		}
		fmt.Fprintf(&n.sb, "%x", x)
	}
	return n
}
func (n *Nums) I(xs ...int64) *Nums {
	for _, x := range xs {
		if n.sb.Len() > 0 {
			n.sb.WriteByte(' ')
		}
		if x < 0 {
			// -x overflows for MinInt64; go through big
			b := big.NewInt(x)
			b.Neg(b)
			fmt.Fprintf(&n.sb, "-%s", b.Text(16))
		} else {
			fmt.Fprintf(&n.sb, "%x", x)
		}
	}
	return n
}
func (n *Nums) Int(xs ...int) *Nums {
	for _, x := range xs {
		n.I(int64(x))
	}
	return n
}
func (n *Nums) B(b bool) *Nums {
	if b {
		return n.U(1)
	}
	return n.U(0)
}
func (n *Nums) Bytes(bs []byte) *Nums {
	for _, b := range bs {
		n.U(uint64(b))
	}
	return n
}
func (n *Nums) String() string { return n.sb.String() }

// Input is one generated case: In is the list of integers handed to both sides, Desc a human
// readable replay of it.
type Input struct {
	In   string
	Desc string
	// Tags feed the input-distribution histogram of the evidence; NonTrivial marks a case that
	// exercises the feature the property is about; Key identifies distinct cases (default: In).
	Tags       []string
	NonTrivial bool
	Key        string
}

// Args is a parsed input line.
type Args []*big.Int

func ParseArgs(line string) (Args, error) {
	var a Args
	for _, t := range strings.Fields(line) {
		b, ok := new(big.Int).SetString(t, 16)
		if !ok {
			return nil, fmt.Errorf("bad number %q", t)
		}
		a = append(a, b)
	}
	return a, nil
}
func (a Args) U64(i int) uint64 {
	if i >= len(a) {
		return 0
	}
	if a[i].Sign() < 0 {
		return uint64(a[i].Int64())
	}
	return a[i].Uint64()
}
func (a Args) I64(i int) int64 {
	if i >= len(a) {
		return 0
	}
	return a[i].Int64()
}
func (a Args) Int(i int) int { return int(a.I64(i)) }
func (a Args) Len() int      { return len(a) }
func (a Args) Bytes(from, to int) []byte {
	bs := make([]byte, 0, to-from)
	for i := from; i < to && i < len(a); i++ {
		bs = append(bs, byte(a.U64(i)))
	}
	return bs
}

// Stream generates inputs and runs the implementation on them.
type Stream struct {
	Name string
	// Gen produces about n inputs from rng. tier is "quick" or "thorough".
	Gen func(rng *Rng, n int, tier string, emit func(Input))
	// Run evaluates the implementation on one parsed input and returns its observable output as a
	// list of integers (Nums string). A panic is caught by the caller and reported as "panic".
	Run func(a Args) string
	// Shrink (optional) returns CANDIDATE smaller inputs for one input line: well-formed encodings
	// of the same case with an operation / a suffix / a script line removed, a move list truncated,
	// a numeric field reduced ... ordered smallest-change-first (the most aggressive cuts come
	// last). It must be a pure function of the input line and must not run the code under test in a
	// way that can hang. The witness search of ./check (lib/props.py shrink_witness) re-runs the
	// implementation and the judge on the candidates and keeps one only when the judge still fails
	// with the same clause, so a candidate that no longer fails costs nothing but time.
	Shrink func(in string) []string
	// Describe (optional) renders the human readable replay of an input line (what Gen put into
	// Input.Desc), so that a shrunk witness gets a description of its own.
	Describe func(a Args) string
}

// SafeShrink returns the candidates of s.Shrink for one input line: deduplicated, without the
// input itself, smallest change first; nil if the stream has no Shrink or it panics. limit > 0
// thins the list out to limit candidates evenly spread over it (the last one, the most aggressive
// cut, always among them).
func SafeShrink(s *Stream, line string, limit int) (out []string) {
	out = safeShrink(s, line)
	if n := len(out); limit > 0 && n > limit {
		thin := make([]string, 0, limit)
		for k := 1; k <= limit; k++ {
			thin = append(thin, out[k*n/limit-1])
		}
		out = thin
	}
	return out
}

func safeShrink(s *Stream, line string) (out []string) {
	if s.Shrink == nil {
		return nil
	}
	defer func() {
		if r := recover(); r != nil {
			out = nil
		}
	}()
	self := strings.Join(strings.Fields(line), " ")
	seen := map[string]struct{}{self: {}}
	for _, c := range s.Shrink(line) {
		c = strings.Join(strings.Fields(c), " ")
		if _, dup := seen[c]; dup || c == "" {
			continue
		}
		seen[c] = struct{}{}
		out = append(out, c)
	}
	// smallest change first = longest candidate first (ties keep the order of the shrinker)
	ntok := func(c string) int { return strings.Count(c, " ") + 1 }
	sort.SliceStable(out, func(i, j int) bool {
		if a, b := ntok(out[i]), ntok(out[j]); a != b {
			return a > b
		}
		return len(out[i]) > len(out[j])
	})
	return out
}

// SafeDescribe renders the description of one input line ("" if the stream cannot).
func SafeDescribe(s *Stream, line string) (out string) {
	if s.Describe == nil {
		return ""
	}
	defer func() {
		if r := recover(); r != nil {
			out = ""
		}
	}()
	a, err := ParseArgs(line)
	if err != nil {
		return ""
	}
	return strings.ReplaceAll(s.Describe(a), "\n", "\\n")
}

// ShrinkSep ends the candidate list of one input line in the output of `h shrink`.
const ShrinkSep = "--"

// Cut is a half-open index range [Lo, Hi) to be removed from a sequence.
type Cut struct{ Lo, Hi int }

// Cuts lists the removals a shrinker should try on a sequence of n elements, smallest first: every
// single element, then runs of 2, 3, 4, 6, 8, 12, 16, ... elements (sliding by half a run, the run
// that ends the sequence first), never the whole sequence when keep > 0 (at least keep elements
// stay). The largest runs - the most aggressive candidates - are at the end of the list.
func Cuts(n, keep int) []Cut {
	var out []Cut
	if n <= 0 {
		return nil
	}
	var sizes []int
	for p := 1; p <= n; p *= 2 {
		sizes = append(sizes, p)
		if p >= 2 && 3*p/2 <= n {
			sizes = append(sizes, 3*p/2)
		}
	}
	sort.Ints(sizes)
	if sizes[len(sizes)-1] != n {
		sizes = append(sizes, n)
	}
	for _, c := range sizes {
		if n-c < keep {
			break
		}
		step := max(1, c/2)
		for hi := n; hi-c >= 0; hi -= step {
			out = append(out, Cut{hi - c, hi})
		}
		if (n-c)%step != 0 { // the run that starts the sequence
			out = append(out, Cut{0, c})
		}
	}
	return out
}

// Toks splits an input line into its tokens (kept as text: re-emitting a token never changes it).
func Toks(line string) []string { return strings.Fields(line) }

// Hex is one integer in the wire format.
func Hex(x int64) string { return (&Nums{}).I(x).String() }

// JoinToks concatenates token lists into one input line.
func JoinToks(parts ...[]string) string {
	var all []string
	for _, p := range parts {
		all = append(all, p...)
	}
	return strings.Join(all, " ")
}

var registry = map[string]*Stream{}

func Register(s *Stream) { registry[s.Name] = s }
func Lookup(name string) *Stream { return registry[name] }
func Names() []string {
	var ns []string
	for n := range registry {
		ns = append(ns, n)
	}
	sort.Strings(ns)
	return ns
}

// SafeRun runs the implementation, mapping a panic to the distinguished output "ffff ffff ffff".
func SafeRun(s *Stream, line string) (out string) {
	defer func() {
		if r := recover(); r != nil {
			out = PanicOut
		}
	}()
	a, err := ParseArgs(line)
	if err != nil {
		return "badinput"
	}
	return s.Run(a)
}

// PanicOut is what a panicking implementation call is recorded as.
const PanicOut = "-1 -1 -1"

// Writer writes the three line-aligned files of a stream plus statistics.
type Writer struct {
	in, out, desc *bufio.Writer
	files          []*os.File
	N, NonTrivial  int
	keys           map[string]struct{}
	Tags           map[string]int
	S              *Stream
}

func NewWriter(prefix string, s *Stream) (*Writer, error) {
	w := &Writer{keys: map[string]struct{}{}, Tags: map[string]int{}, S: s}
	for _, suf := range []string{".in", ".impl", ".desc"} {
		f, err := os.Create(prefix + suf)
		if err != nil {
			return nil, err
		}
		w.files = append(w.files, f)
	}
	w.in = bufio.NewWriterSize(w.files[0], 1<<20)
	w.out = bufio.NewWriterSize(w.files[1], 1<<20)
	w.desc = bufio.NewWriterSize(w.files[2], 1<<20)
	return w, nil
}

func (w *Writer) Emit(c Input) {
	w.N++
	fmt.Fprintln(w.in, c.In)
	fmt.Fprintln(w.out, SafeRun(w.S, c.In))
	fmt.Fprintln(w.desc, strings.ReplaceAll(c.Desc, "\n", "\\n"))
	for _, t := range c.Tags {
		w.Tags[t]++
	}
	if c.NonTrivial {
		k := c.Key
		if k == "" {
			k = c.In
		}
		if _, ok := w.keys[k]; !ok {
			w.keys[k] = struct{}{}
			w.NonTrivial++
		}
	}
}

func (w *Writer) Close() error {
	for _, b := range []*bufio.Writer{w.in, w.out, w.desc} {
		if err := b.Flush(); err != nil {
			return err
		}
	}
	for _, f := range w.files {
		if err := f.Close(); err != nil {
			return err
		}
	}
	return nil
}
