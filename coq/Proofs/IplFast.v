(* C05: the two cheap necessary conditions of IsPseudoLegal that let the correspondence driver skip
   most of the 32768 encodings soundly, and the proof that the driver's list is the full one. *)
From Coq Require Import NArith ZArith List Bool Lia.
From Chess3 Require Import Base.Bits Model.Types Model.Att Model.BoardDef Model.Board Model.Movegen
  Model.BoardStreams Model.C05Streams Proofs.GenBase Proofs.IplBase.
Import ListNotations.
Open Scope N_scope.

(* only an encoding whose from-square holds a piece of the side to move can be accepted *)
Lemma ipl_from_own b m : is_pseudo_legal b m = true -> N.testbit (colors b (stm b)) (mv_from m) = true.
Proof.
  unfold is_pseudo_legal. cbv zeta. rewrite band_bit_eq0.
  destruct (N.testbit (colors b (stm b)) (mv_from m)); cbn [negb]; [reflexivity|discriminate].
Qed.

(* the to-square never holds a piece of the side to move *)
Lemma ipl_to_not_own b m : is_pseudo_legal b m = true -> N.testbit (colors b (stm b)) (mv_to m) = false.
Proof.
  unfold is_pseudo_legal. cbv zeta. rewrite !band_bit_eq0.
  destruct (N.testbit (colors b (stm b)) (mv_from m)); cbn [negb]; [|discriminate].
  destruct (N.testbit (colors b (stm b)) (mv_to m)); cbn [negb]; [discriminate|reflexivity].
Qed.

(* promotion bits are accepted on pawn moves only *)
Lemma ipl_promo_pawn b m : is_pseudo_legal b m = true -> mv_promo m = 0 \/ piece_at b (mv_from m) = Pawn.
Proof.
  unfold is_pseudo_legal. cbv zeta.
  destruct (band (colors b (stm b)) (bit (mv_from m)) =? 0); [discriminate|].
  destruct (negb (band (colors b (stm b)) (bit (mv_to m)) =? 0)); [discriminate|].
  unfold NoPiece.
  destruct (N.eqb_spec (mv_promo m) 0) as [E|E]; [left; exact E|].
  destruct (N.eqb_spec (piece_at b (mv_from m)) Pawn) as [P|P]; [right; exact P|].
  cbn [negb andb]. discriminate.
Qed.

Lemma ipl_worth b m : is_pseudo_legal b m = true -> worth b (mv_promo m) (mv_from m) = true.
Proof.
  intros H. unfold worth. rewrite (ipl_from_own b m H). cbn [andb].
  destruct (ipl_promo_pawn b m H) as [E|E]; rewrite E; [reflexivity|].
  rewrite N.eqb_refl. apply orb_true_r.
Qed.

(* ------------------------------------------------------------------------------------------ *)

Fixpoint leqbN (a b : list N) : bool :=
  match a, b with
  | [], [] => true
  | x :: r, y :: s => (x =? y) && leqbN r s
  | _, _ => false
  end.
Lemma leqbN_eq a : forall b, leqbN a b = true -> a = b.
Proof.
  induction a as [|x r IH]; intros [|y s] H; cbn [leqbN] in H; try discriminate; [reflexivity|].
  apply andb_prop in H. destruct H as [H1 H2]. apply N.eqb_eq in H1. subst y. f_equal. apply IH. exact H2.
Qed.

Lemma all_encodings_tbl : all_encodings = enc_tbl.
Proof. apply leqbN_eq. vm_compute. reflexivity. Qed.

Lemma filter_flat_map {A B} (p : B -> bool) (f : A -> list B) l :
  filter p (flat_map f l) = flat_map (fun x => filter p (f x)) l.
Proof. induction l as [|a l IH]; cbn [flat_map filter]; [reflexivity|]. rewrite filter_app, IH. reflexivity. Qed.

Lemma flat_map_ext_In {A B} (f g : A -> list B) l :
  (forall a, In a l -> f a = g a) -> flat_map f l = flat_map g l.
Proof.
  induction l as [|a l IH]; intros H; cbn [flat_map]; [reflexivity|].
  rewrite (H a) by (left; reflexivity). rewrite IH; [reflexivity|]. intros x Hx. apply H. right. exact Hx.
Qed.

Lemma filter_none {A} (p : A -> bool) l : (forall x, In x l -> p x = false) -> filter p l = [].
Proof.
  induction l as [|a l IH]; intros H; cbn [filter]; [reflexivity|].
  rewrite (H a) by (left; reflexivity). apply IH. intros x Hx. apply H. right. exact Hx.
Qed.

Lemma In_promo_vals p : In p promo_vals -> p < 8.
Proof. cbn [promo_vals In]. intros H. repeat (destruct H as [<-|H]; [reflexivity|]). destruct H. Qed.

(* the list computed by the driver of stream c05 is exactly the list of accepted encodings *)
Theorem fast_accepted_eq b : fast_accepted b = filter (is_pseudo_legal b) all_encodings.
Proof.
  rewrite all_encodings_tbl. unfold enc_tbl, fast_accepted. rewrite filter_flat_map.
  apply flat_map_ext_In. intros pr Hpr. apply In_promo_vals in Hpr.
  rewrite filter_flat_map. apply flat_map_ext_In. intros from Hfrom. apply in_squares64 in Hfrom.
  destruct (worth b pr from) eqn:W; [reflexivity|].
  symmetry. apply filter_none. intros m Hm. unfold enc_row in Hm. apply in_map_iff in Hm.
  destruct Hm as [to [<- Hto]]. apply in_squares64 in Hto.
  destruct (is_pseudo_legal b (mk_move from to pr)) eqn:E; [|reflexivity].
  apply ipl_worth in E. rewrite mk_move_promo, mk_move_from in E by assumption. congruence.
Qed.

(* in the words of the stream: the model's accepted list is the ascending list of accepted encodings *)
Corollary run_c05_accepted b m : m < 32768 -> (In m (fast_accepted b) <-> is_pseudo_legal b m = true).
Proof.
  intros Hm. rewrite fast_accepted_eq, filter_In. split; [tauto|]. intros H. split; [|exact H].
  rewrite all_encodings_tbl. unfold enc_tbl. apply in_flat_map. exists (mv_promo m). split.
  - pose proof (mv_promo_lt m) as L. cbn [promo_vals In].
    assert (mv_promo m = 0 \/ mv_promo m = 1 \/ mv_promo m = 2 \/ mv_promo m = 3 \/ mv_promo m = 4 \/
            mv_promo m = 5 \/ mv_promo m = 6 \/ mv_promo m = 7) by lia. intuition.
  - apply in_flat_map. exists (mv_from m). split; [apply in_squares64, mv_from_lt|].
    unfold enc_row. apply in_map_iff. exists (mv_to m). split; [|apply in_squares64, mv_to_lt].
    symmetry. apply move_decode. exact Hm.
Qed.
