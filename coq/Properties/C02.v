(* Property C02: playing a legal move produces exactly the successor position the rules prescribe
   (placement, side to move, castling rights, halfmove clock, fullmove number), and an en-passant
   target is recorded iff a legal en-passant capture exists in the successor; the same through the
   UCI `position ... moves ...` command.

   Statements only; proofs in Proofs/Succ*.v.
     make, can_en_passant : Model/Board.v      (MakeMove, CanEnPassant; stream mk / c02)
     apply_moves, parse_uci_move : Model/ApplyMoves.v  (uci.go applyMoves / parseUCIMove; stream c02uci)
     abs, valid, legal_spec, succ_spec, ep_capturable : Spec/Chess.v     Rep : Spec/Rep.v *)
From Coq Require Import NArith ZArith List Bool.
From Chess3 Require Import Base.Bits Base.Word Model.Types Model.BoardDef Model.Board Model.Movegen Model.ApplyMoves.
From Chess3 Require Import Spec.Geometry Spec.Chess Spec.Rep Gen.Zobrist.
From Chess3 Require Import Proofs.SuccFacts Proofs.SuccMain Proofs.SuccRep Proofs.SuccValid.
Import ListNotations.
Open Scope N_scope.

(* ------------------------------------------------------------------------------------------ *)
(* one move: every field of the position, for every Zobrist table, every representable valid
   position, every legal move, every clock that cannot wrap (int16 after fix cb6b25d) *)
Theorem C02_succ : forall z b m,
  Rep b -> valid (abs b) = true -> (0 <= fifty b < 32767)%Z -> legal_spec (abs b) m = true ->
  abs (fst (make z b m)) = succ_spec (abs b) m.
Proof. exact C02_succ_valid. Qed.
Print Assumptions C02_succ.

(* the same under the weaker hypothesis [valid_core] (Proofs/SuccFacts.v): 64 squares, one king per
   side, side not to move not in check, en-passant target consistent - the part of [valid] the proof
   uses, and the part that legal moves are PROVED to preserve (C02_valid_core_step) *)
Theorem C02_succ_core : forall z b m,
  Rep b -> valid_core (abs b) = true -> (0 <= fifty b < 32767)%Z -> legal_spec (abs b) m = true ->
  abs (fst (make z b m)) = succ_spec (abs b) m.
Proof. exact C02_succ_proof. Qed.
Print Assumptions C02_succ_core.
Theorem C02_valid_implies_core : forall p, valid p = true -> valid_core p = true.
Proof. exact valid_valid_core. Qed.
Theorem C02_valid_core_step : forall z b m,
  Rep b -> valid_core (abs b) = true -> legal_spec (abs b) m = true -> valid_core (abs (fst (make z b m))) = true.
Proof. exact valid_core_make. Qed.
Print Assumptions C02_valid_core_step.

(* the hard clause by itself: after a double push CanEnPassant (an occupancy surgery on the board
   BEFORE the push) answers exactly whether the successor position records the passed-over square,
   i.e. (definition of succ_spec) whether some en-passant capture is legal there *)
Theorem C02_can_en_passant : forall b m,
  Rep b -> valid (abs b) = true -> legal_spec (abs b) m = true ->
  holds (abs b) (mv_from m) (stm b) Pawn = true ->
  (mv_to m = mv_from m + 16 \/ mv_to m + 16 = mv_from m) ->
  (can_en_passant b (mv_to m) = true <-> epsq (succ_spec (abs b) m) = Some ((mv_from m + mv_to m) / 2)).
Proof. exact can_en_passant_valid. Qed.
Print Assumptions C02_can_en_passant.

(* ------------------------------------------------------------------------------------------ *)
(* MakeMove keeps the representation invariant (any Zobrist table with 64-bit entries) *)
Theorem C02_make_Rep : forall z, zob_ok z ->
  forall b m, Rep b -> valid_core (abs b) = true -> legal_spec (abs b) m = true -> (0 <= fifty b < 32767)%Z ->
              Rep (fst (make z b m)).
Proof. exact make_Rep_proof. Qed.
Print Assumptions C02_make_Rep.

(* chains of legal moves (game histories of arbitrary length): no further hypothesis.  The position
   reached is again representable and valid_core, so the theorem can be applied again from there. *)
Theorem C02_chain : forall z, zob_ok z ->
  forall ms b, Rep b -> valid (abs b) = true -> (0 <= fifty b)%Z -> (fifty b + Z.of_nat (length ms) < 32768)%Z ->
  legal_chain (abs b) ms = true ->
  abs (play z b ms) = play_spec (abs b) ms /\ Rep (play z b ms) /\ valid_core (abs (play z b ms)) = true.
Proof. exact chain_valid. Qed.
Print Assumptions C02_chain.

(* ------------------------------------------------------------------------------------------ *)
(* the UCI move list: applyMoves plays exactly the longest prefix of tokens that parseUCIMove
   accepts (each accepted token is a pseudo-legal move of the board reached so far, each played by
   MakeMove), and stops at the first token it rejects *)
Theorem C02_uci : forall z toks b,
  let ms := accepted_moves z b toks in
  apply_moves z b toks = play z b ms /\
  exists pre rest, toks = pre ++ rest /\ parses z b pre ms /\
                   match rest with [] => True | t :: _ => parse_uci_move (play z b ms) t = None end.
Proof. exact uci_proof. Qed.
Print Assumptions C02_uci.

Theorem C02_uci_accepts_pseudo_legal : forall b t m, parse_uci_move b t = Some m -> is_pseudo_legal b m = true.
Proof. exact parse_pseudo_legal. Qed.
Print Assumptions C02_uci_accepts_pseudo_legal.

(* ... and when the accepted tokens are legal moves the position shown is the iterated successor *)
Theorem C02_uci_legal : forall z, zob_ok z ->
  forall toks b, Rep b -> valid (abs b) = true -> (0 <= fifty b)%Z ->
  (fifty b + Z.of_nat (length (accepted_moves z b toks)) < 32768)%Z ->
  legal_chain (abs b) (accepted_moves z b toks) = true ->
  abs (apply_moves z b toks) = play_spec (abs b) (accepted_moves z b toks).
Proof. exact uci_legal_valid. Qed.
Print Assumptions C02_uci_legal.

(* ------------------------------------------------------------------------------------------ *)
(* the clock never wraps for histories shorter than 32767 reversible plies (any moves at all) *)
Theorem C02_clock_step : forall z b m, (0 <= fifty b < 32767)%Z ->
  fifty (fst (make z b m)) = 0%Z \/ fifty (fst (make z b m)) = (fifty b + 1)%Z.
Proof. exact clock_step. Qed.
Print Assumptions C02_clock_step.

Theorem C02_clock : forall z ms b, (0 <= fifty b)%Z -> (fifty b + Z.of_nat (length ms) < 32768)%Z ->
  (0 <= fifty (play z b ms) <= fifty b + Z.of_nat (length ms))%Z.
Proof. exact clock_chain. Qed.
Print Assumptions C02_clock.

(* what the int8 clock did before fix cb6b25d (finding F5): 130 reversible plies from 0 read -126;
   the witness (start position + 130 knight moves) stays in the fixed cases of streams c02 / c02uci *)
Example C02_clock_int8_refuted : Nat.iter 130 (fun f => wrap8 (f + 1)) 0%Z = (-126)%Z.
Proof. exact clock8_130. Qed.
(* the bound of C02_clock is tight: the int16 clock wraps at 32767 *)
Example C02_clock_int16_limit : wrap16 (32767 + 1) = (-32768)%Z.
Proof. exact clock16_limit. Qed.

(* ------------------------------------------------------------------------------------------ *)
(* the hypotheses are satisfiable, on concrete engine boards (wire format of Model/BoardDef.v) *)

Definition board_of (l : list Z) : board :=
  match decode_board l with Some (b, _) => b | None => mkBoard [] [] [] [] 0 White 0 0 0 end.

(* rnbqkbnr/pppppppp/8/8/8/8/PPPPPPPP/RNBQKBNR w KQkq - 0 1 *)
Definition start_board : board := board_of
  [0xff00000000ff00; 0x4200000000000042; 0x2400000000000024; 0x8100000000000081; 0x800000000000008;
   0x1000000000000010; 0xffff; 0xffff000000000000; 0; 0; 15; 0; 1; 1; 0x7be0f7bfafc96dd6]%Z.
(* 8/8/8/1k6/3p4/8/4P3/5B1K w - - 0 1   (finding F2) *)
Definition f2_board : board := board_of
  [0x8001000; 0; 0x20; 0; 0; 0x200000080; 0x10a0; 0x208000000; 0; 0; 0; 0; 1; 1; 0x5b926892bff1f863]%Z.
(* 4k3/8/8/8/3p4/8/4P3/4K3 w - - 0 1 *)
Definition ep_board : board := board_of
  [0x8001000; 0; 0; 0; 0; 0x1000000000000010; 0x1010; 0x1000000008000000; 0; 0; 0; 0; 1; 1; 0x28e5a5d2a5e960e8]%Z.
Definition e2e4 : N := mk_move 12 28 0.

Example C02_succ_nonvacuous :
  rep_ok start_board = true /\ valid (abs start_board) = true /\ fifty start_board = 0%Z /\
  legal_spec (abs start_board) e2e4 = true /\
  turn (succ_spec (abs start_board) e2e4) = Black /\ epsq (succ_spec (abs start_board) e2e4) = None.
Proof. vm_compute. repeat split. Qed.

(* a double push that records a target, and the F2 position, where it must not (d4xe3 would leave
   the black king in the bishop's line): both sides of the iff of C02_can_en_passant occur *)
Example C02_ep_recorded :
  rep_ok ep_board = true /\ valid (abs ep_board) = true /\ legal_spec (abs ep_board) e2e4 = true /\
  can_en_passant ep_board 28 = true /\ epsq (succ_spec (abs ep_board) e2e4) = Some 20 /\
  ep (fst (make zob_real ep_board e2e4)) = 20.
Proof. vm_compute. repeat split. Qed.
Example C02_F2_witness :
  rep_ok f2_board = true /\ valid (abs f2_board) = true /\ legal_spec (abs f2_board) e2e4 = true /\
  can_en_passant f2_board 28 = false /\ epsq (succ_spec (abs f2_board) e2e4) = None /\
  ep (fst (make zob_real f2_board e2e4)) = 0.
Proof. vm_compute. repeat split. Qed.

Definition t_e2e4 := [101; 50; 101; 52].   (* "e2e4" *)
Definition t_e7e5 := [101; 55; 101; 53].
Definition t_g1f3 := [103; 49; 102; 51].
Definition t_e2e3q := [101; 50; 101; 51; 113].  (* finding F1: must not be played *)

(* the engine's Zobrist tables (regenerated from zobrist.go on every run) have 64-bit entries *)
Example C02_zob_real_ok : zob_ok zob_real.
Proof.
  repeat split.
  - intros c p s. unfold zob_real, z_piece. apply nthN_lt.
    assert (H : forallb (fun t => forallb (fun l => forallb (fun x => x <? two64) l) t) zob_pieces = true)
      by (vm_compute; reflexivity).
    rewrite forallb_forall in H.
    destruct (Nat.lt_ge_cases (N.to_nat (cix c)) (length zob_pieces)) as [L|L].
    + specialize (H _ (nth_In zob_pieces [] L)). fold (nthN zob_pieces (cix c) []) in H.
      rewrite forallb_forall in H.
      destruct (Nat.lt_ge_cases (N.to_nat p) (length (nthN zob_pieces (cix c) []))) as [L2|L2].
      * exact (H _ (nth_In _ [] L2)).
      * unfold nthN at 1. rewrite nth_overflow by exact L2. reflexivity.
    + unfold nthN at 2. rewrite nth_overflow by exact L. unfold nthN. destruct (N.to_nat p); reflexivity.
  - intros i. unfold zob_real, z_castle. apply nthN_lt. vm_compute. reflexivity.
  - intros f. unfold zob_real, z_ep. apply nthN_lt. vm_compute. reflexivity.
Qed.

Example C02_chain_nonvacuous :
  legal_chain (abs start_board) [e2e4; mk_move 52 36 0; mk_move 6 21 0] = true.
Proof. vm_compute. reflexivity. Qed.

(* `position startpos moves e2e4 e7e5 e2e3q g1f3`: the list stops at e2e3q *)
Example C02_uci_stops_at_bad_token :
  accepted_moves zob_real start_board [t_e2e4; t_e7e5; t_e2e3q; t_g1f3] = [e2e4; mk_move 52 36 0] /\
  parse_uci_move start_board t_e2e3q = None.
Proof. vm_compute. split; reflexivity. Qed.

(* Observation about uci.go (not a violation of C02, see DESIGN/report): squares are computed with
   wrap-around byte arithmetic and only the sum is range checked, so some strings that are not move
   notation denote moves for the engine: "i1a3" and "a2aS" are read as a2a3. *)
Example C02_uci_alias :
  parse_uci_move start_board [105; 49; 97; 51] = Some (mk_move 8 16 0) /\
  parse_uci_move start_board [97; 50; 97; 83] = Some (mk_move 8 16 0) /\
  parse_uci_move start_board [97; 50; 97; 51] = Some (mk_move 8 16 0).
Proof. vm_compute. repeat split. Qed.
