(* The specification of the exchange evaluation (Spec/SeeSpec.v) with the piece-value table as a
   parameter: "SEE equals the capture-sequence minimax for the piece values in force".  The
   definitions are Spec/SeeSpec.v's, verbatim, with [PieceValues] replaced by the section variable
   [tbl]; Proofs/SeeTable.v shows (by reflexivity) that the instance at the generated table is the
   specification of the C18 theorems.  Used by the judge of the c18 stream. *)
From Coq Require Import NArith ZArith List Bool.
From Chess3 Require Import Base.Bits Model.Types Spec.Geometry Model.BoardDef Spec.SeeSpec.
Import ListNotations.
Open Scope N_scope.

Section Table.
Variable tbl : list Z.   (* piece values, indexed by piece code *)

Definition value_t (p : N) : Z := nth (N.to_nat p) tbl 0%Z.

Definition least_value_t (A : list (N * N)) : Z :=
  match A with
  | [] => 0%Z
  | x :: r => fold_left (fun acc sp => Z.min acc (value_t (snd sp))) r (value_t (snd x))
  end.

Definition candidates_t (A : list (N * N)) : list (N * N) :=
  filter (fun sp => (value_t (snd sp) =? least_value_t A)%Z) A.

Fixpoint captures_t (fuel : nat) (b : board) (choice : list (N * N) -> N * N) (target : N)
                  (side : color) (occ : N) (standing : Z) : list Z :=
  match fuel with
  | O => []
  | S k =>
      match attackers_of b side occ target with
      | [] => []
      | A =>
          let '(s, p) := choice (candidates_t A) in
          if p =? King then
            (* the king takes only if the other side has no attacker left, and then nothing can take back *)
            if is_nil (attackers_of b (flip side) occ target) then [standing] else []
          else standing :: captures_t k b choice target (flip side) (clrb occ s) (value_t p)
      end
  end.

Definition swap_list_t (b : board) (m : N) (choice : list (N * N) -> N * N) : list Z :=
  let from := mv_from m in
  let to := mv_to m in
  let promo := mv_promo m in
  let promo_gain := if promo =? NoPiece then 0%Z else (value_t promo - value_t Pawn)%Z in
  let g0 := (value_t (piece_at b (victim_square b m)) + promo_gain)%Z in
  let standing := if promo =? NoPiece then value_t (piece_at b from) else value_t promo in
  let occ := clrb (occupancy b) from in
  let occ := if ep_capture b m then clrb occ (victim_square b m) else occ in
  g0 :: captures_t capture_fuel b choice to (flip (stm b)) occ standing.

Fixpoint all_replies_t (fuel : nat) (b : board) (target : N) (side : color) (occ : N) (standing : Z) : list Z :=
  match fuel with
  | O => [0%Z]
  | S k =>
      match attackers_of b side occ target with
      | [] => [0%Z]
      | A =>
          dedup (flat_map (fun sp =>
            let '(s, p) := sp in
            if p =? King then
              (if is_nil (attackers_of b (flip side) occ target) then [Z.max 0 standing] else [0%Z])
            else map (fun x => Z.max 0 (standing - x))
                     (all_replies_t k b target (flip side) (clrb occ s) (value_t p))) (candidates_t A))
      end
  end.

Definition all_balances_t (b : board) (m : N) : list Z :=
  let from := mv_from m in
  let to := mv_to m in
  let promo := mv_promo m in
  let promo_gain := if promo =? NoPiece then 0%Z else (value_t promo - value_t Pawn)%Z in
  let g0 := (value_t (piece_at b (victim_square b m)) + promo_gain)%Z in
  let standing := if promo =? NoPiece then value_t (piece_at b from) else value_t promo in
  let occ := clrb (occupancy b) from in
  let occ := if ep_capture b m then clrb occ (victim_square b m) else occ in
  map (fun x => (g0 - x)%Z) (all_replies_t capture_fuel b to (flip (stm b)) occ standing).

End Table.
