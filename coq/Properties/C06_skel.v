(* C06, Layer A (control skeleton) - "When the search returns, the position object it was given is
   identical to what it was before the call, and the same engine instance can be searched again",
   for every abort point.  Statements only; proofs in Proofs/Skel*.v.

   Gen.SearchSkel.ftable is the statement tree that harness/cmd/gen/skel.go extracted from the
   CURRENT search/search.go + search/state.go; `exec` is the big-step semantics of Model/Skel.v over
   an abstract machine.  The theorems quantify over every execution of that skeleton: every
   resolution of the abstracted conditions (= any position, limits, TT content, parameter values),
   every arrival time of the stop signal and every hard node budget (= every abort point), any
   recursion depth.  The position type B, the move type M, the undo token T and make/undo are
   arbitrary; C03 (undo after make is the identity) enters as the explicit hypotheses undo_make_id /
   undo_null_id and is to be discharged by C03's theorem.

   Trusted: the translator's abstraction (harness/cmd/gen/skel.go, documented there and in the
   evidence): recognised calls become atoms, everything else touching tracked state fails closed. *)
From Coq Require Import String List ZArith Bool.
From Chess3 Require Import Model.Skel Model.SkelCheck Gen.SearchSkel
  Proofs.SkelInstances Proofs.SkelTheorems Proofs.SkelExamples.
Import ListNotations.
Open Scope string_scope.

(* the checker accepts the skeleton of the current source (recomputed on every run) *)
Theorem C06_skeleton_balanced : table_ok (bal_dom resetters) ftable = true.
Proof. exact table_balanced. Qed.
Print Assumptions C06_skeleton_balanced.

(* iterativeDeepen, alphaBeta, quiescence and every helper: board, move store (allocIx and frames)
   and history stack depth are exactly restored, whatever path was taken (continue, break, goto Fin,
   cut-off return, abort return) *)
Theorem C06_board_untouched :
  forall (B M T : Type) (make : M -> B -> B * T) (undo : M -> T -> B -> B)
         (make_null : B -> B * T) (undo_null : T -> B -> B),
  (forall m b b' t, make m b = (b', t) -> undo m t b' = b) ->              (* undo_make_id (C03) *)
  (forall b b' t, make_null b = (b', t) -> undo_null t b' = b) ->          (* undo_null_id (C03) *)
  forall f p c c',
  mem f resetters = false ->
  exec B M T make undo make_null undo_null ftable (Call f p) c ONormal c' ->
  board B M (fst c') = board B M (fst c)
  /\ ms_alloc B M (fst c') = ms_alloc B M (fst c) /\ ms_frames B M (fst c') = ms_frames B M (fst c)
  /\ hdepth B M (fst c') = hdepth B M (fst c).
Proof. exact skel_board_untouched. Qed.
Print Assumptions C06_board_untouched.

(* Search.Go itself (f = "Go"; also refresh): board untouched; move store and history stack are
   left empty whatever state they were in, so the instance can be searched again *)
Theorem C06_go_board_untouched :
  forall (B M T : Type) (make : M -> B -> B * T) (undo : M -> T -> B -> B)
         (make_null : B -> B * T) (undo_null : T -> B -> B),
  (forall m b b' t, make m b = (b', t) -> undo m t b' = b) ->
  (forall b b' t, make_null b = (b', t) -> undo_null t b' = b) ->
  forall f p c c',
  mem f resetters = true ->
  exec B M T make undo make_null undo_null ftable (Call f p) c ONormal c' ->
  board B M (fst c') = board B M (fst c)
  /\ ms_alloc B M (fst c') = 0 /\ ms_frames B M (fst c') = [] /\ hdepth B M (fst c') = 0.
Proof. exact skel_go_board_untouched. Qed.
Print Assumptions C06_go_board_untouched.

(* refresh (first statement of Search.Go) clears the sticky abort flag *)
Theorem C06_refresh_rearms :
  forall (B M T : Type) (make : M -> B -> B * T) (undo : M -> T -> B -> B)
         (make_null : B -> B * T) (undo_null : T -> B -> B) p c c',
  exec B M T make undo make_null undo_null ftable (Call "refresh" p) c ONormal c' ->
  aborted B M (fst c') = false.
Proof. exact skel_refresh_clears_abort. Qed.
Print Assumptions C06_refresh_rearms.

(* well-formedness of the generated table: no call can get stuck on a missing function, and the
   search functions are all there *)
Theorem C06_skeleton_closed : forallb (fun fb => calls_defined ftable (snd fb)) ftable = true.
Proof. exact all_calls_defined. Qed.
Print Assumptions C06_skeleton_closed.

(* non-vacuity: a concrete machine (positions = lists, make = cons, undo = tl) satisfies the C03
   hypotheses, "Go" is a resetter and "alphaBeta" is not, and the generated skeleton has a complete
   execution of Search.Go from a dirty engine state (flag set, store and stack non-empty) that counts
   nodes, stores into the table and builds a PV *)
Example C06_nonvacuous :
  (forall m b b' t, cmake m b = (b', t) -> cundo m t b' = b)
  /\ (forall b b' t, cmake_null b = (b', t) -> cundo_null t b' = b)
  /\ mem "Go" resetters = true /\ mem "alphaBeta" resetters = false /\ mem "quiescence" resetters = false
  /\ exists c', exec cB cM cT cmake cundo cmake_null cundo_null ftable (Call "Go" PlyKeep) (cstate0 1000) ONormal c'
                /\ (0 < nodes _ _ (fst c'))%Z /\ 0 < stores _ _ (fst c') /\ pv _ _ (fst c') 0 <> [].
Proof.
  split; [exact cundo_make_id|]. split; [exact cundo_null_id|].
  split; [reflexivity|]. split; [reflexivity|]. split; [reflexivity|]. exact go_run_exists.
Qed.
