(* The top-level lemmas behind Properties/C03.v and Properties/C04.v (same statements, with their proofs). *)
From Coq Require Import NArith ZArith List Bool.
From Chess3 Require Import Base.Bits Model.Types Model.BoardDef Model.Board Model.Movegen Gen.Zobrist Spec.Rep
  Spec.Applicable Proofs.BoardInv Proofs.UndoMove Proofs.HashInv Proofs.PseudoApplicable Proofs.BoardExamples.
Import ListNotations.
Open Scope N_scope.

Lemma C03_move_l : forall z b m, Rep b -> applicable b m = true ->
  let '(b', t) := make z b m in undo z b' m t = b.
Proof.
  intros z b m HR HA. pose proof (undo_make z b m (Rep_RepW b HR) HA) as H.
  destruct (make z b m) as [b' t]. exact H.
Qed.

Lemma C03_null_l : forall z b, Rep b ->
  let '(b', t) := make_null z b in undo_null b' t = b.
Proof.
  intros z b HR. pose proof (undo_null_make_null z b (Rep_RepW b HR)) as H.
  destruct (make_null z b) as [b' t]. exact H.
Qed.

Lemma C03_pseudo_legal_move_l : forall z b m,
  Rep b -> ep_inv b = true -> castle_inv b = true -> is_pseudo_legal b m = true ->
  let '(b', t) := make z b m in undo z b' m t = b.
Proof.
  intros z b m HR HE HC HI. apply C03_move_l; [exact HR|apply pseudo_legal_applicable; assumption].
Qed.

Lemma C03_nested_l : forall z ops b, Rep b -> applicable_all z b ops ->
  let '(b', st) := make_all z b ops [] in undo_all z b' st = b.
Proof.
  intros z ops b HR HA. pose proof (undo_all_make_all z ops b [] (Rep_RepW b HR) HA) as H.
  destruct (make_all z b ops []) as [b' st]. exact H.
Qed.

Lemma C03_walk_l : forall z evs b, Rep b -> walk_ok z b [] evs ->
  let '(b', st) := walk z b [] evs in undo_all z b' st = b.
Proof.
  intros z evs b HR HW. pose proof (walk_restores z evs b (Rep_RepW b HR) HW) as H.
  destruct (walk z b [] evs) as [b' st]. exact H.
Qed.

Lemma C03_token_fields_l : forall r fc c e p,
  (-32768 <= fc < 32768)%Z -> c < 16 -> e < 64 -> p < 8 ->
  let t := tok_set_ep (tok_set_capture (tok_set_castling (tok_set_fifty r fc) c) p) e in
  tok_fifty t = fc /\ tok_castling t = c /\ tok_capture t = p /\ tok_ep t = e.
Proof.
  intros r fc c e p Hf Hc He Hp. cbv zeta. repeat split.
  - rewrite tok_fifty_set_ep, tok_fifty_set_capture, tok_fifty_set_castling by assumption.
    apply tok_fifty_set_fifty. exact Hf.
  - rewrite tok_castling_set_ep, tok_castling_set_capture by assumption. apply tok_castling_set_castling. exact Hc.
  - rewrite tok_capture_set_ep by assumption. apply tok_capture_set_capture. exact Hp.
  - apply tok_ep_set_ep. exact He.
Qed.

Lemma C04_inv_l : forall z ops b0, Rep b0 -> cur_hash b0 = calc_hash z b0 -> applicable_all z b0 ops ->
  let b := run z b0 ops in RepW b /\ cur_hash b = calc_hash z b.
Proof.
  intros z ops b0 HR HO HA. exact (run_hash_ok z ops b0 (Rep_RepW b0 HR) HO HA).
Qed.

Lemma C04_inv_Rep_l : forall z ops b0, zob_w64 z -> Rep b0 -> cur_hash b0 = calc_hash z b0 -> applicable_all z b0 ops ->
  let b := run z b0 ops in Rep b /\ cur_hash b = calc_hash z b.
Proof.
  intros z ops b0 Z HR HO HA. split; [apply run_Rep; assumption|].
  apply (run_hash_ok z ops b0 (Rep_RepW b0 HR) HO HA).
Qed.

Lemma C04_one_placement_l : forall b, RepW b ->
  (forall s p, s < 64 -> p <> NoPiece -> (piece_at b s = p <-> N.testbit (pieces b p) s = true)) /\
  (forall p q, p <> q -> band (pieces b p) (pieces b q) = 0) /\
  band (colors b White) (colors b Black) = 0 /\
  bor (colors b White) (colors b Black) = piece_union b.
Proof.
  intros b H. apply RepP_words. apply (rw_p b H).
Qed.

Lemma C04_walk_l : forall z evs b0, Rep b0 -> cur_hash b0 = calc_hash z b0 -> walk_ok z b0 [] evs ->
  let b := fst (walk z b0 [] evs) in RepW b /\ cur_hash b = calc_hash z b.
Proof.
  intros z evs b0 HR HO HW.
  exact (walk_hash_ok z evs b0 [] (Rep_RepW b0 HR) HO (soh_nil z b0) HW).
Qed.

Lemma C04_reset_l : forall z b, Rep b ->
  RepW (reset_hash z b) /\ cur_hash (reset_hash z b) = calc_hash z (reset_hash z b) /\
  (zob_w64 z -> Rep (reset_hash z b)).
Proof.
  intros z b HR. split; [apply reset_hash_RepW, Rep_RepW; exact HR|]. split; [apply reset_hash_ok|].
  intros Z. apply reset_hash_Rep; [exact Z|apply Rep_RepW; exact HR].
Qed.

Lemma C04_transposition_l : forall z ops1 ops2 b0, Rep b0 -> cur_hash b0 = calc_hash z b0 ->
  applicable_all z b0 ops1 -> applicable_all z b0 ops2 ->
  hkey (run z b0 ops1) = hkey (run z b0 ops2) -> cur_hash (run z b0 ops1) = cur_hash (run z b0 ops2).
Proof.
  intros z ops1 ops2 b0 HR. exact (transposition z ops1 ops2 b0 (Rep_RepW b0 HR)).
Qed.
