(* C12 finite sweep, shard R3: by vm_compute, for each listed square, over EVERY subset of its
   relevant-occupancy mask (see Proofs/AttacksSweepDefs.v for what is checked). Re-checked whenever
   Gen/AttackTables.v (masks, magics, shifts read from the working tree) changes. *)
From Coq Require Import NArith List Bool.
From Chess3 Require Import Proofs.AttacksSweepDefs.
Import ListNotations.
Open Scope N_scope.
Definition rook_squares_3 : list N := [3; 12; 21; 30; 39; 40; 49; 58].
Lemma rook_sweep_3 : forallb rook_sweep_sq rook_squares_3 = true.
Proof. vm_cast_no_check (@eq_refl bool true). Qed.
