#!/usr/bin/env python3
# prints the setter definitions for Model/Uci.v's state record (pasted into the file; not used at build time)
fields = ["script","sent_go","seen_best","rd","hd","d_ponder","cur","cur_g","fuel","ph_got","it","timer","ph_chan","ph_sent","fin","out","out_closed","wr_done","written"]
for f in fields:
    body = "; ".join(f"{g} := {'v' if g==f else g+' s'}" for g in fields)
    print(f"Definition set_{f} v (s : state) : state :=\n  {{| {body} |}}.")
