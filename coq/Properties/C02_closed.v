(* C02, closed form - playing legal moves from a valid position: the position reached is the iterated
   successor of the rules, and it is again representable, VALID (the full [valid] of Spec/Chess.v, not
   only the [valid_core] part that Properties/C02.v re-establishes) and follows the engine's en-passant
   convention; so every theorem stated "for every valid position" applies to it again.
   Statements only; proofs in Proofs/ComposeSucc.v and Proofs/ComposeReach.v.

   Composition of C02 (Proofs/Succ*.v) with valid_step / succ_normal_ep (Proofs/ValidStep.v), C03
   (make_Rep through "a legal move is applicable") and C04 (hash_ok_make).
   [zob_ok] (C02) and [zob_w64] (C03/C04) are the same predicate: 64-bit table entries. *)
From Coq Require Import NArith ZArith List Bool.
From Chess3 Require Import Base.Bits Base.Word Model.Types Model.BoardDef Model.Board Model.Movegen.
From Chess3 Require Import Spec.Geometry Spec.Chess Spec.Rep Spec.RepLinks Spec.Play Gen.Zobrist.
From Chess3 Require Import Proofs.SuccFacts Proofs.SuccMain Proofs.SuccRep Proofs.SuccValid.
From Chess3 Require Import Proofs.ComposeClock Proofs.ComposeSucc Proofs.ComposeReach.
From Chess3 Require Proofs.UndoMove Proofs.HashInv Proofs.BoardExamples.
Import ListNotations.
Open Scope N_scope.

Theorem C02_zob_ok_is_zob_w64 : forall z, zob_ok z <-> UndoMove.zob_w64 z.
Proof. exact zob_ok_w64. Qed.
Print Assumptions C02_zob_ok_is_zob_w64.

(* one move, no clock hypothesis: every field but the clocks is that of the rules' successor *)
Theorem C02_succ_any_clock : forall z b m,
  Rep b -> valid (abs b) = true -> legal_spec (abs b) m = true ->
  same_core (abs (fst (make z b m))) (succ_spec (abs b) m).
Proof. exact make_same_core. Qed.
Print Assumptions C02_succ_any_clock.

(* one move keeps everything the "for every valid position" theorems ask for *)
Theorem C02_step_invariants : forall z, UndoMove.zob_w64 z -> forall b m,
  Rep b -> valid (abs b) = true -> legal_spec (abs b) m = true ->
  let b' := fst (make z b m) in
  Rep b' /\ valid (abs b') = true /\ normal_ep (abs b') = true /\
  same_core (abs b') (succ_spec (abs b) m) /\
  (cur_hash b = calc_hash z b -> cur_hash b' = calc_hash z b').
Proof. exact make_inv. Qed.
Print Assumptions C02_step_invariants.

(* C02_chain with the full [valid] and normal_ep in the conclusion *)
Theorem C02_chain_valid : forall z, zob_ok z ->
  forall ms b, Rep b -> valid (abs b) = true -> (0 <= fifty b)%Z -> (fifty b + Z.of_nat (length ms) < 32768)%Z ->
  legal_chain (abs b) ms = true ->
  abs (play z b ms) = play_spec (abs b) ms /\ Rep (play z b ms) /\ valid (abs (play z b ms)) = true /\
  (normal_ep (abs b) = true \/ ms <> [] -> normal_ep (abs (play z b ms)) = true).
Proof. exact chain_valid_full. Qed.
Print Assumptions C02_chain_valid.

(* chains of any length and any clock: a chain that is legal by the rules is a line of legal moves on
   the boards, and the board reached agrees with the iterated successor in every field but the clocks *)
Theorem C02_chain_any_clock : forall z, UndoMove.zob_w64 z ->
  forall ms b, Rep b -> valid (abs b) = true -> legal_chain (abs b) ms = true ->
  legal_line z b ms /\ same_core (abs (run z b ms)) (play_spec (abs b) ms) /\
  Rep (run z b ms) /\ valid (abs (run z b ms)) = true.
Proof.
  intros z Hz ms b HR HV HL.
  pose proof (legal_chain_line z Hz ms b HR HV HL) as LL.
  destruct (run_inv_Rep z Hz ms b HR HV LL) as (R & V & _).
  split; [exact LL|]. split; [apply run_same_core; assumption|]. split; assumption.
Qed.
Print Assumptions C02_chain_any_clock.

Theorem C02_play_is_run : forall z ms b, play z b ms = run z b ms.
Proof. intros z ms b. apply play_run. Qed.
Print Assumptions C02_play_is_run.

(* non-vacuity *)
Example C02_closed_nonvacuous :
  Rep BoardExamples.ex_start /\ valid (abs BoardExamples.ex_start) = true /\ UndoMove.zob_w64 zob_real /\
  fifty BoardExamples.ex_start = 0%Z /\
  legal_chain (abs BoardExamples.ex_start) [mk_move 12 28 0; mk_move 52 36 0; mk_move 6 21 0] = true.
Proof.
  split; [vm_compute; reflexivity|]. split; [vm_compute; reflexivity|]. split; [exact BoardExamples.zob_real_w64|].
  split; vm_compute; reflexivity.
Qed.
