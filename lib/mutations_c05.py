#!/usr/bin/env python3
"""Mutation trial for C05: apply one textual edit to a private worktree, run the quick check, restore.

Create the worktree first:  git -C /repo worktree add --detach /root/scratch/c05-repo HEAD
(remove it afterwards:     git -C /repo worktree remove --force /root/scratch/c05-repo).
Usage: python3 lib/mutations_c05.py [mutation-name ...]   (default: all; ends with a run on the unchanged worktree)
"""
import subprocess, sys, os, json, re
REPO = "/root/scratch/c05-repo"
VERIF = os.path.dirname(os.path.dirname(os.path.abspath(__file__)))
MUTS = {
 "M1-revert-06f039b-promo-bits": ("board/board.go",
   "\t\t\tif m.Promo() < Knight || m.Promo() > Queen {\n\t\t\t\treturn false\n\t\t\t}\n\t\t} else if m.Promo() != NoPiece {\n\t\t\treturn false\n\t\t}",
   "\t\t\tif m.Promo() == NoPiece {\n\t\t\t\treturn false\n\t\t\t}\n\t\t}"),
 "M2-double-push-from-any-rank": ("board/board.go",
   "\t\t\t\tif fromBB&RankBB(SecondRank.FromPerspectiveOf(b.STM)) == 0 {\n\t\t\t\t\treturn false\n\t\t\t\t}\n", ""),
 "M3-pawn-direction-not-checked": ("board/board.go",
   "\t\tif (from < to && b.STM == Black) || (from > to && b.STM == White) {\n\t\t\treturn false\n\t\t}\n", ""),
 "M4-long-castle-without-B1-test": ("board/board.go",
   "BitBoardFromSquares(D1, C1, B1)&occ != 0", "BitBoardFromSquares(D1, C1)&occ != 0"),
 "M5-king-step-two-files": ("board/board.go",
   "\t\t\tif attacks.KingMoves(from)&toBB == 0 {", "\t\t\tif (attacks.KingMoves(from)|fromBB<<2)&toBB == 0 {"),
 "M6-queen-rook-or-rook": ("board/board.go",
   "(attacks.RookMoves(from, occ)|attacks.BishopMoves(from, occ))&toBB == 0", "(attacks.RookMoves(from, occ)|attacks.RookMoves(from, occ))&toBB == 0"),
 "M7-own-piece-on-to-not-checked-for-king": ("board/board.go",
   "\tif b.Colors[b.STM]&toBB != 0 {\n\t\treturn false\n\t}\n", "\tif b.Colors[b.STM]&toBB != 0 && b.SquaresToPiece[from] != King {\n\t\treturn false\n\t}\n"),
 "M8-black-short-castle-attack-test-on-wrong-squares": ("board/board.go",
   "b.IsAttacked(b.STM.Flip(), occ, BitBoardFromSquares(E8, F8, G8))", "b.IsAttacked(b.STM.Flip(), occ, BitBoardFromSquares(E8, F8))"),
 "M9-en-passant-square-ignored": ("board/board.go",
   "\t\t\tif b.EnPassant != 0 {\n\t\t\t\tenPassant = BitBoard(1) << b.EnPassant\n\t\t\t}\n", ""),
 "M10-promo-allowed-for-knights": ("board/board.go",
   "\tif m.Promo() != NoPiece && piece != Pawn {", "\tif m.Promo() != NoPiece && piece != Pawn && piece != Knight {"),
 "M11-generator-long-castle-ignores-B1": ("movegen/movegen.go",
   "g.occ&(castleMask>>1) == 0", "g.occ&(castleMask>>1)&castleMask == 0"),
 "M12-generator-underpromotion-to-knight-missing-on-pushes": ("movegen/movegen.go",
   "\t\t\tms.Alloc(move.From(from) | move.To(from+shift) | move.Promo(promo))", "\t\t\tif promo != Knight {\n\t\t\t\tms.Alloc(move.From(from) | move.To(from+shift) | move.Promo(promo))\n\t\t\t}"),
 "M13-uci-parse-without-gate": ("uci/uci.go",
   "\tif !b.IsPseudoLegal(m) {\n\t\treturn 0, errors.New(\"uci move not pseudo-legal\")\n\t}\n", "\t_ = b\n"),
 "M14-uci-promotion-letters-n-b-swapped": ("uci/uci.go",
   "\t\tcase 'b':\n\t\t\tpromo = Bishop\n\t\tcase 'n':\n\t\t\tpromo = Knight", "\t\tcase 'b':\n\t\t\tpromo = Knight\n\t\tcase 'n':\n\t\t\tpromo = Bishop"),
}
def sh(cmd, **kw):
    return subprocess.run(cmd, shell=True, text=True, stdout=subprocess.PIPE, stderr=subprocess.STDOUT, **kw)
def main():
    names = sys.argv[1:] or list(MUTS)
    for name in names:
        rel, old, new = MUTS[name]
        path = os.path.join(REPO, rel)
        sh(f"git -C {REPO} checkout -- .")
        src = open(path).read()
        if src.count(old) != 1:
            print(f"{name}: pattern found {src.count(old)} times, skipped"); continue
        open(path, "w").write(src.replace(old, new))
        r = sh(f"cd {VERIF} && VERIF_REPO={REPO} ./check C05 --tier quick")
        lines = [l for l in r.stdout.split("\n") if "VIOLATION" in l or "does not build" in l or "[check] C05" in l]
        print(f"== {name}: exit {r.returncode}")
        for l in lines: print("   ", l)
        for l in lines:
            m = re.search(r"replay=(\S+)", l)
            if m and os.path.exists(m.group(1)):
                w = json.load(open(m.group(1)))
                print("      replay:", w.get("stream"), "|", w.get("desc"), "| verdict", w.get("verdict"))
        sh(f"git -C {REPO} checkout -- .")
    r = sh(f"cd {VERIF} && VERIF_REPO={REPO} ./check C05 --tier quick")
    print("== unchanged worktree: exit", r.returncode, [l for l in r.stdout.split("\n") if "VIOLATION" in l or "[check] C05" in l])
main()
