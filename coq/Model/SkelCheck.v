(* Checkers for the control skeleton (Layer A of C06/C07/C08): one generic path analyser over an
   abstract domain, and the three domains that are run on Gen/SearchSkel.v.  Definitions only;
   soundness (proved once, for every statement tree) is in Proofs/SkelProofs.v. *)
From Coq Require Import String List ZArith Bool.
From Chess3 Require Import Model.Skel.
Import ListNotations.
Open Scope string_scope.

(* ---------------------------------------------------------------------------------------------- *)
(* decidable equalities used to merge equal analysis states *)

Definition plyarg_eqb (a b : plyarg) : bool :=
  match a, b with
  | PlyRel k, PlyRel k' => Nat.eqb k k'
  | PlyAbs n, PlyAbs n' => Nat.eqb n n'
  | PlyKeep, PlyKeep => true
  | _, _ => false
  end.

Definition atom_eqb (a b : atom) : bool :=
  match a, b with
  | Make x p r, Make x' p' r' => String.eqb x x' && String.eqb p p' && String.eqb r r'
  | Undo x p r, Undo x' p' r' => String.eqb x x' && String.eqb p p' && String.eqb r r'
  | MakeNull r, MakeNull r' => String.eqb r r'
  | UndoNull r, UndoNull r' => String.eqb r r'
  | Havoc x, Havoc x' => String.eqb x x'
  | MsPush, MsPush | MsPop, MsPop | MsAlloc, MsAlloc | MsClear, MsClear => true
  | HPush, HPush | HPop, HPop | HReset, HReset => true
  | IncNodes, IncNodes | ClearAbort, ClearAbort | PonderOff, PonderOff | TTLookup, TTLookup => true
  | TTInsert t, TTInsert t' => String.eqb t t'
  | HistUpdate t, HistUpdate t' => String.eqb t t'
  | PvSetNull, PvSetNull => true
  | PvInsert x p, PvInsert x' p' => String.eqb x x' && String.eqb p p'
  | GenIncr, GenIncr | FreshCounters, FreshCounters => true
  | SetC c vs v, SetC c' vs' v' => String.eqb c c' && list_eqb String.eqb vs vs' && Bool.eqb v v'
  | _, _ => false
  end.

Definition outcome_eqb (a b : outcome) : bool :=
  match a, b with
  | ONormal, ONormal | OReturn, OReturn | OBreak, OBreak | OContinue, OContinue | OHalt, OHalt => true
  | OGoto l, OGoto l' => String.eqb l l'
  | _, _ => false
  end.

Definition mem (x : string) (l : list string) : bool := existsb (String.eqb x) l.

(* ---------------------------------------------------------------------------------------------- *)
(* abstract domains *)

Record domain := {
  A : Type;
  a_eqb : A -> A -> bool;
  a_le : A -> A -> bool;                       (* x below y: y describes at least the states of x *)
  a_widen : A -> A;                            (* used (up to twice) at loop heads when the first try fails *)
  tf_atom : atom -> A -> option A;             (* None: the check fails *)
  tf_abort : A -> A * option A;                (* s.abort(opts) true / false (None: cannot be false) *)
  tf_test : string -> list string -> bool -> A -> option A;   (* the condition has this truth value (None: it cannot) *)
  call_plan : string -> plyarg -> A -> option (A * A);   (* (state at callee entry, state after) *)
  entries : string -> list A;                  (* entry states on which the function f is checked *)
  exit_ok : string -> A -> A -> bool           (* f, entry state, state at exit (after the defers) *)
}.

Section Analyse.
Variable D : domain.

Definition ast := (A D * list atom)%type.                 (* abstract state, pending defers *)
Definition ares := list (outcome * ast).

Definition ast_eqb (x y : ast) : bool := a_eqb D (fst x) (fst y) && list_eqb atom_eqb (snd x) (snd y).
Definition ast_le (x y : ast) : bool := a_le D (fst x) (fst y) && list_eqb atom_eqb (snd x) (snd y).
Definition ares_eqb (x y : outcome * ast) : bool := outcome_eqb (fst x) (fst y) && ast_eqb (snd x) (snd y).

Definition add (e : outcome * ast) (r : ares) : ares := if existsb (ares_eqb e) r then r else e :: r.
Definition union (a b : ares) : ares := fold_right add b a.

Fixpoint bind (r : ares) (f : outcome -> ast -> option ares) : option ares :=
  match r with
  | [] => Some []
  | (o, y) :: r' =>
      match f o y, bind r' f with
      | Some a, Some b => Some (union a b)
      | _, _ => None
      end
  end.

Definition map_out (f : outcome -> outcome) (r : ares) : ares :=
  fold_right (fun e acc => add (f (fst e), snd e) acc) [] r.

Definition uncont (o : outcome) : outcome := match o with OContinue => ONormal | _ => o end.
Definition unbreak (o : outcome) : outcome := match o with OBreak => ONormal | _ => o end.

(* what leaves a loop: Break ends it normally, Return / Goto pass through *)
Definition loop_out (r : ares) : ares :=
  fold_right (fun e acc => if is_back (fst e) then acc else add (unbreak (fst e), snd e) acc) [] r.

Definition back_ok (xh : ast) (r : ares) : bool :=
  forallb (fun e => negb (is_back (fst e)) || ast_le (snd e) xh) r.

Definition loop_at (body : ast -> option ares) (xh : ast) : option ares :=
  match body xh with
  | Some r => if back_ok xh r then Some (loop_out r) else None
  | None => None
  end.

Fixpoint an (s : stmt) (x : ast) {struct s} : option ares :=
  match s with
  | Skip => Some [(ONormal, x)]
  | Atom a => match tf_atom D a (fst x) with Some y => Some [(ONormal, (y, snd x))] | None => None end
  | Seq s1 s2 =>
      match an s1 x with
      | None => None
      | Some r1 =>
          bind r1 (fun o y => match o with
                              | ONormal => an s2 y
                              | OGoto l => an_goto l s2 y
                              | _ => Some [(o, y)]
                              end)
      end
  | If s1 s2 =>
      match an s1 x, an s2 x with
      | Some a, Some b => Some (union a b)
      | _, _ => None
      end
  | IfAborted s1 s2 =>
      match an s1 (fst (tf_abort D (fst x)), snd x),
            match snd (tf_abort D (fst x)) with Some e => an s2 (e, snd x) | None => Some [] end with
      | Some a, Some b => Some (union a b)
      | _, _ => None
      end
  | IfC c vs neg s1 s2 =>
      match match tf_test D c vs (negb neg) (fst x) with Some y => an s1 (y, snd x) | None => Some [] end,
            match tf_test D c vs neg (fst x) with Some y => an s2 (y, snd x) | None => Some [] end with
      | Some a, Some b => Some (union a b)
      | _, _ => None
      end
  | Loop b =>
      match loop_at (an b) x with
      | Some r => Some r
      | None =>
          match loop_at (an b) (a_widen D (fst x), snd x) with
          | Some r => Some r
          | None => loop_at (an b) (a_widen D (a_widen D (fst x)), snd x)
          end
      end
  | CatchCont s1 => match an s1 x with Some r => Some (map_out uncont r) | None => None end
  | CatchBreak s1 => match an s1 x with Some r => Some (map_out unbreak r) | None => None end
  | Defer a => Some [(ONormal, (fst x, a :: snd x))]
  | Call f p =>
      match call_plan D f p (fst x) with
      | Some (xin, xout) => if existsb (a_eqb D xin) (entries D f) then Some [(ONormal, (xout, snd x))] else None
      | None => None
      end
  | Return => Some [(OReturn, x)]
  | Break => Some [(OBreak, x)]
  | Continue => Some [(OContinue, x)]
  | Goto l => Some [(OGoto l, x)]
  | Label _ => Some [(ONormal, x)]
  end
with an_goto (l : string) (s : stmt) (x : ast) {struct s} : option ares :=
  match s with
  | Seq a b =>
      match a with
      | Label l' => if String.eqb l l' then an b x else an_goto l b x
      | _ => an_goto l b x
      end
  | Label l' => if String.eqb l l' then Some [(ONormal, x)] else Some [(OGoto l, x)]
  | _ => Some [(OGoto l, x)]
  end.

Fixpoint run_defers (dl : list atom) (x : A D) : option (A D) :=
  match dl with
  | [] => Some x
  | a :: r => match tf_atom D a x with Some y => run_defers r y | None => None end
  end.

(* a function body checked from one entry state *)
Definition fn_ok_at (f : string) (body : stmt) (xin : A D) : bool :=
  match an body (xin, []) with
  | None => false
  | Some r =>
      forallb (fun e => is_exit (fst e) &&
                        match run_defers (snd (snd e)) (fst (snd e)) with
                        | Some z => exit_ok D f xin z
                        | None => false
                        end) r
  end.

Definition fn_ok (f : string) (body : stmt) : bool := forallb (fn_ok_at f body) (entries D f).

Definition table_ok (t : list (string * stmt)) : bool := forallb (fun fb => fn_ok (fst fb) (snd fb)) t.

(* every Call in the table names a function of the table (otherwise the execution is stuck there,
   which would make statements about executions vacuous) *)
Fixpoint calls_defined (t : list (string * stmt)) (s : stmt) : bool :=
  match s with
  | Seq a b | If a b | IfAborted a b | IfC _ _ _ a b => calls_defined t a && calls_defined t b
  | Loop a | CatchCont a | CatchBreak a => calls_defined t a
  | Call f _ => match lookup f t with Some _ => true | None => false end
  | _ => true
  end.

End Analyse.

(* ---------------------------------------------------------------------------------------------- *)
(* Domain 1 - balance: every Make closed by the Undo of the same (move, token), every MsPush by its
   Pop, every HPush by its HPop.  Relative to the state at function entry, or absolute after a reset
   (MsClear / HReset in refresh). *)

Inductive tok := TMove (x p r : string) | TNull (r : string).

Definition tok_eqb (a b : tok) : bool :=
  match a, b with
  | TMove x p r, TMove x' p' r' => String.eqb x x' && String.eqb p p' && String.eqb r r'
  | TNull r, TNull r' => String.eqb r r'
  | _, _ => false
  end.

Definition tok_uses (y : string) (t : tok) : bool :=
  match t with
  | TMove x _ r => String.eqb y x || String.eqb y r
  | TNull r => String.eqb y r
  end.

Definition tok_token (t : tok) : string := match t with TMove _ _ r => r | TNull r => r end.

Record bal := { toks : list tok; ms_abs : bool; nfr : nat; h_abs : bool; nh : nat }.

Definition bal_zero : bal := {| toks := []; ms_abs := false; nfr := 0; h_abs := false; nh := 0 |}.
Definition bal_reset : bal := {| toks := []; ms_abs := true; nfr := 0; h_abs := true; nh := 0 |}.

Definition bal_eqb (a b : bal) : bool :=
  list_eqb tok_eqb (toks a) (toks b) && Bool.eqb (ms_abs a) (ms_abs b) && Nat.eqb (nfr a) (nfr b)
  && Bool.eqb (h_abs a) (h_abs b) && Nat.eqb (nh a) (nh b).

Definition set_toks (a : bal) t := {| toks := t; ms_abs := ms_abs a; nfr := nfr a; h_abs := h_abs a; nh := nh a |}.
Definition set_ms (a : bal) ab n := {| toks := toks a; ms_abs := ab; nfr := n; h_abs := h_abs a; nh := nh a |}.
Definition set_h (a : bal) ab n := {| toks := toks a; ms_abs := ms_abs a; nfr := nfr a; h_abs := ab; nh := n |}.

Definition bal_atom (a : atom) (x : bal) : option bal :=
  match a with
  | Make m p r =>
      if existsb (fun t => String.eqb r (tok_token t)) (toks x) then None   (* token variable still in use *)
      else Some (set_toks x (TMove m p r :: toks x))
  | Undo m p r =>
      match toks x with
      | t :: rest => if tok_eqb t (TMove m p r) then Some (set_toks x rest) else None
      | [] => None
      end
  | MakeNull r =>
      if existsb (fun t => String.eqb r (tok_token t)) (toks x) then None
      else Some (set_toks x (TNull r :: toks x))
  | UndoNull r =>
      match toks x with
      | t :: rest => if tok_eqb t (TNull r) then Some (set_toks x rest) else None
      | [] => None
      end
  | Havoc y => if existsb (tok_uses y) (toks x) then None else Some x
  | MsPush => Some (set_ms x (ms_abs x) (S (nfr x)))
  | MsPop => match nfr x with S n => Some (set_ms x (ms_abs x) n) | O => None end
  | MsAlloc => match nfr x with S _ => Some x | O => None end
  | MsClear => Some (set_ms x true 0)
  | HPush => Some (set_h x (h_abs x) (S (nh x)))
  | HPop => match nh x with S n => Some (set_h x (h_abs x) n) | O => None end
  | HReset => Some (set_h x true 0)
  | _ => Some x
  end.

Section BalDomain.
Variable resetters : list string.     (* functions that reset the store and the history stack *)

Definition bal_call (f : string) (p : plyarg) (x : bal) : option (bal * bal) :=
  if mem f resetters then Some (bal_zero, set_h (set_ms x true 0) true 0) else Some (bal_zero, x).

Definition bal_exit (f : string) (xin xe : bal) : bool :=
  if mem f resetters then bal_eqb xe bal_reset else bal_eqb xe bal_zero.

Definition bal_dom : domain := {|
  A := bal; a_eqb := bal_eqb; a_le := bal_eqb; a_widen := fun x => x;
  tf_atom := bal_atom; tf_abort := fun x => (x, Some x); tf_test := fun _ _ _ x => Some x;
  call_plan := bal_call; entries := fun _ => [bal_zero]; exit_ok := bal_exit |}.
End BalDomain.

(* ---------------------------------------------------------------------------------------------- *)
(* Domain 2 - abort flag: no persistent store once the abort is noticed (F mode), and nothing at all
   is stored by an activation entered with the budget exhausted or the flag set (D mode). *)

Inductive flag :=
| FU      (* nothing known *)
| FN      (* s.aborted = false *)
| FA      (* s.aborted = true *)
| FC      (* nothing known, and the function is allowed to clear the flag (entry state of refresh) *)
| DD      (* doomed: flag set, or hard budget exhausted (and not pondering); no store since entry *)
| DE      (* doomed and s.aborted = false; no store since entry *)
| DA.     (* s.aborted = true; no store since entry *)

Definition flag_eqb (a b : flag) : bool :=
  match a, b with
  | FU, FU | FN, FN | FA, FA | FC, FC | DD, DD | DE, DE | DA, DA => true
  | _, _ => false
  end.

Definition flag_le (a b : flag) : bool :=
  match a, b with
  | FN, FU | FA, FU | DA, DD | DE, DD => true
  | _, _ => flag_eqb a b
  end.

Definition flag_widen (a : flag) : flag :=
  match a with FN | FA | FU => FU | FC => FC | _ => DD end.

Definition dmode (a : flag) : bool := match a with DD | DE | DA => true | _ => false end.

(* functions that cannot touch the flag: no IncNodes, no abort test, no ClearAbort, no call *)
Fixpoint flag_free (s : stmt) : bool :=
  match s with
  | Atom IncNodes | Atom ClearAbort | Call _ _ | IfAborted _ _ => false
  | Seq a b | If a b | IfC _ _ _ a b => flag_free a && flag_free b
  | Loop a | CatchCont a | CatchBreak a => flag_free a
  | _ => true
  end.

Definition quiet_of (t : list (string * stmt)) : list string :=
  map fst (filter (fun fb => flag_free (snd fb)) t).

Section FlagDomain.
Variable allowed : list string.       (* tags of stores tolerated while the flag may be set *)
Variable resetters : list string.     (* functions never entered in D mode (they re-arm the engine: refresh, Go) *)
Variable clearers : list string.      (* functions that return with the flag cleared (refresh) *)
Variable quiet : list string.         (* functions claimed (and checked) to leave a cleared flag cleared *)

Definition flag_store (tag : string) (x : flag) : option flag :=
  match x with
  | FN => Some FN
  | FU | FA | FC => if mem tag allowed then Some x else None
  | _ => None
  end.

Definition flag_atom (a : atom) (x : flag) : option flag :=
  match a with
  | IncNodes => Some (match x with FU | FN => FU | FA => FA | FC => FC | _ => DA end)
  | ClearAbort => match x with FC | FN => Some FN | _ => None end   (* sticky: cleared only by refresh (or where it is clear anyway) *)
  | FreshCounters => if dmode x then None else Some x
  | TTInsert tag | HistUpdate tag => flag_store tag x
  | _ => Some x
  end.

Definition flag_abort (x : flag) : flag * option flag :=
  match x with
  | FU | FN | FC => (FA, Some FN)
  | FA => (FA, None)
  | DD | DE => (DA, Some DE)
  | DA => (DA, None)
  end.

Definition flag_call (f : string) (p : plyarg) (x : flag) : option (flag * flag) :=
  if dmode x then (if mem f resetters then None else Some (DD, DD))
  else if mem f clearers then Some (FC, FN)
  else match x with
       | FN => if mem f quiet then Some (FN, FN) else Some (FU, FU)
       | _ => Some (FU, FU)
       end.

Definition flag_entries (f : string) : list flag :=
  if mem f clearers then [FC]
  else (if mem f resetters then [FU] else [FU; DD]) ++ (if mem f quiet then [FN] else []).

Definition flag_exit (f : string) (xin xe : flag) : bool :=
  if dmode xin then dmode xe
  else negb (dmode xe)
       && (if mem f clearers then flag_eqb xe FN else true)
       && (match xin with FN => if mem f quiet then flag_eqb xe FN else true | _ => true end).

Definition flag_dom : domain := {|
  A := flag; a_eqb := flag_eqb; a_le := flag_le; a_widen := flag_widen;
  tf_atom := flag_atom; tf_abort := flag_abort; tf_test := fun _ _ _ x => Some x;
  call_plan := flag_call; entries := flag_entries; exit_ok := flag_exit |}.
End FlagDomain.

(* ---------------------------------------------------------------------------------------------- *)
(* Domain 3 - PV: every s.pv.insert(ply, m) reads region ply+1 directly after the return of the
   child searched at ply+1 under move m (no search call in between); a function with a ply
   parameter writes no region below its ply. *)

Definition mexp := (string * string)%type.      (* root identifier, field path *)
Definition mexp_eqb (a b : mexp) : bool := String.eqb (fst a) (fst b) && String.eqb (snd a) (snd b).
Definition omexp_eqb (a b : option mexp) : bool :=
  match a, b with
  | Some x, Some y => mexp_eqb x y
  | None, None => true
  | _, _ => false
  end.
Definition omexp_uses (y : string) (a : option mexp) : bool :=
  match a with Some x => String.eqb y (fst x) | None => false end.

(* recognised conditions whose truth value is remembered: those that occur at least twice *)
Definition cond := (string * list string)%type.
Definition cond_eqb (a b : cond) : bool := String.eqb (fst a) (fst b) && list_eqb String.eqb (snd a) (snd b).

Fixpoint conds_of (s : stmt) : list cond :=
  match s with
  | Atom (SetC c vs _) => [(c, vs)]
  | IfC c vs _ a b => (c, vs) :: conds_of a ++ conds_of b
  | Seq a b | If a b | IfAborted a b => conds_of a ++ conds_of b
  | Loop a | CatchCont a | CatchBreak a => conds_of a
  | _ => []
  end.

Definition multi_conds (t : list (string * stmt)) : list cond :=
  let all := flat_map (fun fb => conds_of (snd fb)) t in
  filter (fun c => Nat.leb 2 (length (filter (cond_eqb c) all))) all.

Definition known_t := list (cond * bool).

Fixpoint known_get (c : cond) (k : known_t) : option bool :=
  match k with
  | [] => None
  | (c', v) :: r => if cond_eqb c c' then Some v else known_get c r
  end.

Definition known_set (c : cond) (v : bool) (k : known_t) : known_t :=
  (c, v) :: filter (fun e => negb (cond_eqb c (fst e))) k.

Definition known_drop (y : string) (k : known_t) : known_t :=
  filter (fun e => negb (mem y (snd (fst e)))) k.

Definition known_eqb (a b : known_t) : bool :=
  list_eqb (fun x y => cond_eqb (fst x) (fst y) && Bool.eqb (snd x) (snd y)) a b.

Definition known_le (a b : known_t) : bool :=    (* b knows no more than a *)
  forallb (fun e => match known_get (fst e) a with Some v => Bool.eqb v (snd e) | None => false end) b.

Record pvs := {
  mstack : list (option mexp);                       (* moves made since entry (None = null move) *)
  fresh : option (mexp * list (option mexp));        (* the last search call returned from ply+1 under this move, on this stack *)
  frame : bool;                                      (* regions below the entry ply are untouched *)
  known : known_t }.                                 (* truth values of recognised conditions *)

Definition pvs_zero : pvs := {| mstack := []; fresh := None; frame := true; known := [] |}.

Definition fresh_eqb (a b : option (mexp * list (option mexp))) : bool :=
  match a, b with
  | Some (x, r), Some (y, r') => mexp_eqb x y && list_eqb omexp_eqb r r'
  | None, None => true
  | _, _ => false
  end.

Definition pvs_eqb (a b : pvs) : bool :=
  list_eqb omexp_eqb (mstack a) (mstack b) && fresh_eqb (fresh a) (fresh b) && Bool.eqb (frame a) (frame b)
  && known_eqb (known a) (known b).

Definition pvs_le (a b : pvs) : bool :=
  list_eqb omexp_eqb (mstack a) (mstack b)
  && (match fresh b with None => true | _ => fresh_eqb (fresh a) (fresh b) end)
  && (Bool.eqb (frame a) (frame b) || negb (frame b))
  && known_le (known a) (known b).

Definition set_mstack (a : pvs) s := {| mstack := s; fresh := fresh a; frame := frame a; known := known a |}.
Definition set_fresh (a : pvs) f := {| mstack := mstack a; fresh := f; frame := frame a; known := known a |}.
Definition set_frame (a : pvs) f := {| mstack := mstack a; fresh := fresh a; frame := f; known := known a |}.
Definition set_known (a : pvs) k := {| mstack := mstack a; fresh := fresh a; frame := frame a; known := k |}.

Definition fresh_uses (y : string) (f : option (mexp * list (option mexp))) : bool :=
  match f with
  | Some (x, r) => String.eqb y (fst x) || existsb (omexp_uses y) r
  | None => false
  end.

Section PvDomain.
Variable unframed : list string.      (* functions without a ply parameter that start searches (Go, iterativeDeepen) *)
Variable tracked : list cond.         (* conditions worth remembering *)

Definition is_tracked (c : cond) : bool := existsb (cond_eqb c) tracked.

Definition pvs_atom (a : atom) (x : pvs) : option pvs :=
  match a with
  | Make m p _ => Some (set_mstack x (Some (m, p) :: mstack x))
  | MakeNull _ => Some (set_mstack x (None :: mstack x))
  | Undo _ _ _ | UndoNull _ => match mstack x with _ :: r => Some (set_mstack x r) | [] => None end
  | Havoc y =>
      if String.eqb y "ply" || existsb (omexp_uses y) (mstack x) then None
      else Some (set_known (if fresh_uses y (fresh x) then set_fresh x None else x) (known_drop y (known x)))
  | SetC c vs v =>
      Some (set_known x (if is_tracked (c, vs) then known_set (c, vs) v (known x)
                         else filter (fun e => negb (cond_eqb (c, vs) (fst e))) (known x)))
  | PvInsert m p => if fresh_eqb (fresh x) (Some ((m, p), mstack x)) then Some x else None
  | _ => Some x
  end.

Definition pvs_test (c : string) (vs : list string) (v : bool) (x : pvs) : option pvs :=
  match known_get (c, vs) (known x) with
  | Some v' => if Bool.eqb v v' then Some x else None
  | None => Some (if is_tracked (c, vs) then set_known x (known_set (c, vs) v (known x)) else x)
  end.

Definition pvs_call (f : string) (p : plyarg) (x : pvs) : option (pvs * pvs) :=
  let fr := frame x && negb (mem f unframed) && (match p with PlyAbs _ => false | _ => true end) in
  let fs := match p, mstack x with
            | PlyRel 1, Some m :: rest => Some (m, rest)
            | _, _ => None
            end in
  Some (pvs_zero, set_frame (set_fresh x fs) fr).

Definition pvs_exit (f : string) (xin xe : pvs) : bool :=
  match mstack xe with [] => true | _ => false end && (mem f unframed || frame xe).

(* first widening forgets the fresh child and the remembered conditions, the second the frame claim *)
Definition pvs_widen (x : pvs) : pvs :=
  match fresh x, known x with
  | None, [] => set_frame x false
  | _, _ => set_known (set_fresh x None) []
  end.

Definition pvs_dom : domain := {|
  A := pvs; a_eqb := pvs_eqb; a_le := pvs_le; a_widen := pvs_widen;
  tf_atom := pvs_atom; tf_abort := fun x => (x, Some x); tf_test := pvs_test;
  call_plan := pvs_call; entries := fun _ => [pvs_zero]; exit_ok := pvs_exit |}.
End PvDomain.
