#!/usr/bin/env python3
"""Regenerates MANIFEST.json from the property registry in lib/props.py."""
import json, os, sys
sys.path.insert(0, os.path.dirname(os.path.abspath(__file__)))
import props

VERIF = os.path.dirname(os.path.dirname(os.path.abspath(__file__)))
ALL = [json.loads(l)["id"] for l in open(os.path.join(VERIF, "properties.jsonl"))]
LEVELS = json.load(open(os.path.join(VERIF, "lib", "levels.json")))

checks = []
for pid in ALL:
    if pid not in props.PROPS:
        continue
    p = props.PROPS[pid]
    lv = LEVELS[pid]
    checks.append({
        "property_id": pid,
        "quick_cmd": f"./check {pid} --tier quick",
        "thorough_cmd": f"./check {pid} --tier thorough",
        "evidence_file": f"/verif/evidence/{pid}.json",
        "replay_cmd_template": f"./check {pid} --replay {{path}}",
        "engine": "coq",
        "level_claimed": {"category": "proof", "text": lv["text"], "design_ref": f"DESIGN.md section {p.design_ref}"},
        "level_note": lv["note"],
        "technique": lv["technique"],
    })
na = [{"property_id": pid, "reason": LEVELS.get(pid, {}).get("na", "check not built yet; work in progress (see DESIGN.md section 8)")}
      for pid in ALL if pid not in props.PROPS]
m = {
    "version": 1,
    "setup_cmd": "./check setup",
    "hooks": {
        "guard": "verif",
        "enable": "go build -tags verif (add-only files */export_verif.go, each starting with //go:build verif)",
        "baseline_off_cmd": "for m in $(cat /w/out/gomods.txt); do MF=$(cd /repo/$m && . /w/out/goenv.sh && gomodflag); (cd /repo/$m && go test $MF -json -vet=off -count=1 -timeout 25m ./...); done",
        "source_commits": json.load(open(os.path.join(VERIF, "lib", "hook_commits.json"))),
        "add_only": True,
    },
    "engines": [{"name": "coq", "path": "/verif/coq", "serves_properties": [c["property_id"] for c in checks],
                 "kind_free_text": "Coq 8.16.1 development (model, spec, proofs, property files) + translator (Go) + extracted OCaml model run against the Go implementation"}],
    "checks": checks,
    "not_applicable": na,
    "notes": "Machine-checked proof in Coq 8.16.1; model tied to /repo by a translator (coq/Gen regenerated each run) and a correspondence check (extracted model vs implementation). See DESIGN.md.",
}
json.dump(m, open(os.path.join(VERIF, "MANIFEST.json"), "w"), indent=1)
print("claimed:", [c["property_id"] for c in checks], "not_applicable:", [n["property_id"] for n in na])
