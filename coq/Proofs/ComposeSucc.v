(* Composition, part 3: one MakeMove with a legal move from a valid position, WITHOUT the clock bound
   of C02_succ.  C02_succ proves the equation abs (make b m) = succ_spec (abs b) m for all six
   fields and therefore needs the halfmove clock not to wrap (0 <= fifty b < 32767).  Position
   identity (C10) does not involve the clocks; the four other fields agree for every clock value:

     succ_core_same :  same_core (abs (core b m)) (succ_spec (abs b) m)

   (the proof is the proof of Proofs/SuccMain.succ_core with the clause lemma for the clock left out),
   and from it b-c10's premise [step_link z] (Spec/RepLinks.v) for every Zobrist table with 64-bit
   entries, by C03 (make_Rep, via item 1: a legal move is applicable) and C04 (hash_ok_make);
   [valid_link] is valid_step (Proofs/ValidStep.v). *)
From Coq Require Import NArith ZArith List Bool Lia.
From Chess3 Require Import Base.Bits Base.Word Model.Types Model.Att Model.BoardDef Model.Board Model.Movegen.
From Chess3 Require Import Spec.Geometry Spec.Chess Spec.Rep Spec.Applicable Spec.RepLinks.
From Chess3 Require Import Proofs.SuccLists Proofs.SuccCore Proofs.SuccCells Proofs.SuccFacts Proofs.SuccPlace
                           Proofs.SuccSmall Proofs.SuccAttack Proofs.SuccEpBase Proofs.SuccEp Proofs.SuccMain.
From Chess3 Require Proofs.BoardInv Proofs.UndoMove Proofs.HashInv Proofs.ValidStep Proofs.SuccRep.
From Chess3 Require Import Proofs.ComposeClock Proofs.ComposeValid.
Import ListNotations.
Open Scope N_scope.

Theorem succ_core_same b m : Rep b -> valid_core (abs b) = true -> legal_spec (abs b) m = true ->
  same_core (abs (core b m)) (succ_spec (abs b) m).
Proof.
  intros HR HV HL.
  rewrite abs_core, (core_placement b m HR HV HL), (core_rights b m HL), (core_full b m).
  rewrite succ_spec_unfold. cbv zeta.
  destruct (facts b m HL) as [k [Hc _]]. destruct (cell_Some _ _ _ _ Hc) as [Hp _].
  pose proof (q0_eq b m k Hc) as EQ.
  unfold new_ep. rewrite Hp, abs_diff_16.
  rewrite (holds_abs b (mv_from m) (stm b) Pawn (mv_from_lt m)), Hc, SuccFacts.color_eqb_refl. cbn [andb].
  rewrite (N.eqb_sym Pawn k).
  destruct (N.eqb_spec k Pawn) as [EK|EK]; cbn [andb].
  2:{ rewrite EQ. unfold same_core. cbn [at_ turn rights epsq]. repeat split; reflexivity. }
  destruct ((mv_to m =? mv_from m + 16) || (mv_to m + 16 =? mv_from m)) eqn:ED; cbn [andb].
  2:{ rewrite EQ. unfold same_core. cbn [at_ turn rights epsq]. repeat split; reflexivity. }
  assert (Hd : mv_to m = mv_from m + 16 \/ mv_to m + 16 = mv_from m).
  { apply orb_true_iff in ED. destruct ED as [E|E]; apply N.eqb_eq in E; tauto. }
  rewrite EK in Hc.
  rewrite (can_ep_eq b m HR HV HL Hc Hd).
  destruct (dfacts b m HL Hc Hd) as [_ [_ [_ [_ [_ [Hmid _]]]]]]. rewrite Hmid.
  destruct (ep_capturable (q0 b m) (dp_mid (stm b) (mv_to m))).
  2:{ rewrite EQ. unfold same_core. cbn [at_ turn rights epsq]. repeat split; reflexivity. }
  assert (Hnz : dp_mid (stm b) (mv_to m) <> 0) by (rewrite <- Hmid; destruct Hd; lia).
  rewrite (proj2 (N.eqb_neq _ 0) Hnz). rewrite EQ.
  unfold same_core. cbn [at_ turn rights epsq]. repeat split; reflexivity.
Qed.

Theorem make_same_core z b m : Rep b -> valid (abs b) = true -> legal_spec (abs b) m = true ->
  same_core (abs (fst (make z b m))) (succ_spec (abs b) m).
Proof.
  intros HR HV HL. destruct (make_core z b m) as [h E]. rewrite E, abs_set_hashes.
  apply succ_core_same; [exact HR|apply valid_valid_core; exact HV|exact HL].
Qed.

(* the two tables-with-64-bit-entries predicates of C02 and C03 are the same predicate *)
Lemma zob_ok_w64 z : SuccRep.zob_ok z <-> UndoMove.zob_w64 z.
Proof. unfold SuccRep.zob_ok, UndoMove.zob_w64. tauto. Qed.

(* ------------------------------------------------------------------------------------------ *)
(* the links of C10 *)

Theorem step_link_proved z : UndoMove.zob_w64 z -> step_link z.
Proof.
  intros Hz b p m HR HH SC HV HL. cbv zeta.
  assert (HVb : valid (abs b) = true) by (rewrite (valid_same_core _ _ SC); exact HV).
  assert (HLb : legal_spec (abs b) m = true) by (rewrite (legal_spec_same_core _ _ m SC); exact HL).
  pose proof (legal_applicable b m HR HVb HLb) as HA.
  split; [apply UndoMove.make_Rep; assumption|].
  split; [apply (HashInv.hash_ok_make z gen_layout b m (BoardInv.Rep_RepW b HR) HA HH)|].
  apply (same_core_trans _ (succ_spec (abs b) m)).
  - apply make_same_core; assumption.
  - apply succ_spec_same_core. exact SC.
Qed.

Theorem valid_link_proved : valid_link.
Proof. intros p m V L. apply ValidStep.valid_step_any; assumption. Qed.
