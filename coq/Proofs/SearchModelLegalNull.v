(* When does the closed search model return the null move?  Classification of a root call of alphaBeta
   (ply 0, PV node, depth >= 1) that is not aborted, answers strictly inside its window and leaves the
   line of ply 0 empty: the root is final by the fifty-move clock or by repetition, or the move loop
   ended without having found a legal move (the value is the mate / stalemate score), or one of two
   anomalies happened, which are named:
     Bad         a search one ply below the root, not aborted, returned a value v whose negation is
                 below -Inf (v > Inf, or v = -32768) - what a table holding an out-of-range value can
                 cause (the defect repaired by commit d1717eb);
     wide window beta > 32053: reverse futility pruning computes beta + depth*102 in int16.
   Values are reasoned about only at the root: maxim starts at -Inf-1; as long as no move raised alpha
   (no pv.insert at ply 0) every searched move has a value <= alpha, so maxim <= alpha once a legal
   move has been searched, unless a value below -Inf came back. *)
From Coq Require Import NArith ZArith List Bool Lia.
From Chess3 Require Import Base.Bits Base.Word Model.Types Model.BoardDef Model.Board Model.Search
  Spec.Chess Spec.Rep Spec.Applicable Proofs.PickerProofs Proofs.SearchModelInv Proofs.SearchModelPicker
  Proofs.SearchModelBoard Proofs.SearchModelLegalBase Proofs.SearchModelLegal Proofs.SearchModelLegalId.
From Chess3 Require Model.Movegen Model.Mate Model.Eval Model.TT Model.Hist Model.Picker Model.See
  Model.Pv Model.IterDeepen Proofs.PvProofs.
Import ListNotations.
Open Scope Z_scope.
Ltac Zify.zify_post_hook ::= Z.to_euclidean_division_equations.

Definition terminal_score (inCheck : bool) : Z := if inCheck then - SearchParams.Inf else 0.

Lemma wrap16_range x : -32768 <= wrap16 x <= 32767.
Proof. unfold wrap16. lia. Qed.
Lemma wrap16_id x : -32768 <= x <= 32767 -> wrap16 x = x.
Proof. intros H. unfold wrap16. lia. Qed.

Lemma aborted_trace s p e : s_aborted (trace s p e) = s_aborted s.
Proof. unfold trace. destruct (p <=? s_tracing s); reflexivity. Qed.
Lemma aborted_insert s b d ply sm v t : s_aborted (tt_insert s b d ply sm v t) = s_aborted s.
Proof. reflexivity. Qed.
Ltac ab_simpl := rewrite ?aborted_trace, ?aborted_insert in *; cbn [s_aborted set_hs set_ms set_pv set_tt set_rk] in *.

Lemma ab_finish_val st b d ply maxim best ic hl fl v st' b' :
  ab_finish st b d ply maxim best ic hl fl = Ok (v, st', b') ->
  v = (if hl then maxim else if ic then add16 (- SearchParams.Inf) (wrap16 ply) else 0) /\
  s_pv st' = s_pv st /\ s_aborted st' = s_aborted st.
Proof.
  intros H. unfold ab_finish in H. walk. split; [reflexivity|]. destruct (if hl then fl else false); split; reflexivity.
Qed.

Definition maxim_inv (hl : bool) (maxim alpha : Z) : Prop :=
  if hl then - SearchParams.Inf <= maxim <= alpha else maxim = - SearchParams.Inf - 1.

Lemma maxim_step hl maxim al value : maxim_inv hl maxim al -> - SearchParams.Inf <= value -> value <= al ->
  maxim_inv true (if maxim <? value then value else maxim) al.
Proof.
  unfold maxim_inv, SearchParams.Inf. intros HM H1 H2. destruct (maxim <? value) eqn:C; [lia|].
  apply Z.ltb_ge in C. destruct hl; lia.
Qed.

Section Root.
  Variable child : sstate -> board -> Z -> Z -> Z -> Z -> Z -> res rt.
  Variable qs : sstate -> board -> Z -> Z -> Z -> res rt.
  Hypothesis Hc : ab_leg child.
  Hypothesis Hq : q_leg qs.

  (* a ply-1 search that is not aborted and whose negated value is below -Inf *)
  Definition Bad : Prop :=
    exists st b al be d nt v st' b', child st b al be d 1 nt = Ok (v, st', b') /\ s_aborted st' = false /\
                                     neg16 v < - SearchParams.Inf.

  Lemma search_move_value st b1 al be d nt next mc qc ic imp v st' b' :
    search_move child st b1 al be d 0 nt next mc qc ic imp = Ok (v, st', b') -> s_aborted st' = false ->
    Bad \/ - SearchParams.Inf <= v.
  Proof.
    intros H Ha. unfold search_move in H. change (wrap8 (0 + 1)) with 1 in H. walk.
    all: try (right; unfold SearchParams.Inf; lia).
    all: match goal with E : child _ _ _ _ _ 1 _ = Ok (?z, _, _) |- _ \/ _ <= neg16 ?z =>
           destruct (Z_lt_le_dec (neg16 z) (- SearchParams.Inf)) as [Hb|Hb]; [left|right; exact Hb];
           do 9 eexists; split; [exact E|split; [exact Ha|exact Hb]] end.
  Qed.

  Lemma ab_loop_null fr L : forall n st b p al be d nt se maxim best ic imp hl fl mc qc v st' b',
    good b -> state_ok st -> pinv (genmv b) fr L (p_with_store p (s_ms st)) ->
    mv_ok (Picker.p_hash p) -> mv_ok best -> zline b (Pv.line (s_pv st) 0) ->
    ab_loop child n st b p al be d 0 nt se maxim best ic imp hl fl mc qc = Ok (v, st', b') ->
    s_aborted st' = false ->
    (Pv.line (s_pv st) 0 <> [] -> Pv.line (s_pv st') 0 <> []) /\
    (maxim_inv hl maxim al ->
     Bad \/ Pv.line (s_pv st') 0 <> [] \/ be <= v \/ v <= al \/ v = terminal_score ic).
  Proof.
    induction n as [|n IH]; intros st b p al be d nt se maxim best ic imp hl fl mc qc v st' b' Hg Hs Hp Hh Hb Hz H Hna; [discriminate H|].
    cbn [ab_loop] in H.
    destruct (pnext (s_rk st) (s_hs st) b (p_with_store p (s_ms st))) as [[more p1]| |] eqn:Ep; cbn [bind] in H; try discriminate H.
    destruct (pnext_leg b Hg fr L _ _ (p_with_store p (s_ms st)) _ _ Hh Hp Ep) as (Hp1 & Hh1 & Hcur). cbn [p_with_store Picker.p_hash] in Hh1.
    destruct Hs as [Ht Hw].
    destruct more; cbn [negb] in H.
    2:{ apply ab_finish_val in H. destruct H as (-> & Fp & _). rewrite Fp. proj2_simpl. split; [auto|].
        intros HM. right. right. right. unfold maxim_inv in HM. destruct hl; [left; lia|right].
        unfold terminal_score. destruct ic; reflexivity. }
    destruct (Hcur eq_refl) as [Acur Hix1]. clear Hcur.
    destruct (make zob b (Z.to_N (fst (Picker.current p1)))) as [b1 r] eqn:Em.
    destruct (made_move _ _ _ _ Hg Acur Em) as (Hu & Hok & Hleg).
    destruct (in_check b1 (flip (stm b1))) eqn:Ck.
    { rewrite Hu in H. eapply IH in H; [ | exact Hg | split; proj2_simpl; assumption
                                         | proj2_simpl; rewrite pws_id; exact Hp1 | congruence | exact Hb | proj2_simpl; exact Hz | exact Hna ].
      proj2_simpl. exact H. }
    destruct (Hleg eq_refl) as [Hg1 Hplay]. clear Hleg.
    destruct (hs_push _ _) as [hs1| |] eqn:Eh; cbn [bind] in H; try discriminate H.
    apply hs_push_ok in Eh. subst hs1.
    destruct (search_move _ _ _ _ _ _ _ _ _ _ _ _ _) as [[[value st2] b2]| |] eqn:Es; cbn [bind] in H; try discriminate H.
    pose proof Es as Ev.
    apply (search_move_leg child Hc) in Es; [|exact Hg1|split; proj2_simpl; assumption|lia].
    destruct Es as (-> & [Q1 Q2] & [Ht2 Hw2] & Hbel & Hzc). proj2_simpl.
    rewrite Hu in H.
    destruct (hs_pop (s_hs st2)) as [hs2| |] eqn:Eo; cbn [bind] in H; try discriminate H.
    rewrite Q2 in Eo. cbn [hs_pop] in Eo. injection Eo as <-.
    rewrite ?Q1, ?pws_id in H.
    destruct (poke_inv (genmv b) (genmv_w b) fr L p1 (Some value) Hp1 Hix1) as [Hp2 Hh2].
    destruct (poke_inv (genmv b) (genmv_w b) fr L p1 (Some (wrap16 (- SearchParams.Inf))) Hp1 Hix1) as [Hp3 Hh3].
    assert (H062 : 0 <= 0 <= 62) by lia.
    assert (Hl2 : Pv.line (s_pv st2) 0 = Pv.line (s_pv st) 0) by (apply Hbel; lia).
    assert (Hz2 : zline b (Pv.line (s_pv st2) 0)) by (rewrite Hl2; exact Hz).
    walk.
    all: proj2_simpl; rewrite ?Q1, ?pws_id in *.
    - (* aborted *) ab_simpl. congruence.
    - (* fail high *)
      split; [rewrite Hl2; auto|]. intros _. right. right. left. apply Z.leb_le. assumption.
    - (* alpha raised, late move pruning ends the loop *)
      destruct (insert_line _ _ _ _ Hw2 H062 E0) as (W0 & L0 & O0).
      apply ab_finish_val in H. destruct H as (_ & Fp & _). rewrite Fp. proj2_simpl.
      assert (Pv.line p0 0 <> []) by (rewrite L0; discriminate).
      split; [auto|]. intros _. right. left. assumption.
    - (* alpha raised, next move *)
      destruct (insert_line _ _ _ _ Hw2 H062 E0) as (W0 & L0 & O0). apply Z.ltb_lt in C0.
      assert (Z0 : zline b (Pv.line p0 0)).
      { rewrite L0. cbn [zline]. rewrite Em. cbn [fst]. split; [exact Hplay|apply Hzc, C0]. }
      assert (N0 : Pv.line p0 0 <> []) by (rewrite L0; discriminate).
      eapply IH in H; [ | exact Hg | split; proj2_simpl; assumption
                        | proj2_simpl; rewrite ?pws_id; exact Hp2 | congruence | exact Hok | proj2_simpl; exact Z0 | exact Hna ].
      destruct H as [H1 _]. proj2_simpl. specialize (H1 N0). split; [auto|]. intros _. right. left. exact H1.
    - (* no improvement, late move pruning ends the loop *)
      ab_simpl. apply Z.ltb_ge in C0.
      apply ab_finish_val in H. destruct H as (-> & Fp & Fa). rewrite Fp. proj2_simpl.
      split; [rewrite Hl2; auto|]. intros HM.
      destruct (search_move_value _ _ _ _ _ _ _ _ _ _ _ _ _ _ Ev C) as [B|Hv]; [left; exact B|].
      pose proof (maxim_step _ _ _ _ HM Hv C0) as HM'. unfold maxim_inv in HM'. right. right. right. left. lia.
    - (* no improvement, next move *)
      ab_simpl. apply Z.ltb_ge in C0.
      eapply IH in H; [ | exact Hg | split; proj2_simpl; assumption
                        | proj2_simpl; rewrite ?pws_id; exact Hp3 | congruence | exact Hb | proj2_simpl; exact Hz2 | exact Hna ].
      destruct H as [H1 H2]. proj2_simpl. split; [rewrite <- Hl2; exact H1|]. intros HM.
      destruct (search_move_value _ _ _ _ _ _ _ _ _ _ _ _ _ _ Ev C) as [B|Hv]; [left; exact B|].
      apply H2. exact (maxim_step _ _ _ _ HM Hv C0).
  Qed.

  (* static pruning at the root can only return a value >= beta, as long as beta + depth*102 fits int16 *)
  Lemma ab_static_null st b be d e st' b' : 1 <= d -> -32768 <= be <= 32053 ->
    ab_static child st b be d 0 (in_check b (stm b)) = Ok (e, st', b') ->
    match e with Ret v => be <= v | GoOn _ _ => True end.
  Proof.
    intros Hd Hbe H. unfold ab_static in H. walk; try exact I.
    - (* reverse futility pruning *)
      match goal with C : _ && _ && _ = true |- _ => apply andb_true_iff in C; destruct C as [C _]; apply andb_true_iff in C; destruct C as [C1 C2] end.
      apply Z.ltb_lt in C1. apply Z.leb_le in C2. change (wrap8 SearchParams.RFPDepthLimit) with 8 in C1.
      change (wrap16 SearchParams.RFPScoreFactor) with 102 in C2.
      unfold add16 in C2. rewrite (wrap16_id d) in C2 by lia. rewrite (wrap16_id (d * 102)) in C2 by lia.
      rewrite wrap16_id in C2 by lia. apply Z.compare_gt_iff in Q. lia.
    - rewrite Z.compare_refl in Q. discriminate Q.
    - match goal with C : (be <=? _) = true |- _ => apply Z.leb_le in C; exact (C Q) end.
  Qed.

  Lemma ab_body_null o st b al be d v st' b' : good b -> state_ok st -> 1 <= d -> -32768 <= be <= 32053 ->
    ab_body o child qs st b al be d 0 SearchParams.PVNode = Ok (v, st', b') ->
    s_aborted st' = false -> al < v < be -> Pv.line (s_pv st') 0 = [] ->
    Bad \/ 100 <= fifty b \/ 3 <= threefold b \/ v = terminal_score (in_check b (stm b)).
  Proof.
    intros Hg [Ht Hw] Hd Hbe H Hna Hwin Hline. unfold ab_body in H.
    destruct (Pv.set_null (s_pv st) 0) as [pv1|] eqn:Epv; cbn [of_opt bind] in H; [|discriminate H].
    assert (H063 : 0 <= 0 <= 63) by lia. assert (H062 : 0 <= 0 <= 62) by lia.
    destruct (set_null_line _ _ _ Hw H063 Epv) as (W1 & L1 & O1).
    replace (d =? 0) with false in H by (symmetry; apply Z.eqb_neq; lia).
    change ((false || (SearchParams.MaxPlies - 1 <=? 0))) with false in H. cbv iota in H.
    set (st0 := trace (inc_nodes o (set_pv st pv1)) 0 [1; 0; d; al; be; SearchParams.PVNode; s_nodes (inc_nodes o (set_pv st pv1))]) in *.
    assert (T0 : s_tt st0 = s_tt st) by (unfold st0; proj2_simpl; reflexivity).
    assert (P0 : s_pv st0 = pv1) by (unfold st0; proj2_simpl; reflexivity).
    assert (S0 : state_ok st0) by (split; [rewrite T0; exact Ht|rewrite P0; exact W1]).
    destruct (s_aborted st0) eqn:A0; [walk; congruence|].
    change (wrap8 (3 - Z.min 0 1)) with 3 in H.
    destruct ((100 <=? fifty b) || (3 <=? threefold b)) eqn:Cf.
    { apply orb_true_iff in Cf. destruct Cf as [Cf|Cf]; apply Z.leb_le in Cf; auto. }
    assert (Hhm : mv_ok (match TT.lookup (s_tt st0) (zN (cur_hash b)) with Some e => TT.e_move e | None => 0 end)).
    { destruct (TT.lookup (s_tt st0) (zN (cur_hash b))) as [e|] eqn:El; [|exact mv_ok_0].
      eapply tt_ok_lookup; [|exact El]. rewrite T0. exact Ht. }
    change (negb (SearchParams.PVNode =? SearchParams.PVNode)) with false in H. cbn [andb] in H.
    replace (match TT.lookup (s_tt st0) (zN (cur_hash b)) with Some _ => None | None => None end) with (@None Z) in H
      by (destruct (TT.lookup (s_tt st0) (zN (cur_hash b))); reflexivity).
    destruct (ab_static child st0 b be d 0 (in_check b (stm b))) as [[[e st1] b1]| |] eqn:Es; cbn [bind] in H; try discriminate H.
    pose proof (ab_static_null _ _ _ _ _ _ _ Hd Hbe Es) as Hret.
    apply (ab_static_leg child Hc) in Es; [|exact Hg|exact S0|exact H062]. destruct Es as (-> & [M1 H1] & [T1 W1'] & Bel1).
    assert (L1' : Pv.line (s_pv st1) 0 = []) by (rewrite (Bel1 0) by lia; rewrite P0; exact L1).
    destruct e as [v0|se imp].
    { walk. lia. }
    match type of H with bind ?e _ = _ => destruct e as [[[v1 st2] b2]| |] eqn:El end; cbn [bind] in H; try discriminate H.
    walk. proj2_simpl. cbn [s_aborted set_ms] in Hna.
    eapply (ab_loop_null (length (Picker.s_data (s_ms st1)) :: Picker.s_frames (s_ms st1)) (Picker.s_data (s_ms st1))) in El;
      [ | exact Hg | split; proj2_simpl; assumption | | cbn [Picker.picker_new Picker.p_hash]; exact Hhm
        | exact mv_ok_0 | proj2_simpl; rewrite L1'; exact I | exact Hna ].
    - destruct El as [_ El]. destruct El as [B|[N|[F|[F|F]]]]; auto.
      + unfold maxim_inv. reflexivity.
      + contradiction.
      + lia.
      + lia.
    - proj2_simpl. exists [], []. cbn [app]. unfold p_with_store, Picker.picker_new. cbn.
      repeat split; auto. apply push_framed.
  Qed.
End Root.

(* ------------------------------------------------------------------------------------------ *)
(* the closed model *)

(* anomaly 1: a ply-1 search of the model, not aborted, whose negated value is below -Inf *)
Definition bad_ply1 (fuel : nat) (o : opts) : Prop :=
  exists st b al be d nt v st' b', alphaBeta fuel o st b al be d 1 nt = Ok (v, st', b') /\ s_aborted st' = false /\
                                   neg16 v < - SearchParams.Inf.

Lemma alphaBeta_null fuel o st b al be d v st' b' : good b -> state_ok st -> 1 <= d -> -32768 <= be <= 32053 ->
  alphaBeta (S fuel) o st b al be d 0 SearchParams.PVNode = Ok (v, st', b') ->
  s_aborted st' = false -> al < v < be -> Pv.active (s_pv st') = [] ->
  bad_ply1 fuel o \/ 100 <= fifty b \/ 3 <= threefold b \/ v = terminal_score (in_check b (stm b)).
Proof.
  intros Hg Hs Hd Hbe H. cbn [alphaBeta] in H.
  exact (ab_body_null (alphaBeta fuel o) (quiescence fuel o) (alphaBeta_leg o fuel) o _ _ _ _ _ _ _ _ Hg Hs Hd Hbe H).
Qed.

(* a root call at depth d that was accepted by the aspiration loop: not aborted, strictly inside its window *)
Definition accepted (fuel : nat) (o : opts) (b : board) (d s : Z) (st1 : sstate) : Prop :=
  exists st0 al be, state_ok st0 /\ alphaBeta fuel o st0 b al be d 0 SearchParams.PVNode = Ok (s, st1, b) /\
    s_aborted st1 = false /\ al < s < be /\ -32768 <= be <= 32767.

Lemma fallback_aborted st b mv st' b' : fallback st b = Ok (mv, st', b') -> s_aborted st' = s_aborted st.
Proof. intros H. unfold fallback in H. walk. reflexivity. Qed.

Section DeepenNull.
  Variable fuel : nat.
  Variable o : opts.

  Lemma aspire_null : forall n st b al be f d a, good b -> state_ok st -> -32768 <= be <= 32767 ->
    aspire fuel o n st b al be f d = Ok a ->
    match a with
    | AspOk s st1 b1 => b1 = b /\ accepted fuel o b d s st1
    | AspAbort st1 b1 => s_aborted st1 = true
    end.
  Proof.
    induction n as [|n IH]; intros st b al be f d a Hg Hs Hbe H; [discriminate H|].
    cbn [aspire] in H.
    destruct (alphaBeta fuel o st b al be d 0 SearchParams.PVNode) as [[[s st1] b1]| |] eqn:E; cbn [bind] in H; try discriminate H.
    pose proof E as E'.
    apply alphaBeta_leg in E'; [|exact Hg|exact Hs|lia]. destruct E' as (-> & _ & Hs1 & _ & _).
    destruct (s_aborted st1) eqn:A; [walk; exact A|].
    destruct (s <=? al) eqn:C1; [eapply IH; [exact Hg|exact Hs1|exact Hbe|exact H]|].
    destruct (be <=? s) eqn:C2; [eapply IH; [exact Hg|exact Hs1|apply wrap16_range|exact H]|].
    walk. split; [reflexivity|]. exists st, al, be. apply Z.leb_gt in C1, C2. splits; auto; lia.
  Qed.

  Lemma head_nonzero b m rest : good b -> zline b (m :: rest) -> m <> 0.
  Proof. intros Hg [Hi _] ->. exact (zero_not_playable b Hg Hi). Qed.

  Lemma adopt_nonzero b pv mv pd mv1 pd1 : good b -> zline b pv -> IterDeepen.adopt pv mv pd = (mv1, pd1) ->
    (mv <> 0 \/ pv <> []) -> mv1 <> 0.
  Proof.
    intros Hg Hz H Hor. unfold IterDeepen.adopt in H. destruct pv as [|m [|p rest]]; injection H as <- <-.
    - destruct Hor as [Hm|Hm]; [exact Hm|contradiction].
    - eapply head_nonzero; eassumption.
    - eapply head_nonzero; eassumption.
  Qed.

  Lemma deepen_nonzero : forall todo st b d al be sc mv pd reps r st' b', good b -> state_ok st -> mv <> 0 ->
    deepen fuel o todo st b d al be sc mv pd reps = Ok (r, st', b') -> r_move r <> 0.
  Proof.
    induction todo as [|t IH]; intros st b d al be sc mv pd reps r st' b' Hg Hs Hm H; cbn [deepen] in H.
    - walk. cbn [r_move] in *. contradiction.
    - destruct (negb ((d <? SearchParams.MaxPlies) && (d <=? o_depth o))); [walk; cbn [r_move] in *; contradiction|].
      destruct (aspire fuel o 64 st b al be 1 d) as [a| |] eqn:Ea; cbn [bind] in H; try discriminate H.
      apply aspire_leg in Ea; [|exact Hg|exact Hs]. destruct a as [s st1 b1|st1 b1].
      + destruct Ea as (-> & Hs1 & Hz).
        destruct (IterDeepen.adopt (Pv.active (s_pv st1)) mv pd) as [mv1 pd1] eqn:Ead.
        pose proof (adopt_nonzero _ _ _ _ _ _ Hg Hz Ead (or_introl Hm)) as Hm1.
        walk; [cbn [r_move] in *; contradiction|]. eapply IH; eassumption.
      + destruct (mv =? 0) eqn:C0; [apply Z.eqb_eq in C0; contradiction|]. walk. cbn [r_move] in *. contradiction.
  Qed.

  (* iteration 1 with no move so far *)
  Lemma deepen_null_1 t st b al be sc pd reps r st' b' : good b -> state_ok st -> -32768 <= be <= 32767 ->
    1 <= o_depth o ->
    deepen fuel o (S t) st b 1 al be sc 0 pd reps = Ok (r, st', b') -> s_aborted st' = false -> r_move r = 0 ->
    exists s st1, accepted fuel o b 1 s st1 /\ Pv.active (s_pv st1) = [].
  Proof.
    intros Hg Hs Hbe Hd H Hna Hr. cbn [deepen] in H.
    assert (Cn : negb ((1 <? SearchParams.MaxPlies) && (1 <=? o_depth o)) = false)
      by (apply Z.leb_le in Hd; rewrite Hd; reflexivity).
    rewrite Cn in H.
    destruct (aspire fuel o 64 st b al be 1 1) as [a| |] eqn:Ea; cbn [bind] in H; try discriminate H.
    pose proof (aspire_null _ _ _ _ _ _ _ _ Hg Hs Hbe Ea) as Hn.
    apply aspire_leg in Ea; [|exact Hg|exact Hs]. destruct a as [s st1 b1|st1 b1].
    - destruct Ea as (-> & Hs1 & Hz). destruct Hn as [_ Hacc].
      destruct (Pv.active (s_pv st1)) as [|m rest] eqn:Epv; [exists s, st1; split; [exact Hacc|exact Epv]|].
      exfalso.
      destruct (IterDeepen.adopt (m :: rest) 0 pd) as [mv1 pd1] eqn:Ead.
      assert (Hm1 : mv1 <> 0) by (eapply adopt_nonzero; [exact Hg|exact Hz|exact Ead|right; discriminate]).
      walk; [exact (Hm1 Hr)|].
      match goal with E : deepen _ _ _ _ _ _ _ _ _ _ _ _ = Ok _ |- _ => apply deepen_nonzero in E; auto end.
    - exfalso. rewrite Z.eqb_refl in H.
      destruct (fallback st1 b1) as [[[m x] y]| |] eqn:F; cbn [bind] in H; try discriminate H.
      apply fallback_aborted in F. walk. congruence.
  Qed.

  (* iteration 0 *)
  Lemma deepen_null_0 t st b r st' b' : good b -> state_ok st -> 1 <= o_depth o -> (1 <= t)%nat ->
    deepen fuel o (S t) st b 0 (wrap16 (- SearchParams.Inf - 1)) (wrap16 (SearchParams.Inf + 1)) 0 0 0 [] = Ok (r, st', b') ->
    s_aborted st' = false -> r_move r = 0 ->
    exists s st1, accepted fuel o b 1 s st1 /\ Pv.active (s_pv st1) = [].
  Proof.
    intros Hg Hs Hd Ht H Hna Hr. cbn [deepen] in H.
    assert (Cn : negb ((0 <? SearchParams.MaxPlies) && (0 <=? o_depth o)) = false)
      by (assert (H0d : (0 <=? o_depth o) = true) by (apply Z.leb_le; lia); rewrite H0d; reflexivity).
    rewrite Cn in H.
    destruct (aspire fuel o 64 st b _ _ 1 0) as [a| |] eqn:Ea; cbn [bind] in H; try discriminate H.
    pose proof (aspire_null _ _ _ _ _ _ _ _ Hg Hs (wrap16_range _) Ea) as Hn.
    apply aspire_leg in Ea; [|exact Hg|exact Hs]. destruct a as [s st1 b1|st1 b1].
    - destruct Ea as (-> & Hs1 & Hz).
      destruct (IterDeepen.adopt (Pv.active (s_pv st1)) 0 0) as [mv1 pd1] eqn:Ead.
      destruct (Pv.active (s_pv st1)) as [|m rest] eqn:Epv.
      + cbn in Ead. injection Ead as <- <-. rewrite Z.eqb_refl in H. cbn [negb andb] in H.
        destruct (hashfull (s_tt st1) (s_gen st1)) as [hf| |]; cbn [bind] in H; try discriminate H.
        rewrite Z.add_0_l in H.
        destruct t as [|t]; [lia|].
        exact (deepen_null_1 _ _ _ _ _ _ _ _ _ _ _ Hg Hs1 (wrap16_range _) Hd H Hna Hr).
      + exfalso.
        assert (Hm1 : mv1 <> 0) by (eapply adopt_nonzero; [exact Hg|exact Hz|exact Ead|right; discriminate]).
        walk; [exact (Hm1 Hr)|].
        match goal with E : deepen _ _ _ _ _ _ _ _ _ _ _ _ = Ok _ |- _ => apply deepen_nonzero in E; auto end.
    - exfalso. rewrite Z.eqb_refl in H.
      destruct (fallback st1 b1) as [[[m x] y]| |] eqn:F; cbn [bind] in H; try discriminate H.
      apply fallback_aborted in F. walk. congruence.
  Qed.
End DeepenNull.

(* Search.Go returned the null move without having been aborted, depth limit >= 1: the iteration of
   depth 1 was accepted with an empty line *)
Theorem go_null_accepted fuel o st b r st' b' : good b -> state_ok st -> 1 <= o_depth o ->
  go fuel o st b = Ok (r, st', b') -> s_aborted st' = false -> r_move r = 0 ->
  exists s st1, accepted fuel o b 1 s st1 /\ Pv.active (s_pv st1) = [].
Proof.
  intros Hg Hs Hd H Hna Hr. unfold go, iterative_deepen in H.
  change (Z.to_nat SearchParams.MaxPlies) with (S 63) in H.
  destruct (deepen fuel o (S 63) (refresh st) b 0 _ _ 0 0 0 []) as [[[r0 s1] b1]| |] eqn:E; cbn [bind] in H; try discriminate H.
  injection H as <- <- <-. cbn [s_aborted set_gen] in Hna.
  exact (deepen_null_0 fuel o 63%nat _ _ _ _ _ Hg (refresh_ok _ Hs) Hd ltac:(lia) E Hna Hr).
Qed.

(* ... hence the root is final, or one of the two named anomalies happened *)
Theorem go_null_classified fuel o st b r st' b' : good b -> state_ok st -> 1 <= o_depth o ->
  go (S fuel) o st b = Ok (r, st', b') -> s_aborted st' = false -> r_move r = 0 ->
  100 <= fifty b \/ 3 <= threefold b
  \/ (exists s st1, accepted (S fuel) o b 1 s st1 /\ Pv.active (s_pv st1) = [] /\ s = terminal_score (in_check b (stm b)))
  \/ bad_ply1 fuel o
  \/ (exists s st1 st0 al be, alphaBeta (S fuel) o st0 b al be 1 0 SearchParams.PVNode = Ok (s, st1, b) /\ 32053 < be).
Proof.
  intros Hg Hs Hd H Hna Hr.
  destruct (go_null_accepted _ _ _ _ _ _ _ Hg Hs Hd H Hna Hr) as (s & st1 & Hacc & Hpv).
  pose proof Hacc as (st0 & al & be & Hs0 & E & A & Hw & Hbe).
  destruct (Z_le_gt_dec be 32053) as [Hb|Hb].
  - destruct (alphaBeta_null fuel o st0 b al be 1 s st1 b Hg Hs0 ltac:(lia) ltac:(lia) E A Hw Hpv) as [B|[F|[F|F]]]; auto.
    right. right. left. exists s, st1. auto.
  - right. right. right. right. exists s, st1, st0, al, be. split; [exact E|lia].
Qed.

(* the hypothesis on the table CONTENT under which the full statement is expected to hold: every stored
   value is a score (the defect repaired by d1717eb stored -Inv = 11000) *)
Definition tt_values_ok (t : TT.table) : Prop :=
  Forall (fun bk => Forall (fun e => - SearchParams.Inf <= TT.e_value e <= SearchParams.Inf) (TT.b_entries bk)) t.
