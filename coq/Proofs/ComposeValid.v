(* Composition, part 1: a valid position has the two side invariants that C03 asks for
   (ep_inv, castle_inv of Proofs/PseudoApplicable.v), hence every move accepted by IsPseudoLegal and
   every generated move of a valid position is [applicable], and MakeMove / UndoMove are inverse on it.

   Nothing new is modelled here: the lemmas only connect
     valid_parts / ep_ok_parts (Proofs/SuccFacts.v), rc_elim (Proofs/SpecLemmas.v)   [Spec/Chess.v valid]
     pseudo_legal_applicable (Proofs/PseudoApplicable.v), undo_make (Proofs/UndoMove.v)   [C03]
     generated_is_accepted (Proofs/IplC05.v)                                              [C05]. *)
From Coq Require Import NArith ZArith List Bool Lia.
From Chess3 Require Import Proofs.LayoutNow.
From Chess3 Require Import Base.Bits Base.Word Model.Types Model.Att Model.BoardDef Model.Board Model.Movegen.
From Chess3 Require Import Spec.Geometry Spec.Chess Spec.Rep Spec.Applicable.
From Chess3 Require Import Proofs.SuccLists Proofs.SuccCore Proofs.SuccCells Proofs.SuccFacts.
From Chess3 Require Import Proofs.BoardInv Proofs.UndoMove Proofs.PseudoApplicable Proofs.Statements.
From Chess3 Require Proofs.SpecLemmas Proofs.IplC05 Proofs.IplSpec.
Import ListNotations.
Open Scope N_scope.
Ltac Zify.zify_post_hook ::= Z.to_euclidean_division_equations.

(* what [holds (abs b) s c k] says about the engine board *)
Lemma holds_abs_board b s c k : Rep b -> s < 64 -> holds (abs b) s c k = true ->
  piece_at b s = k /\ N.testbit (colors b c) s = true /\ N.testbit (colors b (flip c)) s = false.
Proof.
  intros HR Hs H. rewrite holds_abs in H by exact Hs.
  destruct (cell b s) as [[c' k']|] eqn:EC; [|discriminate].
  apply andb_true_iff in H. destruct H as [H1 H2].
  apply color_eqb_eq in H1. apply N.eqb_eq in H2. subst c' k'.
  destruct (cell_Some b s c k EC) as [Hp [Hk Hc]].
  split; [exact Hp|].
  assert (Hne : piece_at b s <> 0) by (rewrite Hp; exact Hk).
  rewrite !(Rep_color_of b s _ HR Hs Hne), Hc.
  split; destruct c; reflexivity.
Qed.

Lemma sq_rank_all : forallb (fun s => sq_rank s =? s / 8) squares64 = true.
Proof. vm_compute. reflexivity. Qed.
Lemma sq_rank_div s : s < 64 -> sq_rank s = s / 8.
Proof. intros Hs. apply N.eqb_eq. exact (sweep1 _ sq_rank_all s Hs). Qed.

(* ------------------------------------------------------------------------------------------ *)
(* valid => ep_inv *)

Theorem valid_ep_inv b : Rep b -> valid (abs b) = true -> PseudoApplicable.ep_inv b = true.
Proof.
  intros HR HV. destruct (valid_parts _ HV) as [_ [_ [_ [_ [_ [_ HE]]]]]].
  unfold PseudoApplicable.ep_inv.
  destruct (ep b =? 0) eqn:E0; [reflexivity|]. cbn [orb].
  assert (Eep : epsq (abs b) = Some (ep b)) by (unfold abs; cbn [epsq]; rewrite E0; reflexivity).
  destruct (ep_ok_parts _ _ HE Eep) as [Hrk [Hemp [_ [Hpawn _]]]].
  change (turn (abs b)) with (stm b) in Hrk, Hpawn.
  pose proof (Rep_ep_lt b HR) as He.
  rewrite empty_abs in Hemp by exact He.
  unfold rank_n in Hrk.
  rewrite (sq_rank_div _ He).
  remember (stm b) as c eqn:Ec.
  assert (Hv : fwd (flip c) (ep b) = ep_victim c (ep b)) by (destruct c; reflexivity).
  assert (Hvlt : ep_victim c (ep b) < 64).
  { destruct c; cbn [ep_victim]; lia. }
  rewrite Hv in Hpawn.
  destruct (holds_abs_board b _ _ _ HR Hvlt Hpawn) as [_ [_ Hnot]].
  rewrite SpecLemmas.flip_flip in Hnot.
  rewrite Hnot. cbn [negb]. rewrite andb_true_r.
  apply andb_true_iff. split; [apply N.eqb_eq; exact Hrk|exact Hemp].
Qed.

(* ------------------------------------------------------------------------------------------ *)
(* valid => castle_inv *)

Lemma right_corner b c long : Rep b -> valid (abs b) = true ->
  N.testbit (castles b) (SpecLemmas.right_ix c long) = true ->
  piece_at b (rook_home c long) = Rook /\ N.testbit (colors b c) (rook_home c long) = true.
Proof.
  intros HR HV HT. destruct (valid_parts _ HV) as [_ [_ [_ [_ [_ [HRC _]]]]]].
  assert (Hr : has_right (abs b) c long = true) by (rewrite SpecLemmas.has_right_testbit; exact HT).
  destruct (SpecLemmas.rc_elim _ c long HRC Hr) as [_ Hrook].
  assert (Hlt : rook_home c long < 64) by (destruct c, long; vm_compute; reflexivity).
  destruct (holds_abs_board b _ _ _ HR Hlt Hrook) as [H1 [H2 _]]. split; assumption.
Qed.

Theorem valid_castle_inv b : Rep b -> valid (abs b) = true -> castle_inv b = true.
Proof.
  intros HR HV. unfold castle_inv.
  assert (K : forall c long i corner, SpecLemmas.right_ix c long = i -> rook_home c long = corner ->
            negb (N.testbit (castles b) i) || ((piece_at b corner =? Rook) && N.testbit (colors b c) corner) = true).
  { intros c long i corner Ei Ec. destruct (N.testbit (castles b) i) eqn:T; [|reflexivity]. cbn [negb orb].
    rewrite <- Ei in T. destruct (right_corner b c long HR HV T) as [H1 H2].
    rewrite Ec in H1, H2. rewrite H1, H2. reflexivity. }
  rewrite (K White false 0 H1), (K White true 1 A1), (K Black false 2 H8), (K Black true 3 A8); reflexivity.
Qed.

Theorem valid_side_invariants b : Rep b -> valid (abs b) = true ->
  PseudoApplicable.ep_inv b = true /\ castle_inv b = true.
Proof. intros HR HV. split; [apply valid_ep_inv|apply valid_castle_inv]; assumption. Qed.

(* ------------------------------------------------------------------------------------------ *)
(* applicable, undo after make *)

Theorem pseudo_legal_applicable_valid b m :
  Rep b -> valid (abs b) = true -> is_pseudo_legal b m = true -> applicable b m = true.
Proof.
  intros HR HV HI. destruct (valid_side_invariants b HR HV) as [HE HC].
  apply pseudo_legal_applicable; assumption.
Qed.

(* item 2: the generated moves (no bound on the encoding is needed: generated_is_accepted) *)
Theorem gen_applicable_valid b m :
  Rep b -> valid (abs b) = true -> In m (gen_all b) -> applicable b m = true.
Proof.
  intros HR HV HG. apply pseudo_legal_applicable_valid; [exact HR|exact HV|].
  apply IplC05.generated_is_accepted; assumption.
Qed.

Theorem pseudo_legal_move_valid z b m :
  Rep b -> valid (abs b) = true -> is_pseudo_legal b m = true ->
  let '(b', t) := make z b m in undo z b' m t = b.
Proof.
  intros HR HV HI. apply C03_move_now_l; [exact HR|apply pseudo_legal_applicable_valid; assumption].
Qed.

Theorem generated_move_valid z b m :
  Rep b -> valid (abs b) = true -> In m (gen_all b) ->
  let '(b', t) := make z b m in undo z b' m t = b.
Proof.
  intros HR HV HG. apply C03_move_now_l; [exact HR|apply gen_applicable_valid; assumption].
Qed.

(* a legal move is pseudo-legal for the engine, hence applicable *)
Theorem legal_applicable b m : Rep b -> valid (abs b) = true -> legal_spec (abs b) m = true -> applicable b m = true.
Proof.
  intros HR HV HL. apply pseudo_legal_applicable_valid; [exact HR|exact HV|].
  rewrite (IplSpec.ipl_eq_spec b m HR HV). exact (proj1 (legal_parts _ _ HL)).
Qed.
