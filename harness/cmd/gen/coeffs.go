package main

import (
	"fmt"
	"reflect"
	"strings"

	"github.com/paulsonkoly/chess-3/board"
	"github.com/paulsonkoly/chess-3/eval"
)

// Gen/Coeffs.v: the evaluation's coefficient set and constants.
//
// The record TYPE CoeffSet is generated from the shape of eval.CoeffSet (walked with reflection, so
// that an added, removed, renamed or re-dimensioned field changes the generated file and with it
// everything that depends on it); [T] -> list T, [n][m]T -> list (list T).  Coefficients is
// eval.Coefficients (the engine's int16 instance) as a CoeffSet Z.  coeff_shape lists the field
// names with their dimensions, coeff_map is the functorial map (used for the real-number instance).
func init() {
	generators = append(generators, func() {
		f := newFile("Coeffs.v", "From Coq Require Import NArith ZArith List String.\nImport ListNotations.\nOpen Scope Z_scope.")
		v := reflect.ValueOf(eval.Coefficients)
		t := v.Type()

		type fld struct {
			name string
			dims []int
		}
		var flds []fld
		for i := 0; i < t.NumField(); i++ {
			ft := t.Field(i).Type
			var dims []int
			for ft.Kind() == reflect.Array {
				dims = append(dims, ft.Len())
				ft = ft.Elem()
			}
			if ft.Kind() != reflect.Int16 || len(dims) < 1 || len(dims) > 2 {
				// fail closed: an unknown field shape must not be dropped silently
				f.p("(* field %s has the unsupported type %s *)\nDefinition unsupported_coefficient_field : False := I.\n", t.Field(i).Name, t.Field(i).Type)
				continue
			}
			flds = append(flds, fld{t.Field(i).Name, dims})
		}

		ty := func(d []int, elem string) string {
			if len(d) == 1 {
				return "list " + elem
			}
			return "list (list " + elem + ")"
		}

		f.p("Record CoeffSet (T : Type) : Type := mkCoeffSet {\n")
		for i, fl := range flds {
			sep := ";"
			if i == len(flds)-1 {
				sep = ""
			}
			f.p("  %s : %s%s\n", fl.name, ty(fl.dims, "T"), sep)
		}
		f.p("}.\n")
		for _, fl := range flds {
			f.p("Arguments %s {T} _.\n", fl.name)
		}
		f.p("Arguments mkCoeffSet {T}")
		for range flds {
			f.p(" _")
		}
		f.p(".\n\n")

		f.p("Definition coeff_shape : list (string * list Z) := [\n")
		for i, fl := range flds {
			ds := make([]string, len(fl.dims))
			for k, d := range fl.dims {
				ds[k] = fmt.Sprint(d)
			}
			sep := ";"
			if i == len(flds)-1 {
				sep = ""
			}
			f.p("  (\"%s\"%%string, [%s])%s\n", fl.name, strings.Join(ds, "; "), sep)
		}
		f.p("].\n\n")

		f.p("Definition coeff_map {A B : Type} (g : A -> B) (c : CoeffSet A) : CoeffSet B := mkCoeffSet\n")
		for _, fl := range flds {
			if len(fl.dims) == 1 {
				f.p("  (map g (%s c))\n", fl.name)
			} else {
				f.p("  (map (map g) (%s c))\n", fl.name)
			}
		}
		f.p(".\n\n")

		num := func(x int64) string {
			if x < 0 {
				return fmt.Sprintf("(%d)", x)
			}
			return fmt.Sprint(x)
		}
		var row func(v reflect.Value) string
		row = func(v reflect.Value) string {
			parts := make([]string, v.Len())
			for i := 0; i < v.Len(); i++ {
				if v.Index(i).Kind() == reflect.Array {
					parts[i] = row(v.Index(i))
				} else {
					parts[i] = num(v.Index(i).Int())
				}
			}
			sep := "; "
			if v.Len() > 0 && v.Index(0).Kind() == reflect.Array {
				sep = ";\n    "
			}
			return "[" + strings.Join(parts, sep) + "]"
		}
		f.p("Definition Coefficients : CoeffSet Z := mkCoeffSet\n")
		for _, fl := range flds {
			f.p("  (* %s *)\n  %s\n", fl.name, row(v.FieldByName(fl.name)))
		}
		f.p(".\n\n")

		// Marker coefficient set for the term-activation measurement of stream c17 (Model/EvalAct.v):
		// every entry of coefficient group number d is mark_base^d, so that one evaluation at the
		// plain-integer score structure yields, per accumulator, a base-mark_base number whose digit d
		// counts the contributions of group d. A group is a field; a two-dimensional field whose
		// first dimension is not the mg/eg pair (PSqT: 12 = 6 pieces x mg/eg) has one group per pair
		// of rows; a small [2][n<=6] table (indexed by piece kind or rank) has one group per column. The group names are listed in the comment line `mark_names:` (read by lib/props.py).
		const markBits = 12
		names := []string{"CornerDist"} // digit 0: contributions that are not coefficients (KNBvK corner distance * 30)
		f.p("Definition mark_bits : Z := %d.\n", markBits)
		f.p("Definition mark_base : Z := %d.\n", 1<<markBits)
		f.p("Definition coeff_mark : CoeffSet Z := mkCoeffSet\n")
		pow := func(d int) string { return fmt.Sprintf("(2 ^ %d)", markBits*d) }
		for _, fl := range flds {
			switch {
			case len(fl.dims) == 1:
				f.p("  (repeat %s %d)\n", pow(len(names)), fl.dims[0])
				names = append(names, fl.name)
			case fl.dims[0] == 2 && fl.dims[1] <= 6:
				// small mg/eg tables indexed by piece kind or rank: one group per column
				cols := make([]string, fl.dims[1])
				for j := range cols {
					cols[j] = pow(len(names) + j)
				}
				f.p("  (repeat [%s] 2)\n", strings.Join(cols, "; "))
				for j := range cols {
					names = append(names, fmt.Sprintf("%s.%d", fl.name, j))
				}
			case fl.dims[0] == 2:
				f.p("  (repeat (repeat %s %d) 2)\n", pow(len(names)), fl.dims[1])
				names = append(names, fl.name)
			default:
				rows := make([]string, fl.dims[0])
				for r := range rows {
					rows[r] = fmt.Sprintf("repeat %s %d", pow(len(names)+r/2), fl.dims[1])
				}
				f.p("  [%s]\n", strings.Join(rows, ";\n   "))
				for r := 0; r < (fl.dims[0]+1)/2; r++ {
					names = append(names, fmt.Sprintf("%s.%d", fl.name, r))
				}
			}
		}
		f.p(".\n")
		f.p("Definition mark_groups : Z := %d.\n", len(names))
		f.p("(* mark_names: %s *)\n\n", strings.Join(names, " "))

		// sigmoid table
		sg := eval.VerifSigm()
		ss := make([]string, len(sg))
		for i, x := range sg {
			ss[i] = num(int64(x))
		}
		f.p("Definition sigm : list Z := [%s].\n", strings.Join(ss, "; "))

		sob := eval.VerifSideOfBoard()
		f.p("Definition sideOfBoard : list N := [%d; %d]%%N.\n", uint64(sob[0]), uint64(sob[1]))
		f.p("Definition MaxPhase : Z := %d.\n", eval.MaxPhase)
		ph := make([]string, len(eval.Phase))
		for i, x := range eval.Phase {
			ph[i] = fmt.Sprint(x)
		}
		f.p("Definition Phase : list Z := [%s].\n", strings.Join(ph, "; "))
		f.p("Definition KBCorners : list (list N) := [[%d; %d]; [%d; %d]]%%N.\n",
			eval.KBCorners[0][0], eval.KBCorners[0][1], eval.KBCorners[1][0], eval.KBCorners[1][1])
		// width of the halfmove clock field: `100 - fifty` is computed in that type
		f.p("Definition fifty_bits : Z := %d.\n", reflect.TypeOf(board.Board{}.FiftyCnt).Bits())
		// width of Score
		f.p("Definition score_bits : Z := %d.\n", reflect.TypeOf(eval.Coefficients.TempoBonus[0]).Bits())
	})
}
