(* Specification side of C16, independent of Model/Picker.v and Model/Hist.v: what an observed run
   of the picker (or of the history tables) must satisfy. Used as the judge of the witness search.

   C16 for one observation: the implementation reported
     ipl            = IsPseudoLegal(hash move)
     noisy, quiet   = the generated moves with the weights the ranker gave them
     yielded        = the sequence the picker yielded
   and the property demands: yielded (as moves) is a duplicate-free rearrangement of noisy ++ quiet,
   the hash move comes first whenever ipl, the frames below the picker's frame are untouched, and
   every weight lies in its designed band. *)
From Coq Require Import ZArith List Bool.
Import ListNotations.
From Chess3 Require Import Gen.HeurConsts.
Open Scope Z_scope.

Fixpoint insert_sorted (x : Z) (l : list Z) : list Z :=
  match l with
  | [] => [x]
  | y :: t => if x <=? y then x :: l else y :: insert_sorted x t
  end.
Definition sort_z (l : list Z) : list Z := fold_right insert_sorted [] l.

Fixpoint list_eqb (a b : list Z) : bool :=
  match a, b with
  | [], [] => true
  | x :: a', y :: b' => (x =? y) && list_eqb a' b'
  | _, _ => false
  end.

Fixpoint strictly_increasing (l : list Z) : bool :=
  match l with
  | x :: ((y :: _) as t) => (x <? y) && strictly_increasing t
  | _ => true
  end.

(* same elements, each exactly once *)
Definition exactly_once (yielded generated : list Z) : bool :=
  list_eqb (sort_z yielded) (sort_z generated) && strictly_increasing (sort_z yielded).

(* the designed bands of heur/heur.go's package comment *)
Definition good_capture_band (w : Z) : bool := (Captures <=? w) && (w <? Captures + CaptureRange).
Definition bad_capture_band (w : Z) : bool := (- Captures - CaptureRange <=? w) && (w <? - Captures).
Definition quiet_band (w : Z) : bool := (- 3 * MaxHistory <=? w) && (w <=? 3 * MaxHistory).
Definition history_band (h : Z) : bool := (- MaxHistory <=? h) && (h <=? MaxHistory).

Fixpoint spec_take_pairs (n : nat) (l : list Z) : list (Z * Z) * list Z :=
  match n, l with
  | S n', a :: b :: rest => let (ps, tl) := spec_take_pairs n' rest in ((a, b) :: ps, tl)
  | _, _ => ([], l)
  end.

Fixpoint skip_n (n : nat) (l : list Z) : list Z :=
  match n, l with S n', _ :: t => skip_n n' t | _, _ => l end.

Definition is_panic (l : list Z) : bool := list_eqb l [-1; -1; -1].

(* judge of stream c16p: input ++ observed output -> [1] | [0; clause]
     clause 1  yielded is not "every generated move exactly once"
     clause 2  hash move pseudo-legal but not yielded first
     clause 3  a lower frame of the move store was modified / the store was not restored by Pop
     clause 4  a noisy weight outside the capture bands
     clause 5  a quiet weight outside +-3*MaxHistory
     clause 6  panic although base + 1 + generated moves fit into the store
     clause 7  a quiet weight inside a capture band, at the duplicate sentinel or at/below the
               yieldRest threshold, or a noisy weight at/below the threshold or at/above HashMove
     clause 99 unreadable *)
Definition judge_c16p (io : list Z) : list Z :=
  match io with
  | base :: hm :: _ipl :: nN :: rest =>
    let rest1 := skip_n (4 * Z.to_nat nN)%nat rest in
    match rest1 with
    | nQ :: rest2 =>
      let rest3 := skip_n (2 * Z.to_nat nQ)%nat rest2 in
      match (match rest3 with nP :: r => skip_n (2 * Z.to_nat nP)%nat r | [] => [] end) with
      | fenlen :: rest4 =>
        match skip_n (Z.to_nat fenlen) rest4 with
        | k :: rest5 =>
          match skip_n (3 * Z.to_nat k)%nat rest5 with
          | _seed :: _rounds :: _stale :: out =>
            if is_panic out then
              (if base + 1 + nN + nQ <=? StoreSize then [0; 6] else [1])
            else
            match out with
            | ipl :: onN :: o1 =>
              let (noisy, o2) := spec_take_pairs (Z.to_nat onN) o1 in
              match o2 with
              | onQ :: o3 =>
                let (quiet, o4) := spec_take_pairs (Z.to_nat onQ) o3 in
                match o4 with
                | intact :: after :: nY :: o5 =>
                  let (yielded, _) := spec_take_pairs (Z.to_nat nY) o5 in
                  let generated := map fst noisy ++ map fst quiet in
                  if negb (exactly_once (map fst yielded) generated) then [0; 1]
                  else if negb (ipl =? 0) && negb (match yielded with (m, _) :: _ => m =? hm | [] => false end) then [0; 2]
                  else if negb ((intact =? 1) && (after =? base)) then [0; 3]
                  else if negb (forallb (fun mw => good_capture_band (snd mw) || bad_capture_band (snd mw)) noisy) then [0; 4]
                  else if negb (forallb (fun mw => quiet_band (snd mw)) quiet) then [0; 5]
                  else if negb (forallb (fun mw => negb (good_capture_band (snd mw)) && negb (bad_capture_band (snd mw))
                                                   && (- HashMove + 1 <? snd mw)) quiet
                                && forallb (fun mw => (- HashMove + 1 <? snd mw) && (snd mw <? HashMove)) noisy) then [0; 7]
                  else [1]
                | _ => [0; 99]
                end
              | _ => [0; 99]
              end
            | _ => [0; 99]
            end
          | _ => [0; 99]
          end
        | _ => [0; 99]
        end
      | _ => [0; 99]
      end
    | _ => [0; 99]
    end
  | _ => [0; 99]
  end.

(* judge of stream c16h: every observed cell within +-MaxHistory, every observed RankQuiet weight
   within +-3*MaxHistory. The observation is input ++ output; the output starts after the position.
     clause 1  a history / continuation / capture-history cell outside the band
     clause 2  a quiet weight outside the band
   A panic of a malformed case is outside the property. *)
Fixpoint judge_h_ops (fuel : nat) (l : list Z) (out_kinds : list (Z * nat)) : list (Z * nat) * list Z :=
  (* returns the kinds (0 = cells, 2 = weights) and counts of the output sections, and the rest *)
  match fuel with
  | O => (out_kinds, l)
  | S fuel' =>
    match l with
    | 0 :: _ :: _ :: _ :: _ :: _ :: _ :: _ :: _ :: n :: rest =>
        judge_h_ops fuel' (skip_n (4 * Z.to_nat n)%nat rest) (out_kinds ++ [(0, (4 * Z.to_nat n)%nat)])
    | 1 :: _ :: _ :: _ :: _ :: _ :: _ :: _ :: rest =>
        judge_h_ops fuel' rest (out_kinds ++ [(0, 1%nat)])
    | 2 :: _ :: _ :: _ :: _ :: _ :: _ :: _ :: n :: rest =>
        judge_h_ops fuel' (skip_n (2 * Z.to_nat n)%nat rest) (out_kinds ++ [(2, Z.to_nat n)])
    | _ => (out_kinds, l)
    end
  end.

Fixpoint judge_h_out (kinds : list (Z * nat)) (out : list Z) : list Z :=
  match kinds with
  | [] => [1]
  | (k, n) :: rest =>
    let vals := firstn n out in
    if k =? 0 then
      (if forallb history_band vals then judge_h_out rest (skip_n n out) else [0; 1])
    else
      (if forallb quiet_band vals then judge_h_out rest (skip_n n out) else [0; 2])
  end.

Definition judge_c16h (io : list Z) : list Z :=
  match io with
  | n :: ops =>
    let (kinds, rest) := judge_h_ops (Z.to_nat n) ops [] in
    match rest with
    | fenlen :: rest1 =>
      let out := skip_n (Z.to_nat fenlen) rest1 in
      if is_panic out then [1] else judge_h_out kinds out
    | [] => [0; 99]
    end
  | [] => [0; 99]
  end.
