(* C07, Layer A (control skeleton) - the PV buffer discipline that the functional reading
   "line(ply) := m :: line(ply+1) of the child just searched under m" rests on.  Statements only;
   proofs in Proofs/SkelPv.v.

   The machine keeps the PV buffer as region -> line and two ghosts: lastret = (ply, made moves,
   line of region ply) at the most recent return of a search call (cleared when a search call is
   entered), and the monitor pv_bad, raised by an s.pv.insert(ply, m) unless
       lastret = (ply+1, m :: moves made now, current content of region ply+1),
   i.e. unless the most recently returned search call was the child at ply+1 searched with exactly m
   made on top of the current position, no search call was entered since, and region ply+1 still holds
   what that child left.  Conditions are nondeterministic except recognised comparisons over local
   variables (IfC), which is what excludes the paths "no child searched" (fullSearched, value <= alpha). *)
From Coq Require Import String List ZArith Bool.
From Chess3 Require Import Model.Skel Model.SkelCheck Gen.SearchSkel
  Proofs.SkelInstances Proofs.SkelTheorems Proofs.SkelExamples.
Import ListNotations.
Open Scope string_scope.

Theorem C07_skeleton_pv_discipline : table_ok (pvs_dom unframed (multi_conds ftable)) ftable = true.
Proof. exact table_pv_discipline. Qed.
Print Assumptions C07_skeleton_pv_discipline.

(* no execution of any function of search.go (any outcome, any intermediate point) raises the monitor *)
Theorem C07_insert_reads_fresh_child_line :
  forall (B M T : Type) (make : M -> B -> B * T) (undo : M -> T -> B -> B)
         (make_null : B -> B * T) (undo_null : T -> B -> B) f p c o c',
  exec B M T make undo make_null undo_null ftable (Call f p) c o c' ->
  pv_bad B M (fst c) = false -> pv_bad B M (fst c') = false.
Proof. exact skel_pv_monitor. Qed.
Print Assumptions C07_insert_reads_fresh_child_line.

(* alphaBeta / quiescence (any function but Go and iterativeDeepen) entered at the caller's ply, or
   deeper, never write a PV region below the caller's ply *)
Theorem C07_regions_below_untouched :
  forall (B M T : Type) (make : M -> B -> B * T) (undo : M -> T -> B -> B)
         (make_null : B -> B * T) (undo_null : T -> B -> B) f p c c',
  exec B M T make undo make_null undo_null ftable (Call f p) c ONormal c' ->
  pv_bad B M (fst c) = false ->
  mem f unframed = false -> (match p with PlyAbs _ => False | _ => True end) ->
  forall j, j < ply M T (snd c) -> pv B M (fst c') j = pv B M (fst c) j.
Proof. exact skel_pv_frame. Qed.
Print Assumptions C07_regions_below_untouched.

(* non-vacuity: (1) the monitor is a real test - a hand-written parent that inserts directly after
   its child is accepted (and gets line [m]), one that searches another child in between is flagged;
   (2) the generated skeleton has a complete execution of Search.Go in which an s.pv.insert happened
   (region 0 non-empty at the end) - by the theorem above, with the monitor silent *)
Example C07_nonvacuous :
  ((exists c', exec cB cM cT cmake cundo cmake_null cundo_null tiny_table tiny_good (cglob0 10, tiny_locals) ONormal c'
               /\ pv_bad _ _ (fst c') = false /\ pv _ _ (fst c') 0 = [4])
   /\ (exists c', exec cB cM cT cmake cundo cmake_null cundo_null tiny_table tiny_bad (cglob0 10, tiny_locals) ONormal c'
               /\ pv_bad _ _ (fst c') = true))
  /\ (exists c', exec cB cM cT cmake cundo cmake_null cundo_null ftable (Call "Go" PlyKeep) (cstate0 1000) ONormal c'
               /\ (0 < nodes _ _ (fst c'))%Z /\ 0 < stores _ _ (fst c') /\ pv _ _ (fst c') 0 <> [])
  /\ pv_bad _ _ (fst (cstate0 1000)) = false /\ mem "alphaBeta" unframed = false.
Proof.
  split; [exact monitor_accepts_and_rejects|]. split; [exact go_run_exists|]. split; reflexivity.
Qed.
