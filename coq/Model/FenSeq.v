(* C11, command sequences: the whole of uci handlePosition (board installation as in Model/Fen.v
   handle_position, then applyMoves as in Model/ApplyMoves.v) and the stream c11seq that runs
   SEQUENCES of position commands on one driver.  The driver state the position command reads and
   writes is the board and nothing else (uci.go: handlePosition touches d.board only), so the model
   of a sequence is the fold of [handle_position_moves] over the commands. *)
From Coq Require Import NArith ZArith List Bool.
From Chess3 Require Import Base.Bits Model.Types Model.BoardDef Model.Board Model.Fen Model.ApplyMoves
  Model.FenStreams Gen.Zobrist.
Import ListNotations.
Open Scope N_scope.

Definition tok_moves : list N := [109; 111; 118; 101; 115].     (* "moves" *)

(* applyMoves: the board after the accepted prefix; 4 = a message on the error stream
   ("invalid uci move" / "uci move not pseudo-legal"), the moves before it stay played *)
Definition play_moves (z : zobrist) (b : board) (toks : list (list N)) : board * N :=
  (apply_moves z b toks,
   if (length (accepted_moves z b toks) <? length toks)%nat then 4 else 0).

(* message classes: 0 none, 1 not enough arguments, 2 invalid fen, 3 invalid piece counts, 4 move error *)
Definition handle_position_moves (z : zobrist) (d : board) (args : list (list N)) : outcome (board * N) :=
  match handle_position z d args with
  | Ok (d', code) =>
    if negb (code =? 0) then Ok (d', code)
    else
      match args with
      | a0 :: _ =>
        if list_eqb a0 tok_startpos then
          (* if len(args) > 2 && args[1] == "moves" { d.applyMoves(args[2:]) } *)
          if (2 <? length args)%nat && list_eqb (nth 1 args []) tok_moves
          then Ok (play_moves z d' (skipn 2 args)) else Ok (d', 0)
        else if list_eqb a0 tok_fen then
          (* if len(args) >= 8 && args[7] == "moves" { d.applyMoves(args[8:]) } *)
          if (8 <=? length args)%nat && list_eqb (nth 7 args []) tok_moves
          then Ok (play_moves z d' (skipn 8 args)) else Ok (d', 0)
        else Ok (d', 0)
      | [] => Ok (d', 0)
      end
  | Err e => Err e
  | Panic => Panic
  | Diverge => Diverge
  end.

(* c11seq: n (n numbers: commands separated by 257, tokens separated by 256)
           -> board-out(fresh driver) then per command:
              code board-out(after the command on the one driver)
              fcode board-out(after the same command alone on a fresh driver) *)
Fixpoint seq_run (z : zobrist) (d0 d : board) (cmds : list (list (list N))) : option (list Z) :=
  match cmds with
  | [] => Some []
  | c :: r =>
    match handle_position_moves z d c, handle_position_moves z d0 c with
    | Ok (d1, code), Ok (f1, fcode) =>
      match seq_run z d0 d1 r with
      | Some t => Some ([Z.of_N code] ++ encode_board d1 ++ [Z.of_N fcode] ++ encode_board f1 ++ t)
      | None => None
      end
    | _, _ => None
    end
  end.

Definition run_c11seq (l : list Z) : list Z :=
  match l with
  | n :: r =>
    let cmds := map tokens_of (split_on 257 (firstn (Z.to_nat n) r) []) in
    match from_fen zob_real startpos_fen with
    | Ok d0 =>
      match seq_run zob_real d0 d0 cmds with
      | Some t => encode_board d0 ++ t
      | None => panic_out
      end
    | _ => panic_out
    end
  | [] => []
  end.
